//go:build verif

// Known finding C15-F1: api.TraceError(e, err) truly concurrent with e.Exit() on the SAME entry
// is a data race on EntryContext.err (core/base/context.go) on the unchanged tree.
//
//	goroutine A: api.TraceError(e, err) -> (*SentinelEntry).SetError: `if !e.isExited() { e.ctx.SetError(err) }`
//	             (unsynchronised write of ctx.err; the isExited test and the write are not atomic with
//	             the recycling done by Exit, so the write can also land in a context that already
//	             belongs to another entry)
//	goroutine B: e.Exit() -> SlotChain.exit -> stat.(*Slot).OnCompleted reads ctx.Err(), then
//	             RefurbishContext -> (*EntryContext).Reset writes ctx.err
//
// How to run (the program lives outside the harness module; it is compiled INTO it with an overlay,
// nothing is written into the harness tree):
//
//	cd /verif && ./check C15 --replay corpus/C15/traceerror_exit_race/replay.json
//
// = build/bin/vh-c15 --only 9000: builds this file as package vh/cmd/vh-c15/traceexit with
// `go build -race -tags verif -overlay ...` against /repo (or $VERIF_REPO), runs ROUNDS rounds
// (default 2000; each round: one Entry, then TraceError and Exit of that entry from two
// goroutines released together), parses the race detector's log and prints
//
//	run 9000: mode=traceexit rounds=2000 race reports: N
//	MONITOR-FAIL clause=no-data-race signature=traceerror-concurrent-with-exit-on-one-entry-races-on-ctx-err race detector: ...
//
// (exit status 1 of ./check --replay = the finding reproduces).  By hand:
//
//	cd /verif/harness && echo '{"Replace":{"/verif/harness/cmd/vh-c15/traceexit/main.go":"/verif/corpus/C15/traceerror_exit_race/main.go"}}' > /tmp/ov.json
//	CGO_ENABLED=1 GOFLAGS=-mod=mod GOPROXY=off go build -race -tags verif -overlay /tmp/ov.json -o /tmp/traceexit ./cmd/vh-c15/traceexit && /tmp/traceexit
//
// prints "WARNING: DATA RACE" blocks (Write by api.TraceError ... / Previous read by
// (*EntryContext).Err() <- stat.(*Slot).OnCompleted <- (*SentinelEntry).Exit) on stderr and
// `rounds=2000 done` on stdout.  It is NOT part of the deterministic legs of the check: whether the
// detector sees the two accesses overlap depends on the schedule.
package main

import (
	"errors"
	"flag"
	"fmt"
	"sync"

	sentinel "github.com/alibaba/sentinel-golang/api"
	"vh/internal/env"
)

func main() {
	rounds := flag.Int("rounds", 2000, "rounds")
	flag.Parse()
	env.Init(env.Options{})
	for i := 0; i < *rounds; i++ {
		e, b := sentinel.Entry("c15-f1-traceerror-exit")
		if b != nil {
			continue
		}
		start := make(chan struct{})
		var wg sync.WaitGroup
		wg.Add(2)
		go func() { defer wg.Done(); <-start; sentinel.TraceError(e, errors.New("traced while exiting")) }()
		go func() { defer wg.Done(); <-start; e.Exit() }()
		close(start)
		wg.Wait()
	}
	fmt.Printf("rounds=%d done\n", *rounds)
}
