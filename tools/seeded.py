#!/usr/bin/env python3
"""Seeded regressions: verification and detection runs.

  tools/seeded.py verify <dir>      <dir> holds patch.diff, meta.json and a demonstration
                                    (demo_test.go with a header naming its package dir, or main.go).
                                    In a scratch worktree of /repo: root test-suite with the patch,
                                    demonstration with and without the patch.
  tools/seeded.py run <seeded-id> [--tier quick]
                                    apply /verif/seeded/<id>/patch.diff in a scratch worktree and run
                                    ./check <property> against it (VERIF_REPO); prints the verdict and
                                    stores it in /verif/seeded/<id>/detection.json
  tools/seeded.py runall            every directory under /verif/seeded
  (run also accepts an absolute directory, e.g. /verif/harmless/<id>: behaviour-preserving
   refactorings, where the expected verdict is "not detected"; `suite <dir>` only runs the
   root test-suite with the patch)

Scratch worktrees live under /tmp/vsw and are removed when done.
"""
import json, os, re, shutil, subprocess, sys, time, glob

ROOT = os.path.dirname(os.path.dirname(os.path.abspath(__file__)))
ENV = dict(os.environ, GOFLAGS="-mod=mod", GOPROXY="off", GOSUMDB="off", GOTOOLCHAIN="local")
SW = "/tmp/vsw"


def sh(cmd, cwd=None, timeout=3600, env=None):
    p = subprocess.run(cmd, cwd=cwd, shell=isinstance(cmd, str), stdout=subprocess.PIPE, stderr=subprocess.STDOUT,
                       timeout=timeout, env=env or ENV)
    return p.returncode, p.stdout.decode("utf-8", "replace")


def worktree(name):
    d = os.path.join(SW, name, "repo")
    if os.path.exists(d):
        sh(["git", "-C", "/repo", "worktree", "remove", "--force", d])
        shutil.rmtree(os.path.join(SW, name), ignore_errors=True)
    os.makedirs(os.path.dirname(d), exist_ok=True)
    rc, out = sh(["git", "-C", "/repo", "worktree", "add", "--detach", d, "HEAD"])
    if rc != 0:
        sys.exit("worktree add failed: " + out)
    return d


def drop(name):
    d = os.path.join(SW, name, "repo")
    sh(["git", "-C", "/repo", "worktree", "remove", "--force", d])
    shutil.rmtree(os.path.join(SW, name), ignore_errors=True)
    sh(["git", "-C", "/repo", "worktree", "prune"])


def demo_cmd(d, wt):
    """returns (prepare(), run-cmd, cwd, cleanup()) from the demonstration's header comment:
    `Copy this file into repo/<pkgdir>/ ... and run ... [cd repo[/<moddir>] &&] go test ...`"""
    t = os.path.join(d, "demo_test.go")
    m = os.path.join(d, "main.go")
    meta = json.load(open(os.path.join(d, "meta.json"))) if os.path.exists(os.path.join(d, "meta.json")) else {}
    if os.path.exists(t):
        head = open(t).read()[:4000]
        pk = meta.get("demo_pkg_dir")
        if not pk:
            mm = re.search(r"[Cc]opy (?:this file )?(?:into|to)\s*:?\s+`?repo/([\w./-]+?)(?:/\w+_test\.go)?/?`?\s", head)
            pk = mm.group(1) if mm else None
        if not pk:
            sys.exit("cannot find package dir for demo_test.go in " + d)
        run = meta.get("demo_run")
        cwd = os.path.join(wt, meta["demo_cwd"]) if meta.get("demo_cwd") else wt
        if not run:
            mm = re.search(r"^//[^\n]*?(?:cd (repo[\w./-]*) && )?(go test [^\n]*)$", head, re.M)
            if not mm:
                sys.exit("cannot find run command in " + t)
            run = mm.group(2).strip()
            if mm.group(1) and mm.group(1) != "repo":
                cwd = os.path.join(wt, mm.group(1)[len("repo/"):])
        dst = os.path.join(wt, pk, "zz_seeded_demo_test.go")
        return (lambda: (os.makedirs(os.path.dirname(dst), exist_ok=True), shutil.copy(t, dst))), run, cwd, (lambda: os.path.exists(dst) and os.remove(dst))
    if os.path.exists(m):
        dd = os.path.join(wt, "zz_seeded_demo")
        def prep():
            os.makedirs(dd, exist_ok=True)
            shutil.copy(m, os.path.join(dd, "main.go"))
        return prep, meta.get("demo_run", "go run ./zz_seeded_demo"), wt, (lambda: shutil.rmtree(dd, ignore_errors=True))
    sys.exit("no demonstration in " + d)


# fails in this sandbox on the pinned snapshot already (fmt prints the mixed-type map keys in another order)
PREEXISTING_FAIL = {"TestHotSpotParamRuleJsonArrayParser"}
# load-dependent flakes of the pinned suite in this sandbox (fail now and then on the clean tree when the machine is busy)
FLAKY = {"Test_getProcessCpuStat", "TestCircuitBreakerSlotIntegration_Normal"}


def suite_ok(out):
    bad = set()
    for mm in re.finditer(r"^\s*--- FAIL: (\w+)", out, re.M):
        bad.add(mm.group(1))
    bad -= PREEXISTING_FAIL
    bad -= FLAKY
    pk_fail = [l for l in out.splitlines() if l.startswith("FAIL\t") and "ext/datasource\t" not in l and not l.rstrip().endswith("ext/datasource")
               and not ((("core/system_metric" in l) or ("tests/core/circuitbreaker" in l) or ("tests/benchmark/memory" in l)) and not bad)]
    build_fail = "[build failed]" in out or "[setup failed]" in out
    return (not bad and not pk_fail and not build_fail), sorted(bad), pk_fail


def verify(d):
    d = os.path.abspath(d)
    name = "verify-" + re.sub(r"\W", "_", d)[-40:]
    wt = worktree(name)
    res = {}
    try:
        meta = json.load(open(os.path.join(d, "meta.json"))) if os.path.exists(os.path.join(d, "meta.json")) else {}
        suite = meta.get("suite_cmd", "go build ./... && go test -count=1 ./... 2>&1")
        suite_cwd = os.path.join(wt, meta.get("suite_dir", "."))
        prep, run, cwd, clean = demo_cmd(d, wt)
        moddir = os.path.relpath(cwd, wt)
        if moddir != "." and os.path.exists(os.path.join(cwd, "go.mod")):
            meta.setdefault("extra_suites", []).append({"dir": moddir, "cmd": "go test -count=1 ./... 2>&1"})
        prep()
        rc0, out0 = sh(run, cwd=cwd, timeout=1200)
        res["demo_without_patch"] = "pass" if rc0 == 0 else "FAIL"
        clean()
        rc, out = sh(["git", "apply", os.path.join(d, "patch.diff")], cwd=wt)
        if rc != 0:
            res["apply"] = "FAILED: " + out[-400:]
            return res
        res["apply"] = "ok"
        rc, out = sh(suite, cwd=suite_cwd, timeout=3000)
        ok, bad, pk = suite_ok(out)
        res["suite_with_patch"] = "pass" if ok else "FAIL"
        if not ok:
            res["suite_failures"] = {"tests": bad, "packages": pk}
        for extra in meta.get("extra_suites", []):
            rc, out = sh(extra["cmd"], cwd=os.path.join(wt, extra.get("dir", ".")), timeout=3000)
            res["suite_with_patch:" + extra.get("dir", ".")] = "pass" if rc == 0 else "FAIL"
        prep()
        rc1, out1 = sh(run, cwd=cwd, timeout=1200)
        res["demo_with_patch"] = "FAILS (as it should)" if rc1 != 0 else "passes (demonstration does not show the breakage)"
        res["demo_tail_with_patch"] = out1[-800:]
        clean()
        res["confirmed"] = (rc0 == 0 and rc1 != 0 and res["suite_with_patch"] == "pass")
    finally:
        drop(name)
    return res


def run(sid, tier="quick"):
    d = sid if os.path.isabs(sid) else os.path.join(ROOT, "seeded", sid)
    sid = os.path.basename(d.rstrip("/"))
    meta = json.load(open(os.path.join(d, "meta.json")))
    props = meta.get("check_properties") or [meta["property"]]
    name = "run-%s-%d" % (sid, os.getpid())
    wt = worktree(name)
    out_all = {}
    try:
        rc, out = sh(["git", "apply", os.path.join(d, "patch.diff")], cwd=wt)
        if rc != 0:
            return {"error": "patch does not apply to current HEAD: " + out[-300:]}
        for pid in props:
            t0 = time.time()
            env = dict(ENV, VERIF_REPO=wt)
            rc, out = sh([os.path.join(ROOT, "check"), pid, "--tier", tier], cwd=ROOT, env=env, timeout=3600)
            vio = [l for l in out.splitlines() if l.startswith("VIOLATION")]
            brk = [l for l in out.splitlines() if l.startswith("BROKEN")]
            out_all[pid] = {"exit": rc, "violation_lines": vio, "broken": [b[:300] for b in brk][:3],
                            "detected": rc == 1 and bool(vio),
                            "concrete_input": bool(vio) and not any("no-failing-input-found" in v for v in vio),
                            "wall_s": round(time.time() - t0, 1), "tier": tier}
    finally:
        drop(name)
        # the scratch build directories of this run (check: build/<pid>-<sha1(tree path)[:10]>)
        import hashlib
        h = hashlib.sha1(wt.encode()).hexdigest()[:10]
        for pid in props:
            shutil.rmtree(os.path.join(ROOT, "build", "%s-%s" % (pid, h)), ignore_errors=True)
    json.dump(out_all, open(os.path.join(d, "detection.json"), "w"), indent=1)
    return out_all


if __name__ == "__main__":
    if len(sys.argv) < 2:
        sys.exit(__doc__)
    if sys.argv[1] == "verify":
        print(json.dumps(verify(sys.argv[2]), indent=1))
    elif sys.argv[1] == "run":
        tier = sys.argv[sys.argv.index("--tier") + 1] if "--tier" in sys.argv else "quick"
        print(json.dumps(run(sys.argv[2], tier), indent=1))
    elif sys.argv[1] == "suite":
        d = os.path.abspath(sys.argv[2]); name = "suite-" + re.sub(r"\W", "_", d)[-40:]; wt = worktree(name)
        try:
            rc, out = sh(["git", "apply", os.path.join(d, "patch.diff")], cwd=wt)
            res = {"apply": "ok" if rc == 0 else "FAILED: " + out[-300:]}
            if rc == 0:
                rc, out = sh("go build ./... && go build -tags verif ./... && go test -count=1 ./... 2>&1", cwd=wt, timeout=3000)
                ok, bad, pk = suite_ok(out)
                res["suite_with_patch"] = "pass" if ok else "FAIL"; res["suite_failures"] = {"tests": bad, "packages": pk}
        finally:
            drop(name)
        print(json.dumps(res, indent=1))
    elif sys.argv[1] == "runall":
        for p in sorted(glob.glob(os.path.join(ROOT, "seeded", "*", "patch.diff"))):
            sid = os.path.basename(os.path.dirname(p))
            r = run(sid)
            print(sid, {k: ("DETECTED" + ("" if v.get("concrete_input") else " (no-failing-input-found)") if v.get("detected") else "missed") for k, v in r.items()} if "error" not in r else r)
