#!/bin/bash
# Full .vo build of the hand-written development (never -vos/-vok).
# Usage: tools/build_coq.sh [make args]
set -e
cd "$(dirname "$0")/../coq"
exec 9>/verif/coq/.build.lock
flock 9
{
  echo "-Q . SG"
  echo "-arg -w -arg -notation-overridden,-deprecated-hint-without-locality,-deprecated-instance-without-locality,-ambiguous-paths,-redundant-canonical-projection"
  find Base Model Proofs Properties Corr -name '*.v' | sort
} > _CoqProject.new
if ! cmp -s _CoqProject.new _CoqProject 2>/dev/null; then
  mv _CoqProject.new _CoqProject
  coq_makefile -f _CoqProject -o Makefile >/dev/null
else
  rm -f _CoqProject.new
fi
[ -f Makefile ] || coq_makefile -f _CoqProject -o Makefile >/dev/null
timeout 3000 make -j16 "$@"
