#!/bin/bash
# Full .vo build of the hand-written development (never -vos/-vok).
# Usage: tools/build_coq.sh [targets...]      (no targets = everything)
# The lock only protects regeneration of _CoqProject/Makefile; builds themselves run unlocked
# (each engineer builds his own targets) under a timeout (COQ_BUILD_TIMEOUT, default 1500 s).
set -e
cd "$(dirname "$0")/../coq"
(
  flock 9
  {
    echo "-Q . SG"
    echo "-arg -w -arg -notation-overridden,-deprecated-hint-without-locality,-deprecated-instance-without-locality,-ambiguous-paths,-redundant-canonical-projection"
    find Base Model Proofs Properties Corr -name '*.v' | sort
  } > _CoqProject.new
  if ! cmp -s _CoqProject.new _CoqProject 2>/dev/null; then
    mv _CoqProject.new _CoqProject
    coq_makefile -f _CoqProject -o Makefile >/dev/null
  else
    rm -f _CoqProject.new
  fi
  [ -f Makefile ] || coq_makefile -f _CoqProject -o Makefile >/dev/null
) 9>/verif/coq/.build.lock
J=4
[ $# -eq 0 ] && J=8
[ "$*" = "-k" ] && J=8
exec timeout "${COQ_BUILD_TIMEOUT:-1500}" make -j$J "$@"
