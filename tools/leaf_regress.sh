#!/bin/bash
# Regression for translator/leaf: regenerate Leaf_gen.v from a tree (default /repo) and compile every
# translator/leaf/C*_leaf_check.v against it.  Usage: tools/leaf_regress.sh [repo-dir]
# Exit 0 iff the translator builds, runs, and every obligation file compiles.
set -u
export GOFLAGS=-mod=mod GOPROXY=off GOSUMDB=off GOTOOLCHAIN=local CGO_ENABLED=0
ROOT="$(cd "$(dirname "$0")/.." && pwd)"
REPO="${1:-/repo}"
B="$(mktemp -d "$ROOT/build/leafreg.XXXXXX")"
trap 'rm -rf "$B"' EXIT
(cd "$ROOT/translator" && go vet ./leaf && go build -o "$B/leaf" ./leaf) || { echo "leaf_regress: translator does not build"; exit 1; }
"$B/leaf" -repo "$REPO" -out "$B/Leaf_gen.v" -json-out "$B/leaf.json" || { echo "leaf_regress: translator failed"; exit 1; }
cd "$B"
timeout 600 coqc -w -notation-overridden -Q "$ROOT/coq" SG -Q "$B" Gen Leaf_gen.v > Leaf_gen.log 2>&1 || { echo "leaf_regress: Leaf_gen.v does not compile"; tail -20 Leaf_gen.log; exit 1; }
rc=0
for f in "$ROOT"/translator/leaf/C*_leaf_check.v; do
  n=$(basename "$f"); cp "$f" "$B/$n"
  if timeout 900 coqc -w -notation-overridden -Q "$ROOT/coq" SG -Q "$B" Gen "$n" > "$n.log" 2>&1; then echo "ok   $n"; else echo "FAIL $n"; tail -15 "$n.log"; rc=1; fi
done
exit $rc
