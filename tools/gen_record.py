#!/usr/bin/env python3
"""Prints the generated part of DESIGN.md section 11 (implementation record) as markdown:
per-property status from meta/ + evidence/, `fix:` and `verif hook:` commits of /repo, known findings,
seeded regressions and which check caught them.  Usage: tools/gen_record.py > build/record.md"""
import glob, json, os, re, subprocess
ROOT = os.path.dirname(os.path.dirname(os.path.abspath(__file__)))


def j(p):
    try:
        return json.load(open(p))
    except Exception:
        return None


props = [json.loads(l) for l in open(os.path.join(ROOT, "properties.jsonl"))]
print("### 11.1 Per-property status (generated from meta/ and evidence/)\n")
print("| id | theorems in Properties/Cxx.v (+ regenerated obligations) | axioms under Print Assumptions | correspondence cases / evaluations (quick) | known findings reported | wall (quick) |")
print("|---|---|---|---|---|---|")
for p in props:
    pid = p["id"]
    ev = j(os.path.join(ROOT, "evidence", pid + ".json"))
    if not ev or not os.path.exists(os.path.join(ROOT, "meta", pid + ".json")):
        print("| %s | not claimed | | | | |" % pid)
        continue
    c = ev["coverage"]
    ax = [t for t in c.get("trusted_base", []) if t.startswith("axioms reported")]
    ax = ax[0].split(":", 1)[1].strip() if ax else "?"
    if len(ax) > 160:
        ax = ax[:160] + " …"
    print("| %s | %d (+%d) | %s | %s / %s | %s | %.0f s |" % (
        pid, len(c.get("theorems", [])), c.get("generated_obligations", 0), ax,
        c.get("traces_validated_against_impl"), c.get("evaluations"),
        ", ".join(c.get("known_findings_reported", [])) or "—", ev.get("wall_s", 0)))

print("\n#### What each check proves and how it is tied to the code (from meta/Cxx.json)\n")
for p in props:
    pid = p["id"]
    m = j(os.path.join(ROOT, "meta", pid + ".json"))
    if not m:
        continue
    print("* **%s** — %s\n  *Note:* %s\n  *Technique:* %s" % (pid, m.get("level_text", ""), m.get("level_note", ""), m.get("technique", "")))
    ev = j(os.path.join(ROOT, "evidence", pid + ".json"))
    if ev:
        print("  *Theorems:* " + ", ".join("`%s`" % t for t in ev["coverage"].get("theorems", [])))
print("\n### 11.2 Changes made to /repo (generated from `git -C /repo log`)\n")
out = subprocess.run(["git", "-C", "/repo", "log", "--reverse", "--format=%h %s"], stdout=subprocess.PIPE).stdout.decode()
fixes = [l for l in out.splitlines() if re.match(r"^\w+ fix:", l)]
hooks = [l for l in out.splitlines() if re.match(r"^\w+ verif hook:", l)]
print("Repairs of genuine defects (`fix:` commits, unguarded, minimal; each is also recorded as `fixed:` in known_findings*):\n")
for l in fixes:
    h, s = l.split(" ", 1)
    print("* `%s` %s" % (h, s[len("fix: "):]))
print("\nHooks (`verif hook:` commits, build tag `verif`, add-only):\n")
for l in hooks:
    h, s = l.split(" ", 1)
    print("* `%s` %s" % (h, s[len("verif hook: "):]))

print("\n### 11.3 Known findings (recorded, not repaired)\n")
seen = {}
for f in [os.path.join(ROOT, "known_findings.jsonl")] + sorted(glob.glob(os.path.join(ROOT, "known_findings.d", "*.jsonl"))):
    for line in open(f):
        line = line.strip()
        if not line.startswith("{"):
            continue
        try:
            k = json.loads(line)
        except Exception:
            continue
        key = k.get("id") or k.get("signature")
        if key in seen:
            continue
        seen[key] = 1
        print("* **%s** (%s): %s" % (key, k.get("property"), (k.get("what_fails") or "")[:600]))

print("\n### 11.4 Seeded regressions (independent authors) and detection\n")
print("| seeded id | what was changed | needs to manifest | check result (quick tier) |")
print("|---|---|---|---|")
for d in sorted(glob.glob(os.path.join(ROOT, "seeded", "*"))):
    sid = os.path.basename(d)
    m = j(os.path.join(d, "meta.json")) or {}
    det = j(os.path.join(d, "detection.json")) or {}
    res = []
    for pid, v in det.items():
        if not isinstance(v, dict):
            continue
        if v.get("detected"):
            res.append("%s: VIOLATION, %s" % (pid, "concrete failing input" if v.get("concrete_input") else "no-failing-input-found (broken obligation/correspondence)"))
        else:
            res.append("%s: missed" % pid)
    cell = lambda s: (s or "").replace("|", "\\|").replace("\n", " ")[:300]
    print("| %s | %s | %s | %s |" % (sid, cell(m.get("summary")), cell(m.get("needs_to_manifest")), "; ".join(res) or "not run yet"))



# ---- summary per wave and the false-alarm set -------------------------------------------------
def own(det, pid):
    v = det.get(pid) if isinstance(det, dict) else None
    return v if isinstance(v, dict) else {}

print("\n#### Detection per wave (the property's own check / any check; `initial` = first run after the wave was written, before strengthening)\n")
print("| wave | regressions | initial: own check detects (with concrete input) | now: own check detects (with concrete input) | now: some check detects | now: missed by every check run |")
print("|---|---|---|---|---|---|")
waves = [("1-2 (m1, m2)", ("m1", "m2")), ("3 (m3, m4)", ("m3", "m4")), ("4 (m5, m6)", ("m5", "m6")), ("5 (m7, m8)", ("m7", "m8")), ("6 (m9, m10)", ("m9", "m10")), ("7 (m11, m12)", ("m11", "m12")), ("8 (m13)", ("m13",))]
for name, sufs in waves:
    n = io = ioc = no = noc = na = 0
    missed = []
    for d in sorted(glob.glob(os.path.join(ROOT, "seeded", "*"))):
        sid = os.path.basename(d)
        if sid.split("-")[-1] not in sufs:
            continue
        pid = sid.split("-")[0]
        n += 1
        di = j(os.path.join(d, "detection_initial.json"))
        dn = j(os.path.join(d, "detection.json")) or {}
        if di is not None:
            v = own(di, pid)
            io += 1 if v.get("detected") else 0
            ioc += 1 if v.get("detected") and v.get("concrete_input") else 0
        v = own(dn, pid)
        no += 1 if v.get("detected") else 0
        noc += 1 if v.get("detected") and v.get("concrete_input") else 0
        if any(isinstance(x, dict) and x.get("detected") for x in dn.values()):
            na += 1
        else:
            missed.append(sid)
    ini = "%d (%d)" % (io, ioc) if any(os.path.exists(os.path.join(ROOT, "seeded", "%s-%s" % (p["id"], sufs[0]), "detection_initial.json")) for p in props) else "not recorded"
    print("| %s | %d | %s | %d (%d) | %d | %s |" % (name, n, ini, no, noc, na, ", ".join(missed) or "—"))

print("\n#### False-alarm set: behaviour-preserving refactorings by independent authors (`harmless/`)\n")
print("Each patch passes the pinned suite with and without the `verif` tag. `ok` = the check exits 0 (a `NOTE: regeneration unavailable` line may be printed); `ALARM` = it reported a violation.\n")
print("| id | aimed at | what was rewritten | full check result |")
print("|---|---|---|---|")
tot = alarms = 0
for d in sorted(glob.glob(os.path.join(ROOT, "harmless", "*"))):
    m = j(os.path.join(d, "meta.json")) or {}
    det = j(os.path.join(d, "detection.json")) or {}
    res = []
    bad = False
    for pid, v in det.items():
        if not isinstance(v, dict):
            continue
        if v.get("detected"):
            bad = True
            res.append("%s: ALARM (%s)" % (pid, "concrete input" if v.get("concrete_input") else "no-failing-input-found"))
        else:
            res.append("%s: ok" % pid)
    tot += 1
    alarms += 1 if bad else 0
    cell = lambda s: (s or "").replace("|", "\\|").replace("\n", " ")[:220]
    print("| %s | %s | %s | %s |" % (os.path.basename(d), m.get("aimed_at", m.get("property", "")), cell(m.get("summary")), "; ".join(res) or "not run yet"))
print("\n%d of %d refactorings raise no alarm on the checks run.\n" % (tot - alarms, tot))

print("\n### 11.5 Axioms per property file (from `Print Assumptions` under every theorem, re-collected now)\n")
print("`Print Assumptions` lists two kinds of entries: *primitive declarations* of Coq's native 63-bit integers and binary64 floats (`PrimInt63.int`, `PrimFloat.float`, `add`, `mul`, `ltb`, `of_uint63` … — types and operations implemented by the kernel/VM, not propositions) and *logical axioms* declared by the standard library. Only the latter are assumptions in the logical sense; both are listed.\n")
print("| file | theorems closed under the global context | primitive declarations used | logical axioms (all from the Coq standard library / Flocq's use of Reals) |")
print("|---|---|---|---|")
LOGICAL = re.compile(r"_spec$|_spec\b|classic|sig_forall_dec|sig_not_dec|functional_extensionality|Prim2SF|SF2Prim|proof_irrelevance|JMeq|eq_rect_eq|_valid$|_equiv|constructive_|Rabst|Rrepr|Rquot|completeness|archimed|total_order")
allax = set()
for p in props:
    pid = p["id"]
    f = os.path.join(ROOT, "coq", "Properties", pid + ".v")
    if not os.path.exists(f):
        continue
    r = subprocess.run(["coqc", "-Q", ".", "SG", "-w", "-all", "Properties/%s.v" % pid], cwd=os.path.join(ROOT, "coq"), stdout=subprocess.PIPE, stderr=subprocess.STDOUT)
    out = r.stdout.decode("utf-8", "replace")
    closed = out.count("Closed under the global context")
    names = set(m.group(1) for m in re.finditer(r"^([A-Za-z_][\w.']*)\s*:", out, re.M)) - {"Axioms"}
    logical = sorted(n for n in names if LOGICAL.search(n))
    prim = sorted(n for n in names if not LOGICAL.search(n))
    allax |= set(logical)
    print("| Properties/%s.v | %d | %s | %s |" % (pid, closed, (", ".join(prim)[:140] + (" …" if len(", ".join(prim)) > 140 else "")) or "—", ", ".join(logical) or "none"))
print("\nUnion of logical axioms over all property files: " + (", ".join("`%s`" % a for a in sorted(allax)) or "none") + ".")
