#!/usr/bin/env python3
"""Regenerates /verif/MANIFEST.json from meta/Cxx.json (one file per claimed property)."""
import json, os, glob, subprocess, sys
EXCLUDE = set(a for a in sys.argv[1:] if not a.startswith("-"))  # property ids whose check is not green yet
ROOT = os.path.dirname(os.path.dirname(os.path.abspath(__file__)))
props = [json.loads(l) for l in open(os.path.join(ROOT, "properties.jsonl"))]
hook_commits = []
try:
    out = subprocess.run(["git", "-C", "/repo", "log", "--format=%H %s"], stdout=subprocess.PIPE).stdout.decode()
    hook_commits = [l.split()[0] for l in out.splitlines() if " verif hook:" in " " + l]
except Exception:
    pass
checks, na = [], []
for p in props:
    pid = p["id"]
    mp = os.path.join(ROOT, "meta", pid + ".json")
    if not os.path.exists(mp) or pid in EXCLUDE:
        na.append({"property_id": pid, "reason": "check not built yet in this snapshot of /verif (planned, see DESIGN.md section 6); not a claim that the technique cannot apply"})
        continue
    m = json.load(open(mp))
    checks.append({
        "property_id": pid,
        "quick_cmd": "./check %s --tier quick" % pid,
        "thorough_cmd": "./check %s --tier thorough" % pid,
        "evidence_file": "/verif/evidence/%s.json" % pid,
        "replay_cmd_template": "./check %s --replay {path}" % pid,
        "engine": "coq+vh",
        "level_claimed": {"category": m.get("level", "proof"), "text": m["level_text"], "design_ref": m.get("design_ref", "DESIGN.md section 6")},
        "level_note": m["level_note"],
        "technique": m.get("technique", "machine-checked proof in Coq + checked correspondence"),
    })
man = {
    "version": 1,
    "setup_cmd": "./setup.sh",
    "hooks": {
        "guard": "verif",
        "enable": "go build -tags verif (harness module /verif/harness with `replace github.com/alibaba/sentinel-golang => /repo`)",
        "baseline_off_cmd": "for m in $(cat /w/out/gomods.txt); do MF=$(cd /repo/$m && . /w/out/goenv.sh && gomodflag); (cd /repo/$m && go test $MF -json -vet=off -count=1 -timeout 25m ./...); done",
        "source_commits": hook_commits,
        "add_only": True,
    },
    "engines": [
        {"name": "coq+vh", "path": "/verif/check", "serves_properties": [c["property_id"] for c in checks],
         "kind_free_text": "Coq 8.16.1 development under /verif/coq (models, proofs, property theorems, correspondence runners) + Go harness /verif/harness (differential execution against /repo, deterministic scheduler over verif-tagged yield points, property monitors) + translators regenerating Gallina from Go source"}
    ],
    "checks": checks,
    "not_applicable": na,
    "notes": "See DESIGN.md. Known findings: known_findings.jsonl (+ known_findings.d/).",
}
json.dump(man, open(os.path.join(ROOT, "MANIFEST.json"), "w"), indent=1)
print("checks:", [c["property_id"] for c in checks], "not yet:", [n["property_id"] for n in na])
