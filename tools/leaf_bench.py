#!/usr/bin/env python3
"""Benchmark of the regenerated leaf obligations against two patch sets:
  harmless/*  behaviour-preserving refactorings: every obligation file should still compile  (robustness)
  seeded/*    meaning-changing regressions: the obligation files that broke at the recorded baseline
              (tools/leaf_bench_baseline.json) must still break                              (no weakening)
Usage: tools/leaf_bench.py [harmless|seeded|all] [-j N] [--save-baseline]
Each patch is applied in a scratch worktree of /repo under /tmp/leafbench, tools/leaf_gate.py (the driver's own
rule: a block that depends on a target the translator cannot regenerate is dropped, anything else is a failure) runs
against it, the worktree is removed.  Result: build/leaf_bench.json and a summary on stdout."""
import json, os, subprocess, sys, glob, shutil, re
from concurrent.futures import ThreadPoolExecutor
ROOT = os.path.dirname(os.path.dirname(os.path.abspath(__file__)))
SW = "/tmp/leafbench-%d" % os.getpid()

def one(d):
    name = os.path.basename(d)
    wt = os.path.join(SW, name)
    shutil.rmtree(wt, ignore_errors=True)
    os.makedirs(wt, exist_ok=True)
    # a plain copy of /repo's HEAD (no git worktree: several benches may run at the same time)
    r = subprocess.run("git -C /repo archive HEAD | tar -x -C %s" % wt, shell=True, capture_output=True, text=True)
    res = {"id": name}
    try:
        if r.returncode != 0:
            res["error"] = "cannot copy /repo: " + r.stderr[-200:]
            return res
        r = subprocess.run(["git", "apply", os.path.join(d, "patch.diff")], cwd=wt, capture_output=True, text=True)
        if r.returncode != 0:
            res["error"] = "patch does not apply: " + r.stderr[-200:]
            return res
        r = subprocess.run(["python3", os.path.join(ROOT, "tools", "leaf_gate.py"), wt], capture_output=True, text=True, timeout=3600)
        out = r.stdout + r.stderr
        res["ok"] = sorted(re.findall(r"^ok\s+(\S+)", out, re.M))
        res["fallback"] = sorted(re.findall(r"^ok-fallback\(\d+\)\s+(\S+)", out, re.M))
        res["fail"] = sorted(re.findall(r"^FAIL\s+(\S+)", out, re.M))
        if "leaf_gate:" in out:
            res["fatal"] = [l for l in out.splitlines() if l.startswith("leaf_gate:")][:2]
        res["untranslatable"] = sorted(set(re.findall(r"^untranslatable (\S+):", out, re.M)))
    finally:
        shutil.rmtree(wt, ignore_errors=True)
    return res


def main():
    which = sys.argv[1] if len(sys.argv) > 1 and not sys.argv[1].startswith("-") else "all"
    j = int(sys.argv[sys.argv.index("-j") + 1]) if "-j" in sys.argv else 6
    dirs = []
    if which in ("harmless", "all"):
        dirs += sorted(glob.glob(os.path.join(ROOT, "harmless", "*")))
    if which in ("seeded", "all"):
        dirs += sorted(glob.glob(os.path.join(ROOT, "seeded", "*")))
    dirs = [d for d in dirs if os.path.exists(os.path.join(d, "patch.diff"))]
    with ThreadPoolExecutor(j) as ex:
        results = list(ex.map(one, dirs))
    shutil.rmtree(SW, ignore_errors=True)
    os.makedirs(os.path.join(ROOT, "build"), exist_ok=True)
    json.dump(results, open(os.path.join(ROOT, "build", "leaf_bench_%s.json" % which), "w"), indent=1)
    bp = os.path.join(ROOT, "tools", "leaf_bench_baseline.json")
    base = json.load(open(bp)) if os.path.exists(bp) else {}
    hs = [r for r in results if "-h" in r["id"]]
    ss = [r for r in results if "-m" in r["id"]]
    if hs:
        good = [r for r in hs if not r.get("fail") and not r.get("fatal") and "error" not in r]
        full = [r for r in good if not r.get("fallback")]
        print("harmless: %d/%d raise no alarm (%d with every obligation re-proved, %d with regeneration unavailable for some target)" % (len(good), len(hs), len(full), len(good) - len(full)))
        for r in hs:
            if r not in good:
                print("  %-12s fail=%s %s" % (r["id"], ",".join(f.replace("_leaf_check.v", "") for f in r.get("fail", [])), r.get("fatal") or r.get("error") or ""))
    if ss:
        brk = [r for r in ss if r.get("fail") or r.get("fatal")]
        print("seeded: %d/%d break at least one obligation (alarm from the proof leg alone)" % (len(brk), len(ss)))
        for r in ss:
            was = set(base.get(r["id"], []))
            now = set(r.get("fail", [])) | ({"FATAL"} if r.get("fatal") else set())
            if was and not now:
                print("  WEAKENED %-8s broke %s at the baseline, nothing now" % (r["id"], sorted(was)))
            if "error" in r:
                print("  %-8s %s" % (r["id"], r["error"][:80]))
    if "--save-baseline" in sys.argv:
        for r in ss:
            base[r["id"]] = sorted(set(r.get("fail", [])) | ({"FATAL"} if r.get("fatal") else set()))
        json.dump(base, open(bp, "w"), indent=1, sort_keys=True)
        print("baseline saved")

if __name__ == "__main__":
    main()
