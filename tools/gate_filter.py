#!/usr/bin/env python3
"""Reads grep -n hits for forbidden keywords; exits 0 (= gate FAILS) if any hit is a real
declaration outside a Section. Variables/Hypotheses are allowed only inside Sections."""
import sys, re
bad = []
files = {}
for line in sys.stdin:
    m = re.match(r"([^:]+):(\d+):(.*)", line)
    if not m:
        continue
    f, n, txt = m.group(1), int(m.group(2)), m.group(3)
    if re.search(r"\bAdmitted\b|\badmit\b|^\s*(Axiom|Parameter|Conjecture)\b", txt):
        bad.append(line.strip()); continue
    if re.match(r"\s*(Hypothesis|Variable)s?\b", txt):
        src = files.setdefault(f, open(f).read().split("\n"))
        depth = 0
        for l in src[: n - 1]:
            if re.match(r"\s*Section\s+\w+", l): depth += 1
            if re.match(r"\s*End\s+\w+", l) and depth > 0: depth -= 1
        if depth == 0:
            bad.append(line.strip())
for b in bad:
    print("FORBIDDEN:", b)
sys.exit(0 if bad else 1)
