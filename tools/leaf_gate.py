#!/usr/bin/env python3
"""Regenerate Leaf_gen.v from a tree (default /repo) and compile every translator/leaf/C*_leaf_check.v against it
with the driver's own rule (check: compile_obligation_file): blocks that depend on a target the translator could
not regenerate are dropped ("regeneration unavailable"), any other error is a broken obligation.
Usage: tools/leaf_gate.py [repo-dir]     prints one line per file: ok | ok-fallback(n) | FAIL ; exit 1 iff a FAIL."""
import glob, importlib.machinery, importlib.util, json, os, shutil, subprocess, sys, tempfile
ROOT = os.path.dirname(os.path.dirname(os.path.abspath(__file__)))
repo = sys.argv[1] if len(sys.argv) > 1 else "/repo"
loader = importlib.machinery.SourceFileLoader("vcheck", os.path.join(ROOT, "check"))
spec = importlib.util.spec_from_loader("vcheck", loader)
chk = importlib.util.module_from_spec(spec)
loader.exec_module(chk)
os.makedirs(os.path.join(ROOT, "build"), exist_ok=True)
B = tempfile.mkdtemp(prefix="leafgate.", dir=os.path.join(ROOT, "build"))
env = dict(os.environ, GOFLAGS="-mod=mod", GOPROXY="off", GOSUMDB="off", GOTOOLCHAIN="local", CGO_ENABLED="0")
rc = 0
try:
    r = subprocess.run("cd %s/translator && go build -o %s/leaf ./leaf && %s/leaf -repo %s -out %s/Leaf_gen.v -json-out %s/leaf.json" % (ROOT, B, B, repo, B, B),
                       shell=True, env=env, capture_output=True, text=True)
    if r.returncode != 0:
        print("leaf_gate: translator failed\n" + (r.stdout + r.stderr)[-800:]); sys.exit(1)
    untr = {t["name"]: t["error"] for t in json.load(open(B + "/leaf.json")) if t.get("error")}
    for n, e in sorted(untr.items()):
        print("untranslatable %s: %s" % (n, e[:160]))
    r = subprocess.run(["coqc", "-Q", chk.COQ, "SG", "-Q", B, "Gen", "-w", "-all", "Leaf_gen.v"], cwd=B, capture_output=True, text=True)
    if r.returncode != 0:
        print("FAIL Leaf_gen.v\n" + (r.stdout + r.stderr)[-600:]); sys.exit(1)
    log = []
    for f in sorted(glob.glob(os.path.join(ROOT, "translator", "leaf", "C*_leaf_check.v"))):
        n = os.path.basename(f)
        shutil.copy(f, os.path.join(B, n))
        ok, out, dropped = chk.compile_obligation_file(n, B, set(untr), 900, log)
        if ok and not dropped:
            print("ok   " + n)
        elif ok:
            print("ok-fallback(%d) %s  missing: %s" % (len(dropped), n, ",".join(sorted({d["missing"] for d in dropped}))))
        else:
            rc = 1
            print("FAIL " + n + "\n" + out[-700:])
finally:
    shutil.rmtree(B, ignore_errors=True)
sys.exit(rc)
