#!/usr/bin/env python3
"""Rebuilds section 11 of DESIGN.md: static head + generated tables (gen_record.py) + static tail,
spliced in before Appendix A (replacing a previous section 11)."""
import os, re, subprocess
ROOT = os.path.dirname(os.path.dirname(os.path.abspath(__file__)))
d = open(os.path.join(ROOT, "DESIGN.md")).read()
gen = subprocess.run(["python3", os.path.join(ROOT, "tools", "gen_record.py")], stdout=subprocess.PIPE).stdout.decode()
head = open(os.path.join(ROOT, "tools", "design_section11_static.md")).read()
tail = open(os.path.join(ROOT, "tools", "design_section11_tail.md")).read()
sec = head + gen + tail + "\n---------------------------------------------------------------------------------------\n\n"
i = d.find("## 11. Implementation record")
j = d.find("## Appendix A")
assert j > 0
if i < 0:
    i = j
open(os.path.join(ROOT, "DESIGN.md"), "w").write(d[:i] + sec + d[j:])
print("DESIGN.md section 11 rebuilt (%d bytes)" % len(sec))
