(* C15 — unlock discipline ("... without data races, panics or deadlock").

   A lock that is held across a call which may panic, in a function whose panic is recovered,
   and that is released by a plain (non-deferred) Unlock, stays locked for ever once the call
   panics: the unwinding runs the deferred calls only.  Every later Lock of that mutex - and for
   a write lock every RLock: all traffic, getters and loads of the module - then blocks.

   Part 1: a small semantics of one function activation projected to lock operations, deferred
   unlocks and calls, with a panic oracle; the static check `fcheck`; what is left held when the
   activation is over (`fexec`).
   Part 2: the record the translator fills from the Go source on every run (one fact per
   function x lock it acquires x possibly-panicking callee reached while the lock may be held,
   plus one per return reached with a lock possibly held and no deferred unlock registered) and
   the executable policy check on that table.

   No proofs in this file (Proofs/LocksetProofs.v). *)
From SG Require Import Base.Prelude Model.Lockset.

(* ---- part 1: one activation ----------------------------------------------------------- *)

Inductive fstep :=
| FAcq (l : lockid)              (* l.Lock() / l.RLock() *)
| FRel (l : lockid)              (* l.Unlock() / l.RUnlock(), a plain statement *)
| FDefer (l : lockid)            (* defer l.Unlock() *)
| FCall (may_panic : bool).      (* a call; may_panic: it is not known to be panic free *)

Fixpoint remove_one (l : lockid) (hs : list lockid) : list lockid :=
  match hs with
  | [] => []
  | l' :: r => if String.eqb l l' then r else l' :: remove_one l r
  end.

(* what the activation still holds once its deferred unlocks have run *)
Definition leftover (held deferred : list lockid) : list lockid :=
  filter (fun l => negb (existsb (String.eqb l) deferred)) held.

(* Run the body.  `panic_at = Some n`: the n-th may-panic call (counting from 0) panics; the
   unwinding then runs the deferred unlocks and NOTHING else of the body.  The result is the
   list of locks the goroutine still holds when the activation is over - i.e. what it holds
   for ever if the panic is recovered by this function or a caller and the goroutine goes on. *)
Fixpoint fexec (b : list fstep) (held deferred : list lockid) (panic_at : option nat) : list lockid :=
  match b with
  | [] => leftover held deferred
  | FAcq l :: r => fexec r (l :: held) deferred panic_at
  | FRel l :: r => fexec r (remove_one l held) deferred panic_at
  | FDefer l :: r => fexec r held (l :: deferred) panic_at
  | FCall false :: r => fexec r held deferred panic_at
  | FCall true :: r =>
      match panic_at with
      | Some O => leftover held deferred
      | Some (S n) => fexec r held deferred (Some n)
      | None => fexec r held deferred None
      end
  end.

Definition is_nil {A} (l : list A) : bool := match l with [] => true | _ => false end.

(* the static discipline: at every may-panic call and at the end of the body, every lock held
   is covered by a deferred unlock registered before *)
Fixpoint fcheck (b : list fstep) (held deferred : list lockid) : bool :=
  match b with
  | [] => is_nil (leftover held deferred)
  | FAcq l :: r => fcheck r (l :: held) deferred
  | FRel l :: r => fcheck r (remove_one l held) deferred
  | FDefer l :: r => fcheck r held (l :: deferred)
  | FCall false :: r => fcheck r held deferred
  | FCall true :: r => is_nil (leftover held deferred) && fcheck r held deferred
  end.

(* ---- part 2: the regenerated table ----------------------------------------------------- *)

Inductive rkind := KCall | KReturn.
Inductive cclass :=
| CDyn       (* call of a function value: variable, parameter, map element, field, literal *)
| CIface     (* method call through an interface *)
| CExt       (* static call of a function outside the analysed packages: callee = "pkg.Func" *)
| CPanic     (* explicit panic(...) *)
| CNone.     (* KReturn records *)

Record lock_region := mkLR {
  lr_func : string;        (* the function (or literal "f$N") that acquired the lock *)
  lr_lock : lockid;
  lr_mode : mode;
  lr_kind : rkind;         (* KCall: a possibly-panicking callee reached while lr_lock may be held;
                              KReturn: a return / end of body reached with lr_lock possibly held and
                              no deferred unlock of it registered *)
  lr_class : cclass;
  lr_callee : string;      (* CExt: "pkg.Func" / "pkg.(T).Method"; otherwise the source text, for reports *)
  lr_via : string;         (* the analysed callee through which the leaf is reached ("" = called directly) *)
  lr_deferred : bool;      (* a deferred unlock of lr_lock is certainly registered at the call *)
  lr_recovered : bool;     (* a panic raised in lr_func is recovered inside the analysed code: lr_func or a
                              static caller registers a deferred recover(), or its callers are not visible
                              (interface-dispatched method, function used as a value, literal) *)
  lr_line : Z
}.

Record region_policy := mkRP {
  rp_panic_free : list string;    (* prefixes of external callees trusted not to panic *)
  rp_handoff : list string        (* functions allowed to return holding a lock they acquired *)
}.

Definition is_call (r : lock_region) : bool := match lr_kind r with KCall => true | KReturn => false end.
Definition is_ext (r : lock_region) : bool := match lr_class r with CExt => true | _ => false end.

Definition trusted_callee (p : region_policy) (r : lock_region) : bool :=
  is_ext r && existsb (fun pre => String.prefix pre (lr_callee r)) (rp_panic_free p).

(* a fact that breaks the discipline *)
Definition region_bad (p : region_policy) (r : lock_region) : bool :=
  if is_call r
  then negb (lr_deferred r) && lr_recovered r && negb (trusted_callee p r)
  else negb (existsb (String.eqb (lr_func r)) (rp_handoff p)).

Definition region_violations (regs : list lock_region) (p : region_policy) : list lock_region :=
  filter (region_bad p) regs.

Definition regions_ok (regs : list lock_region) (p : region_policy) : bool :=
  is_nil (region_violations regs p).

Definition region_brief (r : lock_region) : string * string * string * string * Z :=
  (lr_func r, lr_lock r, lr_callee r, lr_via r, lr_line r).

(* The facts the extractor emits for ONE body, by construction (one per held lock at every
   may-panic call, one per lock left over at the end): ties part 2 to part 1
   (Proofs: regions_ok_fcheck). *)
Fixpoint facts_go (f : string) (b : list fstep) (held deferred : list lockid) (n : Z) : list lock_region :=
  match b with
  | [] => map (fun l => mkLR f l MW KReturn CNone "" "" false true n) (leftover held deferred)
  | FAcq l :: r => facts_go f r (l :: held) deferred (n + 1)
  | FRel l :: r => facts_go f r (remove_one l held) deferred (n + 1)
  | FDefer l :: r => facts_go f r held (l :: deferred) (n + 1)
  | FCall false :: r => facts_go f r held deferred (n + 1)
  | FCall true :: r =>
      map (fun l => mkLR f l MW KCall CDyn "call" "" (existsb (String.eqb l) deferred) true n) held
      ++ facts_go f r held deferred (n + 1)
  end.
Definition facts_of_body (f : string) (b : list fstep) : list lock_region := facts_go f b [] [] 0.

Definition strict_policy : region_policy := mkRP [] [].
