(* Executable model of the entry path of sentinel-golang (as of the tree carrying the fixes
   5064881 / 13a284a / 10596be):

     api/api.go            Entry, entry               (context from the pool, args copied,
                                                        r == nil => EntryPassedOnPanic, block =>
                                                        deep copy of the block error + internal Exit)
     api/tracer.go         TraceError, TraceCallee
     core/base/slot_chain.go  Add*Slot (append + sort.SliceStable), Entry (prepare loop,
                              rule-check loop with break, statistic loop, deferred recover),
                              EntryPassedOnPanic, exit, GetPooledContext, RefurbishContext
     core/base/entry.go    SentinelEntry.Exit (sync.Once; error stored inside the Once; exit
                           handlers, each under its own recover (a9e6cc9); recover; `exited` flag),
                           SetError/SetPair (no-ops after exit)
     core/base/context.go  EntryContext.Reset
     core/stat/stat_slot.go, stat_prepare_slot.go, base_node.go   the statistic slot

   No proofs in this file.  Heap objects that matter for aliasing are ids into stores:
   contexts (`ctxs`, recycled through `pool`) and block errors (`errs`).  sync.Pool.Get is
   nondeterministic: the Entry operation carries the caller's `pick`; if it names a pooled
   context that one is handed out, otherwise a fresh context is allocated. *)
From SG Require Import Base.Prelude.

Definition PANIC : Z := -1.   (* error id of "the error made from a recovered panic" *)
Definition INB : Z := -1.     (* key of the global inbound node (resources are >= 0) *)

(* ---------------------------------------------------------------------------------- *)
(* slots                                                                                *)

Record berr := { b_type : Z; b_msg : Z; b_rule : Z; b_snap : Z }.

Inductive pbeh := POk | PNode | PPanic.   (* PNode = stat.ResourceNodePrepareSlot *)
Inductive cbeh := CPass | CNil | CWait | CBlock (e : berr) | CPanic.
Inductive sbeh := SOk | SPanic.
Inductive hbeh := HOk | HErr | HPanic.

(* a slot's behaviour may depend on the request: it is selected by ctx.Input.Flag *)
Record pslot := { p_id : Z; p_ord : Z; p_behs : list pbeh }.
Record cslot := { c_id : Z; c_ord : Z; c_behs : list cbeh }.
Record sslot := { s_id : Z; s_ord : Z; s_real : bool (* stat.DefaultSlot *); s_behs : list sbeh }.

Definition pick {A} (d : A) (l : list A) (flag : Z) : A :=
  match l with
  | [] => d
  | _ => nth (Z.to_nat (flag mod Z.of_nat (length l))) l d
  end.

Definition pbeh_of (p : pslot) (flag : Z) : pbeh := pick POk (p_behs p) flag.
Definition cbeh_of (c : cslot) (flag : Z) : cbeh := pick CPass (c_behs c) flag.
Definition sbeh_of (s : sslot) (flag : Z) : sbeh := if s_real s then SOk else pick SOk (s_behs s) flag.

(* sort.SliceStable(less = Order(i) < Order(j)): stable insertion sort *)
Fixpoint ins {A} (ord : A -> Z) (x : A) (l : list A) : list A :=
  match l with
  | [] => [x]
  | y :: r => if ord x <? ord y then x :: l else y :: ins ord x r
  end.

Definition sort_stable {A} (ord : A -> Z) (l : list A) : list A :=
  fold_left (fun acc x => ins ord x acc) l [].

(* sc.xs = append(sc.xs, s); sort.SliceStable(sc.xs, ...) *)
Definition add_slot {A} (ord : A -> Z) (l : list A) (x : A) : list A := sort_stable ord (l ++ [x]).

Record chain := { preps : list pslot; checks : list cslot; stats : list sslot }.
Inductive slot := SP (p : pslot) | SC (c : cslot) | SS (s : sslot).

Definition empty_chain : chain := {| preps := []; checks := []; stats := [] |}.

Definition add (ch : chain) (sl : slot) : chain :=
  match sl with
  | SP p => {| preps := add_slot p_ord (preps ch) p; checks := checks ch; stats := stats ch |}
  | SC c => {| preps := preps ch; checks := add_slot c_ord (checks ch) c; stats := stats ch |}
  | SS s => {| preps := preps ch; checks := checks ch; stats := add_slot s_ord (stats ch) s |}
  end.

Definition build (seq : list slot) : chain := fold_left add seq empty_chain.

(* ---------------------------------------------------------------------------------- *)
(* heap objects                                                                         *)

Record ctx := {
  x_entry : Z;          (* ctx.entry: entry id, -1 = nil *)
  x_err : Z;            (* ctx.err: error id, 0 = nil *)
  x_start : Z;          (* ctx.startTime *)
  x_rt : Z;             (* ctx.rt *)
  x_res : Z;            (* ctx.Resource: resource id, -1 = nil *)
  x_inb : bool;         (* ctx.Resource.FlowType() == Inbound *)
  x_node : bool;        (* ctx.StatNode != nil (then it is the node of x_res) *)
  x_batch : Z;          (* ctx.Input.BatchCount *)
  x_flag : Z;           (* ctx.Input.Flag *)
  x_args : list Z;      (* ctx.Input.Args (owned by the context since 5064881) *)
  x_blk : option Z;     (* ctx.RuleCheckResult: None = pass, Some b = blocked with block error object b *)
  x_rep : bool;         (* ctx.outcomeReported *)
  x_addr : Z            (* ctx.Data["address"], 0 = absent *)
}.

(* a context fresh from ctxPool.New, or after Reset() *)
Definition new_ctx : ctx :=
  {| x_entry := -1; x_err := 0; x_start := 0; x_rt := 0; x_res := -1; x_inb := false;
     x_node := false; x_batch := 1; x_flag := 0; x_args := []; x_blk := None; x_rep := false;
     x_addr := 0 |}.

Definition set_err (x : ctx) (e : Z) : ctx :=
  {| x_entry := x_entry x; x_err := e; x_start := x_start x; x_rt := x_rt x; x_res := x_res x;
     x_inb := x_inb x; x_node := x_node x; x_batch := x_batch x; x_flag := x_flag x;
     x_args := x_args x; x_blk := x_blk x; x_rep := x_rep x; x_addr := x_addr x |}.
Definition set_rt (x : ctx) (rt : Z) : ctx :=
  {| x_entry := x_entry x; x_err := x_err x; x_start := x_start x; x_rt := rt; x_res := x_res x;
     x_inb := x_inb x; x_node := x_node x; x_batch := x_batch x; x_flag := x_flag x;
     x_args := x_args x; x_blk := x_blk x; x_rep := x_rep x; x_addr := x_addr x |}.
Definition set_node (x : ctx) : ctx :=
  {| x_entry := x_entry x; x_err := x_err x; x_start := x_start x; x_rt := x_rt x; x_res := x_res x;
     x_inb := x_inb x; x_node := true; x_batch := x_batch x; x_flag := x_flag x;
     x_args := x_args x; x_blk := x_blk x; x_rep := x_rep x; x_addr := x_addr x |}.
Definition set_blk_rep (x : ctx) (b : option Z) : ctx :=
  {| x_entry := x_entry x; x_err := x_err x; x_start := x_start x; x_rt := x_rt x; x_res := x_res x;
     x_inb := x_inb x; x_node := x_node x; x_batch := x_batch x; x_flag := x_flag x;
     x_args := x_args x; x_blk := b; x_rep := true; x_addr := x_addr x |}.
Definition set_addr (x : ctx) (a : Z) : ctx :=
  {| x_entry := x_entry x; x_err := x_err x; x_start := x_start x; x_rt := x_rt x; x_res := x_res x;
     x_inb := x_inb x; x_node := x_node x; x_batch := x_batch x; x_flag := x_flag x;
     x_args := x_args x; x_blk := x_blk x; x_rep := x_rep x; x_addr := a |}.

(* per-node statistics: event sums over the whole history (windows are C08's business)
   and the concurrency gauge *)
Record cnt := { n_pass : Z; n_block : Z; n_done : Z; n_err : Z; n_rt : Z; n_gauge : Z }.
Definition cnt0 : cnt := {| n_pass := 0; n_block := 0; n_done := 0; n_err := 0; n_rt := 0; n_gauge := 0 |}.

Definition upd {A} (m : Z -> A) (k : Z) (v : A) : Z -> A := fun k' => if k' =? k then v else m k'.

(* recordPassFor: IncreaseConcurrency + AddCount(pass, batch) *)
Definition node_pass (c : cnt) (b : Z) : cnt :=
  {| n_pass := n_pass c + b; n_block := n_block c; n_done := n_done c; n_err := n_err c;
     n_rt := n_rt c; n_gauge := n_gauge c + 1 |}.
(* recordBlockFor *)
Definition node_block (c : cnt) (b : Z) : cnt :=
  {| n_pass := n_pass c; n_block := n_block c + b; n_done := n_done c; n_err := n_err c;
     n_rt := n_rt c; n_gauge := n_gauge c |}.
(* recordCompleteFor: error (if err != nil), rt, complete, DecreaseConcurrency *)
Definition node_done (c : cnt) (b rt err : Z) : cnt :=
  {| n_pass := n_pass c; n_block := n_block c; n_done := n_done c + b;
     n_err := if err =? 0 then n_err c else n_err c + b;
     n_rt := n_rt c + rt; n_gauge := n_gauge c - 1 |}.

Definition nodes_t := Z -> cnt.

(* apply f to ctx.StatNode (if set) and, for inbound traffic, to the inbound node *)
Definition on_nodes (nd : nodes_t) (x : ctx) (f : cnt -> cnt) : nodes_t :=
  let nd1 := if x_node x then upd nd (x_res x) (f (nd (x_res x))) else nd in
  if x_inb x then upd nd1 INB (f (nd1 INB)) else nd1.

(* the entry table doubles as the specification's ledger: the g_* fields are ghost (set from
   the operations' own arguments, never read by the transitions) *)
Record ent := {
  e_ctx : Z;                      (* e.ctx *)
  e_exited : bool;                (* exitCtl done / exited flag *)
  e_handlers : list (Z * hbeh);   (* e.exitHandlers (id, behaviour) *)
  e_chain : Z;                    (* e.sc *)
  g_res : Z; g_inb : bool; g_batch : Z; g_args : list Z;
  g_passed : bool;                (* Entry returned the entry (not a block error) and the rule-check
                                     result kept in its context is "pass" (it is "blocked" only when a
                                     statistic slot panicked while being told of a block) *)
  g_err : Z;                      (* last error set through calls on THIS entry (0 = none) *)
  g_addr : Z;                     (* last address set through calls on THIS entry *)
  g_start : Z;                    (* clock at Entry *)
  g_end : Z                       (* clock at the effective Exit *)
}.

Inductive call :=
| LPrep (id : Z)
| LCheck (id : Z)
| LPassed (id res batch : Z)
| LBlocked (id res batch : Z) (e : berr)
| LDone (id res batch err rt : Z)
| LHandler (id : Z).

Record state := {
  now : Z;
  ctxs : Z -> ctx; nctx : Z; pool : list Z;
  ents : list ent;
  nodes : nodes_t;
  errs : list berr;               (* BlockError objects, append-only *)
  rets : list Z                   (* ids of the block errors handed to callers (latest first) *)
}.

Definition init : state :=
  {| now := 0; ctxs := fun _ => new_ctx; nctx := 0; pool := []; ents := []; nodes := fun _ => cnt0;
     errs := []; rets := [] |}.

(* ---------------------------------------------------------------------------------- *)
(* SlotChain.Entry                                                                      *)

(* prepare loop; result: context, log (latest first), panicked *)
Fixpoint run_preps (ps : list pslot) (x : ctx) (lg : list call) : ctx * list call * bool :=
  match ps with
  | [] => (x, lg, false)
  | p :: r =>
      let lg' := LPrep (p_id p) :: lg in
      match pbeh_of p (x_flag x) with
      | POk => run_preps r x lg'
      | PNode => run_preps r (set_node x) lg'
      | PPanic => (x, lg', true)
      end
  end.

(* rule-check loop with break on the first blocked result *)
Fixpoint run_checks (cs : list cslot) (flag : Z) (lg : list call) : option berr * list call * bool :=
  match cs with
  | [] => (None, lg, false)
  | c :: r =>
      let lg' := LCheck (c_id c) :: lg in
      match cbeh_of c flag with
      | CPass | CNil | CWait => run_checks r flag lg'
      | CBlock e => (Some e, lg', false)
      | CPanic => (None, lg', true)
      end
  end.

(* statistic loop of Entry: OnEntryPassed / OnEntryBlocked according to the context's result *)
Fixpoint run_stats (ss : list sslot) (x : ctx) (be : option berr) (nd : nodes_t) (lg : list call)
  : nodes_t * list call * bool :=
  match ss with
  | [] => (nd, lg, false)
  | s :: r =>
      if s_real s then
        run_stats r x be
          (match be with
           | None => on_nodes nd x (fun c => node_pass c (x_batch x))
           | Some _ => on_nodes nd x (fun c => node_block c (x_batch x))
           end) lg
      else
        let lg' := match be with
                   | None => LPassed (s_id s) (x_res x) (x_batch x)
                   | Some e => LBlocked (s_id s) (x_res x) (x_batch x) e
                   end :: lg in
        match sbeh_of s (x_flag x) with
        | SOk => run_stats r x be nd lg'
        | SPanic => (nd, lg', true)
        end
  end.

(* result of SlotChain.Entry followed by api.entry's `r == nil` branch *)
Record entry_res := {
  r_ctx : ctx; r_nodes : nodes_t; r_log : list call; r_errs : list berr;
  r_nil : bool;               (* SlotChain.Entry returned nil (a slot panicked) *)
}.

Definition chain_entry (ch : chain) (x : ctx) (nd : nodes_t) (er : list berr) : entry_res :=
  let '(x1, lg1, pan1) := run_preps (preps ch) x [] in
  if pan1 then {| r_ctx := set_err x1 PANIC; r_nodes := nd; r_log := lg1; r_errs := er; r_nil := true |} else
  let '(blk, lg2, pan2) := run_checks (checks ch) (x_flag x1) lg1 in
  if pan2 then {| r_ctx := set_err x1 PANIC; r_nodes := nd; r_log := lg2; r_errs := er; r_nil := true |} else
  (* the blocking slot's TokenResult carries a BlockError object of its own *)
  let '(bid, er2) := match blk with
                     | None => (None, er)
                     | Some e => (Some (Z.of_nat (length er)), er ++ [e])
                     end in
  let x2 := set_blk_rep x1 bid in
  let '(nd3, lg3, pan3) := run_stats (stats ch) x2 blk nd lg2 in
  if pan3 then {| r_ctx := set_err x2 PANIC; r_nodes := nd3; r_log := lg3; r_errs := er2; r_nil := true |}
  else {| r_ctx := x2; r_nodes := nd3; r_log := lg3; r_errs := er2; r_nil := false |}.

(* SlotChain.EntryPassedOnPanic *)
Definition passed_on_panic (ch : chain) (r : entry_res) : entry_res :=
  if x_rep (r_ctx r) then r else
  let x := set_blk_rep (r_ctx r) None in
  let '(nd, lg, _) := run_stats (stats ch) x None (r_nodes r) (r_log r) in
  {| r_ctx := x; r_nodes := nd; r_log := lg; r_errs := r_errs r; r_nil := true |}.

(* ---------------------------------------------------------------------------------- *)
(* operations                                                                           *)

Inductive op :=
| OEntry (res : Z) (inb : bool) (batch flag : Z) (args : list Z) (chain : Z) (pk : Z)
    (* sentinel.Entry(res, WithTrafficType, WithBatchCount, WithFlag, WithArgs, WithSlotChain);
       pick = the pooled context sync.Pool hands out (any other value: a fresh one) *)
| OExit (e : Z) (err : Z)          (* entry.Exit() / entry.Exit(WithError(err)) for err <> 0 *)
| OTrace (e : Z) (err : Z)         (* sentinel.TraceError(entry, err); err = 0 is a nil error *)
| OCallee (e : Z) (addr : Z)       (* sentinel.TraceCallee(entry, addr); addr = 0 is "" *)
| OWhenExit (e : Z) (hid : Z) (hb : hbeh)  (* entry.WhenExit(handler) *)
| OTick (dt : Z)
| OSnap (keys : list Z).           (* observation only *)

Inductive obs :=
| REntered (e : Z) (ctx : Z) (lg : list call)   (* entry id, context object handed out, slot calls *)
| RBlocked (ctx : Z) (b : berr) (lg : list call)
| RCalls (lg : list call)                       (* Exit *)
| RNone
| RSnap (live : list (Z * (Z * list Z * Z)))    (* live entries: id, (err, args, addr) of e.Context() *)
        (counters : list (Z * (Z * Z * Z) * (Z * Z * Z)))
                                                (* key, (pass, block, complete), (error, rt, gauge) *)
        (returned : list berr)                  (* fields of every block error returned so far *)
| REscaped.                                     (* a panic reached the caller of Entry / Exit / Trace*:
                                                   what the harness reports in that case; `step`
                                                   never produces it (fail-open, C16) *)

Definition get_ent (s : state) (e : Z) : option ent :=
  if e <? 0 then None else nth_error (ents s) (Z.to_nat e).

Definition set_ent (s : state) (e : Z) (f : ent -> ent) : list ent := upd_nth (Z.to_nat e) f (ents s).

Fixpoint remove1 (c : Z) (l : list Z) : list Z :=
  match l with
  | [] => []
  | y :: r => if c =? y then r else y :: remove1 c r
  end.

Definition memZ (c : Z) (l : list Z) : bool := existsb (Z.eqb c) l.

Definition do_entry (chains : Z -> chain) (s : state) (res : Z) (inb : bool) (batch flag : Z)
    (args : list Z) (chid pk : Z) : state * obs :=
  let ch := chains chid in
  let reuse := memZ pk (pool s) in
  let c := if reuse then pk else nctx s in
  let x0 := if reuse then ctxs s c else new_ctx in
  let e := Z.of_nat (length (ents s)) in
  (* GetPooledContext; ctx.Resource, ctx.Input.* ; ctx.SetEntry(e) *)
  let x := {| x_entry := e; x_err := x_err x0; x_start := now s; x_rt := x_rt x0; x_res := res;
              x_inb := inb; x_node := x_node x0; x_batch := batch; x_flag := flag;
              x_args := match args with [] => x_args x0 | _ => args end;
              x_blk := x_blk x0; x_rep := x_rep x0; x_addr := x_addr x0 |} in
  let r0 := chain_entry ch x (nodes s) (errs s) in
  let r := if r_nil r0 then passed_on_panic ch r0 else r0 in
  let pool1 := if reuse then remove1 c (pool s) else pool s in
  let nctx1 := if reuse then nctx s else nctx s + 1 in
  let mk (exited passed : bool) (err : Z) :=
      {| e_ctx := c; e_exited := exited; e_handlers := []; e_chain := chid;
         g_res := res; g_inb := inb; g_batch := batch; g_args := args; g_passed := passed;
         g_err := err; g_addr := 0; g_start := now s; g_end := now s |} in
  match (if r_nil r then None else x_blk (r_ctx r)) with
  | Some b =>
      (* blocked: deep copy of the block error, then e.Exit(): no handlers, exit() returns at
         once for a blocked context, RefurbishContext *)
      let be := nth (Z.to_nat b) (r_errs r) {| b_type := 0; b_msg := 0; b_rule := 0; b_snap := 0 |} in
      let rid := Z.of_nat (length (r_errs r)) in
      ({| now := now s; ctxs := upd (ctxs s) c new_ctx; nctx := nctx1; pool := c :: pool1;
          ents := ents s ++ [mk true false 0]; nodes := r_nodes r;
          errs := r_errs r ++ [be]; rets := rid :: rets s |},
       RBlocked c be (rev (r_log r)))
  | None =>
      ({| now := now s; ctxs := upd (ctxs s) c (r_ctx r); nctx := nctx1; pool := pool1;
          ents := ents s ++ [mk false (match x_blk (r_ctx r) with None => true | Some _ => false end)
                                  (if r_nil r then PANIC else 0)]; nodes := r_nodes r;
          errs := r_errs r; rets := rets s |},
       REntered e c (rev (r_log r)))
  end.

(* since a9e6cc9 every handler runs inside SentinelEntry.runExitHandler, which recovers a panic of
   the handler and logs it like a returned error: all handlers run, in order, whatever each of them
   does, and the second component (a panic left the handler loop) is always false *)
Fixpoint run_handlers (hs : list (Z * hbeh)) (lg : list call) : list call * bool :=
  match hs with
  | [] => (lg, false)
  | (id, b) :: r =>
      let lg' := LHandler id :: lg in
      match b with
      | HPanic => run_handlers r lg'
      | _ => run_handlers r lg'
      end
  end.

Definition ctx_rt (x : ctx) (t : Z) : Z := if x_rt x =? 0 then t - x_start x else x_rt x.

(* SlotChain.exit's loop: OnCompleted of every statistic slot *)
Fixpoint run_done (ss : list sslot) (x : ctx) (t : Z) (nd : nodes_t) (lg : list call)
  : nodes_t * list call * bool :=
  match ss with
  | [] => (nd, lg, false)
  | s :: r =>
      if s_real s then
        let rt := t - x_start x in
        run_done r (set_rt x rt) t (on_nodes nd x (fun c => node_done c (x_batch x) rt (x_err x))) lg
      else
        let lg' := LDone (s_id s) (x_res x) (x_batch x) (x_err x) (ctx_rt x t) :: lg in
        match sbeh_of s (x_flag x) with
        | SOk => run_done r x t nd lg'
        | SPanic => (nd, lg', true)
        end
  end.

Definition mark_exited (t : Z) (err : Z) (en : ent) : ent :=
  {| e_ctx := e_ctx en; e_exited := true; e_handlers := e_handlers en; e_chain := e_chain en;
     g_res := g_res en; g_inb := g_inb en; g_batch := g_batch en; g_args := g_args en;
     g_passed := g_passed en; g_err := if err =? 0 then g_err en else err; g_addr := g_addr en;
     g_start := g_start en; g_end := t |}.

Definition do_exit (chains : Z -> chain) (s : state) (e err : Z) : state * obs :=
  match get_ent s e with
  | None => (s, RCalls [])
  | Some en =>
      if e_exited en then (s, RCalls [])            (* sync.Once already done: nothing happens *)
      else
        let c := e_ctx en in
        let x := ctxs s c in
        let x1 := if err =? 0 then x else set_err x err in
        let '(lg1, pan1) := run_handlers (e_handlers en) [] in
        let '(nd2, lg2) :=
            if pan1 then (nodes s, lg1) else
            match x_blk x1 with
            | Some _ => (nodes s, lg1)
            | None => let '(nd, lg, _) := run_done (stats (chains (e_chain en))) x1 (now s) (nodes s) lg1 in (nd, lg)
            end in
        ({| now := now s; ctxs := upd (ctxs s) c new_ctx; nctx := nctx s; pool := c :: pool s;
            ents := set_ent s e (mark_exited (now s) err); nodes := nd2; errs := errs s; rets := rets s |},
         RCalls (rev lg2))
  end.

Definition set_g_err (err : Z) (en : ent) : ent :=
  {| e_ctx := e_ctx en; e_exited := e_exited en; e_handlers := e_handlers en; e_chain := e_chain en;
     g_res := g_res en; g_inb := g_inb en; g_batch := g_batch en; g_args := g_args en;
     g_passed := g_passed en; g_err := err; g_addr := g_addr en; g_start := g_start en; g_end := g_end en |}.
Definition set_g_addr (a : Z) (en : ent) : ent :=
  {| e_ctx := e_ctx en; e_exited := e_exited en; e_handlers := e_handlers en; e_chain := e_chain en;
     g_res := g_res en; g_inb := g_inb en; g_batch := g_batch en; g_args := g_args en;
     g_passed := g_passed en; g_err := g_err en; g_addr := a; g_start := g_start en; g_end := g_end en |}.
Definition add_handler (h : Z * hbeh) (en : ent) : ent :=
  {| e_ctx := e_ctx en; e_exited := e_exited en; e_handlers := e_handlers en ++ [h]; e_chain := e_chain en;
     g_res := g_res en; g_inb := g_inb en; g_batch := g_batch en; g_args := g_args en;
     g_passed := g_passed en; g_err := g_err en; g_addr := g_addr en; g_start := g_start en; g_end := g_end en |}.

Definition with_ctx_ents (s : state) (cx : Z -> ctx) (es : list ent) : state :=
  {| now := now s; ctxs := cx; nctx := nctx s; pool := pool s; ents := es; nodes := nodes s;
     errs := errs s; rets := rets s |}.

(* TraceError -> SentinelEntry.SetError *)
Definition do_trace (s : state) (e err : Z) : state :=
  match get_ent s e with
  | None => s
  | Some en =>
      if (err =? 0) || e_exited en then s
      else with_ctx_ents s (upd (ctxs s) (e_ctx en) (set_err (ctxs s (e_ctx en)) err)) (set_ent s e (set_g_err err))
  end.

(* TraceCallee -> SentinelEntry.SetPair("address", addr) *)
Definition do_callee (s : state) (e addr : Z) : state :=
  match get_ent s e with
  | None => s
  | Some en =>
      if (addr =? 0) || e_exited en then s
      else with_ctx_ents s (upd (ctxs s) (e_ctx en) (set_addr (ctxs s (e_ctx en)) addr)) (set_ent s e (set_g_addr addr))
  end.

Definition do_when_exit (s : state) (e hid : Z) (hb : hbeh) : state :=
  match get_ent s e with
  | None => s
  | Some _ => with_ctx_ents s (ctxs s) (set_ent s e (add_handler (hid, hb)))
  end.

Fixpoint live_view (s : state) (i : Z) (es : list ent) : list (Z * (Z * list Z * Z)) :=
  match es with
  | [] => []
  | en :: r =>
      (if e_exited en then [] else
         let x := ctxs s (e_ctx en) in [(i, (x_err x, x_args x, x_addr x))])
      ++ live_view s (i + 1) r
  end.

Definition cnt_view (s : state) (k : Z) : Z * (Z * Z * Z) * (Z * Z * Z) :=
  let c := nodes s k in (k, (n_pass c, n_block c, n_done c), (n_err c, n_rt c, n_gauge c)).

Definition berr0 : berr := {| b_type := 0; b_msg := 0; b_rule := 0; b_snap := 0 |}.

Definition snapshot (s : state) (keys : list Z) : obs :=
  RSnap (live_view s 0 (ents s)) (map (cnt_view s) keys)
        (map (fun b => nth (Z.to_nat b) (errs s) berr0) (rev (rets s))).

Definition step (chains : Z -> chain) (s : state) (o : op) : state * obs :=
  match o with
  | OEntry res inb batch flag args ch pk => do_entry chains s res inb batch flag args ch pk
  | OExit e err => do_exit chains s e err
  | OTrace e err => (do_trace s e err, RNone)
  | OCallee e a => (do_callee s e a, RNone)
  | OWhenExit e hid hb => (do_when_exit s e hid hb, RNone)
  | OTick dt =>
      ({| now := now s + dt; ctxs := ctxs s; nctx := nctx s; pool := pool s; ents := ents s;
          nodes := nodes s; errs := errs s; rets := rets s |}, RNone)
  | OSnap keys => (s, snapshot s keys)
  end.

Fixpoint run (chains : Z -> chain) (s : state) (ops : list op) : state * list obs :=
  match ops with
  | [] => (s, [])
  | o :: rest =>
      let '(s1, ob) := step chains s o in
      let '(s2, obs) := run chains s1 rest in
      (s2, ob :: obs)
  end.

Definition exec (chains : Z -> chain) (s : state) (ops : list op) : state := fst (run chains s ops).
