(* Decimal printing (fmt %d) and parsing (strconv.ParseUint / ParseInt, base 10) over byte
   strings, for the metric log line format (C17). *)
From SG Require Import Base.Prelude Base.GoInt Model.MLBytes.

Definition is_digit (c : Z) : bool := (48 <=? c) && (c <=? 57).

(* %d of a non-negative integer; fuel 20 covers every n < 10^20 (> 2^64) *)
Fixpoint pr_dec (fuel : nat) (n : Z) : bytes :=
  match fuel with
  | O => []
  | S f => if n <? 10 then [48 + n] else pr_dec f (n / 10) ++ [48 + n mod 10]
  end.

Definition print_uint (n : Z) : bytes := pr_dec 20 n.
(* %d of a signed integer *)
Definition print_int (n : Z) : bytes := if n <? 0 then 45 :: print_uint (- n) else print_uint n.

(* digits -> value; None on any non-digit *)
Fixpoint pd (a : Z) (l : bytes) : option Z :=
  match l with
  | [] => Some a
  | c :: r => if is_digit c then pd (a * 10 + (c - 48)) r else None
  end.

(* strconv.ParseUint(s, 10, bits) with lim = 2^bits: non-empty, digits only (no sign, no
   underscore in base 10), value < lim (an overflow of the 64-bit accumulator is a range error as well) *)
Definition parse_uint (lim : Z) (l : bytes) : option Z :=
  match l with
  | [] => None
  | _ => match pd 0 l with
         | Some v => if v <? lim then Some v else None
         | None => None
         end
  end.

(* strconv.ParseInt(s, 10, bits) with half = 2^(bits-1): optional sign, then digits; -half <= v < half *)
Definition parse_int (half : Z) (l : bytes) : option Z :=
  match l with
  | [] => None
  | c :: r =>
      if c =? 45 then
        match r with
        | [] => None
        | _ => match pd 0 r with
               | Some v => if v <=? half then Some (- v) else None
               | None => None
               end
        end
      else
        let d := if c =? 43 then r else l in
        match d with
        | [] => None
        | _ => match pd 0 d with
               | Some v => if v <? half then Some v else None
               | None => None
               end
        end
  end.
