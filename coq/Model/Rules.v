(* Rule managers of sentinel-golang: core/{flow,isolation,hotspot,circuitbreaker,system,outlier}/rule_manager.go
   (as of the tree with the D12-D15 repairs, the "clear of a resource without cached rules reports
   unchanged" repair and the "breaker getters report only served rules" repair), transcribed as
   executable Gallina.

   One generic section (rule type, valid, resource, equal, stat_reusable, supported, deep_eq, quirks)
   covers the four managers that keep a map  resource -> list of controllers  (flow, isolation,
   hotspot, circuit breaker); system (whole-set only, raw cache is a slice, keyed by metric type)
   and outlier (one rule per resource, error-returning per-resource load) are transcribed next to
   it with the same op/result vocabulary.  No proofs in this file.

   Conventions
   - strings (Resource, RefResource, ParamKey, ID) are Z ids, 0 = the empty string;
   - a rule list is a list (option rule): None is a nil element of the Go slice;
   - Go maps are association lists; only lookups and key enumeration are used, and every
     comparison the harness makes is per key or on lists sorted by rule tag;
   - a controller id  (op number, resource, position in the new list)  stands for the identity
     (hence the runtime state) of a controller object; c_stat is the identity of the statistics
     object it is built over (its own id when freshly allocated). *)
From Coq Require Import Floats.
From SG Require Import Base.Prelude Base.GoInt Base.GoFloat.
#[local] Open Scope Z_scope.

(* ------------------------------------------------------------------------------------------ *)
(* shared vocabulary *)

Definition cid := (Z * Z * Z)%type.

Definition cid_eqb (a b : cid) : bool :=
  let '(a1, a2, a3) := a in let '(b1, b2, b3) := b in (a1 =? b1) && (a2 =? b2) && (a3 =? b3).

Record result := { changed : bool; err : bool; panicked : bool }.
Definition r_unchanged := {| changed := false; err := false; panicked := false |}.
Definition r_changed := {| changed := true; err := false; panicked := false |}.
Definition r_error_unchanged := {| changed := false; err := true; panicked := false |}.
Definition r_error_changed := {| changed := true; err := true; panicked := false |}.

Fixpoint remove_nth {A} (n : nat) (l : list A) : list A :=
  match l, n with
  | [], _ => []
  | _ :: r, O => r
  | x :: r, S n' => x :: remove_nth n' r
  end.

Fixpoint adel {A} (k : Z) (l : list (Z * A)) : list (Z * A) :=
  match l with
  | [] => []
  | (k', v) :: r => if k =? k' then adel k r else (k', v) :: adel k r
  end.

Definition aget {A} (k : Z) (l : list (Z * list A)) : list A :=
  match alookup k l with Some v => v | None => [] end.

Definition akeys {A} (l : list (Z * A)) : list Z := map fst l.

Definition memZ (k : Z) (l : list Z) : bool := existsb (Z.eqb k) l.

Fixpoint dedupZ (l : list Z) : list Z :=
  match l with
  | [] => []
  | x :: r => x :: filter (fun y => negb (y =? x)) (dedupZ r)
  end.

Fixpoint nonnil {A} (l : list (option A)) : list A :=
  match l with
  | [] => []
  | Some x :: r => x :: nonnil r
  | None :: r => nonnil r
  end.

Fixpoint list_eqb {A} (eqb : A -> A -> bool) (a b : list A) : bool :=
  match a, b with
  | [], [] => true
  | x :: xs, y :: ys => eqb x y && list_eqb eqb xs ys
  | _, _ => false
  end.

Definition opt_eqb {A} (eqb : A -> A -> bool) (a b : option A) : bool :=
  match a, b with
  | None, None => true
  | Some x, Some y => eqb x y
  | _, _ => false
  end.

(* reflect.DeepEqual on two maps: same key set, deep-equal values *)
Definition amap_eqb {A} (eqb : A -> A -> bool) (m1 m2 : list (Z * A)) : bool :=
  forallb (fun k => opt_eqb eqb (alookup k m1) (alookup k m2)) (akeys m1 ++ akeys m2).

(* build a map  k -> f k  for the keys with f k = Some _ *)
Fixpoint amap_of {A} (f : Z -> option A) (ks : list Z) : list (Z * A) :=
  match ks with
  | [] => []
  | k :: r => match f k with Some v => (k, v) :: amap_of f r | None => amap_of f r end
  end.

(* module differences that are not part of the rule type *)
Record quirks := {
  drop_mismatch : bool;     (* build* skips rules whose Resource differs from the resource being built
                               (flow, hotspot, circuit breaker; not isolation) *)
  store_empty_all : bool;   (* whole-set load stores a resource even if nothing was built (hotspot) *)
  separate_reported : bool  (* getters read a separate map (circuit breaker's breakerRules: the loaded
                               rules a breaker serves) instead of the rules bound to the controllers *)
}.

Inductive op (rule : Type) :=
| LoadAll (rules : list (option rule))
| LoadRes (res : Z) (rules : list (option rule)).
Arguments LoadAll {rule}.
Arguments LoadRes {rule}.
(* ClearRules() = LoadRules(nil); ClearRulesOfResource(res) = LoadRulesOfResource(res, nil) *)
Definition ClearAll {rule} : op rule := LoadAll [].
Definition ClearRes {rule} (res : Z) : op rule := LoadRes res [].

(* ------------------------------------------------------------------------------------------ *)
Section Generic.
  Variable rule : Type.
  Variable valid : rule -> bool.                 (* IsValidRule(r) == nil, r non-nil *)
  Variable resource : rule -> Z.                 (* r.Resource *)
  Variable equal : rule -> rule -> bool.         (* old.isEqualsTo(new) / old.Equals(new) *)
  Variable stat_reusable : rule -> rule -> bool. (* old.isStatReusable(new) *)
  Variable supported : rule -> bool.             (* a generator exists and yields a controller *)
  Variable deep_eq : rule -> rule -> bool.       (* reflect.DeepEqual on the two structs *)
  Variable q : quirks.

  Record ctrl := { c_rule : rule; c_id : cid; c_stat : cid }.

  Record state := {
    enforced : list (Z * list ctrl);          (* tcMap / breakers / ruleMap *)
    reported : list (Z * list rule);          (* breakerRules (only read if separate_reported) *)
    raw : list (Z * list (option rule));      (* currentRules *)
    opn : Z                                   (* number of effective loads so far *)
  }.

  Definition init : state := {| enforced := []; reported := []; raw := []; opn := 0 |}.

  (* calculateReuseIndexFor *)
  Fixpoint calc_reuse (r : rule) (olds : list ctrl) (idx : nat) (reuse : option nat) : option nat * option nat :=
    match olds with
    | [] => (None, reuse)
    | o :: rest =>
        if equal (c_rule o) r then (Some idx, reuse)
        else if negb (stat_reusable (c_rule o) r) then calc_reuse r rest (S idx) reuse
        else match reuse with
             | Some _ => calc_reuse r rest (S idx) reuse
             | None => calc_reuse r rest (S idx) (Some idx)
             end
    end.

  Definition mismatch (res : Z) (r : rule) : bool := drop_mismatch q && negb (resource r =? res).

  (* first loop of build*: every rule takes the first remaining old controller with an equal rule *)
  Fixpoint match_equal (res : Z) (rules : list rule) (olds : list ctrl) : list (option ctrl) * list ctrl :=
    match rules with
    | [] => ([], olds)
    | r :: rs =>
        if mismatch res r then
          let '(m, o) := match_equal res rs olds in (None :: m, o)
        else
          match fst (calc_reuse r olds 0 None) with
          | Some i =>
              let '(m, o) := match_equal res rs (remove_nth i olds) in (nth_error olds i :: m, o)
          | None =>
              let '(m, o) := match_equal res rs olds in (None :: m, o)
          end
    end.

  (* second loop: matched rules keep the old controller object; the others are generated, over the
     statistics of the first remaining statistic-reusable old controller if there is one *)
  Fixpoint build2 (n res : Z) (rules : list rule) (matched : list (option ctrl)) (olds : list ctrl) (pos : Z) : list ctrl :=
    match rules, matched with
    | r :: rs, m :: ms =>
        if mismatch res r then build2 n res rs ms olds pos
        else
          match m with
          | Some c => c :: build2 n res rs ms olds (pos + 1)
          | None =>
              if negb (supported r) then build2 n res rs ms olds pos
              else
                let id := (n, res, pos) in
                match snd (calc_reuse r olds 0 None) with
                | Some j =>
                    match nth_error olds j with
                    | Some o => {| c_rule := r; c_id := id; c_stat := c_stat o |} :: build2 n res rs ms (remove_nth j olds) (pos + 1)
                    | None => {| c_rule := r; c_id := id; c_stat := id |} :: build2 n res rs ms olds (pos + 1)
                    end
                | None => {| c_rule := r; c_id := id; c_stat := id |} :: build2 n res rs ms olds (pos + 1)
                end
          end
    | _, _ => []
    end.

  (* buildResourceTrafficShapingController / BuildResourceCircuitBreaker *)
  Definition build (n res : Z) (rules : list rule) (olds : list ctrl) : list ctrl :=
    let '(m, rest) := match_equal res rules olds in build2 n res rules m rest 0.

  Definition vfilter (l : list (option rule)) : list rule := filter valid (nonnil l).

  (* a controller is built for the (valid) rule r under resource res: it is addressed to res where the
     module checks that, and a generator exists *)
  Definition buildable (res : Z) (r : rule) : bool := negb (mismatch res r) && supported r.

  Definition rules_of (res : Z) (l : list rule) : list rule := filter (fun r => resource r =? res) l.

  (* LoadRules: nil elements are skipped, the rest is grouped by Resource *)
  Definition group (l : list (option rule)) : list (Z * list (option rule)) :=
    let nn := nonnil l in
    map (fun k => (k, map Some (rules_of k nn))) (dedupZ (map resource nn)).

  Definition raw_eqb := amap_eqb (list_eqb (opt_eqb deep_eq)).

  Definition load_all (s : state) (l : list (option rule)) : state * result :=
    let g := group l in
    if raw_eqb (raw s) g then (s, r_unchanged)
    else
      let ks := akeys g in
      (* breakerRules: per resource with at least one breaker, the rules a breaker was built for *)
      let validmap := amap_of (fun k => match vfilter (aget k g) with
                                        | [] => None
                                        | v => match build (opn s) k v (aget k (enforced s)) with
                                               | [] => None
                                               | _ => Some (filter (buildable k) v)
                                               end
                                        end) ks in
      let enf := amap_of (fun k => match vfilter (aget k g) with
                                   | [] => None
                                   | v => match build (opn s) k v (aget k (enforced s)) with
                                          | [] => if store_empty_all q then Some [] else None
                                          | cs => Some cs
                                          end
                                   end) ks in
      ({| enforced := enf; reported := validmap; raw := g; opn := opn s + 1 |}, r_changed).

  Definition load_res (s : state) (res : Z) (l : list (option rule)) : state * result :=
    if res =? 0 then (s, r_error_unchanged)
    else match l with
    | [] =>
        (* clear: nothing cached for the resource -> nothing to clear, 'unchanged' *)
        match alookup res (raw s) with
        | None => (s, r_unchanged)
        | Some _ => ({| enforced := adel res (enforced s); reported := adel res (reported s);
                        raw := adel res (raw s); opn := opn s + 1 |}, r_changed)
        end
    | _ =>
      if list_eqb (opt_eqb deep_eq) (aget res (raw s)) l then (s, r_unchanged)
      else
        let v := vfilter l in
        match build (opn s) res v (aget res (enforced s)) with
        | [] => ({| enforced := adel res (enforced s); reported := adel res (reported s);
                    raw := aset res l (raw s); opn := opn s + 1 |}, r_changed)
        | cs => ({| enforced := aset res cs (enforced s); reported := aset res (filter (buildable res) v) (reported s);
                    raw := aset res l (raw s); opn := opn s + 1 |}, r_changed)
        end
    end.

  Definition step (s : state) (o : op rule) : state * result :=
    match o with
    | LoadAll l => load_all s l
    | LoadRes res l => load_res s res l
    end.

  Fixpoint run (s : state) (ops : list (op rule)) : state * list result :=
    match ops with
    | [] => (s, [])
    | o :: r => let '(s1, x) := step s o in let '(s2, xs) := run s1 r in (s2, x :: xs)
    end.

  (* the controllers that check traffic of `res` *)
  Definition ctrls_of (s : state) (res : Z) : list ctrl := aget res (enforced s).
  Definition enforced_rules (s : state) (res : Z) : list rule := map c_rule (ctrls_of s res).

  (* GetRulesOfResource / GetRules *)
  Definition get_res (s : state) (res : Z) : list rule :=
    if separate_reported q then aget res (reported s) else enforced_rules s res.
  Definition get_all (s : state) : list rule :=
    if separate_reported q then flat_map snd (reported s) else flat_map (fun kv => map c_rule (snd kv)) (enforced s).
End Generic.

Arguments c_rule {rule}.
Arguments c_id {rule}.
Arguments c_stat {rule}.
Arguments enforced {rule}.
Arguments reported {rule}.
Arguments raw {rule}.
Arguments opn {rule}.

(* ------------------------------------------------------------------------------------------ *)
(* flow *)

Record frule := {
  f_tag : Z;            (* ID *)
  f_res : Z;
  f_tcs : Z;            (* TokenCalculateStrategy int32: 0 Direct 1 WarmUp 2 MemoryAdaptive *)
  f_cb : Z;             (* ControlBehavior int32: 0 Reject 1 Throttling *)
  f_thr : float;
  f_rel : Z;            (* RelationStrategy int32: 0 CurrentResource 1 AssociatedResource *)
  f_ref : Z;            (* RefResource *)
  f_maxq : Z; f_wperiod : Z; f_wcold : Z; f_interval : Z;   (* uint32 *)
  f_lowmem : Z; f_highmem : Z; f_memlow : Z; f_memhigh : Z  (* int64 *)
}.

(* flow.IsValidRule; total_mem = int64(system_metric.TotalMemorySize) *)
Definition flow_valid (total_mem : Z) (r : frule) : bool :=
  if f_res r =? 0 then false
  else if negb (f_thr r =? f_thr r)%float then false   (* math.IsNaN *)
  else if (f_thr r <? 0)%float then false
  else if f_tcs r <? 0 then false
  else if f_cb r <? 0 then false
  else if negb ((0 <=? f_rel r) && (f_rel r <=? 1)) then false
  else if (f_rel r =? 1) && (f_ref r =? 0) then false
  else if (f_tcs r =? 1) && ((f_wperiod r <=? 0) || (f_wcold r =? 1)) then false
  else if f_tcs r =? 2 then
    if f_lowmem r <=? 0 then false
    else if f_highmem r <=? 0 then false
    else if f_lowmem r <=? f_highmem r then false
    else if f_memlow r <=? 0 then false
    else if f_memhigh r <=? 0 then false
    else if total_mem <? f_memhigh r then false
    else if f_memhigh r <=? f_memlow r then false
    else true
  else true.

Definition flow_need_stat (r : frule) : bool := (f_tcs r =? 1) || (f_cb r =? 0).

(* Rule.isEqualsTo: everything but the ID; Threshold through util.Float64Equals *)
Definition flow_equal (o n : frule) : bool :=
  (f_res o =? f_res n) && (f_rel o =? f_rel n) && (f_ref o =? f_ref n) && (f_interval o =? f_interval n)
  && (f_tcs o =? f_tcs n) && (f_cb o =? f_cb n) && float64_equals (f_thr o) (f_thr n)
  && (f_maxq o =? f_maxq n) && (f_wperiod o =? f_wperiod n) && (f_wcold o =? f_wcold n)
  && (f_lowmem o =? f_lowmem n) && (f_highmem o =? f_highmem n)
  && (f_memlow o =? f_memlow n) && (f_memhigh o =? f_memhigh n).

Definition flow_stat_reusable (o n : frule) : bool :=
  (f_res o =? f_res n) && (f_rel o =? f_rel n) && (f_ref o =? f_ref n) && (f_interval o =? f_interval n)
  && flow_need_stat o && flow_need_stat n.

(* tcGenFuncMap has generators for {Direct, WarmUp, MemoryAdaptive} x {Reject, Throttling} *)
Definition flow_supported (r : frule) : bool :=
  (0 <=? f_tcs r) && (f_tcs r <=? 2) && (0 <=? f_cb r) && (f_cb r <=? 1).

(* reflect.DeepEqual on flow.Rule: == on every field (float ==: NaN differs from itself) *)
Definition flow_deep_eq (a b : frule) : bool :=
  (f_tag a =? f_tag b) && (f_res a =? f_res b) && (f_tcs a =? f_tcs b) && (f_cb a =? f_cb b)
  && (f_thr a =? f_thr b)%float && (f_rel a =? f_rel b) && (f_ref a =? f_ref b)
  && (f_maxq a =? f_maxq b) && (f_wperiod a =? f_wperiod b) && (f_wcold a =? f_wcold b)
  && (f_interval a =? f_interval b)
  && (f_lowmem a =? f_lowmem b) && (f_highmem a =? f_highmem b)
  && (f_memlow a =? f_memlow b) && (f_memhigh a =? f_memhigh b).

Definition flow_quirks := {| drop_mismatch := true; store_empty_all := false; separate_reported := false |}.

(* generateStatFor: does the rule get a statistics object of its own (a private leap array)?
   g_interval/g_samples = global statistic geometry (10000 ms / 20), m_interval = metric
   statistic interval (1000 ms).  Otherwise it reads the resource node's shared statistics
   (or the nop statistic), whose identity is not attributable to the controller. *)
Definition flow_own_stat (g_interval g_samples m_interval : Z) (r : frule) : bool :=
  if negb (flow_need_stat r) then false
  else
    let i := f_interval r in
    if (i =? 0) || (i =? m_interval) then false
    else
      let blen := g_interval / g_samples in
      let sc := if g_interval <? i then 1 else if i <? blen then 1 else if i mod blen =? 0 then i / blen else 1 in
      (* CheckValidityForReuseStatistic(sc, i, g_samples, g_interval) == GlobalStatisticNonReusableError *)
      negb (g_interval mod i =? 0) || negb ((i / sc) mod blen =? 0).

(* ------------------------------------------------------------------------------------------ *)
(* isolation: the rule map holds the rules themselves (no controller objects, no reuse) *)

Record irule := { i_tag : Z; i_res : Z; i_metric : Z (* int32 *); i_thr : Z (* uint32 *) }.

Definition iso_valid (r : irule) : bool :=
  if i_res r =? 0 then false else if negb (i_metric r =? 0) then false else if i_thr r =? 0 then false else true.
Definition iso_deep_eq (a b : irule) : bool :=
  (i_tag a =? i_tag b) && (i_res a =? i_res b) && (i_metric a =? i_metric b) && (i_thr a =? i_thr b).
Definition iso_quirks := {| drop_mismatch := false; store_empty_all := false; separate_reported := false |}.
Definition iso_never (_ _ : irule) : bool := false.
Definition iso_always (_ : irule) : bool := true.

(* ------------------------------------------------------------------------------------------ *)
(* hotspot *)

Record hrule := {
  h_tag : Z; h_res : Z;
  h_metric : Z;   (* MetricType int32: 0 Concurrency 1 QPS *)
  h_cb : Z;       (* ControlBehavior int32: 0 Reject 1 Throttling *)
  h_pidx : Z;     (* ParamIndex int *)
  h_pkey : Z;     (* ParamKey *)
  h_thr : Z; h_maxq : Z; h_burst : Z; h_dur : Z; h_cap : Z;   (* int64 *)
  h_items : option (list (Z * Z))   (* SpecificItems: None = nil map; keys as ids, sorted *)
}.

Definition hot_valid (r : hrule) : bool :=
  if h_res r =? 0 then false
  else if h_thr r <? 0 then false
  else if h_metric r <? 0 then false
  else if h_cb r <? 0 then false
  else if (h_metric r =? 1) && (h_dur r <=? 0) then false
  else if (0 <? h_pidx r) && negb (h_pkey r =? 0) then false
  else if h_cb r =? 0 then negb (h_burst r <? 0)
  else if h_cb r =? 1 then negb (h_maxq r <? 0)
  else true.

Definition pairZ_eqb (a b : Z * Z) : bool := (fst a =? fst b) && (snd a =? snd b).
Definition items_eqb : option (list (Z * Z)) -> option (list (Z * Z)) -> bool := opt_eqb (list_eqb pairZ_eqb).

(* Rule.Equals *)
Definition hot_equal (o n : hrule) : bool :=
  (h_res o =? h_res n) && (h_metric o =? h_metric n) && (h_cb o =? h_cb n) && (h_cap o =? h_cap n)
  && (h_pidx o =? h_pidx n) && (h_pkey o =? h_pkey n) && (h_thr o =? h_thr n) && (h_dur o =? h_dur n)
  && items_eqb (h_items o) (h_items n)
  && (if h_cb o =? 0 then h_burst o =? h_burst n else if h_cb o =? 1 then h_maxq o =? h_maxq n else false).

Definition hot_stat_reusable (o n : hrule) : bool :=
  (h_res o =? h_res n) && (h_cb o =? h_cb n) && (h_cap o =? h_cap n) && (h_dur o =? h_dur n) && (h_metric o =? h_metric n).

(* tcGenFuncMap has Reject and Throttling; newBaseTrafficShapingController knows QPS and Concurrency *)
Definition hot_supported (r : hrule) : bool :=
  (0 <=? h_cb r) && (h_cb r <=? 1) && (0 <=? h_metric r) && (h_metric r <=? 1).

Definition hot_deep_eq (a b : hrule) : bool :=
  (h_tag a =? h_tag b) && (h_res a =? h_res b) && (h_metric a =? h_metric b) && (h_cb a =? h_cb b)
  && (h_pidx a =? h_pidx b) && (h_pkey a =? h_pkey b) && (h_thr a =? h_thr b) && (h_maxq a =? h_maxq b)
  && (h_burst a =? h_burst b) && (h_dur a =? h_dur b) && (h_cap a =? h_cap b) && items_eqb (h_items a) (h_items b).

Definition hot_quirks := {| drop_mismatch := true; store_empty_all := true; separate_reported := false |}.

(* ------------------------------------------------------------------------------------------ *)
(* circuit breaker *)

Record brule := {
  b_tag : Z; b_res : Z;
  b_strategy : Z;   (* uint32: 0 SlowRequestRatio 1 ErrorRatio 2 ErrorCount *)
  b_retry : Z;      (* uint32 *)
  b_minreq : Z;     (* uint64 *)
  b_interval : Z;   (* uint32 *)
  b_buckets : Z;    (* uint32 *)
  b_maxrt : Z;      (* uint64 *)
  b_thr : float;
  b_probe : Z       (* uint64 *)
}.

Definition brk_valid (r : brule) : bool :=
  if b_res r =? 0 then false
  else if b_interval r <=? 0 then false
  else if b_retry r <=? 0 then false
  else if negb (b_thr r =? b_thr r)%float || (b_thr r <? 0)%float then false   (* math.IsNaN(t) || t < 0 *)
  else if (b_strategy r =? 0) && (1 <? b_thr r)%float then false
  else if (b_strategy r =? 1) && (1 <? b_thr r)%float then false
  else true.

Definition brk_equal (o n : brule) : bool :=
  (b_res o =? b_res n) && (b_strategy o =? b_strategy n) && (b_retry o =? b_retry n)
  && (b_minreq o =? b_minreq n) && (b_interval o =? b_interval n) && (b_buckets o =? b_buckets n)
  && (b_probe o =? b_probe n)
  && (if b_strategy n =? 0 then (b_maxrt o =? b_maxrt n) && float64_equals (b_thr o) (b_thr n)
      else if (b_strategy n =? 1) || (b_strategy n =? 2) then float64_equals (b_thr o) (b_thr n)
      else false).

Definition brk_stat_reusable (o n : brule) : bool :=
  (b_res o =? b_res n) && (b_strategy o =? b_strategy n) && (b_interval o =? b_interval n) && (b_buckets o =? b_buckets n).

Definition brk_supported (r : brule) : bool := (0 <=? b_strategy r) && (b_strategy r <=? 2).

Definition brk_deep_eq (a b : brule) : bool :=
  (b_tag a =? b_tag b) && (b_res a =? b_res b) && (b_strategy a =? b_strategy b) && (b_retry a =? b_retry b)
  && (b_minreq a =? b_minreq b) && (b_interval a =? b_interval b) && (b_buckets a =? b_buckets b)
  && (b_maxrt a =? b_maxrt b) && (b_thr a =? b_thr b)%float && (b_probe a =? b_probe b).

Definition brk_quirks := {| drop_mismatch := true; store_empty_all := false; separate_reported := true |}.

(* ------------------------------------------------------------------------------------------ *)
(* the four instances *)

Definition flow_step (tm : Z) := step frule (flow_valid tm) f_res flow_equal flow_stat_reusable flow_supported flow_deep_eq flow_quirks.
Definition flow_run (tm : Z) := run frule (flow_valid tm) f_res flow_equal flow_stat_reusable flow_supported flow_deep_eq flow_quirks.
Definition iso_step := step irule iso_valid i_res iso_never iso_never iso_always iso_deep_eq iso_quirks.
Definition iso_run := run irule iso_valid i_res iso_never iso_never iso_always iso_deep_eq iso_quirks.
Definition hot_step := step hrule hot_valid h_res hot_equal hot_stat_reusable hot_supported hot_deep_eq hot_quirks.
Definition hot_run := run hrule hot_valid h_res hot_equal hot_stat_reusable hot_supported hot_deep_eq hot_quirks.
Definition brk_step := step brule brk_valid b_res brk_equal brk_stat_reusable brk_supported brk_deep_eq brk_quirks.
Definition brk_run := run brule brk_valid b_res brk_equal brk_stat_reusable brk_supported brk_deep_eq brk_quirks.

(* ------------------------------------------------------------------------------------------ *)
(* system: whole-set only; the raw cache is the slice itself (nil and empty differ under
   reflect.DeepEqual); rules are grouped by metric type and apply to all inbound traffic *)

Record srule := { s_tag : Z; s_metric : Z (* uint32 *); s_trigger : float; s_strategy : Z (* int32 *) }.

Definition sys_valid (r : srule) : bool :=
  if negb (s_trigger r =? s_trigger r)%float then false   (* math.IsNaN *)
  else if (s_trigger r <? 0)%float then false
  else if 5 <=? s_metric r then false
  else if (s_metric r =? 4) && (1 <? s_trigger r)%float then false
  else true.

Definition sys_deep_eq (a b : srule) : bool :=
  (s_tag a =? s_tag b) && (s_metric a =? s_metric b) && (s_trigger a =? s_trigger b)%float && (s_strategy a =? s_strategy b).

Record sys_state := {
  sys_raw : option (list (option srule));  (* currentRules; None = nil slice *)
  sys_rules : list srule                   (* the rules in ruleMap, in load order *)
}.
Definition sys_init : sys_state := {| sys_raw := Some []; sys_rules := [] |}.

(* system.LoadRules; the argument None is a nil slice *)
Definition sys_load (s : sys_state) (l : option (list (option srule))) : sys_state * result :=
  if opt_eqb (list_eqb (opt_eqb sys_deep_eq)) (sys_raw s) l then (s, r_unchanged)
  else ({| sys_raw := l; sys_rules := filter sys_valid (nonnil (match l with Some x => x | None => [] end)) |}, r_changed).

Fixpoint sys_run (s : sys_state) (ops : list (option (list (option srule)))) : sys_state * list result :=
  match ops with
  | [] => (s, [])
  | o :: r => let '(s1, x) := sys_load s o in let '(s2, xs) := sys_run s1 r in (s2, x :: xs)
  end.

(* ruleMap[metric type] *)
Definition sys_of_metric (s : sys_state) (mt : Z) : list srule := filter (fun r => s_metric r =? mt) (sys_rules s).

(* ------------------------------------------------------------------------------------------ *)
(* outlier: one rule per resource; the rule embeds a *circuitbreaker.Rule whose Resource is the
   rule's resource; a rule with a nil embedded rule is skipped by LoadRules and rejected with an
   error by LoadRuleOfResource *)

Record orule := {
  o_tag : Z;
  o_cb : option brule;      (* embedded *circuitbreaker.Rule *)
  o_active : bool; o_maxpct : float; o_recms : Z; o_recycle : Z; o_maxrec : Z
}.

Definition out_valid (r : orule) : bool :=
  match o_cb r with
  | None => false
  | Some c =>
      if b_res c =? 0 then false
      else if (o_maxpct r <? 0)%float || (1 <? o_maxpct r)%float then false
      else brk_valid c
  end.

Definition out_deep_eq (a b : orule) : bool :=
  (o_tag a =? o_tag b) && opt_eqb brk_deep_eq (o_cb a) (o_cb b) && Bool.eqb (o_active a) (o_active b)
  && (o_maxpct a =? o_maxpct b)%float && (o_recms a =? o_recms b) && (o_recycle a =? o_recycle b) && (o_maxrec a =? o_maxrec b).

Record out_state := {
  out_raw : list (Z * orule);      (* currentRules *)
  out_rules : list (Z * orule)     (* outlierRules (breakerRules holds the embedded rules) *)
}.
Definition out_init : out_state := {| out_raw := []; out_rules := [] |}.

Definition out_resource (r : orule) : Z := match o_cb r with Some c => b_res c | None => 0 end.

(* rulesMap[rule.Resource] = rule  — the last rule of a resource wins *)
Definition out_group (l : list (option orule)) : list (Z * orule) :=
  fold_left (fun m r => aset (out_resource r) r m) (filter (fun r => match o_cb r with Some _ => true | None => false end) (nonnil l)) [].

Definition out_load_all (s : out_state) (l : list (option orule)) : out_state * result :=
  let g := out_group l in
  if amap_eqb out_deep_eq (out_raw s) g then (s, r_unchanged)
  else ({| out_raw := g;
           out_rules := amap_of (fun k => match alookup k g with
                                          | Some r => if out_valid r then Some r else None
                                          | None => None
                                          end) (akeys g) |}, r_changed).

(* LoadRuleOfResource(res, rule); None = nil rule = clear *)
Definition out_load_res (s : out_state) (res : Z) (r : option orule) : out_state * result :=
  if res =? 0 then (s, r_error_unchanged)
  else match r with
  | None =>
      match alookup res (out_raw s) with
      | None => (s, r_unchanged)      (* nothing cached for the resource: nothing to clear *)
      | Some _ => ({| out_raw := adel res (out_raw s); out_rules := adel res (out_rules s) |}, r_changed)
      end
  | Some x =>
      if opt_eqb out_deep_eq (alookup res (out_raw s)) (Some x) then (s, r_unchanged)
      else if negb (out_valid x) then (s, r_error_changed)   (* error returned, nothing stored: rejected *)
      else ({| out_raw := aset res x (out_raw s); out_rules := aset res x (out_rules s) |}, r_changed)
  end.

Inductive out_op :=
| OLoadAll (l : list (option orule))
| OLoadRes (res : Z) (r : option orule).

Definition out_step (s : out_state) (o : out_op) : out_state * result :=
  match o with
  | OLoadAll l => out_load_all s l
  | OLoadRes res r => out_load_res s res r
  end.

Fixpoint out_run (s : out_state) (ops : list out_op) : out_state * list result :=
  match ops with
  | [] => (s, [])
  | o :: r => let '(s1, x) := out_step s o in let '(s2, xs) := out_run s1 r in (s2, x :: xs)
  end.
