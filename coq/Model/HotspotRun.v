(* Executable comparison of the hotspot model with what the harness observed on the Go code;
   shared by Corr/Run_C05.v and Corr/Run_C06.v.  No proofs. *)
From SG Require Export Base.Prelude Base.GoInt Model.LRU Model.Hotspot.
#[local] Open Scope Z_scope.

(* short constructors used by the generated case files *)
Definition mkR (metric behavior idx key thr maxq burst dur cap : Z) (spec : list (Z * Z)) : rule :=
  {| r_metric := metric; r_behavior := behavior; r_idx := idx; r_key := key; r_thr := thr;
     r_maxq := maxq; r_burst := burst; r_dur := dur; r_cap := cap; r_spec := spec |}.
Definition mkQ (args : list (option Z)) (atts : list (Z * option Z)) (batch : Z) : req :=
  {| q_args := args; q_atts := atts; q_batch := batch |}.

Fixpoint listZ_eqb (a b : list Z) : bool :=
  match a, b with
  | [], [] => true
  | x :: xs, y :: ys => (x =? y) && listZ_eqb xs ys
  | _, _ => false
  end.

Definition optZ_eqb (a b : option Z) : bool :=
  match a, b with
  | None, None => true
  | Some x, Some y => x =? y
  | _, _ => false
  end.

Definition obs_eqb (a b : obs) : bool :=
  match a, b with
  | ONone, ONone => true
  | OPass s, OPass t => listZ_eqb s t
  | OBlock i v s, OBlock j w t => (i =? j) && optZ_eqb v w && listZ_eqb s t
  | _, _ => false      (* OSpin never matches: the implementation returned *)
  end.

Fixpoint obs_list_eqb (a b : list obs) : bool :=
  match a, b with
  | [], [] => true
  | x :: xs, y :: ys => obs_eqb x y && obs_list_eqb xs ys
  | _, _ => false
  end.

(* observed cache content, most recently used first; None = the value could not be read
   (NaN key: not retrievable by Get) and is not compared *)
Definition cells := list (Z * option Z).

Fixpoint cells_eqb (l : lru Z) (c : cells) : bool :=
  match l, c with
  | [], [] => true
  | (k, v) :: lr, (k', ov) :: cr =>
      (k =? k') && (match ov with Some v' => v =? v' | None => true end) && cells_eqb lr cr
  | _, _ => false
  end.

Definition metric_eqb (m : metric) (f : cells * cells * cells) : bool :=
  let '(t, k, c) := f in
  cells_eqb (m_time m) t && cells_eqb (m_tok m) k && cells_eqb (m_conc m) c.

Fixpoint metrics_eqb (ms : list metric) (fs : list (cells * cells * cells)) : bool :=
  match ms, fs with
  | [], [] => true
  | m :: mr, f :: fr => metric_eqb m f && metrics_eqb mr fr
  | _, _ => false
  end.

Definition rules_fn (rs : list (Z * list rule)) (res : Z) : list rule :=
  match alookup res rs with Some l => l | None => [] end.

Inductive case :=
| HC (id : Z) (adv : bool) (clk0 : Z)
     (rules : list (Z * list rule)) (ops : list op) (observed : list obs)
     (finals : list (Z * list (cells * cells * cells)))
| HK (concurrency_max_count params_capacity_base params_max_capacity : Z).
    (* constants exported by the Go package, compared with the model's *)

Definition case_ok (c : case) : bool :=
  match c with
  | HC _ adv clk0 rules ops observed finals =>
      let '(s, o) := run (rules_fn rules) adv (init clk0) ops in
      obs_list_eqb o observed &&
      forallb (fun rf => metrics_eqb (metrics_of (rules_fn rules) s (fst rf)) (snd rf)) finals
  | HK a b c =>
      (a =? ConcurrencyMaxCount) && (b =? ParamsCapacityBase) && (c =? ParamsMaxCapacity)
  end.

Definition case_id (c : case) : Z := match c with HC id _ _ _ _ _ _ => id | HK _ _ _ => -1 end.

Definition mismatches_of (cs : list case) : list Z :=
  map case_id (filter (fun c => negb (case_ok c)) cs).

