(* Getters of SlidingWindowMetric and core/stat.BaseStatNode on top of Model/LeapArray.v,
   including the float64 arithmetic they perform. *)
From Coq Require Import Floats.
From SG Require Import Base.Prelude Base.GoInt Base.GoFloat Model.LeapArray.
#[local] Open Scope Z_scope.

(* SlidingWindowMetric.getQPSWithTime: float64(sum) / (float64(intervalInMs) / 1000.0) *)
Definition view_qps (a : bla) (v : view) (now ev : Z) : float :=
  (f_of_i64 (view_sum a v now ev) / (f_of_u64 (v_itv v) / 1000))%float.

(* GetPreviousQPS: the same one view bucket earlier (uint64 subtraction) *)
Definition view_prev_qps (a : bla) (v : view) (now ev : Z) : float :=
  view_qps a v (u64 (now - v_bl v)) ev.

(* SlidingWindowMetric.AvgRT: float64(rtSum) / float64(completeSum) *)
Definition view_avg_rt (a : bla) (v : view) (now : Z) : float :=
  (f_of_i64 (view_sum a v now EvRt) / f_of_i64 (view_sum a v now EvComplete))%float.

(* BaseStatNode *)
Record node := { nd_arr : bla; nd_view : view; nd_conc : Z }.

Definition node_new (gn gitv vn vitv now : Z) : node :=
  {| nd_arr := bla_new gn gitv now; nd_view := {| v_n := vn; v_itv := vitv |}; nd_conc := 0 |}.

Definition node_add (x : node) (now ev c : Z) : node :=
  {| nd_arr := bla_add (nd_arr x) now ev c; nd_view := nd_view x; nd_conc := nd_conc x |}.

(* IncreaseConcurrency: atomic add then UpdateConcurrency(new value) *)
Definition node_inc (x : node) (now : Z) : node :=
  let c := i32 (nd_conc x + 1) in
  {| nd_arr := bla_update_conc (nd_arr x) now c; nd_view := nd_view x; nd_conc := c |}.
Definition node_dec (x : node) : node :=
  {| nd_arr := nd_arr x; nd_view := nd_view x; nd_conc := i32 (nd_conc x - 1) |}.

Definition node_sum (x : node) (now ev : Z) : Z := view_sum (nd_arr x) (nd_view x) now ev.
Definition node_qps (x : node) (now ev : Z) : float := view_qps (nd_arr x) (nd_view x) now ev.
Definition node_prev_qps (x : node) (now ev : Z) : float := view_prev_qps (nd_arr x) (nd_view x) now ev.

(* AvgRT: integer division of the two window sums, 0 when nothing completed *)
Definition node_avg_rt (x : node) (now : Z) : float :=
  let complete := node_sum x now EvComplete in
  if complete <=? 0 then 0%float
  else f_of_i64 (Z.quot (node_sum x now EvRt) complete).

Definition node_min_rt (x : node) (now : Z) : float := f_of_i64 (view_min_rt (nd_arr x) (nd_view x) now).
Definition node_max_conc (x : node) (now : Z) : Z := view_max_conc (nd_arr x) (nd_view x) now.

(* GetMaxAvg: float64(maxOfSingleBucket) * float64(sampleCount) / float64(intervalMs) * 1000.0 *)
Definition node_max_avg (x : node) (now ev : Z) : float :=
  (f_of_i64 (view_max_single (nd_arr x) (nd_view x) now ev) * f_of_u64 (v_n (nd_view x))
   / f_of_u64 (v_itv (nd_view x)) * 1000)%float.
