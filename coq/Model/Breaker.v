(* Model of core/circuitbreaker (circuit_breaker.go, slot.go, stat_slot.go) for sequential
   histories in virtual time (property C03). Transcribed from the Go code as it is:

   - the breakers' counters live in a generic sbase.LeapArray whose buckets hold a pair of
     counters (slow|error, total); `la_current` = LeapArray.CurrentBucket (refresh on
     rollover, "behind" branch included), `la_valid` = !isBucketDeprecated (uint64
     subtraction with wrap-around, `>=`), creation layout = NewAtomicBucketWrapArrayWithTime;
   - `on_complete` = *CircuitBreaker.OnRequestComplete of the three strategies;
   - `try_pass` = TryPass; `rollback` = the exit hook registered in fromOpenToHalfOpen;
   - `step` = one api.Entry (Slot.Check over the resource's breakers in order, exit hooks
     on a block) or one Exit (MetricStatSlot.OnCompleted over the breakers in order).

   No proofs in this file. The field `ghist` is a GHOST: the completions recorded since
   the breaker last closed; no transition reads it (the specification is stated over it). *)
From Coq Require Import Floats.
From SG Require Import Base.Prelude Base.GoInt Base.GoFloat.
#[local] Open Scope Z_scope.

(* ---------------------------------------------------------------------------------- *)
(* leap array of (bad, total) counters                                                  *)

Record slot := { sst : Z; sbad : Z; stot : Z }.

Definition slot0 : slot := {| sst := 0; sbad := 0; stot := 0 |}.

(* calculateStartTime / calculateTimeIdx *)
Definition bstart (bl now : Z) : Z := now - now mod bl.
Definition bidx (n bl now : Z) : Z := (now / bl) mod n.

Fixpoint seqZ (from : Z) (k : nat) : list Z :=
  match k with O => [] | S k' => from :: seqZ (from + 1) k' end.

(* NewAtomicBucketWrapArrayWithTime: slots idx..n-1 get consecutive starts from the current
   bucket start, then slots 0..idx-1 continue the sequence *)
Definition la_init (n bl t0 : Z) : list slot :=
  let idx := bidx n bl t0 in
  let s0 := bstart bl t0 in
  map (fun i => {| sst := if idx <=? i then s0 + (i - idx) * bl else s0 + (n - idx + i) * bl;
                   sbad := 0; stot := 0 |}) (seqZ 0 (Z.to_nat n)).

Definition sget (sl : list slot) (i : Z) : slot := nth (Z.to_nat i) sl slot0.
Definition sset (sl : list slot) (i : Z) (v : slot) : list slot := upd_nth (Z.to_nat i) (fun _ => v) sl.

(* LeapArray.currentBucketOfTime (sequential reading): None = the error branch *)
Definition la_current (n bl now : Z) (sl : list slot) : option (list slot) :=
  let i := bidx n bl now in
  let bs := bstart bl now in
  let old := sget sl i in
  if bs =? sst old then Some sl
  else if sst old <? bs then Some (sset sl i {| sst := bs; sbad := 0; stot := 0 |})   (* ResetBucketTo *)
  else if n =? 1 then Some sl
  else None.

(* !isBucketDeprecated: uint64(now - start) < intervalInMs *)
Definition la_valid (n bl now : Z) (w : slot) : bool := u64_sub now (sst w) <? n * bl.

(* sum of f over the slots that LeapArray.Values() returns (index loop 0..n-1) *)
Fixpoint sum_idx (f : Z -> Z) (k : nat) : Z :=
  match k with O => 0 | S k' => sum_idx f k' + f (Z.of_nat k') end.

Definition la_sum (proj : slot -> Z) (n bl now : Z) (sl : list slot) : Z :=
  sum_idx (fun i => if la_valid n bl now (sget sl i) then proj (sget sl i) else 0) (Z.to_nat n).

(* resetMetric: zero the counters of every bucket returned by Values() *)
Definition la_clear (n bl now : Z) (sl : list slot) : list slot :=
  map (fun w => if la_valid n bl now w then {| sst := sst w; sbad := 0; stot := 0 |} else w) sl.

(* ---------------------------------------------------------------------------------- *)
(* one breaker                                                                          *)

Inductive strategy := SlowRatio | ErrRatio | ErrCount.
Inductive bst := Closed | HalfOpen | Open.

Record cfg := Cfg {
  strat     : strategy;
  thr       : float;      (* Rule.Threshold *)
  min_amt   : Z;          (* MinRequestAmount *)
  retry_ms  : Z;          (* RetryTimeoutMs *)
  probe_num : Z;          (* ProbeNum *)
  max_rt    : Z;          (* MaxAllowedRtMs (slow-ratio only) *)
  gn        : Z;          (* bucket count actually used: getRuleStatSlidingWindowBucketCount *)
  gbl       : Z           (* bucket length = StatIntervalMs / gn *)
}.

Record breaker := {
  state      : bst;
  next_retry : Z;
  cur_probe  : Z;
  slots      : list slot;
  ghist      : list (Z * bool)   (* GHOST: (completion time, counted as bad) since last close *)
}.

Inductive snap := SF (f : float) | SZ (z : Z).
(* a listener call: previous state, new state, snapshot (OnTransformToOpen only) *)
Inductive tev := TEv (from to : bst) (s : option snap).

Definition bst_eqb (a b : bst) : bool :=
  match a, b with Closed, Closed | HalfOpen, HalfOpen | Open, Open => true | _, _ => false end.

Definition new_breaker (c : cfg) (t0 : Z) : breaker :=
  {| state := Closed; next_retry := 0; cur_probe := 0; slots := la_init (gn c) (gbl c) t0; ghist := [] |}.

(* the configuration of the breaker built from a rule: getRuleStatSlidingWindowBucketCount
   and NewLeapArray's bucketLengthInMs = intervalInMs / sampleCount *)
Definition rule_cfg (s : strategy) (threshold : float) (minamt retry probe maxrt interval rawcount : Z) : cfg :=
  let n := if (rawcount =? 0) || negb (interval mod rawcount =? 0) then 1 else rawcount in
  Cfg s threshold minamt retry probe maxrt n (interval / n).

(* what the strategy counts in its first counter *)
Definition is_bad (c : cfg) (rt : Z) (err : bool) : bool :=
  match strat c with SlowRatio => max_rt c <? rt | _ => err end.

(* threshold predicate over the window sums (bad, total) *)
Definition ratio (b t : Z) : float := (f_of_u64 b / f_of_u64 t)%float.
Definition reached (c : cfg) (b t : Z) : bool :=
  match strat c with
  | ErrCount => go_u64_of_f (thr c) <=? b
  | _ => let r := ratio b t in (thr c <? r)%float || float64_equals r (thr c)
  end.
Definition open_snapshot (c : cfg) (b t : Z) : snap :=
  match strat c with ErrCount => SZ b | _ => SF (ratio b t) end.
(* the snapshot passed by a failed probe: 1.0 (ratio strategies) / int 1 (error count) *)
Definition probe_fail_snapshot (c : cfg) : snap :=
  match strat c with ErrCount => SZ 1 | _ => SF 1%float end.

Definition set_slots (b : breaker) (sl : list slot) (h : list (Z * bool)) : breaker :=
  {| state := state b; next_retry := next_retry b; cur_probe := cur_probe b; slots := sl; ghist := h |}.

(* TryPass at clock value `now`: (breaker', passed, listener calls, exit hook registered) *)
Definition try_pass (c : cfg) (b : breaker) (now : Z) : breaker * bool * list tev * bool :=
  match state b with
  | Closed => (b, true, [], false)
  | Open =>
      if next_retry b <=? now                       (* retryTimeoutArrived *)
      then ({| state := HalfOpen; next_retry := next_retry b; cur_probe := cur_probe b;
               slots := slots b; ghist := ghist b |}, true, [TEv Open HalfOpen None], true)
      else (b, false, [], false)
  | HalfOpen => (b, 0 <? probe_num c, [], false)
  end.

(* the exit hook of a probe whose entry was blocked: cas(HalfOpen, Open), deadline untouched *)
Definition rollback (b : breaker) : breaker * list tev :=
  match state b with
  | HalfOpen => ({| state := Open; next_retry := next_retry b; cur_probe := cur_probe b;
                    slots := slots b; ghist := ghist b |}, [TEv HalfOpen Open (Some (SF 1%float))])
  | _ => (b, [])
  end.

(* the state handling at the end of OnRequestComplete, given the refreshed and updated
   buckets sl2 (ghost history h2) and the window sums B (bad) and T (total) *)
Definition decide (c : cfg) (b : breaker) (now : Z) (bad : bool) (sl2 : list slot) (h2 : list (Z * bool)) (B T : Z)
  : breaker * list tev :=
  match state b with
  | Open => (set_slots b sl2 h2, [])
  | HalfOpen =>
      if bad then
        (* fromHalfOpenToOpen(1.0): resetCurProbeNum, updateNextRetryTimestamp *)
        ({| state := Open; next_retry := now + retry_ms c; cur_probe := 0; slots := sl2; ghist := h2 |},
         [TEv HalfOpen Open (Some (probe_fail_snapshot c))])
      else
        let p := cur_probe b + 1 in                                  (* addCurProbeNum *)
        if (probe_num c =? 0) || (probe_num c <=? p) then
          (* fromHalfOpenToClosed, resetMetric *)
          ({| state := Closed; next_retry := next_retry b; cur_probe := 0;
              slots := la_clear (gn c) (gbl c) now sl2; ghist := [] |}, [TEv HalfOpen Closed None])
        else
          ({| state := HalfOpen; next_retry := next_retry b; cur_probe := p; slots := sl2; ghist := h2 |}, [])
  | Closed =>
      if T <? min_amt c then (set_slots b sl2 h2, [])
      else if reached c B T then
        (* fromClosedToOpen(snapshot): updateNextRetryTimestamp *)
        ({| state := Open; next_retry := now + retry_ms c; cur_probe := cur_probe b; slots := sl2; ghist := h2 |},
         [TEv Closed Open (Some (open_snapshot c B T))])
      else (set_slots b sl2 h2, [])
  end.

(* OnRequestComplete(rt, err) at clock value `now` *)
Definition on_complete (c : cfg) (b : breaker) (now rt : Z) (err : bool) : breaker * list tev :=
  let n := gn c in let bl := gbl c in
  if now <=? 0 then (b, []) else
  match la_current n bl now (slots b) with
  | None => (b, [])
  | Some sl1 =>
      let i := bidx n bl now in
      let bad := is_bad c rt err in
      let w := sget sl1 i in
      let sl2 := sset sl1 i {| sst := sst w; sbad := sbad w + (if bad then 1 else 0); stot := stot w + 1 |} in
      let h2 := ghist b ++ [(now, bad)] in
      decide c b now bad sl2 h2 (la_sum sbad n bl now sl2) (la_sum stot n bl now sl2)
  end.

(* ---------------------------------------------------------------------------------- *)
(* a resource with several breakers, driven through Entry / Exit                        *)

Inductive op :=
| Enter (dt : Z) (later_block : bool)
    (* clock += dt; api.Entry. later_block: a rule-check slot ordered after the breaker slot
       rejects the request (only consulted when every breaker lets it pass) *)
| Complete (dt : Z) (k : Z) (err : bool).
    (* clock += dt; the entry returned by the k-th operation is exited, with an error
       recorded iff err (no-op unless that operation was an admitted, not yet exited Enter) *)

Inductive obs :=
| OPass
| OBlock (idx : Z)      (* BlockTypeCircuitBreaking, TriggeredRule = rule of breaker idx *)
| OBlockLater           (* rejected by the later slot *)
| ONone.

(* a listener call as logged: index of the breaker's rule, transition *)
Inductive lev := LEv (bi : Z) (e : tev).

Record rstate := {
  brs  : list breaker;
  live : list (Z * Z);      (* op index of an admitted, un-exited Enter -> its start time *)
  now  : Z;
  nops : Z;
  log  : list lev           (* listener calls so far, oldest first *)
}.

Definition rinit (cs : list cfg) (t0 : Z) : rstate :=
  {| brs := map (fun c => new_breaker c t0) cs; live := []; now := t0; nops := 0; log := [] |}.

Definition tag (i : Z) (es : list tev) : list lev := map (LEv i) es.

(* Slot.Check (checkPass: TryPass each breaker in order, stop at the first that refuses)
   followed, when the entry ends up blocked (by a breaker, or by the later slot: lb), by the
   exit hooks of the breakers that went Open->HalfOpen for this entry. The hooks act on
   distinct breaker objects, so the rollback of breaker i is written next to its TryPass; the
   listener calls keep the order of the Go code: all TryPass calls first, then the hooks in
   registration order.
   Result: breakers', index of the refusing breaker (None = all passed), listener calls of
   the TryPass phase, listener calls of the hooks. *)
Fixpoint enter_all (i : Z) (now : Z) (lb : bool) (cs : list cfg) (bs : list breaker)
  : list breaker * option Z * list lev * list lev :=
  match cs, bs with
  | c :: cs', b :: bs' =>
      let '(b1, ok, es, hooked) := try_pass c b now in
      if ok then
        let '(bs1, r, es', hs') := enter_all (i + 1) now lb cs' bs' in
        let blocked := match r with Some _ => true | None => lb end in
        if hooked && blocked then
          let '(b2, es2) := rollback b1 in
          (b2 :: bs1, r, tag i es ++ es', tag i es2 ++ hs')
        else (b1 :: bs1, r, tag i es ++ es', hs')
      else (b1 :: bs', Some i, tag i es, [])
  | _, _ => (bs, None, [], [])
  end.

(* MetricStatSlot.OnCompleted: every breaker in order *)
Fixpoint complete_all (i : Z) (now rt : Z) (err : bool) (cs : list cfg) (bs : list breaker)
  : list breaker * list lev :=
  match cs, bs with
  | c :: cs', b :: bs' =>
      let '(b1, es) := on_complete c b now rt err in
      let '(bs1, es') := complete_all (i + 1) now rt err cs' bs' in
      (b1 :: bs1, tag i es ++ es')
  | _, _ => (bs, [])
  end.

Fixpoint aremove {A} (k : Z) (l : list (Z * A)) : list (Z * A) :=
  match l with
  | [] => []
  | (k', v) :: r => if k =? k' then r else (k', v) :: aremove k r
  end.

Definition step (cs : list cfg) (s : rstate) (o : op) : rstate * obs :=
  match o with
  | Enter dt lb =>
      let t := now s + dt in
      let '(bs1, r, es, hs) := enter_all 0 t lb cs (brs s) in
      match r with
      | Some i =>
          ({| brs := bs1; live := live s; now := t; nops := nops s + 1; log := log s ++ es ++ hs |}, OBlock i)
      | None =>
          if lb then
            ({| brs := bs1; live := live s; now := t; nops := nops s + 1; log := log s ++ es ++ hs |}, OBlockLater)
          else
            ({| brs := bs1; live := (nops s, t) :: live s; now := t; nops := nops s + 1; log := log s ++ es ++ hs |}, OPass)
      end
  | Complete dt k err =>
      let t := now s + dt in
      match alookup k (live s) with
      | Some t_start =>
          let '(bs1, es) := complete_all 0 t (t - t_start) err cs (brs s) in
          ({| brs := bs1; live := aremove k (live s); now := t; nops := nops s + 1; log := log s ++ es |}, ONone)
      | None =>
          ({| brs := brs s; live := live s; now := t; nops := nops s + 1; log := log s |}, ONone)
      end
  end.

Fixpoint run (cs : list cfg) (s : rstate) (ops : list op) : rstate * list obs :=
  match ops with
  | [] => (s, [])
  | o :: rest =>
      let '(s1, ob) := step cs s o in
      let '(s2, obs) := run cs s1 rest in
      (s2, ob :: obs)
  end.

(* ---------------------------------------------------------------------------------- *)
(* specification side: reference window counts over the ghost history                   *)

(* completions of h whose timestamp lies in the bucket-aligned statistic window that ends
   with the bucket containing `now`: [bstart now + bl - n*bl, bstart now + bl) *)
Fixpoint ref_count (w : bool -> Z) (h : list (Z * bool)) (lo hi : Z) : Z :=
  match h with
  | [] => 0
  | (t, bad) :: r => (if (lo <=? t) && (t <? hi) then w bad else 0) + ref_count w r lo hi
  end.

Definition w_tot (_ : bool) : Z := 1.
Definition w_bad (b : bool) : Z := if b then 1 else 0.

Definition win_lo (c : cfg) (now : Z) : Z := bstart (gbl c) now + gbl c - gn c * gbl c.
Definition win_hi (c : cfg) (now : Z) : Z := bstart (gbl c) now + gbl c.

Definition ref_tot (c : cfg) (h : list (Z * bool)) (now : Z) : Z := ref_count w_tot h (win_lo c now) (win_hi c now).
Definition ref_bad (c : cfg) (h : list (Z * bool)) (now : Z) : Z := ref_count w_bad h (win_lo c now) (win_hi c now).

(* a request passes breaker b at time t (the three-state diagram's admission guard) *)
Definition passes (c : cfg) (b : breaker) (t : Z) : bool :=
  match state b with
  | Closed => true
  | HalfOpen => 0 <? probe_num c
  | Open => next_retry b <=? t
  end.

(* legal edges *)
Definition edge_ok (a b : bst) : bool :=
  match a, b with
  | Closed, Open | Open, HalfOpen | HalfOpen, Open | HalfOpen, Closed => true
  | _, _ => false
  end.

(* follow a listener log of one breaker from state s; None = illegal *)
Fixpoint path (s : bst) (es : list tev) : option bst :=
  match es with
  | [] => Some s
  | TEv a b _ :: r => if bst_eqb a s && edge_ok a b then path b r else None
  end.

Definition log_of (i : Z) (l : list lev) : list tev :=
  flat_map (fun e => match e with LEv j t => if j =? i then [t] else [] end) l.

(* bound on the virtual clock (ms) under which no uint64 arithmetic of the breaker wraps other
   than the intended wrap in isBucketDeprecated: 2^62 ms (about 146 million years) *)
Definition tmax : Z := 4611686018427387904.
