(* Executable model of the metric log (C17): core/base/metric_item.go (fat-string line format),
   core/log/metric/{writer,reader,searcher,common}.go, as they are after the fixes
   8874c84 (D17), 4de0...(D18: unterminated final line dropped) and 869f232 (D19: first line of
   every file indexed in that file's idx).  No proofs here.

   File system: a list of files; a file is a data file and its .idx file together (the writer
   creates and removes them together), named by (day number, sequence): the Go names are
   <base>.<yyyy-MM-dd>[.<n>] with n >= 1; sequence 0 stands for "no suffix".  filenameComparator
   (date string, then name length, then name) is the lexicographic order on (day, seq). *)
From SG Require Import Base.Prelude Base.GoInt Model.MLBytes Model.MLDecimal.

(* ---------------------------------------------------------------- items and the line format *)

Record item := mkItem {
  i_ts : Z;            (* Timestamp, ms *)
  i_tstr : bytes;      (* util.FormatTimeMillis(ts): an oracle value, never parsed *)
  i_res : bytes;       (* Resource *)
  i_pass : Z; i_block : Z; i_complete : Z; i_err : Z; i_rt : Z; i_occ : Z;   (* uint64 *)
  i_conc : Z;          (* uint32 *)
  i_cls : Z            (* int32 *)
}.

Definition bar : Z := 124.   (* '|' *)
Definition lim64 : Z := 18446744073709551616.   (* 2^64 *)
Definition lim32 : Z := 4294967296.             (* 2^32 *)
Definition half32 : Z := 2147483648.            (* 2^31 *)

(* MetricItem.ToFatString *)
Definition format_item (it : item) : bytes :=
  print_uint (i_ts it) ++ bar :: i_tstr it ++ bar ::
  map (fun c => if c =? bar then 95 else c) (i_res it) ++ bar ::
  print_uint (i_pass it) ++ bar :: print_uint (i_block it) ++ bar ::
  print_uint (i_complete it) ++ bar :: print_uint (i_err it) ++ bar ::
  print_uint (i_rt it) ++ bar :: print_uint (i_occ it) ++ bar ::
  print_uint (i_conc it) ++ bar :: print_int (i_cls it).

Definition obind {A B} (o : option A) (f : A -> option B) : option B :=
  match o with Some x => f x | None => None end.

Definition opt_field (arr : list bytes) (n : nat) (p : bytes -> option Z) : option Z :=
  match nth_error arr n with
  | None => Some 0
  | Some f => p f
  end.

(* base.MetricItemFromFatString *)
Definition parse_line (l : bytes) : option item :=
  match l with
  | [] => None
  | _ =>
    let arr := split_on bar l in
    if (length arr <? 8)%nat then None else
    obind (parse_uint lim64 (nth 0 arr [])) (fun ts =>
    obind (parse_uint lim64 (nth 3 arr [])) (fun p =>
    obind (parse_uint lim64 (nth 4 arr [])) (fun b =>
    obind (parse_uint lim64 (nth 5 arr [])) (fun c =>
    obind (parse_uint lim64 (nth 6 arr [])) (fun e =>
    obind (parse_uint lim64 (nth 7 arr [])) (fun rt =>
    obind (opt_field arr 8 (parse_uint lim64)) (fun oc =>
    obind (opt_field arr 9 (parse_uint lim32)) (fun cc =>
    obind (opt_field arr 10 (parse_int half32)) (fun cl =>
    Some (mkItem ts (nth 1 arr []) (nth 2 arr []) p b c e rt oc cc cl))))))))))
  end.

Definition sec_of (it : item) : Z := i_ts it / 1000.

(* ---------------------------------------------------------------- files *)

Record file := mkFile { f_day : Z; f_seq : Z; f_data : bytes; f_idx : bytes }.

Definition same_name (a b : file) : bool := (f_day a =? f_day b) && (f_seq a =? f_seq b).
Definition name_is (d s : Z) (f : file) : bool := (f_day f =? d) && (f_seq f =? s).

(* filenameComparator *)
Definition file_ltb (a b : file) : bool :=
  (f_day a <? f_day b) || ((f_day a =? f_day b) && (f_seq a <? f_seq b)).

Fixpoint insert_file (f : file) (l : list file) : list file :=
  match l with
  | [] => [f]
  | g :: r => if file_ltb g f then g :: insert_file f r else f :: l
  end.

(* listMetricFiles: directory listing sorted with filenameComparator *)
Definition sort_files (l : list file) : list file := fold_right insert_file [] l.

(* the complete lines from byte offset `off`, parsed; unparsable lines are skipped
   (openFileAndSeekTo + readLine + MetricItemFromFatString, `continue` on error) *)
Definition read_items (data : bytes) (off : Z) : list item :=
  flat_map (fun ln => match parse_line (strip_cr ln) with Some it => [it] | None => [] end)
           (lines (dropZ off data)).

(* ---------------------------------------------------------------- writer *)

Record cfg := mkCfg { c_max_size : Z; c_max_files : Z; c_tz : Z }.

Record wstate := mkW { w_fs : list file; w_day : Z; w_seq : Z; w_latest : Z }.

Definition day_of (c : cfg) (ts : Z) : Z := (ts / 1000 + c_tz c) / 86400.   (* util.FormatDate, local zone *)

(* isNewDay: Go int64 division truncates *)
Definition is_new_day (c : cfg) (last sec : Z) : bool :=
  Z.quot (sec + c_tz c) 86400 >? Z.quot (last + c_tz c) 86400.

(* nextFileNameOfTime *)
Definition next_name (c : cfg) (fs : list file) (ts : Z) : Z * Z :=
  let d := day_of c ts in
  match rev (filter (fun f => f_day f =? d) (sort_files fs)) with
  | [] => (d, 0)
  | lastf :: _ => (d, f_seq lastf + 1)
  end.

(* removeDeprecatedFiles: drop the (len - max + 1) first files of the sorted listing *)
Definition remove_deprecated (c : cfg) (fs : list file) : list file :=
  let sorted := sort_files fs in
  let n := lenZ sorted - c_max_files c + 1 in
  let doomed := takeZ n sorted in
  filter (fun f => negb (existsb (same_name f) doomed)) fs.

(* os.Create of data + idx file: truncates an existing file, else adds a new one *)
Definition create_file (d s : Z) (fs : list file) : list file :=
  if existsb (name_is d s) fs
  then map (fun f => if name_is d s f then mkFile d s [] [] else f) fs
  else fs ++ [mkFile d s [] []].

(* rollToNextFile = nextFileNameOfTime; closeCurAndNewFile (removeDeprecatedFiles; create) *)
Definition roll (c : cfg) (w : wstate) (ts : Z) : wstate :=
  let '(d, s) := next_name c (w_fs w) ts in
  mkW (create_file d s (remove_deprecated c (w_fs w))) d s (w_latest w).

Definition cur_size (w : wstate) : Z :=
  match find (name_is (w_day w) (w_seq w)) (w_fs w) with
  | Some f => lenZ (f_data f)
  | None => 0
  end.

Definition append_cur (w : wstate) (data idx : bytes) : wstate :=
  mkW (map (fun f => if name_is (w_day w) (w_seq w) f
                     then mkFile (f_day f) (f_seq f) (f_data f ++ data) (f_idx f ++ idx) else f) (w_fs w))
      (w_day w) (w_seq w) (w_latest w).

Definition stamp (ts : Z) (tstr : bytes) (it : item) : item :=
  mkItem ts tstr (i_res it) (i_pass it) (i_block it) (i_complete it) (i_err it) (i_rt it)
         (i_occ it) (i_conc it) (i_cls it).

Definition enc_lines (its : list item) : bytes := flat_map (fun it => format_item it ++ [10]) its.

(* NewDefaultMetricLogWriter...initialize() at wall-clock time t0 (ms) in an empty directory *)
Definition w_init (c : cfg) (t0 : Z) : wstate :=
  let w := roll c (mkW [] 0 0 0) t0 in
  mkW (w_fs w) (w_day w) (w_seq w) (t0 / 1000).

(* DefaultMetricLogWriter.Write(ts, items); tstr = FormatTimeMillis(ts) *)
Definition w_write (c : cfg) (w : wstate) (ts : Z) (tstr : bytes) (items : list item) : wstate :=
  match items with
  | [] => w
  | _ =>
    if ts <=? 0 then w else
    let sec := ts / 1000 in
    if sec <? w_latest w then w else
    let w1 := if (sec >? w_latest w) && is_new_day c (w_latest w) sec then roll c w ts else w in
    let pos := cur_size w1 in
    let w2 := if (sec >? w_latest w) || (pos =? 0) then append_cur w1 [] (be64 sec ++ be64 pos) else w1 in
    let w3 := append_cur w2 (enc_lines (map (stamp ts tstr) items)) [] in
    let w4 := if cur_size w3 >=? c_max_size c then roll c w3 ts else w3 in
    mkW (w_fs w4) (w_day w4) (w_seq w4) (if sec >? w_latest w then sec else w_latest w)
  end.

(* ---------------------------------------------------------------- searcher *)

(* filePosition: metricFilename/idxFilename ("" = None), curOffsetInIdx, curSecInIdx *)
Record sstate := mkS { s_name : option (Z * Z); s_off : Z; s_sec : Z }.
Definition s_init : sstate := mkS None 0 0.

(* the idx file as complete 16-byte entries (sec unsigned, offset signed) and whether
   trailing bytes (a torn entry) remain *)
Fixpoint decode_idx (fuel : nat) (bs : bytes) : list (Z * Z) * bool :=
  match fuel with
  | O => ([], false)
  | S f =>
      match bs with
      | [] => ([], false)
      | _ =>
        if (length bs <? 16)%nat then ([], true)
        else let '(es, t) := decode_idx f (skipn 16 bs) in
             ((de64u (firstn 8 bs), de64s (firstn 8 (skipn 8 bs))) :: es, t)
      end
  end.

Definition idx_entries (bs : bytes) : list (Z * Z) * bool := decode_idx (S (length bs)) bs.

Inductive scan_res := Found (sec off : Z) | NotFound | ScanErr.

(* the loop of findOffsetToStart over the entries following position pos; returns also the
   last value stored in cachedPos.curOffsetInIdx *)
Fixpoint scan_entries (es : list (Z * Z)) (torn : bool) (pos bsec : Z) : scan_res * Z :=
  match es with
  | [] => (if torn then ScanErr else NotFound, pos)
  | (sec, off) :: r => if sec >=? bsec then (Found sec off, pos) else scan_entries r torn (pos + 16) bsec
  end.

Definition scan_idx (idx : bytes) (lastPos bsec : Z) : scan_res * Z :=
  let '(es, torn) := idx_entries (dropZ lastPos idx) in scan_entries es torn lastPos bsec.

(* isPositionInTimeFor (an error counts as "cache not usable") *)
Definition cache_ok (files : list file) (st : sstate) (bsec : Z) : bool :=
  if bsec <? s_sec st then false else
  match s_name st with
  | None => false
  | Some (d, s) =>
      match find (name_is d s) files with
      | None => false
      | Some f =>
          let bs := firstn 8 (dropZ (s_off st) (f_idx f)) in
          if (length bs <? 8)%nat then false else de64u bs =? s_sec st
      end
  end.

Fixpoint index_of_name (d s : Z) (files : list file) (i : nat) : option nat :=
  match files with
  | [] => None
  | f :: r => if name_is d s f then Some i else index_of_name d s r (S i)
  end.

(* getOffsetStartAndFileIdx: (offset in idx, file number) *)
Definition offset_start (files : list file) (st : sstate) (bsec : Z) : Z * nat :=
  if cache_ok files st bsec then
    match s_name st with
    | Some (d, s) => match index_of_name d s files O with Some i => (s_off st, i) | None => (0, O) end
    | None => (0, O)
    end
  else (0, O).

(* the file loop of searchOffsetAndRead over the files from fileNo on; findOffsetToStart
   inlined.  Returns the new cache and, if a start was found, the files from the hit on and
   the data offset. *)
Fixpoint search_loop (rem : list file) (off_start bsec : Z) (st : sstate) : sstate * option (list file * Z) :=
  match rem with
  | [] => (st, None)
  | f :: r =>
      let '(res, pos) := scan_idx (f_idx f) off_start bsec in
      match res with
      | Found sec off =>
          let st' := mkS (Some (f_day f, f_seq f)) pos sec in
          if off >=? 0 then (st', Some (rem, off)) else search_loop r 0 bsec st'
      | _ => search_loop r 0 bsec (mkS None pos (s_sec st))
      end
  end.

Definition max_item_amount : Z := 100000.

(* readMetricsInOneFileByEndTime over the parsed lines; n = len(items) so far in this file *)
Fixpoint rbe_file (its : list item) (bsec esec : Z) (res : bytes) (prev n : Z) : list item * bool :=
  match its with
  | [] => ([], true)
  | it :: r =>
      let s := sec_of it in
      if (s <? bsec) || (s >? esec) then ([], false) else
      let keep := match res with [] => true | _ => bytes_eqb res (i_res it) end in
      let n' := if keep then n + 1 else n in
      if n' + prev >=? max_item_amount then ((if keep then [it] else []), false) else
      let '(l, c) := rbe_file r bsec esec res prev n' in
      ((if keep then it :: l else l), c)
  end.

(* ReadMetricsByEndTime: first file from `off`, later files from 0 *)
Fixpoint rbe_files (rem : list file) (off bsec esec : Z) (res : bytes) (count : Z) : list item :=
  match rem with
  | [] => []
  | f :: r =>
      let '(l, c) := rbe_file (read_items (f_data f) off) bsec esec res count 0 in
      if c then l ++ rbe_files r 0 bsec esec res (count + lenZ l) else l
  end.

(* readMetricsInOneFile *)
Fixpoint rm_file (its : list item) (max_lines last_sec prev n : Z) : list item * bool :=
  match its with
  | [] => ([], prev + n <? max_lines)
  | it :: r =>
      let s := sec_of it in
      if (prev + n >=? max_lines) && negb (s =? last_sec) then ([], false) else
      let '(l, c) := rm_file r max_lines s prev (n + 1) in (it :: l, c)
  end.

Definition latest_second (its : list item) : Z :=
  match rev its with [] => 0 | it :: _ => sec_of it end.

(* ReadMetrics: `acc` = items so far (reversed use avoided: only its length and last second matter) *)
Fixpoint rm_more (rem : list file) (max_lines : Z) (count last_sec : Z) : list item :=
  match rem with
  | [] => []
  | f :: r =>
      if count >=? max_lines then [] else
      let '(l, c) := rm_file (read_items (f_data f) 0) max_lines last_sec count 0 in
      let last' := match l with [] => last_sec | _ => latest_second l end in
      if c then l ++ rm_more r max_lines (count + lenZ l) last' else l
  end.

Definition rm_files (rem : list file) (off max_lines : Z) : list item :=
  match rem with
  | [] => []
  | f :: r =>
      let '(l, c) := rm_file (read_items (f_data f) off) max_lines 0 0 0 in
      if c then l ++ rm_more r max_lines (lenZ l) (latest_second l) else l
  end.

Inductive query :=
| QRange (begin_ms end_ms : Z) (res : bytes)     (* FindByTimeAndResource *)
| QFrom (begin_ms max_lines : Z).                (* FindFromTimeWithMaxLines *)

Definition q_begin (q : query) : Z := match q with QRange b _ _ => b | QFrom b _ => b end.

(* searchOffsetAndRead *)
Definition search (fs : list file) (st : sstate) (q : query) : sstate * list item :=
  let files := sort_files fs in
  let bsec := q_begin q / 1000 in
  let '(off0, i0) := offset_start files st bsec in
  let '(st', hit) := search_loop (skipn i0 files) off0 bsec st in
  match hit with
  | None => (st', [])
  | Some (rem, off) =>
      (st', match q with
            | QRange b e res => rbe_files rem off bsec (e / 1000) res 0
            | QFrom _ m => rm_files rem off m
            end)
  end.

(* ---------------------------------------------------------------- histories *)

Inductive op :=
| Write (ts : Z) (tstr : bytes) (items : list item)
| Find (q : query).

Record sys := mkSys { y_w : wstate; y_s : sstate }.

Definition step (c : cfg) (y : sys) (o : op) : sys * list item :=
  match o with
  | Write ts tstr items => (mkSys (w_write c (y_w y) ts tstr items) (y_s y), [])
  | Find q => let '(s', r) := search (w_fs (y_w y)) (y_s y) q in (mkSys (y_w y) s', r)
  end.

Fixpoint run (c : cfg) (y : sys) (ops : list op) : sys * list (list item) :=
  match ops with
  | [] => (y, [])
  | o :: r => let '(y1, out) := step c y o in
              let '(y2, outs) := run c y1 r in (y2, out :: outs)
  end.

Definition sys_init (c : cfg) (t0 : Z) : sys := mkSys (w_init c t0) s_init.

(* ---------------------------------------------------------------- truncation (crash mid-write) *)

(* cut the data (which = false) or the idx (which = true) file of the last file at byte c *)
Definition cut_file (which : bool) (c : Z) (f : file) : file :=
  if which then mkFile (f_day f) (f_seq f) (f_data f) (takeZ c (f_idx f))
  else mkFile (f_day f) (f_seq f) (takeZ c (f_data f)) (f_idx f).

Definition cut_last (which : bool) (c : Z) (fs : list file) : list file :=
  match rev (sort_files fs) with
  | [] => []
  | l :: r => rev r ++ [cut_file which c l]
  end.
