(* Interface between Model/Hotspot.v and the Gallina regenerated from core/hotspot by translator/leaf
   (Gen.Leaf_gen, obligations in translator/leaf/C05_leaf_check.v and C06_leaf_check.v).

   The regenerated functions compute, from scalar inputs, (a) the result of PerformChecking as a
   (tag, value) pair and (b) the trace of the cache / cell operations performed on the way.  This
   file gives the model-side reading of both: [dec_code] / [dec_of_code] for results, and an
   interpreter of cache operations on a [metric].  No proofs, nothing here depends on Gen. *)
From SG Require Import Base.Prelude Base.GoInt Model.LRU Model.Hotspot.
#[local] Open Scope Z_scope.

(* *base.TokenResult as the translator prints it: (0,0) nil; (1,0) blocked without triggered value;
   (2,v) blocked with triggered value v; (3,ns) should wait ns *)
Definition dec_code (d : dec) : Z * Z :=
  match d with
  | DPass => (0, 0)
  | DBlock None => (1, 0)
  | DBlock (Some c) => (2, c)
  | DWait ns => (3, ns)
  | DSpin => (-1, 0)
  end.

(* a pointer result of a cache lookup: nil? / the int64 it points to *)
Definition opt_some {A} (o : option A) : bool := match o with Some _ => true | None => false end.
Definition opt_z (o : option Z) : Z := match o with Some x => x | None => 0 end.
