(* Interface between Model/Hotspot.v and the Gallina regenerated from core/hotspot by translator/leaf
   (Gen.Leaf_gen, obligations in translator/leaf/C05_leaf_check.v and C06_leaf_check.v).

   The regenerated functions compute, from scalar inputs, (a) the result of PerformChecking as a
   (tag, value) pair and (b) the trace of the cache / cell operations performed on the way.  This
   file gives the model-side reading of both: [dec_code] / [dec_of_code] for results, and an
   interpreter of cache operations on a [metric].  No proofs, nothing here depends on Gen. *)
From Coq Require Import Floats.
From SG Require Import Base.Prelude Base.GoInt Base.GoFloat Model.LRU Model.Hotspot.
#[local] Open Scope Z_scope.

(* *base.TokenResult as the translator prints it: (0,0) nil; (1,0) blocked without triggered value;
   (2,v) blocked with triggered value v; (3,ns) should wait ns *)
Definition dec_code (d : dec) : Z * Z :=
  match d with
  | DPass => (0, 0)
  | DBlock None => (1, 0)
  | DBlock (Some c) => (2, c)
  | DWait ns => (3, ns)
  | DSpin => (-1, 0)
  end.

(* a pointer result of a cache lookup: nil? / the int64 it points to *)
Definition opt_some {A} (o : option A) : bool := match o with Some _ => true | None => false end.
Definition opt_z (o : option Z) : Z := match o with Some x => x | None => 0 end.

Definition dec_of_code (c : Z * Z) : dec :=
  let '(tag, v) := c in
  match tag with
  | 0 => DPass
  | 1 => DBlock None
  | 2 => DBlock (Some v)
  | 3 => DWait v
  | _ => DSpin
  end.

(* ---- the cache / cell operations PerformChecking performs, on a [metric] ------------------ *)

Definition m_with_time (m : metric) (t : lru Z) : metric :=
  {| m_time := t; m_tok := m_tok m; m_conc := m_conc m |}.
Definition m_with_tok (m : metric) (t : lru Z) : metric :=
  {| m_time := m_time m; m_tok := t; m_conc := m_conc m |}.

(* timeCounter.AddIfAbsent(arg, &v) / tokenCounter.AddIfAbsent(arg, &v) / tokenCounter.Get(arg) *)
Definition op_time_add (r : rule) (k v : Z) (m : metric) : metric :=
  m_with_time m (fst (lru_add_if_absent (cache_size r) k v (m_time m))).
Definition op_tok_add (r : rule) (k v : Z) (m : metric) : metric :=
  m_with_tok m (fst (lru_add_if_absent (cache_size r) k v (m_tok m))).
Definition op_tok_get (k : Z) (m : metric) : metric :=
  m_with_tok m (fst (lru_get k (m_tok m))).
(* atomic.StoreInt64 through the pointer held for k *)
Definition op_time_store (k v : Z) (m : metric) : metric := m_with_time m (lru_set k v (m_time m)).
Definition op_tok_store (k v : Z) (m : metric) : metric := m_with_tok m (lru_set k v (m_tok m)).
(* a successful atomic.CompareAndSwapInt64(ptr, old, new): the cell held [cur]; it is rewritten iff
   the expected value is the current one *)
Definition op_time_cas (k cur old new : Z) (m : metric) : metric :=
  if old =? cur then op_time_store k new m else m.
Definition op_tok_cas (k cur old new : Z) (m : metric) : metric :=
  if old =? cur then op_tok_store k new m else m.
(* the concurrency branch: ConcurrencyCounter.AddIfAbsent(arg, &0) *)
Definition op_conc_check (r : rule) (k : Z) (m : metric) : metric := fst (conc_check r m k).

(* ---- ConcurrencyStatSlot: the update of one controller's cell ------------------------------ *)
Definition m_with_conc (m : metric) (t : lru Z) : metric :=
  {| m_time := m_time m; m_tok := m_tok m; m_conc := t |}.
Definition op_conc_get (k : Z) (m : metric) : metric := m_with_conc m (fst (lru_get k (m_conc m))).
(* atomic.AddInt64(ptr, d) on a cell holding cur *)
Definition op_conc_add (k cur d : Z) (m : metric) : metric :=
  m_with_conc m (lru_set k (i64 (cur + d)) (m_conc m)).

(* ---- int64(math.Round(f)) -------------------------------------------------------------------- *)
(* math.Round (nearest integer, halves away from zero) on the exact value m * 2^e of the double, then
   Go's int64 conversion (amd64: -2^63 when out of range / NaN / Inf).  Same text as the definition the
   translator prints into Leaf_gen.v (leaf_round_Z / leaf_i64_of_round). *)
Definition round_Z (f : float) : option Z :=
  match Prim2SF f with
  | S754_zero _ => Some 0
  | S754_finite s m e =>
      let v := if 0 <=? e then Zpos m * 2 ^ e else (Zpos m + 2 ^ (- e - 1)) / 2 ^ (- e) in
      Some (if s then - v else v)
  | _ => None
  end.
Definition i64_of_round (f : float) : Z :=
  match round_Z f with
  | Some t => if (- two63 <=? t) && (t <? two63) then t else - two63
  | None => - two63
  end.

(* ---- Slot.Check: what one iteration does with the controller's result ------------------------ *)
Inductive slot_out :=
| SContinue (sleep : option Z)    (* next controller, after util.Sleep(ns) when Some ns *)
| SReturn.                        (* the loop is left with this controller's result *)

Definition slot_dispatch (d : dec) : slot_out :=
  match d with
  | DPass => SContinue None                                        (* r == nil *)
  | DWait ns => if 0 <? ns then SContinue (Some ns) else SContinue None
  | DBlock _ => SReturn
  | DSpin => SReturn
  end.

(* the (r == nil, r.Status(), r.NanosToWait()) view of a PerformChecking result *)
Definition res_nil (d : dec) : bool := match d with DPass => true | _ => false end.
Definition res_status (d : dec) : Z := match d with DPass => 0 | DBlock _ => 1 | DWait _ => 2 | DSpin => 1 end.
Definition res_nanos (d : dec) : Z := match d with DWait ns => ns | _ => 0 end.
