(* Concurrent model of one circuit breaker (property C12): program-counter machines for
   TryPass (+ the exit-hook rollback) and OnRequestComplete whose steps are exactly the atomic
   accesses to the breaker's state word, retry deadline and probe counter, each preceded in
   the instrumented Go code by the yield point whose id is `label pc`:

     301 state load        302 state CAS          303 clock read + deadline load
     304 clock read + deadline store              305 probe counter add
     306 probe counter reset                      314 probe counter load
     307 listener calls                           300 operation boundary (harness)

   The counter phase of OnRequestComplete (currentCounter, the two adds, allCounter and the
   sums; resetMetric after a close) is ONE step here: its yield points (101-106, 310-313,
   315-317) are not activated by the C12 harness, and the finer interleavings of the counters
   are property C09's subject. To keep the theorems independent of that choice the schedule
   has an event `Havoc sl` that overwrites the counters arbitrarily; no theorem restricts it.

   GHOST state (never read by a transition of the real state): the CAS log `clog`, the admission log `admits`,
   `phase` (number of opening CASes so far), `topen` (clock value at the last opening CAS),
   `dtag` (value of `phase` when the deadline was last stored), and the thread-local pair
   (rnow, rtag) carried by pc T302. No proofs in this file. *)
From Coq Require Import Floats.
From SG Require Import Base.Prelude Base.GoInt Base.GoFloat Model.Breaker.
#[local] Open Scope Z_scope.

(* operations a goroutine performs on the breaker *)
Inductive cop :=
| OTry (blocked : bool)
    (* TryPass(ctx); if it returned true after registering the exit hook and `blocked`, the
       entry is then exited as blocked (a later slot rejected it): the hook runs *)
| OComplete (rt : Z) (err : bool).   (* OnRequestComplete(rt, err) *)

Inductive pc :=
| PBound | PDone
| T301 | T303 | T302 (rnow rtag : Z) | T307 (blocked : bool)
| R302 | R307
| C301 (bad : bool) (B T : Z) | C301b (B T : Z)
| C305 | C314
| CCasCO (sn : snap) | C304co (sn : snap) | C307co (sn : snap)
| CCasHO (sn : snap) | C306ho (sn : snap) | C304ho (sn : snap) | C307ho (sn : snap)
| CCasHC | C306hc | C307hc.

Definition label (p : pc) : Z :=
  match p with
  | PBound => 300 | PDone => -1
  | T301 | C301 _ _ _ | C301b _ _ => 301
  | T303 => 303
  | T302 _ _ | R302 | CCasCO _ | CCasHO _ | CCasHC => 302
  | T307 _ | R307 | C307co _ | C307ho _ | C307hc => 307
  | C305 => 305 | C314 => 314
  | C304co _ | C304ho _ => 304
  | C306ho _ | C306hc => 306
  end.

Inductive ckind := KTry | KRollback | KComplete.
(* a successful CAS on the state word: thread, kind of caller, previous and new value, clock *)
Record cev := CEv { ce_tid : Z; ce_kind : ckind; ce_from : bst; ce_to : bst; ce_clk : Z }.
(* a listener call: thread, transition *)
Record lcall := LCall { lc_tid : Z; lc_ev : tev }.
(* a TryPass that returns true (GHOST record, appended at the step that decides it): thread,
   clock at the deciding access, the state word that access saw (Closed / HalfOpen at the load
   301; Open = this TryPass performed the Open->HalfOpen CAS itself), epoch = length of the CAS
   log after the step, topen at the step, and fresh = the deadline this TryPass checked (303)
   was stored during the open phase in which its CAS succeeded (meaningful for ad_seen = Open) *)
Record adm := Adm { ad_tid : Z; ad_clk : Z; ad_seen : bst; ad_epoch : Z; ad_topen : Z; ad_fresh : bool }.

Record shared := {
  sw    : bst;          (* circuitBreakerBase.state *)
  dl    : Z;            (* nextRetryTimestampMs *)
  pn    : Z;            (* curProbeNumber *)
  csl   : list slot;    (* the counters *)
  llog  : list lcall;   (* listener calls, oldest first *)
  clog  : list cev;     (* GHOST *)
  admits : list adm;    (* GHOST *)
  phase : Z;            (* GHOST *)
  topen : Z;            (* GHOST *)
  dtag  : Z             (* GHOST *)
}.

Record thread := {
  tpc  : pc;
  tops : list cop;      (* remaining operations, head = current *)
  tres : list bool      (* TryPass results so far, oldest first *)
}.

Definition init_shared (c : cfg) (t0 : Z) : shared :=
  {| sw := Closed; dl := 0; pn := 0; csl := la_init (gn c) (gbl c) t0; llog := []; clog := []; admits := [];
     phase := 0; topen := 0; dtag := -1 |}.

(* a goroutine starts parked in front of its first operation (no operations: finished) *)
Definition init_thread (ops : list cop) : thread :=
  {| tpc := match ops with [] => PDone | _ => PBound end; tops := ops; tres := [] |}.

(* field updates *)
Definition with_pc (th : thread) (p : pc) : thread := {| tpc := p; tops := tops th; tres := tres th |}.
Definition finish (th : thread) : thread :=
  let r := tl (tops th) in
  {| tpc := match r with [] => PDone | _ => PBound end; tops := r; tres := tres th |}.
Definition result (th : thread) (r : bool) : thread := {| tpc := tpc th; tops := tops th; tres := tres th ++ [r] |}.

Definition set_sw (sh : shared) (tid : Z) (k : ckind) (a b : bst) (clk : Z) : shared :=
  {| sw := b; dl := dl sh; pn := pn sh; csl := csl sh; llog := llog sh;
     clog := clog sh ++ [CEv tid k a b clk]; admits := admits sh;
     phase := phase sh; topen := topen sh; dtag := dtag sh |}.
(* an opening CAS by a completion additionally starts a new open phase (ghost) *)
Definition set_open (sh : shared) (tid : Z) (a : bst) (clk : Z) : shared :=
  {| sw := Open; dl := dl sh; pn := pn sh; csl := csl sh; llog := llog sh;
     clog := clog sh ++ [CEv tid KComplete a Open clk]; admits := admits sh;
     phase := phase sh + 1; topen := clk; dtag := dtag sh |}.
Definition set_dl (sh : shared) (v : Z) : shared :=
  {| sw := sw sh; dl := v; pn := pn sh; csl := csl sh; llog := llog sh; clog := clog sh; admits := admits sh;
     phase := phase sh; topen := topen sh; dtag := phase sh |}.
Definition set_pn (sh : shared) (v : Z) : shared :=
  {| sw := sw sh; dl := dl sh; pn := v; csl := csl sh; llog := llog sh; clog := clog sh; admits := admits sh;
     phase := phase sh; topen := topen sh; dtag := dtag sh |}.
Definition set_csl (sh : shared) (sl : list slot) : shared :=
  {| sw := sw sh; dl := dl sh; pn := pn sh; csl := sl; llog := llog sh; clog := clog sh; admits := admits sh;
     phase := phase sh; topen := topen sh; dtag := dtag sh |}.
Definition add_call (sh : shared) (tid : Z) (e : tev) : shared :=
  {| sw := sw sh; dl := dl sh; pn := pn sh; csl := csl sh; llog := llog sh ++ [LCall tid e]; clog := clog sh;
     admits := admits sh; phase := phase sh; topen := topen sh; dtag := dtag sh |}.
Definition add_adm (sh : shared) (a : adm) : shared :=
  {| sw := sw sh; dl := dl sh; pn := pn sh; csl := csl sh; llog := llog sh; clog := clog sh;
     admits := admits sh ++ [a]; phase := phase sh; topen := topen sh; dtag := dtag sh |}.

Definition epoch (sh : shared) : Z := Z.of_nat (length (clog sh)).

(* resetMetric at clock value clk *)
Definition reset_metric (c : cfg) (clk : Z) (sh : shared) : shared :=
  if clk <=? 0 then sh else set_csl sh (la_clear (gn c) (gbl c) clk (csl sh)).

(* leaving the operation boundary: run the next operation up to its first yield point *)
Definition begin_op (c : cfg) (clk : Z) (sh : shared) (th : thread) : shared * thread :=
  match tops th with
  | [] => (sh, with_pc th PDone)
  | OTry _ :: _ => (sh, with_pc th T301)
  | OComplete rt err :: _ =>
      (* currentCounter, add, allCounter and the sums: one step (see header) *)
      let n := gn c in let bl := gbl c in
      if clk <=? 0 then (sh, finish th) else
      match la_current n bl clk (csl sh) with
      | None => (sh, finish th)
      | Some sl1 =>
          let i := bidx n bl clk in
          let bad := is_bad c rt err in
          let w := sget sl1 i in
          let sl2 := sset sl1 i {| sst := sst w; sbad := sbad w + (if bad then 1 else 0); stot := stot w + 1 |} in
          (set_csl sh sl2, with_pc th (C301 bad (la_sum sbad n bl clk sl2) (la_sum stot n bl clk sl2)))
      end
  end.

(* one step of thread tid at clock value clk: the atomic access that follows the yield point
   it is parked at, then on to the next yield point *)
Definition tstep (c : cfg) (tid clk : Z) (sh : shared) (th : thread) : shared * thread :=
  match tpc th with
  | PDone => (sh, th)
  | PBound => begin_op c clk sh th
  (* ---- TryPass ---- *)
  | T301 =>
      match sw sh with
      | Closed => (add_adm sh (Adm tid clk Closed (epoch sh) (topen sh) true), finish (result th true))
      | HalfOpen =>
          if 0 <? probe_num c
          then (add_adm sh (Adm tid clk HalfOpen (epoch sh) (topen sh) true), finish (result th true))
          else (sh, finish (result th false))
      | Open => (sh, with_pc th T303)
      end
  | T303 =>                                                    (* retryTimeoutArrived *)
      if dl sh <=? clk then (sh, with_pc th (T302 clk (dtag sh)))
      else (sh, finish (result th false))
  | T302 rnow rtag =>                                          (* cas(Open, HalfOpen) *)
      match sw sh with
      | Open =>
          let blocked := match tops th with OTry b :: _ => b | _ => false end in
          (add_adm (set_sw sh tid KTry Open HalfOpen clk)
                   (Adm tid clk Open (epoch sh + 1) (topen sh) (rtag =? phase sh)),
           with_pc (result th true) (T307 blocked))
      | _ => (sh, finish (result th false))
      end
  | T307 blocked =>                                            (* listeners; hook registered; return true *)
      (add_call sh tid (TEv Open HalfOpen None), if blocked then with_pc th R302 else finish th)
  | R302 =>                                                    (* exit hook: cas(HalfOpen, Open) *)
      match sw sh with
      | HalfOpen => (set_sw sh tid KRollback HalfOpen Open clk, with_pc th R307)
      | _ => (sh, finish th)
      end
  | R307 => (add_call sh tid (TEv HalfOpen Open (Some (SF 1%float))), finish th)
  (* ---- OnRequestComplete ---- *)
  | C301 bad B T =>
      match sw sh with
      | Open => (sh, finish th)
      | HalfOpen => (sh, with_pc th (if bad then CCasHO (probe_fail_snapshot c) else C305))
      | Closed =>
          if T <? min_amt c then (sh, finish th)
          else if reached c B T then (sh, with_pc th (C301b B T))
          else (sh, finish th)
      end
  | C301b B T =>
      match sw sh with
      | Closed => (sh, with_pc th (CCasCO (open_snapshot c B T)))
      | HalfOpen => (sh, with_pc th (CCasHO (open_snapshot c B T)))
      | Open => (sh, finish th)
      end
  | C305 => (set_pn sh (pn sh + 1), with_pc th C314)           (* addCurProbeNum *)
  | C314 =>
      if (probe_num c =? 0) || (probe_num c <=? pn sh) then (sh, with_pc th CCasHC)
      else (sh, finish th)
  | CCasCO sn =>                                               (* fromClosedToOpen *)
      match sw sh with
      | Closed => (set_open sh tid Closed clk, with_pc th (C304co sn))
      | _ => (sh, finish th)
      end
  | C304co sn => (set_dl sh (clk + retry_ms c), with_pc th (C307co sn))
  | C307co sn => (add_call sh tid (TEv Closed Open (Some sn)), finish th)
  | CCasHO sn =>                                               (* fromHalfOpenToOpen *)
      match sw sh with
      | HalfOpen => (set_open sh tid HalfOpen clk, with_pc th (C306ho sn))
      | _ => (sh, finish th)
      end
  | C306ho sn => (set_pn sh 0, with_pc th (C304ho sn))
  | C304ho sn => (set_dl sh (clk + retry_ms c), with_pc th (C307ho sn))
  | C307ho sn => (add_call sh tid (TEv HalfOpen Open (Some sn)), finish th)
  | CCasHC =>                                                  (* fromHalfOpenToClosed; resetMetric either way *)
      match sw sh with
      | HalfOpen => (set_sw sh tid KComplete HalfOpen Closed clk, with_pc th C306hc)
      | _ => (reset_metric c clk sh, finish th)
      end
  | C306hc => (set_pn sh 0, with_pc th C307hc)
  | C307hc => (reset_metric c clk (add_call sh tid (TEv HalfOpen Closed None)), finish th)
  end.

(* ---------------------------------------------------------------------------------- *)
(* configurations and schedules                                                         *)

Inductive sev :=
| Run (tid : Z)
| Tick (dt : Z)
| Havoc (sl : list slot).   (* arbitrary interference on the counters *)

Record config := { shd : shared; clk : Z; ths : list thread }.

Definition init_config (c : cfg) (t0 : Z) (progs : list (list cop)) : config :=
  {| shd := init_shared c t0; clk := t0; ths := map init_thread progs |}.

Definition cstep (c : cfg) (cf : config) (e : sev) : config :=
  match e with
  | Run tid =>
      match nth_error (ths cf) (Z.to_nat tid) with
      | Some th =>
          if tid <? 0 then cf else
          let '(sh', th') := tstep c tid (clk cf) (shd cf) th in
          {| shd := sh'; clk := clk cf; ths := upd_nth (Z.to_nat tid) (fun _ => th') (ths cf) |}
      | None => cf
      end
  | Tick dt => {| shd := shd cf; clk := clk cf + dt; ths := ths cf |}
  | Havoc sl => {| shd := set_csl (shd cf) sl; clk := clk cf; ths := ths cf |}
  end.

Definition exec (c : cfg) (sched : list sev) (cf : config) : config := fold_left (cstep c) sched cf.

(* what the harness observes per Run step: the label the thread parks at, and the state word *)
Fixpoint observe (c : cfg) (sched : list sev) (cf : config) : list (Z * bst) :=
  match sched with
  | [] => []
  | e :: r =>
      let cf' := cstep c cf e in
      match e with
      | Run tid =>
          (match nth_error (ths cf') (Z.to_nat tid) with Some th => label (tpc th) | None => -1 end, sw (shd cf'))
            :: observe c r cf'
      | _ => observe c r cf'
      end
  end.

(* schedules whose ticks do not move the clock backwards *)
Definition sev_ok (e : sev) : Prop := match e with Tick dt => 0 <= dt | _ => True end.

(* ---------------------------------------------------------------------------------- *)
(* specification side                                                                   *)

(* the CAS log is a chain of legal edges from Closed *)
Fixpoint cpath (s : bst) (l : list cev) : option bst :=
  match l with
  | [] => Some s
  | e :: r => if bst_eqb (ce_from e) s && edge_ok (ce_from e) (ce_to e) then cpath (ce_to e) r else None
  end.

Definition edge := (bst * bst)%type.
Definition cas_of (tid : Z) (l : list cev) : list edge :=
  flat_map (fun e => if ce_tid e =? tid then [(ce_from e, ce_to e)] else []) l.
Definition calls_of (tid : Z) (l : list lcall) : list edge :=
  flat_map (fun e => if lc_tid e =? tid then [match lc_ev e with TEv a b _ => (a, b) end] else []) l.

(* the transition a thread has performed (successful CAS) but not yet reported *)
Definition pending (p : pc) : list edge :=
  match p with
  | T307 _ => [(Open, HalfOpen)]
  | R307 => [(HalfOpen, Open)]
  | C304co _ | C307co _ => [(Closed, Open)]
  | C306ho _ | C304ho _ | C307ho _ => [(HalfOpen, Open)]
  | C306hc | C307hc => [(HalfOpen, Closed)]
  | _ => []
  end.

(* opening CASes (those followed by a deadline store): by completions, not by the rollback *)
Definition is_opening (e : cev) : bool :=
  match ce_kind e, ce_to e with KComplete, Open => true | _, _ => false end.
Fixpoint last_opening (l : list cev) (d : Z) : Z :=
  match l with [] => d | e :: r => last_opening r (if is_opening e then ce_clk e else d) end.

Definition all_done (cf : config) : Prop := Forall (fun th => tpc th = PDone) (ths cf).
