(* Check-then-record admission under arbitrary interleavings (C02 k-bound, C04 k-bound).
   A request first evaluates the rule against the shared counter (the rule-check phase of
   the slot chain) and later — after any number of steps of other threads — records itself
   (the statistic phase). Between the two it is "inside the admission path". *)
From SG Require Import Base.Prelude.

Inductive ev :=
| Check (tid : Z) (b : Z)   (* thread tid evaluates `count + b <= limit` *)
| Record (tid : Z)          (* thread tid, if its check passed, adds its amount to the counter *)
| Release (amt : Z).        (* some admitted amount leaves (an Exit for isolation; never for a
                               window counter) *)

Record cstate := {
  count   : Z;                      (* the shared counter (gauge / window sum) *)
  pending : list (Z * Z)            (* threads between a passed check and their record: tid -> amount *)
}.

Definition cinit : cstate := {| count := 0; pending := [] |}.

Fixpoint premove (k : Z) (l : list (Z * Z)) : list (Z * Z) :=
  match l with
  | [] => []
  | (k', v) :: r => if k =? k' then r else (k', v) :: premove k r
  end.

(* amt b = what a passed request of batch b adds when it records: b for a token window,
   1 for the in-flight gauge *)
Definition cstep (limit : Z) (amt : Z -> Z) (s : cstate) (e : ev) : cstate :=
  match e with
  | Check tid b =>
      if count s + b <=? limit
      then {| count := count s; pending := (tid, amt b) :: pending s |}
      else s
  | Record tid =>
      match alookup tid (pending s) with
      | Some a => {| count := count s + a; pending := premove tid (pending s) |}
      | None => s
      end
  | Release a => {| count := count s - a; pending := pending s |}
  end.

Definition cexec (limit : Z) (amt : Z -> Z) (sched : list ev) (s : cstate) : cstate :=
  fold_left (cstep limit amt) sched s.

(* all prefixes' states *)
Fixpoint ctrace (limit : Z) (amt : Z -> Z) (sched : list ev) (s : cstate) : list cstate :=
  match sched with
  | [] => [s]
  | e :: r => s :: ctrace limit amt r (cstep limit amt s e)
  end.

Definition pending_sum (s : cstate) : Z := sumZ (map snd (pending s)).
