(* A warm-up flow rule whose ControlBehavior is Throttling: the warm-up calculator
   (Model/WarmUp.v: calc) hands its allowed tokens to ThrottlingChecker.DoCheck
   (Model/Throttle.v: do_check_c with that value as threshold, the default statistic interval of
   1000 ms and the rule's queueing limit) instead of the reject checker.  The calculator still
   reads the previous-window QPS of the resource's statistic, in which every admitted request
   (passed at once or asked to wait) is recorded at its arrival time.  Sequential.  No proofs. *)
From Coq Require Import Floats.
From SG Require Import Base.Prelude Base.GoInt Base.GoFloat Model.WarmUp Model.Throttle.
#[local] Open Scope Z_scope.

(* the checker configuration for one request: threshold = the allowed tokens just computed *)
Definition thr_cfg (a : float) (maxq_ms : Z) : cfg := mk_cfg a maxq_ms 0.

(* one sentinel.Entry with batch b at time now (ms): calculator, throttling checker, statistic.
   State: the calculator's, and lastPassedTime (ns).  Observation: allowed tokens, admitted?,
   requested wait (ns) *)
Definition wstep_thr (c : wcfg) (maxq_ms : Z) (st : wst) (last : Z) (now b : Z)
  : wst * Z * (float * bool * Z) :=
  let '(st1, a) := calc c st now in
  let '(last', o) := do_check_c (thr_cfg a maxq_ms) last (now * ms_to_ns) b in
  let adm := match o with OBlock => false | _ => true end in
  let wait := match o with OPass w => w | _ => 0 end in
  let ps := prune (passes st1) now in
  ({| stored := stored st1; last_filled := last_filled st1;
      passes := if adm then (now, b) :: ps else ps |}, last', (a, adm, wait)).

(* observation per request: allowed tokens, admitted?, stored tokens afterwards, requested wait *)
Fixpoint wrun_thr (c : wcfg) (maxq_ms : Z) (st : wst) (last : Z) (ops : list (Z * Z))
  : list (float * bool * Z * Z) :=
  match ops with
  | [] => []
  | (now, b) :: r =>
      let '(st', last', (a, adm, w)) := wstep_thr c maxq_ms st last now b in
      (a, adm, stored st', w) :: wrun_thr c maxq_ms st' last' r
  end.
