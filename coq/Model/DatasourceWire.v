(* Model/Datasource.v instantiated with the wire decoder of Model/Json.v: the converter of a
   property handler is the module's *JsonArrayParser, i.e. `decode sch`.

   No proofs in this file. *)
From SG Require Import Base.Prelude Model.Json Model.Datasource.

(* the decoded property: []*Rule — nil slice?, elements (None = nil pointer) *)
Definition wprop := (bool * list (option wrule))%type.

Definition wire_convert (sch : schema) (b : jbytes) : conv wprop :=
  match decode sch b with
  | Undecodable => CErr
  | Empty => CNil
  | Rules n l => CVal (n, l)
  end.

(* the updater's type switch always succeeds on what its own parser returns *)
Definition wtyped (p : wprop) : option (list (option wrule)) := Some (snd p).

(* ---- a reference manager over wire rules (non-vacuity examples, correspondence) --------------- *)

(* a rule is taken to be valid when its "resource" field (second schema field) is non-empty *)
Definition wvalid (r : wrule) : bool :=
  match r with
  | _ :: FStr (_ :: _) :: _ => true
  | _ => false
  end.

Definition wmgr := list wrule.
Definition wload (l : list (option wrule)) (m : wmgr) : wmgr * lres := (valid_of wvalid l, LOk).
Definition wclear (m : wmgr) : wmgr * lres := ([], LOk).
Definition win_force (m : wmgr) : list wrule := m.
Definition wcanon (l : list wrule) : list wrule := l.
(* DeepEqual that never holds: every delivery reaches the loader *)
Definition wpeq_never (p q : wprop) : bool := false.
Definition winit : state wprop wmgr := (None, []).
