(* Concurrent model of core/stat/base: LeapArray.currentBucketOfTime, BucketLeapArray.ResetBucketTo /
   addCountWithTime / CountWithTime, MetricBucket.Add / AddRt / Get / reset and the try-lock,
   as program-counter machines whose steps are exactly the atomic accesses of the Go code.
   Every step carries the id of the vhook.Yield point that precedes the access in /repo
   (label 0 = no yield of its own: the 2nd and 3rd BucketStart loads of the if-chain in
   currentBucketOfTime, and the return of CountWithTime).

   Executable, no proofs inside (Proofs/LeapArrayConcProofs.v). Self-contained. *)
From SG Require Import Base.Prelude Base.GoInt.

(* ------------------------------------------------------------------------------------ *)
(* geometry *)

Record geom := {
  g_n  : nat;          (* sampleCount *)
  g_bl : Z;            (* bucketLengthInMs = intervalInMs / sampleCount *)
  g_zero_first : bool  (* order inside ResetBucketTo: true = mb.reset() then publish BucketStart
                          (the code after the fix); false = BucketStart first, then reset()
                          (the order before the fix; kept for C09_expired_invisible_refuted_old_order) *)
}.

Definition interval (g : geom) : Z := Z.of_nat (g_n g) * g_bl g.
Definition bstart (g : geom) (now : Z) : Z := now - now mod g_bl g.                 (* calculateStartTime *)
Definition bidx (g : geom) (now : Z) : nat := Z.to_nat ((now / g_bl g) mod Z.of_nat (g_n g)).  (* calculateTimeIdx *)

Definition max_rt : Z := 60000.     (* base.DefaultStatisticMaxRt *)
Definition n_events : nat := 5.     (* base.MetricEventTotal *)
Definition ev_rt : nat := 4.        (* base.MetricEventRt *)

(* ------------------------------------------------------------------------------------ *)
(* shared state *)

Record slot := {
  s_start : Z;                       (* BucketWrap.BucketStart *)
  s_cnt   : list Z;                  (* MetricBucket.counter[5] *)
  s_minrt : Z;
  s_maxc  : Z;
  s_contrib : list (list (Z * Z))    (* ghost, per counter: (amount, start of the slot at the time of
                                        the add) of every add since the last zero-store to that counter *)
}.

Definition dslot : slot := {| s_start := 0; s_cnt := []; s_minrt := 0; s_maxc := 0; s_contrib := [] |}.
Definition cntv (s : slot) (k : nat) : Z := nth k (s_cnt s) 0.
Definition contribv (s : slot) (k : nat) : list (Z * Z) := nth k (s_contrib s) [].

(* ghost: one record per executed atomic add *)
Record addrec := {
  a_tid : nat; a_kind : nat; a_amt : Z;
  a_slot : nat;     (* slot index the amount went to *)
  a_start : Z;      (* BucketStart of that slot at the moment of the add *)
  a_own : Z         (* bucket start selected by the recorder's own timestamp *)
}.
(* ghost: one record per returned CountWithTime *)
Record readrec := { r_tid : nat; r_kind : nat; r_now : Z; r_total : Z }.
(* ghost: a reader summed an amount written under an earlier start than the one it saw *)
Record stalerec := { x_tid : nat; x_slot : nat; x_seen : Z; x_under : Z; x_amt : Z }.

Record shared := {
  slots : list slot;
  lock  : bool;        (* LeapArray.updateLock: the try-lock word *)
  clock : Z;           (* util.CurrentTimeMillis *)
  adds  : list addrec;     (* ghost, in execution order *)
  reads : list readrec;    (* ghost, in execution order *)
  stale : list stalerec    (* ghost *)
}.

(* ------------------------------------------------------------------------------------ *)
(* programs and thread-local state *)

Inductive op :=
| ORecord (kind : nat) (amt : Z)   (* bla.addCountWithTime(now, kind, amt), now := clock at op start *)
| ORead (kind : nat).              (* bla.CountWithTime(now, kind) *)

Inductive pc :=
| PBegin                 (* 100: read the clock (harness-side yield) *)
| PGet                   (* 101: la.array.get(idx) *)
| PLoad1                 (* 102: bucketStart == load(old.BucketStart) *)
| PLoad2                 (*   0: bucketStart >  load(old.BucketStart) *)
| PLoad3                 (*   0: bucketStart <  load(old.BucketStart) *)
| PTryLock               (* 103 *)
| PStoreStart            (* 110: store BucketStart *)
| PZero (k : nat)        (* 111: store counter[k] := 0 *)
| PZeroMin               (* 112 *)
| PZeroMax               (* 113 *)
| PUnlock                (* 104 *)
| PAdd                   (* 120: atomic add *)
| PRtLoad                (* 122: AddRt loads minRt *)
| PRtStore               (* 123: AddRt stores minRt *)
| PVGet                  (* 105: valuesWithTime: la.array.get(i) *)
| PVStart                (* 106: isBucketDeprecated loads BucketStart *)
| PSum                   (* 121: MetricBucket.Get loads the counter *)
| PRet                   (*   0: CountWithTime returns *)
| PDone.

Definition label (p : pc) : Z :=
  match p with
  | PBegin => 100 | PGet => 101 | PLoad1 => 102 | PLoad2 => 0 | PLoad3 => 0 | PTryLock => 103
  | PStoreStart => 110 | PZero _ => 111 | PZeroMin => 112 | PZeroMax => 113 | PUnlock => 104
  | PAdd => 120 | PRtLoad => 122 | PRtStore => 123 | PVGet => 105 | PVStart => 106 | PSum => 121
  | PRet => 0 | PDone => -1
  end.

Record thread := {
  t_ops : list op;           (* head = operation in progress (or next to start) *)
  t_pc  : pc;
  t_now : Z;                 (* the timestamp the operation read *)
  t_i   : nat;               (* valuesWithTime loop index *)
  t_acc : list (nat * Z);    (* selected slots still to be summed: (index, ghost: start seen at 106) *)
  t_sum : Z;
  t_rets : list Z            (* values returned by completed reads, in order *)
}.

Definition set_pc (t : thread) (p : pc) : thread :=
  {| t_ops := t_ops t; t_pc := p; t_now := t_now t; t_i := t_i t; t_acc := t_acc t; t_sum := t_sum t; t_rets := t_rets t |}.

Definition start_pc (ops : list op) : pc := match ops with [] => PDone | _ => PBegin end.

(* the operation in progress is finished: pop it *)
Definition next_op (t : thread) : thread :=
  {| t_ops := tl (t_ops t); t_pc := start_pc (tl (t_ops t)); t_now := t_now t; t_i := 0; t_acc := []; t_sum := 0; t_rets := t_rets t |}.

Definition init_thread (ops : list op) : thread :=
  {| t_ops := ops; t_pc := start_pc ops; t_now := 0; t_i := 0; t_acc := []; t_sum := 0; t_rets := [] |}.

(* ------------------------------------------------------------------------------------ *)
(* one step of one thread = one atomic access: its effect on the shared state, and the new local state *)

Inductive eff :=
| ENone
| ELock (b : bool)
| EStart (i : nat) (v : Z)
| EZero (i : nat) (k : nat)
| EMinRt (i : nat) (v : Z)
| EMaxC (i : nat) (v : Z)
| EAdd (r : addrec)
| EStale (l : list stalerec)
| ERet (r : readrec).

Definition set_slots (s : shared) (sl : list slot) : shared :=
  {| slots := sl; lock := lock s; clock := clock s; adds := adds s; reads := reads s; stale := stale s |}.

Definition slot_set_start (v : Z) (x : slot) : slot :=
  {| s_start := v; s_cnt := s_cnt x; s_minrt := s_minrt x; s_maxc := s_maxc x; s_contrib := s_contrib x |}.
Definition slot_zero (k : nat) (x : slot) : slot :=
  {| s_start := s_start x; s_cnt := upd_nth k (fun _ => 0) (s_cnt x); s_minrt := s_minrt x; s_maxc := s_maxc x;
     s_contrib := upd_nth k (fun _ => []) (s_contrib x) |}.
Definition slot_set_minrt (v : Z) (x : slot) : slot :=
  {| s_start := s_start x; s_cnt := s_cnt x; s_minrt := v; s_maxc := s_maxc x; s_contrib := s_contrib x |}.
Definition slot_set_maxc (v : Z) (x : slot) : slot :=
  {| s_start := s_start x; s_cnt := s_cnt x; s_minrt := s_minrt x; s_maxc := v; s_contrib := s_contrib x |}.
Definition slot_add (k : nat) (amt : Z) (x : slot) : slot :=
  {| s_start := s_start x; s_cnt := upd_nth k (fun c => i64_add c amt) (s_cnt x); s_minrt := s_minrt x; s_maxc := s_maxc x;
     s_contrib := upd_nth k (fun l => l ++ [(amt, s_start x)]) (s_contrib x) |}.

Definition apply_eff (e : eff) (s : shared) : shared :=
  match e with
  | ENone => s
  | ELock b => {| slots := slots s; lock := b; clock := clock s; adds := adds s; reads := reads s; stale := stale s |}
  | EStart i v => set_slots s (upd_nth i (slot_set_start v) (slots s))
  | EZero i k => set_slots s (upd_nth i (slot_zero k) (slots s))
  | EMinRt i v => set_slots s (upd_nth i (slot_set_minrt v) (slots s))
  | EMaxC i v => set_slots s (upd_nth i (slot_set_maxc v) (slots s))
  | EAdd r => {| slots := upd_nth (a_slot r) (slot_add (a_kind r) (a_amt r)) (slots s); lock := lock s; clock := clock s;
                 adds := adds s ++ [r]; reads := reads s; stale := stale s |}
  | EStale l => {| slots := slots s; lock := lock s; clock := clock s; adds := adds s; reads := reads s; stale := stale s ++ l |}
  | ERet r => {| slots := slots s; lock := lock s; clock := clock s; adds := adds s; reads := reads s ++ [r]; stale := stale s |}
  end.

(* currentBucketOfTime has returned (ok = a bucket, not the "behind" error) *)
Definition after_cb (ok : bool) (t : thread) : thread :=
  match t_ops t with
  | ORecord _ _ :: _ => if ok then set_pc t PAdd else next_op t
  | ORead _ :: _ => set_pc t PVGet          (* the error is only logged; valuesWithTime starts with i = 0 *)
  | [] => t
  end.

(* head of the valuesWithTime loop / start of the summation *)
Definition vloop (g : geom) (t : thread) : thread :=
  if (t_i t <? g_n g)%nat then set_pc t PVGet
  else match t_acc t with [] => set_pc t PRet | _ => set_pc t PSum end.

Definition tstep (g : geom) (tid : nat) (s : shared) (t : thread) : eff * thread :=
  match t_ops t with
  | [] => (ENone, t)
  | o :: _ =>
    let now := t_now t in
    let idx := bidx g now in
    let bs := bstart g now in
    let cur := nth idx (slots s) dslot in
    match t_pc t with
    | PDone => (ENone, t)
    | PBegin =>
        let t1 := {| t_ops := t_ops t; t_pc := PGet; t_now := clock s; t_i := 0; t_acc := []; t_sum := 0; t_rets := t_rets t |} in
        if clock s <=? 0
        then match o with ORecord _ _ => (ENone, next_op t1) | ORead _ => (ENone, set_pc t1 PRet) end
        else (ENone, t1)
    | PGet => (ENone, set_pc t PLoad1)
    | PLoad1 => if bs =? s_start cur then (ENone, after_cb true t) else (ENone, set_pc t PLoad2)
    | PLoad2 => if s_start cur <? bs then (ENone, set_pc t PTryLock) else (ENone, set_pc t PLoad3)
    | PLoad3 => if bs <? s_start cur
                then (if Nat.eqb (g_n g) 1 then (ENone, after_cb true t) else (ENone, after_cb false t))
                else (ENone, set_pc t PGet)
    | PTryLock =>
        if lock s then (ENone, set_pc t PGet)
        else (ELock true, set_pc t (if g_zero_first g then PZero 0 else PStoreStart))
    | PStoreStart => (EStart idx bs, set_pc t (if g_zero_first g then PUnlock else PZero 0))
    | PZero k => (EZero idx k, set_pc t (if (S k <? n_events)%nat then PZero (S k) else PZeroMin))
    | PZeroMin => (EMinRt idx max_rt, set_pc t PZeroMax)
    | PZeroMax => (EMaxC idx 0, set_pc t (if g_zero_first g then PStoreStart else PUnlock))
    | PUnlock => (ELock false, after_cb true t)
    | PAdd =>
        match o with
        | ORecord k a =>
            (EAdd {| a_tid := tid; a_kind := k; a_amt := a; a_slot := idx; a_start := s_start cur; a_own := bs |},
             if Nat.eqb k ev_rt then set_pc t PRtLoad else next_op t)
        | ORead _ => (ENone, t)
        end
    | PRtLoad =>
        match o with
        | ORecord _ a => if a <? s_minrt cur then (ENone, set_pc t PRtStore) else (ENone, next_op t)
        | ORead _ => (ENone, t)
        end
    | PRtStore =>
        match o with
        | ORecord _ a => (EMinRt idx a, next_op t)
        | ORead _ => (ENone, t)
        end
    | PVGet => (ENone, set_pc t PVStart)
    | PVStart =>
        let i := t_i t in
        let ws := s_start (nth i (slots s) dslot) in
        let acc' := if interval g <=? u64_sub now ws then t_acc t else t_acc t ++ [(i, ws)] in
        (ENone, vloop g {| t_ops := t_ops t; t_pc := t_pc t; t_now := now; t_i := S i; t_acc := acc'; t_sum := t_sum t; t_rets := t_rets t |})
    | PSum =>
        match o, t_acc t with
        | ORead k, (i, seen) :: rest =>
            let x := nth i (slots s) dslot in
            (EStale (map (fun p => {| x_tid := tid; x_slot := i; x_seen := seen; x_under := snd p; x_amt := fst p |})
                         (filter (fun p => snd p <? seen) (contribv x k))),
             {| t_ops := t_ops t; t_pc := match rest with [] => PRet | _ => PSum end; t_now := now; t_i := t_i t;
                t_acc := rest; t_sum := i64_add (t_sum t) (cntv x k); t_rets := t_rets t |})
        | _, _ => (ENone, set_pc t PRet)
        end
    | PRet =>
        match o with
        | ORead k =>
            (ERet {| r_tid := tid; r_kind := k; r_now := now; r_total := t_sum t |},
             let t1 := next_op t in
             {| t_ops := t_ops t1; t_pc := t_pc t1; t_now := t_now t1; t_i := 0; t_acc := []; t_sum := 0; t_rets := t_rets t ++ [t_sum t] |})
        | ORecord _ _ => (ENone, t)
        end
    end
  end.

(* ------------------------------------------------------------------------------------ *)
(* configurations, schedules, exec *)

Record config := { sh : shared; thr : list thread }.

Inductive ev := Run (tid : nat) | Tick (dt : Z).
Definition schedule := list ev.

Definition tick (dt : Z) (s : shared) : shared :=
  {| slots := slots s; lock := lock s; clock := clock s + Z.max 0 dt; adds := adds s; reads := reads s; stale := stale s |}.

Definition step (g : geom) (c : config) (e : ev) : config :=
  match e with
  | Tick dt => {| sh := tick dt (sh c); thr := thr c |}
  | Run tid =>
      match nth_error (thr c) tid with
      | None => c
      | Some t => let '(e, t') := tstep g tid (sh c) t in
                  {| sh := apply_eff e (sh c); thr := upd_nth tid (fun _ => t') (thr c) |}
      end
  end.

Definition exec (g : geom) (sched : schedule) (c : config) : config := fold_left (step g) sched c.

(* ------------------------------------------------------------------------------------ *)
(* initial configuration: NewAtomicBucketWrapArrayWithTime(n, bl, t0) + NewMetricBucket *)

Definition init_slot (g : geom) (t0 : Z) (i : nat) : slot :=
  {| s_start := bstart g t0 + ((Z.of_nat i - Z.of_nat (bidx g t0)) mod Z.of_nat (g_n g)) * g_bl g;
     s_cnt := repeat 0 n_events; s_minrt := max_rt; s_maxc := 0; s_contrib := repeat [] n_events |}.

Definition init_shared (g : geom) (t0 : Z) : shared :=
  {| slots := map (init_slot g t0) (seq 0 (g_n g)); lock := false; clock := t0; adds := []; reads := []; stale := [] |}.

Definition init (g : geom) (t0 : Z) (progs : list (list op)) : config :=
  {| sh := init_shared g t0; thr := map init_thread progs |}.

(* ------------------------------------------------------------------------------------ *)
(* harness granularity: the harness parks a goroutine only at labelled points, so one harness
   step of thread tid is one model step followed by the thread's unlabelled steps *)

Definition label_of (c : config) (tid : nat) : Z :=
  match nth_error (thr c) tid with Some t => label (t_pc t) | None => -1 end.

Definition macro_evs (g : geom) (c : config) (tid : nat) : list ev :=
  let c1 := step g c (Run tid) in
  if label_of c1 tid =? 0 then
    let c2 := step g c1 (Run tid) in
    if label_of c2 tid =? 0 then [Run tid; Run tid; Run tid] else [Run tid; Run tid]
  else [Run tid].

(* expand a harness schedule into the model schedule it denotes, from configuration c *)
Fixpoint expand (g : geom) (hs : schedule) (c : config) : schedule :=
  match hs with
  | [] => []
  | Run tid :: r => let m := macro_evs g c tid in m ++ expand g r (exec g m c)
  | Tick dt :: r => Tick dt :: expand g r (step g c (Tick dt))
  end.

(* ------------------------------------------------------------------------------------ *)
(* ghost sums *)

Definition amt_if (p : addrec -> bool) (r : addrec) : Z := if p r then a_amt r else 0.
Definition Esum (p : addrec -> bool) (l : list addrec) : Z := sumZ (map (amt_if p) l).

Definition on_kind (k : nat) (r : addrec) : bool := Nat.eqb (a_kind r) k.
Definition on_slot_kind (i k : nat) (r : addrec) : bool := Nat.eqb (a_slot r) i && Nat.eqb (a_kind r) k.
Definition below_kind (lo k : nat) (r : addrec) : bool := (a_slot r <? lo)%nat && Nat.eqb (a_kind r) k.

Definition op_amt (o : op) : Z := match o with ORecord _ a => a | ORead _ => 0 end.
Definition ops_amt (l : list op) : Z := sumZ (map op_amt l).
Definition total_amt (progs : list (list op)) : Z := sumZ (map ops_amt progs).
Definition op_nonneg (o : op) : Prop := 0 <= op_amt o.

(* ------------------------------------------------------------------------------------ *)
(* schedule hypotheses of the C09 theorems (executable, so that examples decide them by vm_compute) *)

(* the thread has an operation in progress: it has read its timestamp and has not finished *)
Definition active (t : thread) : bool :=
  match t_ops t with
  | [] => false
  | _ => match t_pc t with PBegin | PDone => false | _ => true end
  end.

(* no operation in progress is older than one bucket length *)
Definition freshb (g : geom) (c : config) : bool :=
  forallb (fun t => negb (active t) || (clock (sh c) - t_now t <=? g_bl g)) (thr c).

(* P holds in every configuration the schedule passes through (including the first and the last) *)
Fixpoint alongb (P : config -> bool) (g : geom) (sched : schedule) (c : config) : bool :=
  P c && match sched with [] => true | e :: r => alongb P g r (step g c e) end.

(* "no operation is stalled for longer than one bucket length": whenever the clock has advanced by more
   than g_bl since an operation read its timestamp, that operation has already finished *)
Definition no_stall (g : geom) (sched : schedule) (c : config) : Prop := alongb (freshb g) g sched c = true.

(* the thread has decided to roll its slot over: parked before the TryLock or inside the critical section *)
Definition in_cs (p : pc) : bool :=
  match p with PStoreStart | PZero _ | PZeroMin | PZeroMax | PUnlock => true | _ => false end.
Definition rolling (t : thread) : bool :=
  active t && (in_cs (t_pc t) || match t_pc t with PTryLock => true | _ => false end).
(* the thread has a record operation in progress *)
Definition act_rec (t : thread) : bool :=
  active t && match t_ops t with ORecord _ _ :: _ => true | _ => false end.

Definition indexed {A} (l : list A) : list (nat * A) := combine (seq 0 (length l)) l.

(* a record operation is in progress on a slot that a different thread is rolling over *)
Definition overlapb (g : geom) (c : config) : bool :=
  existsb (fun p => existsb (fun q =>
      negb (Nat.eqb (fst p) (fst q)) && rolling (snd p) && act_rec (snd q)
      && Nat.eqb (bidx g (t_now (snd p))) (bidx g (t_now (snd q))))
    (indexed (thr c))) (indexed (thr c)).

Definition no_overlap (g : geom) (sched : schedule) (c : config) : Prop :=
  alongb (fun c => negb (overlapb g c)) g sched c = true.

(* every thread has finished its program *)
Definition all_done (c : config) : bool := forallb (fun t => match t_ops t with [] => true | _ => false end) (thr c).
