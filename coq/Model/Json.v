(* The JSON wire format of the five rule schemas (ext/datasource/helper.go *JsonArrayParser,
   hotspot_rule_converter.go HotspotRule / SpecificValue / parseSpecificItems), modelled in two
   layers.

   Layer 1 — JSON: generic value trees, a compact printer, and a parser for the JSON grammar
   (objects, arrays, strings, numbers, true/false/null, whitespace between tokens) over the byte
   alphabet `in_subset`: printable ASCII without the backslash (so no string escapes), plus tab, LF,
   CR as whitespace.  Numbers stay decimal literals (validated against the JSON number grammar).

   Layer 2 — schema-directed decoding, transcribing what encoding/json does when it unmarshals
   into []*Rule: the document must be an array (or null); an element is an object (a fresh rule
   starting from the zero values) or null (a nil pointer); the members of an object are applied
   in order — a member whose key equals a schema key up to ASCII case sets that field (so the last
   occurrence wins), null leaves the field alone (a slice field is reset), a value of the wrong
   JSON type, an integer literal that is not an integer or does not fit the field's Go type makes
   the whole payload undecodable, unknown members are skipped.  float64 fields keep their literal
   (literal <-> float64 is strconv, an oracle outside the model).  hotspot's specificItems is an
   array of {valKind, valStr, threshold} objects; `conv_items` transcribes parseSpecificItems
   (Atoi / ParseBool exactly, the float kind through an oracle table).

   Outside the model (documented in design_notes/C18.md): string escapes and non-ASCII bytes
   (`in_subset` = false), float literals whose exponent has three or more digits (overflow is
   strconv's business; `in_subset` = false), and a second occurrence of the key specificItems in
   one object (encoding/json reuses the previous slice elements).

   No proofs in this file. *)
From Coq Require Import Ascii String DecimalString DecimalZ Decimal.
From SG Require Import Base.Prelude.

Definition jbytes := list ascii.
Definition B (s : string) : jbytes := list_ascii_of_string s.

Fixpoint la_eqb (a b : jbytes) : bool :=
  match a, b with
  | [], [] => true
  | x :: xs, y :: ys => Ascii.eqb x y && la_eqb xs ys
  | _, _ => false
  end.

(* ---- syntax trees ------------------------------------------------------------------------- *)

Inductive jv :=
| JNull
| JBool (b : bool)
| JNum (tok : jbytes)
| JStr (s : jbytes)
| JArr (items : list jv)
| JObj (members : list (jbytes * jv)).

(* ---- printer (compact) ---------------------------------------------------------------------- *)

Definition q : ascii := """"%char.
Definition quote (s : jbytes) : jbytes := q :: s ++ [q].

Section Printer.
  Context {A : Type} (pv : A -> jbytes).

  Fixpoint pr_members (l : list (jbytes * A)) : jbytes :=
    match l with
    | [] => []
    | (k, v) :: r =>
        match r with
        | [] => quote k ++ ":"%char :: pv v
        | _ :: _ => quote k ++ ":"%char :: pv v ++ ","%char :: pr_members r
        end
    end.

  Fixpoint pr_elems (l : list A) : jbytes :=
    match l with
    | [] => []
    | x :: r =>
        match r with
        | [] => pv x
        | _ :: _ => pv x ++ ","%char :: pr_elems r
        end
    end.

  Definition pr_object (l : list (jbytes * A)) : jbytes := "{"%char :: pr_members l ++ ["}"%char].
  Definition pr_array (l : list A) : jbytes := "["%char :: pr_elems l ++ ["]"%char].
End Printer.

Fixpoint pr_jv (v : jv) : jbytes :=
  match v with
  | JNull => B "null"
  | JBool true => B "true"
  | JBool false => B "false"
  | JNum t => t
  | JStr s => quote s
  | JArr l => pr_array pr_jv l
  | JObj m => pr_object pr_jv m
  end.

(* ---- lexer ------------------------------------------------------------------------------------ *)

Definition is_ws (c : ascii) : bool :=
  match c with
  | " " | "009" | "010" | "013" => true
  | _ => false
  end%char.

Fixpoint skip_ws (s : jbytes) : jbytes :=
  match s with
  | c :: r => if is_ws c then skip_ws r else s
  | [] => []
  end.

Definition is_digit (c : ascii) : bool :=
  match c with
  | "0" | "1" | "2" | "3" | "4" | "5" | "6" | "7" | "8" | "9" => true
  | _ => false
  end%char.

Definition is_numchar (c : ascii) : bool :=
  is_digit c || match c with "-" | "+" | "." | "e" | "E" => true | _ => false end%char.

(* characters allowed inside a string of the subset: printable ASCII except the quote and the
   backslash (nothing needs escaping) *)
Definition is_strchar (c : ascii) : bool :=
  let n := nat_of_ascii c in
  (32 <=? n)%nat && (n <=? 126)%nat && negb (Ascii.eqb c q) && negb (Ascii.eqb c "\"%char).

(* after the opening quote: the content up to the closing quote *)
Fixpoint scan_str (s : jbytes) : option (jbytes * jbytes) :=
  match s with
  | [] => None
  | c :: r =>
      if Ascii.eqb c q then Some ([], r)
      else if is_strchar c then
        match scan_str r with Some (x, r') => Some (c :: x, r') | None => None end
      else None
  end.

Definition p_str (s : jbytes) : option (jbytes * jbytes) :=
  match s with
  | c :: r => if Ascii.eqb c q then scan_str r else None
  | [] => None
  end.

Fixpoint span_num (s : jbytes) : jbytes * jbytes :=
  match s with
  | c :: r => if is_numchar c then let '(t, r') := span_num r in (c :: t, r') else ([], s)
  | [] => ([], [])
  end.

(* the JSON number grammar: optional minus; 0 or a non-zero digit followed by digits; optional
   fraction (dot, one or more digits); optional exponent (e or E, optional sign, one or more digits) *)
Fixpoint skip_digits (s : jbytes) : nat * jbytes :=
  match s with
  | c :: r => if is_digit c then let '(n, r') := skip_digits r in (S n, r') else (O, s)
  | [] => (O, [])
  end.

Definition after_frac (r : jbytes) : bool :=
  match r with
  | [] => true
  | c :: r1 =>
      if Ascii.eqb c "e"%char || Ascii.eqb c "E"%char then
        let r2 := match r1 with
                  | s :: x => if Ascii.eqb s "+"%char || Ascii.eqb s "-"%char then x else r1
                  | [] => r1
                  end in
        let '(n, r3) := skip_digits r2 in
        (0 <? n)%nat && match r3 with [] => true | _ => false end
      else false
  end.

Definition after_int (r : jbytes) : bool :=
  match r with
  | c :: r1 =>
      if Ascii.eqb c "."%char then
        let '(n, r2) := skip_digits r1 in (0 <? n)%nat && after_frac r2
      else after_frac r
  | [] => true
  end.

Definition numlit_ok (s : jbytes) : bool :=
  let s1 := match s with c :: r => if Ascii.eqb c "-"%char then r else s | [] => s end in
  match s1 with
  | c :: r =>
      if Ascii.eqb c "0"%char then after_int r
      else if is_digit c then after_int (snd (skip_digits r))
      else false
  | [] => false
  end.

(* `w` is a prefix of `s`: the rest *)
Fixpoint p_lit (w s : jbytes) : option jbytes :=
  match w with
  | [] => Some s
  | c :: w' =>
      match s with
      | d :: s' => if Ascii.eqb c d then p_lit w' s' else None
      | [] => None
      end
  end.

(* ---- parser ----------------------------------------------------------------------------------- *)

Definition parser (A : Type) := jbytes -> option (A * jbytes).

Section Loops.
  Context {A : Type} (pv : parser A).     (* pv skips leading whitespace itself *)

  (* members up to and including the closing brace (at least one); fuel bounds their number *)
  Fixpoint p_members (fuel : nat) (s : jbytes) : option (list (jbytes * A) * jbytes) :=
    match fuel with
    | O => None
    | S f =>
        match p_str (skip_ws s) with
        | Some (k, r0) =>
            match skip_ws r0 with
            | c :: r =>
                if Ascii.eqb c ":"%char then
                  match pv r with
                  | Some (v, r1) =>
                      match skip_ws r1 with
                      | d :: r2 =>
                          if Ascii.eqb d ","%char then
                            match p_members f r2 with
                            | Some (l, r3) => Some ((k, v) :: l, r3)
                            | None => None
                            end
                          else if Ascii.eqb d "}"%char then Some ([(k, v)], r2)
                          else None
                      | [] => None
                      end
                  | None => None
                  end
                else None
            | [] => None
            end
        | None => None
        end
    end.

  (* after the opening brace *)
  Definition p_object (fuel : nat) (s : jbytes) : option (list (jbytes * A) * jbytes) :=
    match skip_ws s with
    | d :: r' => if Ascii.eqb d "}"%char then Some ([], r') else p_members fuel (d :: r')
    | [] => None
    end.

  Fixpoint p_elems (fuel : nat) (s : jbytes) : option (list A * jbytes) :=
    match fuel with
    | O => None
    | S f =>
        match pv s with
        | Some (x, r0) =>
            match skip_ws r0 with
            | d :: r =>
                if Ascii.eqb d ","%char then
                  match p_elems f r with
                  | Some (l, r2) => Some (x :: l, r2)
                  | None => None
                  end
                else if Ascii.eqb d "]"%char then Some ([x], r)
                else None
            | [] => None
            end
        | None => None
        end
    end.

  (* after the opening bracket *)
  Definition p_array (fuel : nat) (s : jbytes) : option (list A * jbytes) :=
    match skip_ws s with
    | d :: r' => if Ascii.eqb d "]"%char then Some ([], r') else p_elems fuel (d :: r')
    | [] => None
    end.
End Loops.

(* fuel bounds the nesting depth; the member / element loops are bounded by the input length *)
Fixpoint p_jv (fuel : nat) (s : jbytes) : option (jv * jbytes) :=
  match fuel with
  | O => None
  | S f =>
      match skip_ws s with
      | [] => None
      | c :: r =>
          if Ascii.eqb c "{"%char then
            match p_object (p_jv f) (length r) r with Some (m, r') => Some (JObj m, r') | None => None end
          else if Ascii.eqb c "["%char then
            match p_array (p_jv f) (length r) r with Some (l, r') => Some (JArr l, r') | None => None end
          else if Ascii.eqb c q then
            match scan_str r with Some (x, r') => Some (JStr x, r') | None => None end
          else if Ascii.eqb c "n"%char then
            match p_lit (B "ull") r with Some r' => Some (JNull, r') | None => None end
          else if Ascii.eqb c "t"%char then
            match p_lit (B "rue") r with Some r' => Some (JBool true, r') | None => None end
          else if Ascii.eqb c "f"%char then
            match p_lit (B "alse") r with Some r' => Some (JBool false, r') | None => None end
          else
            let '(t, r') := span_num (c :: r) in
            if numlit_ok t then Some (JNum t, r') else None
      end
  end.

Definition parse (s : jbytes) : option jv :=
  match p_jv (length s) s with
  | Some (v, r) => match skip_ws r with [] => Some v | _ => None end
  | None => None
  end.

(* ---- schemas ---------------------------------------------------------------------------------- *)

(* TInt lo hi: a Go integer type with that range (a literal with a minus sign is refused by an
   unsigned type, strconv.ParseUint) *)
Inductive ftype := TStr | TInt (lo hi : Z) | TNum | TItems.

(* hotspot SpecificValue: valKind, valStr, threshold *)
Definition item := (Z * jbytes * Z)%type.

Inductive fval :=
| FStr (s : jbytes)
| FInt (z : Z)
| FNum (lit : jbytes)        (* a float64 field, kept as its decimal literal *)
| FItems (l : list item).

Definition schema := list (jbytes * ftype).
Definition wrule := list fval.       (* one value per schema field, in schema order *)

Definition i32 := TInt (-2147483648) 2147483647.
Definition u32 := TInt 0 4294967295.
Definition i64 := TInt (-9223372036854775808) 9223372036854775807.
Definition u64 := TInt 0 18446744073709551615.

Definition print_int (z : Z) : jbytes := B (NilZero.string_of_int (Z.to_int z)).

(* the integers of the JSON number grammar: canonical decimal, or "-0" *)
Definition parse_int (t : jbytes) : option Z :=
  match NilZero.int_of_string (string_of_list_ascii t) with
  | Some d =>
      let z := Z.of_int d in
      if la_eqb (print_int z) t then Some z
      else if la_eqb t (B "-0") then Some 0
      else None
  | None => None
  end.

Definition dec_int (lo hi : Z) (t : jbytes) : option Z :=
  match parse_int t with
  | Some z =>
      let neg := match t with c :: _ => Ascii.eqb c "-"%char | [] => false end in
      if (lo <=? z) && (z <=? hi) && (negb neg || (lo <? 0)) then Some z else None
  | None => None
  end.

(* ---- encoder ------------------------------------------------------------------------------------ *)

Definition enc_item (it : item) : jv :=
  let '(k, s, t) := it in
  JObj [(B "valKind", JNum (print_int k)); (B "valStr", JStr s); (B "threshold", JNum (print_int t))].

Definition enc_val (v : fval) : jv :=
  match v with
  | FStr s => JStr s
  | FInt z => JNum (print_int z)
  | FNum lit => JNum lit
  | FItems l => JArr (map enc_item l)
  end.

Fixpoint enc_members (sch : schema) (r : wrule) : list (jbytes * jv) :=
  match sch, r with
  | (k, _) :: sch', v :: r' => (k, enc_val v) :: enc_members sch' r'
  | _, _ => []
  end.

Definition enc_rule (sch : schema) (r : wrule) : jv := JObj (enc_members sch r).

Definition encode (sch : schema) (l : list wrule) : jbytes := pr_jv (JArr (map (enc_rule sch) l)).

(* ---- decoder ------------------------------------------------------------------------------------ *)

Definition lower (c : ascii) : ascii :=
  let n := nat_of_ascii c in
  if (65 <=? n)%nat && (n <=? 90)%nat then ascii_of_nat (n + 32) else c.

(* encoding/json matches member names to field names up to ASCII case *)
Definition key_eqb (a b : jbytes) : bool := la_eqb (map lower a) (map lower b).

Definition int_lo : Z := -9223372036854775808.   (* Go int on a 64-bit platform *)
Definition int_hi : Z := 9223372036854775807.

Definition dflt_item : item := (0, [], 0).

Definition set_item (k : jbytes) (v : jv) (it : item) : option item :=
  let '(a, s, t) := it in
  if key_eqb k (B "valKind") then
    match v with
    | JNull => Some it
    | JNum n => match dec_int int_lo int_hi n with Some z => Some (z, s, t) | None => None end
    | _ => None
    end
  else if key_eqb k (B "valStr") then
    match v with
    | JNull => Some it
    | JStr x => Some (a, x, t)
    | _ => None
    end
  else if key_eqb k (B "threshold") then
    match v with
    | JNull => Some it
    | JNum n => match dec_int int_lo int_hi n with Some z => Some (a, s, z) | None => None end
    | _ => None
    end
  else Some it.

(* apply the members of an object in order *)
Fixpoint dec_members {T} (setf : jbytes -> jv -> T -> option T) (m : list (jbytes * jv)) (cur : T) : option T :=
  match m with
  | [] => Some cur
  | (k, v) :: r =>
      match setf k v cur with
      | Some c => dec_members setf r c
      | None => None
      end
  end.

Definition dec_item (v : jv) : option item :=
  match v with
  | JNull => Some dflt_item                    (* []SpecificValue: null leaves the zero struct *)
  | JObj m => dec_members set_item m dflt_item
  | _ => None
  end.

Fixpoint dec_all {T} (f : jv -> option T) (l : list jv) : option (list T) :=
  match l with
  | [] => Some []
  | x :: r =>
      match f x, dec_all f r with
      | Some y, Some ys => Some (y :: ys)
      | _, _ => None
      end
  end.

Definition dec_val (ty : ftype) (v : jv) : option fval :=
  match ty, v with
  | TStr, JStr s => Some (FStr s)
  | TInt lo hi, JNum t => match dec_int lo hi t with Some z => Some (FInt z) | None => None end
  | TNum, JNum t => Some (FNum t)
  | TItems, JArr l => match dec_all dec_item l with Some is => Some (FItems is) | None => None end
  | _, _ => None
  end.

Definition dflt (ty : ftype) : fval :=
  match ty with
  | TStr => FStr []
  | TInt _ _ => FInt 0
  | TNum => FNum (B "0")
  | TItems => FItems []
  end.

Definition defaults (sch : schema) : wrule := map (fun kt => dflt (snd kt)) sch.

Fixpoint set_field (sch : schema) (k : jbytes) (v : jv) (cur : wrule) : option wrule :=
  match sch, cur with
  | (k', ty) :: sch', x :: cur' =>
      if key_eqb k k' then
        match v, ty with
        | JNull, TItems => Some (FItems [] :: cur')      (* null sets a slice to nil *)
        | JNull, _ => Some cur                           (* null has no effect otherwise *)
        | _, _ => match dec_val ty v with Some y => Some (y :: cur') | None => None end
        end
      else
        match set_field sch' k v cur' with
        | Some c => Some (x :: c)
        | None => None
        end
  | _, _ => Some cur                                     (* unknown member: skipped *)
  end.

(* one array element: an object is a rule, null a nil pointer *)
Definition dec_rule (sch : schema) (v : jv) : option (option wrule) :=
  match v with
  | JNull => Some None
  | JObj m => match dec_members (set_field sch) m (defaults sch) with Some r => Some (Some r) | None => None end
  | _ => None
  end.

(* what the *JsonArrayParser returns: (nil, err) | (nil, nil) | (rules, nil) where rules is a nil
   slice for the document `null` and may hold nil pointers *)
Inductive dres := Undecodable | Empty | Rules (isnil : bool) (l : list (option wrule)).

Definition decode (sch : schema) (s : jbytes) : dres :=
  match s with
  | [] => Empty
  | _ =>
      match parse s with
      | Some JNull => Rules true []
      | Some (JArr l) => match dec_all (dec_rule sch) l with Some rs => Rules false rs | None => Undecodable end
      | _ => Undecodable
      end
  end.

(* HotSpotParamRuleJsonArrayParser copies the decoded elements into a fresh slice made with
   make(): its result is never a nil slice, not even for the document `null` *)
Definition parser_result (k : Z) (d : dres) : dres :=
  match d with
  | Rules n l => Rules (if k =? 3 then false else n) l
  | _ => d
  end.

(* ---- the five wire schemas (Go json tags, in struct order) ------------------------------------- *)

Definition flow_schema : schema :=
  [ (B "id", TStr); (B "resource", TStr); (B "tokenCalculateStrategy", i32); (B "controlBehavior", i32);
    (B "threshold", TNum); (B "relationStrategy", i32); (B "refResource", TStr);
    (B "maxQueueingTimeMs", u32); (B "warmUpPeriodSec", u32); (B "warmUpColdFactor", u32);
    (B "statIntervalInMs", u32); (B "lowMemUsageThreshold", i64); (B "highMemUsageThreshold", i64);
    (B "memLowWaterMarkBytes", i64); (B "memHighWaterMarkBytes", i64) ].

Definition system_schema : schema :=
  [ (B "id", TStr); (B "metricType", u32); (B "triggerCount", TNum); (B "strategy", i32) ].

Definition breaker_schema : schema :=
  [ (B "id", TStr); (B "resource", TStr); (B "strategy", u32); (B "retryTimeoutMs", u32);
    (B "minRequestAmount", u64); (B "statIntervalMs", u32); (B "statSlidingWindowBucketCount", u32);
    (B "maxAllowedRtMs", u64); (B "threshold", TNum); (B "probeNum", u64) ].

Definition hotspot_schema : schema :=
  [ (B "id", TStr); (B "resource", TStr); (B "metricType", i32); (B "controlBehavior", i32);
    (B "paramIndex", i64); (B "paramKey", TStr); (B "threshold", i64); (B "maxQueueingTimeMs", i64);
    (B "burstCount", i64); (B "durationInSec", i64); (B "paramsMaxCapacity", i64); (B "specificItems", TItems) ].

Definition isolation_schema : schema :=
  [ (B "id", TStr); (B "resource", TStr); (B "metricType", i32); (B "threshold", u32) ].

Definition schema_of (k : Z) : schema :=
  if k =? 0 then flow_schema else if k =? 1 then system_schema else if k =? 2 then breaker_schema
  else if k =? 3 then hotspot_schema else isolation_schema.

(* ---- well-formedness (what the round trip needs) ---------------------------------------------- *)

Definition str_ok (s : jbytes) : bool := forallb is_strchar s.
Definition lit_ok (t : jbytes) : bool := forallb is_numchar t && numlit_ok t.
Definition in_range (lo hi z : Z) : bool := (lo <=? z) && (z <=? hi).

Definition item_ok (it : item) : bool :=
  let '(k, s, t) := it in in_range int_lo int_hi k && str_ok s && in_range int_lo int_hi t.

Definition val_ok (ty : ftype) (v : fval) : bool :=
  match ty, v with
  | TStr, FStr s => str_ok s
  | TInt lo hi, FInt z => in_range lo hi z
  | TNum, FNum t => lit_ok t
  | TItems, FItems l => forallb item_ok l
  | _, _ => false
  end.

Fixpoint rule_ok (sch : schema) (r : wrule) : bool :=
  match sch, r with
  | [], [] => true
  | (_, ty) :: sch', v :: r' => val_ok ty v && rule_ok sch' r'
  | _, _ => false
  end.

Fixpoint keys_distinct (ks : list jbytes) : bool :=
  match ks with
  | [] => true
  | k :: r => negb (existsb (key_eqb k) r) && keys_distinct r
  end.

Definition schema_ok (sch : schema) : bool :=
  forallb (fun kt => str_ok (fst kt)) sch && keys_distinct (map fst sch).

(* ---- the byte alphabet on which the model speaks ---------------------------------------------- *)

(* e / E followed by an optional sign and three or more digits *)
Fixpoint big_exp (s : jbytes) : bool :=
  match s with
  | [] => false
  | c :: r =>
      (if Ascii.eqb c "e"%char || Ascii.eqb c "E"%char then
         let r1 := match r with
                   | d :: x => if Ascii.eqb d "+"%char || Ascii.eqb d "-"%char then x else r
                   | [] => r
                   end in
         (3 <=? fst (skip_digits r1))%nat
       else false) || big_exp r
  end.

Definition in_alphabet (c : ascii) : bool :=
  let n := nat_of_ascii c in
  ((32 <=? n)%nat && (n <=? 126)%nat && negb (Ascii.eqb c "\"%char)) || is_ws c.

Definition in_subset (s : jbytes) : bool := forallb in_alphabet s && negb (big_exp s).

(* ---- hotspot_rule_converter.go parseSpecificItems ---------------------------------------------- *)

Inductive gkey := KInt (z : Z) | KStr (s : jbytes) | KBool (b : bool) | KFlt (bits : Z).

Definition digit_val (c : ascii) : Z := Z.of_nat (nat_of_ascii c) - 48.

Fixpoint digits_val (acc : Z) (s : jbytes) : option Z :=
  match s with
  | [] => Some acc
  | c :: r => if is_digit c then digits_val (acc * 10 + digit_val c) r else None
  end.

(* strconv.Atoi: optional sign, one or more decimal digits, within int64 *)
Definition atoi (s : jbytes) : option Z :=
  let '(neg, ds) :=
    match s with
    | c :: r => if Ascii.eqb c "-"%char then (true, r) else if Ascii.eqb c "+"%char then (false, r) else (false, s)
    | [] => (false, s)
    end in
  match ds with
  | [] => None
  | _ =>
      match digits_val 0 ds with
      | Some n => let z := if neg then - n else n in if in_range int_lo int_hi z then Some z else None
      | None => None
      end
  end.

(* strconv.ParseBool *)
Definition parse_bool (s : jbytes) : option bool :=
  if existsb (la_eqb s) [B "1"; B "t"; B "T"; B "TRUE"; B "true"; B "True"] then Some true
  else if existsb (la_eqb s) [B "0"; B "f"; B "F"; B "FALSE"; B "false"; B "False"] then Some false
  else None.

Fixpoint blookup {T} (k : jbytes) (l : list (jbytes * T)) : option T :=
  match l with
  | [] => None
  | (k', v) :: r => if la_eqb k k' then Some v else blookup k r
  end.

(* itab: valStr -> bits of ParseFloat(Sprintf("%.5f", ParseFloat(valStr))) or None when either
   conversion fails — strconv/fmt, supplied by the harness *)
Definition conv_key (itab : list (jbytes * option Z)) (it : item) : option gkey :=
  let '(k, s, _) := it in
  if k =? 0 then match atoi s with Some z => Some (KInt z) | None => None end
  else if k =? 1 then Some (KStr s)
  else if k =? 2 then match parse_bool s with Some b => Some (KBool b) | None => None end
  else if k =? 3 then match blookup s itab with Some (Some b) => Some (KFlt b) | _ => None end
  else None.

Definition flt_is_nan (bits : Z) : bool := ((bits / 4503599627370496) mod 2048 =? 2047) && negb (bits mod 4503599627370496 =? 0).
Definition flt_is_zero (bits : Z) : bool := (bits =? 0) || (bits =? 9223372036854775808).

(* Go's == on two interface{} map keys *)
Definition gkey_eq (a b : gkey) : bool :=
  match a, b with
  | KInt x, KInt y => x =? y
  | KStr x, KStr y => la_eqb x y
  | KBool x, KBool y => Bool.eqb x y
  | KFlt x, KFlt y => negb (flt_is_nan x) && negb (flt_is_nan y) && ((x =? y) || (flt_is_zero x && flt_is_zero y))
  | _, _ => false
  end.

(* ret[key] = threshold (an existing equal key is replaced, key included) *)
Definition map_put (m : list (gkey * Z)) (k : gkey) (t : Z) : list (gkey * Z) :=
  filter (fun e => negb (gkey_eq (fst e) k)) m ++ [(k, t)].

Definition conv_items (itab : list (jbytes * option Z)) (l : list item) : list (gkey * Z) :=
  fold_left (fun m it => match conv_key itab it with
                         | Some k => map_put m k (snd it)
                         | None => m             (* logged and skipped *)
                         end) l [].
