(* The JSON wire format of the five rule schemas (ext/datasource/helper.go *JsonArrayParser,
   hotspot_rule_converter.go HotspotRule/SpecificValue): an encoder and a decoder over a strict
   JSON subset — an array of objects whose members are strings, numbers or (hotspot's
   specificItems) an array of flat objects; compact, no whitespace, no escapes in strings.
   Numbers stay decimal literals: integer fields are Z printed canonically, float64 fields keep
   the literal (the literal <-> float64 conversion is strconv, an oracle outside the model).

   The decoder is schema driven: members may come in any order, unknown members are ignored,
   the first occurrence of a key wins, every schema key must be present.

   No proofs in this file. *)
From Coq Require Import Ascii DecimalString DecimalZ Decimal.
From SG Require Import Base.Prelude.

Definition jbytes := list ascii.
Definition B (s : string) : jbytes := list_ascii_of_string s.

Fixpoint la_eqb (a b : jbytes) : bool :=
  match a, b with
  | [], [] => true
  | x :: xs, y :: ys => Ascii.eqb x y && la_eqb xs ys
  | _, _ => false
  end.

(* ---- syntax trees ------------------------------------------------------------------------- *)

Inductive scalar := SNum (tok : jbytes) | SStr (s : jbytes).
Definition flat := list (jbytes * scalar).                       (* object with scalar members *)
Inductive value := VS (x : scalar) | VA (items : list flat).     (* scalar or array of flat objects *)
Definition obj := list (jbytes * value).
Definition doc := list obj.

(* ---- printer -------------------------------------------------------------------------------- *)

Definition q : ascii := """"%char.
Definition quote (s : jbytes) : jbytes := q :: s ++ [q].

Definition pr_scalar (x : scalar) : jbytes :=
  match x with SNum t => t | SStr s => quote s end.

Fixpoint pr_members {A} (pv : A -> jbytes) (l : list (jbytes * A)) : jbytes :=
  match l with
  | [] => []
  | [(k, v)] => quote k ++ ":"%char :: pv v
  | (k, v) :: r => quote k ++ ":"%char :: pv v ++ ","%char :: pr_members pv r
  end.

Fixpoint pr_elems {A} (pe : A -> jbytes) (l : list A) : jbytes :=
  match l with
  | [] => []
  | [x] => pe x
  | x :: r => pe x ++ ","%char :: pr_elems pe r
  end.

Definition pr_object {A} (pv : A -> jbytes) (l : list (jbytes * A)) : jbytes :=
  "{"%char :: pr_members pv l ++ ["}"%char].
Definition pr_array {A} (pe : A -> jbytes) (l : list A) : jbytes :=
  "["%char :: pr_elems pe l ++ ["]"%char].

Definition pr_value (v : value) : jbytes :=
  match v with VS x => pr_scalar x | VA items => pr_array (pr_object pr_scalar) items end.

Definition pr_doc (d : doc) : jbytes := pr_array (pr_object pr_value) d.

(* ---- lexer ------------------------------------------------------------------------------------ *)

Definition is_digit (c : ascii) : bool :=
  match c with
  | "0" | "1" | "2" | "3" | "4" | "5" | "6" | "7" | "8" | "9" => true
  | _ => false
  end%char.

Definition is_numchar (c : ascii) : bool :=
  is_digit c || match c with "-" | "+" | "." | "e" | "E" => true | _ => false end%char.

(* characters allowed inside a string of the subset: printable ASCII except the quote and the
   backslash (nothing needs escaping) *)
Definition is_strchar (c : ascii) : bool :=
  let n := nat_of_ascii c in
  (32 <=? n)%nat && (n <=? 126)%nat && negb (Ascii.eqb c q) && negb (Ascii.eqb c "\"%char).

(* after the opening quote: the content up to the closing quote *)
Fixpoint scan_str (s : jbytes) : option (jbytes * jbytes) :=
  match s with
  | [] => None
  | c :: r =>
      if Ascii.eqb c q then Some ([], r)
      else if is_strchar c then
        match scan_str r with Some (x, r') => Some (c :: x, r') | None => None end
      else None
  end.

Definition p_str (s : jbytes) : option (jbytes * jbytes) :=
  match s with
  | c :: r => if Ascii.eqb c q then scan_str r else None
  | [] => None
  end.

Fixpoint span_num (s : jbytes) : jbytes * jbytes :=
  match s with
  | c :: r => if is_numchar c then let '(t, r') := span_num r in (c :: t, r') else ([], s)
  | [] => ([], [])
  end.

Definition p_scalar (s : jbytes) : option (scalar * jbytes) :=
  match s with
  | c :: r =>
      if Ascii.eqb c q then
        match scan_str r with Some (x, r') => Some (SStr x, r') | None => None end
      else
        let '(t, r') := span_num s in
        match t with [] => None | _ => Some (SNum t, r') end
  | [] => None
  end.

(* the JSON number grammar: optional minus; 0 or a non-zero digit followed by digits; optional
   fraction (dot, one or more digits); optional exponent (e or E, optional sign, one or more digits) *)
Fixpoint skip_digits (s : jbytes) : nat * jbytes :=
  match s with
  | c :: r => if is_digit c then let '(n, r') := skip_digits r in (S n, r') else (O, s)
  | [] => (O, [])
  end.

Definition after_frac (r : jbytes) : bool :=
  match r with
  | [] => true
  | c :: r1 =>
      if Ascii.eqb c "e"%char || Ascii.eqb c "E"%char then
        let r2 := match r1 with
                  | s :: x => if Ascii.eqb s "+"%char || Ascii.eqb s "-"%char then x else r1
                  | [] => r1
                  end in
        let '(n, r3) := skip_digits r2 in
        (0 <? n)%nat && match r3 with [] => true | _ => false end
      else false
  end.

Definition after_int (r : jbytes) : bool :=
  match r with
  | c :: r1 =>
      if Ascii.eqb c "."%char then
        let '(n, r2) := skip_digits r1 in (0 <? n)%nat && after_frac r2
      else after_frac r
  | [] => true
  end.

Definition numlit_ok (s : jbytes) : bool :=
  let s1 := match s with c :: r => if Ascii.eqb c "-"%char then r else s | [] => s end in
  match s1 with
  | c :: r =>
      if Ascii.eqb c "0"%char then after_int r
      else if is_digit c then after_int (snd (skip_digits r))
      else false
  | [] => false
  end.

(* ---- parser (fuel = an upper bound on the number of members / elements) --------------------- *)

Definition parser (A : Type) := jbytes -> option (A * jbytes).

(* members after the opening brace, up to and including the closing brace (at least one) *)
Fixpoint p_members {A} (pv : parser A) (fuel : nat) (s : jbytes) : option (list (jbytes * A) * jbytes) :=
  match fuel with
  | O => None
  | S f =>
      match p_str s with
      | Some (k, c :: r) =>
          if Ascii.eqb c ":"%char then
            match pv r with
            | Some (v, d :: r2) =>
                if Ascii.eqb d ","%char then
                  match p_members pv f r2 with
                  | Some (l, r3) => Some ((k, v) :: l, r3)
                  | None => None
                  end
                else if Ascii.eqb d "}"%char then Some ([(k, v)], r2)
                else None
            | _ => None
            end
          else None
      | _ => None
      end
  end.

Definition p_object {A} (pv : parser A) (fuel : nat) : parser (list (jbytes * A)) :=
  fun s =>
    match s with
    | c :: r =>
        if Ascii.eqb c "{"%char then
          match r with
          | d :: r' => if Ascii.eqb d "}"%char then Some ([], r') else p_members pv fuel r
          | [] => None
          end
        else None
    | [] => None
    end.

Fixpoint p_elems {A} (pe : parser A) (fuel : nat) (s : jbytes) : option (list A * jbytes) :=
  match fuel with
  | O => None
  | S f =>
      match pe s with
      | Some (x, d :: r) =>
          if Ascii.eqb d ","%char then
            match p_elems pe f r with
            | Some (l, r2) => Some (x :: l, r2)
            | None => None
            end
          else if Ascii.eqb d "]"%char then Some ([x], r)
          else None
      | _ => None
      end
  end.

Definition p_array {A} (pe : parser A) (fuel : nat) : parser (list A) :=
  fun s =>
    match s with
    | c :: r =>
        if Ascii.eqb c "["%char then
          match r with
          | d :: r' => if Ascii.eqb d "]"%char then Some ([], r') else p_elems pe fuel r
          | [] => None
          end
        else None
    | [] => None
    end.

Definition p_value (fuel : nat) : parser value :=
  fun s =>
    match s with
    | c :: _ =>
        if Ascii.eqb c "["%char then
          match p_array (p_object p_scalar fuel) fuel s with
          | Some (items, r) => Some (VA items, r)
          | None => None
          end
        else
          match p_scalar s with Some (x, r) => Some (VS x, r) | None => None end
    | [] => None
    end.

Definition p_doc (fuel : nat) : parser doc := p_array (p_object (p_value fuel) fuel) fuel.

Definition parse (s : jbytes) : option doc :=
  match p_doc (length s) s with
  | Some (d, []) => Some d
  | _ => None
  end.

(* ---- schemas ---------------------------------------------------------------------------------- *)

Inductive ftype := TStr | TInt | TNum | TItems.

(* hotspot SpecificValue: valKind, valStr, threshold *)
Definition item := (Z * jbytes * Z)%type.

Inductive fval :=
| FStr (s : jbytes)
| FInt (z : Z)
| FNum (lit : jbytes)        (* a float64 field, kept as its decimal literal *)
| FItems (l : list item).

Definition schema := list (jbytes * ftype).
Definition wrule := list fval.       (* one value per schema field, in schema order *)

Definition print_int (z : Z) : jbytes := B (NilZero.string_of_int (Z.to_int z)).

(* canonical decimal integers only: what print_int prints *)
Definition parse_int (t : jbytes) : option Z :=
  match NilZero.int_of_string (string_of_list_ascii t) with
  | Some d => let z := Z.of_int d in if la_eqb (print_int z) t then Some z else None
  | None => None
  end.

Definition item_keys : list jbytes := [B "valKind"; B "valStr"; B "threshold"].

Definition enc_item (it : item) : flat :=
  let '(k, s, t) := it in
  [(B "valKind", SNum (print_int k)); (B "valStr", SStr s); (B "threshold", SNum (print_int t))].

Definition enc_val (v : fval) : value :=
  match v with
  | FStr s => VS (SStr s)
  | FInt z => VS (SNum (print_int z))
  | FNum lit => VS (SNum lit)
  | FItems l => VA (map enc_item l)
  end.

Fixpoint enc_rule (sch : schema) (r : wrule) : obj :=
  match sch, r with
  | (k, _) :: sch', v :: r' => (k, enc_val v) :: enc_rule sch' r'
  | _, _ => []
  end.

Definition encode (sch : schema) (l : list wrule) : jbytes := pr_doc (map (enc_rule sch) l).

Fixpoint lookup {A} (k : jbytes) (l : list (jbytes * A)) : option A :=
  match l with
  | [] => None
  | (k', v) :: r => if la_eqb k k' then Some v else lookup k r
  end.

Definition dec_item (f : flat) : option item :=
  match lookup (B "valKind") f, lookup (B "valStr") f, lookup (B "threshold") f with
  | Some (SNum a), Some (SStr s), Some (SNum b) =>
      match parse_int a, parse_int b with
      | Some k, Some t => Some (k, s, t)
      | _, _ => None
      end
  | _, _, _ => None
  end.

Fixpoint dec_items (l : list flat) : option (list item) :=
  match l with
  | [] => Some []
  | f :: r =>
      match dec_item f, dec_items r with
      | Some i, Some is => Some (i :: is)
      | _, _ => None
      end
  end.

Definition dec_val (ty : ftype) (v : value) : option fval :=
  match ty, v with
  | TStr, VS (SStr s) => Some (FStr s)
  | TInt, VS (SNum t) => match parse_int t with Some z => Some (FInt z) | None => None end
  | TNum, VS (SNum t) => if numlit_ok t then Some (FNum t) else None
  | TItems, VA items => match dec_items items with Some l => Some (FItems l) | None => None end
  | _, _ => None
  end.

Fixpoint dec_rule (sch : schema) (o : obj) : option wrule :=
  match sch with
  | [] => Some []
  | (k, ty) :: sch' =>
      match lookup k o with
      | Some v =>
          match dec_val ty v, dec_rule sch' o with
          | Some x, Some r => Some (x :: r)
          | _, _ => None
          end
      | None => None
      end
  end.

Fixpoint dec_rules (sch : schema) (d : doc) : option (list wrule) :=
  match d with
  | [] => Some []
  | o :: r =>
      match dec_rule sch o, dec_rules sch r with
      | Some x, Some l => Some (x :: l)
      | _, _ => None
      end
  end.

Inductive dres := Undecodable | Empty | Rules (l : list wrule).

Definition decode (sch : schema) (s : jbytes) : dres :=
  match s with
  | [] => Empty
  | _ =>
      match parse s with
      | Some d => match dec_rules sch d with Some l => Rules l | None => Undecodable end
      | None => Undecodable
      end
  end.

(* ---- the five wire schemas --------------------------------------------------------------------- *)

Definition flow_schema : schema :=
  [ (B "id", TStr); (B "resource", TStr); (B "tokenCalculateStrategy", TInt); (B "controlBehavior", TInt);
    (B "threshold", TNum); (B "relationStrategy", TInt); (B "refResource", TStr);
    (B "maxQueueingTimeMs", TInt); (B "warmUpPeriodSec", TInt); (B "warmUpColdFactor", TInt);
    (B "statIntervalInMs", TInt); (B "lowMemUsageThreshold", TInt); (B "highMemUsageThreshold", TInt);
    (B "memLowWaterMarkBytes", TInt); (B "memHighWaterMarkBytes", TInt) ].

Definition system_schema : schema :=
  [ (B "id", TStr); (B "metricType", TInt); (B "triggerCount", TNum); (B "strategy", TInt) ].

Definition breaker_schema : schema :=
  [ (B "id", TStr); (B "resource", TStr); (B "strategy", TInt); (B "retryTimeoutMs", TInt);
    (B "minRequestAmount", TInt); (B "statIntervalMs", TInt); (B "statSlidingWindowBucketCount", TInt);
    (B "maxAllowedRtMs", TInt); (B "threshold", TNum); (B "probeNum", TInt) ].

Definition hotspot_schema : schema :=
  [ (B "id", TStr); (B "resource", TStr); (B "metricType", TInt); (B "controlBehavior", TInt);
    (B "paramIndex", TInt); (B "threshold", TInt); (B "maxQueueingTimeMs", TInt); (B "burstCount", TInt);
    (B "durationInSec", TInt); (B "paramsMaxCapacity", TInt); (B "specificItems", TItems) ].

Definition isolation_schema : schema :=
  [ (B "id", TStr); (B "resource", TStr); (B "metricType", TInt); (B "threshold", TInt) ].

Definition schema_of (k : Z) : schema :=
  if k =? 0 then flow_schema else if k =? 1 then system_schema else if k =? 2 then breaker_schema
  else if k =? 3 then hotspot_schema else isolation_schema.

(* ---- well-formedness (what the round trip needs) ---------------------------------------------- *)

Definition str_ok (s : jbytes) : bool := forallb is_strchar s.
Definition lit_ok (t : jbytes) : bool := forallb is_numchar t && numlit_ok t.

Definition item_ok (it : item) : bool := let '(_, s, _) := it in str_ok s.

Definition val_ok (ty : ftype) (v : fval) : bool :=
  match ty, v with
  | TStr, FStr s => str_ok s
  | TInt, FInt _ => true
  | TNum, FNum t => lit_ok t
  | TItems, FItems l => forallb item_ok l
  | _, _ => false
  end.

Fixpoint rule_ok (sch : schema) (r : wrule) : bool :=
  match sch, r with
  | [], [] => true
  | (_, ty) :: sch', v :: r' => val_ok ty v && rule_ok sch' r'
  | _, _ => false
  end.

Fixpoint keys_distinct (ks : list jbytes) : bool :=
  match ks with
  | [] => true
  | k :: r => negb (existsb (la_eqb k) r) && keys_distinct r
  end.

Definition schema_ok (sch : schema) : bool :=
  match sch with [] => false | _ => true end &&
  forallb (fun kt => str_ok (fst kt)) sch && keys_distinct (map fst sch).
