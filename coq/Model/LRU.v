(* Model of core/hotspot/cache/lru.go + concurrent_lru.go (LruCacheMap over LRU).

   The Go cache is a doubly linked list (most recently used at the front) plus a hash map
   from key to list element.  The model is the list alone: a bounded association list,
   most recently used first.  Keys are integers: the harness maps every Go interface{} key
   (dynamic type, value) injectively to a key id.  Values are the *int64 cells the hotspot
   module stores; a cell is modelled by its current content, and a store through the pointer
   (atomic.StoreInt64 / AddInt64 / CompareAndSwapInt64) by [lru_set], which rewrites the
   content in place without touching the recency order - exactly what a store through a
   pointer held by the list element does.  No proofs in this file. *)
From SG Require Import Base.Prelude.

Section LRU.
Context {V : Type}.

Definition lru := list (Z * V).     (* front = most recently used *)

(* Keys >= NaNBase stand for NaN float arguments.  A NaN is not equal to any key, itself
   included: a Go map lookup never finds it and every insertion creates a new element (the
   harness gives each NaN occurrence an id of its own).  [lru_find] is the hash-map lookup
   `c.items[key]`. *)
Definition NaNBase : Z := 1000.
Definition lru_find (k : Z) (l : lru) : option V :=
  if NaNBase <=? k then None else alookup k l.

(* remove the (first) binding of k *)
Fixpoint lru_del (k : Z) (l : lru) : lru :=
  match l with
  | [] => []
  | (k', v) :: r => if k =? k' then r else (k', v) :: lru_del k r
  end.

(* `evict := c.evictList.Len() > c.size; if evict { c.removeOldest() }` after a PushFront *)
Definition lru_trim (cap : Z) (l : lru) : lru :=
  if cap <? Z.of_nat (length l) then removelast l else l.

(* LRU.AddIfAbsent: present -> MoveToFront, return the prior value (the stored value is kept);
   absent -> PushFront, evict the oldest element if the size is exceeded, return nil *)
Definition lru_add_if_absent (cap : Z) (k : Z) (v : V) (l : lru) : lru * option V :=
  match lru_find k l with
  | Some old => ((k, old) :: lru_del k l, Some old)
  | None => (lru_trim cap ((k, v) :: l), None)
  end.

(* LRU.Get: present -> MoveToFront, return the value; absent -> nothing changes *)
Definition lru_get (k : Z) (l : lru) : lru * option V :=
  match lru_find k l with
  | Some old => ((k, old) :: lru_del k l, Some old)
  | None => (l, None)
  end.

(* LRU.Add: present -> MoveToFront and overwrite; absent -> PushFront + evict *)
Definition lru_add (cap : Z) (k : Z) (v : V) (l : lru) : lru :=
  match lru_find k l with
  | Some _ => (k, v) :: lru_del k l
  | None => lru_trim cap ((k, v) :: l)
  end.

(* a store through the *int64 held by the element of k (no effect on the order; no effect
   at all if the element has been evicted - the pointer then refers to an unreachable cell) *)
Fixpoint lru_set (k : Z) (v : V) (l : lru) : lru :=
  match l with
  | [] => []
  | (k', v') :: r => if k =? k' then (k, v) :: r else (k', v') :: lru_set k v r
  end.

Definition lru_keys (l : lru) : list Z := map fst l.

(* ---- operations as data, for the refinement statement ------------------------------ *)

Inductive lru_op :=
| OpAddIfAbsent (k : Z) (v : V)
| OpGet (k : Z)
| OpAdd (k : Z) (v : V)
| OpSet (k : Z) (v : V).

Definition op_key (o : lru_op) : Z :=
  match o with OpAddIfAbsent k _ | OpGet k | OpAdd k _ | OpSet k _ => k end.

Definition lru_step (cap : Z) (l : lru) (o : lru_op) : lru * option V :=
  match o with
  | OpAddIfAbsent k v => lru_add_if_absent cap k v l
  | OpGet k => lru_get k l
  | OpAdd k v => (lru_add cap k v l, None)
  | OpSet k v => (lru_set k v l, None)
  end.

Fixpoint lru_run (cap : Z) (l : lru) (ops : list lru_op) : lru * list (option V) :=
  match ops with
  | [] => (l, [])
  | o :: r => let '(l1, x) := lru_step cap l o in
              let '(l2, xs) := lru_run cap l1 r in (l2, x :: xs)
  end.

(* ---- the specification: an unbounded total map (no order, no eviction) ------------- *)

Definition tmap := Z -> option V.
Definition tm_empty : tmap := fun _ => None.
Definition tm_upd (m : tmap) (k : Z) (v : V) : tmap := fun k' => if k' =? k then Some v else m k'.

Definition map_step (m : tmap) (o : lru_op) : tmap * option V :=
  match o with
  | OpAddIfAbsent k v => match m k with Some old => (m, Some old) | None => (tm_upd m k v, None) end
  | OpGet k => (m, m k)
  | OpAdd k v => (tm_upd m k v, None)
  | OpSet k v => match m k with Some _ => (tm_upd m k v, None) | None => (m, None) end
  end.

Fixpoint map_run (m : tmap) (ops : list lru_op) : tmap * list (option V) :=
  match ops with
  | [] => (m, [])
  | o :: r => let '(m1, x) := map_step m o in
              let '(m2, xs) := map_run m1 r in (m2, x :: xs)
  end.

(* recency order of the keys: the key just touched goes to the front *)
Fixpoint keys_del (k : Z) (ks : list Z) : list Z :=
  match ks with
  | [] => []
  | k' :: r => if k =? k' then r else k' :: keys_del k r
  end.

Definition touch (k : Z) (ks : list Z) : list Z := k :: keys_del k ks.

End LRU.
Arguments lru : clear implicits.
Arguments lru_op : clear implicits.
Arguments tmap : clear implicits.
