(* Model of ext/datasource/property.go (DefaultPropertyHandler.Handle), the *RulesUpdater
   functions of ext/datasource/helper.go, and the event loop of
   ext/datasource/file/refreshable_file.go.

   The converter (the *JsonArrayParser, i.e. encoding/json) and the loader (the rule manager the
   updater calls) are Section variables: everything here is defined, and everything in
   Proofs/DatasourceProofs.v is proved, for an arbitrary converter and an arbitrary loader.

   No proofs in this file. *)
From SG Require Import Base.Prelude.

Section Handler.

  Variable bytes : Type.   (* payload handed to Handle(src []byte) *)
  Variable prop  : Type.   (* a non-nil converted property (interface{} holding e.g. []*flow.Rule) *)
  Variable rule  : Type.   (* a rule value *)
  Variable mgr   : Type.   (* state of the downstream rule manager *)

  (* what the converter does with a payload *)
  Inductive conv :=
  | CPanic                 (* the converter panics *)
  | CErr                   (* (nil, err)  : undecodable *)
  | CNil                   (* (nil, nil)  : empty payload *)
  | CVal (p : prop).       (* (p, nil)    : decoded *)

  (* what a load / clear of the rule manager does *)
  Inductive lres := LOk | LErr | LPanic.

  Variable convert : bytes -> conv.                         (* h.converter *)
  Variable peq     : prop -> prop -> bool.                  (* reflect.DeepEqual on two non-nil properties *)
  Variable typed   : prop -> option (list (option rule)).   (* the updater's type switch: the rule list
                                                               (None element = nil pointer), or None when the
                                                               dynamic type is not the updater's *)
  Variable load    : list (option rule) -> mgr -> mgr * lres.   (* module.LoadRules *)
  Variable clear   : mgr -> mgr * lres.                         (* module.ClearRules *)

  (* Handle's return value / how the body of Handle ends before the deferred recover *)
  Inductive ret := RNil | RErr.
  Inductive outcome := Returned (r : ret) | Panicked.

  (* handler state = lastUpdateProperty (None = nil interface) paired with the manager *)
  Definition state := (option prop * mgr)%type.
  Definition last_of (s : state) : option prop := fst s.
  Definition mgr_of (s : state) : mgr := snd s.

  (* reflect.DeepEqual(src, h.lastUpdateProperty) on two interface{} values *)
  Definition consistent (src lastp : option prop) : bool :=
    match src, lastp with
    | None, None => true
    | Some a, Some b => peq a b
    | _, _ => false
    end.

  (* helper.go XxxRulesUpdater: nil -> ClearRules; type switch; LoadRules; error wrapping *)
  Definition updater (data : option prop) (m : mgr) : mgr * lres :=
    match data with
    | None => clear m
    | Some p =>
        match typed p with
        | None => (m, LErr)             (* UpdatePropertyError: type assertion failed *)
        | Some l => load l m
        end
    end.

  (* property.go Handle, body.  isPropertyConsistent stores the new property before the updater
     runs; the deferred restore puts the previous one back unless the updater returned nil. *)
  Definition handle_body (s : state) (src : bytes) : state * outcome :=
    let '(lastp, m) := s in
    let continue (real : option prop) :=
      if consistent real lastp then (s, Returned RNil)
      else
        (* h.lastUpdateProperty = real (inside isPropertyConsistent) *)
        let '(m', r) := updater real m in
        match r with
        | LOk    => ((real, m'), Returned RNil)
        | LErr   => ((lastp, m'), Returned RErr)    (* deferred: !updated -> restore *)
        | LPanic => ((lastp, m'), Panicked)         (* deferred: !updated -> restore; panic continues *)
        end in
    match convert src with
    | CPanic => (s, Panicked)
    | CErr   => (s, Returned RErr)
    | CNil   => continue None
    | CVal p => continue (Some p)
    end.

  (* the first deferred function: recover() turns a panic into a normal return of the zero
     value of the (unnamed) result, i.e. nil *)
  Definition recovered (o : outcome) : outcome :=
    match o with Panicked => Returned RNil | Returned r => Returned r end.

  Definition handle (s : state) (src : bytes) : state * outcome :=
    let '(s', o) := handle_body s src in (s', recovered o).

  Definition ret_of (o : outcome) : option ret :=
    match o with Returned r => Some r | Panicked => None end.

  (* a sequence of deliveries *)
  Fixpoint run (s : state) (ps : list bytes) : state * list outcome :=
    match ps with
    | [] => (s, [])
    | p :: rest =>
        let '(s1, o) := handle s p in
        let '(s2, os) := run s1 rest in
        (s2, o :: os)
    end.

  (* ---- specification vocabulary ------------------------------------------------------- *)

  Variable valid    : rule -> bool.             (* the module's rule validity (C13) *)
  Variable in_force : mgr -> list rule.         (* what the module's GetRules reports, canonicalised *)
  Variable canon    : list rule -> list rule.   (* the canonical form used by in_force (sorting) *)

  (* non-nil elements, in order *)
  Fixpoint somes (l : list (option rule)) : list rule :=
    match l with
    | [] => []
    | Some r :: t => r :: somes t
    | None :: t => somes t
    end.

  (* "that list's valid rules" *)
  Definition valid_of (l : list (option rule)) : list rule := filter valid (somes l).

  (* handler and manager agree: what the handler remembers is what is in force *)
  Definition Sync (s : state) : Prop :=
    match last_of s with
    | None => in_force (mgr_of s) = canon []
    | Some p => exists l, typed p = Some l /\ in_force (mgr_of s) = canon (valid_of l)
    end.

  (* ---- the file datasource (refreshable_file.go) -------------------------------------- *)

  Variable empty_payload : bytes.     (* Handle(nil) *)

  Inductive fmode := Watching | Closed.

  (* events delivered by the watcher *)
  Inductive fevent :=
  | EvWrite      (* Write / Create / Chmod on the watched path *)
  | EvRename     (* fsnotify.Rename *)
  | EvRemove.    (* fsnotify.Remove *)

  (* what happens in the world *)
  Inductive fop :=
  | FsWrite (c : bytes)     (* the file content becomes c (write, truncate, append ...) *)
  | FsRenameAway            (* the watched file is renamed to another path *)
  | FsRecreate (c : bytes)  (* a new file with content c appears at the watched path *)
  | FsRemove                (* the watched file is deleted *)
  | Process.                (* the watcher goroutine takes the next pending event *)

  Record fstate := {
    f_file    : option bytes;     (* content at the watched path, None = no such file *)
    f_queue   : list fevent;      (* events produced and not yet processed, oldest first *)
    f_mode    : fmode;
    f_hs      : state;            (* handler + manager *)
    f_hist    : list bytes        (* ghost: payloads handed to Handle so far, oldest first *)
  }.

  Definition deliver (st : fstate) (p : bytes) : fstate :=
    {| f_file := f_file st; f_queue := f_queue st; f_mode := f_mode st;
       f_hs := fst (handle (f_hs st) p); f_hist := f_hist st ++ [p] |}.

  (* doReadAndUpdate: ReadSource fails when the file does not exist (error logged) *)
  Definition read_and_update (st : fstate) : fstate :=
    match f_file st with
    | Some c => deliver st c
    | None => st
    end.

  Definition set_mode (st : fstate) (m : fmode) : fstate :=
    {| f_file := f_file st; f_queue := f_queue st; f_mode := m; f_hs := f_hs st; f_hist := f_hist st |}.

  Definition set_queue (st : fstate) (q : list fevent) : fstate :=
    {| f_file := f_file st; f_queue := q; f_mode := f_mode st; f_hs := f_hs st; f_hist := f_hist st |}.

  Definition set_file (st : fstate) (f : option bytes) : fstate :=
    {| f_file := f; f_queue := f_queue st; f_mode := f_mode st; f_hs := f_hs st; f_hist := f_hist st |}.

  (* one iteration of the goroutine's select loop on an event *)
  Definition process_event (st : fstate) (e : fevent) : fstate :=
    match e with
    | EvWrite => read_and_update st
    | EvRename =>
        let st1 := deliver st empty_payload in          (* s.Handle(nil) *)
        match f_file st1 with
        | Some _ => read_and_update st1                 (* watcher.Add succeeded; falls through *)
        | None => set_mode st1 Closed                   (* retries exhausted -> s.Close() *)
        end
    | EvRemove =>
        set_mode (deliver st empty_payload) Closed      (* s.Handle(nil); s.Close(); return *)
    end.

  Definition enqueue (st : fstate) (e : fevent) : fstate :=
    match f_mode st with
    | Watching => set_queue st (f_queue st ++ [e])
    | Closed => st                                       (* nobody is watching any more *)
    end.

  Definition fstep (st : fstate) (o : fop) : fstate :=
    match o with
    | FsWrite c =>
        match f_file st with
        | Some _ => enqueue (set_file st (Some c)) EvWrite
        | None => st                                     (* no such file: nothing to write to *)
        end
    | FsRenameAway =>
        match f_file st with
        | Some _ => enqueue (set_file st None) EvRename
        | None => st
        end
    | FsRecreate c =>
        match f_file st with
        | None => set_file st (Some c)                   (* a different inode: no event on the old watch *)
        | Some _ => st
        end
    | FsRemove =>
        match f_file st with
        | Some _ => enqueue (set_file st None) EvRemove
        | None => st
        end
    | Process =>
        match f_mode st, f_queue st with
        | Watching, e :: q => process_event (set_queue st q) e
        | _, _ => st
        end
    end.

  (* Initialize(): doReadAndUpdate, then start watching (the file must exist for watcher.Add) *)
  Definition finit (s0 : state) (file : bytes) : fstate :=
    read_and_update {| f_file := Some file; f_queue := []; f_mode := Watching; f_hs := s0; f_hist := [] |}.

  Definition frun (st : fstate) (os : list fop) : fstate := fold_left fstep os st.

End Handler.

Arguments CPanic {prop}.
Arguments CErr {prop}.
Arguments CNil {prop}.
Arguments CVal {prop} p.

Arguments consistent {prop} peq src lastp.
Arguments updater {prop rule mgr} typed load clear data m.
Arguments handle_body {bytes prop rule mgr} convert peq typed load clear s src.
Arguments handle {bytes prop rule mgr} convert peq typed load clear s src.
Arguments run {bytes prop rule mgr} convert peq typed load clear s ps.
Arguments last_of {prop mgr} s.
Arguments mgr_of {prop mgr} s.
Arguments somes {rule} l.
Arguments valid_of {rule} valid l.
Arguments Sync {prop rule mgr} typed valid in_force canon s.
Arguments FsWrite {bytes} c.
Arguments FsRenameAway {bytes}.
Arguments FsRecreate {bytes} c.
Arguments FsRemove {bytes}.
Arguments Process {bytes}.
Arguments f_file {bytes prop mgr} f.
Arguments f_queue {bytes prop mgr} f.
Arguments f_mode {bytes prop mgr} f.
Arguments f_hs {bytes prop mgr} f.
Arguments f_hist {bytes prop mgr} f.
Arguments deliver {bytes prop rule mgr} convert peq typed load clear st p.
Arguments read_and_update {bytes prop rule mgr} convert peq typed load clear st.
Arguments process_event {bytes prop rule mgr} convert peq typed load clear empty_payload st e.
Arguments enqueue {bytes prop mgr} st e.
Arguments set_mode {bytes prop mgr} st m.
Arguments set_queue {bytes prop mgr} st q.
Arguments set_file {bytes prop mgr} st f.
Arguments fstep {bytes prop rule mgr} convert peq typed load clear empty_payload st o.
Arguments finit {bytes prop rule mgr} convert peq typed load clear s0 file.
Arguments frun {bytes prop rule mgr} convert peq typed load clear empty_payload st os.
