(* Model of core/stat/base: LeapArray / BucketLeapArray / MetricBucket / SlidingWindowMetric
   and core/stat.BaseStatNode, sequential semantics.

   The array is generic in the bucket payload: a commutative "merge" [op] with a reset value
   [e] (e ⊕ e = e).  The real payload (MetricBucket: five int64 counters summed, minRt merged
   by min from DefaultStatisticMaxRt, maxConcurrency merged by max from 0) is the product
   instance [MB] below, so one model — and one theorem — covers sums, minima and maxima. *)
From SG Require Import Base.Prelude Base.GoInt.

Section Generic.
Context {M : Type}.
Variable op : M -> M -> M.
Variable e : M.

(* calculateStartTime / calculateTimeIdx *)
Definition bstart (bl t : Z) : Z := t - t mod bl.
Definition tidx (n bl t : Z) : Z := (t / bl) mod n.

Definition gslot : Type := (Z * M)%type.      (* BucketStart, payload *)

(* NewAtomicBucketWrapArrayWithTime: slot idx(now) starts at bstart(now); following slots
   (cyclically) are future-dated by one bucket length each *)
Definition g_layout (n bl now : Z) : list gslot :=
  map (fun i => (bstart bl now + ((Z.of_nat i - tidx n bl now) mod n) * bl, e)) (seq 0 (Z.to_nat n)).

Definition slot_at (l : list gslot) (i : Z) : gslot := nth (Z.to_nat i) l (0, e).

(* currentBucketOfTime: Some l' = the (possibly reset) array, the current bucket is slot
   tidx(now); None = error ("time is behind", or now <= 0) *)
Definition g_current (n bl : Z) (l : list gslot) (now : Z) : option (list gslot) :=
  if now <=? 0 then None else
  let i := tidx n bl now in
  let b := bstart bl now in
  let s := slot_at l i in
  if b =? fst s then Some l
  else if fst s <? b then Some (upd_nth (Z.to_nat i) (fun _ => (b, e)) l)
  else if n =? 1 then Some l
  else None.

(* addCountWithTime / updateConcurrencyWithTime: merge [amt] into the current bucket *)
Definition g_add (n bl : Z) (l : list gslot) (now : Z) (amt : M) : list gslot :=
  match g_current n bl l now with
  | Some l' => upd_nth (Z.to_nat (tidx n bl now)) (fun s => (fst s, op (snd s) amt)) l'
  | None => l
  end.

(* isBucketDeprecated, with the unsigned subtraction the code performs *)
Definition g_deprecated (n bl now ws : Z) : bool := n * bl <=? u64 (now - ws).

(* valuesWithTime *)
Definition g_values (n bl : Z) (l : list gslot) (now : Z) : list gslot :=
  if now <=? 0 then [] else filter (fun s => negb (g_deprecated n bl now (fst s))) l.

(* ValuesConditional *)
Definition g_values_cond (n bl : Z) (l : list gslot) (now : Z) (pred : Z -> bool) : list gslot :=
  if now <=? 0 then [] else filter (fun s => negb (g_deprecated n bl now (fst s)) && pred (fst s)) l.

Definition g_merge (ss : list gslot) : M := fold_right (fun s acc => op (snd s) acc) e ss.

(* BucketLeapArray.CountWithTime / Values(now) / MinRt / MaxConcurrency: refresh the current
   bucket (ignoring an error), then read all valid buckets *)
Definition g_refresh (n bl : Z) (l : list gslot) (now : Z) : list gslot :=
  match g_current n bl l now with Some l' => l' | None => l end.

Definition g_read (n bl : Z) (l : list gslot) (now : Z) : list gslot * M :=
  let l' := g_refresh n bl l now in (l', g_merge (g_values n bl l' now)).

(* SlidingWindowMetric.getBucketStartRange (saturating at 0) and getSatisfiedBuckets *)
Definition v_range (bl vitv now : Z) : Z * Z :=
  let en := bstart bl now in
  let wend := u64 (en + bl) in
  ((if vitv <? wend then wend - vitv else 0), en).

Definition v_satisfied (n bl : Z) (l : list gslot) (vitv now : Z) : list gslot :=
  let '(st, en) := v_range bl vitv now in
  g_values_cond n bl l now (fun ws => (st <=? ws) && (ws <=? en)).

Definition v_read (n bl : Z) (l : list gslot) (vitv now : Z) : M := g_merge (v_satisfied n bl l vitv now).

(* ---- specification: the multiset of recorded events ---- *)
Definition gev : Type := (Z * M)%type.          (* timestamp, amount *)

Fixpoint g_run (n bl : Z) (l : list gslot) (h : list gev) : list gslot :=
  match h with [] => l | (t, a) :: r => g_run n bl (g_add n bl l t a) r end.

(* merge of all amounts with lo <= t < hi *)
Fixpoint ref (h : list gev) (lo hi : Z) : M :=
  match h with
  | [] => e
  | (t, a) :: r => if (lo <=? t) && (t <? hi) then op a (ref r lo hi) else ref r lo hi
  end.

Fixpoint mono (tl : Z) (h : list gev) : Prop :=
  match h with [] => True | (t, _) :: r => tl <= t /\ mono t r end.
Fixpoint last_t (tl : Z) (h : list gev) : Z :=
  match h with [] => tl | (t, _) :: r => last_t t r end.

End Generic.

(* ---- the real payload ------------------------------------------------------------- *)

Definition DefaultStatisticMaxRt : Z := 60000.

Record mb := { c_pass : Z; c_block : Z; c_complete : Z; c_error : Z; c_rt : Z; m_minrt : Z; m_maxc : Z }.

Definition mb_e : mb := {| c_pass := 0; c_block := 0; c_complete := 0; c_error := 0; c_rt := 0;
                           m_minrt := DefaultStatisticMaxRt; m_maxc := 0 |}.

Definition mb_op (x y : mb) : mb :=
  {| c_pass := c_pass x + c_pass y; c_block := c_block x + c_block y;
     c_complete := c_complete x + c_complete y; c_error := c_error x + c_error y;
     c_rt := c_rt x + c_rt y; m_minrt := Z.min (m_minrt x) (m_minrt y);
     m_maxc := Z.max (m_maxc x) (m_maxc y) |}.

(* MetricEvent numbering of core/base/stat.go *)
Definition EvPass := 0. Definition EvBlock := 1. Definition EvComplete := 2.
Definition EvError := 3. Definition EvRt := 4.

(* the amount MetricBucket.Add(event, count) merges in; AddRt also lowers minRt *)
Definition mb_amount (ev c : Z) : mb :=
  if ev =? EvPass then {| c_pass := c; c_block := 0; c_complete := 0; c_error := 0; c_rt := 0; m_minrt := DefaultStatisticMaxRt; m_maxc := 0 |}
  else if ev =? EvBlock then {| c_pass := 0; c_block := c; c_complete := 0; c_error := 0; c_rt := 0; m_minrt := DefaultStatisticMaxRt; m_maxc := 0 |}
  else if ev =? EvComplete then {| c_pass := 0; c_block := 0; c_complete := c; c_error := 0; c_rt := 0; m_minrt := DefaultStatisticMaxRt; m_maxc := 0 |}
  else if ev =? EvError then {| c_pass := 0; c_block := 0; c_complete := 0; c_error := c; c_rt := 0; m_minrt := DefaultStatisticMaxRt; m_maxc := 0 |}
  else if ev =? EvRt then {| c_pass := 0; c_block := 0; c_complete := 0; c_error := 0; c_rt := c; m_minrt := Z.min c DefaultStatisticMaxRt; m_maxc := 0 |}
  else mb_e.   (* unknown event: logged and ignored *)

(* MetricBucket.UpdateConcurrency(cc) *)
Definition mb_conc (cc : Z) : mb :=
  {| c_pass := 0; c_block := 0; c_complete := 0; c_error := 0; c_rt := 0; m_minrt := DefaultStatisticMaxRt; m_maxc := Z.max cc 0 |}.

Definition mb_get (ev : Z) (x : mb) : Z :=
  if ev =? EvPass then c_pass x else if ev =? EvBlock then c_block x
  else if ev =? EvComplete then c_complete x else if ev =? EvError then c_error x
  else if ev =? EvRt then c_rt x else 0.

(* BucketLeapArray *)
Record bla := { la_n : Z; la_bl : Z; la_slots : list (Z * mb) }.
Definition la_itv (a : bla) : Z := la_n a * la_bl a.

Definition bla_new (n itv now : Z) : bla :=
  let bl := itv / n in {| la_n := n; la_bl := bl; la_slots := g_layout mb_e n bl now |}.

Definition bla_with (a : bla) (l : list (Z * mb)) : bla := {| la_n := la_n a; la_bl := la_bl a; la_slots := l |}.

Definition bla_add (a : bla) (now ev c : Z) : bla :=
  bla_with a (g_add mb_op mb_e (la_n a) (la_bl a) (la_slots a) now (mb_amount ev c)).
Definition bla_update_conc (a : bla) (now cc : Z) : bla :=
  bla_with a (g_add mb_op mb_e (la_n a) (la_bl a) (la_slots a) now (mb_conc cc)).

(* CountWithTime(now, ev); MinRt(); MaxConcurrency() — each refreshes the current bucket *)
Definition bla_read (a : bla) (now : Z) : bla * mb :=
  let '(l, m) := g_read mb_op mb_e (la_n a) (la_bl a) (la_slots a) now in (bla_with a l, m).

(* SlidingWindowMetric over a BucketLeapArray *)
Record view := { v_n : Z; v_itv : Z }.
Definition v_bl (v : view) : Z := v_itv v / v_n v.

(* CheckValidityForReuseStatistic *)
Definition check_reuse (vn vitv pn pitv : Z) : bool :=
  negb ((vitv =? 0) || (vn =? 0) || negb (vitv mod vn =? 0)) &&
  negb ((pitv =? 0) || (pn =? 0) || negb (pitv mod pn =? 0)) &&
  (pitv mod vitv =? 0) && ((vitv / vn) mod (pitv / pn) =? 0).

Definition view_buckets (a : bla) (v : view) (now : Z) : list (Z * mb) :=
  v_satisfied (la_n a) (la_bl a) (la_slots a) (v_itv v) now.

Definition view_merge (a : bla) (v : view) (now : Z) : mb :=
  v_read mb_op mb_e (la_n a) (la_bl a) (la_slots a) (v_itv v) now.

Definition view_sum (a : bla) (v : view) (now ev : Z) : Z := mb_get ev (view_merge a v now).

(* GetMaxOfSingleBucket *)
Definition view_max_single (a : bla) (v : view) (now ev : Z) : Z :=
  fold_right (fun s acc => Z.max (mb_get ev (snd s)) acc) 0 (view_buckets a v now).

(* MinRT(): minimum over the window, clamped below at 1 *)
Definition view_min_rt (a : bla) (v : view) (now : Z) : Z :=
  let m := m_minrt (view_merge a v now) in if m <? 1 then 1 else m.

Definition view_max_conc (a : bla) (v : view) (now : Z) : Z := m_maxc (view_merge a v now).

(* SecondMetricsOnCondition: the buckets selected (not expired, predicate on the start), and
   their aggregation by second. A Go map groups them; we return items sorted by timestamp. *)
Record mitem := { it_ts : Z; it_pass : Z; it_block : Z; it_complete : Z; it_error : Z; it_avgrt : Z; it_conc : Z }.

Definition sec_of (st : Z) : Z := st - st mod 1000.

Fixpoint insert_sec (s : Z * mb) (acc : list (Z * mb * Z)) : list (Z * mb * Z) :=
  (* acc: (second, merged payload, max concurrency as uint32 max) sorted by second *)
  match acc with
  | [] => [(sec_of (fst s), snd s, m_maxc (snd s))]
  | (sec, m, mc) :: r =>
      if sec_of (fst s) =? sec then (sec, mb_op m (snd s), Z.max mc (m_maxc (snd s))) :: r
      else if sec_of (fst s) <? sec then (sec_of (fst s), snd s, m_maxc (snd s)) :: acc
      else (sec, m, mc) :: insert_sec s r
  end.

Definition item_of (x : Z * mb * Z) : mitem :=
  let '(sec, m, mc) := x in
  {| it_ts := sec; it_pass := u64 (c_pass m); it_block := u64 (c_block m); it_complete := u64 (c_complete m);
     it_error := u64 (c_error m);
     it_avgrt := if 0 <? u64 (c_complete m) then u64 (c_rt m) / u64 (c_complete m) else u64 (c_rt m);
     it_conc := u32 mc |}.

Definition second_metrics (a : bla) (now : Z) (pred : Z -> bool) : list mitem :=
  map item_of (fold_right insert_sec [] (g_values_cond (la_n a) (la_bl a) (la_slots a) now pred)).
