(* A concrete instance of Model/Datasource.v used by the correspondence runner and by the
   non-vacuity examples: rules are integer ids, the converter is a table (the classification the
   harness obtained from the real parser), the manager keeps the canonical list of rules in
   force, an "injected fault" flag (the loader fails while it is set) and a call counter.

   No proofs in this file. *)
From SG Require Import Base.Prelude Model.Datasource.

(* classification of a payload by the real *JsonArrayParser *)
Inductive cls :=
| KErr                                        (* (nil, err) *)
| KNil                                        (* (nil, nil) *)
| KVal (isnil : bool) (l : list (option Z))   (* ([]*Rule, nil): nil slice?, element ids (None = nil pointer) *)
| KPanic.                                     (* the parser panicked *)

Definition rprop := (bool * list (option Z))%type.

Definition oz_eqb (a b : option Z) : bool :=
  match a, b with
  | None, None => true
  | Some x, Some y => x =? y
  | _, _ => false
  end.

Fixpoint ozl_eqb (a b : list (option Z)) : bool :=
  match a, b with
  | [], [] => true
  | x :: xs, y :: ys => oz_eqb x y && ozl_eqb xs ys
  | _, _ => false
  end.

(* reflect.DeepEqual on two decoded slices: both nil or both non-nil, element-wise deep equal *)
Definition rpeq (p q : rprop) : bool := Bool.eqb (fst p) (fst q) && ozl_eqb (snd p) (snd q).

Definition rtyped (wrong_updater : bool) (p : rprop) : option (list (option Z)) :=
  if wrong_updater then None else Some (snd p).

Definition rconvert (tab : list (Z * cls)) (pid : Z) : conv rprop :=
  match alookup pid tab with
  | Some KErr => CErr
  | Some KNil => CNil
  | Some (KVal n l) => CVal (n, l)
  | Some KPanic => CPanic
  | None => CErr
  end.

(* insertion sort: the canonical form of a list of rule ids *)
Fixpoint zinsert (x : Z) (l : list Z) : list Z :=
  match l with
  | [] => [x]
  | y :: t => if x <=? y then x :: l else y :: zinsert x t
  end.
Definition zsort (l : list Z) : list Z := fold_right zinsert [] l.

Record rmgr := { m_rules : list Z; m_fault : bool; m_calls : Z }.

Definition zmem (x : Z) (l : list Z) : bool := existsb (Z.eqb x) l.

Definition rvalid (validtab : list Z) (r : Z) : bool := zmem r validtab.

(* LoadRules: while the injected fault is armed the load fails and changes nothing; otherwise
   exactly the valid non-nil rules are in force *)
Definition rload (validtab : list Z) (l : list (option Z)) (m : rmgr) : rmgr * lres :=
  if m_fault m then ({| m_rules := m_rules m; m_fault := true; m_calls := m_calls m + 1 |}, LErr)
  else ({| m_rules := zsort (valid_of (rvalid validtab) l); m_fault := false; m_calls := m_calls m + 1 |}, LOk).

Definition rclear (m : rmgr) : rmgr * lres :=
  ({| m_rules := []; m_fault := m_fault m; m_calls := m_calls m + 1 |}, LOk).

Definition rstate := state rprop rmgr.
Definition rinit : rstate := (None, {| m_rules := []; m_fault := false; m_calls := 0 |}).

Definition rhandle (tab : list (Z * cls)) (validtab : list Z) (wrong : bool) : rstate -> Z -> rstate * outcome :=
  handle (rconvert tab) rpeq (rtyped wrong) (rload validtab) rclear.

Definition rrun (tab : list (Z * cls)) (validtab : list Z) (wrong : bool) : rstate -> list Z -> rstate * list outcome :=
  run (rconvert tab) rpeq (rtyped wrong) (rload validtab) rclear.

Definition set_fault (s : rstate) (f : bool) : rstate :=
  (fst s, {| m_rules := m_rules (snd s); m_fault := f; m_calls := m_calls (snd s) |}).
