(* Memory-adaptive token calculator: core/flow/tc_adaptive.go CalculateAllowedTokens,
   transcribed with IEEE doubles (PrimFloat); and its exact-rational twin.  No proofs here. *)
From Coq Require Import Floats.
From SG Require Import Base.Prelude Base.GoInt Base.GoFloat.
#[local] Open Scope Z_scope.

Record mcfg := { lowT : Z;    (* LowMemUsageThreshold  (int64) *)
                 highT : Z;   (* HighMemUsageThreshold (int64) *)
                 lowW : Z;    (* MemLowWaterMarkBytes  (int64) *)
                 highW : Z }. (* MemHighWaterMarkBytes (int64) *)

(* IsValidRule for TokenCalculateStrategy = MemoryAdaptive (total is the machine's memory size) *)
Definition mvalid (total : Z) (m : mcfg) : bool :=
  (0 <? lowT m) && (0 <? highT m) && (highT m <? lowT m) &&
  (0 <? lowW m) && (0 <? highW m) && (highW m <=? total) && (lowW m <? highW m).

Definition not_retrieved : Z := -1.

(* the interpolation branch, for lowW < mem < highW *)
Definition mem_interp (m : mcfg) (mem : Z) : float :=
  (f_of_i64 (i64 (highT m - lowT m)) / f_of_i64 (i64 (highW m - lowW m)) * f_of_i64 (i64 (mem - lowW m))
   + f_of_i64 (lowT m))%float.

Definition mem_allowed (m : mcfg) (mem : Z) : float :=
  if mem =? not_retrieved then f_of_i64 (lowT m)
  else if mem <=? lowW m then f_of_i64 (lowT m)
  else if mem >=? highW m then f_of_i64 (highT m)
  else mem_interp m mem.

(* exact-rational twin: the effective threshold as a fraction num/den with den > 0 *)
Definition mem_twin (m : mcfg) (mem : Z) : Z * Z :=
  if mem =? not_retrieved then (lowT m, 1)
  else if mem <=? lowW m then (lowT m, 1)
  else if mem >=? highW m then (highT m, 1)
  else ((highT m - lowT m) * (mem - lowW m) + lowT m * (highW m - lowW m), highW m - lowW m).

(* a finite float as an exact fraction (num, den); None for NaN / Inf *)
Definition f_frac (f : float) : option (Z * Z) :=
  match Prim2SF f with
  | S754_zero _ => Some (0, 1)
  | S754_finite s m e =>
      let v := if s then - Zpos m else Zpos m in
      Some (if 0 <=? e then (v * 2 ^ e, 1) else (v, 2 ^ (- e)))
  | _ => None
  end.

(* |f - n/d| <= (sn/sd) * 2^-k, for d, sd > 0 *)
Definition close_to (k : Z) (f : float) (nd scale : Z * Z) : bool :=
  match f_frac f with
  | Some (a, b) => let '(n, d) := nd in let '(sn, sd) := scale in
                   Z.abs (a * d - n * b) * 2 ^ k * sd <=? sn * b * d
  | None => false
  end.
