(* Model of core/system (AdaptiveSlot.Check, doCheckRule, checkBbrSimple, getRules), of the part
   of core/stat.Slot that feeds the global inbound node, and of core/system_metric's injected
   load / cpu readings.  Transcribed from the Go code as it is; no proofs in this file.

   - the inbound node is a Model/StatNode.v [node] (BaseStatNode over a BucketLeapArray);
   - the rule manager is Model/Rules.v's [sys_state] / [sys_load] (property C13);
   - ruleMap is a Go map keyed by metric type: getRules concatenates the groups in map
     iteration order, which is an input [ord : list Z] of every Check call (a list of metric
     types; the groups keep load order);
   - thresholds, QPS, average RT, load and cpu are float64 = PrimFloat; comparisons are the
     IEEE ones Go performs (a NaN operand makes `<` and `>` false). *)
From Coq Require Import Floats.
From SG Require Import Base.Prelude Base.GoInt Base.GoFloat Model.LeapArray Model.StatNode Model.Rules.
#[local] Open Scope Z_scope.

(* system.MetricType (iota block of core/system/rule.go) *)
Definition MtLoad := 0. Definition MtAvgRT := 1. Definition MtConcurrency := 2.
Definition MtInboundQPS := 3. Definition MtCpuUsage := 4. Definition MetricTypeSize := 5.

(* system.AdaptiveStrategy: NoAdaptive = -1; BBR = iota in the second line of its block = 1 *)
Definition NoAdaptive := -1.
Definition BBR := 1.

(* base.BlockTypeSystemFlow *)
Definition BlockTypeSystemFlow := 4.
(* system_metric.NotRetrievedLoadValue / NotRetrievedCpuUsageValue *)
Definition NotRetrieved : float := (-1)%float.

(* ---- checkBbrSimple ------------------------------------------------------------------ *)
(* concurrency := CurrentConcurrency(); minRt := MinRT(); maxComplete := GetMaxAvg(MetricEventComplete)
   if concurrency > 1 && float64(concurrency) > maxComplete*minRt/1000.0 { return false }; return true *)
Definition check_bbr_simple (x : node) (now : Z) : bool :=
  let concurrency := nd_conc x in
  let minRt := node_min_rt x now in
  let maxComplete := node_max_avg x now EvComplete in
  if (1 <? concurrency) && (maxComplete * minRt / 1000 <? f_of_i64 concurrency)%float then false else true.

(* ---- doCheckRule: (passed, snapshot value) ------------------------------------------- *)
Definition do_check_rule (x : node) (now : Z) (load cpu : float) (r : srule) : bool * float :=
  let threshold := s_trigger r in
  if s_metric r =? MtInboundQPS then
    let qps := node_qps x now EvPass in ((qps <? threshold)%float, qps)
  else if s_metric r =? MtConcurrency then
    let n := f_of_i64 (nd_conc x) in ((n <? threshold)%float, n)
  else if s_metric r =? MtAvgRT then
    let rt := node_avg_rt x now in ((rt <? threshold)%float, rt)
  else if s_metric r =? MtLoad then
    if (threshold <? load)%float then
      if negb (s_strategy r =? BBR) || negb (check_bbr_simple x now) then (false, load) else (true, load)
    else (true, load)
  else if s_metric r =? MtCpuUsage then
    if (threshold <? cpu)%float then
      if negb (s_strategy r =? BBR) || negb (check_bbr_simple x now) then (false, cpu) else (true, cpu)
    else (true, cpu)
  else (true, 0%float).     (* undefined metric type: pass by default *)

(* ---- getRules: the groups of ruleMap in iteration order ------------------------------- *)
Definition rules_of_metric (rules : list srule) (mt : Z) : list srule :=
  filter (fun r => s_metric r =? mt) rules.
Definition get_rules (rules : list srule) (ord : list Z) : list srule :=
  flat_map (rules_of_metric rules) ord.

(* ---- AdaptiveSlot.Check: the first rule that does not pass blocks ---------------------- *)
Fixpoint check_rules (x : node) (now : Z) (load cpu : float) (rs : list srule) : option (srule * float) :=
  match rs with
  | [] => None
  | r :: rest =>
      let '(passed, v) := do_check_rule x now load cpu r in
      if passed then check_rules x now load cpu rest else Some (r, v)
  end.

(* None = the slot lets the request through; Some (rule, snapshot) = blocked, BlockTypeSystemFlow *)
Definition slot_check (inbound : bool) (x : node) (now : Z) (load cpu : float)
                      (rules : list srule) (ord : list Z) : option (srule * float) :=
  if negb inbound then None     (* ctx.Resource.FlowType() != base.Inbound *)
  else check_rules x now load cpu (get_rules rules ord).

(* ---- stat.Slot on the inbound node ----------------------------------------------------- *)
Inductive nev :=
| NPass (t b : Z)                       (* OnEntryPassed: IncreaseConcurrency; AddCount(pass, batch) *)
| NBlock (t b : Z)                      (* OnEntryBlocked: AddCount(block, batch) *)
| NComplete (t b rt : Z) (err : bool).  (* OnCompleted: [AddCount(error, batch)]; AddCount(rt, rt);
                                           AddCount(complete, batch); DecreaseConcurrency *)

Definition node_apply (x : node) (e : nev) : node :=
  match e with
  | NPass t b => node_add (node_inc x t) t EvPass b
  | NBlock t b => node_add x t EvBlock b
  | NComplete t b rt err =>
      let x1 := if err then node_add x t EvError b else x in
      node_dec (node_add (node_add x1 t EvRt rt) t EvComplete b)
  end.

(* ---- the whole stage: inbound node + rule manager + injected readings + live entries ---- *)
Record live_entry := { le_id : Z; le_inbound : bool; le_batch : Z; le_start : Z }.

Record sstate := {
  st_node : node;             (* stat.InboundNode() *)
  st_rules : sys_state;       (* system rule manager *)
  st_load : float;            (* system_metric.CurrentLoad() *)
  st_cpu : float;             (* system_metric.CurrentCpuUsage() *)
  st_live : list live_entry;  (* entries admitted and not yet exited *)
  st_next : Z                 (* sequence number of the next Entry call *)
}.

Definition sys_state0 (gn gitv vn vitv t0 : Z) : sstate :=
  {| st_node := node_new gn gitv vn vitv t0; st_rules := sys_init;
     st_load := NotRetrieved; st_cpu := NotRetrieved; st_live := []; st_next := 0 |}.

Inductive sop :=
| OLoad (l : option (list (option srule)))          (* system.LoadRules *)
| OSetLoad (f : float)                              (* system_metric.SetSystemLoad *)
| OSetCpu (f : float)                               (* system_metric.SetSystemCpuUsage *)
| OEntry (t : Z) (inbound : bool) (batch : Z) (ord : list Z)
                                                    (* api.Entry(res, WithTrafficType, WithBatchCount) at clock t;
                                                       ord = map iteration order of this call's getRules *)
| OExit (t : Z) (k : Z) (err : bool)                (* Exit of the entry created by Entry call number k, at clock t;
                                                       err: an error was traced on it *)
| OProbe (t : Z).                                   (* read the inbound node's getters *)

Inductive sobs :=
| ONone
| OChanged (b : bool)
| OPassed
| OBlocked (btype tag : Z) (snapshot : float)
| OReadings (qps : float) (conc : Z) (avg_rt min_rt max_complete : float).

Fixpoint find_live (k : Z) (l : list live_entry) : option live_entry :=
  match l with [] => None | e :: r => if le_id e =? k then Some e else find_live k r end.
Definition remove_live (k : Z) (l : list live_entry) : list live_entry :=
  filter (fun e => negb (le_id e =? k)) l.

Definition decide (s : sstate) (t : Z) (inbound : bool) (ord : list Z) : option (srule * float) :=
  slot_check inbound (st_node s) t (st_load s) (st_cpu s) (sys_rules (st_rules s)) ord.

(* what the statistic slot records on the inbound node during this operation *)
Definition step_events (s : sstate) (o : sop) : list nev :=
  match o with
  | OEntry t inbound b ord =>
      if inbound then match decide s t inbound ord with Some _ => [NBlock t b] | None => [NPass t b] end
      else []
  | OExit t k err =>
      match find_live k (st_live s) with
      | Some e => if le_inbound e then [NComplete t (le_batch e) (i64 (u64 (t - le_start e))) err] else []
      | None => []
      end
  | _ => []
  end.

Definition sys_step (s : sstate) (o : sop) : sstate * sobs :=
  let nd := fold_left node_apply (step_events s o) (st_node s) in
  match o with
  | OLoad l =>
      let '(rs, res) := sys_load (st_rules s) l in
      ({| st_node := nd; st_rules := rs; st_load := st_load s; st_cpu := st_cpu s;
          st_live := st_live s; st_next := st_next s |}, OChanged (changed res))
  | OSetLoad f =>
      ({| st_node := nd; st_rules := st_rules s; st_load := f; st_cpu := st_cpu s;
          st_live := st_live s; st_next := st_next s |}, ONone)
  | OSetCpu f =>
      ({| st_node := nd; st_rules := st_rules s; st_load := st_load s; st_cpu := f;
          st_live := st_live s; st_next := st_next s |}, ONone)
  | OEntry t inbound b ord =>
      match decide s t inbound ord with
      | Some (r, v) =>
          ({| st_node := nd; st_rules := st_rules s; st_load := st_load s; st_cpu := st_cpu s;
              st_live := st_live s; st_next := st_next s + 1 |}, OBlocked BlockTypeSystemFlow (s_tag r) v)
      | None =>
          ({| st_node := nd; st_rules := st_rules s; st_load := st_load s; st_cpu := st_cpu s;
              st_live := {| le_id := st_next s; le_inbound := inbound; le_batch := b; le_start := t |} :: st_live s;
              st_next := st_next s + 1 |}, OPassed)
      end
  | OExit t k err =>
      ({| st_node := nd; st_rules := st_rules s; st_load := st_load s; st_cpu := st_cpu s;
          st_live := remove_live k (st_live s); st_next := st_next s |}, ONone)
  | OProbe t =>
      (s, OReadings (node_qps (st_node s) t EvPass) (nd_conc (st_node s)) (node_avg_rt (st_node s) t)
                    (node_min_rt (st_node s) t) (node_max_avg (st_node s) t EvComplete))
  end.

Fixpoint sys_exec (s : sstate) (ops : list sop) : sstate * list sobs :=
  match ops with
  | [] => (s, [])
  | o :: r => let '(s1, x) := sys_step s o in let '(s2, xs) := sys_exec s1 r in (s2, x :: xs)
  end.

(* the state after a history *)
Definition sys_after (s : sstate) (ops : list sop) : sstate := fold_left (fun s o => fst (sys_step s o)) ops s.

(* the rules that can be reported by a blocked call under SOME iteration order: the first
   non-passing rule of each metric type's group *)
Definition blockers (s : sstate) (t : Z) : list (srule * float) :=
  flat_map (fun mt => match decide s t true [mt] with Some x => [x] | None => [] end) [0; 1; 2; 3; 4].
