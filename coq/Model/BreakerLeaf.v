(* Direct transcriptions of the decision logic of core/circuitbreaker/circuit_breaker.go in the
   shape the leaf translator regenerates it (translator/leaf/targets_breaker.go): a function of
   the values the code READS (state word loads, deadline, clock, probe counter, window sums, CAS
   results) to the value it returns and the sequence of ACTIONS it performs.

   translator/leaf/C03_leaf_check.v and C12_leaf_check.v prove, for all inputs, that the Gallina
   regenerated from the Go source equals these functions; Proofs/BreakerLeafProofs.v proves that
   the models the property theorems are about (Model/Breaker.v [try_pass], [decide], [rule_cfg];
   Model/BreakerConc.v [tstep]) are these functions run sequentially / walked by the pc machine.
   No proofs in this file. *)
From Coq Require Import Floats.
From SG Require Import Base.Prelude Base.GoInt Base.GoFloat Model.Breaker Model.BreakerConc.
#[local] Open Scope Z_scope.

(* the State constants: Closed = iota, HalfOpen, Open *)
Definition st_code (s : bst) : Z := match s with Closed => 0 | HalfOpen => 1 | Open => 2 end.

(* what the code does (one constructor per action tag of targets_breaker.go) *)
Inductive bact :=
| ACas (from to : bst)              (* state.cas(from, to) *)
| AStoreRetry (v : Z)               (* atomic.StoreUint64(&nextRetryTimestampMs, v) *)
| AAddProbe                         (* addCurProbeNum() *)
| AResetProbe                       (* resetCurProbeNum() *)
| AUpdateRetry                      (* updateNextRetryTimestamp() *)
| ANotifyOpen (prev : bst) (sn : snap)   (* every listener: OnTransformToOpen(prev, rule, sn) *)
| ANotifyHalf (prev : bst)               (* every listener: OnTransformToHalfOpen(prev, rule) *)
| ANotifyClosed (prev : bst)             (* every listener: OnTransformToClosed(prev, rule) *)
| AClosedToOpen (sn : snap)         (* fromClosedToOpen(sn) *)
| AHalfToOpen (sn : snap)           (* fromHalfOpenToOpen(sn) *)
| AHalfToClosed                     (* fromHalfOpenToClosed() *)
| AOpenToHalf                       (* fromOpenToHalfOpen(ctx) *)
| AResetMetric                      (* resetMetric() *)
| AAddBad                           (* atomic.AddUint64(&counter.slowCount | errorCount, 1) *)
| AAddTotal                         (* atomic.AddUint64(&counter.totalCount, 1) *)
| AHookExit                         (* entry.WhenExit(rollback hook) *)
| AOnComplete (rt errid : Z).       (* cb.OnRequestComplete(rt, err): errid = identity of the entry's error *)

Definition act_code (a : bact) : Z :=
  match a with
  | ACas _ _ => 1 | AStoreRetry _ => 2 | AAddProbe => 3 | AResetProbe => 4 | AUpdateRetry => 5
  | ANotifyOpen _ _ => 6 | ANotifyHalf _ => 7 | ANotifyClosed _ => 8
  | AClosedToOpen _ => 9 | AHalfToOpen _ => 10 | AHalfToClosed => 11 | AOpenToHalf => 12
  | AResetMetric => 13 | AAddBad => 14 | AAddTotal => 15 | AHookExit => 16 | AOnComplete _ _ => 17
  end.

(* ---------------------------------------------------------------------------------- *)
(* circuitBreakerBase                                                                   *)

(* retryTimeoutArrived: util.CurrentTimeMillis() >= nextRetryTimestampMs *)
Definition retry_arrived (deadline now : Z) : bool := deadline <=? now.

(* updateNextRetryTimestamp: the stored value, uint64 addition *)
Definition retry_value (now retry : Z) : Z := u64 (now + retry).
Definition retry_store (now retry : Z) : list bact := [AStoreRetry (retry_value now retry)].

(* getRuleStatSlidingWindowBucketCount *)
Definition bucket_count (interval raw : Z) : Z :=
  if (raw =? 0) || negb (interval mod raw =? 0) then 1 else raw.

(* from*To*: the CAS, and only when it succeeded the rest *)
Definition from_closed_to_open_leaf (ok : bool) (sn : snap) : bool * list bact :=
  if ok then (true, [ACas Closed Open; AUpdateRetry; ANotifyOpen Closed sn]) else (false, [ACas Closed Open]).
Definition from_open_to_half_leaf (ok entry_nil : bool) : bool * list bact :=
  if ok then (true, ACas Open HalfOpen :: ANotifyHalf Open :: (if entry_nil then [] else [AHookExit]))
  else (false, [ACas Open HalfOpen]).
Definition from_half_to_open_leaf (ok : bool) (sn : snap) : bool * list bact :=
  if ok then (true, [ACas HalfOpen Open; AResetProbe; AUpdateRetry; ANotifyOpen HalfOpen sn])
  else (false, [ACas HalfOpen Open]).
Definition from_half_to_closed_leaf (ok : bool) : bool * list bact :=
  if ok then (true, [ACas HalfOpen Closed; AResetProbe; ANotifyClosed HalfOpen]) else (false, [ACas HalfOpen Closed]).

(* the exit hook registered by fromOpenToHalfOpen: ctx.IsBlocked() && cas(HalfOpen, Open) *)
Definition rollback_leaf (blocked ok : bool) : list bact :=
  if blocked then ACas HalfOpen Open :: (if ok then [ANotifyOpen HalfOpen (SF 1%float)] else []) else [].

(* MetricStatSlot.OnCompleted, one iteration of the loop over the resource's breakers: the
   completion is reported to the breaker exactly once, with the entry's rt and error; nothing
   else of the entry (batch count, traffic / resource type, args, attachments) is read *)
Definition stat_slot_step (rt errid : Z) : list bact := [AOnComplete rt errid].

(* ---------------------------------------------------------------------------------- *)
(* TryPass (the three breakers have the same text)                                      *)

Definition try_pass_leaf (probe : Z) (st : bst) (deadline now : Z) (cas_ok : bool) : bool * list bact :=
  match st with
  | Closed => (true, [])
  | Open => if retry_arrived deadline now then (cas_ok, [AOpenToHalf]) else (false, [])
  | HalfOpen => (0 <? probe, [])
  end.

(* ---------------------------------------------------------------------------------- *)
(* OnRequestComplete: s1 / s2 = first / second load of the state word, p = the probe counter as
   loaded after addCurProbeNum, bad = the request counts in the first counter (slow / error),
   B T = the window sums                                                                    *)

Definition decide_leaf (c : cfg) (s1 s2 : bst) (p : Z) (bad : bool) (B T : Z) : list bact :=
  match s1 with
  | Open => []
  | HalfOpen =>
      if bad then [AHalfToOpen (probe_fail_snapshot c)]
      else AAddProbe :: (if (probe_num c =? 0) || (probe_num c <=? p) then [AHalfToClosed; AResetMetric] else [])
  | Closed =>
      if T <? min_amt c then []
      else if reached c B T then
        match s2 with
        | Closed => [AClosedToOpen (open_snapshot c B T)]
        | HalfOpen => [AHalfToOpen (open_snapshot c B T)]
        | Open => []
        end
      else []
  end.

(* one iteration of the window-sum loop `for _, c := range counters`: uint64 accumulation of the
   bucket's two counters (a, b) into (bad, total) *)
Definition sum_step (s t a b : Z) : Z * Z := (u64 (s + a), u64 (t + b)).
Fixpoint sum_loop (l : list (Z * Z)) (acc : Z * Z) : Z * Z :=
  match l with [] => acc | (a, b) :: r => sum_loop r (sum_step (fst acc) (snd acc) a b) end.

Definition adds_leaf (bad : bool) : list bact := (if bad then [AAddBad] else []) ++ [AAddTotal].

(* cur_ok: currentCounter() returned no error *)
Definition complete_leaf (c : cfg) (cur_ok : bool) (s1 s2 : bst) (p : Z) (bad : bool) (B T : Z) : list bact :=
  if cur_ok then adds_leaf bad ++ decide_leaf c s1 s2 p bad B T else [].

(* ---------------------------------------------------------------------------------- *)
(* sequential execution of an action list on the breaker of Model/Breaker.v: one caller, so a
   CAS succeeds exactly when the state word holds the expected value                        *)

Record seqst := { q_b : breaker; q_ev : list tev; q_hook : bool }.

Definition prim (c : cfg) (now : Z) (s : seqst) (a : bact) : seqst :=
  let b := q_b s in
  match a with
  | ACas f t =>
      if bst_eqb (state b) f
      then {| q_b := {| state := t; next_retry := next_retry b; cur_probe := cur_probe b; slots := slots b;
                       ghist := match t with Closed => [] | _ => ghist b end |};
              q_ev := q_ev s; q_hook := q_hook s |}
      else s
  | AStoreRetry v =>
      {| q_b := {| state := state b; next_retry := v; cur_probe := cur_probe b; slots := slots b; ghist := ghist b |};
         q_ev := q_ev s; q_hook := q_hook s |}
  | AUpdateRetry =>
      {| q_b := {| state := state b; next_retry := retry_value now (retry_ms c); cur_probe := cur_probe b;
                  slots := slots b; ghist := ghist b |};
         q_ev := q_ev s; q_hook := q_hook s |}
  | AAddProbe =>
      {| q_b := {| state := state b; next_retry := next_retry b; cur_probe := cur_probe b + 1; slots := slots b; ghist := ghist b |};
         q_ev := q_ev s; q_hook := q_hook s |}
  | AResetProbe =>
      {| q_b := {| state := state b; next_retry := next_retry b; cur_probe := 0; slots := slots b; ghist := ghist b |};
         q_ev := q_ev s; q_hook := q_hook s |}
  | ANotifyOpen p sn => {| q_b := b; q_ev := q_ev s ++ [TEv p Open (Some sn)]; q_hook := q_hook s |}
  | ANotifyHalf p => {| q_b := b; q_ev := q_ev s ++ [TEv p HalfOpen None]; q_hook := q_hook s |}
  | ANotifyClosed p => {| q_b := b; q_ev := q_ev s ++ [TEv p Closed None]; q_hook := q_hook s |}
  | AResetMetric =>
      {| q_b := {| state := state b; next_retry := next_retry b; cur_probe := cur_probe b;
                  slots := la_clear (gn c) (gbl c) now (slots b); ghist := ghist b |};
         q_ev := q_ev s; q_hook := q_hook s |}
  | AHookExit => {| q_b := b; q_ev := q_ev s; q_hook := true |}
  | _ => s      (* composite actions are expanded by [seq_act]; the counter adds are on_complete's sl2 *)
  end.

(* a from*To* call made by the single caller: its CAS result is determined by the state word *)
Definition expand (st : bst) (a : bact) : list bact :=
  match a with
  | AClosedToOpen sn => snd (from_closed_to_open_leaf (bst_eqb st Closed) sn)
  | AHalfToOpen sn => snd (from_half_to_open_leaf (bst_eqb st HalfOpen) sn)
  | AHalfToClosed => snd (from_half_to_closed_leaf (bst_eqb st HalfOpen))
  | AOpenToHalf => snd (from_open_to_half_leaf (bst_eqb st Open) false)
  | a => [a]
  end.

Definition seq_act (c : cfg) (now : Z) (s : seqst) (a : bact) : seqst :=
  fold_left (prim c now) (expand (state (q_b s)) a) s.

Definition seq_run (c : cfg) (now : Z) (b : breaker) (acts : list bact) : seqst :=
  fold_left (seq_act c now) acts {| q_b := b; q_ev := []; q_hook := false |}.

(* ---------------------------------------------------------------------------------- *)
(* the pc machine of Model/BreakerConc.v: which yield point an action stops at, and the pc at
   which OnRequestComplete performs an action of [decide_leaf]                              *)

Definition act_label (a : bact) : Z :=
  match a with
  | ACas _ _ => 302 | AStoreRetry _ | AUpdateRetry => 304 | AAddProbe => 305 | AResetProbe => 306
  | ANotifyOpen _ _ | ANotifyHalf _ | ANotifyClosed _ => 307
  | _ => -1
  end.

Definition act_pc (a : bact) : option pc :=
  match a with
  | AAddProbe => Some C305
  | AClosedToOpen sn => Some (CCasCO sn)
  | AHalfToOpen sn => Some (CCasHO sn)
  | AHalfToClosed => Some CCasHC
  | _ => None
  end.

(* continue with the first of the remaining actions, or finish the operation *)
Definition goto (th : thread) (acts : list bact) : thread :=
  match acts with
  | a :: _ => match act_pc a with Some p => with_pc th p | None => finish th end
  | [] => finish th
  end.
