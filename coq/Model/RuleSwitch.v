(* C15 — atomic rule switch (DESIGN 6/C15).

   Abstract rule manager shared by the modules: a map  resource -> address  of a published,
   immutable slice, and an append-only heap of slices.  Loaders replace map entries in one
   atomic step (the step they perform under the write lock; atomicity of that step with
   respect to guarded reads is what Lockset.v establishes).  A decision ("Check") performs ONE
   guarded read of the map entry of its resource and then walks the slice it obtained, one
   element per step, arbitrarily interleaved with loaders and other deciders.

   Also here: the record the translator fills with the guarded rule-list reads it finds in
   every slot entry point, the executable premise check, and the lock-order check.

   No proofs in this file (Proofs/RuleSwitchProofs.v). *)
From SG Require Import Base.Prelude.

Definition res := Z.
Definition rule := Z.

Record rm := mkRm {
  heap : list (list rule);        (* address = index; cells are never written after allocation *)
  rmap : list (res * nat)         (* resource -> address of its published slice *)
}.

Definition slice_at (m : rm) (a : nat) : list rule := nth a (heap m) [].

(* the rule list in force for r *)
Definition lookup (m : rm) (r : res) : list rule :=
  match alookup r (rmap m) with Some a => slice_at m a | None => [] end.

(* LoadRulesOfResource r l: allocate a fresh slice, swap the entry of r *)
Definition load_res (m : rm) (r : res) (l : list rule) : rm :=
  mkRm (heap m ++ [l]) (aset r (length (heap m)) (rmap m)).

(* ClearRulesOfResource r *)
Fixpoint adel {A} (k : Z) (l : list (Z * A)) : list (Z * A) :=
  match l with
  | [] => []
  | (k', v) :: r => if k =? k' then adel k r else (k', v) :: adel k r
  end.
Definition clear_res (m : rm) (r : res) : rm := mkRm (heap m) (adel r (rmap m)).

(* LoadRules: a whole new map is built aside (fresh slices) and swapped in by one assignment *)
Fixpoint alloc_all (h : list (list rule)) (new : list (res * list rule)) : list (list rule) * list (res * nat) :=
  match new with
  | [] => (h, [])
  | (r, l) :: rest =>
      let '(h', mp) := alloc_all (h ++ [l]) rest in
      (h', (r, length h) :: mp)
  end.
Definition load_all (m : rm) (new : list (res * list rule)) : rm :=
  let '(h, mp) := alloc_all (heap m) new in mkRm h mp.

(* decider *)
Inductive dstate :=
| DIdle                                            (* has not read the map yet *)
| DWalk (a : option nat) (i : nat) (acc : list rule) (* did its one guarded read; walking the slice *)
| DDone (seen : list rule).                        (* the rules its decision was computed from *)

Definition dstep (m : rm) (r : res) (d : dstate) : dstate :=
  match d with
  | DIdle => DWalk (alookup r (rmap m)) 0 []
  | DWalk None _ acc => DDone acc
  | DWalk (Some a) i acc =>
      match nth_error (slice_at m a) i with
      | Some x => DWalk (Some a) (S i) (acc ++ [x])
      | None => DDone acc
      end
  | DDone s => DDone s
  end.

Inductive sev :=
| SDec (t : nat)                              (* decider t takes one step *)
| SLoadRes (r : res) (l : list rule)
| SClearRes (r : res)
| SLoadAll (new : list (res * list rule)).

Definition sstate := (rm * list (res * dstate))%type.

Definition upd_dec (t : nat) (m : rm) (ds : list (res * dstate)) : list (res * dstate) :=
  upd_nth t (fun rd => (fst rd, dstep m (fst rd) (snd rd))) ds.

Definition sstep (s : sstate) (e : sev) : sstate :=
  match e with
  | SDec t => (fst s, upd_dec t (fst s) (snd s))
  | SLoadRes r l => (load_res (fst s) r l, snd s)
  | SClearRes r => (clear_res (fst s) r, snd s)
  | SLoadAll new => (load_all (fst s) new, snd s)
  end.

(* run a schedule, recording every rule-manager state that was in force (most recent first) *)
Fixpoint srun (s : sstate) (hist : list rm) (sched : list sev) : sstate * list rm :=
  match sched with
  | [] => (s, hist)
  | e :: r => let s' := sstep s e in srun s' (fst s' :: hist) r
  end.

Definition wf_rm (m : rm) : Prop :=
  forall r a, alookup r (rmap m) = Some a -> (a < length (heap m))%nat.

(* ---- what goes wrong without the premises (used in `_needs_` examples) -------------- *)

(* a Check that calls the getter again for every element (getter call inside the loop) *)
Definition dstep_reread (m : rm) (r : res) (d : dstate) : dstate :=
  match d with
  | DIdle => DWalk None 0 []
  | DWalk _ i acc =>
      match nth_error (lookup m r) i with
      | Some x => DWalk None (S i) (acc ++ [x])
      | None => DDone acc
      end
  | DDone s => DDone s
  end.

(* a loader that overwrites an element of a slice that is already published *)
Definition poke (m : rm) (a i : nat) (v : rule) : rm :=
  mkRm (upd_nth a (fun sl => upd_nth i (fun _ => v) sl) (heap m)) (rmap m).

(* ---- premise extracted from the source ---------------------------------------------- *)

Record getter_call := mkGC {
  g_entry : string;      (* slot entry point: "flow.(Slot).Check" *)
  g_getter : string;     (* same-package callee that takes the rule lock: "flow.getTrafficControllerListFor" *)
  g_in_loop : bool;      (* the call (or a call on the path to it) sits in a loop body *)
  g_line : Z
}.

Definition pair_eqb (e : string * string) (g : getter_call) : bool :=
  String.eqb (fst e) (g_entry g) && String.eqb (snd e) (g_getter g).

(* every guarded read found in a non-exempt entry point is an expected one and not in a loop,
   and every expected (entry point, getter) pair occurs exactly once *)
Definition single_read_ok (gcs : list getter_call) (expected : list (string * string)) (exempt : list string) : bool :=
  let live := filter (fun g => negb (existsb (String.eqb (g_entry g)) exempt)) gcs in
  forallb (fun g => negb (g_in_loop g) && existsb (fun e => pair_eqb e g) expected) live
  && forallb (fun e => (length (filter (pair_eqb e) live) =? 1)%nat) expected.

Definition single_read_violations (gcs : list getter_call) (expected : list (string * string)) (exempt : list string)
  : list getter_call * list (string * string) :=
  let live := filter (fun g => negb (existsb (String.eqb (g_entry g)) exempt)) gcs in
  (filter (fun g => negb (negb (g_in_loop g) && existsb (fun e => pair_eqb e g) expected)) live,
   filter (fun e => negb (length (filter (pair_eqb e) live) =? 1)%nat) expected).

(* ---- lock order (deadlock freedom of the rule managers) ----------------------------- *)

Fixpoint reachb (fuel : nat) (edges : list (string * string)) (a b : string) : bool :=
  match fuel with
  | O => false
  | S f =>
      (* `if`, not && / ||: vm_compute is call-by-value and would explore every edge at every level *)
      existsb (fun e => if String.eqb (fst e) a
                        then (if String.eqb (snd e) b then true else reachb f edges (snd e) b)
                        else false) edges
  end.

(* no lock is (transitively) acquired while it is already held *)
Definition lock_order_ok (edges : list (string * string)) : bool :=
  forallb (fun e => negb (String.eqb (fst e) (snd e)) && negb (reachb (length edges) edges (snd e) (fst e))) edges.

(* the edges that lie on a cycle (printed by the generated check when the obligation fails) *)
Definition lock_order_violations (edges : list (string * string)) : list (string * string) :=
  filter (fun e => negb (negb (String.eqb (fst e) (snd e)) && negb (reachb (length edges) edges (snd e) (fst e)))) edges.
