(* Warm-up token calculator: core/flow/tc_warm_up.go (constructor, CalculateAllowedTokens,
   syncToken, coolDownTokens) followed by the reject checker of core/flow/tc_default.go, driven
   by the resource's default statistic (1000 ms sliding window of two 500 ms buckets; the
   previous-window QPS is the pass count of the 1000 ms that end at the current bucket start).
   Transcribed with IEEE doubles (PrimFloat).  Sequential.  No proofs here. *)
From Coq Require Import Floats.
From SG Require Import Base.Prelude Base.GoInt Base.GoFloat.
#[local] Open Scope Z_scope.

(* default statistic geometry assumed by this model (compared with the implementation's
   configuration in every correspondence run) *)
Definition bucket_ms : Z := 500.
Definition window_ms : Z := 1000.
Definition default_cold_factor : Z := 3.

Record wcfg := { w_thr : float;   (* rule.Threshold *)
                 w_period : Z;    (* WarmUpPeriodSec (uint32) *)
                 w_cf : Z;        (* cold factor after defaulting *)
                 w_warning : Z;   (* warningToken (uint64) *)
                 w_max : Z;       (* maxToken (uint64) *)
                 w_slope : float }.

Definition fmax : float := 0x1.fffffffffffffp+1023%float.

(* math.Nextafter(x, math.MaxFloat64) *)
Definition go_nextafter_max (x : float) : float :=
  if is_nan x then x
  else if (x =? fmax)%float then x
  else if (fmax <? x)%float then fmax       (* x = +Inf steps down *)
  else next_up x.

(* NewWarmUpTrafficShapingCalculator *)
Definition mk_wcfg (T : float) (period cf0 : Z) : wcfg :=
  let cf := if cf0 <=? 1 then default_cold_factor else cf0 in
  let warning := go_u64_of_f (f_of_u64 period * T / f_of_u64 (u32 (cf - 1)))%float in
  let maxt := u64 (warning + go_u64_of_f (2 * f_of_u64 period * T / f_of_u64 (u32 (1 + cf)))%float) in
  (* an empty token range has no slope (fix of D9: the division by zero made every allowed value NaN) *)
  let slope := if warning <? maxt then (f_of_u64 (u32 (cf - 1)) / T / f_of_u64 (u64 (maxt - warning)))%float
               else 0%float in
  {| w_thr := T; w_period := period; w_cf := cf; w_warning := warning; w_max := maxt; w_slope := slope |}.

(* IsValidRule for TokenCalculateStrategy = WarmUp: Threshold not NaN (1e1f6ae) and not negative, period, cold factor *)
Definition wvalid (T : float) (period cf0 : Z) : bool :=
  negb (is_nan T) && negb (T <? 0)%float && (0 <? period) && negb (cf0 =? 1).

Record wst := { stored : Z;           (* storedTokens (int64) *)
                last_filled : Z;      (* lastFilledTime (uint64, ms) *)
                passes : list (Z * Z) (* recent admitted (time ms, batch), newest first *) }.

Definition winit : wst := {| stored := 0; last_filled := 0; passes := [] |}.

Definition sum_in (lo hi : Z) (ps : list (Z * Z)) : Z :=
  fold_left (fun acc p => if (lo <=? fst p) && (fst p <? hi) then acc + snd p else acc) ps 0.

(* SlidingWindowMetric.GetPreviousQPS(MetricEventPass) of the default metric *)
Definition prev_qps (ps : list (Z * Z)) (now : Z) : float :=
  let cs := now - now mod bucket_ms in
  (f_of_i64 (sum_in (cs - window_ms) cs ps) / (f_of_u64 window_ms / 1000))%float.

(* GetSum(MetricEventPass): the two buckets ending with the current one *)
Definition cur_sum (ps : list (Z * Z)) (now : Z) : Z :=
  let cs := now - now mod bucket_ms in
  sum_in (cs + bucket_ms - window_ms) (cs + bucket_ms) ps.

(* the code compares the int64 bucket with int64(c.warningToken) / int64(c.maxToken): uint64 values
   from 2^63 on (only reachable with absurd thresholds such as +Inf) wrap to negative numbers *)
Definition wi (c : wcfg) : Z := i64 (w_warning c).
Definition mi (c : wcfg) : Z := i64 (w_max c).

Definition cool_down (c : wcfg) (st : wst) (cur : Z) (pass_qps : float) : Z :=
  let old := stored st in
  let nv :=
    if old <? wi c then
      go_i64_of_f (f_of_i64 old + (f_of_u64 cur - f_of_u64 (last_filled st)) * w_thr c / 1000)%float
    else (* old >= warningToken (was >: a bucket exactly on the warning line never refilled) *)
      if (pass_qps <? f_of_u64 (go_u32_of_f (w_thr c) / w_cf c))%float
      then go_i64_of_f (f_of_i64 old + f_of_u64 (u64 (cur - last_filled st)) * w_thr c / 1000)%float
      else old in
  if nv <=? mi c then nv else mi c.

Definition sync_token (c : wcfg) (st : wst) (now : Z) (pass_qps : float) : wst :=
  let cur := now - now mod 1000 in
  if cur <=? last_filled st then st
  else
    let nv := cool_down c st cur pass_qps in
    let cv := i64 (nv + go_i64_of_f (- pass_qps)%float) in
    {| stored := (if cv <? 0 then 0 else cv); last_filled := cur; passes := passes st |}.

Definition allowed_of (c : wcfg) (tokens : Z) : float :=
  let rest := if tokens <? 0 then 0 else tokens in
  if rest >=? wi c then
    go_nextafter_max (1 / (f_of_i64 (i64 (rest - wi c)) * w_slope c + 1 / w_thr c))%float
  else w_thr c.

(* CalculateAllowedTokens at time `now` *)
Definition calc (c : wcfg) (st : wst) (now : Z) : wst * float :=
  let st' := sync_token c st now (prev_qps (passes st) now) in
  (st', allowed_of c (stored st')).

Definition prune (ps : list (Z * Z)) (now : Z) : list (Z * Z) :=
  filter (fun p => now - 2 * window_ms <=? fst p) ps.

(* one sentinel.Entry with batch b at time now (ms): calculator, reject checker, statistic *)
Definition wstep (c : wcfg) (st : wst) (now b : Z) : wst * (float * bool) :=
  let '(st1, a) := calc c st now in
  let cur := cur_sum (passes st1) now in
  let blocked := (a <? f_of_i64 cur + f_of_u64 b)%float in
  let ps := prune (passes st1) now in
  ({| stored := stored st1; last_filled := last_filled st1;
      passes := if blocked then ps else (now, b) :: ps |}, (a, negb blocked)).

(* observation per request: allowed tokens, admitted?, stored tokens afterwards *)
Fixpoint wrun (c : wcfg) (st : wst) (ops : list (Z * Z)) : list (float * bool * Z) :=
  match ops with
  | [] => []
  | (now, b) :: r =>
      let '(st', (a, adm)) := wstep c st now b in
      (a, adm, stored st') :: wrun c st' r
  end.

Definition admitted_count (l : list (float * bool * Z)) : Z :=
  Z.of_nat (length (filter (fun o => snd (fst o)) l)).

(* ---- exact-rational twin of the allowed-token curve: threshold T = tn/td, token constants W <= M.
   1/((rest-W)*slope + 1/T) with slope = (cf-1)/T/(M-W) simplifies to
   T*(M-W) / ((rest-W)*(cf-1) + (M-W)); returned as a fraction (num, den). ---- *)
Definition allowed_twin (tn td cf W M tokens : Z) : Z * Z :=
  let rest := Z.max 0 tokens in
  if rest >=? W then (tn * (M - W), td * ((rest - W) * (cf - 1) + (M - W)))
  else (tn, td).

(* integer part of the token dynamics on the twin: one second's consumption without refill *)
Definition drain (tokens q : Z) : Z := Z.max 0 (tokens - q).
