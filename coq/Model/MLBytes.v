(* Byte-string helpers for the metric log model (C17). Bytes are Z in 0..255; `nat` is used
   only for lengths / fuel. No proofs here (see Proofs/MLBytesProofs.v). *)
From SG Require Import Base.Prelude Base.GoInt.

Definition bytes := list Z.

Definition lenZ {A} (l : list A) : Z := Z.of_nat (length l).
Definition dropZ {A} (n : Z) (l : list A) : list A := skipn (Z.to_nat n) l.
Definition takeZ {A} (n : Z) (l : list A) : list A := firstn (Z.to_nat n) l.

Fixpoint bytes_eqb (a b : bytes) : bool :=
  match a, b with
  | [], [] => true
  | x :: xs, y :: ys => (x =? y) && bytes_eqb xs ys
  | _, _ => false
  end.

(* big-endian encoding of x mod 256^n on n bytes: encoding/binary.BigEndian *)
Fixpoint be (n : nat) (x : Z) : bytes :=
  match n with
  | O => []
  | S n' => be n' (x / 256) ++ [x mod 256]
  end.

Definition de (l : bytes) : Z := fold_left (fun a b => a * 256 + b) l 0.

Definition be64 (x : Z) : bytes := be 8 x.
(* binary.Read into a uint64 / an int64 *)
Definition de64u (l : bytes) : Z := de l.
Definition de64s (l : bytes) : Z := i64 (de l).

(* strings.Split(s, sep) for a one-byte separator: always at least one field *)
Fixpoint split_on (sep : Z) (l : bytes) : list bytes :=
  match l with
  | [] => [[]]
  | c :: r =>
      if c =? sep then [] :: split_on sep r
      else match split_on sep r with
           | f :: fs => (c :: f) :: fs
           | [] => [[c]]
           end
  end.

(* the LF-terminated lines of a file; a final segment without its terminator is dropped
   (reader.go readLine after the D18 fix: ReadString('\n'), EOF with pending bytes = EOF) *)
Definition lines (l : bytes) : list bytes := removelast (split_on 10 l).

(* strings.TrimSuffix(line, "\r") *)
Fixpoint strip_cr (l : bytes) : bytes :=
  match l with
  | [] => []
  | c :: r => match r with
              | [] => if c =? 13 then [] else [c]
              | _ => c :: strip_cr r
              end
  end.
