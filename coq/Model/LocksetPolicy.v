(* C15 — the reviewed policy the generated access table is checked against.
   Hand-written; every entry carries its justification.  Keep it SHORT: an entry here removes
   accesses from the claim `C15_race_free`. *)
From SG Require Import Base.Prelude Model.Lockset Model.RuleSwitch Model.LocksetRegions.
Local Open Scope string_scope.

Definition whitelist : whitelist := [
  (* package initialisation: init() runs before main and before any goroutine the program
     starts (Go memory model: "the start of main.main happens after all init functions").
     Closures created in init (the default generators) are NOT covered by these entries:
     they appear in the table as "pkg.init$N" and are checked. *)
  WFunc "flow.init" "init(): fills tcGenFuncMap before main";
  WFunc "hotspot.init" "init(): fills tcGenFuncMap before main";
  WFunc "circuitbreaker.init" "init(): fills cbGenFuncMap before main";
  (* registration functions.  They are not among the operations the property quantifies over
     (Entry/Exit/TraceError, rule loading/clearing/getters, statistics getters); they are meant
     to be called while the process is set up.  Each of them really is unsynchronised with
     respect to the readers of the registry it writes (see design_notes/C15.md). *)
  WFunc "circuitbreaker.RegisterStateChangeListeners" "documented in the source: 'this function is not thread-safe'";
  WFunc "circuitbreaker.ClearStateChangeListeners" "documented in the source: 'this function is not thread-safe'";
  WFunc "circuitbreaker.SetCircuitBreakerGenerator" "generator registration (writes cbGenFuncMap under updateMux; rule loading reads it under updateRuleMux)";
  WFunc "circuitbreaker.RemoveCircuitBreakerGenerator" "generator registration, as above";
  WFunc "flow.SetTrafficShapingGenerator" "generator registration (writes tcGenFuncMap under tcMux; rule loading reads it under updateRuleMux)";
  WFunc "flow.RemoveTrafficShapingGenerator" "generator registration, as above";
  WFunc "hotspot.SetTrafficShapingGenerator" "generator registration (writes tcGenFuncMap under tcMux; rule loading reads it under updateRuleMux)";
  WFunc "hotspot.RemoveTrafficShapingGenerator" "generator registration, as above";
  WFunc "base.RegistryBlockType" "block-type registration: unsynchronised write of blockTypeMap, read by BlockType.String()"
].

(* (slot entry point, the one guarded read of the module's rule list it performs) *)
Definition expected_reads : list (string * string) := [
  ("system.(AdaptiveSlot).Check", "system.getRules");
  ("flow.(Slot).Check", "flow.getTrafficControllerListFor");
  ("flow.(StandaloneStatSlot).OnEntryPassed", "flow.getTrafficControllerListFor");
  (* since fix 8bbc68d: a second, different list (controllers of associated-resource rules of OTHER
     resources whose independent statistic counts this resource) - read once, outside the loop, used
     only to record a passed request, never for a decision *)
  ("flow.(StandaloneStatSlot).OnEntryPassed", "flow.getRefStatControllerListFor");
  ("isolation.(Slot).Check", "isolation.getRulesOfResource");
  ("hotspot.(Slot).Check", "hotspot.getTrafficControllersFor");
  ("hotspot.(ConcurrencyStatSlot).OnEntryPassed", "hotspot.getTrafficControllersFor");
  ("hotspot.(ConcurrencyStatSlot).OnCompleted", "hotspot.getTrafficControllersFor");
  ("circuitbreaker.(Slot).Check", "circuitbreaker.getBreakersOfResource");
  ("circuitbreaker.(MetricStatSlot).OnCompleted", "circuitbreaker.getBreakersOfResource")
].

(* entry points the single-read premise is NOT claimed for *)
Definition premise_exempt : list string := [
  (* node storage, not a rule list: double-checked GetResourceNode / GetOrCreateResourceNode *)
  "stat.(ResourceNodePrepareSlot).Prepare";
  (* outlier reads its rule and its node-breaker map by several separate guarded reads
     (design_notes/C15.md, "outlier"): C15_switch_atomic is not claimed for this module *)
  "outlier.(Slot).Check";
  "outlier.(MetricStatSlot).OnCompleted"
].

(* unlock discipline (Model/LocksetRegions.v): a lock region that encloses a possibly-panicking
   call is closed by a deferred Unlock, unless no analysed function recovers a panic raised there
   (then the panic leaves the public API, which the dynamic leg reports under the "no panics"
   clause).  Possibly-panicking = call of a function value, interface method call, explicit
   panic, or a static call outside the analysed packages other than the prefixes below. *)
Definition region_policy : region_policy := mkRP
  [ (* the library's own logging front end and clock / float helpers; a user logger that panics
       is outside the claim *)
    "logging."; "util.";
    (* error construction and formatting (fmt recovers panics of String/Error methods itself) *)
    "errors."; "fmt."; "math." ]
  [ (* no function of the analysed packages returns holding a lock it acquired *) ].
