(* Specification side of C17: the ghost ("what was accepted and what is still retained") state
   of the metric log at the level of items - no bytes, no file names, no index - and what a
   query must return.  No proofs here.

   A retained file is a list of groups; a group is (second, the lines of that second in that
   file), i.e. what one idx entry covers.  Files and groups are in chronological order. *)
From SG Require Import Base.Prelude Base.GoInt Model.MLBytes Model.MLDecimal Model.MetricLog.

Definition group := (Z * list item)%type.
Definition gitems (gs : list group) : list item := flat_map snd gs.

Fixpoint upd_last {A} (f : A -> A) (l : list A) : list A :=
  match l with
  | [] => []
  | x :: r => match r with [] => [f x] | _ => x :: upd_last f r end
  end.

Record gstate := mkGS { gs_files : list (list group); gs_latest : Z }.

(* a roll (day or size): the oldest len - max + 1 files disappear, a new empty file starts *)
Definition g_roll (c : cfg) (g : gstate) : gstate :=
  mkGS (dropZ (lenZ (gs_files g) - c_max_files c + 1) (gs_files g) ++ [[]]) (gs_latest g).

(* lines of second `sec` appended to a file: a new group if the second is new or the file is
   empty, else they extend the last group *)
Definition g_add (latest sec : Z) (its : list item) (cur : list group) : list group :=
  if (sec >? latest) || (match cur with [] => true | _ => false end)
  then cur ++ [(sec, its)]
  else upd_last (fun p : group => (fst p, snd p ++ its)) cur.

Definition g_cur (g : gstate) : list group := last (gs_files g) [].

Definition g_write (c : cfg) (g : gstate) (ts : Z) (tstr : bytes) (items : list item) : gstate :=
  match items with
  | [] => g
  | _ =>
    if ts <=? 0 then g else
    let sec := ts / 1000 in
    if sec <? gs_latest g then g else
    let g1 := if (sec >? gs_latest g) && is_new_day c (gs_latest g) sec then g_roll c g else g in
    let g2 := mkGS (upd_last (g_add (gs_latest g) sec (map (stamp ts tstr) items)) (gs_files g1)) (gs_latest g) in
    let g3 := if lenZ (enc_lines (gitems (g_cur g2))) >=? c_max_size c then g_roll c g2 else g2 in
    mkGS (gs_files g3) (if sec >? gs_latest g then sec else gs_latest g)
  end.

Definition g_init (t0 : Z) : gstate := mkGS [[]] (t0 / 1000).

Definition g_step (c : cfg) (g : gstate) (o : op) : gstate :=
  match o with Write ts tstr items => g_write c g ts tstr items | Find _ => g end.

Definition g_run (c : cfg) (g : gstate) (ops : list op) : gstate := fold_left (g_step c) ops g.

(* the items in the retained files, oldest first *)
Definition retained (g : gstate) : list item := flat_map gitems (gs_files g).

(* every item the writer accepted (not ignored) since its creation at t0, in order *)
Fixpoint accepted_from (latest : Z) (ops : list op) : list item :=
  match ops with
  | [] => []
  | Write ts tstr items :: r =>
      if (match items with [] => false | _ => true end) && (0 <? ts) && (ts / 1000 >=? latest)
      then map (stamp ts tstr) items ++ accepted_from (Z.max latest (ts / 1000)) r
      else accepted_from latest r
  | Find _ :: r => accepted_from latest r
  end.

Definition accepted (t0 : Z) (ops : list op) : list item := accepted_from (t0 / 1000) ops.

(* ---------------------------------------------------------------- what a query must return *)

Definition res_match (res : bytes) (it : item) : bool :=
  match res with [] => true | _ => bytes_eqb res (i_res it) end.

(* FindByTimeAndResource: every retained item of the seconds [begin, end] (and of the resource,
   "" = all), in log order, each once; the reader stops at maxItemAmount items *)
Definition range_spec (b e : Z) (res : bytes) (R : list item) : list item :=
  firstn (Z.to_nat max_item_amount)
         (filter (fun it => (b / 1000 <=? sec_of it) && (sec_of it <=? e / 1000) && res_match res it) R).

(* FindFromTimeWithMaxLines: a prefix P of the retained items from second `begin` on, in log
   order, each once; complete unless the line limit m was reached; an item beyond the limit is
   returned only if it continues the second of the item before it (the reader finishes the
   second it is in; the initial "previous second" is 0) *)
Definition from_spec (b m : Z) (R P : list item) : Prop :=
  let S := filter (fun it => b / 1000 <=? sec_of it) R in
  (exists T, S = P ++ T) /\
  (P = S \/ m <= lenZ P) /\
  (forall i x, nth_error P i = Some x -> m <= Z.of_nat i -> sec_of x = latest_second (firstn i P)).

Definition find_ok (R : list item) (q : query) (out : list item) : Prop :=
  match q with
  | QRange b e res => out = range_spec b e res R
  | QFrom b m => from_spec b m R out
  end.

Definition out_ok (g : gstate) (o : op) (out : list item) : Prop :=
  match o with
  | Write _ _ _ => out = []
  | Find q => find_ok (retained g) q out
  end.

(* the outputs of a history, each judged against the ghost state at the time of the operation *)
Fixpoint outs_ok (c : cfg) (g : gstate) (ops : list op) (outs : list (list item)) : Prop :=
  match ops, outs with
  | [], [] => True
  | o :: r, out :: routs => out_ok g o out /\ outs_ok c (g_step c g o) r routs
  | _, _ => False
  end.

(* non-decreasing seconds *)
Fixpoint sorted_sec (l : list item) : Prop :=
  match l with
  | [] => True
  | x :: r => Forall (fun y => sec_of x <= sec_of y) r /\ sorted_sec r
  end.

(* ---------------------------------------------------------------- truncation *)

(* the items whose line (with its LF) lies wholly before byte c of enc_lines its *)
Fixpoint vis_items (c : Z) (its : list item) : list item :=
  match its with
  | [] => []
  | it :: r => let n := lenZ (format_item it) + 1 in
               if n <=? c then it :: vis_items (c - n) r else []
  end.

(* the retained items when the last data file is cut at byte c *)
Definition retained_cut (c : Z) (g : gstate) : list item :=
  flat_map gitems (removelast (gs_files g)) ++ vis_items c (gitems (g_cur g)).
