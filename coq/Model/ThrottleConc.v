(* ThrottlingChecker.DoCheck under arbitrary interleavings: a program-counter machine whose
   steps are exactly the code's atomic accesses to lastPassedTime, each labelled with the id of
   the vhook.Yield that precedes it in core/flow/tc_throttling.go (the compare-and-swap loop
   of /repo 65f15f6):

     Start : batch/threshold tests, curNano := clock, intervalNs            -> 201 | Done
     201   : loaded := Load(last); pass := max(loaded + i, cur);
             wait := pass - cur;  wait > maxq ?                             -> Done(block) | 202
     202   : CAS(last, loaded, pass)                                        -> Done(pass, wait) | 201

   The clock is read once per call, at Start, before the loop: a caller that is parked while
   the clock moves keeps its stale reading (that is the code, and part of the model).
   A schedule is a list of `Run tid` (one step of one caller) and `SetClock t` (virtual time
   moves - in any direction - while callers are parked).  Each caller performs one DoCheck;
   its arrival time is the clock value at its Start step.  The number of callers is unbounded.
   No proofs here. *)
From SG Require Import Base.Prelude Base.GoInt Model.Throttle.

Inductive pc := PStart | P201 | P202 | PDone.

Definition label (p : pc) : Z :=
  match p with PStart => 0 | P201 => 201 | P202 => 202 | PDone => -1 end.

Record thread := { t_pc : pc; t_b : Z; t_now : Z; t_loaded : Z; t_out : option out }.

Definition mk_thread (b : Z) : thread :=
  {| t_pc := PStart; t_b := b; t_now := 0; t_loaded := 0; t_out := None |}.

Inductive ev := Run (tid : nat) | SetClock (t : Z).

(* ghost log, chronological: what the theorems talk about *)
Inductive gev :=
| ELoad (tid : nat) (seen : Z)                   (* the Load at 201 returned `seen` *)
| EGrant (tid : nat) (now b wait seen : Z)       (* successful CAS seen -> now + wait: admitted *)
| EFail (tid : nat)                              (* failed CAS: back to 201 *)
| EBlock (tid : nat) (now b seen : Z).           (* rejected at 201 on the value it loaded *)

Definition ev_tid (e : gev) : nat :=
  match e with ELoad t _ => t | EGrant t _ _ _ _ => t | EFail t => t | EBlock t _ _ _ => t end.

Record cst := { c_last : Z; c_clock : Z; c_threads : list thread; c_log : list gev }.

Definition cinit (bs : list Z) : cst :=
  {| c_last := last0; c_clock := 0; c_threads := map mk_thread bs; c_log := [] |}.

Section Generic.
  Variable blk : Z -> bool.
  Variable iv : Z -> Z.
  Variable maxq : Z.

  Definition done (th : thread) (o : out) : thread :=
    {| t_pc := PDone; t_b := t_b th; t_now := t_now th; t_loaded := t_loaded th; t_out := Some o |}.
  Definition goto (th : thread) (p : pc) : thread :=
    {| t_pc := p; t_b := t_b th; t_now := t_now th; t_loaded := t_loaded th; t_out := t_out th |}.

  (* the pass time a caller computes from the value it loaded *)
  Definition pass_of (loaded now b : Z) : Z := Z.max (loaded + iv b) now.

  (* one step of thread `th` (index tid): new shared value, new thread state, ghost events *)
  Definition tstep (tid : nat) (last clock : Z) (th : thread) : Z * thread * list gev :=
    let b := t_b th in
    let now := t_now th in
    match t_pc th with
    | PStart =>
        if b <=? 0 then (last, done th OZero, [])
        else if blk b then (last, done th OBlock, [])
        else (last, {| t_pc := P201; t_b := b; t_now := clock; t_loaded := 0; t_out := None |}, [])
    | P201 =>
        let th' := {| t_pc := P202; t_b := b; t_now := now; t_loaded := last; t_out := None |} in
        if pass_of last now b - now >? maxq
        then (last, done th' OBlock, [ELoad tid last; EBlock tid now b last])
        else (last, th', [ELoad tid last])
    | P202 =>
        let pass := pass_of (t_loaded th) now b in
        if last =? t_loaded th
        then (pass, done th (OPass (pass - now)), [EGrant tid now b (pass - now) (t_loaded th)])
        else (last, goto th P201, [EFail tid])
    | PDone => (last, th, [])
    end.

  Definition cstep (s : cst) (e : ev) : cst :=
    match e with
    | SetClock t => {| c_last := c_last s; c_clock := t; c_threads := c_threads s; c_log := c_log s |}
    | Run tid =>
        match nth_error (c_threads s) tid with
        | None => s
        | Some th =>
            let '(l, th', g) := tstep tid (c_last s) (c_clock s) th in
            {| c_last := l; c_clock := c_clock s;
               c_threads := upd_nth tid (fun _ => th') (c_threads s);
               c_log := c_log s ++ g |}
        end
    end.

  Definition cexec (sched : list ev) (s : cst) : cst := fold_left cstep sched s.

  (* the label each Run step parks at afterwards (what the scheduler reports), 0 for SetClock
     events and -2 for a thread index that does not exist *)
  Fixpoint labels (sched : list ev) (s : cst) : list Z :=
    match sched with
    | [] => []
    | e :: r =>
        let s' := cstep s e in
        (match e with
         | SetClock _ => 0
         | Run tid => match nth_error (c_threads s') tid with Some th => label (t_pc th) | None => -2 end
         end) :: labels r s'
    end.

  Definition outcomes (s : cst) : list (option out) := map t_out (c_threads s).

  (* the admitted requests of a log, in the order of their successful CASes *)
  Fixpoint grants_of (l : list gev) : list grant :=
    match l with
    | [] => []
    | EGrant _ now b w _ :: r => {| g_now := now; g_b := b; g_pass := now + w |} :: grants_of r
    | _ :: r => grants_of r
    end.

  (* the callers that own these grants, same order *)
  Fixpoint gtids (l : list gev) : list nat :=
    match l with
    | [] => []
    | EGrant t _ _ _ _ :: r => t :: gtids r
    | _ :: r => gtids r
    end.

  (* the events after the last event of caller `tid` *)
  Definition since (tid : nat) (l : list gev) : list gev :=
    fold_left (fun acc e => if Nat.eqb (ev_tid e) tid then [] else acc ++ [e]) l [].

  Definition granted_to_other (tid : nat) (e : gev) : Prop :=
    match e with EGrant t _ _ _ _ => t <> tid | _ => False end.

  (* lock-freedom, local form: every failed CAS of a caller is preceded, after that caller's
     previous event (which is its Load), by a successful CAS of another caller.
     `pre` is the log before `l`. *)
  Fixpoint fails_justified (pre l : list gev) : Prop :=
    match l with
    | [] => True
    | e :: r =>
        match e with
        | EFail tid => (exists seen l0, pre = l0 ++ ELoad tid seen :: since tid pre) /\
                       Exists (granted_to_other tid) (since tid pre)
        | _ => True
        end /\ fails_justified (pre ++ [e]) r
    end.

  Definition fails (tid : nat) (l : list gev) : nat :=
    length (filter (fun e => match e with EFail t => Nat.eqb t tid | _ => false end) l).

  (* successful CASes of callers other than tid *)
  Definition others (tid : nat) (l : list gev) : nat :=
    length (filter (fun t => negb (Nat.eqb t tid)) (gtids l)).
End Generic.

Definition cexec_c (c : cfg) := cexec (early_block c) (interval c) (maxq_ns c).
Definition labels_c (c : cfg) := labels (early_block c) (interval c) (maxq_ns c).
