(* ThrottlingChecker.DoCheck under arbitrary interleavings: a program-counter machine whose
   steps are exactly the code's atomic accesses to lastPassedTime, each labelled with the id of
   the vhook.Yield that precedes it in core/flow/tc_throttling.go:

     Start : batch/threshold tests, curNano := clock, intervalNs        -> 201 | Done
     201   : loaded := Load(last); expected := loaded + i               -> 202 (expected <= cur) | 203
     202   : CAS(last, loaded, cur)                                     -> Done(pass, wait 0) | 203
     203   : est := Load(last) + i - cur;  est > maxq ?                 -> Done(block) | 204
     204   : new := Add(last, +i); est := new - cur;  est > maxq ?      -> 205 | Done(pass, wait max(est,0))
     205   : Add(last, -i)                                              -> Done(block)

   A schedule is a list of `Run tid` (one step of one caller) and `SetClock t` (virtual time
   moves while callers are parked).  Each caller performs one DoCheck; its arrival time is the
   clock value at its Start step.  The number of callers is unbounded.  No proofs here. *)
From SG Require Import Base.Prelude Base.GoInt Model.Throttle.

Inductive pc := PStart | P201 | P202 | P203 | P204 | P205 | PDone.

Definition label (p : pc) : Z :=
  match p with PStart => 0 | P201 => 201 | P202 => 202 | P203 => 203 | P204 => 204 | P205 => 205 | PDone => -1 end.

Record thread := { t_pc : pc; t_b : Z; t_now : Z; t_loaded : Z; t_out : option out }.

Definition mk_thread (b : Z) : thread :=
  {| t_pc := PStart; t_b := b; t_now := 0; t_loaded := 0; t_out := None |}.

Inductive ev := Run (tid : nat) | SetClock (t : Z).

(* ghost log, chronological: what the theorems talk about *)
Inductive gev :=
| EGrant (tid : nat) (now b wait last_after : Z)   (* admitted at its CAS / Add *)
| EAddOver (tid : nat) (b : Z)                     (* Add overshot the limit: rollback pending *)
| ERollback (tid : nat) (b : Z)                    (* the compensating Add(-i) *)
| EBlock (tid : nat) (now b last_seen : Z).        (* rejected at 203 on the value it loaded *)

Record cst := { c_last : Z; c_clock : Z; c_threads : list thread; c_log : list gev }.

Definition cinit (bs : list Z) : cst :=
  {| c_last := last0; c_clock := 0; c_threads := map mk_thread bs; c_log := [] |}.

Section Generic.
  Variable blk : Z -> bool.
  Variable iv : Z -> Z.
  Variable maxq : Z.

  Definition done (th : thread) (o : out) : thread :=
    {| t_pc := PDone; t_b := t_b th; t_now := t_now th; t_loaded := t_loaded th; t_out := Some o |}.
  Definition goto (th : thread) (p : pc) : thread :=
    {| t_pc := p; t_b := t_b th; t_now := t_now th; t_loaded := t_loaded th; t_out := t_out th |}.

  (* one step of thread `th` (index tid): new shared value, new thread state, ghost events *)
  Definition tstep (tid : nat) (last clock : Z) (th : thread) : Z * thread * list gev :=
    let b := t_b th in
    let i := iv b in
    let now := t_now th in
    match t_pc th with
    | PStart =>
        if b <=? 0 then (last, done th OZero, [])
        else if blk b then (last, done th OBlock, [])
        else (last, {| t_pc := P201; t_b := b; t_now := clock; t_loaded := 0; t_out := None |}, [])
    | P201 =>
        let th' := {| t_pc := (if last + i <=? now then P202 else P203);
                      t_b := b; t_now := now; t_loaded := last; t_out := None |} in
        (last, th', [])
    | P202 =>
        if last =? t_loaded th
        then (now, done th (OPass 0), [EGrant tid now b 0 now])
        else (last, goto th P203, [])
    | P203 =>
        if last + i - now >? maxq then (last, done th OBlock, [EBlock tid now b last])
        else (last, goto th P204, [])
    | P204 =>
        let new := last + i in
        let est := new - now in
        if est >? maxq then (new, goto th P205, [EAddOver tid b])
        else let w := if est >? 0 then est else 0 in
             (new, done th (OPass w), [EGrant tid now b w new])
    | P205 => (last - i, done th OBlock, [ERollback tid b])
    | PDone => (last, th, [])
    end.

  Definition cstep (s : cst) (e : ev) : cst :=
    match e with
    | SetClock t => {| c_last := c_last s; c_clock := t; c_threads := c_threads s; c_log := c_log s |}
    | Run tid =>
        match nth_error (c_threads s) tid with
        | None => s
        | Some th =>
            let '(l, th', g) := tstep tid (c_last s) (c_clock s) th in
            {| c_last := l; c_clock := c_clock s;
               c_threads := upd_nth tid (fun _ => th') (c_threads s);
               c_log := c_log s ++ g |}
        end
    end.

  Definition cexec (sched : list ev) (s : cst) : cst := fold_left cstep sched s.

  (* the label each Run step parks at afterwards (what the scheduler reports), 0 for SetClock
     events and -2 for a thread index that does not exist *)
  Fixpoint labels (sched : list ev) (s : cst) : list Z :=
    match sched with
    | [] => []
    | e :: r =>
        let s' := cstep s e in
        (match e with
         | SetClock _ => 0
         | Run tid => match nth_error (c_threads s') tid with Some th => label (t_pc th) | None => -2 end
         end) :: labels r s'
    end.

  Definition outcomes (s : cst) : list (option out) := map t_out (c_threads s).

  (* the admitted requests of a log, in the order of their CAS / Add *)
  Fixpoint grants_of (l : list gev) : list grant :=
    match l with
    | [] => []
    | EGrant _ now b w _ :: r => {| g_now := now; g_b := b; g_pass := now + w |} :: grants_of r
    | _ :: r => grants_of r
    end.

  (* no caller added and had to roll back *)
  Definition rollback_free (l : list gev) : Prop :=
    Forall (fun e => match e with EAddOver _ _ | ERollback _ _ => False | _ => True end) l.

  (* no caller was admitted by an Add whose result already lay in its past (pass time =
     arrival > stored time): this happens only to the loser of a CAS whose clock reading is
     older than the winner's by more than an interval *)
  Definition stale_free (l : list gev) : Prop :=
    Forall (fun e => match e with EGrant _ now _ w la => la = now + w | _ => True end) l.
End Generic.

Definition cexec_c (c : cfg) := cexec (early_block c) (interval c) (maxq_ns c).
Definition labels_c (c : cfg) := labels (early_block c) (interval c) (maxq_ns c).
