(* Model of core/flow for Reject + Direct rules (property C02), on top of Model/LeapArray.v and
   Model/StatNode.v:

     rule_manager.go   generateStatFor (which statistic a rule reads), IsValidRule (threshold),
                       buildResourceTrafficShapingController (one controller per valid rule, in order)
     tc_default.go     DirectTrafficShapingCalculator, RejectTrafficShapingChecker.DoCheck
     slot.go           Slot.Check (rules in order, first blocking rule wins)
     stat_slot.go      stat.Slot OnEntryPassed / OnEntryBlocked / OnCompleted on the resource node
     standalone_stat_slot.go   StandaloneStatSlot.OnEntryPassed (feeds the independent arrays)
     slot_chain.go     Entry = prepare; rule check; [yield 400]; statistic slots

   A request is a two-phase machine, exactly the two halves of SlotChain.Entry around the yield
   point 400: [EChk] (prepare slot + rule check, reads only) and [ERec] (statistic slots,
   writes only).  A sequential Entry is EChk immediately followed by its ERec.

   Time is an input of every event (the virtual clock value the code reads).  Resources are
   integers.  The field [w_adm] is a ghost: the list of admitted requests (record time,
   resource, batch) in reverse order; no decision of the model reads it — it is what the
   theorems of C02 compare the window reads with. *)
From Coq Require Import Floats.
From SG Require Import Base.Prelude Base.GoInt Base.GoFloat Model.LeapArray Model.StatNode.
#[local] Open Scope Z_scope.

(* ---- configuration (core/config): global array geometry and the default metric view ---- *)
Record cfg := { g_n : Z; g_itv : Z; m_n : Z; m_itv : Z }.
Definition default_cfg : cfg := {| g_n := 20; g_itv := 10000; m_n := 2; m_itv := 1000 |}.
(* config.GlobalStatisticBucketLengthInMs: uint32 division *)
Definition g_bl (c : cfg) : Z := g_itv c / g_n c.

(* ---- flow.Rule, the fields a Reject/Direct rule uses ---- *)
Record rule := {
  r_thr : float;     (* Threshold *)
  r_itv : Z;         (* StatIntervalInMs (uint32) *)
  r_assoc : bool;    (* RelationStrategy == AssociatedResource *)
  r_ref : Z          (* RefResource *)
}.

(* IsValidRule: `math.IsNaN(rule.Threshold)` and `rule.Threshold < 0` are the only tests that can fail
   for the rules modelled here *)
Definition rule_valid (r : rule) : bool := (r_thr r =? r_thr r)%float && negb (r_thr r <? 0)%float.

(* base.CheckValidityForReuseStatistic, with its three kinds of error *)
Inductive validity := VOk | VIllegal | VIllegalGlobal | VNonReusable.
Definition check_validity (vn vitv pn pitv : Z) : validity :=
  if (vitv =? 0) || (vn =? 0) || negb (vitv mod vn =? 0) then VIllegal
  else if (pitv =? 0) || (pn =? 0) || negb (pitv mod pn =? 0) then VIllegalGlobal
  else if negb (pitv mod vitv =? 0) then VNonReusable
  else if negb ((vitv / vn) mod (pitv / pn) =? 0) then VNonReusable
  else VOk.

(* the sample count generateStatFor derives from the interval *)
Definition sample_count (c : cfg) (itv : Z) : Z :=
  if g_itv c <? itv then 1
  else if itv <? g_bl c then 1
  else if itv mod g_bl c =? 0 then itv / g_bl c
  else 1.

(* standaloneStatistic: either a read-only view over the global array of a resource node
   (reuseResourceStat = true, writeOnlyMetric = nil), or an independent BucketLeapArray with its
   own SlidingWindowMetric of the same geometry *)
Inductive rstat :=
| RView (res : Z) (v : view)
| RAlone (a : bla) (v : view).

Inductive stat_kind := SKDefault | SKDerived (sc itv : Z) | SKAlone (sc itv : Z) | SKError.

Definition stat_kind_of (c : cfg) (itv : Z) : stat_kind :=
  if (itv =? 0) || (itv =? m_itv c) then SKDefault
  else
    let sc := sample_count c itv in
    match check_validity sc itv (g_n c) (g_itv c) with
    | VOk => SKDerived sc itv
    | VNonReusable => SKAlone sc itv
    | _ => SKError
    end.

(* the resource whose node / whose passed requests the rule's statistic counts *)
Definition rule_target (own : Z) (r : rule) : Z := if r_assoc r then r_ref r else own.

(* generateStatFor (the node of the target resource is created by the caller, [load]) *)
Definition generate_stat (c : cfg) (own : Z) (r : rule) (now : Z) : option rstat :=
  match stat_kind_of c (r_itv r) with
  | SKDefault => Some (RView (rule_target own r) {| v_n := m_n c; v_itv := m_itv c |})
  | SKDerived sc itv => Some (RView (rule_target own r) {| v_n := sc; v_itv := itv |})
  | SKAlone sc itv => Some (RAlone (bla_new sc itv now) {| v_n := sc; v_itv := itv |})
  | SKError => None
  end.

(* TrafficShapingController *)
Record ctrl := { c_idx : Z; c_rule : rule; c_stat : rstat }.
Definition c_target (own : Z) (x : ctrl) : Z := rule_target own (c_rule x).

Inductive obs := OPass | OBlock (idx : Z) (cur : Z) | ONone.

(* a request between its rule check and its statistic phase *)
Record pend := { p_res : Z; p_batch : Z; p_out : obs }.

Record world := {
  w_cfg   : cfg;
  w_nodes : list (Z * node);          (* stat.resNodeMap *)
  w_ctrls : list (Z * list ctrl);     (* flow.tcMap *)
  w_pend  : list (Z * pend);
  w_adm   : list (Z * Z * Z)          (* ghost: admitted (record time, resource, batch), newest first *)
}.

Definition with_nodes (w : world) (ns : list (Z * node)) : world :=
  {| w_cfg := w_cfg w; w_nodes := ns; w_ctrls := w_ctrls w; w_pend := w_pend w; w_adm := w_adm w |}.

(* stat.GetOrCreateResourceNode *)
Definition new_node (c : cfg) (now : Z) : node := node_new (g_n c) (g_itv c) (m_n c) (m_itv c) now.
Definition ensure_node (c : cfg) (ns : list (Z * node)) (res now : Z) : list (Z * node) :=
  match alookup res ns with Some _ => ns | None => ns ++ [(res, new_node c now)] end.

(* ---- LoadRules on a fresh manager: rules grouped by resource, in loading order ---- *)
Fixpoint build_ctrls (c : cfg) (own now : Z) (i : Z) (rs : list rule) : list ctrl :=
  match rs with
  | [] => []
  | r :: rest =>
      if rule_valid r then
        match generate_stat c own r now with
        | Some s => {| c_idx := i; c_rule := r; c_stat := s |} :: build_ctrls c own now (i + 1) rest
        | None => build_ctrls c own now (i + 1) rest
        end
      else build_ctrls c own now (i + 1) rest
  end.

(* generateStatFor's GetOrCreateResourceNode for every valid rule *)
Fixpoint load_nodes (c : cfg) (ns : list (Z * node)) (own now : Z) (rs : list rule) : list (Z * node) :=
  match rs with
  | [] => ns
  | r :: rest =>
      load_nodes c (if rule_valid r then ensure_node c ns (rule_target own r) now else ns) own now rest
  end.

Fixpoint load_all (c : cfg) (now : Z) (rules : list (Z * list rule)) (ns : list (Z * node))
  : list (Z * node) * list (Z * list ctrl) :=
  match rules with
  | [] => (ns, [])
  | (own, rs) :: rest =>
      let ns1 := load_nodes c ns own now rs in
      let '(ns2, cs) := load_all c now rest ns1 in
      (ns2, match build_ctrls c own now 0 rs with [] => cs | l => (own, l) :: cs end)
  end.

Definition load (c : cfg) (now : Z) (rules : list (Z * list rule)) : world :=
  let '(ns, cs) := load_all c now rules [] in
  {| w_cfg := c; w_nodes := ns; w_ctrls := cs; w_pend := []; w_adm := [] |}.

Definition ctrls_of (w : world) (res : Z) : list ctrl :=
  match alookup res (w_ctrls w) with Some l => l | None => [] end.

(* ---- the rule check ---- *)

(* metricReadonlyStat.GetSum(MetricEventPass) at time t *)
Definition ctrl_sum (w : world) (x : ctrl) (t : Z) : option Z :=
  match c_stat x with
  | RView res v =>
      match alookup res (w_nodes w) with
      | Some nd => Some (view_sum (nd_arr nd) v t EvPass)
      | None => None                      (* selectNodeByRelStrategy = nil: the rule passes *)
      end
  | RAlone a v => Some (view_sum a v t EvPass)
  end.

(* RejectTrafficShapingChecker.DoCheck with the Direct calculator:
   float64(sum) + float64(batchCount) > threshold *)
Definition rule_blocks (thr : float) (sum b : Z) : bool :=
  (thr <? f_of_i64 sum + f_of_u64 b)%float.

(* flow.Slot.Check *)
Fixpoint flow_check (w : world) (cs : list ctrl) (t b : Z) : obs :=
  match cs with
  | [] => OPass
  | x :: r =>
      match ctrl_sum w x t with
      | Some s => if rule_blocks (r_thr (c_rule x)) s b then OBlock (c_idx x) s else flow_check w r t b
      | None => flow_check w r t b
      end
  end.

(* ---- the statistic slots ---- *)

Definition upd_node (ns : list (Z * node)) (res : Z) (f : node -> node) : list (Z * node) :=
  map (fun p => if fst p =? res then (fst p, f (snd p)) else p) ns.

(* StandaloneStatSlot.OnEntryPassed: the independent array of a rule is fed by the passed
   requests of the rule's target resource (own resource; referenced resource for an
   associated rule) *)
Definition feed_ctrl (own res t b : Z) (x : ctrl) : ctrl :=
  match c_stat x with
  | RAlone a v =>
      if c_target own x =? res
      then {| c_idx := c_idx x; c_rule := c_rule x; c_stat := RAlone (bla_add a t EvPass b) v |}
      else x
  | RView _ _ => x
  end.
Definition feed_alone (cs : list (Z * list ctrl)) (res t b : Z) : list (Z * list ctrl) :=
  map (fun p => (fst p, map (feed_ctrl (fst p) res t b) (snd p))) cs.

(* events *)
Inductive ev :=
| EChk (tid t res b : Z)       (* prepare slot + rule-check slots of request tid at time t *)
| ERec (tid t : Z)             (* its statistic slots at time t *)
| EExit (t res b t_in : Z).    (* Exit of an admitted entry of res (batch b, entered at t_in) *)

Fixpoint premove (k : Z) (l : list (Z * pend)) : list (Z * pend) :=
  match l with
  | [] => []
  | (k', v) :: r => if k =? k' then r else (k', v) :: premove k r
  end.

Definition chk (w : world) (tid t res b : Z) : world * obs :=
  let ns := ensure_node (w_cfg w) (w_nodes w) res t in
  let w1 := with_nodes w ns in
  let o := flow_check w1 (ctrls_of w1 res) t b in
  ({| w_cfg := w_cfg w; w_nodes := ns; w_ctrls := w_ctrls w;
      w_pend := (tid, {| p_res := res; p_batch := b; p_out := o |}) :: w_pend w; w_adm := w_adm w |}, o).

Definition rec_pass (w : world) (t res b : Z) (pd : list (Z * pend)) : world :=
  {| w_cfg := w_cfg w;
     w_nodes := upd_node (w_nodes w) res (fun nd => node_add (node_inc nd t) t EvPass b);
     w_ctrls := feed_alone (w_ctrls w) res t b;
     w_pend := pd;
     w_adm := (t, res, b) :: w_adm w |}.

Definition rec_block (w : world) (t res b : Z) (pd : list (Z * pend)) : world :=
  {| w_cfg := w_cfg w;
     w_nodes := upd_node (w_nodes w) res (fun nd => node_add nd t EvBlock b);
     w_ctrls := w_ctrls w; w_pend := pd; w_adm := w_adm w |}.

Definition estep (w : world) (e : ev) : world * obs :=
  match e with
  | EChk tid t res b => chk w tid t res b
  | ERec tid t =>
      match alookup tid (w_pend w) with
      | Some p =>
          let pd := premove tid (w_pend w) in
          (match p_out p with
           | OBlock _ _ => rec_block w t (p_res p) (p_batch p) pd
           | _ => rec_pass w t (p_res p) (p_batch p) pd
           end, ONone)
      | None => (w, ONone)
      end
  | EExit t res b t_in =>
      (* stat.Slot.OnCompleted: rt = now - startTime (uint64); AddCount(Rt); AddCount(Complete);
         DecreaseConcurrency *)
      (with_nodes w (upd_node (w_nodes w) res (fun nd =>
         node_dec (node_add (node_add nd t EvRt (u64 (t - t_in))) t EvComplete b))), ONone)
  end.

Fixpoint erun (w : world) (es : list ev) : world * list obs :=
  match es with
  | [] => (w, [])
  | e :: r => let '(w1, o) := estep w e in let '(w2, os) := erun w1 r in (w2, o :: os)
  end.

(* sequential operations of the public API *)
Inductive op :=
| Enter (t res b : Z)             (* api.Entry(res, WithBatchCount(b)) at time t *)
| Exit (t res b t_in : Z).

Definition op_events (i : Z) (o : op) : list ev :=
  match o with
  | Enter t res b => [EChk i t res b; ERec i t]
  | Exit t res b t_in => [EExit t res b t_in]
  end.

Definition step (w : world) (o : op) : world * obs :=
  match o with
  | Enter t res b => let '(w1, out) := chk w 0 t res b in (fst (estep w1 (ERec 0 t)), out)
  | Exit t res b t_in => estep w (EExit t res b t_in)
  end.

Fixpoint run (w : world) (ops : list op) : world * list obs :=
  match ops with
  | [] => (w, [])
  | o :: r => let '(w1, x) := step w o in let '(w2, xs) := run w1 r in (w2, x :: xs)
  end.

(* ---- reference quantities of the theorems ---- *)

(* admitted tokens of resource res with lo <= record time < hi *)
Fixpoint adm_sum (l : list (Z * Z * Z)) (res lo hi : Z) : Z :=
  match l with
  | [] => 0
  | (t, r, b) :: rest =>
      (if (r =? res) && (lo <=? t) && (t <? hi) then b else 0) + adm_sum rest res lo hi
  end.

(* the bucket-aligned statistic window a rule reads at time t: [win_lo, win_hi) *)
Definition ctrl_bl (c : cfg) (x : ctrl) : Z :=
  match c_stat x with RView _ _ => g_bl c | RAlone a _ => la_bl a end.
Definition ctrl_itv (x : ctrl) : Z :=
  match c_stat x with RView _ v => v_itv v | RAlone _ v => v_itv v end.
Definition win_hi (c : cfg) (x : ctrl) (t : Z) : Z := bstart (ctrl_bl c x) t + ctrl_bl c x.
Definition win_lo (c : cfg) (x : ctrl) (t : Z) : Z := win_hi c x t - ctrl_itv x.
