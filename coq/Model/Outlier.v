(* Model of core/outlier: slot.go (Slot.Check / checkAllNodes), stat_slot.go
   (MetricStatSlot.OnCompleted), rule_manager.go (nodeBreakers: lazy creation, deletion),
   recycler.go and retryer.go (status / counts maps; the real time.AfterFunc timers are replaced
   by explicit Fire / Connected / Disconnected operations), the node breakers they reuse from
   core/circuitbreaker/circuit_breaker.go (three-state machine, TryPass with its Open->HalfOpen
   side effect, OnRequestComplete for the three strategies over a one-bucket statistic window),
   and the part of core/base (pooled EntryContext / TokenResult) that carries the filter and
   half-open node lists from one request to the next.

   Executable definitions only; proofs are in Proofs/OutlierProofs.v and Proofs/OutlierFloat.v. *)
From Coq Require Import Floats.
From SG Require Import Base.Prelude Base.GoInt Base.GoFloat.
#[local] Open Scope Z_scope.

(* ---------------------------------------------------------------------------------------- *)
(* node breakers                                                                             *)

Inductive bstate := Closed | HalfOpen | Open.

Definition bstate_code (s : bstate) : Z :=          (* circuitbreaker.State constants *)
  match s with Closed => 0 | HalfOpen => 1 | Open => 2 end.

Definition is_half (s : bstate) : bool := match s with HalfOpen => true | _ => false end.

(* circuitbreaker.Rule, the fields that drive a breaker *)
Record brule := mkBR {
  strategy  : Z;      (* 0 SlowRequestRatio, 1 ErrorRatio, 2 ErrorCount *)
  retry_ms  : Z;      (* RetryTimeoutMs *)
  min_req   : Z;      (* MinRequestAmount *)
  stat_ms   : Z;      (* StatIntervalMs; the window has ONE bucket of this length *)
  max_rt    : Z;      (* MaxAllowedRtMs (strategy 0) *)
  thr       : float;  (* Threshold *)
  probe_num : Z       (* ProbeNum *)
}.

(* outlier.Rule *)
Record orule := mkOR {
  br     : brule;
  active : bool;      (* EnableActiveRecovery *)
  pct    : float      (* MaxEjectionPercent *)
}.

Record breaker := mkB {
  st         : bstate;
  next_retry : Z;     (* nextRetryTimestampMs *)
  cur_probe  : Z;     (* curProbeNumber *)
  bstart     : Z;     (* BucketStart of the only bucket *)
  bad        : Z;     (* slowCount / errorCount *)
  total      : Z      (* totalCount *)
}.

Definition new_breaker : breaker := mkB Closed 0 0 0 0 0.

Definition set_st (b : breaker) (s : bstate) : breaker :=
  mkB s (next_retry b) (cur_probe b) (bstart b) (bad b) (total b).

(* TryPass (identical in the three breaker types). Sequentially the CAS Open->HalfOpen always
   succeeds. The exit hook registered by fromOpenToHalfOpen only acts when the entry is blocked,
   which an outlier-only chain never does. *)
Definition try_pass (r : brule) (now : Z) (b : breaker) : bool * breaker :=
  match st b with
  | Closed => (true, b)
  | Open => if next_retry b <=? now then (true, set_st b HalfOpen) else (false, b)
  | HalfOpen => (0 <? probe_num r, b)
  end.

(* does this completion count as bad (slow / error)? *)
Definition is_bad (r : brule) (rt : Z) (err : bool) : bool :=
  if strategy r =? 0 then max_rt r <? rt else err.

(* the Closed-state trip decision, on the window sums after this completion was added *)
Definition trips (r : brule) (badc totalc : Z) : bool :=
  if strategy r =? 2 then go_u64_of_f (thr r) <=? badc
  else
    let ratio := (f_of_u64 badc / f_of_u64 totalc)%float in
    ((thr r <? ratio)%float || float64_equals ratio (thr r))%bool.

(* OnRequestComplete at clock `now` *)
Definition on_complete (r : brule) (now rt : Z) (err : bool) (b : breaker) : breaker :=
  (* currentCounter(): refresh the only bucket *)
  let ws := now - now mod stat_ms r in
  let '(bs, bc, tc) := if bstart b <? ws then (ws, 0, 0) else (bstart b, bad b, total b) in
  let isbad := is_bad r rt err in
  let bc := if isbad then bc + 1 else bc in
  let tc := tc + 1 in
  match st b with
  | Open => mkB Open (next_retry b) (cur_probe b) bs bc tc
  | HalfOpen =>
      if isbad then mkB Open (now + retry_ms r) 0 bs bc tc
      else
        let cp := cur_probe b + 1 in
        if ((probe_num r =? 0) || (probe_num r <=? cp))%bool
        then mkB Closed (next_retry b) 0 bs 0 0            (* fromHalfOpenToClosed; resetMetric *)
        else mkB HalfOpen (next_retry b) cp bs bc tc
  | Closed =>
      if tc <? min_req r then mkB Closed (next_retry b) (cur_probe b) bs bc tc
      else if trips r bc tc then mkB Open (now + retry_ms r) (cur_probe b) bs bc tc
      else mkB Closed (next_retry b) (cur_probe b) bs bc tc
  end.

(* ---------------------------------------------------------------------------------------- *)
(* association-list helpers                                                                  *)

Fixpoint adel {A} (k : Z) (l : list (Z * A)) : list (Z * A) :=
  match l with
  | [] => []
  | (k', v) :: r => if k =? k' then adel k r else (k', v) :: adel k r
  end.

Definition akeys {A} (l : list (Z * A)) : list Z := map fst l.

(* ---------------------------------------------------------------------------------------- *)
(* checkAllNodes                                                                             *)

(* int(float64(nodeCount) * rule.MaxEjectionPercent) *)
Definition limit_of (n : Z) (p : float) : Z := go_i64_of_f (f_of_i64 n * p)%float.

(* IsValidRule's range for MaxEjectionPercent (0 <= p <= 1; a NaN, which IsValidRule lets
   through, is not valid here) *)
Definition pct_valid (p : float) : bool := ((0 <=? p)%float && (p <=? 1)%float)%bool.

(* floor(n * p) with p taken at its exact binary value m * 2^e (reference for the bound) *)
Definition exact_floor (n : Z) (p : float) : Z :=
  match Prim2SF p with
  | S754_finite s m e =>
      let sm := if s then - Zpos m else Zpos m in
      if 0 <=? e then n * sm * 2 ^ e else (n * sm) / 2 ^ (- e)
  | _ => 0
  end.

Record acc := mkA {
  a_nodes : list (Z * breaker);
  a_filt  : list Z;
  a_outl  : list Z;
  a_half  : list Z
}.

(* one iteration of `for address, breaker := range nodeBreaks` *)
Definition visit (r : orule) (now lim : Z) (c : acc) (a : Z) : acc :=
  match alookup a (a_nodes c) with
  | None => c
  | Some b =>
      let tp := try_pass (br r) now b in
      if fst tp then
        mkA (aset a (snd tp) (a_nodes c)) (a_filt c) (a_outl c)
            (if (negb (active r) && is_half (st (snd tp)))%bool then a_half c ++ [a] else a_half c)
      else
        mkA (a_nodes c)
            (if Z.of_nat (length (a_filt c)) <? lim then a_filt c ++ [a] else a_filt c)
            (a_outl c ++ [a]) (a_half c)
  end.

(* `order` is the iteration order of the Go map: an input (any list of addresses; the
   implementation uses a permutation of the known addresses) *)
Definition check_all (r : orule) (now : Z) (nodes : list (Z * breaker)) (order : list Z) : acc :=
  fold_left (visit r now (limit_of (Z.of_nat (length nodes)) (pct r))) order (mkA nodes [] [] []).

(* ---------------------------------------------------------------------------------------- *)
(* recycler / retryer maps                                                                   *)

(* Recycler.scheduleNodes: only nodes without a status entry get one (false) and a timer *)
Fixpoint r_schedule (ns : list Z) (status : list (Z * bool)) : list (Z * bool) :=
  match ns with
  | [] => status
  | a :: rest =>
      r_schedule rest (match alookup a status with Some _ => status | None => aset a false status end)
  end.

(* Recycler.recover *)
Definition r_recover (a : Z) (status : list (Z * bool)) : list (Z * bool) :=
  match alookup a status with Some _ => aset a true status | None => status end.

(* Retryer.scheduleNodes *)
Fixpoint t_schedule (ns : list Z) (counts : list (Z * Z)) : list (Z * Z) :=
  match ns with
  | [] => counts
  | a :: rest =>
      t_schedule rest (match alookup a counts with Some _ => counts | None => aset a 1 counts end)
  end.

(* ---------------------------------------------------------------------------------------- *)
(* requests                                                                                  *)

(* what a live request's pooled EntryContext carries *)
Record rctx := mkC {
  c_outlier : bool;        (* the outlier check ran for this request *)
  c_start   : Z;           (* ctx.startTime *)
  c_filter  : list Z;      (* RuleCheckResult.filterNodes *)
  c_half    : list Z       (* RuleCheckResult.halfOpenNodes *)
}.

Record state := mkS {
  nodes   : list (Z * breaker);            (* nodeBreakers[resource] *)
  rstatus : list (Z * bool);               (* Recycler.status *)
  rcounts : list (Z * Z);                  (* Retryer.counts *)
  live    : list (Z * rctx);               (* context object -> live request using it *)
  pool    : list (Z * (list Z * list Z))   (* refurbished context objects in the sync.Pool: the node lists they still hold *)
}.

Definition init : state := mkS [] [] [] [] [].

Inductive op :=
| Enter (obj : Z) (outlier : bool) (now : Z) (order : list Z)
    (* api.Entry at clock `now`; sync.Pool handed out context object `obj` (an object that is
       not in the pool is a fresh one); outlier = the request runs on the outlier chain with a
       non-empty resource name, i.e. Slot.Check does its work; otherwise it is a request whose
       outlier check does not run (empty resource name, or a chain without the slot) *)
| Exit (obj : Z) (now : Z) (addr : Z) (err : bool)
    (* [TraceCallee(addr) if addr > 0;] [TraceError if err;] entry.Exit() at clock `now` *)
| Fire (a : Z)                       (* the recycler's timer for node a fires: recycle(a) *)
| Connected (now : Z) (a : Z) (rt : Z)   (* retryer: probe of node a succeeded: onConnected(a, rt) *)
| Disconnected (a : Z)               (* retryer: probe of node a failed: onDisconnected(a) *)
| Reload.
    (* LoadRules / LoadRuleOfResource for the resource with a rule whose circuit-breaker part, active
       flag and percentage are unchanged (an identical rule, or one that differs in RecoveryIntervalMs /
       RecycleIntervalS / MaxRecoveryAttempts / the check function): every node breaker is reused
       (BuildResourceCircuitBreaker keeps the breaker of an equal rule), the recycler and the retryer of
       the resource - and the timers they have armed - stay. Nothing changes. Reloads that change a
       breaker field rebuild the node breakers and are outside this model (C13 / C14). *)

Inductive out :=
| OLists (filter half : list Z)      (* entry.Context().FilterNodes() / HalfOpenNodes() *)
| ONone.

(* MetricStatSlot.OnCompleted with a valid address *)
Definition stat_complete (r : orule) (s : state) (now rt addr : Z) (err : bool) : state :=
  let b := match alookup addr (nodes s) with Some b => b | None => new_breaker end in
  mkS (aset addr (on_complete (br r) now rt err b) (nodes s))
      (if err then rstatus s else r_recover addr (rstatus s))
      (rcounts s) (live s) (pool s).

(* Recycler.recycle *)
Definition recycle (s : state) (a : Z) : state :=
  mkS (match alookup a (rstatus s) with Some false => adel a (nodes s) | _ => nodes s end)
      (adel a (rstatus s)) (rcounts s) (live s) (pool s).

Definition step (r : orule) (s : state) (o : op) : state * out :=
  match o with
  | Enter obj outl now order =>
      let held := match alookup obj (pool s) with Some l => l | None => ([], []) end in
      let pool' := adel obj (pool s) in
      if outl then
        let c := check_all r now (nodes s) order in
        let sched := match a_outl c with [] => false | _ => true end in
        (mkS (a_nodes c)
             (if sched then r_schedule (a_outl c) (rstatus s) else rstatus s)
             (if (sched && active r)%bool then t_schedule (a_outl c) (rcounts s) else rcounts s)
             (aset obj (mkC true now (a_filt c) (a_half c)) (live s)) pool',
         OLists (a_filt c) (a_half c))
      else
        (mkS (nodes s) (rstatus s) (rcounts s)
             (aset obj (mkC false now (fst held) (snd held)) (live s)) pool',
         OLists (fst held) (snd held))
  | Exit obj now addr err =>
      match alookup obj (live s) with
      | None => (s, ONone)
      | Some c =>
          let s1 := if (c_outlier c && (0 <? addr))%bool
                    then stat_complete r s now (u64_sub now (c_start c)) addr err else s in
          (* RefurbishContext: EntryContext.Reset clears the node lists, then Put *)
          (mkS (nodes s1) (rstatus s1) (rcounts s1) (adel obj (live s1)) (aset obj ([], []) (pool s1)), ONone)
      end
  | Fire a => (recycle s a, ONone)
  | Connected now a rt =>
      (mkS (match alookup a (nodes s) with
            | Some b => aset a (on_complete (br r) now rt false b) (nodes s)
            | None => nodes s end)
           (r_recover a (rstatus s)) (adel a (rcounts s)) (live s) (pool s), ONone)
  | Disconnected a =>
      (mkS (nodes s) (rstatus s)
           (aset a (u32 (match alookup a (rcounts s) with Some c => c | None => 0 end + 1)) (rcounts s))
           (live s) (pool s), ONone)
  | Reload => (s, ONone)
  end.

Fixpoint run (r : orule) (s : state) (ops : list op) : state * list out :=
  match ops with
  | [] => (s, [])
  | o :: rest =>
      let '(s1, x) := step r s o in
      let '(s2, xs) := run r s1 rest in
      (s2, x :: xs)
  end.

Definition exec (r : orule) (s : state) (ops : list op) : state := fst (run r s ops).
