(* Throttling flow checker: core/flow/tc_throttling.go (NewThrottlingChecker, DoCheck) as
   driven by core/flow/slot.go (the slot sleeps for the returned wait).  Sequential model:
   one DoCheck runs to completion before the next starts.  Times are virtual nanoseconds
   (Z).  The interval is the float64 expression of the code evaluated with PrimFloat:
     intervalNs := int64(math.Ceil(float64(batchCount) / threshold * float64(statIntervalNs)))
   No proofs in this file. *)
From Coq Require Import Floats.
From SG Require Import Base.Prelude Base.GoInt Base.GoFloat.
#[local] Open Scope Z_scope.

(* ---------------------------------------------------------------------------------- *)
(* the checker's configuration, as NewThrottlingChecker builds it                      *)

Record cfg := { thr : float;      (* allowed tokens handed to DoCheck (rule.Threshold for Direct) *)
                ival_ns : Z;      (* statIntervalNs *)
                maxq_ns : Z }.    (* maxQueueingTimeNs *)

Definition ms_to_ns : Z := 1000000.

(* StatIntervalInMs = 0 selects 1000 ms *)
Definition mk_cfg (T : float) (timeout_ms stat_ms : Z) : cfg :=
  {| thr := T;
     ival_ns := (if stat_ms =? 0 then 1000 else stat_ms) * ms_to_ns;
     maxq_ns := timeout_ms * ms_to_ns |}.

(* int64(math.Ceil(f)): Ceil of a float is an integral float (or NaN/Inf); the conversion is
   exact when the value fits int64 and yields the amd64 "integer indefinite" otherwise *)
Definition go_ceil_i64 (f : float) : Z :=
  match f_ceil_Z f with
  | Some t => if ((- two63 <=? t) && (t <? two63))%bool then t else - two63
  | None => - two63
  end.

Definition interval_f (T : float) (ival b : Z) : float :=
  (f_of_u64 b / T * f_of_i64 ival)%float.

Definition interval (c : cfg) (b : Z) : Z := go_ceil_i64 (interval_f (thr c) (ival_ns c) b).

(* the two early rejections: threshold <= 0.0, float64(batchCount) > threshold *)
Definition early_block (c : cfg) (b : Z) : bool :=
  ((thr c <=? 0)%float || (thr c <? f_of_u64 b)%float)%bool.

(* ---------------------------------------------------------------------------------- *)
(* DoCheck, generic in the early-rejection predicate, the interval function and the   *)
(* queueing limit (the proofs do not depend on how these are computed)                *)

Inductive out :=
| OZero                 (* batchCount = 0: nil result, state untouched *)
| OPass (wait : Z)      (* admitted; the slot sleeps `wait` ns when wait > 0 *)
| OBlock.

Section Generic.
  Variable blk : Z -> bool.
  Variable iv : Z -> Z.
  Variable maxq : Z.

  (* one pass through the loop of DoCheck with nobody interfering (the CAS succeeds):
       loaded := Load(last); pass := max(loaded + i, cur); wait := pass - cur;
       wait > maxq -> blocked, state untouched;  CAS(last, loaded, pass) -> nil when wait = 0,
       ShouldWait(wait) otherwise *)
  Definition do_check (last now b : Z) : Z * out :=
    if b <=? 0 then (last, OZero) else
    if blk b then (last, OBlock) else
    let pass := Z.max (last + iv b) now in
    let wait := pass - now in
    if wait >? maxq then (last, OBlock)
    else (pass, OPass wait).

  (* a request = (arrival time in ns, batch count) *)
  Fixpoint run (last : Z) (ops : list (Z * Z)) : Z * list out :=
    match ops with
    | [] => (last, [])
    | (now, b) :: r =>
        let '(l1, o) := do_check last now b in
        let '(l2, os) := run l1 r in
        (l2, o :: os)
    end.

  (* admitted requests with a batch >= 1, in order: arrival, batch, pass time *)
  Record grant := { g_now : Z; g_b : Z; g_pass : Z }.

  Fixpoint grants (last : Z) (ops : list (Z * Z)) : list grant :=
    match ops with
    | [] => []
    | (now, b) :: r =>
        let '(l1, o) := do_check last now b in
        match o with
        | OPass w => {| g_now := now; g_b := b; g_pass := now + w |} :: grants l1 r
        | _ => grants l1 r
        end
    end.

  (* consecutive pass times are separated by at least the interval of the later request;
     `prev` is the pass time before the first element *)
  Fixpoint spaced (prev : Z) (gs : list grant) : Prop :=
    match gs with
    | [] => True
    | g :: r => g_pass g - prev >= iv (g_b g) /\ spaced (g_pass g) r
    end.

  Definition last_pass (prev : Z) (gs : list grant) : Z :=
    fold_left (fun _ g => g_pass g) gs prev.
End Generic.

(* the instance the code computes *)
Definition do_check_c (c : cfg) := do_check (early_block c) (interval c) (maxq_ns c).
Definition run_c (c : cfg) := run (early_block c) (interval c) (maxq_ns c).
Definition grants_c (c : cfg) := grants (early_block c) (interval c) (maxq_ns c).

(* lastPassedTime of a freshly built checker *)
Definition last0 : Z := 0.

(* observation through the public API: pass + requested sleep, or block *)
Inductive obs := Pass (wait : Z) | Block.

Definition obs_of (o : out) : obs :=
  match o with OZero => Pass 0 | OPass w => Pass w | OBlock => Block end.
