(* C15 — lock discipline model (DESIGN 6/C15).

   Threads are straight-line programs over the events
       Acq l mode | Rel l | Rd x | Wr x
   (a goroutine's path through the code, projected to lock operations on package-level
   sync.Mutex / sync.RWMutex variables and accesses to package-level variables).  A
   configuration is the global lock state plus the remaining program of every thread; a
   schedule (list of thread indices) drives it.  `lock_step` is the RW-lock semantics of
   sync.RWMutex (sync.Mutex = write mode only): one writer xor many readers.  A schedule
   whose every step is enabled is a well-formed trace.

   The table the translator regenerates from the Go source (`access`) lists every access
   to a package-level variable with an UNDER-approximation of the locks held there.

   No proofs in this file (Proofs/LocksetProofs.v). *)
From SG Require Import Base.Prelude.

Inductive mode := MR | MW.
Definition lockid := string.
Definition varid := string.

Inductive event :=
| Acq (l : lockid) (m : mode)
| Rel (l : lockid)
| Rd (x : varid)
| Wr (x : varid).

(* ---- global lock state ------------------------------------------------------------- *)

Definition holding := (nat * lockid * mode)%type.      (* thread, lock, mode *)
Definition lstate := list holding.

Definition is_w (m : mode) : bool := match m with MW => true | MR => false end.

Definition holds_any (h : lstate) (l : lockid) : bool :=
  existsb (fun e : holding => String.eqb (snd (fst e)) l) h.
Definition holds_w (h : lstate) (l : lockid) : bool :=
  existsb (fun e : holding => String.eqb (snd (fst e)) l && is_w (snd e)) h.

(* thread t gives up (its most recent acquisition of) l; not enabled if t does not hold l *)
Fixpoint release (t : nat) (l : lockid) (h : lstate) : option lstate :=
  match h with
  | [] => None
  | (t', l', m) :: r =>
      if (Nat.eqb t t' && String.eqb l l')%bool then Some r
      else match release t l r with Some r' => Some ((t', l', m) :: r') | None => None end
  end.

(* RW-lock semantics.  Lock(): nobody holds l in any mode (Go locks are not reentrant).
   RLock(): nobody holds l in write mode (a superset of what sync.RWMutex admits: it also
   holds new readers back behind a waiting writer).  Accesses are always enabled. *)
Definition lock_step (h : lstate) (t : nat) (e : event) : option lstate :=
  match e with
  | Acq l MW => if holds_any h l then None else Some ((t, l, MW) :: h)
  | Acq l MR => if holds_w h l then None else Some ((t, l, MR) :: h)
  | Rel l => release t l h
  | Rd _ => Some h
  | Wr _ => Some h
  end.

(* ---- threads, configurations, schedules ------------------------------------------- *)

Definition program := list event.
Definition config := (lstate * list program)%type.

Fixpoint set_nth {A} (n : nat) (v : A) (l : list A) : list A :=
  match l, n with
  | [], _ => []
  | _ :: r, O => v :: r
  | x :: r, S n' => x :: set_nth n' v r
  end.

(* thread t performs its next event, if it has one and the lock semantics enables it *)
Definition sched_step (c : config) (t : nat) : option config :=
  match nth_error (snd c) t with
  | Some (e :: rest) =>
      match lock_step (fst c) t e with
      | Some h' => Some (h', set_nth t rest (snd c))
      | None => None
      end
  | _ => None
  end.

Fixpoint run (c : config) (sched : list nat) : option config :=
  match sched with
  | [] => Some c
  | t :: r => match sched_step c t with Some c' => run c' r | None => None end
  end.

Definition init_config (ps : list program) : config := ([], ps).

(* the well-formed traces of `ps` are exactly the schedules that `run` accepts *)
Definition reachable (ps : list program) (c : config) : Prop :=
  exists sched, run (init_config ps) sched = Some c.

(* ---- races ------------------------------------------------------------------------ *)

Definition touches (e : event) (x : varid) : Prop :=
  match e with Rd y => y = x | Wr y => y = x | _ => False end.
Definition is_wr (e : event) : bool := match e with Wr _ => true | _ => false end.

(* two different threads are simultaneously enabled on conflicting accesses to x *)
Definition race_on (x : varid) (c : config) : Prop :=
  exists i j ei ri ej rj,
    i <> j /\
    nth_error (snd c) i = Some (ei :: ri) /\
    nth_error (snd c) j = Some (ej :: rj) /\
    touches ei x /\ touches ej x /\
    (is_wr ei = true \/ is_wr ej = true).

(* ---- the access table -------------------------------------------------------------- *)

Inductive akind := Read | Write | Unknown.

Record access := mkAccess {
  a_func : string;                       (* "pkg.Func" / "pkg.(T).Method" / "pkg.Func$1" (closure) *)
  a_var  : varid;                        (* "pkg.var", "pkg.var[]" (objects published through var),
                                            "pkg.(T).field" (receiver field of a self-locking struct) *)
  a_kind : akind;
  a_held : list (lockid * mode);         (* locks certainly held at the access *)
  a_line : Z                             (* source line, for reports only *)
}.

Definition lockset := list (lockid * mode).

(* locks a thread holds in global state h, most recent first *)
Definition local (h : lstate) (t : nat) : lockset :=
  map (fun e : holding => (snd (fst e), snd e)) (filter (fun e : holding => Nat.eqb (fst (fst e)) t) h).

Fixpoint remove_lock (l : lockid) (hs : lockset) : lockset :=
  match hs with
  | [] => []
  | (l', m) :: r => if String.eqb l l' then r else (l', m) :: remove_lock l r
  end.

(* accesses a program will perform, each with the thread's own lockset at that point *)
Fixpoint accs (hs : lockset) (p : program) : list (akind * varid * lockset) :=
  match p with
  | [] => []
  | Acq l m :: r => accs ((l, m) :: hs) r
  | Rel l :: r => accs (remove_lock l hs) r
  | Rd x :: r => (Read, x, hs) :: accs hs r
  | Wr x :: r => (Write, x, hs) :: accs hs r
  end.

(* the table over-approximates the accesses and under-approximates the locks held *)
Definition covered (A : list access) (o : akind * varid * lockset) : Prop :=
  exists a, In a A /\ a_kind a = fst (fst o) /\ a_var a = snd (fst o) /\ incl (a_held a) (snd o).

Definition prog_covered (A : list access) (p : program) : Prop :=
  Forall (covered A) (accs [] p).

(* ---- the discipline ---------------------------------------------------------------- *)

(* some lock is held on both sides, in write mode on at least one *)
Definition protects (ha hb : lockset) : Prop :=
  exists l ma mb, In (l, ma) ha /\ In (l, mb) hb /\ (ma = MW \/ mb = MW).

(* pairwise form: any two table entries for x of which one is a write share a lock that
   the writer... (one of them) holds exclusively.  Strictly more general than a single
   guarding lock: `currentRules`-style variables are written under {updateRuleMux, rwMux(W)}
   and read either under updateRuleMux or under rwMux(R). *)
Definition pair_disciplined (A : list access) (x : varid) : Prop :=
  forall a b, In a A -> In b A -> a_var a = x -> a_var b = x ->
    (a_kind a = Write \/ a_kind b = Write) -> protects (a_held a) (a_held b).

(* classical form: one lock l(x) guards x; writes hold it in write mode, reads at least in
   read mode *)
Definition common_lock (A : list access) (x : varid) (l : lockid) : Prop :=
  forall a, In a A -> a_var a = x ->
    match a_kind a with
    | Write => In (l, MW) (a_held a)
    | _ => In (l, MR) (a_held a) \/ In (l, MW) (a_held a)
    end.

(* ---- executable checker ------------------------------------------------------------ *)

Inductive wl_entry :=
| WFunc (f : string) (why : string)      (* accesses made by this function are outside the claim *)
| WVar (x : varid) (why : string).       (* this variable is outside the claim *)
Definition whitelist := list wl_entry.

Definition wl_func (wl : whitelist) (f : string) : bool :=
  existsb (fun w => match w with WFunc g _ => String.eqb f g | _ => false end) wl.
Definition wl_var (wl : whitelist) (x : varid) : bool :=
  existsb (fun w => match w with WVar y _ => String.eqb x y | _ => false end) wl.

(* an entry the claim is about *)
Definition live (wl : whitelist) (a : access) : bool :=
  negb (wl_func wl (a_func a)) && negb (wl_var wl (a_var a)).

Definition is_write (a : access) : bool := match a_kind a with Write => true | _ => false end.
Definition is_unknown (a : access) : bool := match a_kind a with Unknown => true | _ => false end.

Definition protectsb (ha hb : lockset) : bool :=
  existsb (fun la => existsb (fun lb => String.eqb (fst la) (fst lb) && (is_w (snd la) || is_w (snd lb))) hb) ha.

Definition bad_pair (a b : access) : bool :=
  String.eqb (a_var a) (a_var b) && (is_write a || is_write b) && negb (protectsb (a_held a) (a_held b)).

(* unordered pairs (a, b), b at or after a in the list, that break the discipline *)
Fixpoint bad_pairs (L : list access) : list (access * access) :=
  match L with
  | [] => []
  | a :: r => map (pair a) (filter (fun b => bad_pair a b || bad_pair b a) (a :: r)) ++ bad_pairs r
  end.

(* what the generated check prints when the obligation fails: unclassified accesses (as
   (a, a)) and unprotected conflicting pairs *)
Definition violations (A : list access) (wl : whitelist) : list (access * access) :=
  let L := filter (live wl) A in
  map (fun a => (a, a)) (filter is_unknown L) ++ bad_pairs L.

Definition discipline_ok (A : list access) (wl : whitelist) : bool :=
  match violations A wl with [] => true | _ => false end.

(* short form for reports: (func, var, line) of both sides *)
Definition brief (v : access * access) : (string * string * Z) * (string * string * Z) :=
  ((a_func (fst v), a_var (fst v), a_line (fst v)), (a_func (snd v), a_var (snd v), a_line (snd v))).
