(* Model of core/isolation/slot.go (checkPass) on top of the concurrency gauge kept by
   core/stat (stat.Slot: +1 per passed entry, -1 per completed entry). *)
From SG Require Import Base.Prelude Base.GoInt.

(* --- the rule check, transcribed ------------------------------------------------ *)

(* curCount as computed by checkPass from the int32 gauge *)
Definition cur_count (gauge : Z) : Z := if 0 <=? gauge then u32 gauge else 0.

(* one rule: `uint64(curCount)+uint64(batchCount) > uint64(threshold)` *)
Definition rule_exceeds (gauge b thr : Z) : bool := thr <? cur_count gauge + b.

(* iterate the rules of the resource in order; result: None = pass,
   Some (index of the first exceeding rule, snapshot = curCount) *)
Fixpoint check_from (i : Z) (gauge b : Z) (rules : list Z) : option (Z * Z) :=
  match rules with
  | [] => None
  | thr :: rest =>
      if rule_exceeds gauge b thr then Some (i, cur_count gauge)
      else check_from (i + 1) gauge b rest
  end.

Definition check_pass (gauge b : Z) (rules : list Z) : option (Z * Z) := check_from 0 gauge b rules.

(* --- histories ------------------------------------------------------------------ *)

Inductive op :=
| Enter (res batch : Z)     (* api.Entry(res, WithBatchCount(batch)) *)
| Exit (k : Z).             (* Exit() of the entry returned by the k-th operation (no-op if
                               that operation was not an admitted Enter, or was exited) *)

Inductive obs :=
| OPass
| OBlock (rule_idx snapshot : Z)
| ONone.                    (* Exit has no observable result *)

Record state := {
  gauges : list (Z * Z);          (* resource -> concurrency gauge *)
  live   : list (Z * Z);          (* op index of an admitted, un-exited Enter -> resource *)
  nops   : Z                      (* number of operations executed so far *)
}.

Definition init : state := {| gauges := []; live := []; nops := 0 |}.

Definition gauge_of (s : state) (res : Z) : Z :=
  match alookup res (gauges s) with Some g => g | None => 0 end.

Fixpoint aremove {A} (k : Z) (l : list (Z * A)) : list (Z * A) :=
  match l with
  | [] => []
  | (k', v) :: r => if k =? k' then r else (k', v) :: aremove k r
  end.

(* rules : resource -> thresholds of its (valid) isolation rules, in load order *)
Definition step (rules : Z -> list Z) (s : state) (o : op) : state * obs :=
  match o with
  | Enter res b =>
      match check_pass (gauge_of s res) b (rules res) with
      | None =>
          ({| gauges := aset res (gauge_of s res + 1) (gauges s);
              live := (nops s, res) :: live s;
              nops := nops s + 1 |}, OPass)
      | Some (i, snap) =>
          ({| gauges := gauges s; live := live s; nops := nops s + 1 |}, OBlock i snap)
      end
  | Exit k =>
      match alookup k (live s) with
      | Some res =>
          ({| gauges := aset res (gauge_of s res - 1) (gauges s);
              live := aremove k (live s);
              nops := nops s + 1 |}, ONone)
      | None => ({| gauges := gauges s; live := live s; nops := nops s + 1 |}, ONone)
      end
  end.

Fixpoint run (rules : Z -> list Z) (s : state) (ops : list op) : state * list obs :=
  match ops with
  | [] => (s, [])
  | o :: rest =>
      let '(s1, ob) := step rules s o in
      let '(s2, obs) := run rules s1 rest in
      (s2, ob :: obs)
  end.

(* --- the specification's notion of "in flight", independent of the gauge ---------- *)

(* number of admitted, not yet exited entries of `res` *)
Definition in_flight (s : state) (res : Z) : Z :=
  Z.of_nat (length (filter (fun kv => snd kv =? res) (live s))).
