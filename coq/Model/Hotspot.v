(* Model of core/hotspot: traffic_shaping.go (reject / throttling / concurrency checks,
   ExtractArgs), slot.go (Slot.Check), concurrency_stat_slot.go (OnEntryPassed / OnCompleted),
   the cache sizing of newBaseTrafficShapingController, on top of Model/LRU.v.
   Transcribed from the Go code as it is, including int64 wrap-around of every product, sum
   and difference the code computes.  Sequential semantics: every CompareAndSwap succeeds.
   No proofs in this file. *)
From SG Require Import Base.Prelude Base.GoInt Base.GoFloat Model.LRU.
#[local] Open Scope Z_scope.

(* ---- rules ------------------------------------------------------------------------ *)

Record rule := {
  r_metric : Z;            (* MetricType: 0 = Concurrency, 1 = QPS *)
  r_behavior : Z;          (* ControlBehavior: 0 = Reject, 1 = Throttling *)
  r_idx : Z;               (* ParamIndex *)
  r_key : Z;               (* ParamKey: 0 = "", otherwise the id of the key string *)
  r_thr : Z;               (* Threshold *)
  r_maxq : Z;              (* MaxQueueingTimeMs *)
  r_burst : Z;             (* BurstCount *)
  r_dur : Z;               (* DurationInSec *)
  r_cap : Z;               (* ParamsMaxCapacity *)
  r_spec : list (Z * Z)    (* SpecificItems: key id -> threshold *)
}.

Definition ConcurrencyMaxCount : Z := 4000.
Definition ParamsCapacityBase : Z := 4000.
Definition ParamsMaxCapacity : Z := 20000.

(* newBaseTrafficShapingController: size of the LRU caches *)
Definition cache_size (r : rule) : Z :=
  if r_metric r =? 1 then
    let size :=
      if 0 <? r_cap r then r_cap r
      else if r_dur r =? 0 then ParamsMaxCapacity
      else let x := i64 (ParamsCapacityBase * r_dur r) in
           if x <? ParamsMaxCapacity then x else ParamsMaxCapacity in
    if size <=? 0 then ParamsMaxCapacity else size
  else
    if 0 <? r_cap r then r_cap r else ConcurrencyMaxCount.

(* threshold in force for a value: `val, existed := c.specificItems[arg]` *)
Definition tok_count (r : rule) (k : Z) : Z :=
  match alookup k (r_spec r) with Some x => x | None => r_thr r end.

(* ---- requests and argument extraction --------------------------------------------- *)

Record req := {
  q_args : list (option Z);        (* WithArgs: key id of each argument, None = nil *)
  q_atts : list (Z * option Z);    (* WithAttachments: key-string id -> value key id / nil *)
  q_batch : Z                      (* WithBatchCount (uint32) *)
}.

Definition extract_att (r : rule) (q : req) : option Z :=
  if r_key r =? 0 then None
  else match alookup (r_key r) (q_atts q) with Some v => v | None => None end.

Definition extract_idx (r : rule) (q : req) : option Z :=
  let n := Z.of_nat (length (q_args q)) in
  let idx := if r_idx r <? 0 then n + r_idx r else r_idx r in
  if idx <? 0 then None
  else if n <=? idx then None
  else nth (Z.to_nat idx) (q_args q) None.

(* ExtractArgs: attachment by key first, then positional argument *)
Definition extract (r : rule) (q : req) : option Z :=
  match extract_att r q with
  | Some k => Some k
  | None => extract_idx r q
  end.

(* ---- per-rule statistics (ParamsMetric) ------------------------------------------- *)

Record metric := {
  m_time : lru Z;     (* RuleTimeCounter *)
  m_tok : lru Z;      (* RuleTokenCounter *)
  m_conc : lru Z      (* ConcurrencyCounter *)
}.
Definition metric0 : metric := {| m_time := []; m_tok := []; m_conc := [] |}.

Inductive dec :=
| DPass
| DBlock (tv : option Z)   (* TriggeredValue: Some concurrency / None = nil *)
| DWait (ns : Z)           (* ResultStatusShouldWait, time.Duration in ns *)
| DSpin.                   (* the `for` loop would iterate without progress *)

(* int64(math.Round(float64(x))): exact below 2^53 (every such integer is a binary64 value,
   Round is the identity on integral floats); above, the conversion rounds to nearest even *)
Definition two53 : Z := 9007199254740992.
Definition f64_round_trip (x : Z) : Z :=
  if Z.abs x <? two53 then x else go_i64_of_f (f_of_i64 x).

(* rejectTrafficShapingController.PerformChecking, QPS branch *)
Definition reject_check (r : rule) (m : metric) (now k b : Z) : metric * dec :=
  let size := cache_size r in
  let T := tok_count r k in
  if T <=? 0 then (m, DBlock None) else
  let M := i64 (T + r_burst r) in
  if M <? b then (m, DBlock None) else
  let D := i64 (r_dur r * 1000) in
  let '(tc1, lastp) := lru_add_if_absent size k now (m_time m) in
  match lastp with
  | None =>
      let '(kc1, _) := lru_add_if_absent size k (i64 (M - b)) (m_tok m) in
      ({| m_time := tc1; m_tok := kc1; m_conc := m_conc m |}, DPass)
  | Some last =>
      let pt := i64 (now - last) in
      if D <? pt then
        let '(kc1, oldp) := lru_add_if_absent size k (i64 (M - b)) (m_tok m) in
        match oldp with
        | None => ({| m_time := lru_set k now tc1; m_tok := kc1; m_conc := m_conc m |}, DPass)
        | Some rest =>
            let toAdd := i64 (Z.quot (i64 (pt * T)) D) in
            let newq := if M <? i64 (toAdd + rest) then i64 (M - b)
                        else i64 (i64 (toAdd + rest) - b) in
            if newq <? 0 then ({| m_time := tc1; m_tok := kc1; m_conc := m_conc m |}, DBlock None)
            else ({| m_time := lru_set k now tc1; m_tok := lru_set k newq kc1; m_conc := m_conc m |}, DPass)
        end
      else
        let '(kc1, oldp) := lru_get k (m_tok m) in
        match oldp with
        | Some old =>
            if 0 <=? i64 (old - b)
            then ({| m_time := tc1; m_tok := lru_set k (i64 (old - b)) kc1; m_conc := m_conc m |}, DPass)
            else ({| m_time := tc1; m_tok := kc1; m_conc := m_conc m |}, DBlock None)
        | None => ({| m_time := tc1; m_tok := kc1; m_conc := m_conc m |}, DSpin)
        end
  end.

(* the spacing the code computes: batchCount * durationInSec * 1000 / tokenCount, in int64,
   then float64 -> Round -> int64 *)
Definition throttle_interval (r : rule) (k b : Z) : Z :=
  f64_round_trip (i64 (Z.quot (i64 (i64 (b * r_dur r) * 1000)) (tok_count r k))).

(* throttlingTrafficShapingController.PerformChecking, QPS branch *)
Definition throttle_check (r : rule) (m : metric) (now k b : Z) : metric * dec :=
  let size := cache_size r in
  let T := tok_count r k in
  if T <=? 0 then (m, DBlock None) else
  let interval := throttle_interval r k b in
  let '(tc1, lastp) := lru_add_if_absent size k now (m_time m) in
  match lastp with
  | None => ({| m_time := tc1; m_tok := m_tok m; m_conc := m_conc m |}, DPass)
  | Some last =>
      let expected := i64 (last + interval) in
      if (expected <=? now) || (i64 (expected - now) <? r_maxq r) then
        let await := i64 (expected - now) in
        if 0 <? await
        then ({| m_time := lru_set k expected tc1; m_tok := m_tok m; m_conc := m_conc m |},
              DWait (i64 (await * 1000000)))
        else ({| m_time := lru_set k now tc1; m_tok := m_tok m; m_conc := m_conc m |}, DPass)
      else ({| m_time := tc1; m_tok := m_tok m; m_conc := m_conc m |}, DBlock None)
  end.

(* performCheckingForConcurrencyMetric (after the D20 repair: a cell that was just created
   holds 0 and is compared like any other) *)
Definition conc_check (r : rule) (m : metric) (k : Z) : metric * dec :=
  let '(c1, prior) := lru_add_if_absent (cache_size r) k 0 (m_conc m) in
  let cur := match prior with Some x => x | None => 0 end in
  let c := i64 (cur + 1) in
  let m1 := {| m_time := m_time m; m_tok := m_tok m; m_conc := c1 |} in
  if c <=? tok_count r k then (m1, DPass) else (m1, DBlock (Some c)).

(* PerformChecking of either controller *)
Definition perform_checking (r : rule) (m : metric) (now k b : Z) : metric * dec :=
  if r_metric r =? 0 then conc_check r m k
  else if 1 <? r_metric r then (m, DPass)
  else if r_behavior r =? 0 then reject_check r m now k b
  else throttle_check r m now k b.

(* ---- Slot.Check ------------------------------------------------------------------- *)

Definition ms_of_ns (clk : Z) : Z := i64 (clk / 1000000).   (* int64(util.CurrentTimeMillis()) *)

Inductive verdict :=
| VPass
| VBlock (idx : Z) (tv : option Z)
| VSpin (idx : Z).

(* iterate the controllers of the resource in order; `adv` = the clock advances on Sleep
   (one caller) or not (the sleeping callers are other goroutines) *)
Fixpoint slot_check (i : Z) (rules : list rule) (ms : list metric) (clk : Z) (adv : bool) (q : req)
  : list metric * Z * list Z * verdict :=
  match rules, ms with
  | r :: rs, m :: mr =>
      match extract r q with
      | None =>
          let '(mr1, clk1, sl, v) := slot_check (i + 1) rs mr clk adv q in
          (m :: mr1, clk1, sl, v)
      | Some k =>
          let '(m1, d) := perform_checking r m (ms_of_ns clk) k (q_batch q) in
          match d with
          | DPass =>
              let '(mr1, clk1, sl, v) := slot_check (i + 1) rs mr clk adv q in
              (m1 :: mr1, clk1, sl, v)
          | DWait ns =>
              if 0 <? ns then
                let clk' := if adv then u64 (clk + ns) else clk in
                let '(mr1, clk1, sl, v) := slot_check (i + 1) rs mr clk' adv q in
                (m1 :: mr1, clk1, ns :: sl, v)
              else
                let '(mr1, clk1, sl, v) := slot_check (i + 1) rs mr clk adv q in
                (m1 :: mr1, clk1, sl, v)
          | DBlock tv => (m1 :: mr, clk, [], VBlock i tv)
          | DSpin => (m1 :: mr, clk, [], VSpin i)
          end
      end
  | _, _ => (ms, clk, [], VPass)
  end.

(* ConcurrencyStatSlot.OnEntryPassed (delta = 1) / OnCompleted (delta = -1) *)
Definition conc_bump (delta : Z) (r : rule) (m : metric) (q : req) : metric :=
  if r_metric r =? 0 then
    match extract r q with
    | None => m
    | Some k =>
        let '(c1, cur) := lru_get k (m_conc m) in
        match cur with
        | Some c => {| m_time := m_time m; m_tok := m_tok m; m_conc := lru_set k (i64 (c + delta)) c1 |}
        | None => m
        end
    end
  else m.

Fixpoint conc_bump_all (delta : Z) (rules : list rule) (ms : list metric) (q : req) : list metric :=
  match rules, ms with
  | r :: rs, m :: mr => conc_bump delta r m q :: conc_bump_all delta rs mr q
  | _, _ => ms
  end.

(* ---- histories through the public API --------------------------------------------- *)

Inductive op :=
| Tick (ms : Z)                 (* the virtual clock advances by ms milliseconds *)
| Enter (res : Z) (q : req)     (* sentinel.Entry(res, WithArgs.., WithAttachments.., WithBatchCount) *)
| Exit (k : Z).                 (* Exit() of the entry returned by the k-th operation *)

Inductive obs :=
| ONone
| OPass (sleeps : list Z)
| OBlock (idx : Z) (tv : option Z) (sleeps : list Z)
| OSpin.

Record state := {
  s_metrics : list (Z * list metric);     (* resource -> statistics of its controllers *)
  s_live : list (Z * (Z * req));          (* op index of a live entry -> (resource, its own input) *)
  s_clk : Z;                              (* virtual clock, ns *)
  s_nops : Z
}.

Definition init (clk0 : Z) : state := {| s_metrics := []; s_live := []; s_clk := clk0; s_nops := 0 |}.

Definition metrics_of (rules : Z -> list rule) (s : state) (res : Z) : list metric :=
  match alookup res (s_metrics s) with
  | Some ms => ms
  | None => map (fun _ => metric0) (rules res)
  end.

Fixpoint live_del (k : Z) (l : list (Z * (Z * req))) : list (Z * (Z * req)) :=
  match l with
  | [] => []
  | (k', v) :: r => if k =? k' then r else (k', v) :: live_del k r
  end.

Definition step (rules : Z -> list rule) (adv : bool) (s : state) (o : op) : state * obs :=
  match o with
  | Tick ms =>
      ({| s_metrics := s_metrics s; s_live := s_live s; s_clk := u64 (s_clk s + ms * 1000000);
          s_nops := s_nops s + 1 |}, ONone)
  | Enter res q =>
      let rs := rules res in
      let '(ms1, clk1, sl, v) := slot_check 0 rs (metrics_of rules s res) (s_clk s) adv q in
      match v with
      | VPass =>
          let ms2 := conc_bump_all 1 rs ms1 q in
          ({| s_metrics := aset res ms2 (s_metrics s); s_live := (s_nops s, (res, q)) :: s_live s;
              s_clk := clk1; s_nops := s_nops s + 1 |}, OPass sl)
      | VBlock i tv =>
          ({| s_metrics := aset res ms1 (s_metrics s); s_live := s_live s; s_clk := clk1;
              s_nops := s_nops s + 1 |}, OBlock i tv sl)
      | VSpin i =>
          ({| s_metrics := aset res ms1 (s_metrics s); s_live := s_live s; s_clk := clk1;
              s_nops := s_nops s + 1 |}, OSpin)
      end
  | Exit k =>
      match alookup k (s_live s) with
      | Some (res, q) =>
          let ms2 := conc_bump_all (-1) (rules res) (metrics_of rules s res) q in
          ({| s_metrics := aset res ms2 (s_metrics s); s_live := live_del k (s_live s);
              s_clk := s_clk s; s_nops := s_nops s + 1 |}, ONone)
      | None =>
          ({| s_metrics := s_metrics s; s_live := s_live s; s_clk := s_clk s;
              s_nops := s_nops s + 1 |}, ONone)
      end
  end.

Fixpoint run (rules : Z -> list rule) (adv : bool) (s : state) (ops : list op) : state * list obs :=
  match ops with
  | [] => (s, [])
  | o :: rest =>
      let '(s1, ob) := step rules adv s o in
      let '(s2, obs) := run rules adv s1 rest in
      (s2, ob :: obs)
  end.

(* ==== specification-level objects (what the theorems are stated against) ============== *)

(* A single value's token bucket, in exact integer arithmetic (no wrap-around, no cache):
   None = never seen, Some (last refill time, tokens left).  T = threshold of the value,
   B = burst, D = duration in ms. *)
Definition bucket := option (Z * Z).

Definition bucket_step (T B D : Z) (c : bucket) (now b : Z) : bucket * bool :=
  if T <=? 0 then (c, false) else
  let M := T + B in
  if M <? b then (c, false) else
  match c with
  | None => (Some (now, M - b), true)
  | Some (last, tok) =>
      let pt := now - last in
      if D <? pt then
        let toAdd := pt * T / D in
        let newq := if M <? toAdd + tok then M - b else toAdd + tok - b in
        if newq <? 0 then (c, false) else (Some (now, newq), true)
      else
        if 0 <=? tok - b then (Some (last, tok - b), true) else (c, false)
  end.

(* calls on one value: (arrival time ms, batch); result: admitted? *)
Fixpoint bucket_run (T B D : Z) (c : bucket) (calls : list (Z * Z)) : bucket * list bool :=
  match calls with
  | [] => (c, [])
  | (now, b) :: r =>
      let '(c1, a) := bucket_step T B D c now b in
      let '(c2, l) := bucket_run T B D c1 r in (c2, a :: l)
  end.

(* tokens admitted by a run *)
Fixpoint admitted_tokens (calls : list (Z * Z)) (adm : list bool) : Z :=
  match calls, adm with
  | (_, b) :: r, a :: l => (if a then b else 0) + admitted_tokens r l
  | _, _ => 0
  end.

(* tokens admitted at arrival times inside [lo, hi] *)
Fixpoint admitted_in (lo hi : Z) (calls : list (Z * Z)) (adm : list bool) : Z :=
  match calls, adm with
  | (t, b) :: r, a :: l =>
      (if a && (lo <=? t) && (t <=? hi) then b else 0) + admitted_in lo hi r l
  | _, _ => 0
  end.

(* A single value's pacing cell (throttling mode), exact arithmetic: None = never seen,
   Some (scheduled pass time of the last admitted request).  I = spacing in ms used for
   this request, Q = max queueing ms.  Result: Some wait (ms, 0 = pass at once) / None = rejected *)
Definition pace_step (Q : Z) (c : option Z) (now I : Z) : option Z * option Z :=
  match c with
  | None => (Some now, Some 0)
  | Some last =>
      let expected := last + I in
      if (expected <=? now) || (expected - now <? Q) then
        if 0 <? expected - now then (Some expected, Some (expected - now))
        else (Some now, Some 0)
      else (c, None)
  end.
