(* C19 — adapter IR: the shape of every middleware / interceptor / wrapper under
   pkg/adapters/**, an executable big-step semantics with Go's defer-on-panic behaviour, and
   the entry contract as a boolean on traces.  The IR terms themselves are NOT written here:
   they are regenerated from the Go source by translator/adapterir on every run
   (Gen.Adapters_gen) and checked in C19_check.v.  No proofs in this file. *)
From SG Require Import Base.Prelude.
Local Open Scope nat_scope.

(* ---------------------------------------------------------------- environments *)

Inductive hres := HOk | HErr | HPanic.

(* blocked?         : sentinel.Entry returns (nil, blockError)
   handler          : what the wrapped handler does when (if) it is invoked
   fallback         : the user configured the adapter's block-fallback option
   flags            : valuation of every other condition the code branches on
                      (IfOpt k), e.g. "outlier enabled", "callee address known",
                      "metadata present", "option field X is nil" *)
Record env := mkEnv { blocked : bool; handler : hres; fallback : bool; flags : list bool }.

Definition flag (en : env) (k : nat) : bool := nth k (flags en) false.

(* ---------------------------------------------------------------- traces *)

Inductive event :=
| EntryCall      (* sentinel.Entry / api.Entry was called *)
| HandlerCall    (* the wrapped handler was invoked *)
| HandlerErr     (* ... and handed an error back to the adapter (frameworks whose handler
                    signature has no error result never produce this) *)
| ExitCall       (* entry.Exit() ran on a non-nil entry *)
| Traced         (* sentinel.TraceError(entry, err) with non-nil entry and error *)
| FallbackCall   (* the configured block fallback was invoked *)
| Rejected       (* the adapter's default rejection (429 / return blockErr / ...) *)
| PanicOut       (* a panic leaves the adapter function *)
| NilDeref.      (* method call on a nil entry, or call of a nil function-typed option *)

Definition event_eqb (a b : event) : bool :=
  match a, b with
  | EntryCall, EntryCall | HandlerCall, HandlerCall | HandlerErr, HandlerErr
  | ExitCall, ExitCall | Traced, Traced | FallbackCall, FallbackCall
  | Rejected, Rejected | PanicOut, PanicOut | NilDeref, NilDeref => true
  | _, _ => false
  end.

Definition event_eq_dec : forall a b : event, {a = b} + {a <> b}.
Proof. decide equality. Defined.

Definition mem (x : event) (t : list event) : bool := existsb (event_eqb x) t.
Definition cnt (x : event) (t : list event) : nat := length (filter (event_eqb x) t).

(* ---------------------------------------------------------------- IR *)

(* how the adapter gets at the wrapped handler's error *)
Inductive errmode :=
| ErrNone            (* the framework's handler signature returns no error (gin, iris, ...) *)
| ErrVar (v : nat)   (* err := next(...)  — bound to variable v *)
| ErrDirect.         (* return next(...)  — handed through without being bound *)

Inductive prog :=
| Entry (e err : nat) (ignored : bool)   (* e, err := sentinel.Entry(...)   (ignored: e, _ := ...) *)
| IfBlocked (err : nat) (a b : prog)     (* if err != nil {a} else {b}   (err bound by Entry) *)
| IfFallback (a b : prog)                (* if options.<fallback> != nil {a} else {b} *)
| Fallback (mandatory : bool)            (* options.<fallback>(...); mandatory: the option has a
                                            default, the field is never nil *)
| DefaultReject                          (* built-in rejection: 429, return blockErr, ... *)
| Return
| DeferExit (e : nat)                    (* defer e.Exit() *)
| ExitNow (e : nat)                      (* e.Exit() *)
| Deref (e : nat)                        (* any other method call / field access through e *)
| NilCall                                (* call of a function-typed option that is nil here *)
| CallHandler (m : errmode)              (* the wrapped handler (per-framework table) *)
| IfErr (v : nat) (a b : prog)           (* if v != nil {a} else {b}   (v bound by CallHandler) *)
| TraceError (e v : nat)                 (* sentinel.TraceError(e, v) *)
| Seq (a b : prog)
| IfOpt (k : nat) (a b : prog)           (* branch on a condition outside the model: flag k *)
| Other                                  (* statement that touches none of the above *)
| Unknown (src : string).                (* the translator could not classify this construct *)

(* ---------------------------------------------------------------- semantics *)

Inductive outcome := Normal | Returned | Panicked.

Record st := mkSt {
  enil : nat -> bool;      (* entry variable holds nil *)
  errv : nat -> bool;      (* error variable holds a non-nil error *)
  dstack : list bool       (* deferred entry.Exit() calls, newest first; the receiver is
                              evaluated at the defer statement: true = nil receiver *)
}.

Definition upd (f : nat -> bool) (k : nat) (v : bool) : nat -> bool :=
  fun x => if x =? k then v else f x.

Definition st0 : st := mkSt (fun _ => true) (fun _ => false) [].

Definition set_err (m : errmode) (v : bool) (s : st) : st :=
  match m with
  | ErrVar x => mkSt (enil s) (upd (errv s) x v) (dstack s)
  | _ => s
  end.

Fixpoint run (p : prog) (en : env) (s : st) : outcome * st * list event :=
  match p with
  | Entry e err ign =>
      (Normal,
       mkSt (upd (enil s) e (blocked en))
            (if ign then errv s else upd (errv s) err (blocked en))
            (dstack s),
       [EntryCall])
  | IfBlocked err a b => if errv s err then run a en s else run b en s
  | IfFallback a b => if fallback en then run a en s else run b en s
  | Fallback m => if m || fallback en then (Normal, s, [FallbackCall]) else (Panicked, s, [NilDeref])
  | DefaultReject => (Normal, s, [Rejected])
  | Return => (Returned, s, [])
  | DeferExit e => (Normal, mkSt (enil s) (errv s) (enil s e :: dstack s), [])
  | ExitNow e => if enil s e then (Panicked, s, [NilDeref]) else (Normal, s, [ExitCall])
  | Deref e => if enil s e then (Panicked, s, [NilDeref]) else (Normal, s, [])
  | NilCall => (Panicked, s, [NilDeref])
  | CallHandler m =>
      match handler en with
      | HOk => (Normal, set_err m false s, [HandlerCall])
      | HErr => (Normal, set_err m true s,
                 HandlerCall :: match m with ErrNone => [] | _ => [HandlerErr] end)
      | HPanic => (Panicked, s, [HandlerCall])
      end
  | IfErr v a b => if errv s v then run a en s else run b en s
  | TraceError e v => (Normal, s, if errv s v && negb (enil s e) then [Traced] else [])
  | Seq a b =>
      let '(o, s1, t1) := run a en s in
      match o with
      | Normal => let '(o2, s2, t2) := run b en s1 in (o2, s2, t1 ++ t2)
      | _ => (o, s1, t1)
      end
  | IfOpt k a b => if flag en k then run a en s else run b en s
  | Other => (Normal, s, [])
  | Unknown _ => (Normal, s, [])
  end.

(* deferred calls run newest first, also while panicking; a nil receiver panics inside
   Exit (e.ctx on a nil *SentinelEntry) and the remaining deferred calls still run *)
Fixpoint run_defers (d : list bool) : bool * list event :=
  match d with
  | [] => (false, [])
  | isnil :: r =>
      let '(pn, t) := run_defers r in
      if isnil then (true, NilDeref :: t) else (pn, ExitCall :: t)
  end.

Definition is_panicked (o : outcome) : bool := match o with Panicked => true | _ => false end.

Definition exec (p : prog) (en : env) : list event :=
  let '(o, s, t) := run p en st0 in
  let '(pd, td) := run_defers (dstack s) in
  t ++ td ++ (if is_panicked o || pd then [PanicOut] else []).

(* ---------------------------------------------------------------- contract (boolean) *)

Inductive clause :=
| ClEntryFirst         (* exactly one Entry, requested before any handler call *)
| ClBlockedNoHandler   (* blocked => handler not invoked *)
| ClRejectIffBlocked   (* blocked => exactly one of fallback / default rejection, the fallback
                          when one is configured; admitted => neither *)
| ClHandlerOnce        (* admitted => handler invoked exactly once *)
| ClExitOnce           (* admitted => Exit exactly once; blocked => never *)
| ClExitAfterHandler   (* no Exit before a handler call *)
| ClErrTraced          (* every error handed back by the handler is traced before the Exit *)
| ClNoNilDeref         (* no method call on a nil entry / nil option *)
| ClNoSpuriousPanic.   (* a panic leaves the adapter only if the handler panicked *)

Definition all_clauses : list clause :=
  [ClEntryFirst; ClBlockedNoHandler; ClRejectIffBlocked; ClHandlerOnce; ClExitOnce;
   ClExitAfterHandler; ClErrTraced; ClNoNilDeref; ClNoSpuriousPanic].

Definition clause_eqb (a b : clause) : bool :=
  match a, b with
  | ClEntryFirst, ClEntryFirst | ClBlockedNoHandler, ClBlockedNoHandler
  | ClRejectIffBlocked, ClRejectIffBlocked | ClHandlerOnce, ClHandlerOnce
  | ClExitOnce, ClExitOnce | ClExitAfterHandler, ClExitAfterHandler
  | ClErrTraced, ClErrTraced | ClNoNilDeref, ClNoNilDeref
  | ClNoSpuriousPanic, ClNoSpuriousPanic => true
  | _, _ => false
  end.

Fixpoint entry_first_b (t : list event) : bool :=
  match t with
  | [] => false
  | EntryCall :: r => negb (mem EntryCall r)
  | HandlerCall :: _ => false
  | _ :: r => entry_first_b r
  end.

Fixpoint exit_after_b (t : list event) : bool :=
  match t with
  | [] => true
  | ExitCall :: r => negb (mem HandlerCall r)
  | _ :: r => exit_after_b r
  end.

Fixpoint traced_before_exit (t : list event) : bool :=
  match t with
  | [] => false
  | Traced :: _ => true
  | ExitCall :: _ => false
  | _ :: r => traced_before_exit r
  end.

Fixpoint err_traced_b (t : list event) : bool :=
  match t with
  | [] => true
  | HandlerErr :: r => traced_before_exit r && err_traced_b r
  | _ :: r => err_traced_b r
  end.

Definition is_hpanic (h : hres) : bool := match h with HPanic => true | _ => false end.

Definition clause_b (c : clause) (en : env) (t : list event) : bool :=
  match c with
  | ClEntryFirst => entry_first_b t
  | ClBlockedNoHandler => implb (blocked en) (negb (mem HandlerCall t))
  | ClRejectIffBlocked =>
      if blocked en
      then (cnt FallbackCall t + cnt Rejected t =? 1) && implb (fallback en) (negb (mem Rejected t))
      else negb (mem FallbackCall t) && negb (mem Rejected t)
  | ClHandlerOnce => implb (negb (blocked en)) (cnt HandlerCall t =? 1)
  | ClExitOnce => cnt ExitCall t =? (if blocked en then 0 else 1)
  | ClExitAfterHandler => exit_after_b t
  | ClErrTraced => err_traced_b t
  | ClNoNilDeref => negb (mem NilDeref t)
  | ClNoSpuriousPanic => implb (mem PanicOut t) (is_hpanic (handler en) && negb (blocked en))
  end.

Definition contract_b (en : env) (t : list event) : bool :=
  forallb (fun c => clause_b c en t) all_clauses.

(* ---------------------------------------------------------------- contract (Prop) *)

Definition clause_P (c : clause) (en : env) (t : list event) : Prop :=
  match c with
  | ClEntryFirst =>
      exists pre post, t = pre ++ EntryCall :: post /\
        ~ In EntryCall pre /\ ~ In HandlerCall pre /\ ~ In EntryCall post
  | ClBlockedNoHandler => blocked en = true -> ~ In HandlerCall t
  | ClRejectIffBlocked =>
      (blocked en = true ->
         count_occ event_eq_dec t FallbackCall + count_occ event_eq_dec t Rejected = 1 /\
         (fallback en = true -> ~ In Rejected t)) /\
      (blocked en = false -> ~ In FallbackCall t /\ ~ In Rejected t)
  | ClHandlerOnce => blocked en = false -> count_occ event_eq_dec t HandlerCall = 1
  | ClExitOnce =>
      (blocked en = false -> count_occ event_eq_dec t ExitCall = 1) /\
      (blocked en = true -> ~ In ExitCall t)
  | ClExitAfterHandler => forall pre post, t = pre ++ HandlerCall :: post -> ~ In ExitCall pre
  | ClErrTraced =>
      forall pre post, t = pre ++ HandlerErr :: post ->
        exists mid rest, post = mid ++ Traced :: rest /\ ~ In ExitCall mid
  | ClNoNilDeref => ~ In NilDeref t
  | ClNoSpuriousPanic => In PanicOut t -> handler en = HPanic /\ blocked en = false
  end.

Definition Contract (en : env) (t : list event) : Prop := forall c, clause_P c en t.

(* ---------------------------------------------------------------- finite environment space *)

Fixpoint all_bits (k : nat) : list (list bool) :=
  match k with
  | O => [[]]
  | S k' => flat_map (fun l => [false :: l; true :: l]) (all_bits k')
  end.

Definition all_envs (k : nat) : list env :=
  flat_map (fun b => flat_map (fun h => flat_map (fun f => map (fun fl => mkEnv b h f fl) (all_bits k))
     [false; true]) [HOk; HErr; HPanic]) [false; true].

Fixpoint max_flag (p : prog) : nat :=   (* 1 + the largest flag index used; 0 if none *)
  match p with
  | IfOpt k a b => Nat.max (S k) (Nat.max (max_flag a) (max_flag b))
  | IfBlocked _ a b | IfFallback a b | IfErr _ a b | Seq a b => Nat.max (max_flag a) (max_flag b)
  | _ => 0
  end.

Fixpoint no_unknown (p : prog) : bool :=
  match p with
  | Unknown _ => false
  | IfOpt _ a b | IfBlocked _ a b | IfFallback a b | IfErr _ a b | Seq a b => no_unknown a && no_unknown b
  | _ => true
  end.

Fixpoint unknowns (p : prog) : list string :=
  match p with
  | Unknown s => [s]
  | IfOpt _ a b | IfBlocked _ a b | IfFallback a b | IfErr _ a b | Seq a b => unknowns a ++ unknowns b
  | _ => []
  end.

Fixpoint count_entries (p : prog) : nat :=
  match p with
  | Entry _ _ _ => 1
  | IfOpt _ a b | IfBlocked _ a b | IfFallback a b | IfErr _ a b | Seq a b => count_entries a + count_entries b
  | _ => 0
  end.

(* ---------------------------------------------------------------- entry points *)

(* a_fb: a block-fallback option exists for this entry point (the enclosing constructor
   evaluates an options struct that has a fallback field).  An entry point without such
   an option cannot be run in an environment where "the fallback is configured". *)
Record adapter := mkAdapter {
  a_file : string; a_func : string; a_line : nat; a_fb : bool; a_body : prog }.

Definition a_sig (a : adapter) : string := (a_file a ++ ":" ++ a_func a)%string.

Definition env_ok (a : adapter) (en : env) : bool := implb (fallback en) (a_fb a).

Definition envs_of (k : nat) (a : adapter) : list env := filter (env_ok a) (all_envs k).

Definition adapter_ok (k : nat) (a : adapter) : bool :=
  no_unknown (a_body a) && (max_flag (a_body a) <=? k) &&
  forallb (fun en => contract_b en (exec (a_body a) en)) (envs_of k a).

(* known findings: (signature "file:function", clause) pairs *)
Definition is_known (kn : list (string * clause)) (a : adapter) (c : clause) : bool :=
  existsb (fun p => String.eqb (fst p) (a_sig a) && clause_eqb (snd p) c) kn.

Definition has_known (kn : list (string * clause)) (a : adapter) : bool :=
  existsb (fun p => String.eqb (fst p) (a_sig a)) kn.

Definition minus_known (kn : list (string * clause)) (l : list adapter) : list adapter :=
  filter (fun a => negb (has_known kn a)) l.

(* the listed entry points: every clause that is not itself listed still holds *)
Definition adapter_ok_except (kn : list (string * clause)) (k : nat) (a : adapter) : bool :=
  no_unknown (a_body a) && (max_flag (a_body a) <=? k) &&
  forallb (fun en => forallb (fun c => is_known kn a c || clause_b c en (exec (a_body a) en)) all_clauses)
          (envs_of k a).

(* every listed (entry point, clause) pair really fails in some environment *)
Definition known_refuted (kn : list (string * clause)) (k : nat) (l : list adapter) : bool :=
  forallb (fun p =>
    existsb (fun a => String.eqb (fst p) (a_sig a) &&
                      existsb (fun en => negb (clause_b (snd p) en (exec (a_body a) en))) (envs_of k a)) l) kn.

(* for the report: (signature, line, environment, clause) of every unlisted failure *)
Inductive failure :=
| FailClause (sig : string) (line : nat) (en : env) (c : clause) (trace : list event)
| FailUnknown (sig : string) (line : nat) (src : string)
| FailFlags (sig : string) (line : nat).

(* one witness (the first failing environment) per unlisted (entry point, clause) *)
Definition failures (kn : list (string * clause)) (k : nat) (l : list adapter) : list failure :=
  flat_map (fun a =>
    map (FailUnknown (a_sig a) (a_line a)) (unknowns (a_body a)) ++
    (if max_flag (a_body a) <=? k then [] else [FailFlags (a_sig a) (a_line a)]) ++
    flat_map (fun c =>
      if is_known kn a c then [] else
      match find (fun en => negb (clause_b c en (exec (a_body a) en))) (envs_of k a) with
      | Some en => [FailClause (a_sig a) (a_line a) en c (exec (a_body a) en)]
      | None => []
      end) all_clauses) l.

Definition needed_flags (l : list adapter) : nat := list_max (map (fun a => max_flag (a_body a)) l).

(* ---------------------------------------------------------------- well-formedness *)

(* fragments without any modelled effect that fall through *)
Fixpoint quiet (p : prog) : bool :=
  match p with
  | Other => true
  | Seq a b => quiet a && quiet b
  | IfOpt _ a b => quiet a && quiet b
  | _ => false
  end.

(* function tails: nothing modelled happens, control falls through or returns *)
Fixpoint tail_ok (p : prog) : bool :=
  match p with
  | Other | Return => true
  | Seq a b => quiet a && tail_ok b
  | IfOpt _ a b => tail_ok a && tail_ok b
  | _ => false
  end.

(* summary of a blocked-branch body for a given "fallback configured?":
   (returns?, number of fallback calls, number of default rejections) *)
Definition sum_eqb (x y : bool * nat * nat) : bool :=
  let '(a, b, c) := x in let '(a', b', c') := y in Bool.eqb a a' && (b =? b') && (c =? c').

Fixpoint rej_sum (fbset : bool) (p : prog) : option (bool * nat * nat) :=
  match p with
  | Other => Some (false, 0, 0)
  | Return => Some (true, 0, 0)
  | Fallback m => if m || fbset then Some (false, 1, 0) else None
  | DefaultReject => Some (false, 0, 1)
  | IfFallback a b => if fbset then rej_sum fbset a else rej_sum fbset b
  | Seq a b =>
      match rej_sum fbset a with
      | Some (true, f, r) => Some (true, f, r)
      | Some (false, f, r) =>
          match rej_sum fbset b with
          | Some (rt, f2, r2) => Some (rt, f + f2, r + r2)
          | None => None
          end
      | None => None
      end
  | IfOpt _ a b =>
      match rej_sum fbset a, rej_sum fbset b with
      | Some x, Some y => if sum_eqb x y then Some x else None
      | _, _ => None
      end
  | _ => None
  end.

Definition osum_is (o : option (bool * nat * nat)) (x : bool * nat * nat) : bool :=
  match o with Some y => sum_eqb y x | None => false end.

(* with a fallback configured: exactly the fallback, then return; without: exactly one
   default rejection (or the mandatory, defaulted fallback), then return *)
Definition wf_blocked (fb : bool) (B : prog) : bool :=
  (negb fb || osum_is (rej_sum true B) (true, 1, 0)) &&
  (osum_is (rej_sum false B) (true, 0, 1) || osum_is (rej_sum false B) (true, 1, 0)).

Definition trace_body (e v : nat) (T : prog) : bool :=
  match T with
  | TraceError e' v' => (e =? e') && (v =? v')
  | Seq (TraceError e' v') q => (e =? e') && (v =? v') && tail_ok q
  | _ => false
  end.

Definition wf_handler (e : nat) (H : prog) : bool :=
  match H with
  | CallHandler ErrNone => true
  | Seq (CallHandler ErrNone) q => tail_ok q
  | Seq (CallHandler (ErrVar v)) (IfErr v' T Other) => (v =? v') && trace_body e v T
  | Seq (CallHandler (ErrVar v)) (Seq (IfErr v' T Other) q) => (v =? v') && trace_body e v T && tail_ok q
  | _ => false
  end.

(* statements between `defer e.Exit()` and the handler call that at most read through the
   entry e (non-nil there): entry.Context()..., option switches, appends to the call options *)
Fixpoint safe_pre (e : nat) (p : prog) : bool :=
  match p with
  | Other => true
  | Deref e' => e =? e'
  | Seq a b => safe_pre e a && safe_pre e b
  | IfOpt _ a b => safe_pre e a && safe_pre e b
  | _ => false
  end.

(* the handler part, preceded by any number of such statements *)
Fixpoint wf_handler_pre (e : nat) (H : prog) : bool :=
  wf_handler e H ||
  match H with
  | Seq a q => safe_pre e a && wf_handler_pre e q
  | _ => false
  end.

(*   e, err := Entry(...); if err != nil { <blocked body> }; defer e.Exit(); <handler part> *)
Definition wf_core (fb : bool) (p : prog) : bool :=
  match p with
  | Seq (Entry e err false) (Seq (IfBlocked err' B Other) (Seq (DeferExit e') H)) =>
      (err =? err') && (e =? e') && wf_blocked fb B && wf_handler_pre e H
  | _ => false
  end.

(* ... preceded by any number of quiet statements *)
Fixpoint wf_main (fb : bool) (p : prog) : bool :=
  wf_core fb p ||
  match p with
  | Seq a q => quiet a && wf_main fb q
  | _ => false
  end.

(* statements without any modelled effect are dropped first (they may sit anywhere: between
   the handler call and the error check, before the return, ...) *)
Fixpoint simp (p : prog) : prog :=
  match p with
  | Seq a b =>
      let a' := simp a in let b' := simp b in
      if quiet a' then b' else if quiet b' then a' else Seq a' b'
  | IfBlocked err a b => IfBlocked err (simp a) (simp b)
  | IfFallback a b => IfFallback (simp a) (simp b)
  | IfErr v a b => IfErr v (simp a) (simp b)
  | IfOpt k a b => let a' := simp a in let b' := simp b in
                   if quiet a' && quiet b' then Other else IfOpt k a' b'
  | _ => p
  end.

Definition wf_adapter (a : adapter) : bool := wf_main (a_fb a) (simp (a_body a)).
