(* Lemmas about Model/Chain.v, part 3: the statements of property C16 at the level of what
   the caller of Entry / Exit observes (built on ChainProofs / ChainOpProofs). *)
From Coq Require Import Sorting.Sorted Sorting.Permutation.
From SG Require Import Base.Prelude Model.Chain Proofs.ChainProofs Proofs.ChainOpProofs.

(* ---------------------------------------------------------------------------------- *)
(* ordering: ordered_stable determines the list (so "sorted, ties in insertion order" is
   a complete description of what Add*Slot produces)                                    *)

Section Unique.
Context {A : Type} (ord : A -> Z).

Lemma fv_app v (a b : list A) : fv ord v (a ++ b) = fv ord v a ++ fv ord v b.
Proof. unfold fv. apply filter_app. Qed.

Lemma sorted_head_min (y : A) r : StronglySorted (ole ord) (y :: r) -> Forall (fun z => ord y <= ord z) r.
Proof. intros H. inversion H; subst. assumption. Qed.

(* a sorted list is the concatenation, in increasing v, of its fv-classes; two sorted lists
   with the same classes are equal *)
Lemma sorted_fv_unique (l1 l2 : list A) :
  StronglySorted (ole ord) l1 -> StronglySorted (ole ord) l2 ->
  (forall v, fv ord v l1 = fv ord v l2) -> l1 = l2.
Proof.
  revert l2. induction l1 as [|x r1 IH]; intros l2 H1 H2 Hfv.
  - destruct l2 as [|y r2]; [reflexivity|].
    specialize (Hfv (ord y)). unfold fv in Hfv. cbn in Hfv. rewrite Z.eqb_refl in Hfv. discriminate.
  - destruct l2 as [|y r2].
    + specialize (Hfv (ord x)). unfold fv in Hfv. cbn in Hfv. rewrite Z.eqb_refl in Hfv. discriminate.
    + pose proof (sorted_head_min _ _ H1) as M1. pose proof (sorted_head_min _ _ H2) as M2.
      assert (Hxy : ord x = ord y).
      { (* y occurs in l1 and x occurs in l2 *)
        assert (Hy : In y (fv ord (ord y) (x :: r1))).
        { rewrite Hfv. unfold fv. cbn. rewrite Z.eqb_refl. left. reflexivity. }
        assert (Hx : In x (fv ord (ord x) (y :: r2))).
        { rewrite <- Hfv. unfold fv. cbn. rewrite Z.eqb_refl. left. reflexivity. }
        unfold fv in Hy, Hx. apply filter_In in Hy. apply filter_In in Hx.
        destruct Hy as [Hy _]. destruct Hx as [Hx _].
        assert (ord x <= ord y).
        { destruct Hy as [->|Hy]; [lia|]. rewrite Forall_forall in M1. apply M1. exact Hy. }
        assert (ord y <= ord x).
        { destruct Hx as [->|Hx]; [lia|]. rewrite Forall_forall in M2. apply M2. exact Hx. }
        lia. }
      assert (Hhead : x = y).
      { pose proof (Hfv (ord x)) as H. unfold fv in H. cbn in H. rewrite Z.eqb_refl in H.
        rewrite <- Hxy, Z.eqb_refl in H. congruence. }
      subst y. f_equal. apply IH.
      * inversion H1; assumption.
      * inversion H2; assumption.
      * intros v. pose proof (Hfv v) as H. unfold fv in H. cbn in H.
        destruct (ord x =? v); [injection H as H|]; exact H.
Qed.

Lemma ordered_stable_unique (inserted r1 r2 : list A) :
  ordered_stable ord inserted r1 -> ordered_stable ord inserted r2 -> r1 = r2.
Proof.
  intros (S1 & F1 & _) (S2 & F2 & _). apply sorted_fv_unique; auto.
  intros v. rewrite F1, F2. reflexivity.
Qed.

End Unique.

(* ---------------------------------------------------------------------------------- *)
(* converse facts about the loops                                                       *)

Lemma run_stats_nopanic_inv ss x be nd lg :
  snd (run_stats ss x be nd lg) = false -> Forall (fun s => ~ s_panics (x_flag x) s) ss.
Proof.
  revert nd lg. induction ss as [|s r IH]; intros nd lg H; [constructor|].
  cbn [run_stats] in H. destruct (s_real s) eqn:Er.
  - constructor; [|eapply IH; exact H]. unfold s_panics, sbeh_of. rewrite Er. discriminate.
  - destruct (sbeh_of s (x_flag x)) eqn:E.
    + constructor; [|eapply IH; exact H]. unfold s_panics. rewrite E. discriminate.
    + cbn in H. discriminate.
Qed.

(* statistic loop: the first panicking recording slot is the last one told *)
Lemma run_stats_panic ss1 s ss2 x be nd lg :
  Forall (fun s => ~ s_panics (x_flag x) s) ss1 -> s_panics (x_flag x) s ->
  snd (fst (run_stats (ss1 ++ s :: ss2) x be nd lg)) = rev (scalls x be (ss1 ++ [s])) ++ lg /\
  snd (run_stats (ss1 ++ s :: ss2) x be nd lg) = true.
Proof.
  revert nd lg. induction ss1 as [|q r IH]; intros nd lg H Hs.
  - unfold s_panics, sbeh_of in Hs. cbn [app run_stats]. destruct (s_real s) eqn:Er; [discriminate|].
    unfold sbeh_of. rewrite Er, Hs. cbn. unfold scalls. cbn. unfold scall. rewrite Er. cbn. auto.
  - inversion H as [|? ? Hq Hr]; subst. cbn [app run_stats]. rewrite scalls_cons. unfold scall.
    unfold s_panics in Hq. destruct (s_real q) eqn:Er.
    + cbn [app]. apply IH; auto.
    + destruct (sbeh_of q (x_flag x)) eqn:E; [|congruence].
      destruct (IH nd ((match be with None => LPassed (s_id q) (x_res x) (x_batch x) | Some e => LBlocked (s_id q) (x_res x) (x_batch x) e end) :: lg) Hr Hs) as [H1 H2].
      rewrite H1, H2. split; [|reflexivity]. rewrite rev_app_distr. cbn [rev app]. rewrite <- app_assoc. reflexivity.
Qed.

(* SlotChain.Entry returns a (non-nil) result only if no slot that ran panicked *)
Lemma chain_entry_not_nil ch x nd er :
  r_nil (chain_entry ch x nd er) = false ->
  no_prep_panic ch (x_flag x) /\ no_stat_panic ch (x_flag x) /\
  (Forall (c_benign (x_flag x)) (checks ch) \/
   exists pre c post e, checks ch = pre ++ c :: post /\ Forall (c_benign (x_flag x)) pre /\ cbeh_of c (x_flag x) = CBlock e).
Proof.
  unfold chain_entry, no_prep_panic, no_stat_panic.
  destruct (run_preps_shape (preps ch) x []) as (ps1 & ps2 & Hps & _ & _ & Hok1 & _).
  pose proof (run_preps_ctx (preps ch) x []) as Hx.
  destruct (run_preps (preps ch) x []) as [[x1 lg1] pan1]. cbn in Hok1, Hx.
  destruct Hx as (Hcore & _). injection Hcore as _ _ _ _ _ Hf _ _.
  destruct pan1; [cbn; discriminate|].
  destruct (Hok1 eq_refl) as [-> Hnp]. rewrite app_nil_r in Hps. subst ps1.
  rewrite Hf.
  destruct (checks_cases (checks ch) (x_flag x)) as [Hb|(pre & c & post & Hck & Hpre & [[e He]|Hpn])].
  - rewrite run_checks_ok by auto.
    destruct (run_stats (stats ch) (set_blk_rep x1 None) None nd (rev (map ccall (checks ch)) ++ lg1)) as [[nd3 lg3] pan3] eqn:Es.
    destruct pan3; cbn; [discriminate|]. intros _. repeat split; auto.
    pose proof (run_stats_nopanic_inv (stats ch) (set_blk_rep x1 None) None nd (rev (map ccall (checks ch)) ++ lg1)) as Hs.
    rewrite Es in Hs. cbn in Hs. rewrite Hf in Hs. auto.
  - rewrite Hck, (run_checks_block pre c post (x_flag x) lg1 e) by auto.
    destruct (run_stats (stats ch) (set_blk_rep x1 (Some (Z.of_nat (length er)))) (Some e) nd (rev (map ccall (pre ++ [c])) ++ lg1)) as [[nd3 lg3] pan3] eqn:Es.
    destruct pan3; cbn; [discriminate|]. intros _. repeat split; auto.
    + pose proof (run_stats_nopanic_inv (stats ch) (set_blk_rep x1 (Some (Z.of_nat (length er)))) (Some e) nd (rev (map ccall (pre ++ [c])) ++ lg1)) as Hs.
      rewrite Es in Hs. cbn in Hs. rewrite Hf in Hs. auto.
    + right. exists pre, c, post, e. rewrite <- Hck. auto.
  - rewrite Hck, (run_checks_panic pre c post (x_flag x) lg1) by auto. cbn. discriminate.
Qed.

(* if SlotChain.Entry returned nil although no statistic slot panics, the panic came from a
   prepare or rule-check slot: no outcome has been reported yet *)
Lemma chain_entry_nil_unreported ch x nd er :
  r_nil (chain_entry ch x nd er) = true -> no_stat_panic ch (x_flag x) ->
  x_rep (r_ctx (chain_entry ch x nd er)) = x_rep x.
Proof.
  intros Hn Hs.
  destruct (chain_entry_shape ch x nd er) as (ps1 & ps2 & cs1 & cs2 & ss1 & ss2 & be & _ & _ & _ & _ & _ & Hrep).
  revert Hn Hrep. unfold chain_entry.
  pose proof (run_preps_ctx (preps ch) x []) as Hx.
  destruct (run_preps (preps ch) x []) as [[x1 lg1] pan1]. cbn in Hx.
  destruct Hx as (Hcore & _ & _ & Hr & _). injection Hcore as _ _ _ _ _ Hf _ _.
  destruct pan1; [cbn; auto|].
  destruct (run_checks (checks ch) (x_flag x1) lg1) as [[blk lg2] pan2].
  destruct pan2; [cbn; auto|].
  assert (Hs2 : forall bid, Forall (fun s => ~ s_panics (x_flag (set_blk_rep x1 bid)) s) (stats ch)).
  { intros bid. cbn. rewrite Hf. exact Hs. }
  destruct blk as [e|].
  - destruct (run_stats_ok (stats ch) _ (Some e) nd lg2 (Hs2 (Some (Z.of_nat (length er))))) as [_ Hp].
    destruct (run_stats (stats ch) _ (Some e) nd lg2) as [[nd3 lg3] pan3]. cbn in Hp. subst pan3. cbn. discriminate.
  - destruct (run_stats_ok (stats ch) _ None nd lg2 (Hs2 None)) as [_ Hp].
    destruct (run_stats (stats ch) _ None nd lg2) as [[nd3 lg3] pan3]. cbn in Hp. subst pan3. cbn. discriminate.
Qed.

(* EntryPassedOnPanic in general: the statistic slots told "passed" are a prefix, in order;
   nothing happens if an outcome had been reported *)
Lemma passed_on_panic_shape ch r :
  let r' := passed_on_panic ch r in
  exists ss3 ss4, stats ch = ss3 ++ ss4 /\
    rev (r_log r') = rev (r_log r) ++ scalls (r_ctx r) None ss3 /\
    (x_rep (r_ctx r) = true -> ss3 = []).
Proof.
  unfold passed_on_panic. destruct (x_rep (r_ctx r)) eqn:Er.
  - exists [], (stats ch). cbn. rewrite app_nil_r. auto.
  - destruct (run_stats_shape (stats ch) (set_blk_rep (r_ctx r) None) None (r_nodes r) (r_log r)) as (a & b & Hab & Hl & _).
    destruct (run_stats (stats ch) (set_blk_rep (r_ctx r) None) None (r_nodes r) (r_log r)) as [[nd lg] pan]. cbn in Hl. cbn.
    exists a, b. repeat split; auto; [|discriminate].
    rewrite Hl, rev_app_distr, rev_involutive. rewrite (scalls_ext _ (r_ctx r)) by reflexivity. reflexivity.
Qed.

(* ---------------------------------------------------------------------------------- *)
(* Entry as the caller sees it                                                          *)

Definition obs_log (o : obs) : list call :=
  match o with
  | REntered _ _ lg | RBlocked _ _ lg | RCalls lg => lg
  | _ => []
  end.

(* whatever the slots do (block, nil, panic): the slots called during one Entry are a prefix of
   the prepare list, then a prefix of the rule-check list, then a prefix of the statistic list
   (all told the same outcome) - or, when a prepare / rule-check slot panicked, a prefix of the
   statistic list told "passed" by EntryPassedOnPanic; each in list order *)
Lemma do_entry_order chains s res inb batch flag args chid pk :
  let ch := chains chid in
  exists ps1 ps2 cs1 cs2 ss1 ss2 be ss3 ss4,
    preps ch = ps1 ++ ps2 /\ checks ch = cs1 ++ cs2 /\ stats ch = ss1 ++ ss2 /\ stats ch = ss3 ++ ss4 /\
    (ss1 = [] \/ ss3 = []) /\
    obs_log (snd (do_entry chains s res inb batch flag args chid pk)) =
      map pcall ps1 ++ map ccall cs1 ++ scalls (rb_ctx res batch) be ss1 ++ scalls (rb_ctx res batch) None ss3.
Proof.
  cbv zeta. entry_sets chains s res inb batch flag args chid pk.
  destruct (chain_entry_shape ch x (nodes s) (errs s)) as (ps1 & ps2 & cs1 & cs2 & ss1 & ss2 & be & Hp & Hc & Hs & Hl & _ & Hrep).
  fold r0 in Hl, Hrep.
  pose proof (chain_entry_ctx ch x (nodes s) (errs s)) as H0. fold r0 in H0. cbn in H0. destruct H0 as (H0 & _).
  injection H0 as _ _ Hr _ Hb _ _ _.
  destruct (r_nil r0) eqn:En.
  - destruct (passed_on_panic_shape ch r0) as (ss3 & ss4 & Hs34 & Hl3 & Hno).
    pose proof (passed_on_panic_ctx ch r0) as Hpp. cbn in Hpp. destruct Hpp as (_ & _ & _ & Hn' & _).
    rewrite (Hn' En). cbn [snd obs_log].
    exists ps1, ps2, cs1, cs2, ss1, ss2, be, ss3, ss4. repeat split; auto.
    + destruct Hrep as [Ht|(He & _)]; [right; auto|left; auto].
    + rewrite Hl3, Hl, <- !app_assoc.
      rewrite (scalls_ext x (rb_ctx res batch)) by reflexivity.
      rewrite (scalls_ext (r_ctx r0) (rb_ctx res batch)) by (cbn; auto). reflexivity.
  - rewrite En. exists ps1, ps2, cs1, cs2, ss1, ss2, be, [], (stats ch). cbn [scalls flat_map]. rewrite app_nil_r.
    assert (Hlog : rev (r_log r0) = map pcall ps1 ++ map ccall cs1 ++ scalls (rb_ctx res batch) be ss1).
    { rewrite Hl. rewrite (scalls_ext x (rb_ctx res batch)) by reflexivity. reflexivity. }
    destruct (x_blk (r_ctx r0)); cbn [snd obs_log]; repeat split; auto.
Qed.

(* a block error reaches the caller only if no slot panicked, and it is the first blocking
   slot's error (converse of do_entry_block) *)
Lemma do_entry_blocked_inv chains s res inb batch flag args chid pk c1 be lg :
  snd (do_entry chains s res inb batch flag args chid pk) = RBlocked c1 be lg ->
  no_prep_panic (chains chid) flag /\ no_stat_panic (chains chid) flag /\
  exists pre c0 post, checks (chains chid) = pre ++ c0 :: post /\ Forall (c_benign flag) pre /\ cbeh_of c0 flag = CBlock be.
Proof.
  intros H.
  pose proof (do_entry_outcome chains s res inb batch flag args chid pk) as Ho. cbv zeta in Ho.
  destruct Ho as [(c & lg' & He)|(Hnil & _)]; [rewrite He in H; discriminate|].
  apply chain_entry_not_nil in Hnil. cbn [x_flag] in Hnil.
  destruct Hnil as (Hp & Hs & [Hben|(pre & c0 & post & e & Hck & Hpre & Hc)]).
  - destruct (do_entry_pass chains s res inb batch flag args chid pk Hp Hben Hs) as (c & He). rewrite He in H. discriminate.
  - destruct (do_entry_block chains s res inb batch flag args chid pk pre c0 post e Hp Hck Hpre Hc Hs) as ((c & He) & _).
    rewrite He in H. injection H as _ Hbe _. subst e. repeat split; auto. exists pre, c0, post. auto.
Qed.

(* every Entry returns to its caller with exactly one of the two outcomes; a block error only
   when no slot panicked *)
Lemma do_entry_total chains s res inb batch flag args chid pk :
  (exists c lg, snd (do_entry chains s res inb batch flag args chid pk) = REntered (Z.of_nat (length (ents s))) c lg) \/
  (exists c be lg, snd (do_entry chains s res inb batch flag args chid pk) = RBlocked c be lg /\
     no_prep_panic (chains chid) flag /\ no_stat_panic (chains chid) flag /\
     exists pre c0 post, checks (chains chid) = pre ++ c0 :: post /\ Forall (c_benign flag) pre /\ cbeh_of c0 flag = CBlock be).
Proof.
  pose proof (do_entry_outcome chains s res inb batch flag args chid pk) as Ho. cbv zeta in Ho.
  destruct Ho as [Ho|(_ & c & be & lg & He)]; [left; exact Ho|right].
  exists c, be, lg. split; [exact He|]. eapply do_entry_blocked_inv; eauto.
Qed.

(* a panicking statistic slot during Entry: the request is admitted as well (whatever the rule
   checks had decided), later statistic slots are not told *)
Lemma do_entry_stat_panic chains s res inb batch flag args chid pk ss1 s0 ss2 :
  no_prep_panic (chains chid) flag ->
  stats (chains chid) = ss1 ++ s0 :: ss2 -> Forall (fun s => ~ s_panics flag s) ss1 -> s_panics flag s0 ->
  exists c lg, snd (do_entry chains s res inb batch flag args chid pk) = REntered (Z.of_nat (length (ents s))) c lg.
Proof.
  intros Hp Hst H1 Hs0.
  destruct (do_entry_total chains s res inb batch flag args chid pk) as [H|(c & be & lg & _ & _ & Hns & _)]; [exact H|].
  exfalso. unfold no_stat_panic in Hns. rewrite Hst in Hns. apply Forall_app in Hns. destruct Hns as [_ Hns].
  inversion Hns; subst. auto.
Qed.

(* the entry record created by Entry *)
Lemma do_entry_new_ent chains s res inb batch flag args chid pk :
  Inv s ->
  let s' := fst (do_entry chains s res inb batch flag args chid pk) in
  exists en, nth_error (ents s') (length (ents s)) = Some en /\ length (ents s') = S (length (ents s)) /\
    e_chain en = chid /\ e_handlers en = [] /\ g_res en = res /\ g_inb en = inb /\ g_batch en = batch /\
    g_args en = args /\ g_start en = now s /\
    match snd (do_entry chains s res inb batch flag args chid pk) with
    | REntered e c _ => e = Z.of_nat (length (ents s)) /\ e_ctx en = c /\ e_exited en = false /\
                        x_flag (ctxs s' c) = flag /\
                        (no_stat_panic (chains chid) flag -> g_passed en = true)
    | RBlocked _ _ _ => e_exited en = true /\ g_passed en = false
    | _ => False
    end.
Proof.
  intros HI. cbv zeta. entry_sets chains s res inb batch flag args chid pk.
  assert (Hx0 : x0 = new_ctx).
  { unfold x0. destruct reuse eqn:Er; [|reflexivity]. apply memZ_in in Er. unfold c. apply (inv_pool s HI pk Er). }
  set (r := if r_nil r0 then passed_on_panic ch r0 else r0).
  pose proof (chain_entry_ctx ch x (nodes s) (errs s)) as H0. fold r0 in H0. cbn in H0. destruct H0 as (H0 & _).
  assert (Hf : x_flag (r_ctx r) = flag).
  { unfold r. destruct (r_nil r0).
    - pose proof (passed_on_panic_ctx ch r0) as Hpp. cbn in Hpp. destruct Hpp as (Hc & _).
      rewrite H0 in Hc. injection Hc as _ _ _ _ _ Hf _ _. exact Hf.
    - injection H0 as _ _ _ _ _ Hf _ _. exact Hf. }
  assert (Hpassed : r_nil r = true -> no_stat_panic ch flag -> x_blk (r_ctx r) = None).
  { unfold r. destruct (r_nil r0) eqn:En.
    - intros _ Hs. pose proof (chain_entry_nil_unreported ch x (nodes s) (errs s)) as Hu. fold r0 in Hu.
      specialize (Hu En Hs).
      assert (Hrep : x_rep (r_ctx r0) = false) by (rewrite Hu; unfold x; cbn; rewrite Hx0; reflexivity).
      assert (Hf0 : x_flag (r_ctx r0) = flag) by (injection H0 as _ _ _ _ _ Hf0 _ _; exact Hf0).
      destruct (passed_on_panic_log ch r0 Hrep) as (Hb & _); [rewrite Hf0; exact Hs|exact Hb].
    - rewrite En. discriminate. }
  fold r. destruct (if r_nil r then None else x_blk (r_ctx r)) as [b|] eqn:Eb; cbn [fst snd ents].
  - eexists. split; [rewrite nth_error_app2, Nat.sub_diag by lia; reflexivity|].
    rewrite app_length. cbn. repeat split; auto. lia.
  - eexists. split; [rewrite nth_error_app2, Nat.sub_diag by lia; reflexivity|].
    rewrite app_length. cbn. repeat split; auto; try lia.
    + rewrite upd_same. exact Hf.
    + intros Hs. destruct (r_nil r) eqn:En.
      * rewrite (Hpassed eq_refl Hs). reflexivity.
      * rewrite Eb. reflexivity.
Qed.

(* ---------------------------------------------------------------------------------- *)
(* Exit as the caller sees it                                                           *)

Lemma do_exit_obs chains s e err : exists lg, snd (do_exit chains s e err) = RCalls lg.
Proof.
  unfold do_exit. destruct (get_ent s e) as [en|]; [|cbn; eauto]. destruct (e_exited en); [cbn; eauto|].
  destruct (run_handlers (e_handlers en) []) as [lg1 pan1].
  destruct pan1; [cbn; eauto|].
  destruct (x_blk (if err =? 0 then ctxs s (e_ctx en) else set_err (ctxs s (e_ctx en)) err)); [cbn; eauto|].
  match goal with |- context [run_done ?a ?b ?c ?d ?f] => destruct (run_done a b c d f) as [[nd lg] pan] end. cbn. eauto.
Qed.

(* after any Exit (handlers or statistic slots may panic): the entry is exited, and the invariant
   (its context is back in the pool, clean and unowned) holds *)
Lemma do_exit_total chains s e err :
  Inv s ->
  (exists lg, snd (do_exit chains s e err) = RCalls lg) /\
  Inv (fst (do_exit chains s e err)) /\
  (forall en, get_ent s e = Some en ->
     exists en', get_ent (fst (do_exit chains s e err)) e = Some en' /\ e_exited en' = true).
Proof.
  intros HI. split; [apply do_exit_obs|]. split; [apply do_exit_inv; exact HI|].
  intros en Hg. eapply do_exit_exits; eauto.
Qed.

Lemma step_never_escapes chains s o : snd (step chains s o) <> REscaped.
Proof.
  destruct o; cbn [step snd]; try discriminate.
  - destruct (do_entry_total chains s res inb batch flag args chain pk) as [(c & lg & ->)|(c & be & lg & -> & _)]; discriminate.
  - destruct (do_exit_obs chains s e err) as (lg & ->). discriminate.
Qed.

Lemma run_never_escapes chains ops s : ~ In REscaped (snd (run chains s ops)).
Proof.
  revert s. induction ops as [|o r IH]; intros s; [cbn; auto|].
  rewrite run_step. cbn [snd]. intros [H|H]; [exact (step_never_escapes chains s o H)|exact (IH _ H)].
Qed.

(* ---------------------------------------------------------------------------------- *)
(* the block error handed to the caller is never changed by later traffic                *)

Lemma block_error_stable chains s res inb batch flag args chid pk c1 be lg ops :
  Inv s -> snd (do_entry chains s res inb batch flag args chid pk) = RBlocked c1 be lg ->
  let s1 := fst (do_entry chains s res inb batch flag args chid pk) in
  nth (length (ret_view s)) (ret_view s1) berr0 = be /\
  nth (length (ret_view s)) (ret_view (exec chains s1 ops)) berr0 = be /\
  exists more, ret_view (exec chains s1 ops) = ret_view s ++ [be] ++ more.
Proof.
  intros HI Hob s1.
  pose proof (do_entry_ret_view chains s res inb batch flag args chid pk c1 be lg HI Hob) as H1. fold s1 in H1.
  assert (HI1 : Inv s1) by (apply do_entry_inv; exact HI).
  destruct (ret_view_exec chains ops s1 HI1) as (more & H2).
  split; [rewrite H1, app_nth2, Nat.sub_diag by lia; reflexivity|].
  split.
  - rewrite H2, H1, <- app_assoc, app_nth2, Nat.sub_diag by lia. reflexivity.
  - exists more. rewrite H2, H1, <- app_assoc. reflexivity.
Qed.

(* ---------------------------------------------------------------------------------- *)
(* admitted entries are live and (absent statistic-slot panics) carry the result "pass"  *)

Lemma do_entry_entered_ent chains s res inb batch flag args chid pk e c lg :
  Inv s -> snd (do_entry chains s res inb batch flag args chid pk) = REntered e c lg ->
  let s' := fst (do_entry chains s res inb batch flag args chid pk) in
  e = Z.of_nat (length (ents s)) /\
  exists en, get_ent s' e = Some en /\ e_exited en = false /\ e_ctx en = c /\ e_chain en = chid /\ e_handlers en = [] /\
    g_res en = res /\ g_inb en = inb /\ g_batch en = batch /\ g_start en = now s /\ x_flag (ctxs s' c) = flag /\
    (no_stat_panic (chains chid) flag -> g_passed en = true).
Proof.
  intros HI Hob s'.
  destruct (do_entry_new_ent chains s res inb batch flag args chid pk HI) as (en & Hn & _ & Hch & Hh & Hr & Hi & Hb & _ & Hst & Hm).
  rewrite Hob in Hm. destruct Hm as (He & Hc & Hx & Hf & Hp). split; [exact He|].
  exists en. subst e. unfold get_ent. destruct (Z.of_nat (length (ents s)) <? 0) eqn:E; [lia|].
  rewrite Nat2Z.id. repeat split; auto.
Qed.

(* no panic, no block: the log, and the entry is live with result "pass" *)
Lemma do_entry_pass_ent chains s res inb batch flag args chid pk :
  Inv s ->
  no_prep_panic (chains chid) flag -> Forall (c_benign flag) (checks (chains chid)) -> no_stat_panic (chains chid) flag ->
  let s' := fst (do_entry chains s res inb batch flag args chid pk) in
  let e := Z.of_nat (length (ents s)) in
  exists c en, snd (do_entry chains s res inb batch flag args chid pk) =
      REntered e c (map pcall (preps (chains chid)) ++ map ccall (checks (chains chid)) ++ scalls (rb_ctx res batch) None (stats (chains chid))) /\
    get_ent s' e = Some en /\ e_exited en = false /\ g_passed en = true /\ e_chain en = chid /\ e_handlers en = [] /\
    e_ctx en = c /\ x_flag (ctxs s' c) = flag.
Proof.
  intros HI Hp Hc Hs s' e.
  destruct (do_entry_pass chains s res inb batch flag args chid pk Hp Hc Hs) as (c & Hob).
  destruct (do_entry_entered_ent chains s res inb batch flag args chid pk _ _ _ HI Hob) as (_ & en & Hg & Hx & Hcx & Hch & Hh & _ & _ & _ & _ & Hf & Hpa).
  exists c, en. repeat split; auto.
Qed.
