(* Histories through the public API ([run] of Model/Hotspot.v: several resources, several rules
   per resource, Enter / Exit / Tick in any order): a per-(rule, statistics) invariant that every
   check and every concurrency bump preserves holds in every reachable state.  Instances:
   - the two QPS caches of every reject-mode rule stay in lockstep, hence no operation ever
     observes the spinning branch of the `for` loop (OSpin);
   - every stored token count is non-negative. *)
From SG Require Import Base.Prelude Base.GoInt Model.LRU Model.Hotspot
  Proofs.LRUProofs Proofs.HotspotBucketProofs Proofs.HotspotCtrlProofs Proofs.HotspotEnvProofs
  Proofs.HotspotThrottleProofs.
#[local] Open Scope Z_scope.

(* the rule is checked by rejectTrafficShapingController's QPS branch *)
Definition is_reject (r : rule) : bool :=
  negb (r_metric r =? 0) && negb (1 <? r_metric r) && (r_behavior r =? 0).

Lemma perform_checking_reject r m now k b : is_reject r = true ->
  perform_checking r m now k b = reject_check r m now k b.
Proof.
  unfold is_reject, perform_checking. intros H.
  destruct (r_metric r =? 0); [discriminate|]. destruct (1 <? r_metric r); [discriminate|].
  destruct (r_behavior r =? 0); [reflexivity|discriminate].
Qed.

Lemma conc_check_caches r m k :
  m_time (fst (conc_check r m k)) = m_time m /\ m_tok (fst (conc_check r m k)) = m_tok m /\
  snd (conc_check r m k) <> DSpin.
Proof.
  unfold conc_check. destruct (lru_add_if_absent (cache_size r) k 0 (m_conc m)) as [c1 prior].
  destruct (_ <=? _); cbn; repeat split; discriminate.
Qed.

Lemma conc_bump_caches delta r m q :
  m_time (conc_bump delta r m q) = m_time m /\ m_tok (conc_bump delta r m q) = m_tok m.
Proof.
  unfold conc_bump. destruct (r_metric r =? 0); [|split; reflexivity].
  destruct (extract r q) as [k|]; [|split; reflexivity].
  destruct (lru_get k (m_conc m)) as [c1 [c|]]; split; reflexivity.
Qed.

Lemma metrics_of_aset rules s res ms res' clk live n :
  metrics_of rules {| s_metrics := aset res ms (s_metrics s); s_live := live; s_clk := clk; s_nops := n |} res' =
  if res' =? res then ms else metrics_of rules s res'.
Proof.
  unfold metrics_of. cbn [s_metrics]. destruct (res' =? res) eqn:E.
  - assert (res' = res) by lia. subst. now rewrite alookup_aset_same.
  - rewrite alookup_aset_other by lia. reflexivity.
Qed.

Section Invariant.
Variable P : rule -> metric -> Prop.
Variable okb : Z -> Prop.
Hypothesis P_init : forall r, P r metric0.
Hypothesis P_check : forall r m now k b, okb b -> P r m ->
  P r (fst (perform_checking r m now k b)) /\ snd (perform_checking r m now k b) <> DSpin.
Hypothesis P_bump : forall delta r m q, P r m -> P r (conc_bump delta r m q).

Fixpoint ms_ok (rules : list rule) (ms : list metric) : Prop :=
  match rules, ms with
  | r :: rs, m :: mr => P r m /\ ms_ok rs mr
  | _, _ => True
  end.

Lemma ms_ok_init rules : ms_ok rules (map (fun _ => metric0) rules).
Proof. induction rules as [|r rs IH]; [exact I|]. cbn. split; [apply P_init|exact IH]. Qed.

Lemma slot_check_ok rules : forall ms i clk adv q,
  okb (q_batch q) -> ms_ok rules ms ->
  let '(ms', _, _, v) := slot_check i rules ms clk adv q in
  ms_ok rules ms' /\ (forall j, v <> VSpin j).
Proof.
  induction rules as [|r rs IH]; intros ms i clk adv q Hb Hok.
  - cbn. destruct ms; split; auto; discriminate.
  - destruct ms as [|m mr]; [cbn; split; auto; discriminate|].
    cbn [ms_ok] in Hok. destruct Hok as [Hm Hmr]. cbn [slot_check].
    destruct (extract r q) as [k|].
    + destruct (P_check r m (ms_of_ns clk) k (q_batch q) Hb Hm) as [Hm1 Hns].
      destruct (perform_checking r m (ms_of_ns clk) k (q_batch q)) as [m1 d]. cbn [fst snd] in *.
      destruct d as [|tv|ns|].
      * specialize (IH mr (i + 1) clk adv q Hb Hmr).
        destruct (slot_check (i + 1) rs mr clk adv q) as [[[mr1 clk1] sl] v].
        destruct IH as [IH1 IH2]. split; [cbn; split; assumption|exact IH2].
      * split; [cbn; split; assumption|discriminate].
      * destruct (0 <? ns).
        -- specialize (IH mr (i + 1) (if adv then u64 (clk + ns) else clk) adv q Hb Hmr).
           destruct (slot_check (i + 1) rs mr _ adv q) as [[[mr1 clk1] sl] v].
           destruct IH as [IH1 IH2]. split; [cbn; split; assumption|exact IH2].
        -- specialize (IH mr (i + 1) clk adv q Hb Hmr).
           destruct (slot_check (i + 1) rs mr clk adv q) as [[[mr1 clk1] sl] v].
           destruct IH as [IH1 IH2]. split; [cbn; split; assumption|exact IH2].
      * congruence.
    + specialize (IH mr (i + 1) clk adv q Hb Hmr).
      destruct (slot_check (i + 1) rs mr clk adv q) as [[[mr1 clk1] sl] v].
      destruct IH as [IH1 IH2]. split; [cbn; split; assumption|exact IH2].
Qed.

Lemma conc_bump_all_ok delta rules : forall ms q, ms_ok rules ms -> ms_ok rules (conc_bump_all delta rules ms q).
Proof.
  induction rules as [|r rs IH]; intros ms q Hok; [destruct ms; exact I|].
  destruct ms as [|m mr]; [exact I|]. cbn [ms_ok conc_bump_all] in *. destruct Hok as [H1 H2].
  split; [now apply P_bump|now apply IH].
Qed.

Definition state_ok (rules : Z -> list rule) (s : state) : Prop :=
  forall res, ms_ok (rules res) (metrics_of rules s res).

Lemma state_ok_init rules clk0 : state_ok rules (init clk0).
Proof. intros res. unfold metrics_of. cbn. apply ms_ok_init. Qed.

Definition op_ok (o : op) : Prop := match o with Enter _ q => okb (q_batch q) | _ => True end.


Lemma step_ok rules adv s o : op_ok o -> state_ok rules s ->
  state_ok rules (fst (step rules adv s o)) /\ snd (step rules adv s o) <> OSpin.
Proof.
  intros Ho Hs. destruct o as [ms|res q|k]; cbn [step].
  - split; [|discriminate]. intros res. exact (Hs res).
  - pose proof (slot_check_ok (rules res) (metrics_of rules s res) 0 (s_clk s) adv q Ho (Hs res)) as H.
    destruct (slot_check 0 (rules res) (metrics_of rules s res) (s_clk s) adv q) as [[[ms1 clk1] sl] v].
    destruct H as [H1 H2]. destruct v as [|i tv|i]; cbn [fst snd].
    + split; [|discriminate]. intros res'. rewrite metrics_of_aset.
      destruct (res' =? res) eqn:E; [|exact (Hs res')].
      assert (res' = res) by lia. subst. now apply conc_bump_all_ok.
    + split; [|discriminate]. intros res'. rewrite metrics_of_aset.
      destruct (res' =? res) eqn:E; [|exact (Hs res')]. assert (res' = res) by lia. now subst.
    + exfalso. exact (H2 i eq_refl).
  - destruct (alookup k (s_live s)) as [[res q]|]; cbn [fst snd].
    + split; [|discriminate]. intros res'. rewrite metrics_of_aset.
      destruct (res' =? res) eqn:E; [|exact (Hs res')].
      assert (res' = res) by lia. subst. apply conc_bump_all_ok. exact (Hs res).
    + split; [|discriminate]. intros res. exact (Hs res).
Qed.

Theorem run_ok rules adv ops : forall s, Forall op_ok ops -> state_ok rules s ->
  state_ok rules (fst (run rules adv s ops)) /\ Forall (fun o => o <> OSpin) (snd (run rules adv s ops)).
Proof.
  induction ops as [|o rest IH]; intros s Hops Hs.
  - split; [exact Hs|constructor].
  - inversion Hops as [|? ? Ho Hrest]; subst.
    destruct (step_ok rules adv s o Ho Hs) as [H1 H2]. cbn [run].
    destruct (step rules adv s o) as [s1 ob]. cbn [fst snd] in *.
    destruct (IH s1 Hrest H1) as [IH1 IH2]. destruct (run rules adv s1 rest) as [s2 obs].
    cbn [fst snd] in *. split; [exact IH1|constructor; assumption].
Qed.
End Invariant.

(* ---- instance 1: lockstep, no spinning ----------------------------------------------------- *)

Definition P_lock (r : rule) (m : metric) : Prop := is_reject r = true -> lockstep m.

Lemma P_lock_check r m now k b : True -> P_lock r m ->
  P_lock r (fst (perform_checking r m now k b)) /\ snd (perform_checking r m now k b) <> DSpin.
Proof.
  intros _ Hp. unfold P_lock, perform_checking.
  destruct (r_metric r =? 0) eqn:E0.
  - destruct (conc_check_caches r m k) as [_ [_ H3]]. split; [|exact H3].
    intros H. unfold is_reject in H. rewrite E0 in H. discriminate H.
  - destruct (1 <? r_metric r) eqn:E1.
    + split; [|discriminate]. intros H. unfold is_reject in H. rewrite E0, E1 in H. discriminate H.
    + destruct (r_behavior r =? 0) eqn:Eb.
      * assert (Hr : is_reject r = true) by (unfold is_reject; rewrite E0, E1, Eb; reflexivity).
        destruct (reject_check_lockstep r m now k b (Hp Hr)) as [H1 H2]. split; [intros _; exact H1|exact H2].
      * split; [|apply throttle_check_no_spin].
        intros H. unfold is_reject in H. rewrite E0, E1, Eb in H. discriminate H.
Qed.

Lemma P_lock_bump delta r m q : P_lock r m -> P_lock r (conc_bump delta r m q).
Proof.
  unfold P_lock, lockstep. intros H Hr. destruct (conc_bump_caches delta r m q) as [-> ->]. auto.
Qed.

(* no operation of any history through the public API meets the spinning branch *)
Theorem run_no_spin rules adv clk0 ops :
  Forall (fun o => o <> OSpin) (snd (run rules adv (init clk0) ops)).
Proof.
  refine (proj2 (run_ok P_lock (fun _ => True) P_lock_check P_lock_bump rules adv ops (init clk0) _ _)).
  - apply Forall_forall. intros o _. destruct o; exact I.
  - apply state_ok_init. intros r _. reflexivity.
Qed.

(* ---- instance 2: stored token counts are never negative -------------------------------------- *)

Definition P_tok (r : rule) (m : metric) : Prop := is_reject r = true -> nonneg_cells (m_tok m).

Lemma P_tok_check r m now k b : 0 <= b -> P_tok r m ->
  P_tok r (fst (perform_checking r m now k b)) /\ True.
Proof.
  intros Hb Hp. split; [|exact I]. intros Hr. rewrite (perform_checking_reject r m now k b Hr).
  apply reject_check_tokens_nonneg; [exact Hb|exact (Hp Hr)].
Qed.

Definition P_both (r : rule) (m : metric) : Prop := P_lock r m /\ P_tok r m.

Lemma P_both_check r m now k b : 0 <= b -> P_both r m ->
  P_both r (fst (perform_checking r m now k b)) /\ snd (perform_checking r m now k b) <> DSpin.
Proof.
  intros Hb [H1 H2]. destruct (P_lock_check r m now k b I H1) as [H3 H4].
  destruct (P_tok_check r m now k b Hb H2) as [H5 _]. repeat split; assumption.
Qed.

Lemma P_both_bump delta r m q : P_both r m -> P_both r (conc_bump delta r m q).
Proof.
  intros [H1 H2]. split; [now apply P_lock_bump|].
  unfold P_tok in *. intros Hr. destruct (conc_bump_caches delta r m q) as [_ ->]. auto.
Qed.

Definition batches_nonneg (ops : list op) : Prop :=
  Forall (fun o => match o with Enter _ q => 0 <= q_batch q | _ => True end) ops.

(* in every reachable state, every token count stored by a reject-mode rule is >= 0 *)
Theorem run_tokens_nonneg rules adv clk0 ops : batches_nonneg ops ->
  let s := fst (run rules adv (init clk0) ops) in
  forall res i r m, nth_error (rules res) i = Some r -> nth_error (metrics_of rules s res) i = Some m ->
  is_reject r = true -> forall k tok, alookup k (m_tok m) = Some tok -> 0 <= tok.
Proof.
  intros Hb s res i r m Hr Hm Hrej k tok Hk.
  assert (Hinit : forall r0, P_both r0 metric0).
  { intros r0. split; intros _; [reflexivity|constructor]. }
  pose proof (proj1 (run_ok P_both (fun b => 0 <= b) P_both_check P_both_bump rules adv ops (init clk0)
                       Hb (state_ok_init P_both Hinit rules clk0))) as Hs.
  fold s in Hs. specialize (Hs res).
  assert (Hnth : forall rs ms j, ms_ok P_both rs ms -> nth_error rs j = Some r -> nth_error ms j = Some m -> P_both r m).
  { induction rs as [|r0 rs IH]; intros ms j Hok Hj1 Hj2; [destruct j; discriminate|].
    destruct ms as [|m0 mr]; [destruct j; discriminate|]. cbn [ms_ok] in Hok. destruct Hok as [Ha Hb2].
    destruct j as [|j]; cbn in Hj1, Hj2; [inversion Hj1; inversion Hj2; subst; exact Ha|eauto]. }
  destruct (Hnth _ _ _ Hs Hr Hm) as [_ Ht]. eapply nonneg_lookup; [exact (Ht Hrej)|exact Hk].
Qed.

(* ---- a resource guarded by one QPS rule: the API history is a controller history -------------- *)

(* histories of PerformChecking of any one rule *)
Fixpoint pc_run (r : rule) (m : metric) (calls : list (Z * Z * Z)) : metric * list dec :=
  match calls with
  | [] => (m, [])
  | (now, k, b) :: rest =>
      let '(m1, d) := perform_checking r m now k b in
      let '(m2, ds) := pc_run r m1 rest in (m2, d :: ds)
  end.

Lemma pc_run_reject r : is_reject r = true -> forall calls m, pc_run r m calls = ctrl_run r m calls.
Proof.
  intros Hr. induction calls as [|[[now k] b] rest IH]; intros m; [reflexivity|].
  cbn [pc_run ctrl_run]. rewrite (perform_checking_reject r m now k b Hr).
  destruct (reject_check r m now k b) as [m1 d]. now rewrite IH.
Qed.

Definition is_throttle (r : rule) : bool :=
  negb (r_metric r =? 0) && negb (1 <? r_metric r) && negb (r_behavior r =? 0).

Lemma pc_run_throttle r : is_throttle r = true -> forall calls m, pc_run r m calls = thr_run r m calls.
Proof.
  intros Hr. assert (Hp : forall m now k b, perform_checking r m now k b = throttle_check r m now k b).
  { intros. unfold is_throttle in Hr. unfold perform_checking.
    destruct (r_metric r =? 0); [discriminate|]. destruct (1 <? r_metric r); [discriminate|].
    destruct (r_behavior r =? 0); [discriminate|reflexivity]. }
  induction calls as [|[[now k] b] rest IH]; intros m; [reflexivity|].
  cbn [pc_run thr_run]. rewrite Hp. destruct (throttle_check r m now k b) as [m1 d]. now rewrite IH.
Qed.

(* what the caller of Entry observes for a decision of the only rule of the resource *)
Definition obs_of_dec (d : dec) : obs :=
  match d with
  | DPass => OPass []
  | DBlock tv => OBlock 0 tv []
  | DWait ns => if 0 <? ns then OPass [ns] else OPass []
  | DSpin => OSpin
  end.

(* the calls that reach the rule of resource res during a history (arrival time = the virtual
   clock in ms when the Entry starts), and what those Entry calls returned *)
Fixpoint trace (rules : Z -> list rule) (adv : bool) (res : Z) (r : rule) (s : state) (ops : list op)
  : list (Z * Z * Z) * list obs :=
  match ops with
  | [] => ([], [])
  | o :: rest =>
      let '(s1, ob) := step rules adv s o in
      let '(cs, os) := trace rules adv res r s1 rest in
      match o with
      | Enter res' q =>
          if res' =? res then
            match extract r q with
            | Some k => ((ms_of_ns (s_clk s), k, q_batch q) :: cs, ob :: os)
            | None => (cs, os)
            end
          else (cs, os)
      | _ => (cs, os)
      end
  end.

Lemma metrics_of_same rules s s' res :
  s_metrics s' = s_metrics s -> metrics_of rules s' res = metrics_of rules s res.
Proof. unfold metrics_of. now intros ->. Qed.

Theorem run_single_rule rules adv res r : rules res = [r] -> r_metric r <> 0 ->
  forall ops s m, metrics_of rules s res = [m] ->
  let '(cs, os) := trace rules adv res r s ops in
  map obs_of_dec (snd (pc_run r m cs)) = os /\
  metrics_of rules (fst (run rules adv s ops)) res = [fst (pc_run r m cs)].
Proof.
  intros Hrules Hnc. assert (Hm0 : (r_metric r =? 0) = false) by lia.
  assert (Hbump : forall delta m q, conc_bump_all delta [r] [m] q = [m]).
  { intros. cbn [conc_bump_all]. unfold conc_bump. now rewrite Hm0. }
  induction ops as [|o rest IH]; intros s m Hm.
  - cbn. split; [reflexivity|exact Hm].
  - cbn [trace run]. destruct o as [ms|res' q|k].
    + cbn [step]. set (s1 := {| s_metrics := s_metrics s; s_live := s_live s;
                                s_clk := u64 (s_clk s + ms * 1000000); s_nops := s_nops s + 1 |}).
      assert (Hm1 : metrics_of rules s1 res = [m]) by (rewrite <- Hm; now apply metrics_of_same).
      specialize (IH s1 m Hm1). destruct (trace rules adv res r s1 rest) as [cs os].
      destruct (run rules adv s1 rest) as [s2 obs]. exact IH.
    + destruct (res' =? res) eqn:E.
      * assert (res' = res) by lia. subst res'. cbn [step]. rewrite Hrules, Hm. cbn [slot_check].
        destruct (extract r q) as [k|] eqn:Ex.
        -- destruct (perform_checking r m (ms_of_ns (s_clk s)) k (q_batch q)) as [m1 d] eqn:Epc.
           destruct d as [|tv|ns|].
           ++ cbn [slot_check]. rewrite Hbump.
              match goal with |- context [trace rules adv res r ?st rest] => set (s1 := st) end.
              assert (Hm1 : metrics_of rules s1 res = [m1]).
              { subst s1. rewrite metrics_of_aset. now rewrite Z.eqb_refl. }
              specialize (IH s1 m1 Hm1). destruct (trace rules adv res r s1 rest) as [cs os].
              destruct (run rules adv s1 rest) as [s2 obs]. cbn [pc_run]. rewrite Epc.
              destruct (pc_run r m1 cs) as [m2 ds]. cbn [fst snd map obs_of_dec] in *.
              destruct IH as [IH1 IH2]. split; [now rewrite IH1|exact IH2].
           ++ match goal with |- context [trace rules adv res r ?st rest] => set (s1 := st) end.
              assert (Hm1 : metrics_of rules s1 res = [m1]).
              { subst s1. rewrite metrics_of_aset. now rewrite Z.eqb_refl. }
              specialize (IH s1 m1 Hm1). destruct (trace rules adv res r s1 rest) as [cs os].
              destruct (run rules adv s1 rest) as [s2 obs]. cbn [pc_run]. rewrite Epc.
              destruct (pc_run r m1 cs) as [m2 ds]. cbn [fst snd map obs_of_dec] in *.
              destruct IH as [IH1 IH2]. split; [now rewrite IH1|exact IH2].
           ++ destruct (0 <? ns) eqn:En; cbn [slot_check]; rewrite Hbump;
              match goal with |- context [trace rules adv res r ?st rest] => set (s1 := st) end;
              (assert (Hm1 : metrics_of rules s1 res = [m1])
                 by (subst s1; rewrite metrics_of_aset; now rewrite Z.eqb_refl));
              specialize (IH s1 m1 Hm1); destruct (trace rules adv res r s1 rest) as [cs os];
              destruct (run rules adv s1 rest) as [s2 obs]; cbn [pc_run]; rewrite Epc;
              destruct (pc_run r m1 cs) as [m2 ds]; cbn [fst snd map obs_of_dec] in *; rewrite ?En;
              destruct IH as [IH1 IH2]; (split; [now rewrite IH1|exact IH2]).
           ++ match goal with |- context [trace rules adv res r ?st rest] => set (s1 := st) end.
              assert (Hm1 : metrics_of rules s1 res = [m1]).
              { subst s1. rewrite metrics_of_aset. now rewrite Z.eqb_refl. }
              specialize (IH s1 m1 Hm1). destruct (trace rules adv res r s1 rest) as [cs os].
              destruct (run rules adv s1 rest) as [s2 obs]. cbn [pc_run]. rewrite Epc.
              destruct (pc_run r m1 cs) as [m2 ds]. cbn [fst snd map obs_of_dec] in *.
              destruct IH as [IH1 IH2]. split; [now rewrite IH1|exact IH2].
        -- cbn [slot_check]. rewrite Hbump.
           match goal with |- context [trace rules adv res r ?st rest] => set (s1 := st) end.
           assert (Hm1 : metrics_of rules s1 res = [m]).
           { subst s1. rewrite metrics_of_aset. now rewrite Z.eqb_refl. }
           specialize (IH s1 m Hm1). destruct (trace rules adv res r s1 rest) as [cs os].
           destruct (run rules adv s1 rest) as [s2 obs]. exact IH.
      * assert (Hother : forall s1, (exists ms live clk n,
                   s1 = {| s_metrics := aset res' ms (s_metrics s); s_live := live; s_clk := clk; s_nops := n |}) ->
                   metrics_of rules s1 res = [m]).
        { intros s1 [ms [live [clk [n ->]]]]. rewrite metrics_of_aset.
          destruct (res =? res') eqn:E2; [lia|exact Hm]. }
        destruct (step rules adv s (Enter res' q)) as [s1 ob] eqn:Es.
        assert (Hm1 : metrics_of rules s1 res = [m]).
        { cbn [step] in Es.
          destruct (slot_check 0 (rules res') (metrics_of rules s res') (s_clk s) adv q) as [[[ms1 clk1] sl] v].
          destruct v; inversion Es; subst; apply Hother; eauto. }
        specialize (IH s1 m Hm1). destruct (trace rules adv res r s1 rest) as [cs os].
        destruct (run rules adv s1 rest) as [s2 obs]. exact IH.
    + destruct (step rules adv s (Exit k)) as [s1 ob] eqn:Es.
      assert (Hm1 : metrics_of rules s1 res = [m]).
      { cbn [step] in Es. destruct (alookup k (s_live s)) as [[res' q]|].
        - inversion Es; subst. rewrite metrics_of_aset. destruct (res =? res') eqn:E2; [|exact Hm].
          assert (res = res') by lia. subst res'. rewrite Hrules, Hm. apply Hbump.
        - inversion Es; subst. rewrite <- Hm. now apply metrics_of_same. }
      specialize (IH s1 m Hm1). destruct (trace rules adv res r s1 rest) as [cs os].
      destruct (run rules adv s1 rest) as [s2 obs]. exact IH.
Qed.
