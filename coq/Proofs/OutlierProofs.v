(* Lemmas about Model/Outlier.v (everything except the floating-point limit expression, which
   is in Proofs/OutlierFloat.v). *)
From Coq Require Import Floats.
From SG Require Import Base.Prelude Base.GoInt Base.GoFloat Model.Outlier.
#[local] Open Scope Z_scope.

(* ---------------------------------------------------------------------------------------- *)
(* association lists                                                                         *)

Lemma alookup_adel_same {A} k (l : list (Z * A)) : alookup k (adel k l) = None.
Proof.
  induction l as [|[k' v] l IH]; cbn; [reflexivity|].
  destruct (k =? k') eqn:E; [exact IH|]. cbn. rewrite E. exact IH.
Qed.

Lemma alookup_adel_other {A} k k2 (l : list (Z * A)) : k2 <> k -> alookup k2 (adel k l) = alookup k2 l.
Proof.
  intros Hne. induction l as [|[k' v] l IH]; cbn; [reflexivity|].
  destruct (k =? k') eqn:E.
  - assert (k = k') by lia. subst k'. destruct (k2 =? k) eqn:E2; [lia|exact IH].
  - cbn. destruct (k2 =? k'); [reflexivity|exact IH].
Qed.

Lemma Forall_adel {A} (P : Z * A -> Prop) k l : Forall P l -> Forall P (adel k l).
Proof.
  induction 1 as [|[k' v] l Hx _ IH]; cbn; [constructor|].
  destruct (k =? k'); [exact IH|constructor; assumption].
Qed.

Lemma Forall_aset {A} (P : Z * A -> Prop) k v l : P (k, v) -> Forall P l -> Forall P (aset k v l).
Proof.
  intros Hk. induction 1 as [|[k' v'] l Hx Hl IH]; cbn.
  - constructor; [exact Hk|constructor].
  - destruct (k =? k'); constructor; assumption.
Qed.

Lemma alookup_Forall {A} (P : Z * A -> Prop) k v l : Forall P l -> alookup k l = Some v -> P (k, v).
Proof.
  induction 1 as [|[k' v'] l Hx _ IH]; cbn; [discriminate|].
  destruct (k =? k') eqn:E; [|exact IH].
  intros H; inversion H; subst. assert (k = k') by lia. subst. exact Hx.
Qed.

Lemma NoDup_snoc {A} (l : list A) x : NoDup l -> ~ In x l -> NoDup (l ++ [x]).
Proof.
  intros Hl Hx. induction Hl as [|y l Hy Hl IH]; cbn.
  - constructor; [intros []|constructor].
  - constructor.
    + rewrite in_app_iff. cbn. intros [H|[H|[]]]; [exact (Hy H)|]. apply Hx. left. symmetry. exact H.
    + apply IH. intro H. apply Hx. right. exact H.
Qed.

Lemma alookup_aset_present {A} k k2 (v : A) l : alookup k2 l <> None -> alookup k2 (aset k v l) <> None.
Proof.
  intros H. destruct (Z.eq_dec k2 k) as [->|Hne].
  - rewrite alookup_aset_same. discriminate.
  - rewrite alookup_aset_other by exact Hne. exact H.
Qed.

(* ---------------------------------------------------------------------------------------- *)
(* TryPass                                                                                   *)

(* the breaker refuses the request made at clock `now` (and TryPass leaves it unchanged) *)
Definition rejects (r : brule) (now : Z) (b : breaker) : Prop := try_pass r now b = (false, b).

(* the breaker admits the request as a probe: TryPass returns true and the breaker is
   half-open afterwards (it was half-open with ProbeNum > 0, or Open with the retry timeout
   arrived, in which case this very call moved it to half-open) *)
Definition probes (r : brule) (now : Z) (b : breaker) : Prop :=
  fst (try_pass r now b) = true /\ st (snd (try_pass r now b)) = HalfOpen.

Lemma try_pass_false r now b : fst (try_pass r now b) = false -> rejects r now b.
Proof.
  unfold rejects, try_pass. destruct (st b); cbn.
  - discriminate.
  - intros ->. reflexivity.
  - destruct (next_retry b <=? now); cbn; [discriminate|reflexivity].
Qed.

Lemma rejects_fst r now b : rejects r now b -> fst (try_pass r now b) = false.
Proof. unfold rejects. intros ->. reflexivity. Qed.

Lemma rejects_iff r now b :
  rejects r now b <->
  (st b = Open /\ now < next_retry b) \/ (st b = HalfOpen /\ probe_num r <= 0).
Proof.
  unfold rejects, try_pass. destruct (st b) eqn:E.
  - split; [discriminate|]. intros [[H _]|[H _]]; discriminate.
  - destruct (0 <? probe_num r) eqn:P; split; intro H.
    + discriminate.
    + destruct H as [[H _]|[_ H]]; [discriminate|lia].
    + right. split; [reflexivity|lia].
    + reflexivity.
  - destruct (next_retry b <=? now) eqn:P; split; intro H.
    + discriminate.
    + destruct H as [[_ H]|[H _]]; [lia|discriminate].
    + left. split; [reflexivity|lia].
    + reflexivity.
Qed.

Lemma probes_iff r now b :
  probes r now b <->
  (st b = Open /\ next_retry b <= now) \/ (st b = HalfOpen /\ 0 < probe_num r).
Proof.
  unfold probes, try_pass, set_st. destruct (st b) eqn:E; cbn.
  - rewrite E. split; [intros [_ H]; discriminate|]. intros [[H _]|[H _]]; discriminate.
  - rewrite E. destruct (0 <? probe_num r) eqn:P; split; intro H.
    + right. split; [reflexivity|lia].
    + split; reflexivity.
    + destruct H; discriminate.
    + destruct H as [[H _]|[_ H]]; [discriminate|lia].
  - destruct (next_retry b <=? now) eqn:P; cbn; split; intro H.
    + left. split; [reflexivity|lia].
    + split; reflexivity.
    + destruct H; discriminate.
    + destruct H as [[_ H]|[H _]]; [lia|discriminate].
Qed.

(* ---------------------------------------------------------------------------------------- *)
(* one iteration                                                                             *)

Section Visit.
Variables (r : orule) (now lim : Z).
Let V := visit r now lim.

Lemma visit_nodes_other c x a : a <> x -> alookup a (a_nodes (visit r now lim c x)) = alookup a (a_nodes c).
Proof.
  intros Hne. unfold visit. destruct (alookup x (a_nodes c)) as [b|]; [|reflexivity].
  destruct (fst (try_pass (br r) now b)); cbn; [|reflexivity].
  apply alookup_aset_other. exact Hne.
Qed.

Lemma visit_nodes_present c x a : alookup a (a_nodes c) <> None -> alookup a (a_nodes (visit r now lim c x)) <> None.
Proof.
  intros H. unfold visit. destruct (alookup x (a_nodes c)) as [b|]; [|exact H].
  destruct (fst (try_pass (br r) now b)); cbn; [|exact H].
  apply alookup_aset_present. exact H.
Qed.

Lemma visit_nodes_length c x : length (a_nodes (visit r now lim c x)) = length (a_nodes c).
Proof.
  unfold visit. destruct (alookup x (a_nodes c)) as [b|] eqn:E; [|reflexivity].
  destruct (fst (try_pass (br r) now b)); cbn; [|reflexivity].
  clear -E. revert E. induction (a_nodes c) as [|[k v] l IH]; cbn; [discriminate|].
  destruct (x =? k); cbn; [reflexivity|]. intros H. rewrite IH by exact H. reflexivity.
Qed.

(* the filter list only grows by the visited address, only when it is rejected, only below the limit *)
Lemma visit_filt c x :
  a_filt (visit r now lim c x) = a_filt c \/
  (a_filt (visit r now lim c x) = a_filt c ++ [x] /\ Z.of_nat (length (a_filt c)) < lim /\
   exists b, alookup x (a_nodes c) = Some b /\ rejects (br r) now b /\ a_nodes (visit r now lim c x) = a_nodes c).
Proof.
  unfold visit. destruct (alookup x (a_nodes c)) as [b|] eqn:E; [|left; reflexivity].
  destruct (fst (try_pass (br r) now b)) eqn:T; cbn; [left; reflexivity|].
  destruct (Z.of_nat (length (a_filt c)) <? lim) eqn:L; [|left; reflexivity].
  right. split; [reflexivity|]. split; [lia|]. exists b. repeat split. apply try_pass_false. exact T.
Qed.

Lemma visit_outl c x :
  a_outl (visit r now lim c x) = a_outl c \/
  (a_outl (visit r now lim c x) = a_outl c ++ [x] /\
   exists b, alookup x (a_nodes c) = Some b /\ rejects (br r) now b).
Proof.
  unfold visit. destruct (alookup x (a_nodes c)) as [b|] eqn:E; [|left; reflexivity].
  destruct (fst (try_pass (br r) now b)) eqn:T; cbn; [left; reflexivity|].
  right. split; [reflexivity|]. exists b. split; [reflexivity|]. apply try_pass_false. exact T.
Qed.

(* who is appended to the half-open list *)
Definition probing (nodes : list (Z * breaker)) (a : Z) : Prop :=
  active r = false /\ exists b, alookup a nodes = Some b /\ probes (br r) now b.

Lemma visit_half c x a :
  In a (a_half (visit r now lim c x)) <-> In a (a_half c) \/ (a = x /\ probing (a_nodes c) x).
Proof.
  unfold visit, probing, probes. destruct (alookup x (a_nodes c)) as [b|] eqn:E.
  2:{ split; [tauto|]. intros [H|[_ [_ [b [H _]]]]]; [exact H|discriminate]. }
  destruct (fst (try_pass (br r) now b)) eqn:T; cbn.
  - destruct (active r) eqn:A; cbn.
    + split; [tauto|]. intros [H|[_ [H _]]]; [exact H|discriminate].
    + destruct (st (snd (try_pass (br r) now b))) eqn:S; cbn.
      * split; [tauto|]. intros [H|[_ [_ [b' [Hb [_ Hs]]]]]]; [exact H|].
        inversion Hb; subst b'. rewrite S in Hs. discriminate.
      * rewrite in_app_iff. cbn. split.
        -- intros [H|[H|[]]]; [left; exact H|]. right. split; [symmetry; exact H|].
           split; [reflexivity|]. exists b. rewrite T, S. repeat split.
        -- intros [H|[H _]]; [left; exact H|]. right. left. symmetry. exact H.
      * split; [tauto|]. intros [H|[_ [_ [b' [Hb [_ Hs]]]]]]; [exact H|].
        inversion Hb; subst b'. rewrite S in Hs. discriminate.
  - split; [tauto|]. intros [H|[_ [_ [b' [Hb [Ht _]]]]]]; [exact H|].
    inversion Hb; subst b'. rewrite T in Ht. discriminate.
Qed.

(* a visited node that probes ends in the state TryPass left it in *)
Lemma visit_nodes_self_pass c x b :
  alookup x (a_nodes c) = Some b -> fst (try_pass (br r) now b) = true ->
  alookup x (a_nodes (visit r now lim c x)) = Some (snd (try_pass (br r) now b)).
Proof.
  intros E T. unfold visit. rewrite E, T. cbn. apply alookup_aset_same.
Qed.

(* ---------------------------------------------------------------------------------------- *)
(* the whole loop                                                                            *)

Lemma fold_nodes_other order : forall c a, ~ In a order ->
  alookup a (a_nodes (fold_left (visit r now lim) order c)) = alookup a (a_nodes c).
Proof.
  induction order as [|x rest IH]; intros c a Hn; cbn; [reflexivity|].
  rewrite IH by (intro; apply Hn; right; assumption).
  apply visit_nodes_other. intro; apply Hn; left; congruence.
Qed.

Lemma fold_nodes_present order : forall c a, alookup a (a_nodes c) <> None ->
  alookup a (a_nodes (fold_left (visit r now lim) order c)) <> None.
Proof.
  induction order as [|x rest IH]; intros c a H; cbn; [exact H|].
  apply IH. apply visit_nodes_present. exact H.
Qed.

Lemma fold_nodes_length order : forall c,
  length (a_nodes (fold_left (visit r now lim) order c)) = length (a_nodes c).
Proof.
  induction order as [|x rest IH]; intros c; cbn; [reflexivity|].
  rewrite IH. apply visit_nodes_length.
Qed.

(* invariant carried through the loop: every filtered address was rejected on the breaker it
   had when the request arrived, and still has exactly that breaker. (Each address is visited
   once: with a repeated address and ProbeNum = 0 the first visit would turn an Open breaker
   half-open and the second visit would reject it.) *)
Definition filt_inv (nodes0 : list (Z * breaker)) (c : acc) : Prop :=
  forall a, In a (a_filt c) ->
    exists b, alookup a nodes0 = Some b /\ rejects (br r) now b /\ alookup a (a_nodes c) = Some b.

Lemma fold_filt_inv nodes0 order : forall c,
  NoDup order ->
  (forall a, In a order -> alookup a (a_nodes c) = alookup a nodes0) ->
  (forall a, In a (a_filt c) -> ~ In a order) ->
  filt_inv nodes0 c -> filt_inv nodes0 (fold_left (visit r now lim) order c).
Proof.
  induction order as [|x rest IH]; intros c Ho Hun Hd Hi; cbn; [exact Hi|].
  inversion Ho as [|? ? Hx Hrest]; subst.
  apply IH; [exact Hrest| | |].
  - intros a Ha. rewrite visit_nodes_other by (intros ->; exact (Hx Ha)). apply Hun. right. exact Ha.
  - intros a Ha. destruct (visit_filt c x) as [Heq|(Heq & _)]; rewrite Heq in Ha.
    + intro Hin. apply (Hd a Ha). right. exact Hin.
    + apply in_app_iff in Ha. destruct Ha as [Ha|[<-|[]]]; [|exact Hx].
      intro Hin. apply (Hd a Ha). right. exact Hin.
  - intros a Ha. destruct (visit_filt c x) as [Heq|(Heq & _ & b & Hb & Hrej & Hn)]; rewrite Heq in Ha.
    + destruct (Hi a Ha) as (b & H0 & Hrej & Hc). exists b. split; [exact H0|]. split; [exact Hrej|].
      rewrite visit_nodes_other; [exact Hc|]. intros ->. apply (Hd x Ha). left. reflexivity.
    + rewrite Hn. apply in_app_iff in Ha. destruct Ha as [Ha|[<-|[]]].
      * destruct (Hi a Ha) as (b' & H0 & Hrej' & Hc). exists b'. auto.
      * exists b. split; [|split; assumption]. rewrite <- Hb. symmetry. apply Hun. left. reflexivity.
Qed.

Lemma fold_filt_len order : forall c,
  Z.of_nat (length (a_filt c)) <= Z.max 0 lim ->
  Z.of_nat (length (a_filt (fold_left (visit r now lim) order c))) <= Z.max 0 lim.
Proof.
  induction order as [|x rest IH]; intros c H; cbn; [exact H|].
  apply IH. destruct (visit_filt c x) as [->|(-> & Hl & _)]; [exact H|].
  rewrite app_length. cbn. lia.
Qed.

Lemma fold_filt_nodup order : forall c,
  NoDup order -> NoDup (a_filt c) -> (forall x, In x (a_filt c) -> ~ In x order) ->
  NoDup (a_filt (fold_left (visit r now lim) order c)).
Proof.
  induction order as [|x rest IH]; intros c Ho Hf Hd; cbn; [exact Hf|].
  inversion Ho as [|? ? Hx Hrest]; subst.
  apply IH; [exact Hrest| |].
  - destruct (visit_filt c x) as [->|(-> & _)]; [exact Hf|].
    apply NoDup_snoc; [exact Hf|]. intro Hin. apply (Hd x Hin). left. reflexivity.
  - intros y Hy. destruct (visit_filt c x) as [Heq|(Heq & _)]; rewrite Heq in Hy.
    + intro Hin. apply (Hd y Hy). right. exact Hin.
    + apply in_app_iff in Hy. destruct Hy as [Hy|[<-|[]]]; [|exact Hx].
      intro Hin. apply (Hd y Hy). right. exact Hin.
Qed.

Lemma fold_filt_incl_outl order : forall c,
  incl (a_filt c) (a_outl c) ->
  incl (a_filt (fold_left (visit r now lim) order c)) (a_outl (fold_left (visit r now lim) order c)).
Proof.
  induction order as [|x rest IH]; intros c H; cbn; [exact H|].
  apply IH. unfold visit. destruct (alookup x (a_nodes c)) as [b|]; [|exact H].
  destruct (fst (try_pass (br r) now b)); cbn; [exact H|].
  destruct (Z.of_nat (length (a_filt c)) <? lim).
  - intros y Hy. apply in_app_iff in Hy. apply in_app_iff. destruct Hy as [Hy|Hy]; [left; apply H; exact Hy|right; exact Hy].
  - intros y Hy. apply in_app_iff. left. apply H. exact Hy.
Qed.

Lemma fold_filt_in_order order : forall c a,
  In a (a_filt (fold_left (visit r now lim) order c)) -> In a (a_filt c) \/ In a order.
Proof.
  induction order as [|x rest IH]; intros c a H; cbn in *; [left; exact H|].
  destruct (IH _ _ H) as [H1|H1]; [|right; right; exact H1].
  destruct (visit_filt c x) as [Heq|(Heq & _)]; rewrite Heq in H1.
  - left. exact H1.
  - apply in_app_iff in H1. destruct H1 as [H1|[<-|[]]]; [left; exact H1|right; left; reflexivity].
Qed.

Lemma fold_half order : forall c a, NoDup order ->
  (In a (a_half (fold_left (visit r now lim) order c)) <->
   In a (a_half c) \/ (In a order /\ probing (a_nodes c) a)).
Proof.
  induction order as [|x rest IH]; intros c a Ho; cbn.
  - split; [tauto|]. intros [H|[[] _]]. exact H.
  - inversion Ho as [|? ? Hx Hrest]; subst. rewrite (IH _ _ Hrest). rewrite visit_half.
    split.
    + intros [[H|[-> H]]|[Hin Hp]].
      * left. exact H.
      * right. split; [left; reflexivity|exact H].
      * right. split; [right; exact Hin|].
        destruct Hp as (Ha & b & Hb & Hp). split; [exact Ha|]. exists b. split; [|exact Hp].
        rewrite visit_nodes_other in Hb; [exact Hb|]. intros ->. exact (Hx Hin).
    + intros [H|[[->|Hin] Hp]].
      * left. left. exact H.
      * left. right. split; [reflexivity|exact Hp].
      * right. split; [exact Hin|].
        destruct Hp as (Ha & b & Hb & Hp). split; [exact Ha|]. exists b. split; [|exact Hp].
        rewrite visit_nodes_other; [exact Hb|]. intros ->. exact (Hx Hin).
Qed.

Lemma fold_half_state order : forall c a b, NoDup order -> In a order ->
  alookup a (a_nodes c) = Some b -> fst (try_pass (br r) now b) = true ->
  alookup a (a_nodes (fold_left (visit r now lim) order c)) = Some (snd (try_pass (br r) now b)).
Proof.
  induction order as [|x rest IH]; intros c a b Ho Hin Hb Ht; cbn; [destruct Hin|].
  inversion Ho as [|? ? Hx Hrest]; subst. destruct Hin as [->|Hin].
  - rewrite fold_nodes_other by exact Hx. apply visit_nodes_self_pass; assumption.
  - apply IH; try assumption. rewrite visit_nodes_other; [exact Hb|]. intros ->. exact (Hx Hin).
Qed.

End Visit.

(* ---------------------------------------------------------------------------------------- *)
(* check_all                                                                                 *)

Lemma check_all_filter_rejecting r now nodes order a :
  NoDup order ->
  In a (a_filt (check_all r now nodes order)) ->
  exists b, alookup a nodes = Some b /\ rejects (br r) now b /\
            alookup a (a_nodes (check_all r now nodes order)) = Some b.
Proof.
  intros Ho. unfold check_all. apply (fold_filt_inv r now _ nodes order); [exact Ho| | |].
  - reflexivity.
  - intros x [].
  - intros x [].
Qed.

Lemma check_all_filter_len r now nodes order :
  Z.of_nat (length (a_filt (check_all r now nodes order))) <=
  Z.max 0 (limit_of (Z.of_nat (length nodes)) (pct r)).
Proof. unfold check_all. apply fold_filt_len. cbn. lia. Qed.

Lemma check_all_filter_nodup r now nodes order :
  NoDup order -> NoDup (a_filt (check_all r now nodes order)).
Proof.
  intros H. unfold check_all. apply fold_filt_nodup; [exact H|constructor|intros x []].
Qed.

Lemma check_all_filter_in_order r now nodes order a :
  In a (a_filt (check_all r now nodes order)) -> In a order.
Proof.
  intros H. unfold check_all in H. apply fold_filt_in_order in H. destruct H as [[]|H]. exact H.
Qed.

Lemma check_all_nodes_length r now nodes order :
  length (a_nodes (check_all r now nodes order)) = length nodes.
Proof. unfold check_all. rewrite fold_nodes_length. reflexivity. Qed.

Lemma check_all_half r now nodes order a : NoDup order ->
  (In a (a_half (check_all r now nodes order)) <->
   active r = false /\ In a order /\ exists b, alookup a nodes = Some b /\ probes (br r) now b).
Proof.
  intros Ho. unfold check_all. rewrite fold_half by exact Ho. cbn. unfold probing. tauto.
Qed.

Lemma check_all_half_state r now nodes order a b : NoDup order -> In a order ->
  alookup a nodes = Some b -> probes (br r) now b ->
  alookup a (a_nodes (check_all r now nodes order)) = Some (snd (try_pass (br r) now b)).
Proof.
  intros Ho Hin Hb [Ht _]. unfold check_all. apply fold_half_state; assumption.
Qed.

(* filtered and half-open lists are disjoint *)
Lemma check_all_disjoint r now nodes order a : NoDup order ->
  In a (a_filt (check_all r now nodes order)) -> ~ In a (a_half (check_all r now nodes order)).
Proof.
  intros Ho Hf Hh. apply check_all_filter_rejecting in Hf; [|exact Ho]. destruct Hf as (b & Hb & Hrej & _).
  apply check_all_half in Hh; [|exact Ho]. destruct Hh as (_ & _ & b' & Hb' & Hp & _).
  rewrite Hb in Hb'. inversion Hb'; subst b'. rewrite (rejects_fst _ _ _ Hrej) in Hp. discriminate.
Qed.

(* ---------------------------------------------------------------------------------------- *)
(* step level statements                                                                     *)

Lemma step_filter_rejecting r s obj now order s' f h :
  NoDup order ->
  step r s (Enter obj true now order) = (s', OLists f h) ->
  forall a, In a f ->
    exists b, alookup a (nodes s) = Some b /\ rejects (br r) now b /\ alookup a (nodes s') = Some b.
Proof.
  cbn. intros Ho H a Ha. inversion H; subst; clear H. cbn.
  apply check_all_filter_rejecting; assumption.
Qed.

Lemma step_filter_len r s obj now order s' f h :
  step r s (Enter obj true now order) = (s', OLists f h) ->
  Z.of_nat (length f) <= Z.max 0 (limit_of (Z.of_nat (length (nodes s))) (pct r)) /\
  (NoDup order -> NoDup f) /\ incl f order /\ length (nodes s') = length (nodes s).
Proof.
  cbn. intros H. inversion H; subst; clear H. cbn.
  split; [apply check_all_filter_len|]. split; [apply check_all_filter_nodup|].
  split; [intros a; apply check_all_filter_in_order|apply check_all_nodes_length].
Qed.

Lemma step_half_exact r s obj now order s' f h :
  NoDup order ->
  step r s (Enter obj true now order) = (s', OLists f h) ->
  forall a, In a h <->
    (active r = false /\ In a order /\
     exists b, alookup a (nodes s) = Some b /\ probes (br r) now b /\
               alookup a (nodes s') = Some (snd (try_pass (br r) now b))).
Proof.
  cbn. intros Ho H a. inversion H; subst; clear H. cbn.
  rewrite check_all_half by exact Ho. split.
  - intros (Ha & Hin & b & Hb & Hp). split; [exact Ha|]. split; [exact Hin|]. exists b.
    split; [exact Hb|]. split; [exact Hp|]. apply check_all_half_state; assumption.
  - intros (Ha & Hin & b & Hb & Hp & _). split; [exact Ha|]. split; [exact Hin|]. exists b. tauto.
Qed.

Lemma step_half_disjoint r s obj now order s' f h :
  NoDup order ->
  step r s (Enter obj true now order) = (s', OLists f h) ->
  forall a, In a f -> ~ In a h.
Proof.
  cbn. intros Ho H a. inversion H; subst; clear H. apply check_all_disjoint. exact Ho.
Qed.

(* ---------------------------------------------------------------------------------------- *)
(* the pooled node lists (D23, repaired)                                                     *)

Definition pool_clean (s : state) : Prop := Forall (fun kv => snd kv = ([], [])) (pool s).

Lemma step_pool_clean r s o : pool_clean s -> pool_clean (fst (step r s o)).
Proof.
  unfold pool_clean. intros H. destruct o as [obj outl now order|obj now addr err|a|now a rt|a|]; cbn.
  - destruct outl; cbn; apply Forall_adel; exact H.
  - destruct (alookup obj (live s)) as [c|]; cbn; [|exact H].
    apply Forall_aset; [reflexivity|].
    destruct (c_outlier c && (0 <? addr))%bool; cbn; exact H.
  - exact H.
  - exact H.
  - exact H.
  - exact H.
Qed.

Lemma exec_pool_clean r ops : forall s, pool_clean s -> pool_clean (exec r s ops).
Proof.
  unfold exec. induction ops as [|o ops IH]; intros s H; cbn; [exact H|].
  pose proof (step_pool_clean r s o H) as H1.
  destruct (step r s o) as [s1 x]. cbn in H1. specialize (IH s1 H1).
  destruct (run r s1 ops) as [s2 xs]. cbn in *. exact IH.
Qed.

Lemma skip_reports_nothing r ops obj now order s' f h :
  step r (exec r init ops) (Enter obj false now order) = (s', OLists f h) -> f = [] /\ h = [].
Proof.
  pose proof (exec_pool_clean r ops init (Forall_nil _)) as Hc.
  cbn. intros H. inversion H; subst; clear H.
  destruct (alookup obj (pool (exec r init ops))) as [l|] eqn:E; [|split; reflexivity].
  pose proof (alookup_Forall _ _ _ _ Hc E) as Hl. cbn in Hl. subst l. split; reflexivity.
Qed.

(* ---------------------------------------------------------------------------------------- *)
(* recycler                                                                                  *)

Lemma r_schedule_keeps ns : forall status a v,
  alookup a status = Some v -> alookup a (r_schedule ns status) = Some v.
Proof.
  induction ns as [|x rest IH]; intros status a v H; cbn; [exact H|].
  apply IH. destruct (alookup x status) eqn:E; [exact H|].
  destruct (Z.eq_dec a x) as [->|Hne]; [congruence|].
  rewrite alookup_aset_other by exact Hne. exact H.
Qed.

Lemma r_recover_keeps x status a :
  alookup a status <> None -> alookup a (r_recover x status) <> None.
Proof.
  intros H. unfold r_recover. destruct (alookup x status); [|exact H].
  apply alookup_aset_present. exact H.
Qed.

Lemma r_recover_true x status a :
  alookup a status = Some true -> alookup a (r_recover x status) = Some true.
Proof.
  intros H. unfold r_recover. destruct (alookup x status) eqn:E; [|exact H].
  destruct (Z.eq_dec a x) as [->|Hne]; [apply alookup_aset_same|].
  rewrite alookup_aset_other by exact Hne. exact H.
Qed.

Lemma r_recover_self status a :
  alookup a status <> None -> alookup a (r_recover a status) = Some true.
Proof.
  intros H. unfold r_recover. destruct (alookup a status) eqn:E; [|congruence].
  apply alookup_aset_same.
Qed.

Definition not_fire (a : Z) (o : op) : Prop := match o with Fire x => x <> a | _ => True end.

(* node a stays scheduled as long as its timer does not fire *)
Lemma step_keeps_scheduled r s o a :
  not_fire a o -> alookup a (rstatus s) <> None -> alookup a (rstatus (fst (step r s o))) <> None.
Proof.
  intros Hnf H. destruct o as [obj outl now order|obj now addr err|x|now x rt|x|]; cbn.
  - destruct outl; cbn; [|exact H].
    destruct (a_outl (check_all r now (nodes s) order)); [exact H|].
    destruct (alookup a (rstatus s)) as [v|] eqn:E; [|congruence].
    rewrite (r_schedule_keeps _ _ _ _ E). discriminate.
  - destruct (alookup obj (live s)) as [c|]; cbn; [|exact H].
    destruct (c_outlier c && (0 <? addr))%bool; cbn; [|exact H].
    destruct err; [exact H|]. apply r_recover_keeps. exact H.
  - cbn in Hnf. rewrite alookup_adel_other by (intro; apply Hnf; congruence). exact H.
  - apply r_recover_keeps. exact H.
  - exact H.
  - exact H.
Qed.

(* once recovered (status true) and present, node a stays so until its timer fires *)
Definition recovered (a : Z) (s : state) : Prop :=
  alookup a (rstatus s) = Some true /\ alookup a (nodes s) <> None.

Lemma step_keeps_recovered r s o a :
  not_fire a o -> recovered a s -> recovered a (fst (step r s o)).
Proof.
  intros Hnf [Hs Hn]. unfold recovered.
  destruct o as [obj outl now order|obj now addr err|x|now x rt|x|]; cbn.
  - destruct outl; cbn; [|split; assumption]. split.
    + destruct (a_outl (check_all r now (nodes s) order)); [exact Hs|].
      apply r_schedule_keeps. exact Hs.
    + unfold check_all. apply fold_nodes_present. exact Hn.
  - destruct (alookup obj (live s)) as [c|]; cbn; [|split; assumption].
    destruct (c_outlier c && (0 <? addr))%bool; cbn; [|split; assumption]. split.
    + destruct err; [exact Hs|]. apply r_recover_true. exact Hs.
    + apply alookup_aset_present. exact Hn.
  - cbn in Hnf. assert (a <> x) by (intro; apply Hnf; congruence). split.
    + rewrite alookup_adel_other by assumption. exact Hs.
    + destruct (alookup x (rstatus s)) as [[|]|]; try exact Hn.
      rewrite alookup_adel_other by assumption. exact Hn.
  - split.
    + apply r_recover_true. exact Hs.
    + destruct (alookup x (nodes s)); [apply alookup_aset_present|]; exact Hn.
  - split; assumption.
  - split; assumption.
Qed.

Lemma exec_keeps (P : state -> Prop) r a ops :
  (forall s o, not_fire a o -> P s -> P (fst (step r s o))) ->
  forall s, Forall (not_fire a) ops -> P s -> P (exec r s ops).
Proof.
  intros Hstep. unfold exec. induction ops as [|o ops IH]; intros s Hf H; cbn; [exact H|].
  inversion Hf as [|? ? Ho Hrest]; subst.
  pose proof (Hstep s o Ho H) as H1.
  destruct (step r s o) as [s1 x]. cbn in H1. specialize (IH s1 Hrest H1).
  destruct (run r s1 ops) as [s2 xs]. cbn in *. exact IH.
Qed.

(* a successful completion of a scheduled node marks it recovered *)
Lemma success_recovers r s obj now a c :
  alookup obj (live s) = Some c -> c_outlier c = true -> 0 < a ->
  alookup a (rstatus s) <> None ->
  recovered a (fst (step r s (Exit obj now a false))).
Proof.
  intros Hl Ho Ha Hs. unfold recovered. cbn. rewrite Hl. cbn. rewrite Ho.
  assert (E : (0 <? a) = true) by lia. rewrite E. cbn. unfold stat_complete. cbn. split.
  - apply r_recover_self. exact Hs.
  - rewrite alookup_aset_same. discriminate.
Qed.

(* the timer of a recovered node leaves its breaker alone *)
Lemma fire_recovered r s a :
  recovered a s ->
  nodes (fst (step r s (Fire a))) = nodes s /\ alookup a (nodes (fst (step r s (Fire a)))) <> None.
Proof.
  intros [Hs Hn]. cbn. rewrite Hs. split; [reflexivity|exact Hn].
Qed.

(* the timer of a scheduled node that was never recovered removes its breaker *)
Lemma fire_unrecovered r s a :
  alookup a (rstatus s) = Some false ->
  alookup a (nodes (fst (step r s (Fire a)))) = None.
Proof. intros Hs. cbn. rewrite Hs. apply alookup_adel_same. Qed.

Lemma success_not_recycled r s0 a mid1 obj now c mid2 :
  alookup a (rstatus s0) <> None ->
  Forall (not_fire a) mid1 -> Forall (not_fire a) mid2 ->
  let s1 := exec r s0 mid1 in
  alookup obj (live s1) = Some c -> c_outlier c = true -> 0 < a ->
  let s2 := exec r (fst (step r s1 (Exit obj now a false))) mid2 in
  nodes (fst (step r s2 (Fire a))) = nodes s2 /\
  alookup a (nodes (fst (step r s2 (Fire a)))) <> None.
Proof.
  intros Hs Hm1 Hm2 s1 Hl Ho Ha s2.
  apply fire_recovered. subst s2.
  apply (exec_keeps (recovered a) r a mid2 (fun s o => step_keeps_recovered r s o a)); [exact Hm2|].
  apply (success_recovers r s1 obj now a c); try assumption.
  subst s1.
  apply (exec_keeps (fun s => alookup a (rstatus s) <> None) r a mid1 (fun s o => step_keeps_scheduled r s o a)); assumption.
Qed.

(* the same across rule reloads that keep the circuit-breaker part (op Reload): a reload anywhere
   between the scheduling and the timer - before or after the successful completion - changes
   nothing, the recovered node keeps its breaker *)
Lemma reload_id r s : step r s Reload = (s, ONone).
Proof. reflexivity. Qed.

Lemma success_not_recycled_across_reload r s0 a pre post obj now c mid2a mid2b :
  alookup a (rstatus s0) <> None ->
  Forall (not_fire a) pre -> Forall (not_fire a) post ->
  Forall (not_fire a) mid2a -> Forall (not_fire a) mid2b ->
  let s1 := exec r s0 (pre ++ Reload :: post) in
  alookup obj (live s1) = Some c -> c_outlier c = true -> 0 < a ->
  let s2 := exec r (fst (step r s1 (Exit obj now a false))) (mid2a ++ Reload :: mid2b) in
  nodes (fst (step r s2 (Fire a))) = nodes s2 /\
  alookup a (nodes (fst (step r s2 (Fire a)))) <> None.
Proof.
  intros Hs H1 H2 H3 H4. apply success_not_recycled; try assumption;
    apply Forall_app; split; try assumption; constructor; try assumption; exact I.
Qed.
