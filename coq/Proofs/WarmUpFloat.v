(* Warm-up calculator, float model: the allowed-token value computed in doubles is within a
   relative 12*2^-52 of the exact curve  T*(M-W) / ((rest-W)*(cf-1) + (M-W))  (the rational twin
   of Model/WarmUp.v), for every non-degenerate configuration with 2^-64 <= T <= 2^64,
   cold factor < 2^32 and maxToken <= 2^53.  Consequences: never above T*(1+eps), never below
   T/cf*(1-eps) while the bucket holds at most maxToken, T/cf*(1+-eps) on a full bucket, at least
   one token when T >= cf*(1+eps'), finite and positive. *)
From Coq Require Import ZArith Reals Floats Lia Lra Psatz.
From Flocq Require Import Core IEEE754.BinarySingleNaN IEEE754.PrimFloat.
From SG Require Import Base.Prelude Base.GoInt Base.GoFloat Model.WarmUp Proofs.WarmUpProofs Proofs.C11Float.
#[local] Open Scope Z_scope.
#[local] Transparent two63.

(* ---------- a small multiplicative-error calculus ---------- *)

Definition ww : R := bpow radix2 (-52).
Definition W1 : R := (1 + ww)%R.

Lemma ww_uu : ww = (2 * uu)%R.
Proof. unfold ww, uu. change 2%R with (bpow radix2 1). rewrite <- bpow_plus. reflexivity. Qed.

Lemma ww_pos : (0 < ww)%R. Proof. apply bpow_gt_0. Qed.

Lemma ww_small : (ww <= / 4096)%R.
Proof.
  unfold ww. replace (/ 4096)%R with (bpow radix2 (-12)).
  - apply bpow_le. lia.
  - change (bpow radix2 (-12)) with (/ IZR (Z.pow_pos 2 12))%R. f_equal.
Qed.

Lemma W1_gt1 : (1 < W1)%R. Proof. unfold W1. pose proof ww_pos. lra. Qed.

Lemma W1pow_ge1 k : (1 <= W1 ^ k)%R.
Proof. apply pow_R1_Rle. pose proof W1_gt1. lra. Qed.

Lemma W1pow_pos k : (0 < W1 ^ k)%R.
Proof. pose proof (W1pow_ge1 k). lra. Qed.

Lemma W1pow_mono k k' : (k <= k')%nat -> (W1 ^ k <= W1 ^ k')%R.
Proof. intros H. apply Rle_pow; [pose proof W1_gt1; lra|exact H]. Qed.

(* (1+w)^k <= 1 + 2kw while kw <= 1/2 *)
Lemma W1pow_le k : (INR k * ww <= / 2)%R -> (W1 ^ k <= 1 + 2 * INR k * ww)%R.
Proof.
  induction k as [|k IH]; intros H.
  - cbn. lra.
  - rewrite S_INR in *. pose proof ww_pos as Hw. pose proof (pos_INR k) as Hk.
    assert (H' : (INR k * ww <= / 2)%R) by nra.
    specialize (IH H'). cbn [pow]. unfold W1 in *. nra.
Qed.

(* v approximates e > 0 within k roundings *)
Definition approx (v e : R) (k : nat) : Prop := (0 < e)%R /\ (e <= v * W1 ^ k)%R /\ (v <= e * W1 ^ k)%R.

Lemma approx_pos v e k : approx v e k -> (0 < v)%R.
Proof. intros (H0 & H1 & _). pose proof (W1pow_pos k). nra. Qed.

Lemma approx_exact e : (0 < e)%R -> approx e e 0.
Proof. intros H. unfold approx. cbn. lra. Qed.

Lemma approx_weaken v e k k' : approx v e k -> (k <= k')%nat -> approx v e k'.
Proof.
  intros Ha Hk. pose proof (approx_pos _ _ _ Ha) as Hv. destruct Ha as (H0 & H1 & H2).
  pose proof (W1pow_mono k k' Hk). pose proof (W1pow_pos k). repeat split; [exact H0|nra|nra].
Qed.

Lemma approx_mul v1 e1 k1 v2 e2 k2 : approx v1 e1 k1 -> approx v2 e2 k2 -> approx (v1 * v2) (e1 * e2) (k1 + k2).
Proof.
  intros A1 A2. pose proof (approx_pos _ _ _ A1) as P1. pose proof (approx_pos _ _ _ A2) as P2.
  destruct A1 as (H0 & H1 & H2). destruct A2 as (G0 & G1 & G2).
  pose proof (W1pow_pos k1). pose proof (W1pow_pos k2).
  unfold approx. rewrite pow_add. repeat split.
  - nra.
  - replace (v1 * v2 * (W1 ^ k1 * W1 ^ k2))%R with ((v1 * W1 ^ k1) * (v2 * W1 ^ k2))%R by ring.
    apply Rmult_le_compat; lra.
  - replace (e1 * e2 * (W1 ^ k1 * W1 ^ k2))%R with ((e1 * W1 ^ k1) * (e2 * W1 ^ k2))%R by ring.
    apply Rmult_le_compat; lra.
Qed.

Lemma approx_inv v e k : approx v e k -> approx (/ v) (/ e) k.
Proof.
  intros A. pose proof (approx_pos _ _ _ A) as P. destruct A as (H0 & H1 & H2).
  pose proof (W1pow_pos k) as Pw.
  assert (Iv : (0 < / v)%R) by (apply Rinv_0_lt_compat; exact P).
  assert (Ie : (0 < / e)%R) by (apply Rinv_0_lt_compat; exact H0).
  repeat split; [exact Ie| |].
  - (* /e <= /v * W^k  <=  v <= e * W^k *)
    apply Rmult_le_reg_l with (e * v)%R; [nra|].
    replace (e * v * / e)%R with v by (field; lra).
    replace (e * v * (/ v * W1 ^ k))%R with (e * W1 ^ k)%R by (field; lra). exact H2.
  - apply Rmult_le_reg_l with (e * v)%R; [nra|].
    replace (e * v * / v)%R with e by (field; lra).
    replace (e * v * (/ e * W1 ^ k))%R with (v * W1 ^ k)%R by (field; lra). exact H1.
Qed.

Lemma approx_div v1 e1 k1 v2 e2 k2 : approx v1 e1 k1 -> approx v2 e2 k2 -> approx (v1 / v2) (e1 / e2) (k1 + k2).
Proof. intros A1 A2. unfold Rdiv. apply approx_mul; [exact A1|apply approx_inv; exact A2]. Qed.

Lemma approx_add v1 e1 v2 e2 k : approx v1 e1 k -> approx v2 e2 k -> approx (v1 + v2) (e1 + e2) k.
Proof.
  intros (H0 & H1 & H2) (G0 & G1 & G2). repeat split; [lra| |]; rewrite Rmult_plus_distr_r; lra.
Qed.

(* one rounding of a value in the normal range *)
Lemma approx_rnd v e k : approx v e k -> (bpow radix2 (-1022) <= v)%R -> approx (Rnd v) e (S k).
Proof.
  intros A Hn. pose proof (approx_pos _ _ _ A) as P. destruct A as (H0 & H1 & H2).
  pose proof (Rnd_rel v) as R. rewrite (Rabs_pos_eq v) in R by lra. specialize (R Hn).
  apply Rabs_le_inv in R.
  pose proof ww_uu as Wu. pose proof ww_pos as Wp. pose proof ww_small as Ws.
  pose proof (W1pow_pos k) as Pk.
  assert (U1 : (Rnd v <= v * W1)%R) by (unfold W1; nra).
  assert (U2 : (v <= Rnd v * W1)%R).
  { unfold W1. assert (uu <= / 2048)%R by lra. assert (0 < uu)%R by lra. nra. }
  assert (Pr : (0 < Rnd v)%R) by (pose proof W1_gt1; nra).
  unfold approx. cbn [pow]. repeat split; [exact H0| |].
  - apply Rle_trans with (v * W1 ^ k)%R; [exact H1|]. replace (Rnd v * (W1 * W1 ^ k))%R with ((Rnd v * W1) * W1 ^ k)%R by ring.
    apply Rmult_le_compat_r; lra.
  - apply Rle_trans with (v * W1)%R; [exact U1|]. replace (e * (W1 * W1 ^ k))%R with ((e * W1 ^ k) * W1)%R by ring.
    apply Rmult_le_compat_r; [pose proof W1_gt1; lra|exact H2].
Qed.

(* magnitude bookkeeping for the exact values: 2^-n <= e <= 2^n *)
Definition rng (e : R) (n : Z) : Prop := (bpow radix2 (- n) <= e <= bpow radix2 n)%R.

Lemma rng_pos e n : rng e n -> (0 < e)%R.
Proof. intros [H _]. pose proof (bpow_gt_0 radix2 (- n)). lra. Qed.

Lemma rng_mul e1 n1 e2 n2 : rng e1 n1 -> rng e2 n2 -> rng (e1 * e2) (n1 + n2).
Proof.
  intros [A1 A2] [B1 B2]. unfold rng. replace (- (n1 + n2)) with (- n1 + - n2) by lia. rewrite !bpow_plus.
  pose proof (bpow_gt_0 radix2 (- n1)). pose proof (bpow_gt_0 radix2 (- n2)).
  split; apply Rmult_le_compat; lra.
Qed.

Lemma rng_inv e n : rng e n -> rng (/ e) n.
Proof.
  intros [A1 A2]. pose proof (bpow_gt_0 radix2 (- n)) as P. unfold rng. split.
  - rewrite bpow_opp. apply Rinv_le_contravar; lra.
  - replace (bpow radix2 n) with (/ bpow radix2 (- n))%R by (rewrite <- bpow_opp; f_equal; lia).
    apply Rinv_le_contravar; lra.
Qed.

Lemma rng_div e1 n1 e2 n2 : rng e1 n1 -> rng e2 n2 -> rng (e1 / e2) (n1 + n2).
Proof. intros A B. unfold Rdiv. apply rng_mul; [exact A|apply rng_inv; exact B]. Qed.

Lemma rng_weaken e n n' : rng e n -> n <= n' -> rng e n'.
Proof.
  intros [A1 A2] H. split.
  - apply Rle_trans with (bpow radix2 (- n)); [apply bpow_le; lia|exact A1].
  - apply Rle_trans with (bpow radix2 n); [exact A2|apply bpow_le; lia].
Qed.

Lemma rng_add e1 e2 n : rng e1 n -> rng e2 n -> rng (e1 + e2) (n + 1).
Proof.
  intros [A1 A2] [B1 B2]. pose proof (bpow_gt_0 radix2 (- n)). split.
  - apply Rle_trans with (bpow radix2 (- n)); [apply bpow_le; lia|lra].
  - rewrite bpow_plus. change (bpow radix2 1) with 2%R. lra.
Qed.

(* an approximation within few roundings of a value of moderate magnitude is in the normal range
   and far from overflow *)
Lemma approx_range v e k n : approx v e k -> rng e n -> (k <= 1000)%nat -> 0 <= n <= 900 ->
  (bpow radix2 (-1022) <= v <= bpow radix2 999)%R.
Proof.
  intros A [R1 R2] Hk Hn. pose proof (approx_pos _ _ _ A) as P. destruct A as (H0 & H1 & H2).
  assert (Hp : (W1 ^ k <= 2)%R).
  { assert (Hk' : (INR k <= 1000)%R).
    { apply Rle_trans with (INR 1000); [apply le_INR; exact Hk|]. rewrite INR_IZR_INZ. apply IZR_le. lia. }
    assert (Hkw2 : (INR k * ww <= / 2)%R).
    { pose proof ww_small. pose proof ww_pos. pose proof (pos_INR k).
      assert (INR k * ww <= 1000 * / 4096)%R by (apply Rmult_le_compat; lra). lra. }
    pose proof (W1pow_le k Hkw2). lra. }
  pose proof (W1pow_pos k) as Pk.
  split.
  - apply Rle_trans with (bpow radix2 (- n - 1)); [apply bpow_le; lia|].
    replace (- n - 1) with (- n + -1) by lia. rewrite bpow_plus. change (bpow radix2 (-1)) with (/ 2)%R.
    pose proof (bpow_gt_0 radix2 (- n)). nra.
  - apply Rle_trans with (bpow radix2 (n + 1)); [|apply bpow_le; lia].
    rewrite bpow_plus. change (bpow radix2 1) with 2%R. pose proof (bpow_gt_0 radix2 n). nra.
Qed.

Lemma le_999_big v : (0 < v <= bpow radix2 999)%R -> (Rabs v <= big)%R.
Proof.
  intros [H0 H]. rewrite Rabs_pos_eq by lra. apply Rle_trans with (bpow radix2 999); [exact H|].
  unfold big. apply bpow_le. lia.
Qed.

(* ---------- float operations in the calculus ---------- *)

Definition fapx (x : Coq.Floats.PrimFloat.float) (e : R) (k : nat) (n : Z) : Prop :=
  fin x /\ approx (FR x) e k /\ rng e n.

Lemma fapx_div x y ex ey kx ky nx ny : fapx x ex kx nx -> fapx y ey ky ny ->
  (kx + ky <= 1000)%nat -> 0 <= nx -> 0 <= ny -> nx + ny <= 900 ->
  fapx (x / y)%float (ex / ey) (S (kx + ky)) (nx + ny).
Proof.
  intros (Fx & Ax & Rx) (Fy & Ay & Ry) Hk H1 H2 Hn.
  pose proof (approx_div _ _ _ _ _ _ Ax Ay) as Ad. pose proof (rng_div _ _ _ _ Rx Ry) as Rd.
  pose proof (approx_range _ _ _ _ Ad Rd Hk ltac:(lia)) as Rg.
  pose proof (approx_pos _ _ _ Ay) as Py. pose proof (approx_pos _ _ _ Ad) as Pd.
  destruct (fdiv_ok x y Fx Fy ltac:(lra) ltac:(apply le_999_big; lra)) as [V F].
  split; [exact F|]. split; [|exact Rd]. rewrite V. apply approx_rnd; [exact Ad|lra].
Qed.

Lemma fapx_mul x y ex ey kx ky nx ny : fapx x ex kx nx -> fapx y ey ky ny ->
  (kx + ky <= 1000)%nat -> 0 <= nx -> 0 <= ny -> nx + ny <= 900 ->
  fapx (x * y)%float (ex * ey) (S (kx + ky)) (nx + ny).
Proof.
  intros (Fx & Ax & Rx) (Fy & Ay & Ry) Hk H1 H2 Hn.
  pose proof (approx_mul _ _ _ _ _ _ Ax Ay) as Ad. pose proof (rng_mul _ _ _ _ Rx Ry) as Rd.
  pose proof (approx_range _ _ _ _ Ad Rd Hk ltac:(lia)) as Rg.
  pose proof (approx_pos _ _ _ Ad) as Pd.
  destruct (fmul_ok x y Fx Fy ltac:(apply le_999_big; lra)) as [V F].
  split; [exact F|]. split; [|exact Rd]. rewrite V. apply approx_rnd; [exact Ad|lra].
Qed.

Lemma fapx_add x y ex ey k n : fapx x ex k n -> fapx y ey k n ->
  (k <= 1000)%nat -> 0 <= n -> n + 1 <= 900 ->
  fapx (x + y)%float (ex + ey) (S k) (n + 1).
Proof.
  intros (Fx & Ax & Rx) (Fy & Ay & Ry) Hk H1 Hn.
  pose proof (approx_add _ _ _ _ _ Ax Ay) as Ad. pose proof (rng_add _ _ _ Rx Ry) as Rd.
  pose proof (approx_range _ _ _ _ Ad Rd Hk ltac:(lia)) as Rg.
  pose proof (approx_pos _ _ _ Ad) as Pd.
  destruct (fadd_ok x y Fx Fy ltac:(apply le_999_big; lra)) as [V F].
  split; [exact F|]. split; [|exact Rd]. rewrite V. apply approx_rnd; [exact Ad|lra].
Qed.

Lemma fapx_weaken x e k n k' n' : fapx x e k n -> (k <= k')%nat -> n <= n' -> fapx x e k' n'.
Proof.
  intros (F & A & R) Hk Hn. split; [exact F|]. split; [eapply approx_weaken; eassumption|eapply rng_weaken; eassumption].
Qed.

(* positive integers up to 2^53 are exact *)
Lemma rng_int z n : 1 <= z <= 2 ^ n -> 0 <= n -> rng (IZR z) n.
Proof.
  intros Hz Hn. split.
  - apply Rle_trans with 1%R; [|apply IZR_le; lia]. change 1%R with (bpow radix2 0). apply bpow_le. lia.
  - rewrite <- (IZR_Zpower radix2 n) by lia. apply IZR_le. exact (proj2 Hz).
Qed.

Lemma fapx_u64 z : 1 <= z <= 2 ^ 53 -> fapx (f_of_u64 z) (IZR z) 0 53.
Proof.
  intros Hz. destruct (of_u64_ok z ltac:(lia)) as [V F]. split; [exact F|]. split.
  - rewrite V. apply approx_exact. apply IZR_lt. lia.
  - apply rng_int; lia.
Qed.

Lemma fapx_i64 z : 1 <= z <= 2 ^ 53 -> fapx (f_of_i64 z) (IZR z) 0 53.
Proof.
  intros Hz. destruct (of_i64_ok z ltac:(lia)) as [V F]. split; [exact F|]. split.
  - rewrite V. apply approx_exact. apply IZR_lt. lia.
  - apply rng_int; lia.
Qed.

Lemma FR_one : FR 1%float = 1%R.
Proof.
  rewrite FR_SF. change (Prim2SF 1) with (S754_finite false 4503599627370496 (-52)).
  unfold SF2R, F2R. cbn. lra.
Qed.

Lemma fapx_one : fapx 1%float 1%R 0 0.
Proof.
  split; [unfold fin; rewrite fin_SF; reflexivity|]. split.
  - rewrite FR_one. apply approx_exact. lra.
  - unfold rng. cbn. lra.
Qed.

(* ---------- math.Nextafter(x, MaxFloat64) on a moderate positive double ---------- *)

Lemma fin_fmax : fin fmax.
Proof. unfold fin. rewrite fin_SF. reflexivity. Qed.

Lemma FR_fmax_big : (big < FR fmax)%R.
Proof.
  rewrite FR_SF. change (Prim2SF fmax) with (S754_finite false 9007199254740991 971).
  unfold SF2R, F2R. cbn [Fnum Fexp].
  assert (H52 : bpow radix2 52 = IZR (2 ^ 52)) by (rewrite <- (IZR_Zpower radix2 52) by lia; reflexivity).
  assert (Hm : (bpow radix2 52 <= IZR 9007199254740991)%R) by (rewrite H52; apply IZR_le; lia).
  apply Rlt_le_trans with (bpow radix2 52 * bpow radix2 971)%R.
  - rewrite <- bpow_plus. unfold big. apply bpow_lt. lia.
  - apply Rmult_le_compat_r; [apply bpow_ge_0|exact Hm].
Qed.

Lemma nextafter_apx r e k n : fapx r e k n -> (k <= 999)%nat -> 0 <= n <= 900 ->
  fin (go_nextafter_max r) /\ approx (FR (go_nextafter_max r)) e (S k).
Proof.
  intros (F & A & R) Hk Hn.
  pose proof (approx_range _ _ _ _ A R ltac:(lia) Hn) as Rg.
  pose proof (approx_pos _ _ _ A) as P.
  pose proof FR_fmax_big as Fm. pose proof fin_fmax as Ff.
  assert (Hb : (bpow radix2 999 <= big)%R) by (unfold big; apply bpow_le; lia).
  unfold go_nextafter_max.
  assert (E1 : PrimFloat.is_nan r = false).
  { rewrite is_nan_equiv. unfold fin in F. destruct (Prim2B r); try discriminate; reflexivity. }
  rewrite E1.
  assert (E2 : (r =? fmax)%float = false).
  { rewrite eqb_R by assumption. apply Req_bool_false. lra. }
  rewrite E2.
  assert (E3 : (fmax <? r)%float = false) by (apply ltb_false; [assumption|assumption|lra]).
  rewrite E3.
  (* next_up r = succ *)
  set (v := FR r) in *.
  assert (Hu : (0 <= ulp radix2 fex v <= v * ww)%R).
  { split; [apply ulp_ge_0|].
    pose proof (ulp_FLT_le radix2 (SpecFloat.emin prec emax) prec v) as U.
    replace (SpecFloat.emin prec emax + prec - 1) with (-1022) in U by (unfold SpecFloat.emin, prec, emax; lia).
    rewrite (Rabs_pos_eq v) in U by lra. specialize (U (proj1 Rg)).
    replace (1 - prec) with (-52) in U by (unfold prec; lia). exact U. }
  assert (Hs : succ radix2 fex v = (v + ulp radix2 fex v)%R) by (apply succ_eq_pos; lra).
  pose proof ww_small as Ws. pose proof ww_pos as Wp.
  pose proof (Bsucc_correct prec emax FHprec FHmax (Prim2B r) F) as B.
  fold (FR r) in B. fold v in B.
  rewrite Rlt_bool_true in B.
  - destruct B as (B1 & B2 & _). unfold fin, FR. rewrite next_up_equiv. split; [exact B2|].
    rewrite B1, Hs. destruct A as (H0 & H1 & H2). pose proof (W1pow_pos k) as Pk.
    unfold approx. cbn [pow]. repeat split; [exact H0| |].
    + apply Rle_trans with (v * W1 ^ k)%R; [exact H1|].
      pose proof W1_gt1. assert (v * W1 ^ k <= (v + ulp radix2 fex v) * W1 ^ k)%R by (apply Rmult_le_compat_r; lra).
      assert (W1 ^ k <= W1 * W1 ^ k)%R by nra.
      assert (0 < v + ulp radix2 fex v)%R by lra. nra.
    + apply Rle_trans with (v * W1)%R; [unfold W1; nra|].
      replace (e * (W1 * W1 ^ k))%R with ((e * W1 ^ k) * W1)%R by ring.
      apply Rmult_le_compat_r; [pose proof W1_gt1; lra|exact H2].
  - rewrite Hs. apply Rle_lt_trans with (2 * bpow radix2 999)%R; [nra|].
    change 2%R with (bpow radix2 1). rewrite <- bpow_plus. apply bpow_lt. unfold emax. lia.
Qed.

(* ---------- the allowed-token curve ---------- *)

(* a non-degenerate warm-up configuration of moderate size *)
Definition wu_ok (c : wcfg) : Prop :=
  fin (w_thr c) /\ (bpow radix2 (-64) <= FR (w_thr c) <= bpow radix2 64)%R /\
  2 <= w_cf c <= 2 ^ 32 /\ 0 <= w_warning c /\ w_warning c < w_max c /\ w_max c <= 2 ^ 53 /\
  w_slope c = (f_of_u64 (u32 (w_cf c - 1)) / w_thr c / f_of_u64 (u64 (w_max c - w_warning c)))%float.

(* the exact curve, written as the code computes it *)
Definition curve (c : wcfg) (tokens : Z) : R :=
  (1 / (IZR (tokens - w_warning c) * (IZR (w_cf c - 1) / FR (w_thr c) / IZR (w_max c - w_warning c)) + 1 / FR (w_thr c)))%R.

Lemma f_of_i64_0 : f_of_i64 0 = 0%float.
Proof. reflexivity. Qed.

Lemma FR_zero : FR 0%float = 0%R.
Proof. rewrite FR_SF. reflexivity. Qed.

Lemma fin_zero : fin 0%float.
Proof. unfold fin. rewrite fin_SF. reflexivity. Qed.

Lemma allowed_apx c tokens : wu_ok c -> w_warning c <= tokens <= w_max c ->
  fin (allowed_of c tokens) /\ approx (FR (allowed_of c tokens)) (curve c tokens) 7.
Proof.
  intros (FT & RT & Hcf & HW0 & HWM & HM & Hsl) Ht.
  unfold allowed_of.
  rewrite wi_id by (unfold two63; lia).
  assert (E0 : (tokens <? 0) = false) by lia. rewrite E0.
  assert (E1 : (tokens >=? w_warning c) = true) by lia. rewrite E1.
  rewrite (i64_id (tokens - w_warning c)) by (unfold in_i64, two63; lia).
  rewrite Hsl.
  assert (Ug : u32 (w_cf c - 1) = w_cf c - 1).
  { apply u32_id. unfold in_u32. Transparent two32. unfold two32. lia. }
  assert (Ud : u64 (w_max c - w_warning c) = w_max c - w_warning c).
  { apply u64_id. unfold in_u64. Transparent two64. unfold two64. lia. }
  rewrite Ug, Ud.
  set (T := w_thr c) in *. set (g := w_cf c - 1) in *. set (D := w_max c - w_warning c) in *.
  assert (PT : (0 < FR T)%R) by (pose proof (bpow_gt_0 radix2 (-64)); lra).
  assert (AT : fapx T (FR T) 0 64).
  { split; [exact FT|]. split; [apply approx_exact; exact PT|exact RT]. }
  pose proof (fapx_u64 g ltac:(unfold g; lia)) as AG.
  pose proof (fapx_u64 D ltac:(unfold D; lia)) as AD.
  pose proof (fapx_div _ _ _ _ _ _ _ _ AG AT ltac:(lia) ltac:(lia) ltac:(lia) ltac:(lia)) as AS0.
  pose proof (fapx_div _ _ _ _ _ _ _ _ AS0 AD ltac:(lia) ltac:(lia) ltac:(lia) ltac:(lia)) as ASL.
  pose proof (fapx_div _ _ _ _ _ _ _ _ fapx_one AT ltac:(lia) ltac:(lia) ltac:(lia) ltac:(lia)) as AI.
  cbn [Nat.add] in AS0, ASL, AI. 
  unfold curve. fold T g D.
  destruct (Z.eq_dec tokens (w_warning c)) as [Ex|Ex].
  - (* on the warning line: 0 * slope + 1/T *)
    rewrite Ex, Z.sub_diag, f_of_i64_0.
    destruct ASL as (FS & _ & _). destruct AI as (FI & AI' & RI).
    set (sl := (f_of_u64 g / T / f_of_u64 D)%float) in *. set (iv := (1 / T)%float) in *.
    destruct (fmul_ok 0%float sl fin_zero FS) as [Vq Fq].
    { rewrite FR_zero, Rmult_0_l, Rabs_R0. unfold big. apply bpow_ge_0. }
    rewrite FR_zero, Rmult_0_l, Rnd_0 in Vq.
    destruct (fadd_ok (0 * sl)%float iv Fq FI) as [Vs Fs].
    { rewrite Vq, Rplus_0_l. apply le_999_big.
      pose proof (approx_range _ _ _ _ AI' RI ltac:(lia) ltac:(lia)). pose proof (approx_pos _ _ _ AI'). lra. }
    rewrite Vq, Rplus_0_l, (Rnd_generic _ (FR_format iv)) in Vs.
    assert (ASUM : fapx (0 * sl + iv)%float (1 / FR T) 1 64).
    { split; [exact Fs|]. split; [rewrite Vs; exact AI'|exact RI]. }
    pose proof (fapx_div _ _ _ _ _ _ _ _ fapx_one ASUM ltac:(lia) ltac:(lia) ltac:(lia) ltac:(lia)) as AR.
    cbn [Nat.add] in AR.
    destruct (nextafter_apx _ _ _ _ AR ltac:(lia) ltac:(lia)) as [Fn An].
    split; [exact Fn|]. rewrite Rmult_0_l, Rplus_0_l. eapply approx_weaken; [exact An|lia].
  - pose proof (fapx_i64 (tokens - w_warning c) ltac:(lia)) as AX.
    pose proof (fapx_mul _ _ _ _ _ _ _ _ AX ASL ltac:(lia) ltac:(lia) ltac:(lia) ltac:(lia)) as AQ.
    cbn [Nat.add] in AQ.
    pose proof (fapx_weaken _ _ _ _ 3%nat (53 + (53 + 64 + 53)) AI ltac:(lia) ltac:(lia)) as AI3.
    pose proof (fapx_add _ _ _ _ _ _ AQ AI3 ltac:(lia) ltac:(lia) ltac:(lia)) as ASUM.
    pose proof (fapx_div _ _ _ _ _ _ _ _ fapx_one ASUM ltac:(lia) ltac:(lia) ltac:(lia) ltac:(lia)) as AR.
    cbn [Nat.add] in AR.
    destruct (nextafter_apx _ _ _ _ AR ltac:(lia) ltac:(lia)) as [Fn An].
    split; [exact Fn|]. eapply approx_weaken; [exact An|lia].
Qed.

(* ---------- consequences ---------- *)

Lemma div_le_iff a b c : (0 < b)%R -> (a <= c * b)%R -> (a / b <= c)%R.
Proof.
  intros Hb H. apply Rmult_le_reg_r with b; [exact Hb|].
  replace (a / b * b)%R with a by (field; lra). exact H.
Qed.

Lemma le_div_iff a b c : (0 < b)%R -> (c * b <= a)%R -> (c <= a / b)%R.
Proof.
  intros Hb H. apply Rmult_le_reg_r with b; [exact Hb|].
  replace (a / b * b)%R with a by (field; lra). exact H.
Qed.

Definition wu_eps : R := (14 * ww)%R.      (* 14 * 2^-52 < 2^-48 *)

Lemma W1pow7 : (W1 ^ 7 <= 1 + wu_eps)%R.
Proof.
  pose proof (W1pow_le 7) as H. unfold wu_eps. 
  replace (INR 7) with 7%R in H by (rewrite INR_IZR_INZ; reflexivity).
  pose proof ww_small. pose proof ww_pos. apply Rle_trans with (1 + 2 * 7 * ww)%R; [apply H; lra|lra].
Qed.

Lemma wu_eps_pos : (0 < wu_eps)%R.
Proof. unfold wu_eps. pose proof ww_pos. lra. Qed.

(* the curve is T*D / (x*g + D) *)
Lemma curve_eq c tokens : wu_ok c -> w_warning c <= tokens ->
  let x := IZR (tokens - w_warning c) in let g := IZR (w_cf c - 1) in let D := IZR (w_max c - w_warning c) in
  (0 <= x)%R /\ (1 <= g)%R /\ (1 <= D)%R /\ (0 < FR (w_thr c))%R /\
  curve c tokens = (FR (w_thr c) * D / (x * g + D))%R.
Proof.
  intros (FT & RT & Hcf & HW0 & HWM & HM & Hsl) Ht x g D.
  assert (PT : (0 < FR (w_thr c))%R) by (pose proof (bpow_gt_0 radix2 (-64)); lra).
  assert (Hx : (0 <= x)%R) by (apply IZR_le; lia).
  assert (Hg : (1 <= g)%R) by (apply IZR_le; lia).
  assert (HD : (1 <= D)%R) by (apply IZR_le; lia).
  repeat split; try assumption.
  unfold curve. fold x g D. assert (0 <= x * g)%R by nra. field. repeat split; lra.
Qed.

Lemma allowed_below c tokens : wu_ok c -> 0 <= tokens < w_warning c -> allowed_of c tokens = w_thr c.
Proof. intros (_ & _ & _ & _ & H1 & H2 & _). apply allowed_full. unfold two63. lia. Qed.

(* finite, positive, never above the threshold (up to 14*2^-52 relative) *)
Lemma allowed_le_thr c tokens : wu_ok c -> 0 <= tokens <= w_max c ->
  fin (allowed_of c tokens) /\ (0 < FR (allowed_of c tokens) <= FR (w_thr c) * (1 + wu_eps))%R.
Proof.
  intros Hok Ht. pose proof Hok as (FT & RT & _).
  assert (PT : (0 < FR (w_thr c))%R) by (pose proof (bpow_gt_0 radix2 (-64)); lra).
  pose proof wu_eps_pos as Pe.
  destruct (Z_lt_le_dec tokens (w_warning c)) as [L|L].
  - rewrite allowed_below by (try assumption; lia). split; [exact FT|]. nra.
  - destruct (allowed_apx c tokens Hok ltac:(lia)) as [F A]. split; [exact F|].
    pose proof (approx_pos _ _ _ A) as P. destruct A as (H0 & H1 & H2).
    destruct (curve_eq c tokens Hok L) as (Hx & Hg & HD & _ & Ec). cbv zeta in Ec.
    pose proof W1pow7 as P7. pose proof (W1pow_pos 7) as Pw.
    split; [exact P|].
    assert (Hc : (curve c tokens <= FR (w_thr c))%R).
    { rewrite Ec.
      assert (Hxg : (0 <= IZR (tokens - w_warning c) * IZR (w_cf c - 1))%R) by (apply Rmult_le_pos; lra).
      apply div_le_iff; [lra|]. rewrite Rmult_plus_distr_l.
      assert (0 <= FR (w_thr c) * (IZR (tokens - w_warning c) * IZR (w_cf c - 1)))%R by (apply Rmult_le_pos; lra). lra. }
    apply Rle_trans with (curve c tokens * W1 ^ 7)%R; [exact H2|]. nra.
Qed.

(* never below threshold/coldFactor while the bucket holds at most maxToken *)
Lemma allowed_ge_cold c tokens : wu_ok c -> 0 <= tokens <= w_max c ->
  (FR (w_thr c) / IZR (w_cf c) <= FR (allowed_of c tokens) * (1 + wu_eps))%R.
Proof.
  intros Hok Ht. pose proof Hok as (FT & RT & Hcf & _).
  assert (PT : (0 < FR (w_thr c))%R) by (pose proof (bpow_gt_0 radix2 (-64)); lra).
  pose proof wu_eps_pos as Pe.
  assert (Pcf : (2 <= IZR (w_cf c))%R) by (apply IZR_le; lia).
  assert (Hdiv : (FR (w_thr c) / IZR (w_cf c) <= FR (w_thr c))%R).
  { apply div_le_iff; nra. }
  destruct (Z_lt_le_dec tokens (w_warning c)) as [L|L].
  - rewrite allowed_below by (try assumption; lia). nra.
  - destruct (allowed_apx c tokens Hok ltac:(lia)) as [F A].
    pose proof (approx_pos _ _ _ A) as P. destruct A as (H0 & H1 & H2).
    destruct (curve_eq c tokens Hok L) as (Hx & Hg & HD & _ & Ec). cbv zeta in Ec.
    pose proof W1pow7 as P7. pose proof (W1pow_pos 7) as Pw.
    assert (HxD : (IZR (tokens - w_warning c) <= IZR (w_max c - w_warning c))%R) by (apply IZR_le; lia).
    assert (Hg1 : (IZR (w_cf c - 1) = IZR (w_cf c) - 1)%R) by (rewrite minus_IZR; reflexivity).
    assert (Hc : (FR (w_thr c) / IZR (w_cf c) <= curve c tokens)%R).
    { rewrite Ec.
      set (x := IZR (tokens - w_warning c)) in *. set (g := IZR (w_cf c - 1)) in *. set (D := IZR (w_max c - w_warning c)) in *.
      assert (Hden : (0 < x * g + D)%R) by nra.
      assert (Hxg : (x * g + D <= D * IZR (w_cf c))%R) by nra.
      apply le_div_iff; [exact Hden|].
      (* T/cf * (x g + D) <= T/cf * (D*cf) = T*D *)
      assert (Pq : (0 < FR (w_thr c) / IZR (w_cf c))%R) by (apply Rdiv_lt_0_compat; lra).
      replace (FR (w_thr c) * D)%R with (FR (w_thr c) / IZR (w_cf c) * (D * IZR (w_cf c)))%R by (field; lra).
      apply Rmult_le_compat_l; lra. }
    apply Rle_trans with (curve c tokens); [exact Hc|].
    apply Rle_trans with (FR (allowed_of c tokens) * W1 ^ 7)%R; [exact H1|]. nra.
Qed.

(* a full bucket (cold state): threshold/coldFactor, up to the same relative error *)
Lemma allowed_cold c : wu_ok c ->
  (FR (allowed_of c (w_max c)) <= FR (w_thr c) / IZR (w_cf c) * (1 + wu_eps))%R.
Proof.
  intros Hok. pose proof Hok as (FT & RT & Hcf & HW0 & HWM & HM & _).
  destruct (allowed_apx c (w_max c) Hok ltac:(lia)) as [F A]. destruct A as (H0 & H1 & H2).
  destruct (curve_eq c (w_max c) Hok ltac:(lia)) as (Hx & Hg & HD & PT & Ec). cbv zeta in Ec.
  pose proof W1pow7 as P7. pose proof (W1pow_pos 7) as Pw.
  assert (Pcf : (2 <= IZR (w_cf c))%R) by (apply IZR_le; lia).
  assert (Hc : (curve c (w_max c) = FR (w_thr c) / IZR (w_cf c))%R).
  { rewrite Ec. rewrite (minus_IZR (w_cf c) 1).
    replace (IZR (w_max c - w_warning c) * (IZR (w_cf c) - 1) + IZR (w_max c - w_warning c))%R
      with (IZR (w_max c - w_warning c) * IZR (w_cf c))%R by ring.
    field. split; lra. }
  rewrite Hc in *. apply Rle_trans with (FR (w_thr c) / IZR (w_cf c) * W1 ^ 7)%R; [exact H2|].
  apply Rmult_le_compat_l; lra.
Qed.

(* threshold >= coldFactor (with the error margin): the allowed value never drops below one token *)
Lemma allowed_ge_one c tokens : wu_ok c -> 0 <= tokens <= w_max c ->
  (IZR (w_cf c) * (1 + wu_eps) <= FR (w_thr c))%R -> (1 <= FR (allowed_of c tokens))%R.
Proof.
  intros Hok Ht HT. pose proof (allowed_ge_cold c tokens Hok Ht) as H.
  pose proof Hok as (_ & _ & Hcf & _). pose proof wu_eps_pos as Pe.
  assert (Pcf : (2 <= IZR (w_cf c))%R) by (apply IZR_le; lia).
  assert (H1 : (1 + wu_eps <= FR (w_thr c) / IZR (w_cf c))%R).
  { apply le_div_iff; lra. }
  nra.
Qed.

(* ... so a single-token request that finds an empty window is admitted *)
Lemma single_token_admitted c st now : wu_ok c ->
  (IZR (w_cf c) * (1 + wu_eps) <= FR (w_thr c))%R ->
  0 <= stored (fst (calc c st now)) <= w_max c ->
  cur_sum (passes (fst (calc c st now))) now = 0 ->
  snd (snd (wstep c st now 1)) = true.
Proof.
  intros Hok HT Hs Hc. unfold wstep.
  destruct (calc c st now) as [st1 a] eqn:Ecalc. cbn [fst] in Hs, Hc.
  assert (Ea : a = allowed_of c (stored st1)).
  { unfold calc in Ecalc. inversion Ecalc. reflexivity. }
  rewrite Hc. cbn [snd].
  change (f_of_i64 0 + f_of_u64 1)%float with 1%float.
  destruct (allowed_le_thr c (stored st1) Hok Hs) as [F _].
  pose proof (allowed_ge_one c (stored st1) Hok Hs HT) as H1.
  rewrite Ea. rewrite ltb_false; [reflexivity|exact F| |rewrite FR_one; exact H1].
  unfold fin. rewrite fin_SF. reflexivity.
Qed.

(* the constructor yields the slope equation of wu_ok whenever the token range is not empty *)
Lemma mk_wcfg_fields T period cf0 :
  let c := mk_wcfg T period cf0 in
  w_thr c = T /\ w_cf c = (if cf0 <=? 1 then default_cold_factor else cf0) /\
  (w_warning c < w_max c ->
   w_slope c = (f_of_u64 (u32 (w_cf c - 1)) / w_thr c / f_of_u64 (u64 (w_max c - w_warning c)))%float).
Proof.
  cbv zeta. unfold mk_wcfg. cbn [w_thr w_cf w_warning w_max w_slope].
  repeat split. intros H. apply Z.ltb_lt in H. rewrite H. reflexivity.
Qed.

Lemma wu_ok_mk T period cf0 : let c := mk_wcfg T period cf0 in
  fin T -> (bpow radix2 (-64) <= FR T <= bpow radix2 64)%R -> cf0 <= 2 ^ 32 ->
  0 <= w_warning c -> w_warning c < w_max c -> w_max c <= 2 ^ 53 -> wu_ok c.
Proof.
  intros c FT RT Hcf H0 H1 H2. destruct (mk_wcfg_fields T period cf0) as (E1 & E2 & E3). fold c in E1, E2, E3.
  unfold wu_ok. rewrite E1. repeat split; try assumption; try lra.
  - rewrite E2. unfold default_cold_factor. destruct (cf0 <=? 1) eqn:E; lia.
  - rewrite E2. unfold default_cold_factor. destruct (cf0 <=? 1) eqn:E; lia.
  - rewrite <- E1. apply E3. exact H1.
Qed.

Lemma FR_12 : FR 12%float = 12%R.
Proof.
  rewrite FR_SF. change (Prim2SF 12) with (S754_finite false 6755399441055744 (-49)).
  unfold SF2R, F2R. cbn. lra.
Qed.

(* non-vacuity: threshold 12, period 3 s, cold factor 3 (warningToken 18, maxToken 36) *)
Lemma wu_ok_example : wu_ok (mk_wcfg 12 3 3) /\ (IZR (w_cf (mk_wcfg 12 3 3)) * (1 + wu_eps) <= FR (w_thr (mk_wcfg 12 3 3)))%R.
Proof.
  assert (E : w_warning (mk_wcfg 12 3 3) = 18 /\ w_max (mk_wcfg 12 3 3) = 36) by (vm_compute; split; reflexivity).
  destruct E as [Ew Em]. split.
  - apply wu_ok_mk; rewrite ?Ew, ?Em; try lia.
    + unfold fin. rewrite fin_SF. reflexivity.
    + rewrite FR_12. split.
      * apply Rle_trans with 1%R; [|lra]. change 1%R with (bpow radix2 0). apply bpow_le. lia.
      * apply Rle_trans with (bpow radix2 4); [cbn; lra|apply bpow_le; lia].
  - destruct (mk_wcfg_fields 12 3 3) as (E1 & E2 & _). rewrite E1, E2. cbn [Z.leb Z.compare].
    rewrite FR_12. unfold wu_eps. pose proof ww_small. pose proof ww_pos. cbn. lra.
Qed.
