(* A warm-up rule carried by the throttling checker uses the same calculator as one carried by
   the reject checker: same effective threshold, same bucket, whatever the checker decides. *)
From Coq Require Import Floats.
From SG Require Import Base.Prelude Base.GoInt Base.GoFloat Model.WarmUp Model.Throttle Model.WarmUpThrottle.
#[local] Open Scope Z_scope.

Lemma wstep_thr_calculator c mq st last now b :
  let r := wstep_thr c mq st last now b in
  let q := wstep c st now b in
  fst (fst (snd r)) = snd (calc c st now) /\
  fst (fst (snd r)) = fst (snd q) /\
  stored (fst (fst r)) = stored (fst q) /\
  last_filled (fst (fst r)) = last_filled (fst q).
Proof.
  cbv zeta. unfold wstep_thr, wstep.
  destruct (calc c st now) as [st1 a].
  destruct (do_check_c (thr_cfg a mq) last (now * ms_to_ns) b) as [l o].
  cbn [fst snd stored last_filled]. repeat split.
Qed.

(* non-vacuity / behaviour: threshold 12, period 3 s, cold factor 3, 14 evenly spaced requests per
   second: the throttling rule starts at the cold rate and reaches the full threshold *)
Definition demo_ops : list (Z * Z) :=
  flat_map (fun s => map (fun j => (1700000000010 + s * 1000 + j * 71, 1)) [0;1;2;3;4;5;6;7;8;9;10;11;12;13])
           [0;1;2;3;4;5;6;7;8;9].

Definition demo_thr_statement : Prop :=
  let r := wrun_thr (mk_wcfg 12 3 3) 0 winit last0 demo_ops in
  existsb (fun o => (fst (fst (fst o)) <? 5)%float) r = true /\
  existsb (fun o => (fst (fst (fst o)) =? 12)%float) r = true.

Lemma demo_thr_warms_up : demo_thr_statement.
Proof. vm_compute. split; reflexivity. Qed.
