(* A warm-up rule carried by the throttling checker uses the same calculator as one carried by
   the reject checker: same effective threshold, same bucket, whatever the checker decides. *)
From Coq Require Import Floats.
From SG Require Import Base.Prelude Base.GoInt Base.GoFloat Model.WarmUp Model.Throttle Model.WarmUpThrottle.
#[local] Open Scope Z_scope.

Lemma wstep_thr_calculator c mq st last now b :
  let r := wstep_thr c mq st last now b in
  let q := wstep c st now b in
  fst (fst (snd r)) = snd (calc c st now) /\
  fst (fst (snd r)) = fst (snd q) /\
  stored (fst (fst r)) = stored (fst q) /\
  last_filled (fst (fst r)) = last_filled (fst q).
Proof.
  cbv zeta. unfold wstep_thr, wstep.
  destruct (calc c st now) as [st1 a].
  destruct (do_check_c (thr_cfg a mq) last (now * ms_to_ns) b) as [l o].
  cbn [fst snd stored last_filled]. repeat split.
Qed.

(* non-vacuity / behaviour: threshold 12, period 3 s, cold factor 3, 14 evenly spaced requests per
   second: the throttling rule starts at the cold rate and reaches the full threshold *)
Definition demo_ops : list (Z * Z) :=
  flat_map (fun s => map (fun j => (1700000000010 + s * 1000 + j * 71, 1)) [0;1;2;3;4;5;6;7;8;9;10;11;12;13])
           [0;1;2;3;4;5;6;7;8;9].

Definition demo_thr_statement : Prop :=
  let r := wrun_thr (mk_wcfg 12 3 3) 0 winit last0 demo_ops in
  existsb (fun o => (fst (fst (fst o)) <? 5)%float) r = true /\
  existsb (fun o => (fst (fst (fst o)) =? 12)%float) r = true.

Lemma demo_thr_warms_up : demo_thr_statement.
Proof. vm_compute. split; reflexivity. Qed.

(* Finding C11-F6: a Throttling warm-up rule under sustained demand that never reaches the full threshold.
   Threshold 10, period 3 s, cold factor 2 (cold rate 5/s), 12 evenly spaced requests per second for 30 s
   (demand above the threshold throughout, 4*period+5 = 17 s would do): the pacing interval admits every third
   request, 4 per second, which is below the cold rate, so the calculator refills the bucket every second
   and the allowed value stays below 6. *)
Definition f6_ops : list (Z * Z) :=
  flat_map (fun s => map (fun j => (1700000000010 + s * 1000 + j * 83, 1)) [0;1;2;3;4;5;6;7;8;9;10;11])
           [0;1;2;3;4;5;6;7;8;9;10;11;12;13;14;15;16;17;18;19;20;21;22;23;24;25;26;27;28;29].

Definition f6_statement : Prop :=
  let r := wrun_thr (mk_wcfg 10 3 2) 0 winit last0 f6_ops in
  length r = 360%nat /\
  forallb (fun o => (fst (fst (fst o)) <? 6)%float) r = true /\
  existsb (fun o => snd (fst (fst o))) r = true.

Lemma f6_never_warms_up : f6_statement.
Proof. vm_compute. repeat split; reflexivity. Qed.
