(* C09_exact_when_disjoint: when no record operation overlaps a rollover of its own slot (and nobody is
   stalled, more than one bucket), the counter of a slot that nobody is resetting holds exactly the sum of
   the executed adds credited to the bucket the slot currently carries. Also: the ghost contribution lists
   used by C09_expired_invisible describe the real counters (ghost_sound). *)
From SG Require Import Base.Prelude Base.GoInt Model.LeapArrayConc Proofs.LeapArrayConcProofs Proofs.LeapArrayConcSafetyProofs.

Definition cnt_len (x : slot) : Prop := length (s_cnt x) = n_events.
Definition V_at (s : shared) (i k : nat) : Z := cntv (nth i (slots s) dslot) k.

Lemma nth_upd_nth_full {A} i j (f : A -> A) l d :
  nth i (upd_nth j f l) d = if (Nat.eqb i j && (j <? length l)%nat)%bool then f (nth j l d) else nth i l d.
Proof.
  destruct (nth_upd_nth_cases i j f l d) as [(-> & Hl & ->)|(Hc & ->)].
  - rewrite Nat.eqb_refl. apply Nat.ltb_lt in Hl. rewrite Hl. reflexivity.
  - destruct (Nat.eqb_spec i j); destruct (Nat.ltb_spec j (length l)); cbn; auto; lia.
Qed.

Lemma apply_eff_cnt_len e s : Forall cnt_len (slots s) -> Forall cnt_len (slots (apply_eff e s)).
Proof.
  intros H. destruct e; cbn [apply_eff set_slots slots]; auto; apply Forall_upd_nth; auto; intros x Hx;
    pose proof (Forall_nth_error _ _ _ _ H Hx) as Hl; unfold cnt_len in *; cbn; rewrite ?upd_nth_length; auto.
Qed.

Lemma slot_lens s j : Forall cnt_len (slots s) -> Forall contrib_len (slots s) -> (j < length (slots s))%nat ->
  length (s_cnt (nth j (slots s) dslot)) = n_events /\ length (s_contrib (nth j (slots s) dslot)) = n_events.
Proof.
  intros H1 H2 Hj. rewrite Forall_forall in H1, H2. pose proof (nth_In (slots s) dslot Hj) as Hin.
  split; [apply (H1 _ Hin)|apply (H2 _ Hin)].
Qed.

(* joint effect of a step on a counter and on its ghost contribution list *)
Lemma VC_eff e s j k :
  Forall cnt_len (slots s) -> Forall contrib_len (slots s) ->
  let V' := V_at (apply_eff e s) j k in let C' := C_at (apply_eff e s) j k in
  match e with
  | EZero i k0 => if (Nat.eqb j i && Nat.eqb k k0)%bool then V' = 0 /\ C' = [] else V' = V_at s j k /\ C' = C_at s j k
  | EAdd r => if (Nat.eqb j (a_slot r) && Nat.eqb k (a_kind r) && (k <? n_events)%nat && (j <? length (slots s))%nat)%bool
              then V' = i64_add (V_at s j k) (a_amt r) /\ C' = C_at s j k ++ [(a_amt r, S_at s j)]
              else V' = V_at s j k /\ C' = C_at s j k
  | _ => V' = V_at s j k /\ C' = C_at s j k
  end.
Proof.
  intros Hl1 Hl2. cbv zeta. unfold V_at, C_at, S_at.
  destruct e; cbn [apply_eff set_slots slots]; auto; rewrite ?nth_upd_nth_full.
  - destruct (Nat.eqb_spec j i) as [->|]; cbn [andb]; [|auto]. destruct (Nat.ltb_spec i (length (slots s))); auto.
  - destruct (Nat.eqb_spec j i) as [->|Hji]; cbn [andb].
    + destruct (Nat.ltb_spec i (length (slots s))) as [Hi|Hi].
      * destruct (slot_lens s i Hl1 Hl2 Hi) as [L1 L2].
        unfold cntv, contribv, slot_zero; cbn [s_cnt s_contrib]. rewrite !nth_upd_nth_full.
        destruct (Nat.eqb_spec k k0) as [->|]; cbn [andb]; auto.
        rewrite L1, L2. destruct (k0 <? n_events)%nat eqn:E; auto.
        apply Nat.ltb_ge in E. split; apply nth_overflow; lia.
      * rewrite (nth_overflow (slots s)) by auto. destruct (Nat.eqb k k0); unfold cntv, contribv; cbn; destruct k; auto.
    + auto.
  - destruct (Nat.eqb_spec j i) as [->|]; cbn [andb]; [|auto]. destruct (Nat.ltb_spec i (length (slots s))); auto.
  - destruct (Nat.eqb_spec j i) as [->|]; cbn [andb]; [|auto]. destruct (Nat.ltb_spec i (length (slots s))); auto.
  - destruct (Nat.eqb_spec j (a_slot r)) as [->|Hji]; cbn [andb]; auto.
    destruct (Nat.ltb_spec (a_slot r) (length (slots s))) as [Hi|Hi]; rewrite ?andb_false_r; auto.
    destruct (slot_lens s _ Hl1 Hl2 Hi) as [L1 L2].
    unfold cntv, contribv, slot_add; cbn [s_cnt s_contrib]. rewrite !nth_upd_nth_full. rewrite L1, L2.
    destruct (Nat.eqb_spec k (a_kind r)) as [->|]; cbn [andb]; auto.
    destruct (a_kind r <? n_events)%nat; cbn [andb]; auto.
Qed.

(* ------------------------------------------------------------------------------------ *)
(* syntactic facts about the stepping thread *)

Ltac crush_local :=
  unfold after_cb, vloop, next_op, set_pc, start_pc; cbn [t_ops t_pc t_now t_acc t_i t_sum t_rets tl in_cs zeroed_upto andb orb];
  repeat (match goal with
          | |- context [if ?b then _ else _] => destruct b eqn:?
          | |- context [match ?l with [] => _ | _ :: _ => _ end] => destruct l eqn:?
          end; cbn [t_ops t_pc t_now t_acc t_i t_sum t_rets tl in_cs zeroed_upto andb orb]).

Lemma tstep_rolling g tid s t e t' :
  g_zero_first g = true -> tstep g tid s t = (e, t') -> rolling t' = true ->
  (rolling t = true /\ t_now t' = t_now t /\ match e with EAdd _ => False | _ => True end)
  \/ (e = ENone /\ t_now t' = t_now t /\ S_at s (tidx g t) < tbs g t).
Proof.
  intros Hzf H. unfold rolling, active, S_at, tidx, tbs.
  tstep_inv H t; rewrite ?Eops, ?Epc, ?Hzf in *; crush_local; intros; try discriminate; auto.
  all: try (right; repeat split; auto; lia).
Qed.

Lemma tstep_zeroed_keep g tid s t e t' :
  g_zero_first g = true -> tstep g tid s t = (e, t') ->
  match e with EZero _ _ | EStart _ _ => False | _ => True end ->
  active t = true -> forall k, (k < zeroed_upto (t_pc t))%nat ->
  active t' = true /\ t_now t' = t_now t /\ (k < zeroed_upto (t_pc t'))%nat.
Proof.
  intros Hzf H. unfold active.
  tstep_inv H t; rewrite ?Eops, ?Epc, ?Hzf in *; crush_local; intros; try discriminate; try contradiction; cbn [zeroed_upto] in *; try lia; auto.
Qed.

Lemma tstep_zero_next g tid s t e i kz t' :
  g_zero_first g = true -> tstep g tid s t = (e, t') -> e = EZero i kz ->
  active t' = true /\ t_now t' = t_now t /\ rolling t = true /\
  forall k, (k < n_events)%nat -> ((k < zeroed_upto (t_pc t))%nat \/ k = kz) -> (k < zeroed_upto (t_pc t'))%nat.
Proof.
  intros Hzf H He. unfold rolling, active.
  tstep_inv H t; rewrite ?Eops, ?Epc, ?Hzf in *; try discriminate.
  all: match goal with Heq : EZero _ _ = EZero _ _ |- _ => inversion Heq; subst end.
  all: crush_local; rewrite ?Eops; repeat split; auto; intros; unfold n_events in *; cbn [zeroed_upto] in *; try lia; try discriminate.
Qed.

Lemma tstep_add_rec g tid s t e r t' : tstep g tid s t = (e, t') -> e = EAdd r -> act_rec t = true /\ rolling t = false.
Proof.
  intros H ->. pose proof (tstep_adds_shape _ _ _ _ _ _ H) as (k & a & Hh & _ & _ & Hpc & _).
  unfold act_rec, rolling, active. destruct (t_ops t) as [|o ops]; cbn in Hh; [discriminate|]. inversion Hh; subst.
  rewrite Hpc. split; reflexivity.
Qed.

(* ------------------------------------------------------------------------------------ *)
(* the no-overlap hypothesis, as a statement about pairs of threads *)

Lemma in_indexed_shift {A} (l : list A) a i u : nth_error l i = Some u -> In ((a + i)%nat, u) (combine (seq a (length l)) l).
Proof.
  revert a i. induction l as [|x r IH]; intros a [|i] H; cbn in *; try discriminate.
  - inversion H; subst. left. f_equal. lia.
  - right. replace (a + S i)%nat with (S a + i)%nat by lia. apply IH. auto.
Qed.

Lemma in_indexed {A} (l : list A) i u : nth_error l i = Some u -> In (i, u) (indexed l).
Proof. intros H. apply (in_indexed_shift l 0 i u H). Qed.

Lemma overlap_free g c i j u v :
  overlapb g c = false -> nth_error (thr c) i = Some u -> nth_error (thr c) j = Some v -> i <> j ->
  rolling u = true -> act_rec v = true -> tidx g u <> tidx g v.
Proof.
  intros Ho Hi Hj Hne Hr Ha Heq.
  assert (overlapb g c = true); [|congruence].
  unfold overlapb. apply existsb_exists. exists (i, u). split; [apply in_indexed; auto|].
  apply existsb_exists. exists (j, v). split; [apply in_indexed; auto|]. cbn [fst snd].
  rewrite Hr, Ha. unfold tidx in Heq. rewrite Heq, Nat.eqb_refl. rewrite (proj2 (Nat.eqb_neq i j)) by auto. reflexivity.
Qed.

Lemma In_upd_nth_or {A} (l : list A) n t f u : In u l -> nth_error l n = Some t -> u = t \/ In u (upd_nth n f l).
Proof.
  intros Hin Hn. apply In_nth_error in Hin. destruct Hin as [m Hm].
  destruct (Nat.eq_dec m n) as [->|Hne]; [left; congruence|].
  right. eapply nth_error_In. rewrite nth_error_upd_nth_other; eauto.
Qed.

Lemma In_upd_nth_new {A} (l : list A) n t f : nth_error l n = Some t -> In (f t) (upd_nth n f l).
Proof. intros H. eapply nth_error_In. apply nth_error_upd_nth_same. exact H. Qed.

Lemma Esum_zero p l : (forall r, In r l -> p r = false) -> Esum p l = 0.
Proof.
  induction l as [|a l IH]; intros H; unfold Esum in *; cbn [map]; [reflexivity|].
  rewrite sumZ_cons. unfold amt_if at 1. rewrite (H a) by (left; auto). rewrite IH; [lia|]. intros r Hr. apply H. right; auto.
Qed.

(* ------------------------------------------------------------------------------------ *)
(* the invariant *)

Definition credited (i k : nat) (st : Z) (r : addrec) : bool :=
  Nat.eqb (a_slot r) i && Nat.eqb (a_kind r) k && (a_start r =? st).

(* thread u is inside a reset of slot i that changes the start and has already zeroed counter k *)
Definition resetting (g : geom) (s : shared) (i k : nat) (u : thread) : Prop :=
  active u = true /\ tidx g u = i /\ (k < zeroed_upto (t_pc u))%nat /\ S_at s i <> tbs g u.

Definition roll_ok (g : geom) (l : list addrec) (t : thread) : Prop :=
  rolling t = true -> Forall (fun r => a_slot r = tidx g t -> a_start r < tbs g t) l.

Record Inv3 (g : geom) (c : config) : Prop := {
  i3_clen : Forall cnt_len (slots (sh c));
  (* the ghost contribution lists describe the real counters *)
  i3_ghost : forall i k, V_at (sh c) i k = sumZ (map fst (C_at (sh c) i k));
  i3_mono : Forall (fun r => a_start r <= S_at (sh c) (a_slot r)) (adds (sh c));
  (* nothing has been added to the slot a thread is rolling over under the start it is about to publish *)
  i3_roll : Forall (roll_ok g (adds (sh c))) (thr c);
  i3_exact : forall i k, (k < n_events)%nat -> (forall u, In u (thr c) -> ~ resetting g (sh c) i k u) ->
             V_at (sh c) i k = Esum (credited i k (S_at (sh c) i)) (adds (sh c))
}.

Lemma add_fits g TOT c tid t r t' :
  TOT < two63 -> Inv1 TOT c -> nth_error (thr c) tid = Some t -> tstep g tid (sh c) t = (EAdd r, t') ->
  forall i k, 0 <= V_at (sh c) i k /\ V_at (sh c) i k + a_amt r < two63 /\ 0 <= a_amt r.
Proof.
  intros HT [Hc Hn Ho Hb Hr Hrd] Et Est i k.
  pose proof (Forall_nth_error _ _ _ _ Ho Et) as Hot.
  pose proof (tstep_pend _ _ _ _ _ _ Est Hot) as [Hp1 Hp2]. cbv beta iota in *.
  pose proof (tstep_ops _ _ _ _ _ _ Est Hot) as Hot'. pose proof (pend_nonneg _ Hot') as Hp'.
  pose proof (pending_ge _ _ _ Ho Et) as Hge.
  destruct (Hc i k) as [H0 H1]. unfold V_at.
  assert (Esum (on_slot_kind i k) (adds (sh c)) <= Esum all_adds (adds (sh c))) by (apply Esum_mono; auto).
  lia.
Qed.

Lemma sumZ_map_fst_app (l : list (Z * Z)) a b : sumZ (map fst (l ++ [(a, b)])) = sumZ (map fst l) + a.
Proof. rewrite map_app, sumZ_app. cbn. lia. Qed.

Lemma S_at_tick dt s i : S_at (tick dt s) i = S_at s i. Proof. reflexivity. Qed.
Lemma V_at_tick dt s i k : V_at (tick dt s) i k = V_at s i k. Proof. reflexivity. Qed.
Lemma C_at_tick dt s i k : C_at (tick dt s) i k = C_at s i k. Proof. reflexivity. Qed.

Lemma step_inv3 g t0 TOT c e :
  geom_ok g -> TOT < two63 -> Inv1 TOT c -> Inv2 g t0 c -> freshb g c = true -> overlapb g c = false ->
  Inv3 g c -> Inv3 g (step g c e).
Proof.
  intros Hg HT H1 [Hs Hth] Hf Hov [Hcl Hgh Hmo Hro Hex]. pose proof Hg as [Hb Hn Hzf]. apply freshb_thr in Hf.
  destruct e as [tid|dt]; cbn [step].
  2: { constructor; cbn [sh thr]; auto. }
  destruct (nth_error (thr c) tid) as [t|] eqn:Et; [|constructor; auto].
  destruct (tstep g tid (sh c) t) as [e t'] eqn:Est.
  pose proof (Forall_nth_error _ _ _ _ Hth Et) as Ht. pose proof (Forall_nth_error _ _ _ _ Hf Et) as Ft.
  pose proof (tstep_eff_shape' _ _ _ _ _ _ Hzf Est) as Hsh.
  pose proof (h_clen _ _ _ Hs) as Hkl.
  set (s := sh c) in *. set (s' := apply_eff e s).
  assert (HSmono : forall j, S_at s j <= S_at s' j) by (intros j; eapply S_at_mono; eauto).
  assert (HSsame : (forall i v, e <> EStart i v) -> forall j, S_at s' j = S_at s j).
  { intros Hne j. unfold s'. rewrite S_at_eff. destruct e; auto. exfalso. eapply Hne; eauto. }
  assert (Hlt : (tidx g t < length (slots s))%nat) by (rewrite (h_len _ _ _ Hs); apply bidx_lt; lia).
  constructor; cbn [sh thr]; fold s'.
  - apply apply_eff_cnt_len; auto.
  - (* ghost *)
    intros i k. pose proof (VC_eff e s i k Hcl Hkl) as HVC. cbv zeta in HVC. fold s' in HVC. specialize (Hgh i k).
    destruct e; try (destruct HVC as [-> ->]; exact Hgh).
    + destruct (_ && _)%bool; destruct HVC as [-> ->]; auto.
    + destruct (_ && _ && _ && _)%bool; destruct HVC as [-> ->]; auto.
      destruct (add_fits g TOT c tid t r t' HT H1 Et Est i k) as (A0 & A1 & A2). fold s in A0, A1.
      rewrite sumZ_map_fst_app, <- Hgh. apply i64_add_small. lia.
  - (* mono *)
    unfold s'. rewrite apply_eff_adds. fold s'.
    assert (Hold : Forall (fun r => a_start r <= S_at s' (a_slot r)) (adds s)).
    { eapply Forall_impl; [|exact Hmo]. intros r Hr. cbv beta in *. specialize (HSmono (a_slot r)). lia. }
    destruct e; auto. apply Forall_app. split; auto. constructor; auto.
    destruct Hsh as (_ & _ & Hsl & Hst & _). rewrite Hst, Hsl. apply HSmono.
  - (* roll *)
    unfold s'. rewrite apply_eff_adds. apply Forall_upd_nth.
    + rewrite Forall_forall in *. intros u Hu Hru. specialize (Hro u Hu Hru).
      destruct e; auto. apply Forall_app. split; auto. constructor; auto. intros Hsl. exfalso.
      destruct (tstep_add_rec _ _ _ _ _ _ _ Est eq_refl) as [Har Hnr].
      destruct Hsh as (_ & _ & Hsl' & _).
      apply In_nth_error in Hu. destruct Hu as [m Hm].
      assert (m <> tid) by (intros ->; rewrite Et in Hm; inversion Hm; subst; congruence).
      apply (overlap_free g c m tid u t Hov Hm Et H Hru Har). congruence.
    + intros x _ Hr'. destruct (tstep_rolling _ _ _ _ _ _ Hzf Est Hr') as [(Hr & Hnow & Hne)|(-> & Hnow & Hlt')].
      * pose proof (Forall_nth_error _ _ _ _ Hro Et Hr) as Hold. unfold tidx, tbs. rewrite Hnow. fold (tidx g t) (tbs g t).
        destruct e; auto; contradiction.
      * unfold tidx, tbs. rewrite Hnow. fold (tidx g t) (tbs g t).
        eapply Forall_impl; [|exact Hmo]. intros r Hr Hsl. cbv beta in *. rewrite Hsl in Hr. fold s in Hlt'. lia.
  - (* exact *)
    intros i k Hk Hq.
    pose proof (VC_eff e s i k Hcl Hkl) as HVC. cbv zeta in HVC. fold s' in HVC.
    assert (Hq' : In t' (upd_nth tid (fun _ => t') (thr c))) by (apply (In_upd_nth_new _ tid t (fun _ => t') Et)).
    pose proof (Hq t' Hq') as Hqt.
    assert (Hprem : (resetting g s i k t -> False) -> S_at s' i = S_at s i -> forall u, In u (thr c) -> ~ resetting g s i k u).
    { intros Hself HS u Hu Hres. apply In_nth_error in Hu. destruct Hu as [m Hm].
      destruct (Nat.eq_dec m tid) as [->|Hne].
      - rewrite Et in Hm. inversion Hm; subst. auto.
      - apply (Hq u).
        + eapply nth_error_In. rewrite nth_error_upd_nth_other; eauto.
        + destruct Hres as (R1 & R2 & R3 & R4). repeat split; auto. rewrite HS. exact R4. }
    assert (Hroll_t : rolling t = true -> forall r, In r (adds s) -> credited i k (tbs g t) r = false \/ i <> tidx g t).
    { intros Hr r Hin. pose proof (Forall_nth_error _ _ _ _ Hro Et Hr) as Hall. rewrite Forall_forall in Hall. specialize (Hall r Hin).
      destruct (Nat.eq_dec i (tidx g t)) as [->|]; [left|right; auto]. unfold credited.
      destruct (Nat.eqb_spec (a_slot r) (tidx g t)) as [E|]; cbn [andb]; auto. specialize (Hall E).
      destruct (a_start r =? tbs g t) eqn:E2; [lia|]. rewrite andb_false_r. reflexivity. }
    Ltac same_case_tac HVC HSsame s' Hex Hprem Hzf Est Hqt k :=
      destruct HVC as [-> _]; rewrite HSsame by discriminate; unfold s'; rewrite ?apply_eff_adds; cbn [apply_eff]; apply Hex; auto;
      apply Hprem; [|apply HSsame; discriminate];
      let R1 := fresh "R1" in let R2 := fresh "R2" in let R3 := fresh "R3" in let R4 := fresh "R4" in
      let A1 := fresh "A1" in let A2 := fresh "A2" in let A3 := fresh "A3" in
      intros (R1 & R2 & R3 & R4);
      destruct (tstep_zeroed_keep _ _ _ _ _ _ Hzf Est I R1 k R3) as (A1 & A2 & A3);
      apply Hqt; repeat split; auto; unfold tidx, tbs in *; rewrite ?A2; auto; try (rewrite HSsame by discriminate; exact R4).
    destruct e.
    + (* ENone *) same_case_tac HVC HSsame s' Hex Hprem Hzf Est Hqt k.
    + (* ELock *) same_case_tac HVC HSsame s' Hex Hprem Hzf Est Hqt k.
    + (* EStart *) destruct HVC as [-> _]. replace (adds s') with (adds s) by (unfold s'; rewrite apply_eff_adds; reflexivity).
      destruct Hsh as (Ha & Hpc & -> & ->).
      assert (Hrt : rolling t = true) by (unfold rolling; rewrite Ha, Hpc; reflexivity).
      unfold s'. rewrite S_at_eff. apply Nat.ltb_lt in Hlt. rewrite Hlt, andb_true_r.
      destruct (Nat.eqb_spec i (tidx g t)) as [->|Hni].
      * destruct (Z.eq_dec (S_at s (tidx g t)) (tbs g t)) as [E|E].
        -- rewrite <- E. apply Hex; auto. apply Hprem.
           ++ intros (_ & _ & _ & R4). auto.
           ++ unfold s'. rewrite S_at_eff, Nat.eqb_refl, Hlt. cbn [andb]. auto.
        -- rewrite Hgh. rewrite (k_zeroed _ _ _ _ Ht Ha k) by (rewrite ?Hpc; auto). cbn.
           symmetry. apply Esum_zero. intros r Hr. destruct (Hroll_t Hrt r Hr); auto. congruence.
      * apply Hex; auto. apply Hprem.
        -- intros (_ & R2 & _). auto.
        -- unfold s'. rewrite S_at_eff. rewrite (proj2 (Nat.eqb_neq i (tidx g t))) by auto. reflexivity.
    + (* EZero *) replace (adds s') with (adds s) by (unfold s'; rewrite apply_eff_adds; reflexivity). rewrite HSsame by discriminate.
      destruct Hsh as (Ha & Hpc & ->).
      destruct (tstep_zero_next _ _ _ _ _ _ _ _ Hzf Est eq_refl) as (A1 & A2 & A3 & A4).
      destruct (Nat.eqb_spec i (tidx g t)) as [->|Hni]; cbn [andb] in HVC.
      * destruct (Nat.eqb_spec k k0) as [->|Hnk].
        -- destruct HVC as [-> _]. symmetry. apply Esum_zero. intros r Hr.
           assert (E : S_at s (tidx g t) = tbs g t).
           { destruct (Z.eq_dec (S_at s (tidx g t)) (tbs g t)) as [E|E]; auto. exfalso. apply Hqt.
             repeat split; auto; unfold tidx, tbs in *; rewrite ?A2; auto. rewrite HSsame by discriminate. exact E. }
           rewrite E. destruct (Hroll_t A3 r Hr); auto. congruence.
        -- destruct HVC as [-> _]. apply Hex; auto. apply Hprem; [|apply HSsame; discriminate].
           intros (R1 & R2 & R3 & R4). apply Hqt.
           repeat split; auto; unfold tidx, tbs in *; rewrite ?A2; auto. rewrite HSsame by discriminate. exact R4.
      * destruct HVC as [-> _]. apply Hex; auto. apply Hprem; [|apply HSsame; discriminate]. intros (_ & R2 & _). auto.
    + (* EMinRt *) same_case_tac HVC HSsame s' Hex Hprem Hzf Est Hqt k.
    + (* EMaxC *) same_case_tac HVC HSsame s' Hex Hprem Hzf Est Hqt k.
    + (* EAdd *) replace (adds s') with (adds s ++ [r]) by (unfold s'; rewrite apply_eff_adds; reflexivity). rewrite Esum_app. rewrite HSsame by discriminate.
      destruct Hsh as (Ha & Hpc & Hsl & Hst & Hown).
      assert (Hold : V_at s i k = Esum (credited i k (S_at s i)) (adds s)).
      { apply Hex; auto. apply Hprem; [|apply HSsame; discriminate]. intros (_ & _ & R3 & _). rewrite Hpc in R3. cbn in R3. lia. }
      destruct (add_fits g TOT c tid t r t' HT H1 Et Est i k) as (A0 & A1 & A2). fold s in A0, A1.
      rewrite <- Hold. unfold amt_if, credited.
      destruct (Nat.eqb_spec i (a_slot r)) as [->|Hni]; cbn [andb] in HVC.
      * rewrite Nat.eqb_refl. cbn [andb]. rewrite <- Hsl in Hlt. apply Nat.ltb_lt in Hlt. rewrite Hlt, andb_true_r in HVC.
        apply Nat.ltb_lt in Hk. rewrite Hk, andb_true_r in HVC.
        rewrite (Nat.eqb_sym (a_kind r) k). destruct (Nat.eqb_spec k (a_kind r)) as [->|].
        -- destruct HVC as [-> _]. rewrite Hst, <- Hsl, Z.eqb_refl. cbn [andb]. rewrite i64_add_small by lia. lia.
        -- destruct HVC as [-> _]. cbn [andb]. lia.
      * destruct HVC as [-> _]. rewrite (proj2 (Nat.eqb_neq (a_slot r) i)) by auto. cbn [andb]. lia.
    + (* EStale *) same_case_tac HVC HSsame s' Hex Hprem Hzf Est Hqt k.
    + (* ERet *) same_case_tac HVC HSsame s' Hex Hprem Hzf Est Hqt k.
Qed.

Lemma alongb_cons P g e r c : alongb P g (e :: r) c = true -> P c = true /\ alongb P g r (step g c e) = true.
Proof. cbn [alongb]. intros H. apply andb_prop in H. exact H. Qed.

Lemma exec_inv3 g t0 TOT sched c :
  geom_ok g -> TOT < two63 -> Inv1 TOT c -> Inv2 g t0 c -> Inv3 g c ->
  alongb (freshb g) g sched c = true -> alongb (fun c => negb (overlapb g c)) g sched c = true ->
  Inv3 g (exec g sched c) /\ Inv2 g t0 (exec g sched c).
Proof.
  intros Hg HT. revert c. induction sched as [|e r IH]; intros c H1 H2 H3 Hf Ho; cbn [exec fold_left]; auto.
  apply alongb_cons in Hf. destruct Hf as [Hf Hfr]. apply alongb_cons in Ho. destruct Ho as [Ho Hor].
  apply negb_true_iff in Ho.
  apply IH; auto.
  - apply step_inv1; auto.
  - apply step_inv2; auto.
  - eapply step_inv3; eauto.
Qed.

Lemma rolling_init ops : rolling (init_thread ops) = false.
Proof. unfold rolling. rewrite active_init. reflexivity. Qed.

Lemma init_inv3 g t0 progs : Inv3 g (init g t0 progs).
Proof.
  assert (HV : forall i k, V_at (init_shared g t0) i k = 0) by (intros; apply cntv_init).
  constructor; cbn [init sh thr].
  - cbn [init_shared slots]. rewrite Forall_map. rewrite Forall_forall. intros i _. reflexivity.
  - intros i k. rewrite HV, C_at_init. reflexivity.
  - constructor.
  - rewrite Forall_map. rewrite Forall_forall. intros ops _ Hr. rewrite rolling_init in Hr. discriminate.
  - intros i k _ _. rewrite HV. reflexivity.
Qed.

Definition credited_own (i k : nat) (st : Z) (r : addrec) : bool :=
  Nat.eqb (a_slot r) i && Nat.eqb (a_kind r) k && (a_own r =? st).

Lemma Esum_ext_in p q l : (forall r, In r l -> p r = q r) -> Esum p l = Esum q l.
Proof.
  induction l as [|a l IH]; intros H; unfold Esum in *; cbn [map]; [reflexivity|].
  rewrite !sumZ_cons. unfold amt_if at 1 3. rewrite (H a) by (left; auto). rewrite IH; auto. intros r Hr. apply H. right; auto.
Qed.

(* the slot is not inside a start-changing reset that has already zeroed counter k *)
Definition quiet (g : geom) (c : config) (i k : nat) : Prop :=
  forall u, In u (thr c) -> ~ resetting g (sh c) i k u.

Lemma exact_when_disjoint g t0 progs sched :
  0 < g_bl g -> (2 <= g_n g)%nat -> g_zero_first g = true ->
  progs_nonneg progs -> total_amt progs < two63 ->
  no_stall g sched (init g t0 progs) -> no_overlap g sched (init g t0 progs) ->
  let c := exec g sched (init g t0 progs) in
  forall i k, (k < n_events)%nat -> quiet g c i k ->
  cntv (nth i (slots (sh c)) dslot) k = Esum (credited_own i k (s_start (nth i (slots (sh c)) dslot))) (adds (sh c)).
Proof.
  intros Hb Hn Hzf Hp HT Hns Hno c i k Hk Hq.
  assert (Hg : geom_ok g) by (constructor; auto).
  destruct (exec_inv3 g t0 (total_amt progs) sched (init g t0 progs) Hg HT) as [H3 H2]; auto.
  - apply init_inv1; auto.
  - apply init_inv2; auto. lia.
  - apply init_inv3.
  - fold c in H3, H2. pose proof (i3_exact _ _ H3 i k Hk Hq) as He. unfold V_at, S_at in He. rewrite He.
    apply Esum_ext_in. intros r Hr. unfold credited, credited_own.
    pose proof (h_right _ _ _ (i2_sh _ _ _ H2)) as Hri. rewrite Forall_forall in Hri. rewrite (Hri r Hr). reflexivity.
Qed.

Lemma quiet_all_done g c i k : all_done c = true -> quiet g c i k.
Proof.
  unfold all_done. rewrite forallb_forall. intros H u Hu (Ha & _). specialize (H u Hu).
  unfold active in Ha. destruct (t_ops u); discriminate.
Qed.

Lemma exact_final g t0 progs sched :
  0 < g_bl g -> (2 <= g_n g)%nat -> g_zero_first g = true ->
  progs_nonneg progs -> total_amt progs < two63 ->
  no_stall g sched (init g t0 progs) -> no_overlap g sched (init g t0 progs) ->
  let c := exec g sched (init g t0 progs) in
  all_done c = true ->
  forall i k, (k < n_events)%nat ->
  cntv (nth i (slots (sh c)) dslot) k = Esum (credited_own i k (s_start (nth i (slots (sh c)) dslot))) (adds (sh c)).
Proof.
  intros Hb Hn Hzf Hp HT Hns Hno c Hd i k Hk. apply exact_when_disjoint; auto. apply quiet_all_done; auto.
Qed.

(* ------------------------------------------------------------------------------------ *)
(* the ghost contribution lists describe the real counters (needs only that the amounts fit an int64) *)

Record InvG (c : config) : Prop := {
  ig_cnt : Forall cnt_len (slots (sh c));
  ig_con : Forall contrib_len (slots (sh c));
  ig_ghost : forall i k, V_at (sh c) i k = sumZ (map fst (C_at (sh c) i k))
}.

Lemma step_invG g TOT c e : TOT < two63 -> Inv1 TOT c -> InvG c -> InvG (step g c e).
Proof.
  intros HT H1 [Hcl Hkl Hgh]. destruct e as [tid|dt]; cbn [step]; [|constructor; auto].
  destruct (nth_error (thr c) tid) as [t|] eqn:Et; [|constructor; auto].
  destruct (tstep g tid (sh c) t) as [e t'] eqn:Est.
  constructor; cbn [sh thr].
  - apply apply_eff_cnt_len; auto.
  - apply apply_eff_contrib_len; auto.
  - intros i k. pose proof (VC_eff e (sh c) i k Hcl Hkl) as HVC. cbv zeta in HVC. specialize (Hgh i k).
    destruct e; try (destruct HVC as [-> ->]; exact Hgh).
    + destruct (_ && _)%bool; destruct HVC as [-> ->]; auto.
    + destruct (_ && _ && _ && _)%bool; destruct HVC as [-> ->]; auto.
      destruct (add_fits g TOT c tid t r t' HT H1 Et Est i k) as (A0 & A1 & A2).
      rewrite sumZ_map_fst_app, <- Hgh. apply i64_add_small. lia.
Qed.

Lemma ghost_sound g t0 progs sched :
  progs_nonneg progs -> total_amt progs < two63 ->
  let c := exec g sched (init g t0 progs) in
  forall i k, cntv (nth i (slots (sh c)) dslot) k = sumZ (map fst (contribv (nth i (slots (sh c)) dslot) k)).
Proof.
  intros Hp HT c.
  assert (H : forall sched c0, Inv1 (total_amt progs) c0 -> InvG c0 -> InvG (exec g sched c0)).
  { induction sched0 as [|e r IH]; intros c0 H1 HG; cbn [exec fold_left]; auto.
    apply IH; [apply step_inv1; auto | eapply step_invG; eauto]. }
  apply (ig_ghost c). apply H; [apply init_inv1; auto|].
  constructor; cbn [init sh].
  - cbn [init_shared slots]. rewrite Forall_map. rewrite Forall_forall. intros i _. reflexivity.
  - cbn [init_shared slots]. rewrite Forall_map. rewrite Forall_forall. intros i _. reflexivity.
  - intros i k. rewrite C_at_init. apply cntv_init.
Qed.
