(* Model-side facts used by the hotspot leaf obligations (translator/leaf/C05_leaf_check.v): one
   iteration of [slot_check] written through [slot_dispatch], the shape the regenerated loop body of
   Slot.Check has. *)
From SG Require Import Base.Prelude Base.GoInt Base.GoFloat Model.LRU Model.Hotspot Model.HotspotStep.
#[local] Open Scope Z_scope.

Lemma slot_check_iteration i r rs m mr clk adv q :
  slot_check i (r :: rs) (m :: mr) clk adv q =
  match extract r q with
  | None =>
      let '(mr1, clk1, sl, v) := slot_check (i + 1) rs mr clk adv q in (m :: mr1, clk1, sl, v)
  | Some k =>
      let '(m1, d) := perform_checking r m (ms_of_ns clk) k (q_batch q) in
      match slot_dispatch d with
      | SContinue None =>
          let '(mr1, clk1, sl, v) := slot_check (i + 1) rs mr clk adv q in (m1 :: mr1, clk1, sl, v)
      | SContinue (Some ns) =>
          let clk' := if adv then u64 (clk + ns) else clk in
          let '(mr1, clk1, sl, v) := slot_check (i + 1) rs mr clk' adv q in (m1 :: mr1, clk1, ns :: sl, v)
      | SReturn =>
          (m1 :: mr, clk, [], match d with DBlock tv => VBlock i tv | _ => VSpin i end)
      end
  end.
Proof.
  cbn [slot_check]. destruct (extract r q) as [k|]; [|reflexivity].
  destruct (perform_checking r m (ms_of_ns clk) k (q_batch q)) as [m1 d].
  destruct d as [|tv|ns|]; cbn [slot_dispatch]; try reflexivity.
  destruct (0 <? ns); reflexivity.
Qed.
