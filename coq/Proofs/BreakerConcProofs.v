(* Invariants of the concurrent breaker model, for ALL schedules and any number of threads. *)
From Coq Require Import Floats.
From SG Require Import Base.Prelude Base.GoInt Base.GoFloat Model.Breaker Model.BreakerConc.
#[local] Open Scope Z_scope.

(* ---------------------------------------------------------------------------------- *)
(* lists                                                                                *)

Lemma nth_error_upd_nth_same {A} n (x : A) l : (n < length l)%nat -> nth_error (upd_nth n (fun _ => x) l) n = Some x.
Proof. revert n; induction l as [|y l IH]; intros [|n] H; cbn in *; try lia; [reflexivity|apply IH; lia]. Qed.
Lemma nth_error_upd_nth_other {A} n m (f : A -> A) l : n <> m -> nth_error (upd_nth n f l) m = nth_error l m.
Proof. revert n m; induction l as [|y l IH]; intros [|n] [|m] H; cbn; try reflexivity; try congruence. apply IH; congruence. Qed.

Lemma nth_error_snoc_lt {A} (l : list A) x k : (k < length l)%nat -> nth_error (l ++ [x]) k = nth_error l k.
Proof. intros H. apply nth_error_app1; assumption. Qed.
Lemma nth_error_snoc_eq {A} (l : list A) x : nth_error (l ++ [x]) (length l) = Some x.
Proof. rewrite nth_error_app2 by lia. rewrite Nat.sub_diag. reflexivity. Qed.

(* ---------- logs ---------- *)
Lemma cas_of_app tid a b : cas_of tid (a ++ b) = cas_of tid a ++ cas_of tid b.
Proof. unfold cas_of. apply flat_map_app. Qed.
Lemma calls_of_app tid a b : calls_of tid (a ++ b) = calls_of tid a ++ calls_of tid b.
Proof. unfold calls_of. apply flat_map_app. Qed.
Lemma cas_of_one_same tid k a b clk : cas_of tid [CEv tid k a b clk] = [(a, b)].
Proof. unfold cas_of. cbn. rewrite Z.eqb_refl. reflexivity. Qed.
Lemma cas_of_one_other tid tid' k a b clk : tid' <> tid -> cas_of tid' [CEv tid k a b clk] = [].
Proof. intros H. unfold cas_of. cbn. destruct (Z.eqb_spec tid tid'); [lia|reflexivity]. Qed.
Lemma calls_of_one_same tid a b s : calls_of tid [LCall tid (TEv a b s)] = [(a, b)].
Proof. unfold calls_of. cbn. rewrite Z.eqb_refl. reflexivity. Qed.
Lemma calls_of_one_other tid tid' e : tid' <> tid -> calls_of tid' [LCall tid e] = [].
Proof. intros H. unfold calls_of. cbn. destruct (Z.eqb_spec tid tid'); [lia|reflexivity]. Qed.

Lemma cpath_app_one s l e : cpath s l = Some (ce_from e) -> edge_ok (ce_from e) (ce_to e) = true ->
  cpath s (l ++ [e]) = Some (ce_to e).
Proof.
  revert s; induction l as [|x l IH]; intros s H He; cbn in *.
  - inversion H; subst. rewrite He. destruct (ce_from e); reflexivity.
  - destruct (bst_eqb (ce_from x) s && edge_ok (ce_from x) (ce_to x)); [apply IH; assumption|discriminate].
Qed.

(* the state word the CAS log leads to *)
Definition lastst (l : list cev) : bst := fold_left (fun _ e => ce_to e) l Closed.
Lemma lastst_snoc l e : lastst (l ++ [e]) = ce_to e.
Proof. unfold lastst. rewrite fold_left_app. reflexivity. Qed.
Lemma lastst_nth_last l e : l <> [] -> nth_error l (length l - 1) = Some e -> lastst l = ce_to e.
Proof.
  intros Hne H. destruct (exists_last Hne) as (l' & x & ->).
  rewrite app_length in H. cbn in H. replace (length l' + 1 - 1)%nat with (length l') in H by lia.
  rewrite nth_error_snoc_eq in H. inversion H; subst. apply lastst_snoc.
Qed.

Definition adm_of (tid : Z) (l : list adm) : list adm := filter (fun a => ad_tid a =? tid) l.
Lemma adm_of_app tid a b : adm_of tid (a ++ b) = adm_of tid a ++ adm_of tid b.
Proof. apply filter_app. Qed.
Fixpoint count_true (l : list bool) : Z := match l with [] => 0 | b :: r => (if b then 1 else 0) + count_true r end.
Lemma count_true_app a b : count_true (a ++ b) = count_true a + count_true b.
Proof. induction a as [|x a IH]; cbn; [reflexivity|rewrite IH; lia]. Qed.

Lemma last_opening_app l1 l2 d : last_opening (l1 ++ l2) d = last_opening l2 (last_opening l1 d).
Proof. revert d; induction l1 as [|e l IH]; intros d; cbn; [reflexivity|apply IH]. Qed.

(* ---------------------------------------------------------------------------------- *)
(* a schema for invariants: a predicate S on (clock, shared state) and a predicate L on
   (clock, shared state, thread id, thread), preserved by every step of every thread       *)

Definition thread_at (cf : config) (tid : Z) (th : thread) : Prop :=
  0 <= tid /\ nth_error (ths cf) (Z.to_nat tid) = Some th.

Definition sev_okP (P : Z -> Prop) (e : sev) : Prop := match e with Tick dt => P dt | _ => True end.

Section Schema.
  Variable c : cfg.
  Variable tickP : Z -> Prop.
  Variable S : Z -> shared -> Prop.
  Variable L : Z -> shared -> Z -> thread -> Prop.
  Hypothesis Hstep : forall tid clk sh th, 0 <= tid -> S clk sh -> L clk sh tid th ->
    S clk (fst (tstep c tid clk sh th)) /\
    L clk (fst (tstep c tid clk sh th)) tid (snd (tstep c tid clk sh th)) /\
    (forall tid2 th2, tid2 <> tid -> L clk sh tid2 th2 -> L clk (fst (tstep c tid clk sh th)) tid2 th2).
  Hypothesis Htick : forall dt clk sh, tickP dt -> S clk sh ->
    S (clk + dt) sh /\ forall tid th, L clk sh tid th -> L (clk + dt) sh tid th.
  Hypothesis Hhavoc : forall sl clk sh, S clk sh ->
    S clk (set_csl sh sl) /\ forall tid th, L clk sh tid th -> L clk (set_csl sh sl) tid th.

  Definition ginv (cf : config) : Prop :=
    S (clk cf) (shd cf) /\ forall tid th, thread_at cf tid th -> L (clk cf) (shd cf) tid th.

  Lemma ginv_cstep cf e : sev_okP tickP e -> ginv cf -> ginv (cstep c cf e).
  Proof.
    intros Hok [HS HL]. destruct e as [tid|dt|sl]; cbn [cstep].
    - destruct (nth_error (ths cf) (Z.to_nat tid)) as [th|] eqn:Eth; [|split; assumption].
      destruct (Z.ltb_spec tid 0) as [Hneg|Hpos]; [split; assumption|].
      destruct (tstep c tid (clk cf) (shd cf) th) as [sh' th'] eqn:Est.
      assert (Hat : thread_at cf tid th) by (split; assumption).
      destruct (Hstep tid (clk cf) (shd cf) th Hpos HS (HL _ _ Hat)) as (H1 & H2 & H3).
      rewrite Est in H1, H2, H3. cbn [fst snd] in *.
      split; cbn [shd clk ths]; [assumption|].
      intros tid2 th2 [Hp2 Hn2]. cbn [ths] in Hn2.
      destruct (Z.eq_dec tid2 tid) as [->|Hne].
      + rewrite nth_error_upd_nth_same in Hn2 by (apply nth_error_Some; congruence).
        inversion Hn2; subst. assumption.
      + rewrite nth_error_upd_nth_other in Hn2 by (intro Hx; apply Hne; apply Z2Nat.inj in Hx; lia).
        apply H3; [assumption|]. apply HL. split; assumption.
    - cbn in Hok. destruct (Htick dt (clk cf) (shd cf) Hok HS) as [H1 H2].
      split; cbn [shd clk ths]; [assumption|]. intros tid th Hat. apply H2. apply HL. exact Hat.
    - destruct (Hhavoc sl (clk cf) (shd cf) HS) as [H1 H2].
      split; cbn [shd clk ths]; [assumption|]. intros tid th Hat. apply H2. apply HL. exact Hat.
  Qed.

  Lemma ginv_exec sched cf : Forall (sev_okP tickP) sched -> ginv cf -> ginv (exec c sched cf).
  Proof.
    revert cf; induction sched as [|e r IH]; intros cf Hok Hi; cbn; [assumption|].
    inversion Hok; subst. apply IH; [assumption|]. apply ginv_cstep; assumption.
  Qed.
End Schema.

Lemma sev_okP_true sched : Forall (sev_okP (fun _ => True)) sched.
Proof. induction sched as [|[?|?|?] r IH]; constructor; cbn; auto. Qed.
Lemma sev_okP_nonneg sched : Forall sev_ok sched -> Forall (sev_okP (fun dt => 0 <= dt)) sched.
Proof. intros H; induction H as [|[?|?|?] r H1 H2 IH]; constructor; cbn in *; auto. Qed.

(* ---------------------------------------------------------------------------------- *)
(* what one thread step does                                                            *)

Lemma pending_finish th : pending (tpc (finish th)) = [].
Proof. unfold finish. cbn. destruct (tl (tops th)); reflexivity. Qed.
Lemma tres_finish th : tres (finish th) = tres th.
Proof. reflexivity. Qed.
Lemma finish_pc th : tpc (finish th) = PDone \/ tpc (finish th) = PBound.
Proof. unfold finish. cbn. destruct (tl (tops th)); auto. Qed.
Lemma finish_not_t302 th : match tpc (finish th) with T302 _ _ => False | _ => True end.
Proof. destruct (finish_pc th) as [-> | ->]; exact I. Qed.

(* everything except the counters *)
Definition core_eq (sh sh' : shared) : Prop :=
  sw sh' = sw sh /\ dl sh' = dl sh /\ pn sh' = pn sh /\ llog sh' = llog sh /\ clog sh' = clog sh /\
  admits sh' = admits sh /\ phase sh' = phase sh /\ topen sh' = topen sh /\ dtag sh' = dtag sh.
Lemma core_eq_refl sh : core_eq sh sh.
Proof. repeat split. Qed.
Lemma core_eq_csl sh sl : core_eq sh (set_csl sh sl).
Proof. repeat split. Qed.
Lemma reset_metric_core c clk sh : core_eq sh (reset_metric c clk sh).
Proof. unfold reset_metric. destruct (clk <=? 0); [apply core_eq_refl|apply core_eq_csl]. Qed.

Lemma begin_op_spec c clk sh th :
  core_eq sh (fst (begin_op c clk sh th)) /\
  pending (tpc (snd (begin_op c clk sh th))) = [] /\ tres (snd (begin_op c clk sh th)) = tres th /\
  (match tpc (snd (begin_op c clk sh th)) with T302 _ _ => False | _ => True end).
Proof.
  unfold begin_op. destruct (tops th) as [|[b|rt err] ops] eqn:E; cbn [fst snd].
  - repeat split.
  - repeat split.
  - destruct (clk <=? 0); cbn [fst snd].
    + pose proof (finish_not_t302 th). rewrite pending_finish. repeat split; auto.
    + destruct (la_current (gn c) (gbl c) clk (csl sh)); cbn [fst snd].
      * repeat split.
      * pose proof (finish_not_t302 th). rewrite pending_finish. repeat split; auto.
Qed.

Lemma filter_none {A} (f : A -> bool) l : (forall a, In a l -> f a = false) -> filter f l = [].
Proof. induction l as [|x l IH]; intros H; cbn; [reflexivity|]. rewrite (H x (or_introl eq_refl)). apply IH. intros a Ha. apply H. right. exact Ha. Qed.

Ltac break_match :=
  match goal with
  | |- context [match ?x with _ => _ end] => destruct x eqn:?
  end.

(* ---------------------------------------------------------------------------------- *)
(* invariant U (no assumption on the ticks): the CAS log is a legal chain ending at the state
   word; admissions carry the epoch of their decision; ProbeNum = 0: one admission per
   half-open epoch, the thread that made the CAS; per thread, CAS log = listener calls ++
   pending; per thread, number of `true` results = number of admissions                     *)

Definition probe_adm (sh : shared) : Prop :=
  forall k e, nth_error (clog sh) k = Some e -> ce_to e = HalfOpen ->
    exists tp fr, filter (fun a => ad_epoch a =? Z.of_nat k + 1) (admits sh)
                  = [Adm (ce_tid e) (ce_clk e) Open (Z.of_nat k + 1) tp fr].

(* every Open->HalfOpen CAS has its admission record *)
Definition probe_rec (sh : shared) : Prop :=
  forall k e, nth_error (clog sh) k = Some e -> ce_to e = HalfOpen ->
    exists tp fr, In (Adm (ce_tid e) (ce_clk e) Open (Z.of_nat k + 1) tp fr) (admits sh).

Definition SU (c : cfg) (sh : shared) : Prop :=
  cpath Closed (clog sh) = Some (sw sh) /\ lastst (clog sh) = sw sh /\
  (forall a, In a (admits sh) -> ad_epoch a <= epoch sh) /\
  (probe_num c = 0 -> probe_adm sh) /\ probe_rec sh.

Definition LU (sh : shared) (tid : Z) (th : thread) : Prop :=
  cas_of tid (clog sh) = calls_of tid (llog sh) ++ pending (tpc th) /\
  count_true (tres th) = Z.of_nat (length (adm_of tid (admits sh))).

Lemma SU_core c sh sh' : core_eq sh sh' -> SU c sh -> SU c sh'.
Proof.
  intros (E1 & _ & _ & _ & E5 & E6 & _) (H1 & H2 & H3 & H4 & H5). unfold SU, probe_adm, probe_rec, epoch in *.
  rewrite E1, E5, E6. auto.
Qed.

Lemma epoch_snoc sh l e : clog sh = l -> Z.of_nat (length (l ++ [e])) = Z.of_nat (length l) + 1.
Proof. intros _. rewrite app_length. cbn. lia. Qed.

(* a CAS that does not lead to HalfOpen, with unchanged admissions *)
Lemma SU_cas c sh sh' e :
  SU c sh -> clog sh' = clog sh ++ [e] -> sw sh' = ce_to e -> admits sh' = admits sh ->
  ce_from e = sw sh -> edge_ok (ce_from e) (ce_to e) = true -> ce_to e <> HalfOpen -> SU c sh'.
Proof.
  intros (H1 & H2 & H3 & H4 & H5) Ec Es Ea Hf He Hn. unfold SU, probe_adm, probe_rec, epoch in *.
  rewrite Ec, Es, Ea.
  assert (Hidx : forall k e', nth_error (clog sh ++ [e]) k = Some e' -> ce_to e' = HalfOpen -> nth_error (clog sh) k = Some e').
  { intros k e' Hn' Ht. destruct (Nat.lt_ge_cases k (length (clog sh))) as [Hlt|Hge].
    - rewrite nth_error_snoc_lt in Hn' by assumption. assumption.
    - assert (k = length (clog sh)).
      { assert (k < length (clog sh ++ [e]))%nat by (apply nth_error_Some; congruence). rewrite app_length in *. cbn in *. lia. }
      subst k. rewrite nth_error_snoc_eq in Hn'. inversion Hn'; subst. contradiction. }
  split; [|split; [|split; [|split]]]; [| | | |intros k e' Hn' Ht; apply H5; [apply Hidx|]; assumption].
  - apply cpath_app_one; [rewrite Hf; assumption|assumption].
  - apply lastst_snoc.
  - intros a Ha. specialize (H3 a Ha). rewrite app_length. cbn. lia.
  - intros Hp k e' Hn' Ht. apply (H4 Hp); [apply Hidx|]; assumption.
Qed.

(* the probe: CAS Open -> HalfOpen together with its admission *)
Lemma SU_probe c sh sh' tid clk tp fr :
  SU c sh -> sw sh = Open ->
  clog sh' = clog sh ++ [CEv tid KTry Open HalfOpen clk] -> sw sh' = HalfOpen ->
  admits sh' = admits sh ++ [Adm tid clk Open (epoch sh + 1) tp fr] -> SU c sh'.
Proof.
  intros (H1 & H2 & H3 & H4 & H5) Hs Ec Es Ea. unfold SU, probe_adm, probe_rec, epoch in *.
  rewrite Ec, Es, Ea. split; [|split; [|split; [|split]]].
  - change HalfOpen with (ce_to (CEv tid KTry Open HalfOpen clk)). apply cpath_app_one; cbn; [rewrite <- Hs; assumption|reflexivity].
  - apply lastst_snoc.
  - intros a Ha. rewrite app_length. cbn [length]. apply in_app_or in Ha. destruct Ha as [Ha|[<-|[]]].
    + specialize (H3 a Ha). lia.
    + cbn. lia.
  - intros Hp k e' Hn' Ht. specialize (H4 Hp). rewrite filter_app. cbn [filter ad_epoch].
    destruct (Nat.lt_ge_cases k (length (clog sh))) as [Hlt|Hge].
    + rewrite nth_error_snoc_lt in Hn' by assumption. destruct (H4 k e' Hn' Ht) as (tp' & fr' & ->).
      destruct (Z.eqb_spec (Z.of_nat (length (clog sh)) + 1) (Z.of_nat k + 1)); [lia|]. cbn. eauto.
    + assert (k = length (clog sh)).
      { assert (k < length (clog sh ++ [CEv tid KTry Open HalfOpen clk]))%nat by (apply nth_error_Some; congruence). rewrite app_length in *. cbn in *. lia. }
      subst k. rewrite nth_error_snoc_eq in Hn'. inversion Hn'; subst. cbn [ce_tid ce_clk].
      rewrite Z.eqb_refl.
      rewrite filter_none; [cbn; eauto|].
      intros a Ha. specialize (H3 a Ha). apply Z.eqb_neq. lia.
  - intros k e' Hn' Ht.
    destruct (Nat.lt_ge_cases k (length (clog sh))) as [Hlt|Hge].
    + rewrite nth_error_snoc_lt in Hn' by assumption. destruct (H5 k e' Hn' Ht) as (tp' & fr' & Hin).
      exists tp', fr'. apply in_or_app. left. exact Hin.
    + assert (k = length (clog sh)).
      { assert (k < length (clog sh ++ [CEv tid KTry Open HalfOpen clk]))%nat by (apply nth_error_Some; congruence). rewrite app_length in *. cbn in *. lia. }
      subst k. rewrite nth_error_snoc_eq in Hn'. inversion Hn'; subst. cbn [ce_tid ce_clk].
      exists tp, fr. apply in_or_app. right. left. reflexivity.
Qed.

(* an admission decided at the state load *)
Lemma SU_adm c sh sh' a :
  SU c sh -> sw sh' = sw sh -> clog sh' = clog sh -> admits sh' = admits sh ++ [a] ->
  ad_epoch a = epoch sh -> (probe_num c = 0 -> sw sh <> HalfOpen) -> SU c sh'.
Proof.
  intros (H1 & H2 & H3 & H4 & H5) Es Ec Ea Hep Hnh. unfold SU, probe_adm, probe_rec, epoch in *.
  rewrite Ec, Es, Ea. split; [assumption|split; [assumption|split; [|split]]];
    [| |intros k e Hn Ht; destruct (H5 k e Hn Ht) as (tp & fr & Hin); exists tp, fr; apply in_or_app; left; exact Hin].
  - intros x Hx. apply in_app_or in Hx. destruct Hx as [Hx|[<-|[]]]; [apply H3; assumption|lia].
  - intros Hp k e Hn Ht. specialize (H4 Hp). specialize (Hnh Hp). rewrite filter_app. cbn [filter].
    destruct (H4 k e Hn Ht) as (tp & fr & ->).
    destruct (Z.eqb_spec (ad_epoch a) (Z.of_nat k + 1)) as [Heq|Hneq]; [|cbn; eauto].
    exfalso. apply Hnh. rewrite <- H2.
    assert (Hk : (k < length (clog sh))%nat) by (apply nth_error_Some; congruence).
    rewrite (lastst_nth_last (clog sh) e); [assumption| |].
    + intro Hnil. rewrite Hnil in Hk. cbn in Hk. lia.
    + replace (length (clog sh) - 1)%nat with k by lia. assumption.
Qed.

Lemma adm_of_one_same tid clk s ep tp fr : adm_of tid [Adm tid clk s ep tp fr] = [Adm tid clk s ep tp fr].
Proof. unfold adm_of. cbn. rewrite Z.eqb_refl. reflexivity. Qed.
Lemma adm_of_one_other tid tid' clk s ep tp fr : tid' <> tid -> adm_of tid' [Adm tid clk s ep tp fr] = [].
Proof. intros H. unfold adm_of. cbn. destruct (Z.eqb_spec tid tid'); [lia|reflexivity]. Qed.

(* the parts of the shared state the invariant U reads *)
Definition log_eq (sh sh' : shared) : Prop :=
  sw sh' = sw sh /\ llog sh' = llog sh /\ clog sh' = clog sh /\ admits sh' = admits sh.
Lemma core_log_eq sh sh' : core_eq sh sh' -> log_eq sh sh'.
Proof. intros (E1 & _ & _ & E4 & E5 & E6 & _). repeat split; assumption. Qed.
Lemma SU_log c sh sh' : log_eq sh sh' -> SU c sh -> SU c sh'.
Proof.
  intros (E1 & _ & E5 & E6) (H1 & H2 & H3 & H4 & H5). unfold SU, probe_adm, probe_rec, epoch in *.
  rewrite E1, E5, E6. auto.
Qed.
Lemma LU_log sh sh' tid th : log_eq sh sh' -> LU sh tid th -> LU sh' tid th.
Proof. intros (_ & E4 & E5 & E6) H. unfold LU in *. rewrite E4, E5, E6. exact H. Qed.
Lemma LU_log_th sh sh' tid th th' : log_eq sh sh' -> pending (tpc th') = pending (tpc th) -> tres th' = tres th ->
  LU sh tid th -> LU sh' tid th'.
Proof. intros (_ & E4 & E5 & E6) Hp Hr H. unfold LU in *. rewrite E4, E5, E6, Hp, Hr. exact H. Qed.

Ltac proj_simpl :=
  cbn [fst snd sw dl pn csl llog clog admits phase topen dtag set_sw set_open set_dl set_pn set_csl add_call add_adm
       tpc tops tres with_pc result pending ce_tid ce_from ce_to ce_clk ce_kind ad_tid ad_clk ad_seen ad_epoch ad_topen ad_fresh] in *.

Ltac frame_tac :=
  let tid2 := fresh "tid2" in let th2 := fresh "th2" in let Hne := fresh "Hne" in let Ha := fresh "Ha" in let Hb := fresh "Hb" in
  intros tid2 th2 Hne [Ha Hb]; split; proj_simpl;
  rewrite ?cas_of_app, ?calls_of_app, ?adm_of_app, ?cas_of_one_other, ?calls_of_one_other, ?adm_of_one_other, ?app_nil_r by assumption;
  assumption.

Ltac log_frame H :=
  let tid2 := fresh "tid2" in let th2 := fresh "th2" in let Hne := fresh "Hne" in let Hl := fresh "Hl" in
  intros tid2 th2 Hne Hl; exact (LU_log _ _ _ _ H Hl).

(* a step that leaves sw / logs / admissions alone: new shared state sh', new thread th' *)
Lemma U_nolog c sh sh' tid th th' :
  log_eq sh sh' -> pending (tpc th') = pending (tpc th) -> tres th' = tres th ->
  SU c sh -> LU sh tid th ->
  SU c sh' /\ LU sh' tid th' /\ (forall tid2 th2, tid2 <> tid -> LU sh tid2 th2 -> LU sh' tid2 th2).
Proof.
  intros Hl Hp Hr HS HL. split; [exact (SU_log _ _ _ Hl HS)|split; [exact (LU_log_th _ _ _ _ _ Hl Hp Hr HL)|log_frame Hl]].
Qed.

Ltac nolog := match goal with HL : LU ?sh ?tid ?th |- _ =>
  apply (U_nolog _ sh _ tid th); [repeat split|rewrite ?pending_finish; try match goal with E : tpc th = _ |- _ => rewrite E end; reflexivity|reflexivity|assumption|assumption] end.


Lemma pending_finish_result th r : pending (tpc (finish (result th r))) = [].
Proof. apply pending_finish. Qed.

Lemma U_step c tid clk sh th : SU c sh -> LU sh tid th ->
  SU c (fst (tstep c tid clk sh th)) /\ LU (fst (tstep c tid clk sh th)) tid (snd (tstep c tid clk sh th)) /\
  (forall tid2 th2, tid2 <> tid -> LU sh tid2 th2 -> LU (fst (tstep c tid clk sh th)) tid2 th2).
Proof.
  intros HS HL. pose proof HS as (HS1 & HS2 & HS3 & HS4 & HS5). pose proof HL as [HL1 HL2].
  unfold tstep. destruct (tpc th) eqn:Epc.
  - (* PBound *)
    destruct (begin_op_spec c clk sh th) as (Hc & Hp & Hr & _).
    apply (U_nolog c sh _ tid th); [apply core_log_eq; assumption|rewrite Hp, Epc; reflexivity|assumption|assumption|assumption].
  - (* PDone *)
    cbn [fst snd]. split; [assumption|split; [assumption|]]. intros; assumption.
  - (* T301 *)
    destruct (sw sh) eqn:Esw; [|destruct (0 <? probe_num c) eqn:Epn|]; cbn [fst snd].
    + split; [|split; [|frame_tac]].
      * eapply SU_adm; [exact HS|reflexivity|reflexivity|reflexivity|reflexivity|]. intros _. congruence.
      * unfold LU. proj_simpl. rewrite pending_finish, tres_finish. cbn [tres result]. cbn [pending] in HL1.
        rewrite adm_of_app, adm_of_one_same, app_length, count_true_app. cbn. rewrite app_nil_r in *. split; [assumption|lia].
    + split; [|split; [|frame_tac]].
      * eapply SU_adm; [exact HS|reflexivity|reflexivity|reflexivity|reflexivity|]. intros Hp. apply Z.ltb_lt in Epn. lia.
      * unfold LU. proj_simpl. rewrite pending_finish, tres_finish. cbn [tres result]. cbn [pending] in HL1.
        rewrite adm_of_app, adm_of_one_same, app_length, count_true_app. cbn. rewrite app_nil_r in *. split; [assumption|lia].
    + split; [assumption|split; [|intros; assumption]].
      unfold LU. rewrite pending_finish, tres_finish. cbn [tres result]. cbn [pending] in HL1.
      rewrite count_true_app. cbn. rewrite app_nil_r in *. split; [assumption|lia].
    + nolog.
  - (* T303 *)
    destruct (dl sh <=? clk); cbn [fst snd]; [nolog|].
    split; [assumption|split; [|intros; assumption]].
    unfold LU. rewrite pending_finish, tres_finish. cbn [tres result]. cbn [pending] in HL1.
    rewrite count_true_app. cbn. rewrite app_nil_r in *. split; [assumption|lia].
  - (* T302 *)
    cbn [pending] in HL1. rewrite app_nil_r in HL1.
    assert (Hfail : SU c sh /\ LU sh tid (finish (result th false)) /\ (forall tid2 th2, tid2 <> tid -> LU sh tid2 th2 -> LU sh tid2 th2)).
    { split; [assumption|split; [|intros; assumption]].
      unfold LU. rewrite pending_finish, tres_finish. cbn [tres result].
      rewrite count_true_app. cbn. rewrite app_nil_r. split; [assumption|lia]. }
    destruct (sw sh) eqn:Esw; cbn [fst snd]; try exact Hfail.
    split; [|split; [|frame_tac]].
    + eapply SU_probe; [exact HS|exact Esw|reflexivity|reflexivity|reflexivity].
    + unfold LU. proj_simpl. rewrite cas_of_app, cas_of_one_same, adm_of_app, adm_of_one_same, app_length, count_true_app, HL1.
      cbn. split; [reflexivity|lia].
  - (* T307 *)
    cbn [pending] in HL1. cbn [fst snd].
    split; [exact HS|split; [|frame_tac]].
    unfold LU. proj_simpl. rewrite calls_of_app, calls_of_one_same, HL1.
    destruct blocked; [cbn [with_pc tpc pending tres]|rewrite pending_finish, tres_finish]; rewrite app_nil_r; split; auto.
  - (* R302 *)
    cbn [pending] in HL1. rewrite app_nil_r in HL1.
    destruct (sw sh) eqn:Esw; cbn [fst snd]; try nolog.
    split; [|split; [|frame_tac]].
    + eapply (SU_cas c sh _ (CEv tid KRollback HalfOpen Open clk)); [exact HS|reflexivity|reflexivity|reflexivity|cbn; congruence|reflexivity|cbn; congruence].
    + unfold LU. proj_simpl. rewrite cas_of_app, cas_of_one_same, HL1. split; [reflexivity|assumption].
  - (* R307 *)
    cbn [pending] in HL1. cbn [fst snd].
    split; [exact HS|split; [|frame_tac]].
    unfold LU. proj_simpl. rewrite calls_of_app, calls_of_one_same, HL1, pending_finish, tres_finish, app_nil_r. split; auto.
  - (* C301 *)
    destruct (sw sh); [destruct (T <? min_amt c); [|destruct (reached c B T)]|destruct bad|]; cbn [fst snd]; nolog.
  - (* C301b *)
    destruct (sw sh); cbn [fst snd]; nolog.
  - (* C305 *) cbn [fst snd]. nolog.
  - (* C314 *)
    destruct ((probe_num c =? 0) || (probe_num c <=? pn sh)); cbn [fst snd]; nolog.
  - (* CCasCO *)
    cbn [pending] in HL1. rewrite app_nil_r in HL1.
    destruct (sw sh) eqn:Esw; cbn [fst snd]; try nolog.
    split; [|split; [|frame_tac]].
    + eapply (SU_cas c sh _ (CEv tid KComplete Closed Open clk)); [exact HS|reflexivity|reflexivity|reflexivity|cbn; congruence|reflexivity|cbn; congruence].
    + unfold LU. proj_simpl. rewrite cas_of_app, cas_of_one_same, HL1. split; [reflexivity|assumption].
  - (* C304co *) cbn [fst snd]. nolog.
  - (* C307co *)
    cbn [pending] in HL1. cbn [fst snd].
    split; [exact HS|split; [|frame_tac]].
    unfold LU. proj_simpl. rewrite calls_of_app, calls_of_one_same, HL1, pending_finish, tres_finish, app_nil_r. split; auto.
  - (* CCasHO *)
    cbn [pending] in HL1. rewrite app_nil_r in HL1.
    destruct (sw sh) eqn:Esw; cbn [fst snd]; try nolog.
    split; [|split; [|frame_tac]].
    + eapply (SU_cas c sh _ (CEv tid KComplete HalfOpen Open clk)); [exact HS|reflexivity|reflexivity|reflexivity|cbn; congruence|reflexivity|cbn; congruence].
    + unfold LU. proj_simpl. rewrite cas_of_app, cas_of_one_same, HL1. split; [reflexivity|assumption].
  - (* C306ho *) cbn [fst snd]. nolog.
  - (* C304ho *) cbn [fst snd]. nolog.
  - (* C307ho *)
    cbn [pending] in HL1. cbn [fst snd].
    split; [exact HS|split; [|frame_tac]].
    unfold LU. proj_simpl. rewrite calls_of_app, calls_of_one_same, HL1, pending_finish, tres_finish, app_nil_r. split; auto.
  - (* CCasHC *)
    cbn [pending] in HL1. rewrite app_nil_r in HL1.
    assert (Hrm : log_eq sh (reset_metric c clk sh)) by (apply core_log_eq, reset_metric_core).
    destruct (sw sh) eqn:Esw; cbn [fst snd];
      try (apply (U_nolog c sh _ tid th); [exact Hrm|rewrite pending_finish, Epc; reflexivity|reflexivity|assumption|assumption]).
    split; [|split; [|frame_tac]].
    + eapply (SU_cas c sh _ (CEv tid KComplete HalfOpen Closed clk)); [exact HS|reflexivity|reflexivity|reflexivity|cbn; congruence|reflexivity|cbn; congruence].
    + unfold LU. proj_simpl. rewrite cas_of_app, cas_of_one_same, HL1. split; [reflexivity|assumption].
  - (* C306hc *) cbn [fst snd]. nolog.
  - (* C307hc *)
    cbn [pending] in HL1. cbn [fst snd].
    pose proof (core_log_eq _ _ (reset_metric_core c clk (add_call sh tid (TEv HalfOpen Closed None)))) as Hrm.
    assert (Hl2 : SU c (add_call sh tid (TEv HalfOpen Closed None))) by exact HS.
    split; [exact (SU_log _ _ _ Hrm Hl2)|split].
    + apply (LU_log _ _ _ _ Hrm). unfold LU. proj_simpl.
      rewrite calls_of_app, calls_of_one_same, HL1, pending_finish, tres_finish, app_nil_r. split; auto.
    + intros tid2 th2 Hne Hl. apply (LU_log _ _ _ _ Hrm). revert tid2 th2 Hne Hl. frame_tac.
Qed.

(* ---------------------------------------------------------------------------------- *)
(* invariant T (ticks do not move the clock backwards): the retry deadline stored during the
   current open phase is at least (time of the opening CAS) + timeout; a TryPass that checked
   such a deadline carries a clock reading at least that large                              *)

Definition adm_ok (c : cfg) (l : list cev) (a : adm) : Prop :=
  ad_seen a = Open ->
  (ad_fresh a = true -> ad_topen a + retry_ms c <= ad_clk a) /\
  1 <= ad_epoch a <= Z.of_nat (length l) /\
  ad_topen a = last_opening (firstn (Z.to_nat (ad_epoch a - 1)) l) 0 /\
  nth_error l (Z.to_nat (ad_epoch a - 1)) = Some (CEv (ad_tid a) KTry Open HalfOpen (ad_clk a)).

Definition ST (c : cfg) (clk : Z) (sh : shared) : Prop :=
  topen sh <= clk /\ dtag sh <= phase sh /\ (dtag sh = phase sh -> topen sh + retry_ms c <= dl sh) /\
  topen sh = last_opening (clog sh) 0 /\ Forall (adm_ok c (clog sh)) (admits sh).

Definition LT (c : cfg) (clk : Z) (sh : shared) (th : thread) : Prop :=
  match tpc th with
  | T302 rnow rtag => rnow <= clk /\ rtag <= phase sh /\ (rtag = phase sh -> topen sh + retry_ms c <= rnow)
  | _ => True
  end.

Definition frame_cond (sh sh' : shared) : Prop :=
  (phase sh' = phase sh /\ topen sh' = topen sh) \/ phase sh' = phase sh + 1.

Lemma LT_frame c clk sh sh' th : frame_cond sh sh' -> LT c clk sh th -> LT c clk sh' th.
Proof.
  unfold LT, frame_cond. destruct (tpc th); auto. intros [[E1 E2]|E1] (H1 & H2 & H3); [rewrite E1, E2; auto|rewrite E1].
  split; [assumption|split; [lia|intros; lia]].
Qed.

Lemma LT_not302 c clk sh th : (match tpc th with T302 _ _ => False | _ => True end) -> LT c clk sh th.
Proof. unfold LT. destruct (tpc th); auto. intros []. Qed.

Definition tkeep (sh sh' : shared) : Prop :=
  phase sh' = phase sh /\ topen sh' = topen sh /\ dtag sh' = dtag sh /\ dl sh' = dl sh /\
  clog sh' = clog sh /\ admits sh' = admits sh.
Lemma core_tkeep sh sh' : core_eq sh sh' -> tkeep sh sh'.
Proof. intros (E1 & E2 & E3 & E4 & E5 & E6 & E7 & E8 & E9). repeat split; assumption. Qed.

Lemma ST_keep c clk sh sh' : tkeep sh sh' -> ST c clk sh -> ST c clk sh'.
Proof. intros (E1 & E2 & E3 & E4 & E5 & E6) H. unfold ST in *. rewrite E1, E2, E3, E4, E5, E6. exact H. Qed.

Lemma ST_setdl c clk sh : ST c clk sh -> ST c clk (set_dl sh (clk + retry_ms c)).
Proof.
  intros (H1 & H2 & H3 & H4 & H5). unfold ST. cbn [topen dtag phase dl clog admits set_dl].
  split; [assumption|split; [lia|split; [intros _; lia|split; assumption]]].
Qed.

Lemma firstn_snoc_le {A} k (l : list A) x : (k <= length l)%nat -> firstn k (l ++ [x]) = firstn k l.
Proof. intros H. rewrite firstn_app. replace (k - length l)%nat with 0%nat by lia. cbn. apply app_nil_r. Qed.

Lemma adm_ok_snoc c l e a : adm_ok c l a -> adm_ok c (l ++ [e]) a.
Proof.
  unfold adm_ok. intros H Hs. destruct (H Hs) as (H1 & H2 & H3 & H4). split; [assumption|split; [|split]].
  - rewrite app_length. cbn. lia.
  - rewrite firstn_snoc_le by lia. assumption.
  - rewrite nth_error_snoc_lt by lia. assumption.
Qed.

Lemma ST_open c clk sh tid a : ST c clk sh -> ST c clk (set_open sh tid a clk).
Proof.
  intros (H1 & H2 & H3 & H4 & H5). unfold ST. cbn [topen dtag phase dl clog admits set_open].
  split; [lia|split; [lia|split; [intros; lia|split]]].
  - rewrite last_opening_app. reflexivity.
  - eapply Forall_impl; [|exact H5]. intros x Hx. apply adm_ok_snoc. exact Hx.
Qed.

Lemma ST_cas_other c clk sh tid k a b :
  is_opening (CEv tid k a b clk) = false -> ST c clk sh -> ST c clk (set_sw sh tid k a b clk).
Proof.
  intros Hno (H1 & H2 & H3 & H4 & H5). unfold ST. cbn [topen dtag phase dl clog admits set_sw].
  split; [assumption|split; [assumption|split; [assumption|split]]].
  - rewrite last_opening_app. cbn [last_opening]. rewrite Hno. assumption.
  - eapply Forall_impl; [|exact H5]. intros x Hx. apply adm_ok_snoc. exact Hx.
Qed.

Lemma ST_adm c clk sh a : adm_ok c (clog sh) a -> ST c clk sh -> ST c clk (add_adm sh a).
Proof.
  intros Ha (H1 & H2 & H3 & H4 & H5). unfold ST. cbn [topen dtag phase dl clog admits add_adm].
  split; [assumption|split; [assumption|split; [assumption|split; [assumption|]]]].
  apply Forall_app. split; [assumption|constructor; [assumption|constructor]].
Qed.

Lemma T_step c tid clk sh th : ST c clk sh -> LT c clk sh th ->
  ST c clk (fst (tstep c tid clk sh th)) /\ LT c clk (fst (tstep c tid clk sh th)) (snd (tstep c tid clk sh th)) /\
  frame_cond sh (fst (tstep c tid clk sh th)).
Proof.
  intros HS HL. pose proof HS as (HS1 & HS2 & HS3 & HS4 & HS5).
  assert (Hkeep : forall sh' th', tkeep sh sh' -> (match tpc th' with T302 _ _ => False | _ => True end) ->
            ST c clk sh' /\ LT c clk sh' th' /\ frame_cond sh sh').
  { intros sh' th' Hk Hn. split; [exact (ST_keep _ _ _ _ Hk HS)|split; [apply LT_not302; exact Hn|]].
    left. destruct Hk as (E1 & E2 & _). split; assumption. }
  assert (Hfin : forall th0, match tpc (finish th0) with T302 _ _ => False | _ => True end) by (intros; apply finish_not_t302).
  unfold tstep. destruct (tpc th) eqn:Epc.
  - (* PBound *)
    destruct (begin_op_spec c clk sh th) as (Hc & _ & _ & Hn). apply Hkeep; [apply core_tkeep; exact Hc|exact Hn].
  - (* PDone *) cbn [fst snd]. apply Hkeep; [solve [repeat split]|rewrite Epc; exact I].
  - (* T301 *)
    destruct (sw sh) eqn:Esw; [|destruct (0 <? probe_num c)|]; cbn [fst snd]; try (apply Hkeep; [solve [repeat split]|first [apply Hfin|exact I]]).
    + split; [apply ST_adm; [intros Hx; discriminate Hx|assumption]|split; [apply LT_not302, Hfin|left; split; reflexivity]].
    + split; [apply ST_adm; [intros Hx; discriminate Hx|assumption]|split; [apply LT_not302, Hfin|left; split; reflexivity]].
  - (* T303 *)
    destruct (dl sh <=? clk) eqn:Edl; cbn [fst snd]; [|apply Hkeep; [solve [repeat split]|apply Hfin]].
    split; [assumption|split; [|left; split; reflexivity]].
    unfold LT. cbn [tpc with_pc]. apply Z.leb_le in Edl. split; [lia|split; [assumption|intros Hd; specialize (HS3 Hd); lia]].
  - (* T302 *)
    unfold LT in HL. rewrite Epc in HL. destruct HL as (HL1 & HL2 & HL3).
    destruct (sw sh) eqn:Esw; cbn [fst snd]; try (apply Hkeep; [solve [repeat split]|apply Hfin]).
    split; [|split; [apply LT_not302; exact I|left; split; reflexivity]].
    apply ST_adm; [|apply ST_cas_other; [reflexivity|assumption]].
    intros _. cbn [ad_fresh ad_topen ad_clk ad_epoch ad_tid clog set_sw]. split; [|split; [|split]].
    + intros Hf. apply Z.eqb_eq in Hf. specialize (HL3 Hf). lia.
    + unfold epoch. rewrite app_length. cbn. lia.
    + unfold epoch. replace (Z.to_nat (Z.of_nat (length (clog sh)) + 1 - 1)) with (length (clog sh)) by lia.
      rewrite firstn_app, Nat.sub_diag, firstn_all. cbn. rewrite app_nil_r. assumption.
    + unfold epoch. replace (Z.to_nat (Z.of_nat (length (clog sh)) + 1 - 1)) with (length (clog sh)) by lia.
      apply nth_error_snoc_eq.
  - (* T307 *) cbn [fst snd]. apply Hkeep; [solve [repeat split]|destruct blocked; [exact I|apply Hfin]].
  - (* R302 *)
    destruct (sw sh) eqn:Esw; cbn [fst snd]; try (apply Hkeep; [solve [repeat split]|apply Hfin]).
    split; [apply ST_cas_other; [reflexivity|assumption]|split; [apply LT_not302; exact I|left; split; reflexivity]].
  - (* R307 *) cbn [fst snd]. apply Hkeep; [solve [repeat split]|apply Hfin].
  - (* C301 *)
    destruct (sw sh); [destruct (T <? min_amt c); [|destruct (reached c B T)]|destruct bad|]; cbn [fst snd];
      (apply Hkeep; [solve [repeat split]|first [apply Hfin|exact I]]).
  - (* C301b *) destruct (sw sh); cbn [fst snd]; (apply Hkeep; [solve [repeat split]|first [apply Hfin|exact I]]).
  - (* C305 *) cbn [fst snd]. apply Hkeep; [solve [repeat split]|exact I].
  - (* C314 *) destruct ((probe_num c =? 0) || (probe_num c <=? pn sh)); cbn [fst snd]; (apply Hkeep; [solve [repeat split]|first [apply Hfin|exact I]]).
  - (* CCasCO *)
    destruct (sw sh) eqn:Esw; cbn [fst snd]; try (apply Hkeep; [solve [repeat split]|apply Hfin]).
    split; [apply ST_open; assumption|split; [apply LT_not302; exact I|right; reflexivity]].
  - (* C304co *) cbn [fst snd]. split; [apply ST_setdl; assumption|split; [apply LT_not302; exact I|left; split; reflexivity]].
  - (* C307co *) cbn [fst snd]. apply Hkeep; [solve [repeat split]|apply Hfin].
  - (* CCasHO *)
    destruct (sw sh) eqn:Esw; cbn [fst snd]; try (apply Hkeep; [solve [repeat split]|apply Hfin]).
    split; [apply ST_open; assumption|split; [apply LT_not302; exact I|right; reflexivity]].
  - (* C306ho *) cbn [fst snd]. apply Hkeep; [solve [repeat split]|exact I].
  - (* C304ho *) cbn [fst snd]. split; [apply ST_setdl; assumption|split; [apply LT_not302; exact I|left; split; reflexivity]].
  - (* C307ho *) cbn [fst snd]. apply Hkeep; [solve [repeat split]|apply Hfin].
  - (* CCasHC *)
    destruct (sw sh) eqn:Esw; cbn [fst snd]; try (apply Hkeep; [apply core_tkeep, reset_metric_core|apply Hfin]).
    split; [apply ST_cas_other; [reflexivity|assumption]|split; [apply LT_not302; exact I|left; split; reflexivity]].
  - (* C306hc *) cbn [fst snd]. apply Hkeep; [solve [repeat split]|exact I].
  - (* C307hc *)
    cbn [fst snd]. destruct (reset_metric_core c clk (add_call sh tid (TEv HalfOpen Closed None))) as (E1 & E2 & E3 & E4 & E5 & E6 & E7 & E8 & E9).
    apply Hkeep; [repeat split; assumption|apply Hfin].
Qed.

(* ---------------------------------------------------------------------------------- *)
(* every log entry carries the id of the thread that stepped                            *)

Definition appends (tid : Z) (sh sh' : shared) : Prop :=
  exists dc dl da, clog sh' = clog sh ++ dc /\ llog sh' = llog sh ++ dl /\ admits sh' = admits sh ++ da /\
    Forall (fun e => ce_tid e = tid) dc /\ Forall (fun k => lc_tid k = tid) dl /\ Forall (fun a => ad_tid a = tid) da.

Lemma appends_core tid sh sh' : core_eq sh sh' -> appends tid sh sh'.
Proof.
  intros (_ & _ & _ & E4 & E5 & E6 & _). exists [], [], []. rewrite E4, E5, E6, !app_nil_r. repeat split; constructor.
Qed.

Ltac app_eq := first [reflexivity | symmetry; apply app_nil_r].
Ltac app_tac := unfold appends; do 3 eexists; proj_simpl;
  split; [app_eq|split; [app_eq|split; [app_eq|split; [|split]]]]; repeat constructor.

Lemma tstep_appends c tid clk sh th : appends tid sh (fst (tstep c tid clk sh th)).
Proof.
  unfold tstep. destruct (tpc th) eqn:Epc.
  - apply appends_core. apply (proj1 (begin_op_spec c clk sh th)).
  - cbn [fst snd]. app_tac.
  - destruct (sw sh); [|destruct (0 <? probe_num c)|]; cbn [fst snd]; app_tac.
  - destruct (dl sh <=? clk); cbn [fst snd]; app_tac.
  - destruct (sw sh); cbn [fst snd]; app_tac.
  - cbn [fst snd]. app_tac.
  - destruct (sw sh); cbn [fst snd]; app_tac.
  - cbn [fst snd]. app_tac.
  - destruct (sw sh); [destruct (T <? min_amt c); [|destruct (reached c B T)]|destruct bad|]; cbn [fst snd]; app_tac.
  - destruct (sw sh); cbn [fst snd]; app_tac.
  - cbn [fst snd]. app_tac.
  - destruct ((probe_num c =? 0) || (probe_num c <=? pn sh)); cbn [fst snd]; app_tac.
  - destruct (sw sh); cbn [fst snd]; app_tac.
  - cbn [fst snd]. app_tac.
  - cbn [fst snd]. app_tac.
  - destruct (sw sh); cbn [fst snd]; app_tac.
  - cbn [fst snd]. app_tac.
  - cbn [fst snd]. app_tac.
  - cbn [fst snd]. app_tac.
  - destruct (sw sh); cbn [fst snd]; try (apply appends_core, reset_metric_core). app_tac.
  - cbn [fst snd]. app_tac.
  - cbn [fst snd].
    destruct (reset_metric_core c clk (add_call sh tid (TEv HalfOpen Closed None))) as (_ & _ & _ & E4 & E5 & E6 & _).
    unfold appends. exists [], [LCall tid (TEv HalfOpen Closed None)], []. rewrite E4, E5, E6. proj_simpl. rewrite !app_nil_r.
    repeat split; repeat constructor.
Qed.

(* ---------------------------------------------------------------------------------- *)
(* all schedules                                                                        *)

Lemma exec_app c s1 s2 cf : exec c (s1 ++ s2) cf = exec c s2 (exec c s1 cf).
Proof. unfold exec. apply fold_left_app. Qed.

Lemma thread_at_init c t0 progs tid th :
  thread_at (init_config c t0 progs) tid th -> pending (tpc th) = [] /\ tres th = [] /\
  (match tpc th with T302 _ _ => False | _ => True end).
Proof.
  intros [_ H]. cbn [init_config ths] in H. rewrite nth_error_map in H.
  destruct (nth_error progs (Z.to_nat tid)) as [p|]; [|discriminate]. inversion H; subst.
  unfold init_thread. cbn. destruct p; repeat split.
Qed.

Lemma init_SU c t0 : SU c (init_shared c t0).
Proof.
  unfold SU, probe_adm, probe_rec. cbn. split; [reflexivity|split; [reflexivity|split; [intros a []|split]]].
  - intros _ k e H. destruct k; discriminate H.
  - intros k e H. destruct k; discriminate H.
Qed.

Theorem U_exec c t0 progs sched :
  let cf := exec c sched (init_config c t0 progs) in
  SU c (shd cf) /\ forall tid th, thread_at cf tid th -> LU (shd cf) tid th.
Proof.
  cbv zeta.
  apply (ginv_exec c (fun _ => True) (fun _ sh => SU c sh) (fun _ sh tid th => LU sh tid th)).
  - intros tid clk sh th _ HS HL. apply U_step; assumption.
  - intros dt clk sh _ HS. split; [assumption|auto].
  - intros sl clk sh HS. split; [apply (SU_log c sh); [repeat split|assumption]|].
    intros tid th HL. apply (LU_log sh); [repeat split|assumption].
  - apply sev_okP_true.
  - split; [apply init_SU|]. intros tid th Hat. destruct (thread_at_init _ _ _ _ _ Hat) as (Hp & Hr & _).
    unfold LU. rewrite Hp, Hr. cbn. split; reflexivity.
Qed.

Lemma init_ST c t0 : 0 <= t0 -> ST c t0 (init_shared c t0).
Proof. intros H. unfold ST. cbn. split; [assumption|split; [lia|split; [intros; lia|split; [reflexivity|constructor]]]]. Qed.

Theorem T_exec c t0 progs sched : 0 <= t0 -> Forall sev_ok sched ->
  let cf := exec c sched (init_config c t0 progs) in ST c (clk cf) (shd cf).
Proof.
  intros Ht0 Hok. cbv zeta.
  apply (ginv_exec c (fun dt => 0 <= dt) (ST c) (fun clk sh _ th => LT c clk sh th)).
  - intros tid clk sh th _ HS HL. destruct (T_step c tid clk sh th HS HL) as (H1 & H2 & H3).
    split; [assumption|split; [assumption|]]. intros tid2 th2 _ HL2. exact (LT_frame _ _ _ _ _ H3 HL2).
  - intros dt clk sh Hdt (H1 & H2 & H3 & H4 & H5). split; [unfold ST; repeat split; try assumption; lia|].
    intros _ th. unfold LT. destruct (tpc th); auto. intros (A & B & C). repeat split; try assumption; lia.
  - intros sl clk sh HS. split; [apply (ST_keep c clk sh); [repeat split|assumption]|].
    intros _ th HL. exact HL.
  - apply sev_okP_nonneg; assumption.
  - split; [apply init_ST; assumption|]. intros tid th Hat. destruct (thread_at_init _ _ _ _ _ Hat) as (_ & _ & Hn).
    apply LT_not302. exact Hn.
Qed.

(* log entries carry ids of existing threads *)
Definition tid_ok (n : nat) (tid : Z) : Prop := 0 <= tid < Z.of_nat n.
Definition logs_ok (n : nat) (sh : shared) : Prop :=
  Forall (fun e => tid_ok n (ce_tid e)) (clog sh) /\ Forall (fun k => tid_ok n (lc_tid k)) (llog sh) /\
  Forall (fun a => tid_ok n (ad_tid a)) (admits sh).

Lemma logs_ok_cstep c cf e : logs_ok (length (ths cf)) (shd cf) ->
  length (ths (cstep c cf e)) = length (ths cf) /\ logs_ok (length (ths cf)) (shd (cstep c cf e)).
Proof.
  intros H. destruct e as [tid|dt|sl]; cbn [cstep]; [|split; [reflexivity|exact H]|split; [reflexivity|exact H]].
  destruct (nth_error (ths cf) (Z.to_nat tid)) as [th|] eqn:Eth; [|split; [reflexivity|exact H]].
  destruct (Z.ltb_spec tid 0) as [Hneg|Hpos]; [split; [reflexivity|exact H]|].
  pose proof (tstep_appends c tid (clk cf) (shd cf) th) as Ha.
  destruct (tstep c tid (clk cf) (shd cf) th) as [sh' th']. cbn [fst] in Ha. cbn [ths shd].
  split; [apply upd_nth_length|].
  assert (Hok : tid_ok (length (ths cf)) tid).
  { split; [assumption|]. assert (Z.to_nat tid < length (ths cf))%nat by (apply nth_error_Some; congruence). lia. }
  destruct Ha as (dc & dl & da & E1 & E2 & E3 & F1 & F2 & F3). destruct H as (G1 & G2 & G3).
  unfold logs_ok. rewrite E1, E2, E3. repeat split; apply Forall_app; (split; [assumption|]).
  - eapply Forall_impl; [|exact F1]. intros x ->. exact Hok.
  - eapply Forall_impl; [|exact F2]. intros x ->. exact Hok.
  - eapply Forall_impl; [|exact F3]. intros x ->. exact Hok.
Qed.

Lemma logs_ok_exec c sched cf : logs_ok (length (ths cf)) (shd cf) ->
  length (ths (exec c sched cf)) = length (ths cf) /\ logs_ok (length (ths cf)) (shd (exec c sched cf)).
Proof.
  revert cf; induction sched as [|e r IH]; intros cf H; cbn; [split; [reflexivity|exact H]|].
  destruct (logs_ok_cstep c cf e H) as [Hl Hk]. rewrite <- Hl in Hk. destruct (IH _ Hk) as [A B].
  rewrite Hl in A, B. split; assumption.
Qed.

Lemma cas_of_none tid l : Forall (fun e => ce_tid e <> tid) l -> cas_of tid l = [].
Proof.
  induction 1 as [|e l He _ IH]; [reflexivity|]. unfold cas_of in *. cbn. rewrite IH.
  destruct (Z.eqb_spec (ce_tid e) tid); [contradiction|reflexivity].
Qed.
Lemma calls_of_none tid l : Forall (fun k => lc_tid k <> tid) l -> calls_of tid l = [].
Proof.
  induction 1 as [|e l He _ IH]; [reflexivity|]. unfold calls_of in *. cbn. rewrite IH.
  destruct (Z.eqb_spec (lc_tid e) tid); [contradiction|reflexivity].
Qed.

(* ---- C12_transition_unique ---- *)
Theorem thm_transition_unique c t0 progs sched :
  let cf := exec c sched (init_config c t0 progs) in
  cpath Closed (clog (shd cf)) = Some (sw (shd cf)) /\
  (forall tid th, thread_at cf tid th ->
     cas_of tid (clog (shd cf)) = calls_of tid (llog (shd cf)) ++ pending (tpc th)) /\
  (length (ths cf) = length progs /\ logs_ok (length progs) (shd cf)).
Proof.
  cbv zeta. destruct (U_exec c t0 progs sched) as [(H1 & _) HL]. split; [exact H1|split].
  - intros tid th Hat. exact (proj1 (HL tid th Hat)).
  - assert (Hi : logs_ok (length (ths (init_config c t0 progs))) (shd (init_config c t0 progs))).
    { cbn. repeat split; constructor. }
    destruct (logs_ok_exec c sched _ Hi) as [A B]. cbn [init_config ths] in A, B. rewrite map_length in A, B. split; assumption.
Qed.

(* when every thread has finished: per thread, the listener calls ARE the thread's CAS log *)
Theorem thm_transition_quiescent c t0 progs sched :
  let cf := exec c sched (init_config c t0 progs) in
  all_done cf -> forall tid, cas_of tid (clog (shd cf)) = calls_of tid (llog (shd cf)).
Proof.
  cbv zeta. intros Hd tid. destruct (thm_transition_unique c t0 progs sched) as (_ & H2 & Hlen & (G1 & G2 & _)).
  set (cf := exec c sched (init_config c t0 progs)) in *.
  destruct (Z_lt_le_dec tid 0) as [Hneg|Hpos]; [|destruct (nth_error (ths cf) (Z.to_nat tid)) as [th|] eqn:Eth].
  - rewrite cas_of_none, calls_of_none; [reflexivity| |].
    + eapply Forall_impl; [|exact G2]. intros x [Hx _] Heq. lia.
    + eapply Forall_impl; [|exact G1]. intros x [Hx _] Heq. lia.
  - rewrite (H2 tid th (conj Hpos Eth)).
    assert (Hin : In th (ths cf)) by (eapply nth_error_In; exact Eth).
    unfold all_done in Hd. rewrite Forall_forall in Hd. rewrite (Hd th Hin). cbn. apply app_nil_r.
  - apply nth_error_None in Eth. rewrite Hlen in Eth.
    rewrite cas_of_none, calls_of_none; [reflexivity| |].
    + eapply Forall_impl; [|exact G2]. intros x [_ Hx] Heq. lia.
    + eapply Forall_impl; [|exact G1]. intros x [_ Hx] Heq. lia.
Qed.

(* ---- C12_single_probe ---- *)
Theorem thm_single_probe c t0 progs sched :
  let cf := exec c sched (init_config c t0 progs) in
  probe_num c = 0 -> probe_adm (shd cf).
Proof. cbv zeta. intros Hp. destruct (U_exec c t0 progs sched) as [(_ & _ & _ & H4 & _) _]. exact (H4 Hp). Qed.

(* the admission records are the `true` results *)
Theorem thm_results_admissions c t0 progs sched :
  let cf := exec c sched (init_config c t0 progs) in
  forall tid th, thread_at cf tid th ->
    count_true (tres th) = Z.of_nat (length (adm_of tid (admits (shd cf)))).
Proof. cbv zeta. intros tid th Hat. destruct (U_exec c t0 progs sched) as [_ HL]. exact (proj2 (HL tid th Hat)). Qed.

(* ---- C12_full_timeout (under the freshness hypothesis) ---- *)
Theorem thm_full_timeout c t0 progs sched : 0 <= t0 -> Forall sev_ok sched ->
  let cf := exec c sched (init_config c t0 progs) in
  forall k e, nth_error (clog (shd cf)) k = Some e -> ce_to e = HalfOpen ->
    exists tp fr, In (Adm (ce_tid e) (ce_clk e) Open (Z.of_nat k + 1) tp fr) (admits (shd cf)) /\
      tp = last_opening (firstn k (clog (shd cf))) 0 /\
      (fr = true -> last_opening (firstn k (clog (shd cf))) 0 + retry_ms c <= ce_clk e).
Proof.
  intros Ht0 Hok. cbv zeta. intros k e Hn Ht.
  destruct (U_exec c t0 progs sched) as [(_ & _ & _ & _ & H5) _].
  destruct (T_exec c t0 progs sched Ht0 Hok) as (_ & _ & _ & _ & HF).
  destruct (H5 k e Hn Ht) as (tp & fr & Hin). exists tp, fr. split; [exact Hin|].
  rewrite Forall_forall in HF. destruct (HF _ Hin eq_refl) as (A & B & C & _). cbn in A, B, C.
  replace (Z.to_nat (Z.of_nat k + 1 - 1)) with k in C by lia. split; [exact C|]. intros Hf. specialize (A Hf). rewrite <- C. exact A.
Qed.

(* decidable form of the schedule hypothesis, for concrete schedules *)
Definition sev_okb (e : sev) : bool := match e with Tick dt => 0 <=? dt | _ => true end.
Lemma sev_okb_spec sched : forallb sev_okb sched = true -> Forall sev_ok sched.
Proof.
  induction sched as [|e r IH]; intros H; constructor; cbn in H; apply andb_prop in H; destruct H as [H1 H2].
  - destruct e; cbn in *; try exact I. apply Z.leb_le. exact H1.
  - apply IH. exact H2.
Qed.
Definition all_doneb (cf : config) : bool := forallb (fun th => match tpc th with PDone => true | _ => false end) (ths cf).
Lemma all_doneb_spec cf : all_doneb cf = true -> all_done cf.
Proof.
  unfold all_doneb, all_done. intros H. rewrite forallb_forall in H. apply Forall_forall. intros th Hin.
  specialize (H th Hin). destruct (tpc th); try discriminate. reflexivity.
Qed.
