(* Invariants of the concurrent breaker model, for ALL schedules and any number of threads. *)
From Coq Require Import Floats.
From SG Require Import Base.Prelude Base.GoInt Base.GoFloat Model.Breaker Model.BreakerConc.
#[local] Open Scope Z_scope.

(* ---------- logs ---------- *)
Lemma cas_of_app tid a b : cas_of tid (a ++ b) = cas_of tid a ++ cas_of tid b.
Proof. unfold cas_of. apply flat_map_app. Qed.
Lemma calls_of_app tid a b : calls_of tid (a ++ b) = calls_of tid a ++ calls_of tid b.
Proof. unfold calls_of. apply flat_map_app. Qed.
Lemma cas_of_one_same tid k a b clk : cas_of tid [CEv tid k a b clk] = [(a, b)].
Proof. unfold cas_of. cbn. rewrite Z.eqb_refl. reflexivity. Qed.
Lemma cas_of_one_other tid tid' k a b clk : tid' <> tid -> cas_of tid' [CEv tid k a b clk] = [].
Proof. intros H. unfold cas_of. cbn. destruct (Z.eqb_spec tid tid'); [lia|reflexivity]. Qed.
Lemma calls_of_one_same tid a b s : calls_of tid [LCall tid (TEv a b s)] = [(a, b)].
Proof. unfold calls_of. cbn. rewrite Z.eqb_refl. reflexivity. Qed.
Lemma calls_of_one_other tid tid' e : tid' <> tid -> calls_of tid' [LCall tid e] = [].
Proof. intros H. unfold calls_of. cbn. destruct (Z.eqb_spec tid tid'); [lia|reflexivity]. Qed.

Lemma cpath_app_one s l e : cpath s l = Some (ce_from e) -> edge_ok (ce_from e) (ce_to e) = true ->
  cpath s (l ++ [e]) = Some (ce_to e).
Proof.
  revert s; induction l as [|x l IH]; intros s H He; cbn in *.
  - inversion H; subst. rewrite He. destruct (ce_from e); reflexivity.
  - destruct (bst_eqb (ce_from x) s && edge_ok (ce_from x) (ce_to x)); [apply IH; assumption|discriminate].
Qed.

Lemma last_opening_app l1 l2 d : last_opening (l1 ++ l2) d = last_opening l2 (last_opening l1 d).
Proof. revert d; induction l1 as [|e l IH]; intros d; cbn; [reflexivity|apply IH]. Qed.

Lemma pending_finish th : pending (tpc (finish th)) = [].
Proof. unfold finish. cbn. destruct (tl (tops th)); reflexivity. Qed.
Lemma pending_finish_result th r : pending (tpc (finish (result th r))) = [].
Proof. unfold finish, result. cbn. destruct (tl (tops th)); reflexivity. Qed.

(* ---------- what one thread step does to the shared state ---------- *)

(* the step of thread tid appends only entries of tid to the logs *)
Definition only_tid (tid : Z) (sh sh' : shared) : Prop :=
  forall tid', tid' <> tid ->
    cas_of tid' (clog sh') = cas_of tid' (clog sh) /\ calls_of tid' (llog sh') = calls_of tid' (llog sh).

Ltac break_match :=
  match goal with
  | |- context [match ?x with _ => _ end] => destruct x eqn:?
  | |- context [if ?x then _ else _] => destruct x eqn:?
  end.

Lemma finish_pc th : tpc (finish th) = PDone \/ tpc (finish th) = PBound.
Proof. unfold finish. cbn. destruct (tl (tops th)); auto. Qed.
Lemma finish_not_t302 th : match tpc (finish th) with T302 _ _ => False | _ => True end.
Proof. destruct (finish_pc th) as [-> | ->]; exact I. Qed.

Lemma begin_op_shared c clk sh th :
  let r := begin_op c clk sh th in
  sw (fst r) = sw sh /\ dl (fst r) = dl sh /\ pn (fst r) = pn sh /\ llog (fst r) = llog sh /\ clog (fst r) = clog sh /\
  admits (fst r) = admits sh /\ phase (fst r) = phase sh /\ topen (fst r) = topen sh /\ dtag (fst r) = dtag sh /\
  pending (tpc (snd r)) = [] /\ tres (snd r) = tres th /\
  (match tpc (snd r) with T302 _ _ => False | _ => True end).
Proof.
  cbv zeta. unfold begin_op. destruct (tops th) as [|[b|rt err] ops] eqn:E; cbn [fst snd].
  - cbn. repeat split; reflexivity.
  - cbn. repeat split; reflexivity.
  - destruct (clk <=? 0); cbn [fst snd].
    + rewrite pending_finish. pose proof (finish_not_t302 th). repeat split; auto.
    + destruct (la_current (gn c) (gbl c) clk (csl sh)); cbn [fst snd].
      * cbn. repeat split; reflexivity.
      * rewrite pending_finish. pose proof (finish_not_t302 th). repeat split; auto.
Qed.

Lemma reset_metric_shared c clk sh :
  sw (reset_metric c clk sh) = sw sh /\ dl (reset_metric c clk sh) = dl sh /\ pn (reset_metric c clk sh) = pn sh /\
  llog (reset_metric c clk sh) = llog sh /\ clog (reset_metric c clk sh) = clog sh /\
  admits (reset_metric c clk sh) = admits sh /\ phase (reset_metric c clk sh) = phase sh /\
  topen (reset_metric c clk sh) = topen sh /\ dtag (reset_metric c clk sh) = dtag sh.
Proof. unfold reset_metric. destruct (clk <=? 0); cbn; repeat split; reflexivity. Qed.

Ltac rm_simpl c clk sh :=
  let H := fresh "Hrm" in
  pose proof (reset_metric_shared c clk sh) as H;
  destruct H as (?Hrm1 & ?Hrm2 & ?Hrm3 & ?Hrm4 & ?Hrm5 & ?Hrm6 & ?Hrm7 & ?Hrm8 & ?Hrm9).

Ltac fin_pc := unfold finish, result, with_pc; cbn [tpc tops tres];
  repeat match goal with |- context [match tl ?l with _ => _ end] => destruct (tl l) end.

(* report: per thread, CAS log = listener calls ++ the one not yet reported *)
Lemma tstep_report c tid clk sh th :
  let r := tstep c tid clk sh th in
  only_tid tid sh (fst r) /\
  (cas_of tid (clog sh) = calls_of tid (llog sh) ++ pending (tpc th) ->
   cas_of tid (clog (fst r)) = calls_of tid (llog (fst r)) ++ pending (tpc (snd r))).
Proof.
  unfold only_tid. cbv zeta. unfold tstep.
  destruct (tpc th) eqn:Epc; cbn [pending].
  all: try (pose proof (begin_op_shared c clk sh th) as Hb; cbv zeta in Hb;
            destruct Hb as (_ & _ & _ & Hl & Hc & _ & _ & _ & _ & Hp & _); rewrite Hl, Hc, Hp, ?app_nil_r; auto; fail).
  all: repeat break_match; cbn [fst snd clog llog set_sw set_open set_dl set_pn set_csl add_call add_adm];
       rewrite ?pending_finish, ?pending_finish_result; unfold with_pc; cbn [tpc pending];
       try (match goal with |- context [reset_metric ?c ?k ?s] => rm_simpl c k s; rewrite ?Hrm4, ?Hrm5; cbn [clog llog add_call] end);
       (split; [intros tid' Hne; rewrite ?cas_of_app, ?calls_of_app, ?cas_of_one_other, ?calls_of_one_other, ?app_nil_r by assumption; auto|]);
       intros H; rewrite ?cas_of_app, ?calls_of_app, ?cas_of_one_same, ?calls_of_one_same, ?app_nil_r in *;
       try rewrite H; rewrite <- ?app_assoc, ?app_nil_r; try reflexivity.
  rewrite Epc. cbn. rewrite app_nil_r. reflexivity.
Qed.
