(* Warm-up calculator: facts about the float model that need no real-number reasoning
   (full threshold below the warning line, token drain under sustained demand, stored tokens
   stay in range) and the envelope of the exact-rational twin of the allowed-token curve. *)
From Coq Require Import Floats.
From SG Require Import Base.Prelude Base.GoInt Base.GoFloat Model.WarmUp.
#[local] Open Scope Z_scope.

(* ---------- float model ---------- *)

#[local] Transparent two63.

Lemma wi_id c : 0 <= w_warning c < two63 -> wi c = w_warning c.
Proof. intros H. unfold wi. apply i64_id. unfold in_i64. lia. Qed.

Lemma mi_id c : 0 <= w_max c < two63 -> mi c = w_max c.
Proof. intros H. unfold mi. apply i64_id. unfold in_i64. lia. Qed.

Lemma allowed_full c tokens : w_warning c < two63 -> 0 <= tokens < w_warning c -> allowed_of c tokens = w_thr c.
Proof.
  intros Hr H. unfold allowed_of. rewrite wi_id by lia.
  destruct (tokens <? 0) eqn:E; [lia|].
  destruct (tokens >=? w_warning c) eqn:E2; [lia|reflexivity].
Qed.

Lemma cool_down_le_max c st cur q : 0 <= w_max c < two63 -> cool_down c st cur q <= w_max c.
Proof. intros Hr. unfold cool_down. rewrite (mi_id c Hr). match goal with |- (if ?a <=? ?b then _ else _) <= _ => destruct (a <=? b) eqn:E end; lia. Qed.

Lemma sync_stored_nonneg c st now q : 0 <= stored st -> 0 <= stored (sync_token c st now q).
Proof.
  intro H. unfold sync_token. destruct (now - now mod 1000 <=? last_filled st); [exact H|].
  cbn [stored]. match goal with |- 0 <= (if ?a <? 0 then _ else _) => destruct (a <? 0) eqn:E end; lia.
Qed.

(* tokens consumed by one synchronisation: int64(-passQps) is subtracted *)
Definition consumed (q : float) : Z := - go_i64_of_f (- q)%float.

(* the demand condition under which coolDownTokens adds nothing above the warning line *)
Definition no_refill (c : wcfg) (q : float) : Prop :=
  (q <? f_of_u64 (go_u32_of_f (w_thr c) / w_cf c))%float = false.

(* one second of sustained demand at or above the warning line: the bucket loses exactly the
   previous second's passes (floored at 0) *)
Lemma sync_drain c st now q :
  w_warning c <= stored st <= w_max c -> w_max c < two63 / 2 -> 0 <= w_warning c ->
  last_filled st < now - now mod 1000 ->
  no_refill c q -> 0 <= consumed q < two63 / 2 ->
  stored (sync_token c st now q) = Z.max 0 (stored st - consumed q).
Proof.
  intros Hs Hm Hw Hl Hn Hq. unfold sync_token.
  destruct (now - now mod 1000 <=? last_filled st) eqn:E; [lia|]. cbn [stored].
  assert (Hcd : cool_down c st (now - now mod 1000) q = stored st).
  { unfold cool_down. rewrite wi_id, mi_id by (unfold two63 in *; lia). destruct (stored st <? w_warning c) eqn:E1; [lia|].
    unfold no_refill in Hn. rewrite Hn. destruct (stored st <=? w_max c) eqn:E3; lia. }
  rewrite Hcd. unfold consumed in *.
  assert (Hi : i64 (stored st + go_i64_of_f (- q)%float) = stored st + go_i64_of_f (- q)%float).
  { apply i64_id. unfold in_i64. Transparent two63. unfold two63 in *. lia. }
  rewrite Hi. destruct (stored st + go_i64_of_f (- q)%float <? 0) eqn:E4; lia.
Qed.

(* n consecutive seconds of such demand, each consuming at least one token *)
Fixpoint sustained (c : wcfg) (st : wst) (ds : list (Z * float)) : Prop :=
  match ds with
  | [] => True
  | (now, q) :: r =>
      last_filled st < now - now mod 1000 /\ no_refill c q /\ 1 <= consumed q < two63 / 2 /\
      sustained c (sync_token c st now q) r
  end.

Fixpoint sync_all (c : wcfg) (st : wst) (ds : list (Z * float)) : wst :=
  match ds with [] => st | (now, q) :: r => sync_all c (sync_token c st now q) r end.

(* within (stored - warning + 1) seconds of sustained demand the bucket falls below the
   warning line, where the allowed tokens are the full threshold *)
Lemma sustained_reaches_full c ds : forall st,
  0 < w_warning c -> w_warning c <= stored st <= w_max c -> w_max c < two63 / 2 ->
  sustained c st ds ->
  Z.of_nat (length ds) > stored st - w_warning c ->
  exists k : nat, (k <= length ds)%nat /\
    stored (sync_all c st (firstn k ds)) < w_warning c /\
    allowed_of c (stored (sync_all c st (firstn k ds))) = w_thr c.
Proof.
  induction ds as [|[now q] r IH]; intros st Hw Hs Hm Hsus Hlen.
  - cbn [length] in Hlen. lia.
  - cbn [sustained] in Hsus. destruct Hsus as (Hl & Hn & Hq & Hr).
    pose proof (sync_drain c st now q Hs Hm ltac:(lia) Hl Hn ltac:(lia)) as Hd.
    destruct (Z_lt_le_dec (stored (sync_token c st now q)) (w_warning c)) as [Hlt|Hge].
    + exists 1%nat. cbn [firstn sync_all length]. split; [lia|]. split; [exact Hlt|].
      apply allowed_full; unfold two63 in *; lia.
    + assert (Hs' : w_warning c <= stored (sync_token c st now q) <= w_max c) by lia.
      cbn [length] in Hlen.
      destruct (IH (sync_token c st now q) Hw Hs' Hm Hr ltac:(lia)) as (k & Hk & Hlt & Ha).
      exists (S k). cbn [firstn sync_all length]. split; [lia|]. split; assumption.
Qed.

(* ---------- exact-rational twin of the allowed-token curve ---------- *)

Definition twin_ok (tn td cf W M : Z) : Prop := 0 < tn /\ 0 < td /\ 2 <= cf /\ 0 <= W /\ W < M.

Lemma twin_pos tn td cf W M tokens : twin_ok tn td cf W M ->
  let '(n, d) := allowed_twin tn td cf W M tokens in 0 < n /\ 0 < d.
Proof.
  intros (H1 & H2 & H3 & H4 & H5). unfold allowed_twin.
  destruct (Z.max 0 tokens >=? W) eqn:E; [|split; lia].
  assert (Hx : 0 <= Z.max 0 tokens - W) by lia. set (x := Z.max 0 tokens - W) in *.
  assert (0 <= x * (cf - 1)) by nia. split; nia.
Qed.

(* allowed <= T *)
Lemma twin_le_threshold tn td cf W M tokens : twin_ok tn td cf W M ->
  let '(n, d) := allowed_twin tn td cf W M tokens in n * td <= tn * d.
Proof.
  intros (H1 & H2 & H3 & H4 & H5). unfold allowed_twin.
  destruct (Z.max 0 tokens >=? W) eqn:E; [|lia].
  assert (Hx : 0 <= Z.max 0 tokens - W) by lia. set (x := Z.max 0 tokens - W) in *.
  assert (0 <= x * (cf - 1)) by nia. assert (0 < tn * td) by nia. nia.
Qed.

(* allowed >= T/cf while the bucket holds at most maxToken *)
Lemma twin_ge_cold tn td cf W M tokens : twin_ok tn td cf W M -> tokens <= M ->
  let '(n, d) := allowed_twin tn td cf W M tokens in tn * d <= n * td * cf.
Proof.
  intros (H1 & H2 & H3 & H4 & H5) Ht. unfold allowed_twin.
  destruct (Z.max 0 tokens >=? W) eqn:E; [|nia].
  assert (Hr : 0 <= Z.max 0 tokens - W <= M - W) by lia.
  set (x := Z.max 0 tokens - W) in *. set (D := M - W) in *.
  assert (x * (cf - 1) + D <= D * cf) by nia.
  assert (0 < tn * td) by nia. nia.
Qed.

(* a full bucket gives exactly T/cf *)
Lemma twin_cold tn td cf W M : twin_ok tn td cf W M ->
  let '(n, d) := allowed_twin tn td cf W M M in n * td * cf = tn * d.
Proof.
  intros (H1 & H2 & H3 & H4 & H5). unfold allowed_twin.
  destruct (Z.max 0 M >=? W) eqn:E; [|lia].
  replace (Z.max 0 M) with M by lia. ring.
Qed.

(* below the warning line: exactly T *)
Lemma twin_full tn td cf W M tokens : 0 < W -> tokens < W -> allowed_twin tn td cf W M tokens = (tn, td).
Proof. intros H0 H. unfold allowed_twin. destruct (Z.max 0 tokens >=? W) eqn:E; [lia|reflexivity]. Qed.

(* more stored tokens, lower allowed rate *)
Lemma twin_monotone tn td cf W M t1 t2 : twin_ok tn td cf W M -> t1 <= t2 ->
  let '(n1, d1) := allowed_twin tn td cf W M t1 in let '(n2, d2) := allowed_twin tn td cf W M t2 in
  n2 * d1 <= n1 * d2.
Proof.
  intros (H1 & H2 & H3 & H4 & H5) Ht. unfold allowed_twin.
  destruct (Z.max 0 t1 >=? W) eqn:E1; destruct (Z.max 0 t2 >=? W) eqn:E2; try lia.
  - assert (0 <= Z.max 0 t1 - W <= Z.max 0 t2 - W) by lia.
    set (x1 := Z.max 0 t1 - W) in *. set (x2 := Z.max 0 t2 - W) in *. set (D := M - W) in *.
    assert (x1 * (cf - 1) + D <= x2 * (cf - 1) + D) by nia.
    assert (0 < tn * D * td) by nia. nia.
  - assert (0 <= Z.max 0 t2 - W) by lia.
    set (x2 := Z.max 0 t2 - W) in *. set (D := M - W) in *.
    assert (D <= x2 * (cf - 1) + D) by nia. assert (0 < tn * td) by nia. nia.
Qed.

(* T >= coldFactor: the allowed rate never drops below one token, so a single-token request
   that finds an empty window is admitted *)
Lemma twin_not_starved tn td cf W M tokens : twin_ok tn td cf W M -> tokens <= M -> cf * td <= tn ->
  let '(n, d) := allowed_twin tn td cf W M tokens in d <= n.
Proof.
  intros Hok Ht Hc. pose proof (twin_ge_cold tn td cf W M tokens Hok Ht) as H.
  pose proof (twin_pos tn td cf W M tokens Hok) as Hp.
  destruct (allowed_twin tn td cf W M tokens) as [n d]. destruct Hok as (H1 & H2 & H3 & _). destruct Hp as [Hn Hd].
  (* tn*d <= n*td*cf and cf*td <= tn  ==>  d*(cf*td) <= tn*d <= n*(td*cf) *)
  assert (d * (cf * td) <= n * (td * cf)) by nia.
  assert (0 < cf * td) by nia. nia.
Qed.

(* ---------- concrete witnesses (evaluated on the float model) ---------- *)

(* one request per second for n seconds, starting at t *)
Fixpoint one_per_sec (t : Z) (n : nat) : list (Z * Z) :=
  match n with O => [] | S k => (t, 1) :: one_per_sec (t + 1000) k end.

Definition t_start : Z := 1700000000010.

(* D10: threshold 2 < cold factor 3: 90 seconds of one single-token request per second, none admitted *)
Lemma d10_starved :
  wvalid 2 10 3 = true /\ (1 <=? 2)%float = true /\
  admitted_count (wrun (mk_wcfg 2 10 3) winit (one_per_sec t_start 90)) = 0.
Proof. vm_compute. repeat split; reflexivity. Qed.

(* threshold = cold factor = 5, period 121: the cold rate is 1 in exact arithmetic but the double
   evaluation of 1/(201*slope + 1/5) followed by Nextafter gives 1 - 2^-53 *)
Lemma d10_eq_starved :
  wvalid 5 121 5 = true /\
  (allowed_of (mk_wcfg 5 121 5) (w_max (mk_wcfg 5 121 5)) <? 1)%float = true /\
  admitted_count (wrun (mk_wcfg 5 121 5) winit (one_per_sec t_start 90)) = 0.
Proof. vm_compute. repeat split; reflexivity. Qed.

(* empty token range (warningToken = maxToken): the very first request after an arbitrarily long idle
   time already sees the full threshold, twice threshold/coldFactor *)
Lemma no_cold_phase :
  wvalid 1 1 2 = true /\ w_warning (mk_wcfg 1 1 2) = w_max (mk_wcfg 1 1 2) /\
  let a := snd (calc (mk_wcfg 1 1 2) winit t_start) in
  (1 <=? a)%float = true /\ (a <=? 0.5)%float = false.
Proof. vm_compute. repeat split; reflexivity. Qed.

(* a NaN threshold is not valid any more (/repo 1e1f6ae) ... *)
Lemma nan_threshold_invalid period cf : wvalid nan period cf = false.
Proof. reflexivity. Qed.

(* ... +Inf still is.  Its effective threshold is finite all the same: warningToken = uint64(+Inf) = 2^63 is
   negative as an int64, so the bucket is always "above the warning line", 1/(x*0 + 1/Inf) = +Inf and the
   Nextafter step towards MaxFloat64 returns MaxFloat64: a configured "unlimited" *)
Lemma inf_threshold :
  wvalid infinity 10 3 = true /\
  (snd (calc (mk_wcfg infinity 10 3) winit t_start) =? fmax)%float = true /\
  admitted_count (wrun (mk_wcfg infinity 10 3) winit (repeat (t_start, 1) 30)) = 30.
Proof. vm_compute. repeat split; reflexivity. Qed.

(* the bucket never holds more than maxToken: the refill is capped and the consumption is not negative *)
Lemma sync_stored_le_max c st now q :
  0 <= w_max c < two63 -> stored st <= w_max c -> 0 <= consumed q ->
  in_i64 (cool_down c st (now - now mod 1000) q - consumed q) ->
  stored (sync_token c st now q) <= w_max c.
Proof.
  intros Hm Hs Hq Hi. unfold sync_token.
  destruct (now - now mod 1000 <=? last_filled st); [exact Hs|]. cbn [stored].
  pose proof (cool_down_le_max c st (now - now mod 1000) q Hm) as Hc. unfold consumed in *.
  replace (cool_down c st (now - now mod 1000) q + go_i64_of_f (- q)%float)
    with (cool_down c st (now - now mod 1000) q - - go_i64_of_f (- q)%float) by lia.
  rewrite (i64_id _ Hi).
  match goal with |- (if ?a <? 0 then _ else _) <= _ => destruct (a <? 0) eqn:E end; lia.
Qed.
