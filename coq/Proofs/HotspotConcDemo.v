(* Concrete instance for property C06 (non-vacuity of the hypotheses of the concurrency
   theorems): one resource guarded by two concurrency rules on different argument positions
   (rule 0: position 0, threshold 2, value 6 has the specific threshold 1; rule 1: position 1,
   threshold 1), entries with different values alive together, a refusal, exits out of order. *)
From SG Require Import Base.Prelude Base.GoInt Model.LRU Model.Hotspot
  Proofs.LRUProofs Proofs.HotspotCtrlProofs Proofs.HotspotRunProofs Proofs.HotspotConcProofs.
#[local] Open Scope Z_scope.

Definition c_r0 : rule :=
  {| r_metric := 0; r_behavior := 0; r_idx := 0; r_key := 0; r_thr := 2; r_maxq := 0;
     r_burst := 0; r_dur := 0; r_cap := 3; r_spec := [(6, 1)] |}.
Definition c_r1 : rule :=
  {| r_metric := 0; r_behavior := 0; r_idx := 1; r_key := 0; r_thr := 1; r_maxq := 0;
     r_burst := 0; r_dur := 0; r_cap := 0; r_spec := [] |}.
Definition c_rules (res : Z) : list rule := if res =? 0 then [c_r0; c_r1] else [].
Definition c_K : list Z := [5; 6; 7].
Definition c_q (args : list Z) : req := {| q_args := map Some args; q_atts := []; q_batch := 1 |}.

(* a(5,7) admitted; b(6,7) refused by rule 1 (7 in flight); c(6) admitted; d(5) admitted;
   e(5) refused by rule 0 (two 5 in flight); a exits; f(6,7) refused by rule 0 (6 at its
   specific threshold 1) *)
Definition c_ops : list op :=
  [Enter 0 (c_q [5; 7]); Enter 0 (c_q [6; 7]); Enter 0 (c_q [6]); Enter 0 (c_q [5]);
   Enter 0 (c_q [5]); Exit 0; Enter 0 (c_q [6; 7])].

Lemma c_nodup : NoDup c_K.
Proof. unfold c_K. repeat (constructor; [cbn; intuition lia|]). constructor. Qed.

Lemma c_caps : forall res, caps_fit c_K (c_rules res).
Proof.
  intros res r Hin _. unfold c_rules in Hin. destruct (res =? 0); [|destruct Hin].
  destruct Hin as [<-|[<-|[]]]; vm_compute; intros H; discriminate H.
Qed.

Lemma nth_some_in (args : list Z) : forall i k, nth i (map Some args) None = Some k -> In k args.
Proof.
  induction args as [|a rest IH]; intros i k Hi; [destruct i; discriminate|].
  destruct i as [|i]; cbn in Hi; [inversion Hi; left; reflexivity|right; eauto].
Qed.

Lemma c_req_in args : Forall (fun a => In a c_K) args -> forall res, req_in c_K (c_rules res) (c_q args).
Proof.
  intros Hargs res r Hin _ k Hk. unfold c_rules in Hin. destruct (res =? 0); [|destruct Hin].
  assert (Hnth : forall i, nth i (map Some args) None = Some k -> In k c_K /\ real_key k).
  { intros i Hi. pose proof (nth_some_in args i k Hi) as Hk'.
    rewrite Forall_forall in Hargs. specialize (Hargs k Hk'). split; [exact Hargs|].
    unfold c_K, real_key, NaNBase in *. cbn in Hargs. lia. }
  destruct Hin as [<-|[<-|[]]]; unfold extract, extract_att, extract_idx in Hk; cbn [r_key r_idx c_r0 c_r1 q_atts q_args c_q] in Hk;
    cbn [Z.eqb] in Hk;
    repeat match type of Hk with context [if ?c then _ else _] => destruct c; try discriminate end;
    eapply Hnth; eauto.
Qed.

Lemma c_ops_in : Forall (op_in c_K c_rules) c_ops.
Proof.
  unfold c_ops. repeat (constructor; [first [exact I | apply c_req_in; repeat (constructor; [cbn; lia|]); constructor]|]).
  constructor.
Qed.

Lemma c_len : Z.of_nat (length c_ops) + 1 < two62.
Proof. vm_compute. reflexivity. Qed.

Lemma c_run :
  snd (run c_rules true (init 0) c_ops) =
    [OPass []; OBlock 1 (Some 2) []; OPass []; OPass []; OBlock 0 (Some 3) []; ONone; OBlock 0 (Some 2) []] /\
  map m_conc (metrics_of c_rules (reach c_rules true 0 c_ops) 0) = [[(6, 1); (5, 1)]; [(7, 0)]] /\
  map fst (s_live (reach c_rules true 0 c_ops)) = [3; 2].
Proof. vm_compute. repeat split; reflexivity. Qed.

(* the next request: (5) is admitted (one 5 in flight, threshold 2), (6) is not *)
Lemma c_next :
  snd (step c_rules true (reach c_rules true 0 c_ops) (Enter 0 (c_q [5]))) = OPass [] /\
  snd (step c_rules true (reach c_rules true 0 c_ops) (Enter 0 (c_q [6]))) = OBlock 0 (Some 2) [].
Proof. vm_compute. split; reflexivity. Qed.

Lemma c_all_conc : Forall (fun r => is_conc r = true) (c_rules 0).
Proof. repeat constructor. Qed.

(* entry 3 (value 5) is live in the reached state *)
Lemma c_live3 : alookup 3 (s_live (reach c_rules true 0 c_ops)) = Some (0, c_q [5]).
Proof. vm_compute. reflexivity. Qed.
