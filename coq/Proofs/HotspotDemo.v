(* Concrete instances for property C05: non-vacuity of the hypotheses of the controller-level
   theorems (a reject-mode and a throttling-mode history over two values that meet [guard] /
   [tguard_all], [fits], [calls_ok] and contain admissions, rejections and waits), and the
   witnesses of the two recorded findings (C05-F1 spacing truncated to whole ms, C05-F2 int64
   overflow of elapsed*threshold). *)
From SG Require Import Base.Prelude Base.GoInt Model.LRU Model.Hotspot
  Proofs.LRUProofs Proofs.HotspotBucketProofs Proofs.HotspotCtrlProofs Proofs.HotspotEnvProofs
  Proofs.HotspotThrottleProofs Proofs.HotspotRunProofs.
#[local] Open Scope Z_scope.

Ltac nodup := repeat (constructor; [cbn; intuition lia|]); constructor.
Ltac allcalls := repeat (constructor; [cbn; unfold real_key, NaNBase; intuition lia|]); constructor.

(* ---- reject mode: threshold 2 (+1 burst) per second, value 5 has the specific threshold 3 ---- *)

Definition d_rule : rule :=
  {| r_metric := 1; r_behavior := 0; r_idx := 0; r_key := 0; r_thr := 2; r_maxq := 0;
     r_burst := 1; r_dur := 1; r_cap := 2; r_spec := [(6, 1)] |}.
Definition d_K : list Z := [5; 6].
Definition d_t0 : Z := 1700000000000.
Definition d_tmax : Z := 1700000100000.
Definition d_calls : list (Z * Z * Z) :=
  [(d_t0, 5, 1); (d_t0, 6, 1); (d_t0 + 1, 5, 1); (d_t0 + 1, 6, 1); (d_t0 + 2, 5, 1); (d_t0 + 3, 5, 1);
   (d_t0 + 3, 6, 1); (d_t0 + 400, 5, 1)].

Lemma d_guard5 : guard d_rule 5 d_t0 d_tmax.
Proof. unfold guard, two62, d_t0, d_tmax. cbn. lia. Qed.
Lemma d_guard6 : guard d_rule 6 d_t0 d_tmax.
Proof. unfold guard, two62, d_t0, d_tmax. cbn. lia. Qed.
Lemma d_fits : fits d_rule d_K d_calls.
Proof. unfold fits, d_K, d_calls. split; [nodup|]. split; [cbn; lia|]. allcalls. Qed.
Lemma d_calls_ok : calls_ok d_t0 d_tmax d_calls.
Proof. unfold d_calls, d_t0, d_tmax, batch_max. cbn [calls_ok]. unfold batch_max. lia. Qed.
Lemma d_run : snd (ctrl_run d_rule metric0 d_calls) =
  [DPass; DPass; DPass; DPass; DPass; DBlock None; DBlock None; DBlock None].
Proof. vm_compute. reflexivity. Qed.
Lemma d_in5 : In 5 d_K. Proof. left; reflexivity. Qed.
Lemma d_T5 : 0 < tok_count d_rule 5. Proof. cbn. lia. Qed.

(* an idle request: value 5 again 1001 ms after its last request *)
Definition d_idle : Z * Z * Z := (d_t0 + 1401, 5, 2).
Lemma d_fits_idle : fits d_rule d_K (d_calls ++ [d_idle]).
Proof. unfold fits, d_K, d_calls, d_idle. split; [nodup|]. split; [cbn; lia|]. cbn [app]. allcalls. Qed.
Lemma d_calls_ok_idle : calls_ok d_t0 d_tmax (d_calls ++ [d_idle]).
Proof. unfold d_calls, d_idle, d_t0, d_tmax, batch_max. cbn [calls_ok app]. unfold batch_max. lia. Qed.
Lemma d_idle_gap : r_dur d_rule * 1000 < d_t0 + 1401 - last_time d_t0 (proj 5 d_calls).
Proof. unfold d_t0. cbn. lia. Qed.

(* ---- throttling mode: 4 per second (250 ms apart), max queueing 600 ms ------------------------ *)

Definition t_rule : rule :=
  {| r_metric := 1; r_behavior := 1; r_idx := 0; r_key := 0; r_thr := 4; r_maxq := 600;
     r_burst := 0; r_dur := 1; r_cap := 2; r_spec := [] |}.
Definition t_calls : list (Z * Z * Z) :=
  [(d_t0, 5, 1); (d_t0, 6, 1); (d_t0, 5, 1); (d_t0, 5, 1); (d_t0, 5, 1); (d_t0 + 10, 6, 2); (d_t0 + 2000, 5, 1)].

Lemma t_guard : tguard_all t_rule d_K d_t0 d_tmax.
Proof.
  intros k _. unfold tguard, batch_max, two53, two40, two61, d_t0, d_tmax. cbn. lia.
Qed.
Lemma t_fits : fits t_rule d_K t_calls.
Proof. unfold fits, d_K, t_calls. split; [nodup|]. split; [cbn; lia|]. allcalls. Qed.
Lemma t_calls_ok : calls_ok d_t0 d_tmax t_calls.
Proof. unfold t_calls, d_t0, d_tmax, batch_max. cbn [calls_ok]. unfold batch_max. lia. Qed.
Lemma t_run : snd (thr_run t_rule metric0 t_calls) =
  [DPass; DPass; DWait 250000000; DWait 500000000; DBlock None; DWait 490000000; DPass].
Proof. vm_compute. reflexivity. Qed.

(* ---- finding C05-F2: elapsed ms * threshold overflows int64, the idle value is refused ---------- *)

Definition f2_rule : rule :=
  {| r_metric := 1; r_behavior := 0; r_idx := 0; r_key := 0; r_thr := 9000000000000000; r_maxq := 0;
     r_burst := 0; r_dur := 1; r_cap := 0; r_spec := [] |}.
Definition f2_calls : list (Z * Z * Z) := [(d_t0, 5, 1)].
Definition f2_idle : Z * Z * Z := (d_t0 + 1025, 5, 1).

Lemma f2_witness :
  fits f2_rule [5] (f2_calls ++ [f2_idle]) /\ calls_ok d_t0 d_tmax (f2_calls ++ [f2_idle]) /\
  0 < tok_count f2_rule 5 /\ 1 <= tok_count f2_rule 5 /\
  r_dur f2_rule * 1000 < d_t0 + 1025 - last_time d_t0 (proj 5 f2_calls) /\
  last (snd (ctrl_run f2_rule metric0 (f2_calls ++ [f2_idle]))) DSpin = DBlock None.
Proof.
  split.
  { unfold fits, f2_calls, f2_idle. split; [nodup|]. split; [vm_compute; discriminate|]. cbn [app]. allcalls. }
  split; [unfold f2_calls, f2_idle, d_t0, d_tmax, batch_max; cbn [calls_ok app]; unfold batch_max; lia|].
  split; [cbn; lia|]. split; [cbn; lia|]. split; [unfold d_t0; cbn; lia|].
  vm_compute. reflexivity.
Qed.

(* ---- finding C05-F1: 2000 per second is paced at 0 ms ------------------------------------------- *)

Lemma f1_hyps :
  tguard_all f1_rule [5] 1700000000000 1700000100000 /\ fits f1_rule [5] f1_calls /\
  calls_ok 1700000000000 1700000100000 f1_calls.
Proof.
  split; [intros k _; unfold tguard, batch_max, two53, two40, two61; cbn; lia|].
  split; [unfold fits, f1_calls; split; [nodup|]; split; [vm_compute; discriminate|]; allcalls|].
  unfold f1_calls, batch_max. cbn [calls_ok]. unfold batch_max. lia.
Qed.

(* ---- the public-API model reaches states with stored tokens ------------------------------------- *)

Definition api_rules (res : Z) : list rule := if res =? 0 then [d_rule] else [].
Definition api_ops : list op :=
  [Enter 0 {| q_args := [Some 5]; q_atts := []; q_batch := 1 |};
   Enter 0 {| q_args := [Some 5]; q_atts := []; q_batch := 1 |}].
Lemma api_demo :
  batches_nonneg api_ops /\
  map m_tok (metrics_of api_rules (fst (run api_rules true (init 0) api_ops)) 0) = [[(5, 1)]] /\
  snd (run api_rules true (init 0) api_ops) = [OPass []; OPass []].
Proof. split; [repeat constructor; cbn; lia|]. vm_compute. split; reflexivity. Qed.
