(* Lemmas about Model/LeapArrayConc.v: invariants proved by induction over schedules. *)
From SG Require Import Base.Prelude Base.GoInt Model.LeapArrayConc.

(* ------------------------------------------------------------------------------------ *)
(* generic list facts *)

Lemma nth_upd_nth_cases {A} (i j : nat) (f : A -> A) (l : list A) (d : A) :
  (i = j /\ (j < length l)%nat /\ nth i (upd_nth j f l) d = f (nth j l d)) \/
  ((i <> j \/ (length l <= j)%nat) /\ nth i (upd_nth j f l) d = nth i l d).
Proof.
  destruct (Nat.eq_dec i j) as [->|Hne].
  - destruct (Nat.lt_ge_cases j (length l)) as [Hlt|Hge].
    + left. repeat split; auto. apply nth_upd_nth_same; auto.
    + right. split; [right; auto|].
      revert j Hge. induction l as [|x r IH]; intros [|j] Hge; cbn in *; auto; try lia. apply IH. lia.
  - right. split; [left; auto|]. apply nth_upd_nth_other. auto.
Qed.

Lemma nth_error_upd_nth_same {A} n (f : A -> A) l x :
  nth_error l n = Some x -> nth_error (upd_nth n f l) n = Some (f x).
Proof. revert n; induction l as [|y r IH]; intros [|n] H; cbn in *; try discriminate; auto. inversion H; auto. Qed.

Lemma nth_error_upd_nth_other {A} n m (f : A -> A) l : n <> m -> nth_error (upd_nth n f l) m = nth_error l m.
Proof. revert n m; induction l as [|y r IH]; intros [|n] [|m] H; cbn in *; try lia; auto. Qed.

Lemma Forall_upd_nth {A} (P : A -> Prop) n (f : A -> A) l :
  Forall P l -> (forall x, nth_error l n = Some x -> P (f x)) -> Forall P (upd_nth n f l).
Proof.
  revert n; induction l as [|y r IH]; intros n HF Hx; destruct n; cbn; auto; inversion HF; subst; constructor; auto.
Qed.

Lemma Forall_nth_error {A} (P : A -> Prop) l n x : Forall P l -> nth_error l n = Some x -> P x.
Proof. intros HF Hn. rewrite Forall_forall in HF. apply HF. eapply nth_error_In; eauto. Qed.

Lemma sumZ_cons x l : sumZ (x :: l) = x + sumZ l.
Proof. reflexivity. Qed.
Lemma sumZ_nil : sumZ [] = 0.
Proof. reflexivity. Qed.

Lemma sumZ_map_upd_nth {A} (w : A -> Z) n (f : A -> A) l x :
  nth_error l n = Some x -> sumZ (map w (upd_nth n f l)) = sumZ (map w l) - w x + w (f x).
Proof.
  revert n; induction l as [|y r IH]; intros [|n] H; cbn [map upd_nth nth_error] in *; try discriminate.
  - inversion H; subst. rewrite !sumZ_cons. lia.
  - specialize (IH _ H). rewrite !sumZ_cons. lia.
Qed.

(* ------------------------------------------------------------------------------------ *)
(* ghost sums *)

Definition adds_nonneg (l : list addrec) : Prop := Forall (fun r => 0 <= a_amt r) l.

Lemma Esum_app p l r : Esum p (l ++ [r]) = Esum p l + amt_if p r.
Proof. unfold Esum. rewrite map_app, sumZ_app. cbn [map]. rewrite sumZ_cons, sumZ_nil. lia. Qed.

Lemma Esum_nonneg p l : adds_nonneg l -> 0 <= Esum p l.
Proof.
  intros H. unfold Esum. apply sumZ_nonneg. rewrite Forall_map. eapply Forall_impl; [|exact H].
  intros a Ha. cbn beta in Ha. unfold amt_if. destruct (p a); lia.
Qed.

Lemma Esum_mono p q l : adds_nonneg l -> (forall r, p r = true -> q r = true) -> Esum p l <= Esum q l.
Proof.
  intros H Hpq. induction H as [|a l Ha _ IH]; unfold Esum in *; cbn [map]; [lia|].
  rewrite !sumZ_cons. unfold amt_if at 1 3. specialize (Hpq a).
  cbn beta in Ha. destruct (p a); destruct (q a); try lia; try (specialize (Hpq eq_refl); discriminate).
Qed.

Lemma Esum_split p q u l :
  (forall r, amt_if p r + amt_if q r = amt_if u r) -> Esum p l + Esum q l = Esum u l.
Proof.
  intros H. induction l as [|a l IH]; unfold Esum in *; cbn [map]; [reflexivity|].
  rewrite !sumZ_cons. specialize (H a). lia.
Qed.

Definition all_adds (r : addrec) : bool := true.

(* ------------------------------------------------------------------------------------ *)
(* how one thread step changes things: the shape of tstep *)

Definition exec_pcs_rt (p : pc) : bool := match p with PRtLoad | PRtStore => true | _ => false end.

(* amounts this thread may still add *)
Definition pend (t : thread) : Z :=
  ops_amt (t_ops t) - (if exec_pcs_rt (t_pc t) then op_amt (hd (ORead 0) (t_ops t)) else 0).
Definition pending (ts : list thread) : Z := sumZ (map pend ts).

Definition ops_nonneg (t : thread) : Prop := Forall op_nonneg (t_ops t).

Lemma ops_amt_cons o l : ops_amt (o :: l) = op_amt o + ops_amt l.
Proof. unfold ops_amt. cbn [map]. apply sumZ_cons. Qed.

Ltac break_if :=
  match goal with
  | H : context [if ?b then _ else _] |- _ => destruct b eqn:?
  | H : context [match t_acc ?t with _ => _ end] |- _ => let ai := fresh "ai" in let aseen := fresh "aseen" in let arest := fresh "arest" in destruct (t_acc t) as [|[ai aseen] arest] eqn:Eacc
  end.

Ltac inv_pair :=
  match goal with H : (?a, ?b) = (?c, ?d) |- _ =>
    let H1 := fresh "He" in let H2 := fresh "Ht" in
    assert (H1 : c = a) by congruence; assert (H2 : d = b) by congruence; clear H; subst c; subst d end.

(* case analysis of  tstep g tid s t = (e, t') *)
Ltac tstep_inv H t :=
  unfold tstep in H;
  let o := fresh "o" in let ops := fresh "ops" in
  destruct (t_ops t) as [|o ops] eqn:Eops; [inv_pair|];
  destruct (t_pc t) eqn:Epc; try destruct o; repeat break_if; try inv_pair.

Lemma tstep_ops g tid s t e t' : tstep g tid s t = (e, t') -> ops_nonneg t -> ops_nonneg t'.
Proof.
  intros H Hn. unfold ops_nonneg in *.
  assert (Htl : Forall op_nonneg (tl (t_ops t))) by (destruct (t_ops t); cbn; auto; inversion Hn; auto).
  tstep_inv H t; unfold after_cb, vloop, next_op, set_pc in *; cbn in *; rewrite ?Eops in *; cbn in *;
    repeat (match goal with |- context [if ?b then _ else _] => destruct b | |- context [match ?x with _ => _ end] => destruct x end; cbn in *);
    rewrite ?Eops; auto.
Qed.

Lemma exec_pcs_rt_start ops : exec_pcs_rt (start_pc ops) = false.
Proof. destruct ops; reflexivity. Qed.

Lemma tstep_pend g tid s t e t' :
  tstep g tid s t = (e, t') -> ops_nonneg t ->
  match e with
  | EAdd r => pend t' = pend t - a_amt r /\ 0 <= a_amt r
  | _ => pend t' <= pend t
  end.
Proof.
  intros H Hn. unfold ops_nonneg in Hn.
  tstep_inv H t; unfold pend, after_cb, vloop, next_op, set_pc in *; cbn in *; rewrite ?Eops, ?Epc in *; cbn in *;
    try (inversion Hn as [|? ? Ho Hr]; subst; unfold op_nonneg in Ho; cbn in Ho);
    rewrite ?exec_pcs_rt_start;
    repeat (match goal with |- context [if ?b then _ else _] => destruct b eqn:? | |- context [match ?x with _ => _ end] => destruct x eqn:? end; cbn in *);
    rewrite ?ops_amt_cons; cbn; rewrite ?exec_pcs_rt_start in *; try discriminate; try lia.
Qed.

(* the ghost logs only grow, by the thread's own records *)
Lemma tstep_adds_shape g tid s t e t' :
  tstep g tid s t = (e, t') ->
  match e with
  | EAdd r => exists k a, hd_error (t_ops t) = Some (ORecord k a) /\ a_kind r = k /\ a_amt r = a /\ t_pc t = PAdd
              /\ a_slot r = bidx g (t_now t) /\ a_start r = s_start (nth (bidx g (t_now t)) (slots s) dslot)
              /\ a_own r = bstart g (t_now t) /\ a_tid r = tid
  | _ => True
  end.
Proof.
  intros H. tstep_inv H t; auto; cbn; rewrite ?Eops; cbn; eauto 12.
Qed.

(* ------------------------------------------------------------------------------------ *)
(* C09_no_invention *)

Local Transparent two63 two64.
Lemma two63_pos : 0 < two63. Proof. unfold two63. lia. Qed.
Lemma i64_add_small a b : 0 <= a + b < two63 -> i64_add a b = a + b.
Proof. intros H. unfold i64_add. apply i64_id. unfold in_i64. pose proof two63_pos. lia. Qed.
Local Opaque two63 two64.

Lemma apply_eff_adds e s : adds (apply_eff e s) = match e with EAdd r => adds s ++ [r] | _ => adds s end.
Proof. destruct e; reflexivity. Qed.
Lemma apply_eff_reads e s : reads (apply_eff e s) = match e with ERet r => reads s ++ [r] | _ => reads s end.
Proof. destruct e; reflexivity. Qed.
Lemma apply_eff_clock e s : clock (apply_eff e s) = clock s.
Proof. destruct e; reflexivity. Qed.

Definition cnt_bound (s : shared) : Prop :=
  forall i k, 0 <= cntv (nth i (slots s) dslot) k <= Esum (on_slot_kind i k) (adds s).

Lemma on_slot_kind_all i k r : on_slot_kind i k r = true -> all_adds r = true.
Proof. reflexivity. Qed.

Lemma cnt_bound_eff e s :
  cnt_bound s -> adds_nonneg (adds s) ->
  (forall r, e = EAdd r -> 0 <= a_amt r /\ Esum all_adds (adds s) + a_amt r < two63) ->
  cnt_bound (apply_eff e s).
Proof.
  intros Hc Hn Hadd i k. specialize (Hc i k).
  destruct e; cbn [apply_eff set_slots slots adds]; auto.
  - destruct (nth_upd_nth_cases i i0 (slot_set_start v) (slots s) dslot) as [(-> & _ & ->)|(_ & ->)]; auto.
  - destruct (nth_upd_nth_cases i i0 (slot_zero k0) (slots s) dslot) as [(-> & _ & ->)|(_ & ->)]; auto.
    unfold cntv, slot_zero; cbn [s_cnt].
    destruct (nth_upd_nth_cases k k0 (fun _ : Z => 0) (s_cnt (nth i0 (slots s) dslot)) 0) as [(-> & _ & ->)|(_ & ->)]; auto.
    split; [lia|]. apply Esum_nonneg; auto.
  - destruct (nth_upd_nth_cases i i0 (slot_set_minrt v) (slots s) dslot) as [(-> & _ & ->)|(_ & ->)]; auto.
  - destruct (nth_upd_nth_cases i i0 (slot_set_maxc v) (slots s) dslot) as [(-> & _ & ->)|(_ & ->)]; auto.
  - destruct (Hadd r eq_refl) as [Ha Hb]. rewrite Esum_app.
    assert (Hamt : 0 <= amt_if (on_slot_kind i k) r) by (unfold amt_if; destruct (on_slot_kind i k r); lia).
    destruct (nth_upd_nth_cases i (a_slot r) (slot_add (a_kind r) (a_amt r)) (slots s) dslot) as [(-> & _ & ->)|(_ & ->)]; [|lia].
    unfold cntv, slot_add; cbn [s_cnt].
    destruct (nth_upd_nth_cases k (a_kind r) (fun c => i64_add c (a_amt r)) (s_cnt (nth (a_slot r) (slots s) dslot)) 0) as [(-> & _ & ->)|(_ & ->)];
      [|unfold cntv in Hc; lia].
    unfold cntv in Hc.
    assert (Hle : Esum (on_slot_kind (a_slot r) (a_kind r)) (adds s) <= Esum all_adds (adds s)) by (apply Esum_mono; auto).
    rewrite i64_add_small by lia.
    assert (Heq : amt_if (on_slot_kind (a_slot r) (a_kind r)) r = a_amt r)
      by (unfold amt_if, on_slot_kind; rewrite !Nat.eqb_refl; reflexivity).
    rewrite Heq. lia.
Qed.

Fixpoint incr (lo : nat) (l : list (nat * Z)) : Prop :=
  match l with [] => True | (i, _) :: r => (lo <= i)%nat /\ incr (S i) r end.

Lemma incr_weaken lo lo' l : (lo' <= lo)%nat -> incr lo l -> incr lo' l.
Proof. destruct l as [|[i w] r]; cbn; auto. intros H [H1 H2]. split; auto. lia. Qed.

Lemma incr_tail lo i w r : incr lo ((i, w) :: r) -> incr (S i) r.
Proof. cbn. tauto. Qed.

Lemma incr_app lo l j w : incr lo l -> Forall (fun p => (fst p < j)%nat) l -> (lo <= j)%nat -> incr lo (l ++ [(j, w)]).
Proof.
  revert lo. induction l as [|[i x] r IH]; intros lo Hi Hf Hlo; cbn [incr app] in *; auto.
  destruct Hi as [H1 H2]. inversion Hf as [|? ? Hx Hy]; subst. cbn [fst] in Hx. split; auto; apply IH; auto; lia.
Qed.

Definition Ebound (acc : list (nat * Z)) (k : nat) (l : list addrec) : Z :=
  match acc with [] => Esum (on_kind k) l | (i, _) :: _ => Esum (below_kind i k) l end.

Definition pre_sum (p : pc) : bool := match p with PSum | PRet => false | _ => true end.

Definition reader_ok (l : list addrec) (t : thread) : Prop :=
  match t_ops t with
  | ORead k :: _ =>
      incr 0 (t_acc t) /\ 0 <= t_sum t <= Ebound (t_acc t) k l /\
      (pre_sum (t_pc t) = true -> t_sum t = 0 /\ Forall (fun p => (fst p < t_i t)%nat) (t_acc t))
  | _ => True
  end.

Lemma Ebound_nonneg acc k l : adds_nonneg l -> 0 <= Ebound acc k l.
Proof. intros. destruct acc as [|[i w] r]; cbn; apply Esum_nonneg; auto. Qed.

Lemma Ebound_le_kind acc k l : adds_nonneg l -> Ebound acc k l <= Esum (on_kind k) l.
Proof.
  intros. destruct acc as [|[i w] r]; cbn; [lia|]. apply Esum_mono; auto.
  intros a. unfold below_kind, on_kind. intros Hb. apply andb_prop in Hb. tauto.
Qed.

Lemma Ebound_grow acc k l r : 0 <= a_amt r -> Ebound acc k l <= Ebound acc k (l ++ [r]).
Proof.
  intros Ha. destruct acc as [|[i w] rest]; cbn; rewrite Esum_app; unfold amt_if;
    match goal with |- context [if ?b then _ else _] => destruct b end; lia.
Qed.

Lemma reader_ok_grow l r t : 0 <= a_amt r -> reader_ok l t -> reader_ok (l ++ [r]) t.
Proof.
  intros Ha. unfold reader_ok. destruct (t_ops t) as [|[k a|k] ops]; auto.
  intros (H1 & H2 & H3). pose proof (Ebound_grow (t_acc t) k l r Ha).
  split; auto. split; [lia|]. exact H3.
Qed.

Lemma below_step i k r : amt_if (below_kind i k) r + amt_if (on_slot_kind i k) r = amt_if (below_kind (S i) k) r.
Proof.
  unfold amt_if, below_kind, on_slot_kind.
  destruct (Nat.eqb (a_kind r) k); rewrite ?andb_true_r, ?andb_false_r; [|lia].
  destruct (Nat.ltb_spec (a_slot r) i); destruct (Nat.eqb_spec (a_slot r) i); destruct (Nat.ltb_spec (a_slot r) (S i)); lia.
Qed.

Lemma below_le_Ebound i k rest l : adds_nonneg l -> incr (S i) rest -> Esum (below_kind (S i) k) l <= Ebound rest k l.
Proof.
  intros Hn Hi. destruct rest as [|[j w] r]; cbn in *.
  - apply Esum_mono; auto. intros a. unfold below_kind, on_kind. intros Hb. apply andb_prop in Hb. tauto.
  - apply Esum_mono; auto. intros a. unfold below_kind. intros Hb. apply andb_prop in Hb. destruct Hb as [Hb1 Hb2].
    rewrite Hb2, andb_true_r. apply Nat.ltb_lt in Hb1. apply Nat.ltb_lt. lia.
Qed.

Lemma kind_le_all k l : adds_nonneg l -> Esum (on_kind k) l <= Esum all_adds l.
Proof. intros. apply Esum_mono; auto. Qed.

Lemma vloop_ops g t : t_ops (vloop g t) = t_ops t.
Proof. unfold vloop. destruct (_ <? _)%nat; [|destruct (t_acc t)]; reflexivity. Qed.

(* the stepping thread keeps its reader invariant (w.r.t. the log before the step) *)
Lemma reader_ok_own g tid s t e t' :
  tstep g tid s t = (e, t') ->
  cnt_bound s -> adds_nonneg (adds s) -> Esum all_adds (adds s) < two63 ->
  reader_ok (adds s) t -> reader_ok (adds s) t'.
Proof.
  intros H Hc Hn Hlt Hr.
  assert (Hfresh : forall ops rets nw, reader_ok (adds s)
     {| t_ops := ops; t_pc := start_pc ops; t_now := nw; t_i := 0; t_acc := []; t_sum := 0; t_rets := rets |}).
  { intros ops rets nw. unfold reader_ok. cbn. destruct ops as [|[k a|k] ops]; auto.
    repeat split; auto; try lia. apply Esum_nonneg; auto. }
  unfold reader_ok in Hr.
  tstep_inv H t; rewrite ?Eops in Hr; unfold after_cb, next_op; rewrite ?Eops; cbn [tl];
    try apply Hfresh; try exact I;
    try (unfold reader_ok; rewrite vloop_ops; cbn [t_ops]; exact I);
    try (unfold reader_ok, set_pc; cbn [t_ops t_pc t_acc t_sum t_i]; rewrite ?Eops; rewrite ?Epc in *; cbn [pre_sum] in *;
         first [ exact Hr | exact I | idtac ]);
    try (destruct Hr as (H1 & H2 & H3); repeat split; auto; try lia; try (intros; discriminate); try (apply H3; reflexivity);
         try (apply Esum_nonneg; auto); fail).
  - (* PVStart, expired *)
    destruct Hr as (H1 & H2 & H3). destruct (H3 eq_refl) as [Hs Hf].
    assert (Hfa : Forall (fun p => (fst p < S (t_i t))%nat) (t_acc t)).
    { eapply Forall_impl; [|exact Hf]. cbn. intros; lia. }
    unfold vloop; cbn [t_i t_acc].
    destruct (S (t_i t) <? g_n g)%nat; [|destruct (t_acc t) eqn:Eacc]; unfold reader_ok, set_pc; cbn [t_ops t_pc t_acc t_sum t_i]; rewrite ?Eacc;
      repeat split; auto; try lia; try (intros; discriminate).
  - (* PVStart, selected *)
    destruct Hr as (H1 & H2 & H3). destruct (H3 eq_refl) as [Hs Hf].
    set (acc' := t_acc t ++ [(t_i t, s_start (nth (t_i t) (slots s) dslot))]).
    assert (Hinc : incr 0 acc') by (apply incr_app; auto; lia).
    assert (Hfa : Forall (fun p => (fst p < S (t_i t))%nat) acc').
    { apply Forall_app. split. eapply Forall_impl; [|exact Hf]. cbn. intros; lia. constructor; auto. }
    assert (Hb : 0 <= t_sum t <= Ebound acc' kind (adds s)).
    { rewrite Hs. split; [lia|]. apply Ebound_nonneg; auto. }
    unfold vloop; cbn [t_i t_acc].
    destruct (S (t_i t) <? g_n g)%nat; [|destruct acc' eqn:Eacc]; unfold reader_ok, set_pc; cbn [t_ops t_pc t_acc t_sum t_i];
      repeat split; auto; try lia; try (intros; discriminate).
  - (* PSum with nothing selected: unreachable, harmless *)
    rewrite Eacc. exact Hr.
  - (* PSum, last *)
    destruct Hr as (H1 & H2 & H3). apply incr_tail in H1.
    cbn [Ebound] in H2.
    pose proof (Hc ai kind) as Hcn.
    pose proof (Esum_split _ _ _ (adds s) (below_step ai kind)) as Hsp.
    pose proof (below_le_Ebound ai kind [] (adds s) Hn H1) as Hle.
    pose proof (Ebound_le_kind [] kind (adds s) Hn) as Hk.
    pose proof (kind_le_all kind (adds s) Hn) as Ha.
    rewrite i64_add_small by lia.
    repeat split; try lia; try (intros; discriminate).
  - (* PSum, more *)
    destruct Hr as (H1 & H2 & H3). apply incr_tail in H1.
    cbn [Ebound] in H2.
    pose proof (Hc ai kind) as Hcn.
    pose proof (Esum_split _ _ _ (adds s) (below_step ai kind)) as Hsp.
    pose proof (below_le_Ebound ai kind _ (adds s) Hn H1) as Hle.
    match goal with |- context [Ebound ?a _ _] => pose proof (Ebound_le_kind a kind (adds s) Hn) as Hk end.
    pose proof (kind_le_all kind (adds s) Hn) as Ha.
    rewrite i64_add_small by lia.
    repeat split; try lia; try (intros; discriminate).
    eapply incr_weaken; [|exact H1]. lia.
Qed.

Lemma pend_nonneg t : ops_nonneg t -> 0 <= pend t.
Proof.
  unfold ops_nonneg, pend. intros H. destruct (t_ops t) as [|o ops]; cbn [hd].
  - unfold ops_amt. cbn. destruct (exec_pcs_rt (t_pc t)); cbn; lia.
  - rewrite ops_amt_cons. inversion H as [|? ? Ho Hr]; subst. unfold op_nonneg in Ho.
    assert (0 <= ops_amt ops).
    { unfold ops_amt. apply sumZ_nonneg. rewrite Forall_map. exact Hr. }
    destruct (exec_pcs_rt (t_pc t)); lia.
Qed.

Lemma pending_nonneg ts : Forall ops_nonneg ts -> 0 <= pending ts.
Proof.
  intros H. unfold pending. apply sumZ_nonneg. rewrite Forall_map. eapply Forall_impl; [|exact H].
  intros t Ht. apply pend_nonneg; auto.
Qed.

Lemma pending_ge ts tid t : Forall ops_nonneg ts -> nth_error ts tid = Some t -> pend t <= pending ts.
Proof.
  revert tid. induction ts as [|x r IH]; intros [|tid] HF Hn; cbn in Hn; try discriminate;
    inversion HF as [|? ? Hx Hr]; subst; unfold pending in *; cbn [map]; rewrite sumZ_cons.
  - inversion Hn; subst. pose proof (pending_nonneg r Hr). unfold pending in *. lia.
  - specialize (IH _ Hr Hn). pose proof (pend_nonneg x Hx). lia.
Qed.

Lemma tstep_ret_shape g tid s t e t' :
  tstep g tid s t = (e, t') ->
  match e with
  | ERet r => hd_error (t_ops t) = Some (ORead (r_kind r)) /\ r_total r = t_sum t /\ t_pc t = PRet /\ r_tid r = tid /\ r_now r = t_now t
  | _ => True
  end.
Proof. intros H. tstep_inv H t; auto; cbn; rewrite ?Eops; cbn; auto. Qed.

Record Inv1 (TOT : Z) (c : config) : Prop := {
  i1_cnt : cnt_bound (sh c);
  i1_nonneg : adds_nonneg (adds (sh c));
  i1_ops : Forall ops_nonneg (thr c);
  i1_budget : Esum all_adds (adds (sh c)) + pending (thr c) <= TOT;
  i1_readers : Forall (reader_ok (adds (sh c))) (thr c);
  i1_reads : Forall (fun r => r_total r <= Esum (on_kind (r_kind r)) (adds (sh c))) (reads (sh c))
}.

Lemma step_inv1 g TOT c e : TOT < two63 -> Inv1 TOT c -> Inv1 TOT (step g c e).
Proof.
  intros HT [Hc Hn Ho Hb Hr Hrd]. destruct e as [tid|dt]; cbn [step].
  - destruct (nth_error (thr c) tid) as [t|] eqn:Et; [|constructor; auto].
    destruct (tstep g tid (sh c) t) as [e t'] eqn:Est.
    pose proof (Forall_nth_error _ _ _ _ Ho Et) as Hot.
    pose proof (Forall_nth_error _ _ _ _ Hr Et) as Hrt.
    pose proof (tstep_pend _ _ _ _ _ _ Est Hot) as Hp.
    pose proof (tstep_ops _ _ _ _ _ _ Est Hot) as Hot'.
    pose proof (pend_nonneg _ Hot') as Hp'.
    pose proof (pending_ge _ _ _ Ho Et) as Hge.
    pose proof (pending_nonneg _ Ho) as Hpn.
    assert (Hall : Esum all_adds (adds (sh c)) < two63) by lia.
    assert (Hadd : forall r, e = EAdd r -> 0 <= a_amt r /\ Esum all_adds (adds (sh c)) + a_amt r < two63).
    { intros r ->. destruct Hp as [Hp1 Hp2]. split; auto. lia. }
    pose proof (reader_ok_own _ _ _ _ _ _ Est Hc Hn Hall Hrt) as Hown.
    constructor; cbn [sh thr].
    + apply cnt_bound_eff; auto.
    + rewrite apply_eff_adds. destruct e; auto. apply Forall_app; split; auto. constructor; auto. apply (Hadd r eq_refl).
    + apply Forall_upd_nth; auto.
    + rewrite apply_eff_adds. unfold pending in *. rewrite (sumZ_map_upd_nth pend tid _ _ t Et).
      destruct e; cbn beta iota in Hp; try lia. rewrite Esum_app. change (amt_if all_adds r) with (a_amt r). lia.
    + rewrite apply_eff_adds. apply Forall_upd_nth.
      * eapply Forall_impl; [|exact Hr]. intros x Hx. destruct e; auto. apply reader_ok_grow; auto. apply (Hadd r eq_refl).
      * intros x Hx. destruct e; auto. apply reader_ok_grow; auto. apply (Hadd r eq_refl).
    + rewrite apply_eff_reads, apply_eff_adds.
      pose proof (tstep_ret_shape _ _ _ _ _ _ Est) as Hrs.
      destruct e; auto.
      * eapply Forall_impl; [|exact Hrd]. intros x Hx. cbn beta in *. rewrite Esum_app.
        destruct (Hadd r eq_refl) as [Ha _]. unfold amt_if. destruct (on_kind (r_kind x) r); lia.
      * apply Forall_app; split; auto. constructor; auto.
        destruct Hrs as (Hh & Ht & _). unfold reader_ok in Hrt.
        destruct (t_ops t) as [|[k a|k] ops]; cbn in Hh; try discriminate. inversion Hh; subst k.
        destruct Hrt as (_ & H2 & _). pose proof (Ebound_le_kind (t_acc t) (r_kind r) _ Hn). lia.
  - constructor; cbn [sh thr tick adds reads slots]; auto.
Qed.

Lemma exec_inv1 g TOT sched c : TOT < two63 -> Inv1 TOT c -> Inv1 TOT (exec g sched c).
Proof.
  intros HT. revert c. induction sched as [|e r IH]; intros c Hc; cbn; auto. apply IH. apply step_inv1; auto.
Qed.

Definition progs_nonneg (progs : list (list op)) : Prop := Forall (Forall op_nonneg) progs.

Lemma nth_map_seq_default {A} (f : nat -> A) n i d : (n <= i)%nat -> nth i (map f (seq 0 n)) d = d.
Proof. intros H. apply nth_overflow. rewrite map_length, seq_length. lia. Qed.

Lemma nth_repeat0 k m : nth k (repeat 0 m) 0 = 0.
Proof. destruct (nth_in_or_default k (repeat 0 m) 0) as [H|H]; auto. apply repeat_spec in H. auto. Qed.

Lemma cntv_init g t0 i k : cntv (nth i (map (init_slot g t0) (seq 0 (g_n g))) dslot) k = 0.
Proof.
  destruct (Nat.lt_ge_cases i (g_n g)).
  - rewrite nth_indep with (d' := init_slot g t0 0) by (rewrite map_length, seq_length; auto).
    rewrite map_nth. unfold cntv, init_slot; cbn [s_cnt]. apply nth_repeat0.
  - rewrite nth_map_seq_default by auto. unfold cntv; cbn. destruct k; reflexivity.
Qed.

Lemma init_inv1 g t0 progs : progs_nonneg progs -> Inv1 (total_amt progs) (init g t0 progs).
Proof.
  intros Hp. constructor; cbn [init sh thr init_shared adds reads slots].
  - intros i k. cbn [init sh init_shared slots adds]. rewrite cntv_init. unfold Esum; cbn. lia.
  - constructor.
  - rewrite Forall_map. eapply Forall_impl; [|exact Hp]. intros ops Ho. exact Ho.
  - unfold Esum, pending, total_amt. cbn [map]. rewrite sumZ_nil, map_map.
    assert (Heq : map (fun x => pend (init_thread x)) progs = map ops_amt progs).
    { apply map_ext. intros ops. unfold pend, init_thread; cbn [t_ops t_pc]. rewrite exec_pcs_rt_start. lia. }
    rewrite Heq. lia.
  - rewrite Forall_map. rewrite Forall_forall. intros ops _. unfold reader_ok, init_thread; cbn.
    destruct ops as [|[k a|k] ops]; auto. repeat split; auto; try lia; unfold Esum; cbn; lia.
  - constructor.
Qed.

(* C09_no_invention *)
Lemma no_invention g t0 progs sched :
  progs_nonneg progs -> total_amt progs < two63 ->
  let c := exec g sched (init g t0 progs) in
  Forall (fun r => r_total r <= Esum (on_kind (r_kind r)) (adds (sh c))) (reads (sh c)).
Proof.
  intros Hp HT c. apply (i1_reads (total_amt progs)). apply exec_inv1; auto. apply init_inv1; auto.
Qed.
