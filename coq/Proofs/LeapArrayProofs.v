(* C08 core: for every geometry, every monotone history and every read instant, what the
   leap array / a window view reports equals the merge of the recorded events that fall in
   the bucket-aligned window.  Generic in the payload monoid. *)
From SG Require Import Base.Prelude Base.GoInt Model.LeapArray.

Definition two62' : Z := 4611686018427387904.

Lemma two62_two32_lt_two63 : two62' + two32 < two63.
Proof. Transparent two32 two63. unfold two62', two32, two63. lia. Qed.
Lemma two63_lt_two64 : two63 + two63 = two64.
Proof. Transparent two63 two64. unfold two63, two64. lia. Qed.
Lemma two32_pos : 0 < two32. Proof. Transparent two32. unfold two32. lia. Qed.
Lemma two62_pos : 0 < two62'. Proof. unfold two62'. lia. Qed.
#[global] Opaque two32 two63 two64.

Lemma mul_neg_le k x : k < 0 -> 0 < x -> k * x <= - x. Proof. nia. Qed.
Lemma mul_pos_ge k x : 0 < k -> 0 < x -> x <= k * x. Proof. nia. Qed.

Lemma nth_map_seq {A} (f : nat -> A) m k d : (k < m)%nat -> nth k (map f (seq 0 m)) d = f k.
Proof.
  intros. rewrite nth_indep with (d' := f 0%nat) by (rewrite map_length, seq_length; lia).
  rewrite map_nth. rewrite seq_nth by lia. reflexivity.
Qed.

Section G.
Context {M : Type}.
Variable op : M -> M -> M.
Variable e : M.
Hypothesis op_assoc : forall a b c, op a (op b c) = op (op a b) c.
Hypothesis op_comm : forall a b, op a b = op b a.
Hypothesis e_idem : op e e = e.

Variable n : Z.   (* sample count *)
Variable bl : Z.  (* bucket length *)
Hypothesis Hn : 0 < n.
Hypothesis Hbl : 0 < bl.
Notation itv := (n * bl).
Notation bs := (bstart bl).
Notation idx := (tidx n bl).
Notation ref := (ref op e).

(* ---------- normal forms ---------- *)
Definition norm (x : M) : Prop := op e x = x.

Lemma norm_e : norm e. Proof. exact e_idem. Qed.
Lemma norm_op x a : norm x -> norm (op x a).
Proof. unfold norm; intros H. rewrite op_assoc, H. reflexivity. Qed.
Lemma norm_op_l a x : norm x -> norm (op a x).
Proof. intros H. rewrite op_comm. apply norm_op; exact H. Qed.
Lemma op_e_r x : norm x -> op x e = x.
Proof. unfold norm; intros H. rewrite op_comm. exact H. Qed.

(* ---------- arithmetic facts ---------- *)
Lemma bs_le t : bs t <= t. Proof. unfold bstart. pose proof (Z.mod_pos_bound t bl Hbl). lia. Qed.
Lemma bs_lt t : t < bs t + bl. Proof. unfold bstart. pose proof (Z.mod_pos_bound t bl Hbl). lia. Qed.
Lemma bs_div t : bs t = bl * (t / bl). Proof. unfold bstart. rewrite Z.mod_eq by lia. lia. Qed.
Lemma bs_mono a b : a <= b -> bs a <= bs b.
Proof. intros. rewrite !bs_div. apply Z.mul_le_mono_nonneg_l; [lia|]. apply Z.div_le_mono; lia. Qed.
Lemma idx_range t : 0 <= idx t < n. Proof. apply Z.mod_pos_bound; lia. Qed.
Lemma bs_bucket t s : s mod bl = 0 -> s <= t < s + bl -> bs t = s.
Proof.
  intros Hs Ht. apply Z.mod_divide in Hs; [|lia]. destruct Hs as [q ->].
  rewrite bs_div. assert (t / bl = q); [|subst; lia].
  symmetry. apply Z.div_unique with (r := t - q*bl); lia.
Qed.
Lemma bs_aligned t : bs t mod bl = 0.
Proof. rewrite bs_div. rewrite Z.mul_comm. apply Z.mod_mul. lia. Qed.
Lemma bs_bs t : bs (bs t) = bs t.
Proof. apply bs_bucket; [apply bs_aligned|]. lia. Qed.
Lemma idx_bs t : idx (bs t) = idx t.
Proof. unfold tidx. f_equal. rewrite bs_div. rewrite Z.mul_comm. apply Z.div_mul. lia. Qed.
Lemma bs_nonneg t : 0 <= t -> 0 <= bs t.
Proof. intros. rewrite bs_div. apply Z.mul_nonneg_nonneg; [lia|]. apply Z.div_pos; lia. Qed.

Lemma same_idx_diff s1 s2 :
  s1 mod bl = 0 -> s2 mod bl = 0 -> idx s1 = idx s2 -> exists k, s2 - s1 = k * itv.
Proof.
  intros H1 H2 Hi. apply Z.mod_divide in H1; [|lia]. apply Z.mod_divide in H2; [|lia].
  destruct H1 as [q1 ->]. destruct H2 as [q2 ->]. unfold tidx in Hi.
  rewrite !Z.div_mul in Hi by lia.
  assert ((q2 - q1) mod n = 0).
  { rewrite Zminus_mod, Hi, Z.sub_diag. apply Z.mod_0_l. lia. }
  apply Z.mod_divide in H; [|lia]. destruct H as [k Hk]. exists k. nia.
Qed.

Lemma aligned_lt_le a b : a mod bl = 0 -> b mod bl = 0 -> a < b -> a + bl <= b.
Proof.
  intros Ha Hb Hlt. apply Z.mod_divide in Ha; [|lia]. apply Z.mod_divide in Hb; [|lia].
  destruct Ha as [x ->]. destruct Hb as [y ->]. assert (x < y) by nia. nia.
Qed.

Lemma idx_shift t k : idx (t + k * bl) = (idx t + k) mod n.
Proof. unfold tidx. rewrite Z.div_add by lia. rewrite Zplus_mod_idemp_l. reflexivity. Qed.

Lemma aligned_shift a k : a mod bl = 0 -> (a + k * bl) mod bl = 0.
Proof. intros. rewrite Z.mod_add by lia. assumption. Qed.

(* ---------- big merges over slot indices ---------- *)
Definition bigr (f : Z -> M) (a k : nat) : M :=
  fold_right (fun i acc => op (f (Z.of_nat i)) acc) e (seq a k).
Definition big (f : Z -> M) (k : nat) : M := bigr f 0 k.

Lemma bigr_0 f a : bigr f a 0 = e. Proof. reflexivity. Qed.
Lemma bigr_S f a k : bigr f a (S k) = op (f (Z.of_nat a)) (bigr f (S a) k). Proof. reflexivity. Qed.

Lemma bigr_norm f a k : norm (bigr f a k).
Proof. revert a; induction k as [|k IH]; intros a; [apply norm_e|]. rewrite bigr_S. apply norm_op_l. apply IH. Qed.

Lemma bigr_ext f g a k :
  (forall i, Z.of_nat a <= i < Z.of_nat a + Z.of_nat k -> f i = g i) -> bigr f a k = bigr g a k.
Proof.
  revert a; induction k as [|k IH]; intros a H; [reflexivity|]. rewrite !bigr_S.
  rewrite H by lia. f_equal. apply IH. intros; apply H; lia.
Qed.

Lemma bigr_e f a k :
  (forall i, Z.of_nat a <= i < Z.of_nat a + Z.of_nat k -> f i = e) -> bigr f a k = e.
Proof.
  revert a; induction k as [|k IH]; intros a H; [reflexivity|]. rewrite bigr_S.
  rewrite H by lia. rewrite IH by (intros; apply H; lia). apply e_idem.
Qed.

Lemma bigr_op f g a k : bigr (fun i => op (f i) (g i)) a k = op (bigr f a k) (bigr g a k).
Proof.
  revert a; induction k as [|k IH]; intros a; [rewrite !bigr_0; symmetry; apply e_idem|].
  rewrite !bigr_S. rewrite IH. set (F := bigr f (S a) k). set (G := bigr g (S a) k).
  set (x := f (Z.of_nat a)). set (y := g (Z.of_nat a)).
  rewrite <- !op_assoc. f_equal. rewrite !op_assoc. f_equal. apply op_comm.
Qed.

Lemma bigr_single f a k i0 :
  Z.of_nat a <= i0 < Z.of_nat a + Z.of_nat k ->
  (forall i, Z.of_nat a <= i < Z.of_nat a + Z.of_nat k -> i <> i0 -> f i = e) ->
  bigr f a k = op (f i0) e.
Proof.
  revert a; induction k as [|k IH]; intros a Hi H; [lia|]. rewrite bigr_S.
  destruct (Z.eq_dec i0 (Z.of_nat a)) as [->|Hne].
  - f_equal. apply bigr_e. intros; apply H; lia.
  - rewrite H by lia. rewrite IH; [|lia|intros; apply H; lia].
    apply norm_op_l. apply norm_e.
Qed.

(* merging a list of slots through a payload function *)
Definition lmerge (g : gslot -> M) (l : list (@gslot M)) : M := fold_right (fun s acc => op (g s) acc) e l.

Lemma lmerge_norm g l : norm (lmerge g l).
Proof. induction l; cbn; [apply norm_e|apply norm_op_l; assumption]. Qed.

Lemma merge_filter P (l : list (@gslot M)) :
  g_merge op e (filter P l) = lmerge (fun s => if P s then snd s else e) l.
Proof.
  induction l as [|s r IH]; [reflexivity|].
  cbn [filter lmerge fold_right]. fold (lmerge (fun s => if P s then snd s else e) r).
  destruct (P s).
  - unfold g_merge in *. cbn [fold_right]. rewrite IH. reflexivity.
  - rewrite IH. symmetry. apply lmerge_norm.
Qed.

Lemma lmerge_bigr g (l : list (@gslot M)) a :
  lmerge g l = bigr (fun i => g (nth (Z.to_nat i - a) l (0, e))) a (length l).
Proof.
  revert a; induction l as [|s r IH]; intros a; [reflexivity|].
  cbn [lmerge fold_right length]. rewrite bigr_S.
  rewrite Nat2Z.id, Nat.sub_diag. cbn [nth]. f_equal. fold (lmerge g r). rewrite (IH (S a)). apply bigr_ext.
  intros i Hi. replace (Z.to_nat i - a)%nat with (S (Z.to_nat i - S a)) by lia. reflexivity.
Qed.

Lemma lmerge_big g (l : list (@gslot M)) :
  lmerge g l = big (fun i => g (slot_at e l i)) (length l).
Proof.
  unfold big. rewrite (lmerge_bigr g l 0). apply bigr_ext. intros i Hi. unfold slot_at.
  rewrite Nat.sub_0_r. reflexivity.
Qed.

(* ---------- ref ---------- *)
Lemma ref_norm p lo hi : norm (ref p lo hi).
Proof.
  induction p as [|[t a] p IH]; cbn [LeapArray.ref]; [apply norm_e|].
  destruct ((lo <=? t) && (t <? hi)); [apply norm_op_l|]; assumption.
Qed.

Lemma ref_app p q lo hi : ref (p ++ q) lo hi = op (ref p lo hi) (ref q lo hi).
Proof.
  induction p as [|[t a] p IH]; cbn [LeapArray.ref app].
  - symmetry. apply ref_norm.
  - destruct ((lo <=? t) && (t <? hi)); rewrite IH; [apply op_assoc|reflexivity].
Qed.

Lemma ref_empty_if p lo hi : (forall t a, In (t,a) p -> ~ (lo <= t < hi)) -> ref p lo hi = e.
Proof.
  induction p as [|[t a] p IH]; intros H; cbn [LeapArray.ref]; [reflexivity|].
  rewrite IH by (intros; eapply H; right; eassumption).
  destruct (Z.leb_spec lo t), (Z.ltb_spec t hi); cbn; try reflexivity.
  exfalso. eapply (H t a); [left; reflexivity|lia].
Qed.

(* ---------- invariant ---------- *)
Definition Inv (t0 : Z) (l : list (@gslot M)) (p : list (@gev M)) (tl : Z) : Prop :=
  0 < t0 <= tl /\ length l = Z.to_nat n /\
  (forall t a, In (t,a) p -> t0 <= t <= tl) /\
  forall i, 0 <= i < n ->
    let s := slot_at e l i in
    fst s mod bl = 0 /\ idx (fst s) = i /\
    snd s = ref p (fst s) (fst s + bl) /\
    (forall t a, In (t,a) p -> idx t = i -> bs t <= fst s) /\
    fst s <= bs tl + (n-1)*bl /\
    (bs tl < fst s -> fst s < bs t0 + itv) /\
    bs t0 <= fst s.

Lemma slot_at_layout now i : 0 <= i < n ->
  slot_at e (g_layout e n bl now) i = (bs now + ((i - idx now) mod n) * bl, e).
Proof.
  intros Hi. unfold slot_at, g_layout.
  rewrite nth_map_seq by lia. rewrite Z2Nat.id by lia. reflexivity.
Qed.

Lemma Inv_init t0 : 0 < t0 -> Inv t0 (g_layout e n bl t0) [] t0.
Proof.
  intros Ht0. split; [lia|]. split; [unfold g_layout; rewrite map_length, seq_length; reflexivity|].
  split; [intros ? ? []|]. intros i Hi. rewrite slot_at_layout by assumption. cbn [fst snd].
  pose proof (Z.mod_pos_bound (i - idx t0) n Hn) as Hm.
  repeat split.
  - rewrite Z.mod_add by lia. apply bs_aligned.
  - rewrite idx_shift, idx_bs. rewrite Zplus_mod_idemp_r.
    replace (idx t0 + (i - idx t0)) with i by lia. apply Z.mod_small; lia.
  - intros ? ? [].
  - nia.
  - intros _. nia.
  - nia.
Qed.

Lemma slot_at_upd_same (l : list (@gslot M)) i f : 0 <= i < Z.of_nat (length l) ->
  slot_at e (upd_nth (Z.to_nat i) f l) i = f (slot_at e l i).
Proof. intros. unfold slot_at. apply nth_upd_nth_same. lia. Qed.

Lemma slot_at_upd_other (l : list (@gslot M)) i j f : 0 <= i -> 0 <= j -> i <> j ->
  slot_at e (upd_nth (Z.to_nat i) f l) j = slot_at e l j.
Proof. intros. unfold slot_at. apply nth_upd_nth_other. lia. Qed.

(* under monotone time the "time is behind" branch is unreachable *)
Lemma never_behind t0 l p tl now :
  Inv t0 l p tl -> tl <= now -> fst (slot_at e l (idx now)) <= bs now.
Proof.
  intros (H0 & Hlen & Hev & H) Hle. pose proof (idx_range now) as Hr.
  destruct (H _ Hr) as (Ha & Hi & _ & _ & Hd & _ & _).
  destruct (Z_le_gt_dec (fst (slot_at e l (idx now))) (bs now)) as [|Hgt]; [assumption|exfalso].
  destruct (same_idx_diff (bs now) (fst (slot_at e l (idx now)))) as [k Hk];
    [apply bs_aligned|assumption|rewrite idx_bs; symmetry; assumption|].
  pose proof (bs_mono _ _ Hle).
  assert (0 < k) by nia. nia.
Qed.

Lemma current_some t0 l p tl now :
  Inv t0 l p tl -> tl <= now ->
  exists l', g_current e n bl l now = Some l' /\ Inv t0 l' p now /\ fst (slot_at e l' (idx now)) = bs now.
Proof.
  intros HI Hle. pose proof HI as (H0 & Hlen & Hev & H). pose proof (idx_range now) as Hr.
  pose proof (never_behind _ _ _ _ _ HI Hle) as Hnb.
  pose proof (bs_mono _ _ Hle) as Hbm.
  unfold g_current. destruct (Z.leb_spec now 0) as [|_]; [lia|].
  destruct (Z.eqb_spec (bs now) (fst (slot_at e l (idx now)))) as [Heq|Hne].
  - exists l. split; [reflexivity|]. split; [|symmetry; assumption].
    split; [lia|]. split; [assumption|]. split; [intros t a Hin; specialize (Hev _ _ Hin); lia|].
    intros i Hi. destruct (H _ Hi) as (Ha & Hix & Hc & Hb & Hd & He & Hf).
    repeat split; try assumption; [nia|]. intros. apply He. lia.
  - destruct (Z.ltb_spec (fst (slot_at e l (idx now))) (bs now)) as [Hlt|Hge]; [|lia].
    eexists. split; [reflexivity|].
    assert (Hlen' : 0 <= idx now < Z.of_nat (length l)) by (rewrite Hlen, Z2Nat.id; lia).
    split; [|rewrite slot_at_upd_same by assumption; reflexivity].
    split; [lia|]. split; [rewrite upd_nth_length; assumption|].
    split; [intros t a Hin; specialize (Hev _ _ Hin); lia|].
    intros i Hi. destruct (Z.eq_dec i (idx now)) as [->|Hni].
    + rewrite slot_at_upd_same by assumption. cbn [fst snd].
      destruct (H _ Hr) as (Ha & Hix & Hc & Hb & Hd & He & Hf).
      repeat split.
      * apply bs_aligned.
      * apply idx_bs.
      * symmetry. apply ref_empty_if. intros t a Hin Ht.
        assert (bs t = bs now) by (apply bs_bucket; [apply bs_aligned|lia]).
        assert (idx t = idx now) by (rewrite <- (idx_bs t), <- (idx_bs now); congruence).
        specialize (Hb _ _ Hin H2). lia.
      * intros t a Hin _. specialize (Hev _ _ Hin). apply bs_mono. lia.
      * nia.
      * lia.
      * apply bs_mono. lia.
    + rewrite slot_at_upd_other by lia.
      destruct (H _ Hi) as (Ha & Hix & Hc & Hb & Hd & He & Hf).
      repeat split; try assumption; [nia|]. intros. apply He. lia.
Qed.

Lemma Inv_add t0 l p tl t a :
  Inv t0 l p tl -> tl <= t -> Inv t0 (g_add op e n bl l t a) (p ++ [(t,a)]) t.
Proof.
  intros HI Hle. destruct (current_some _ _ _ _ _ HI Hle) as (l' & Hc' & HI' & Hcur).
  unfold g_add. rewrite Hc'. destruct HI' as (H0 & Hlen & Hev & H). pose proof (idx_range t) as Hr.
  assert (Hlen' : 0 <= idx t < Z.of_nat (length l')) by (rewrite Hlen, Z2Nat.id; lia).
  split; [lia|]. split; [rewrite upd_nth_length; assumption|]. split.
  { intros t1 a1 Hin. apply in_app_or in Hin. destruct Hin as [Hin|[Heq|[]]].
    - apply Hev in Hin. lia. - inversion Heq; subst. lia. }
  intros i Hi. destruct (Z.eq_dec i (idx t)) as [->|Hne].
  - rewrite slot_at_upd_same by assumption. cbn [fst snd].
    destruct (H _ Hr) as (Ha & Hix & Hc & Hb & Hd & He & Hf). rewrite Hcur in *.
    split; [assumption|]. split; [apply idx_bs|]. split; [|split; [|repeat split; assumption]].
    + rewrite ref_app, Hc. cbn [LeapArray.ref]. pose proof (bs_le t). pose proof (bs_lt t).
      destruct (Z.leb_spec (bs t) t), (Z.ltb_spec t (bs t + bl)); cbn [andb]; try lia.
      rewrite op_assoc. symmetry. apply op_e_r. apply norm_op. apply ref_norm.
    + intros t1 a1 Hin Hidx. apply in_app_or in Hin. destruct Hin as [Hin|[Heq|[]]].
      * eapply Hb; eassumption. * inversion Heq; subst. lia.
  - rewrite slot_at_upd_other by lia.
    destruct (H _ Hi) as (Ha & Hix & Hc & Hb & Hd & He & Hf).
    split; [assumption|]. split; [assumption|]. split; [|split; [|repeat split; assumption]].
    + rewrite ref_app, Hc. cbn [LeapArray.ref].
      destruct (Z.leb_spec (fst (slot_at e l' i)) t), (Z.ltb_spec t (fst (slot_at e l' i) + bl)); cbn [andb];
        try (symmetry; apply op_e_r; apply ref_norm).
      exfalso. assert (bs t = fst (slot_at e l' i)) by (apply bs_bucket; [assumption|lia]).
      apply Hne. rewrite <- Hix, <- H3. apply idx_bs.
    + intros t1 a1 Hin Hidx. apply in_app_or in Hin. destruct Hin as [Hin|[Heq|[]]].
      * eapply Hb; eassumption. * inversion Heq; subst. congruence.
Qed.

Lemma Inv_run t0 h : forall l p tl, Inv t0 l p tl -> mono tl h ->
  Inv t0 (g_run op e n bl l h) (p ++ h) (last_t tl h).
Proof.
  induction h as [|[t a] h IH]; intros l p tl HI Hm; cbn [g_run last_t].
  - rewrite app_nil_r. exact HI.
  - destruct Hm as [Hle Hm]. change (p ++ (t,a) :: h) with (p ++ ([(t,a)] ++ h)).
    rewrite app_assoc. apply IH; [apply (Inv_add _ _ _ tl); assumption|assumption].
Qed.


(* ---------- reads ---------- *)

(* time range in which the code's uint64 arithmetic does not wrap *)
Hypothesis Hitv : itv < two32.

Lemma u64_sub_spec a b : 0 <= a < two63 -> 0 <= b < two63 ->
  u64 (a - b) = if b <=? a then a - b else a - b + two64.
Proof.
  intros Ha Hb. pose proof two63_lt_two64. unfold u64. destruct (Z.leb_spec b a).
  - apply Z.mod_small. lia.
  - symmetry. apply Z.mod_unique with (q := -1); lia.
Qed.

Lemma deprecated_spec now ws :
  0 <= now < two63 -> 0 <= ws < two63 ->
  g_deprecated n bl now ws = true <-> (now < ws \/ itv <= now - ws).
Proof.
  intros Hnow Hws. unfold g_deprecated. rewrite u64_sub_spec by assumption.
  pose proof two63_lt_two64. pose proof two62_two32_lt_two63. pose proof two62_pos.
  rewrite Z.leb_le. destruct (Z.leb_spec ws now); split; intros; lia.
Qed.

Lemma itv_pos : 0 < itv. Proof. apply Z.mul_pos_pos; assumption. Qed.
Lemma itv_minus : (n - 1) * bl = itv - bl. Proof. ring. Qed.

(* starts kept by the invariant are far below 2^63 *)
Lemma start_range t0 l p tl i : Inv t0 l p tl -> tl < two62' -> 0 <= i < n ->
  0 <= fst (slot_at e l i) < two63.
Proof.
  intros (H0 & Hlen & Hev & H) Htl Hi. destruct (H _ Hi) as (Ha & Hix & Hc & Hb & Hd & He & Hf).
  pose proof (bs_nonneg t0 ltac:(lia)). pose proof (bs_le tl). rewrite itv_minus in Hd.
  pose proof two62_two32_lt_two63. lia.
Qed.

Lemma u64_small x : 0 <= x < two63 -> u64 x = x.
Proof. intros. pose proof two63_lt_two64. apply Z.mod_small. lia. Qed.

(* the window bucket that slot i stands for at time now *)
Definition wslot (now i : Z) := bs now - ((idx now - i) mod n) * bl.

Lemma wslot_facts now i : 0 <= i < n ->
  wslot now i mod bl = 0 /\ idx (wslot now i) = i /\
  bs now + bl - itv <= wslot now i /\ wslot now i <= bs now.
Proof.
  intros Hi. unfold wslot. pose proof (Z.mod_pos_bound (idx now - i) n Hn) as Hm.
  repeat split.
  - replace (bs now - (idx now - i) mod n * bl) with (bs now + (- ((idx now - i) mod n)) * bl) by lia.
    rewrite Z.mod_add by lia. apply bs_aligned.
  - replace (bs now - (idx now - i) mod n * bl) with (bs now + (- ((idx now - i) mod n)) * bl) by lia.
    rewrite idx_shift, idx_bs.
    replace (idx now + - ((idx now - i) mod n)) with (idx now - (idx now - i) mod n) by lia.
    rewrite Zminus_mod_idemp_r. replace (idx now - (idx now - i)) with i by lia. apply Z.mod_small; lia.
  - nia.
  - nia.
Qed.

(* an aligned start inside the window whose index is i IS the window bucket of slot i *)
Lemma wslot_unique now i b : 0 <= i < n ->
  b mod bl = 0 -> idx b = i -> bs now + bl - itv <= b <= bs now -> b = wslot now i.
Proof.
  intros Hi Hb Hix Hr. destruct (wslot_facts now i Hi) as (Wa & Wi & Wlo & Whi).
  destruct (same_idx_diff _ _ Wa Hb) as [k Hk]; [congruence|].
  assert (0 < itv) by nia. assert (- itv < k * itv < itv) by lia. assert (k = 0) by nia. subst. lia.
Qed.

(* selection predicate of a view with window start lo (saturated at 0 as the code does) *)
Definition sel (now lo : Z) (s : @gslot M) : bool :=
  negb (g_deprecated n bl now (fst s)) &&
  (((if 0 <? lo then lo else 0) <=? fst s) && (fst s <=? bs now)).

(* slot-by-slot: what a view read takes from slot i is the reference content of window
   bucket wslot(now,i) when that bucket is inside the view window, and nothing otherwise *)
Lemma pointwise t0 l p tl now lo i :
  Inv t0 l p tl -> 0 < now < two62' -> tl < two62' ->
  lo mod bl = 0 -> bs now + bl - itv <= lo -> tl < lo + itv ->
  0 <= i < n ->
  (if sel now lo (slot_at e l i) then snd (slot_at e l i) else e) =
  (if lo <=? wslot now i then ref p (wslot now i) (wslot now i + bl) else e).
Proof.
  intros HI Hnow Htl Hlo Hlo1 Hlo2 Hi. pose proof HI as (H0 & Hlen & Hev & H).
  destruct (H _ Hi) as (Ha & Hix & Hc & Hb & Hd & He & Hf).
  destruct (wslot_facts now i Hi) as (Wa & Wi & Wlo & Whi).
  destruct (same_idx_diff _ _ Wa Ha (eq_trans Wi (eq_sym Hix))) as [k Hk].
  set (s := slot_at e l i) in *.
  pose proof (bs_le now) as Hbn. pose proof (bs_lt now) as Hbn2.
  pose proof (bs_nonneg t0 ltac:(lia)) as Ht0n.
  pose proof (bs_le tl) as Hbtl.
  assert (Hsr : 0 <= fst s < two63).
  { apply (start_range t0 l p tl); assumption. }
  assert (Hnr : 0 <= now < two63) by (pose proof two62_two32_lt_two63; pose proof two32_pos; lia).
  pose proof itv_pos as Hitv0.
  unfold sel.
  destruct (Z_lt_le_dec k 0) as [Hk0|Hk0]; [|destruct (Z.eq_dec k 0) as [->|Hk1]].
  - (* slot older than its window bucket: expired; and nothing was recorded in that bucket *)
    assert (Hold : fst s <= wslot now i - itv) by (pose proof (mul_neg_le k itv Hk0 Hitv0); lia).
    assert (Hdep : g_deprecated n bl now (fst s) = true).
    { apply deprecated_spec; [lia|assumption|]. right. lia. }
    rewrite Hdep. cbn [negb andb].
    destruct (Z.leb_spec lo (wslot now i)); [|reflexivity].
    symmetry. apply ref_empty_if. intros t a Hin Ht.
    assert (bs t = wslot now i) by (apply bs_bucket; [assumption|lia]).
    assert (idx t = i) by (rewrite <- (idx_bs t); congruence).
    specialize (Hb _ _ Hin H3). lia.
  - (* the slot holds exactly its window bucket *)
    assert (Hs : fst s = wslot now i) by lia.
    assert (Hdep : g_deprecated n bl now (fst s) = false).
    { destruct (g_deprecated n bl now (fst s)) eqn:E; [|reflexivity].
      apply deprecated_spec in E; [|lia|assumption]. lia. }
    rewrite Hdep. cbn [negb andb]. rewrite Hs in *.
    replace (wslot now i <=? bs now) with true by lia. rewrite andb_true_r.
    destruct (Z.ltb_spec 0 lo).
    + destruct (Z.leb_spec lo (wslot now i)); [assumption|reflexivity].
    + replace (0 <=? wslot now i) with true by lia.
      replace (lo <=? wslot now i) with true by lia. assumption.
  - (* the slot is ahead of its window bucket: not selected; if the bucket is inside the view
       window the slot is a creation-time slot and nothing can have been recorded there *)
    assert (Hnew : wslot now i + itv <= fst s) by (pose proof (mul_pos_ge k itv ltac:(lia) Hitv0); lia).
    replace (fst s <=? bs now) with false by lia. rewrite !andb_false_r.
    destruct (Z.leb_spec lo (wslot now i)); [|reflexivity].
    symmetry. apply ref_empty_if. intros t a Hin Ht. specialize (Hev _ _ Hin).
    assert (bs tl < fst s) by lia. specialize (He H2).
    assert (wslot now i + bl <= bs t0) by (apply aligned_lt_le; [assumption|apply bs_aligned|lia]).
    pose proof (bs_le t0). lia.
Qed.

(* the window buckets partition the window *)
Lemma partition p now lo :
  lo mod bl = 0 -> bs now + bl - itv <= lo <= bs now + bl ->
  big (fun i => if lo <=? wslot now i then ref p (wslot now i) (wslot now i + bl) else e) (Z.to_nat n)
  = ref p lo (bs now + bl).
Proof.
  intros Hlo Hr. unfold big.
  induction p as [|[t a] p IH]; cbn [LeapArray.ref].
  - apply bigr_e. intros i _. destruct (lo <=? wslot now i); reflexivity.
  - set (hi := bs now + bl) in *.
    (* split every term into (this event's share) ⊕ (the rest) *)
    rewrite (bigr_ext _ (fun i => op (if (lo <=? wslot now i) && ((wslot now i <=? t) && (t <? wslot now i + bl)) then a else e)
                                    (if lo <=? wslot now i then ref p (wslot now i) (wslot now i + bl) else e))).
    2:{ intros i Hi. destruct (lo <=? wslot now i); cbn [andb]; [|symmetry; apply e_idem].
        destruct ((wslot now i <=? t) && (t <? wslot now i + bl)); [reflexivity|].
        symmetry. apply ref_norm. }
    rewrite bigr_op, IH.
    assert (Hhi : hi mod bl = 0).
    { unfold hi. replace (bs now + bl) with (bs now + 1 * bl) by lia. apply aligned_shift. apply bs_aligned. }
    destruct (Z.leb_spec lo t) as [Hlt|Hlt]; [destruct (Z.ltb_spec t hi) as [Hht|Hht]|]; cbn [andb].
    + (* exactly one slot takes the event *)
      pose proof (idx_range t) as Hri.
      rewrite (bigr_single _ _ _ (idx t)); [|rewrite Z2Nat.id; lia|].
      * assert (Hw : bs t = wslot now (idx t)).
        { apply wslot_unique; [assumption|apply bs_aligned|apply idx_bs|].
          pose proof (bs_le t). pose proof (bs_lt t).
          assert (lo <= bs t). { rewrite <- (bs_bucket lo lo) by (try assumption; lia). apply bs_mono. lia. }
          assert (bs t + bl <= hi) by (apply aligned_lt_le; [apply bs_aligned|assumption|lia]).
          unfold hi in *. lia. }
        rewrite <- Hw. pose proof (bs_le t). pose proof (bs_lt t).
        assert (lo <= bs t). { rewrite <- (bs_bucket lo lo) by (try assumption; lia). apply bs_mono. lia. }
        replace (lo <=? bs t) with true by lia. replace (bs t <=? t) with true by lia.
        replace (t <? bs t + bl) with true by lia. cbn [andb].
        rewrite <- op_assoc. f_equal. apply ref_norm.
      * intros i Hi Hne. rewrite Z2Nat.id in Hi by lia.
        destruct (wslot_facts now i ltac:(lia)) as (Wa & Wi & Wlo & Whi).
        destruct (Z.leb_spec (wslot now i) t), (Z.ltb_spec t (wslot now i + bl)); cbn [andb]; rewrite ?andb_false_r; try reflexivity.
        exfalso. apply Hne. rewrite <- Wi. rewrite <- (idx_bs t). f_equal. symmetry. apply bs_bucket; [assumption|lia].
    + rewrite bigr_e; [apply ref_norm|]. intros i Hi. rewrite Z2Nat.id in Hi by lia.
      destruct (wslot_facts now i ltac:(lia)) as (Wa & Wi & Wlo & Whi). unfold hi in *.
      destruct (Z.leb_spec (wslot now i) t), (Z.ltb_spec t (wslot now i + bl)); cbn [andb]; rewrite ?andb_false_r; try reflexivity. lia.
    + rewrite bigr_e; [apply ref_norm|]. intros i Hi. rewrite Z2Nat.id in Hi by lia.
      destruct (wslot_facts now i ltac:(lia)) as (Wa & Wi & Wlo & Whi).
      destruct (Z.leb_spec lo (wslot now i)); cbn [andb]; [|reflexivity].
      destruct (Z.leb_spec (wslot now i) t), (Z.ltb_spec t (wslot now i + bl)); cbn [andb]; try reflexivity. lia.
Qed.

(* the view read (no refresh of the current bucket): window of length vitv ending at the
   current bucket; also valid for reads in the past as long as no bucket of the window has
   been recycled (tl < window start + itv) *)
Theorem view_read_eq_ref t0 l p tl now vitv :
  Inv t0 l p tl -> 0 < now < two62' -> tl < two62' ->
  0 < vitv <= itv -> vitv mod bl = 0 ->
  tl < bs now + bl - vitv + itv ->
  v_read op e n bl l vitv now = ref p (bs now + bl - vitv) (bs now + bl).
Proof.
  intros HI Hnow Htl Hv Hvm Hrec. pose proof HI as (H0 & Hlen & Hev & H).
  set (lo := bs now + bl - vitv).
  assert (Hlo : lo mod bl = 0).
  { unfold lo. apply Z.mod_divide in Hvm; [|lia]. destruct Hvm as [q ->].
    replace (bs now + bl - q * bl) with (bs now + (1 - q) * bl) by lia. apply aligned_shift, bs_aligned. }
  pose proof (bs_le now) as Hbn. pose proof (bs_nonneg now ltac:(lia)) as Hbn0.
  unfold v_read, v_satisfied, v_range, g_values_cond.
  assert (Hu : u64 (bs now + bl) = bs now + bl).
  { apply u64_small. pose proof two62_two32_lt_two63. pose proof itv_pos.
    assert (bl <= itv) by (pose proof (mul_pos_ge n bl Hn Hbl); lia). lia. }
  rewrite Hu. destruct (Z.leb_spec now 0); [lia|].
  rewrite merge_filter, lmerge_big, Hlen.
  rewrite <- (partition p now lo Hlo ltac:(unfold lo; lia)). unfold big.
  apply bigr_ext. intros i Hi. rewrite Z2Nat.id in Hi by lia.
  rewrite <- (pointwise t0 l p tl now lo i HI Hnow Htl Hlo ltac:(unfold lo; lia) Hrec ltac:(lia)).
  unfold sel. fold lo.
  replace (vitv <? bs now + bl) with (0 <? lo) by (unfold lo; lia).
  replace (bs now + bl - vitv) with lo by reflexivity. reflexivity.
Qed.

(* BucketLeapArray.CountWithTime & co.: refresh, then read every non-expired bucket *)
Theorem read_eq_ref t0 l p tl now :
  Inv t0 l p tl -> tl <= now < two62' ->
  snd (g_read op e n bl l now) = ref p (bs now + bl - itv) (bs now + bl) /\
  Inv t0 (fst (g_read op e n bl l now)) p now.
Proof.
  intros HI Hnow. pose proof HI as (H0 & _).
  destruct (current_some _ _ _ _ _ HI (proj1 Hnow)) as (l' & Hc' & HI' & Hcur).
  unfold g_read, g_refresh. rewrite Hc'. cbn [fst snd]. split; [|assumption].
  pose proof HI' as (H0' & Hlen & Hev & H).
  pose proof itv_pos as Hitv0.
  rewrite <- (view_read_eq_ref t0 l' p now now itv HI' ltac:(lia) ltac:(lia) ltac:(lia)
               ltac:(apply Z.mod_mul; lia) ltac:(pose proof (bs_lt now); lia)).
  unfold v_read, v_satisfied, v_range, g_values, g_values_cond.
  destruct (Z.leb_spec now 0); [reflexivity|]. f_equal.
  (* the range predicate is implied by "not expired" when the view spans the whole array *)
  pose proof (bs_le now) as Hbn. pose proof (bs_nonneg now ltac:(lia)) as Hbn0.
  assert (Hu : u64 (bs now + bl) = bs now + bl).
  { apply u64_small. pose proof two62_two32_lt_two63.
    assert (bl <= itv) by (pose proof (mul_pos_ge n bl Hn Hbl); lia). lia. }
  rewrite Hu.
  apply filter_ext_in. intros s Hin.
  destruct (In_nth _ _ (0, e) Hin) as (k & Hk & Hnth).
  assert (Hs : s = slot_at e l' (Z.of_nat k)) by (unfold slot_at; rewrite Nat2Z.id; symmetry; assumption).
  assert (Hki : 0 <= Z.of_nat k < n) by (unfold gslot in *; lia).
  destruct (H _ Hki) as (Ha & Hix & Hc & Hb & Hd & He & Hf). rewrite <- Hs in *.
  pose proof (bs_nonneg t0 ltac:(lia)) as Ht0n.
  assert (Hsr : 0 <= fst s < two63).
  { rewrite Hs. apply (start_range t0 l' p now); [assumption|lia|assumption]. }
  assert (Hnr : 0 <= now < two63) by (pose proof two62_two32_lt_two63; pose proof two32_pos; lia).
  destruct (g_deprecated n bl now (fst s)) eqn:E; cbn [negb andb]; [reflexivity|].
  assert (~ (now < fst s \/ itv <= now - fst s)).
  { intros Hx. apply deprecated_spec in Hx; [congruence|assumption|assumption]. }
  assert (fst s <= bs now).
  { rewrite <- (bs_bucket (fst s) (fst s)) by (try assumption; lia). apply bs_mono. lia. }
  assert (bs now + bl - itv <= fst s).
  { destruct (Z_le_gt_dec (bs now + bl - itv) (fst s)); [assumption|exfalso].
    assert (fst s + bl <= bs now + bl - itv).
    { apply aligned_lt_le; [assumption| |lia].
      replace (bs now + bl - n * bl) with (bs now + (1 - n) * bl) by lia. apply aligned_shift, bs_aligned. }
    pose proof (bs_lt now). lia. }
  symmetry. destruct (Z.ltb_spec itv (bs now + bl)); lia.
Qed.

(* ---- bucket-level statements: nothing stale, nothing lost ---- *)

(* whatever ValuesConditional returns lies inside the aligned window, satisfies the
   predicate, and carries exactly the reference content of its own bucket *)
Theorem cond_nothing_stale t0 l p tl now pred s :
  Inv t0 l p tl -> 0 < now < two62' -> tl < two62' ->
  In s (g_values_cond n bl l now pred) ->
  fst s mod bl = 0 /\ bs now + bl - itv <= fst s <= bs now /\ pred (fst s) = true /\
  snd s = ref p (fst s) (fst s + bl).
Proof.
  intros HI Hnow Htl. pose proof HI as (H0 & Hlen & Hev & H). unfold g_values_cond.
  destruct (Z.leb_spec now 0); [lia|]. rewrite filter_In. intros [Hin Hsel].
  destruct (In_nth _ _ (0, e) Hin) as (k & Hk & Hnth).
  assert (Hs : s = slot_at e l (Z.of_nat k)) by (unfold slot_at; rewrite Nat2Z.id; symmetry; assumption).
  assert (Hki : 0 <= Z.of_nat k < n) by (unfold gslot in *; lia).
  destruct (H _ Hki) as (Ha & Hix & Hc & Hb & Hd & He & Hf). rewrite <- Hs in *.
  apply andb_prop in Hsel. destruct Hsel as [Hdep Hp].
  pose proof (bs_nonneg t0 ltac:(lia)) as Ht0n. pose proof (bs_le tl).
  assert (Hsr : 0 <= fst s < two63).
  { rewrite Hs. apply (start_range t0 l p tl); assumption. }
  assert (Hnr : 0 <= now < two63) by (pose proof two62_two32_lt_two63; pose proof two32_pos; lia).
  assert (Hnd : ~ (now < fst s \/ itv <= now - fst s)).
  { intros Hx. apply deprecated_spec in Hx; [|assumption|assumption]. rewrite Hx in Hdep. discriminate. }
  assert (fst s <= bs now).
  { rewrite <- (bs_bucket (fst s) (fst s)) by (try assumption; lia). apply bs_mono. lia. }
  assert (bs now + bl - itv <= fst s).
  { destruct (Z_le_gt_dec (bs now + bl - itv) (fst s)); [assumption|exfalso].
    assert (fst s + bl <= bs now + bl - itv).
    { apply aligned_lt_le; [assumption| |lia].
      replace (bs now + bl - n * bl) with (bs now + (1 - n) * bl) by lia. apply aligned_shift, bs_aligned. }
    pose proof (bs_lt now). pose proof (bs_le now). lia. }
  repeat split; try assumption; lia.
Qed.

(* every window bucket that satisfies the predicate and in which something was recorded is
   returned, with its reference content (for reads in the past: as long as it has not been
   recycled) *)
Theorem cond_nothing_lost t0 l p tl now pred b :
  Inv t0 l p tl -> 0 < now < two62' -> tl < two62' ->
  b mod bl = 0 -> bs now + bl - itv <= b <= bs now -> pred b = true -> tl < b + itv ->
  ref p b (b + bl) <> e ->
  In (b, ref p b (b + bl)) (g_values_cond n bl l now pred).
Proof.
  intros (H0 & Hlen & Hev & H) Hnow Htl Hb Hr Hp Hrec Hne.
  assert (Hi : 0 <= idx b < n) by apply idx_range.
  destruct (H _ Hi) as (Ha & Hix & Hc & Hbb & Hd & He & Hf).
  set (s := slot_at e l (idx b)) in *.
  destruct (same_idx_diff _ _ Hb Ha (eq_sym Hix)) as [k Hk].
  pose proof itv_pos as Hitv0.
  pose proof (bs_le now). pose proof (bs_lt now). pose proof (bs_le tl).
  destruct (Z_lt_le_dec k 0) as [Hk0|Hk0]; [|destruct (Z.eq_dec k 0) as [->|Hk1]].
  - exfalso. apply Hne. apply ref_empty_if. intros t a Hin Ht.
    assert (Hbt : bs t = b) by (apply bs_bucket; [assumption|lia]).
    assert (Hit : idx t = idx b) by (rewrite <- (idx_bs t); congruence).
    specialize (Hbb _ _ Hin Hit). pose proof (mul_neg_le k itv Hk0 Hitv0). lia.
  - assert (Hs : fst s = b) by lia.
    unfold g_values_cond. destruct (Z.leb_spec now 0); [lia|]. apply filter_In. split.
    + replace (b, ref p b (b + bl)) with s.
      * unfold s, slot_at. apply nth_In. lia.
      * destruct s as [s1 s2]. cbn [fst snd] in *. subst s1. rewrite Hc. reflexivity.
    + cbn [fst]. rewrite Hp, andb_true_r.
      pose proof (bs_nonneg t0 ltac:(lia)).
      destruct (g_deprecated n bl now b) eqn:E; [|reflexivity]. exfalso.
      pose proof two62_two32_lt_two63. pose proof two32_pos.
      apply deprecated_spec in E; lia.
  - exfalso. apply Hne. apply ref_empty_if. intros t a Hin Ht. specialize (Hev _ _ Hin).
    pose proof (mul_pos_ge k itv ltac:(lia) Hitv0).
    assert (Hfut : bs tl < fst s) by lia. specialize (He Hfut).
    assert (b + bl <= bs t0) by (apply aligned_lt_le; [assumption|apply bs_aligned|lia]).
    pose proof (bs_le t0). lia.
Qed.

End G.
