(* Lemmas about Model/Rules.v (C13, C14). *)
From Coq Require Import Floats.
From SG Require Import Base.Prelude Base.GoInt Base.GoFloat Model.Rules.
#[local] Open Scope Z_scope.

(* ------------------------------------------------------------------------------------------ *)
(* association lists *)

Lemma aget_aset_same {A} k (v : list A) m : aget k (aset k v m) = v.
Proof. unfold aget. rewrite alookup_aset_same. reflexivity. Qed.

Lemma aget_aset_other {A} k k2 (v : list A) m : k2 <> k -> aget k2 (aset k v m) = aget k2 m.
Proof. intros H. unfold aget. rewrite alookup_aset_other by assumption. reflexivity. Qed.

Lemma alookup_adel_same {A} k (m : list (Z * A)) : alookup k (adel k m) = None.
Proof.
  induction m as [|[k' v] r IH]; cbn; [reflexivity|].
  destruct (k =? k') eqn:E; [exact IH|]. cbn. rewrite E. exact IH.
Qed.

Lemma alookup_adel_other {A} k k2 (m : list (Z * A)) : k2 <> k -> alookup k2 (adel k m) = alookup k2 m.
Proof.
  intros H. induction m as [|[k' v] r IH]; cbn; [reflexivity|].
  destruct (k =? k') eqn:E.
  - assert (k = k') by lia. subst. destruct (k2 =? k') eqn:E2; [lia|exact IH].
  - cbn. destruct (k2 =? k'); [reflexivity|exact IH].
Qed.

Lemma aget_adel_same {A} k (m : list (Z * list A)) : aget k (adel k m) = [].
Proof. unfold aget. rewrite alookup_adel_same. reflexivity. Qed.

Lemma aget_adel_other {A} k k2 (m : list (Z * list A)) : k2 <> k -> aget k2 (adel k m) = aget k2 m.
Proof. intros H. unfold aget. rewrite alookup_adel_other by assumption. reflexivity. Qed.

Lemma alookup_In {A} k (v : A) m : alookup k m = Some v -> In (k, v) m.
Proof.
  induction m as [|[k' v'] r IH]; cbn; [discriminate|].
  destruct (k =? k') eqn:E.
  - intros H. inversion H. subst. left. f_equal. lia.
  - intros H. right. auto.
Qed.

Lemma alookup_amap_of {A} (f : Z -> option A) ks k :
  alookup k (amap_of f ks) = if memZ k ks then f k else None.
Proof.
  induction ks as [|k0 r IH]; cbn; [reflexivity|].
  destruct (k =? k0) eqn:E.
  - assert (k = k0) by lia. subst. cbn. destruct (f k0) eqn:F; cbn.
    + rewrite Z.eqb_refl. reflexivity.
    + rewrite IH. destruct (memZ k0 r); auto.
  - cbn. destruct (f k0); cbn; rewrite ?E; exact IH.
Qed.

Lemma alookup_map_keys {A} (f : Z -> A) ks k :
  alookup k (map (fun x => (x, f x)) ks) = if memZ k ks then Some (f k) else None.
Proof.
  induction ks as [|k0 r IH]; cbn; [reflexivity|].
  destruct (k =? k0) eqn:E; cbn.
  - assert (k = k0) by lia. subst. reflexivity.
  - exact IH.
Qed.

Lemma akeys_map_keys {A} (f : Z -> A) ks : akeys (map (fun x => (x, f x)) ks) = ks.
Proof. unfold akeys. rewrite map_map. cbn. apply map_id. Qed.

Lemma memZ_In k l : memZ k l = true <-> In k l.
Proof.
  unfold memZ. rewrite existsb_exists. split.
  - intros [x [H1 H2]]. assert (k = x) by lia. subst. exact H1.
  - intros H. exists k. split; [exact H|apply Z.eqb_refl].
Qed.

Lemma memZ_cons k y l : memZ k (y :: l) = (k =? y) || memZ k l.
Proof. reflexivity. Qed.

Lemma memZ_filter_ne k x l : memZ k (filter (fun y => negb (y =? x)) l) = memZ k l && negb (k =? x).
Proof.
  induction l as [|y r IH]; [reflexivity|]. cbn [filter].
  destruct (y =? x) eqn:E; cbn [negb]; rewrite ?memZ_cons, IH.
  - destruct (k =? y) eqn:E2; cbn; [|reflexivity].
    assert (k =? x = true) as -> by lia. cbn. rewrite andb_false_r. reflexivity.
  - destruct (k =? y) eqn:E2; cbn; [|reflexivity].
    assert (k =? x = false) as -> by lia. reflexivity.
Qed.

Lemma memZ_dedup k l : memZ k (dedupZ l) = memZ k l.
Proof.
  induction l as [|x r IH]; [reflexivity|]. cbn [dedupZ]. rewrite !memZ_cons.
  rewrite memZ_filter_ne, IH. destruct (k =? x); cbn; [reflexivity|]. rewrite andb_true_r. reflexivity.
Qed.

Lemma nonnil_map_Some {A} (l : list A) : nonnil (map Some l) = l.
Proof. induction l as [|x r IH]; cbn; congruence. Qed.

Lemma list_eqb_refl {A} (eqb : A -> A -> bool) l :
  Forall (fun x => eqb x x = true) l -> list_eqb eqb l l = true.
Proof. induction 1 as [|x r Hx _ IH]; cbn; [reflexivity|]. rewrite Hx, IH. reflexivity. Qed.

Lemma amap_eqb_refl {A} (eqb : A -> A -> bool) m :
  Forall (fun kv => eqb (snd kv) (snd kv) = true) m -> amap_eqb eqb m m = true.
Proof.
  intros H. unfold amap_eqb. apply forallb_forall. intros k _.
  destruct (alookup k m) as [v|] eqn:E; cbn; [|reflexivity].
  apply alookup_In in E. rewrite Forall_forall in H. exact (H _ E).
Qed.

Lemma Forall2_imp {A B} (P Q : A -> B -> Prop) l1 l2 :
  (forall a b, P a b -> Q a b) -> Forall2 P l1 l2 -> Forall2 Q l1 l2.
Proof. intros H. induction 1; constructor; auto. Qed.

Lemma remove_nth_incl {A} n (l : list A) x : In x (remove_nth n l) -> In x l.
Proof.
  revert n. induction l as [|y r IH]; intros [|n]; cbn; auto.
  intros [H|H]; [left; exact H|right; eauto].
Qed.

(* ------------------------------------------------------------------------------------------ *)
Section Generic.
  Variable rule : Type.
  Variable valid : rule -> bool.
  Variable resource : rule -> Z.
  Variable equal : rule -> rule -> bool.
  Variable stat_reusable : rule -> rule -> bool.
  Variable supported : rule -> bool.
  Variable deep_eq : rule -> rule -> bool.
  Variable q : quirks.

  Notation ctrl := (ctrl rule).
  Notation state := (state rule).
  Notation step := (step rule valid resource equal stat_reusable supported deep_eq q).
  Notation run := (run rule valid resource equal stat_reusable supported deep_eq q).
  Notation load_all := (load_all rule valid resource equal stat_reusable supported deep_eq q).
  Notation load_res := (load_res rule valid resource equal stat_reusable supported deep_eq q).
  Notation build := (build rule resource equal stat_reusable supported q).
  Notation build2 := (build2 rule resource equal stat_reusable supported q).
  Notation match_equal := (match_equal rule resource equal stat_reusable q).
  Notation calc_reuse := (calc_reuse rule equal stat_reusable).
  Notation mismatch := (mismatch rule resource q).
  Notation vfilter := (vfilter rule valid).
  Notation rules_of := (rules_of rule resource).
  Notation group := (group rule resource).
  Notation raw_eqb := (raw_eqb rule deep_eq).
  Notation ctrls_of := (ctrls_of rule).
  Notation enforced_rules := (enforced_rules rule).
  Notation get_res := (get_res rule q).
  Notation init := (init rule).

  (* a rule is built into a controller for `res` iff it is addressed to it (where the module
     checks that) and a generator exists *)
  Definition ok (res : Z) (r : rule) : bool := negb (mismatch res r) && supported r.

  (* the bound rule of a controller is the loaded rule itself, or an old rule the module
     considers equal to it (the old controller object is kept) *)
  Definition sim (c r : rule) : Prop := c = r \/ equal c r = true.

  (* ---- calculateReuseIndexFor ---- *)
  Fixpoint find_equal (r : rule) (olds : list ctrl) : option nat :=
    match olds with
    | [] => None
    | o :: rest => if equal (c_rule o) r then Some O else option_map S (find_equal r rest)
    end.

  Lemma calc_reuse_fst r olds idx reuse :
    fst (calc_reuse r olds idx reuse) = option_map (fun i => (idx + i)%nat) (find_equal r olds).
  Proof.
    revert idx reuse. induction olds as [|o rest IH]; intros idx reuse; cbn; [reflexivity|].
    destruct (equal (c_rule o) r); cbn; [f_equal; lia|].
    assert (H : forall re, fst (calc_reuse r rest (S idx) re) = option_map (fun i => (idx + i)%nat) (option_map S (find_equal r rest))).
    { intros re. rewrite IH. destruct (find_equal r rest); cbn; [f_equal; lia|reflexivity]. }
    destruct (negb (stat_reusable (c_rule o) r)); [apply H|]. destruct reuse; apply H.
  Qed.

  Lemma find_equal_Some r olds i :
    find_equal r olds = Some i ->
    exists c, nth_error olds i = Some c /\ equal (c_rule c) r = true /\
      forall j c', (j < i)%nat -> nth_error olds j = Some c' -> equal (c_rule c') r = false.
  Proof.
    revert i. induction olds as [|o rest IH]; intros i; cbn; [discriminate|].
    destruct (equal (c_rule o) r) eqn:E.
    - intros H. inversion H. subst. exists o. repeat split; auto. intros j c' Hj. lia.
    - destruct (find_equal r rest) as [k|] eqn:F; cbn; [|discriminate].
      intros H. inversion H. subst. destruct (IH k eq_refl) as [c [H1 [H2 H3]]].
      exists c. repeat split; auto. intros [|j] c' Hj; cbn.
      + intros X. inversion X. subst. exact E.
      + intros X. apply (H3 j c'); [lia|exact X].
  Qed.

  Lemma find_equal_None r olds :
    find_equal r olds = None -> Forall (fun c => equal (c_rule c) r = false) olds.
  Proof.
    induction olds as [|o rest IH]; cbn; [constructor|].
    destruct (equal (c_rule o) r) eqn:E; [discriminate|].
    destruct (find_equal r rest); cbn; [discriminate|]. intros _. constructor; auto.
  Qed.

  (* ---- first loop ---- *)
  Definition matched_ok (olds : list ctrl) (mo : option ctrl) (r : rule) : Prop :=
    forall c, mo = Some c -> In c olds /\ equal (c_rule c) r = true /\ mismatch (resource r) r = false.

  Lemma match_equal_spec res rules : forall olds m rest,
    match_equal res rules olds = (m, rest) ->
    Forall2 (fun mo r => forall c, mo = Some c -> In c olds /\ equal (c_rule c) r = true) m rules
    /\ (forall x, In x rest -> In x olds).
  Proof.
    induction rules as [|r rs IH]; intros olds m rest; cbn.
    - intros H. inversion H. subst. split; [constructor|auto].
    - destruct (mismatch res r).
      + destruct (match_equal res rs olds) as [m' o'] eqn:E. intros H. inversion H. subst.
        destruct (IH _ _ _ E) as [H1 H2]. split; [constructor; [intros c X; discriminate|exact H1]|exact H2].
      + rewrite calc_reuse_fst. destruct (find_equal r olds) as [i|] eqn:F; cbn.
        * destruct (match_equal res rs (remove_nth i olds)) as [m' o'] eqn:E. intros H. inversion H. subst.
          destruct (IH _ _ _ E) as [H1 H2]. destruct (find_equal_Some _ _ _ F) as [c [Hc [Heq _]]].
          split.
          -- constructor.
             ++ intros c0 X. rewrite Hc in X. inversion X. subst. split; [eapply nth_error_In; eauto|exact Heq].
             ++ eapply Forall2_imp; [|exact H1]. cbn. intros mo r0 Hm c0 X. destruct (Hm c0 X) as [A B].
                split; [eapply remove_nth_incl; eauto|exact B].
          -- intros x Hx. eapply remove_nth_incl. eauto.
        * destruct (match_equal res rs olds) as [m' o'] eqn:E. intros H. inversion H. subst.
          destruct (IH _ _ _ E) as [H1 H2]. split; [constructor; [intros c X; discriminate|exact H1]|exact H2].
  Qed.

  (* ---- second loop: the rules bound to the result ---- *)
  Hypothesis equal_supported : forall a b, equal a b = true -> supported a = true -> supported b = true.

  Lemma build2_rules n res rules : forall m olds0 olds pos,
    Forall (fun c => supported (c_rule c) = true) olds0 ->
    Forall2 (fun mo r => forall c, mo = Some c -> In c olds0 /\ equal (c_rule c) r = true) m rules ->
    Forall2 sim (map c_rule (build2 n res rules m olds pos)) (filter (ok res) rules)
    /\ Forall (fun c => supported (c_rule c) = true) (build2 n res rules m olds pos).
  Proof.
    induction rules as [|r rs IH]; intros m olds0 olds pos Hsup HF; cbn.
    - destruct m; split; constructor.
    - inversion HF as [|mo r' ms rs' Hm HF' E1 E2]. subst. cbn. unfold ok at 1.
      destruct (mismatch res r) eqn:Emis; cbn.
      + eapply IH; eauto.
      + destruct mo as [c|].
        * destruct (Hm c eq_refl) as [Hin Heq].
          assert (Hs : supported (c_rule c) = true) by (rewrite Forall_forall in Hsup; auto).
          rewrite (equal_supported _ _ Heq Hs). cbn.
          destruct (IH ms olds0 olds (pos + 1) Hsup HF') as [A B].
          split; constructor; auto. right. exact Heq.
        * destruct (supported r) eqn:Es; cbn.
          -- destruct (snd (calc_reuse r olds 0 None)) as [j|].
             ++ destruct (nth_error olds j) as [o|].
                ** destruct (IH ms olds0 (remove_nth j olds) (pos + 1) Hsup HF') as [A B].
                   split; constructor; cbn; auto. left. reflexivity.
                ** destruct (IH ms olds0 olds (pos + 1) Hsup HF') as [A B].
                   split; constructor; cbn; auto. left. reflexivity.
             ++ destruct (IH ms olds0 olds (pos + 1) Hsup HF') as [A B].
                split; constructor; cbn; auto. left. reflexivity.
          -- eapply IH; eauto.
  Qed.

  Lemma build_rules n res rules olds :
    Forall (fun c => supported (c_rule c) = true) olds ->
    Forall2 sim (map c_rule (build n res rules olds)) (filter (ok res) rules)
    /\ Forall (fun c => supported (c_rule c) = true) (build n res rules olds).
  Proof.
    intros Hsup. unfold Rules.build. destruct (match_equal res rules olds) as [m rest] eqn:E.
    destruct (match_equal_spec _ _ _ _ _ E) as [H1 _]. eapply build2_rules; eauto.
  Qed.

  Lemma build_nil n res olds : build n res [] olds = [].
  Proof. reflexivity. Qed.

  (* ---- one step ---- *)
  Ltac sel := cbn [fst snd changed err panicked enforced reported raw opn r_unchanged r_changed r_error_unchanged r_error_changed].

  Ltac split_step :=
    unfold Rules.step, Rules.load_all, Rules.load_res;
    repeat (match goal with
            | |- context [match ?x with _ => _ end] => destruct x eqn:?
            end);
    cbn [fst snd changed err panicked r_unchanged r_changed r_error_unchanged r_error_changed].

  Lemma step_unchanged s o :
    changed (snd (step s o)) = false \/ err (snd (step s o)) = true -> fst (step s o) = s.
  Proof. split_step; auto; intros [H|H]; discriminate. Qed.

  Lemma step_no_panic s o : panicked (snd (step s o)) = false.
  Proof. split_step; reflexivity. Qed.

  Lemma step_result_cases s o :
    snd (step s o) = r_unchanged \/ snd (step s o) = r_changed \/ snd (step s o) = r_error_unchanged.
  Proof. split_step; auto. Qed.

  (* a per-resource load that is not short-cut: the resource is rebuilt from the valid rules of the
     list over its own old controllers; every other resource keeps its controller list *)
  Lemma load_res_effective s res l :
    changed (snd (load_res s res l)) = true ->
    ctrls_of (fst (load_res s res l)) res = build (opn s) res (vfilter l) (ctrls_of s res)
    /\ (forall r2, r2 <> res -> ctrls_of (fst (load_res s res l)) r2 = ctrls_of s r2)
    /\ opn (fst (load_res s res l)) = opn s + 1.
  Proof.
    unfold Rules.load_res, Rules.ctrls_of. destruct (res =? 0); sel; [discriminate|].
    destruct l as [|x l']; sel.
    - destruct (alookup res (raw s)); sel; [|discriminate].
      intros _. rewrite aget_adel_same. repeat split; auto. intros r2 H. apply aget_adel_other. exact H.
    - destruct (list_eqb (opt_eqb deep_eq) (aget res (raw s)) (x :: l')); sel; [discriminate|].
      intros _. destruct (build (opn s) res (vfilter (x :: l')) (aget res (enforced s))) as [|c cs] eqn:B; sel.
      + rewrite aget_adel_same. repeat split; auto. intros r2 H. apply aget_adel_other. exact H.
      + rewrite aget_aset_same. repeat split; auto. intros r2 H. apply aget_aset_other. exact H.
  Qed.

  Lemma rules_of_not_mem res (l : list rule) : memZ res (map resource l) = false -> rules_of res l = [].
  Proof.
    unfold Rules.rules_of. induction l as [|x r IH]; cbn; [reflexivity|].
    destruct (res =? resource x) eqn:E; cbn; [discriminate|]. intros H.
    assert (resource x =? res = false) as -> by lia. auto.
  Qed.

  Lemma aget_group res l : aget res (group l) = map Some (rules_of res (nonnil l)).
  Proof.
    unfold Rules.group, aget. rewrite (alookup_map_keys (fun k => map Some (rules_of k (nonnil l)))).
    rewrite memZ_dedup. destruct (memZ res (map resource (nonnil l))) eqn:E; [reflexivity|].
    rewrite rules_of_not_mem by exact E. reflexivity.
  Qed.

  (* a whole-set load that is not short-cut: every resource is rebuilt from the valid rules the
     list holds for it (none: nothing is enforced) over its own old controllers *)
  Lemma load_all_effective s l :
    changed (snd (load_all s l)) = true ->
    (forall res, ctrls_of (fst (load_all s l)) res
                 = build (opn s) res (filter valid (rules_of res (nonnil l))) (ctrls_of s res))
    /\ opn (fst (load_all s l)) = opn s + 1.
  Proof.
    unfold Rules.load_all. destruct (raw_eqb (raw s) (group l)); cbn; [discriminate|]. intros _.
    split; [|reflexivity]. intros res. unfold Rules.ctrls_of at 1. cbn. unfold aget at 1.
    rewrite alookup_amap_of. rewrite aget_group. unfold Rules.vfilter. rewrite nonnil_map_Some.
    unfold Rules.group. rewrite (akeys_map_keys (fun k => map Some (rules_of k (nonnil l)))). rewrite memZ_dedup.
    destruct (memZ res (map resource (nonnil l))) eqn:E.
    - destruct (filter valid (rules_of res (nonnil l))) as [|v vs] eqn:F; [reflexivity|].
      unfold Rules.ctrls_of.
      destruct (build (opn s) res (v :: vs) (aget res (enforced s))) as [|c cs]; [destruct (store_empty_all q); reflexivity|reflexivity].
    - rewrite rules_of_not_mem by exact E. reflexivity.
  Qed.

  Lemma load_all_reported s l :
    changed (snd (load_all s l)) = true ->
    forall res, aget res (reported (fst (load_all s l)))
                = match build (opn s) res (filter valid (rules_of res (nonnil l))) (ctrls_of s res) with
                  | [] => []
                  | _ => filter (ok res) (filter valid (rules_of res (nonnil l)))
                  end.
  Proof.
    unfold Rules.load_all. destruct (raw_eqb (raw s) (group l)); cbn; [discriminate|]. intros _ res.
    unfold aget at 1. rewrite alookup_amap_of. rewrite aget_group. unfold Rules.vfilter. rewrite nonnil_map_Some.
    unfold Rules.group. rewrite (akeys_map_keys (fun k => map Some (rules_of k (nonnil l)))). rewrite memZ_dedup.
    destruct (memZ res (map resource (nonnil l))) eqn:E.
    - destruct (filter valid (rules_of res (nonnil l))) as [|v vs]; [reflexivity|].
      unfold Rules.ctrls_of.
      destruct (build (opn s) res (v :: vs) (aget res (enforced s))); reflexivity.
    - rewrite rules_of_not_mem by exact E. reflexivity.
  Qed.

  Lemma load_res_reported s res l :
    changed (snd (load_res s res l)) = true ->
    (aget res (reported (fst (load_res s res l)))
       = match build (opn s) res (vfilter l) (ctrls_of s res) with [] => [] | _ => filter (ok res) (vfilter l) end)
    /\ (forall r2, r2 <> res -> aget r2 (reported (fst (load_res s res l))) = aget r2 (reported s)).
  Proof.
    unfold Rules.load_res, Rules.ctrls_of. destruct (res =? 0); sel; [discriminate|].
    destruct l as [|x l']; sel.
    - destruct (alookup res (raw s)); sel; [|discriminate].
      intros _. rewrite aget_adel_same. split; [reflexivity|]. intros r2 H. apply aget_adel_other. exact H.
    - destruct (list_eqb (opt_eqb deep_eq) (aget res (raw s)) (x :: l')); sel; [discriminate|].
      intros _. destruct (build (opn s) res (vfilter (x :: l')) (aget res (enforced s))) as [|c cs] eqn:B; sel.
      + rewrite aget_adel_same. split; [reflexivity|]. intros r2 H. apply aget_adel_other. exact H.
      + rewrite aget_aset_same. split; [reflexivity|]. intros r2 H. apply aget_aset_other. exact H.
  Qed.

  (* ---- histories ---- *)
  (* the rules an operation loads for `res`, if its scope includes `res` *)
  Definition loaded_for (o : op rule) (res : Z) : option (list rule) :=
    match o with
    | LoadAll l => Some (rules_of res (nonnil l))
    | LoadRes r l => if r =? res then Some (nonnil l) else None
    end.

  (* the rules of the most recent load that affected `res` and reported a change *)
  Fixpoint latest_from (acc : list rule) (hist : list (op rule * result)) (res : Z) : list rule :=
    match hist with
    | [] => acc
    | (o, x) :: h =>
        latest_from (if changed x then match loaded_for o res with Some l => l | None => acc end else acc) h res
    end.
  Definition latest := latest_from [].

  Definition Inv (s : state) (cur : Z -> list rule) : Prop :=
    forall res,
      Forall2 sim (enforced_rules s res) (filter (fun r => valid r && ok res r) (cur res))
      /\ Forall (fun c => supported (c_rule c) = true) (ctrls_of s res)
      /\ (separate_reported q = true ->
          Forall2 sim (enforced_rules s res) (aget res (reported s))).

  Lemma filter_andb {A} (f g : A -> bool) l : filter (fun x => f x && g x) l = filter g (filter f l).
  Proof. induction l as [|x r IH]; cbn; [reflexivity|]. destruct (f x); cbn; [destruct (g x)|]; rewrite ?IH; reflexivity. Qed.

  Lemma step_inv s cur o :
    Inv s cur ->
    Inv (fst (step s o))
        (fun res => if changed (snd (step s o)) then match loaded_for o res with Some l => l | None => cur res end else cur res).
  Proof.
    intros HI. destruct (changed (snd (step s o))) eqn:Ech.
    2:{ rewrite (step_unchanged s o) by (left; exact Ech). exact HI. }
    intros res. destruct o as [l|r l]; cbn in *.
    - destruct (load_all_effective s l Ech) as [Hc _]. unfold Rules.enforced_rules. rewrite Hc.
      destruct (HI res) as [_ [Hs _]].
      destruct (build_rules (opn s) res (filter valid (rules_of res (nonnil l))) (ctrls_of s res) Hs) as [A B].
      rewrite filter_andb. repeat split; auto.
      intros _. rewrite (load_all_reported s l Ech).
      destruct (build (opn s) res (filter valid (rules_of res (nonnil l))) (ctrls_of s res)) eqn:Bd; [constructor|exact A].
    - destruct (load_res_effective s r l Ech) as [Hc [Ho _]]. destruct (load_res_reported s r l Ech) as [Hr Hro].
      destruct (r =? res) eqn:E.
      + assert (r = res) by lia. subst r. unfold Rules.enforced_rules. rewrite Hc. destruct (HI res) as [_ [Hs _]].
        destruct (build_rules (opn s) res (vfilter l) (ctrls_of s res) Hs) as [A B].
        rewrite filter_andb. repeat split; auto.
        intros _. rewrite Hr. destruct (build (opn s) res (vfilter l) (ctrls_of s res)) eqn:Bd; [constructor|exact A].
      + assert (res <> r) by lia. unfold Rules.enforced_rules. rewrite (Ho res) by assumption.
        destruct (HI res) as [A [B C]]. repeat split; auto. intros Hq. rewrite Hro by assumption. auto.
  Qed.

  Lemma run_cons s o ops :
    run s (o :: ops) = (fst (run (fst (step s o)) ops), snd (step s o) :: snd (run (fst (step s o)) ops)).
  Proof. cbn. destruct (step s o) as [s1 x]. cbn. destruct (run s1 ops). reflexivity. Qed.

  Lemma run_inv ops : forall s cur,
    Inv s cur ->
    Inv (fst (run s ops)) (fun res => latest_from (cur res) (combine ops (snd (run s ops))) res).
  Proof.
    induction ops as [|o r IH]; intros s cur HI; [exact HI|].
    rewrite run_cons. cbn [fst snd combine latest_from].
    exact (IH _ _ (step_inv s cur o HI)).
  Qed.

  Lemma inv_init : Inv init (fun _ => []).
  Proof. intros res. cbn. repeat split; constructor. Qed.

  (* C13: enforced = valid (and buildable) rules of the latest effective load, in order *)
  Lemma enforced_eq_valid_latest ops res :
    let s := fst (run init ops) in
    Forall2 sim (enforced_rules s res)
                (filter (fun r => valid r && ok res r) (latest (combine ops (snd (run init ops))) res)).
  Proof. intros s. exact (proj1 (run_inv ops init _ inv_init res)). Qed.

  (* C13: getters = enforced (for the module with a separate reported map: up to rules that can
     not be built) *)
  Lemma getters_eq_enforced_separate ops res :
    separate_reported q = true ->
    let s := fst (run init ops) in
    Forall2 sim (enforced_rules s res) (get_res s res).
  Proof.
    intros Hq s. unfold Rules.get_res. rewrite Hq.
    exact (proj2 (proj2 (run_inv ops init _ inv_init res)) Hq).
  Qed.

  Lemma getters_eq_enforced_bound s res :
    separate_reported q = false -> get_res s res = enforced_rules s res.
  Proof. intros Hq. unfold Rules.get_res. rewrite Hq. reflexivity. Qed.

  (* C13: scope *)
  Lemma scope_res s res l r2 : r2 <> res -> ctrls_of (fst (load_res s res l)) r2 = ctrls_of s r2.
  Proof.
    intros H. destruct (changed (snd (load_res s res l))) eqn:E.
    - exact (proj1 (proj2 (load_res_effective s res l E)) r2 H).
    - change (load_res s res l) with (step s (LoadRes res l)). rewrite step_unchanged; [reflexivity|left; exact E].
  Qed.

  Lemma scope_all s l res :
    changed (snd (load_all s l)) = true -> rules_of res (nonnil l) = [] -> ctrls_of (fst (load_all s l)) res = [].
  Proof. intros E H. rewrite (proj1 (load_all_effective s l E)). rewrite H. reflexivity. Qed.

  (* C13: rules failing the validity check have no influence on what is built *)
  Lemma invalid_inert_res s res l l' :
    vfilter l = vfilter l' ->
    changed (snd (load_res s res l)) = true -> changed (snd (load_res s res l')) = true ->
    forall r2, ctrls_of (fst (load_res s res l)) r2 = ctrls_of (fst (load_res s res l')) r2.
  Proof.
    intros Hv E E' r2. destruct (Z.eq_dec r2 res) as [->|Hne].
    - rewrite (proj1 (load_res_effective s res l E)), (proj1 (load_res_effective s res l' E')), Hv. reflexivity.
    - rewrite !scope_res by assumption. reflexivity.
  Qed.

  Lemma invalid_inert_all s l l' :
    (forall res, filter valid (rules_of res (nonnil l)) = filter valid (rules_of res (nonnil l'))) ->
    changed (snd (load_all s l)) = true -> changed (snd (load_all s l')) = true ->
    forall res, ctrls_of (fst (load_all s l)) res = ctrls_of (fst (load_all s l')) res.
  Proof.
    intros Hv E E' res.
    rewrite (proj1 (load_all_effective s l E)), (proj1 (load_all_effective s l' E')), Hv. reflexivity.
  Qed.

  (* C13: the two load paths build the same controllers for a resource *)
  Lemma two_paths_agree s res l l' :
    rules_of res (nonnil l') = nonnil l ->
    changed (snd (load_res s res l)) = true -> changed (snd (load_all s l')) = true ->
    ctrls_of (fst (load_res s res l)) res = ctrls_of (fst (load_all s l')) res.
  Proof.
    intros H E E'.
    rewrite (proj1 (load_res_effective s res l E)), (proj1 (load_all_effective s l' E')), H. reflexivity.
  Qed.

  (* C13: an identical reload reports "unchanged" and changes nothing *)
  Definition refl_on (l : list (option rule)) : Prop := Forall (fun r => deep_eq r r = true) (nonnil l).

  Lemma group_refl l : refl_on l -> raw_eqb (group l) (group l) = true.
  Proof.
    intros H. apply amap_eqb_refl. unfold Rules.group. apply Forall_forall. intros [k v] Hin.
    apply in_map_iff in Hin. destruct Hin as [k0 [E _]]. inversion E. subst. cbn.
    apply list_eqb_refl. apply Forall_forall. intros x Hx. apply in_map_iff in Hx. destruct Hx as [r [<- Hr]].
    cbn. unfold Rules.rules_of in Hr. apply filter_In in Hr. destruct Hr as [Hr _].
    unfold refl_on in H. rewrite Forall_forall in H. auto.
  Qed.

  Lemma identical_reload_all s l :
    refl_on l -> load_all (fst (load_all s l)) l = (fst (load_all s l), r_unchanged).
  Proof.
    intros H. destruct (raw_eqb (raw s) (group l)) eqn:E.
    - assert (X : load_all s l = (s, r_unchanged)) by (unfold Rules.load_all; rewrite E; reflexivity).
      rewrite X. sel. exact X.
    - assert (X : raw (fst (load_all s l)) = group l) by (unfold Rules.load_all; rewrite E; reflexivity).
      unfold Rules.load_all at 1. rewrite X, (group_refl l H). reflexivity.
  Qed.

  Lemma refl_on_list l : refl_on l -> list_eqb (opt_eqb deep_eq) l l = true.
  Proof.
    unfold refl_on. induction l as [|[x|] r IH]; cbn; intros H; [reflexivity| |auto].
    inversion H. subst. rewrite H2. cbn. auto.
  Qed.

  Lemma identical_reload_res s res l :
    refl_on l -> load_res (fst (load_res s res l)) res l = (fst (load_res s res l), r_unchanged) \/ res = 0.
  Proof.
    intros H. destruct (res =? 0) eqn:E0; [right; lia|left].
    destruct l as [|x l'].
    { (* clearing twice: the second clear finds nothing cached *)
      destruct (alookup res (raw s)) eqn:E.
      - assert (X : alookup res (raw (fst (load_res s res []))) = None)
          by (unfold Rules.load_res; rewrite E0, E; sel; apply alookup_adel_same).
        unfold Rules.load_res at 1. rewrite E0, X. reflexivity.
      - assert (X : load_res s res [] = (s, r_unchanged)) by (unfold Rules.load_res; rewrite E0, E; reflexivity).
        rewrite X. sel. exact X. }
    destruct (list_eqb (opt_eqb deep_eq) (aget res (raw s)) (x :: l')) eqn:E.
    - assert (X : load_res s res (x :: l') = (s, r_unchanged)) by (unfold Rules.load_res; rewrite E0, E; reflexivity).
      rewrite X. sel. exact X.
    - assert (X : aget res (raw (fst (load_res s res (x :: l')))) = x :: l').
      { unfold Rules.load_res. rewrite E0, E.
        destruct (build (opn s) res (vfilter (x :: l')) (aget res (enforced s))); sel; apply aget_aset_same. }
      unfold Rules.load_res at 1. rewrite E0, X, (refl_on_list _ H). reflexivity.
  Qed.

  (* ---------------------------------------------------------------------------------------- *)
  (* C14 *)

  Section Class.
    (* a class of rules the module treats as "the same rule" (e.g. cls := equal r0 when equal is an
       equivalence on the rules involved) *)
    Variable cls : rule -> bool.
    Variable res : Z.
    Notation clsC := (fun c : ctrl => cls (c_rule c)).

    Definition cls_compat (olds : list ctrl) (rules : list rule) : Prop :=
      (forall c x, In c olds -> In x rules -> equal (c_rule c) x = true -> cls (c_rule c) = cls x)
      /\ (forall c x, In c olds -> In x rules -> cls (c_rule c) = true -> cls x = true -> equal (c_rule c) x = true).

    Lemma cls_compat_tail olds r rs : cls_compat olds (r :: rs) -> cls_compat olds rs.
    Proof. intros [A B]. split; intros; [eapply A|eapply B]; eauto; right; auto. Qed.

    Lemma cls_compat_remove olds rules i : cls_compat olds rules -> cls_compat (remove_nth i olds) rules.
    Proof. intros [A B]. split; intros; [eapply A|eapply B]; eauto; eapply remove_nth_incl; eauto. Qed.

    (* removing a controller outside the class does not change the class's subsequence *)
    Lemma filter_remove_out (olds : list ctrl) i c :
      nth_error olds i = Some c -> cls (c_rule c) = false -> filter clsC (remove_nth i olds) = filter clsC olds.
    Proof.
      revert i. induction olds as [|o r IH]; intros [|i]; cbn; try discriminate.
      - intros H. inversion H. subst. intros ->. reflexivity.
      - intros H Hc. rewrite (IH i H Hc). reflexivity.
    Qed.

    (* removing the first controller of the class removes the head of the class's subsequence *)
    Lemma filter_remove_first (olds : list ctrl) i c :
      nth_error olds i = Some c -> cls (c_rule c) = true ->
      (forall j c', (j < i)%nat -> nth_error olds j = Some c' -> cls (c_rule c') = false) ->
      filter clsC olds = c :: filter clsC (remove_nth i olds).
    Proof.
      revert i. induction olds as [|o r IH]; intros [|i]; cbn; try discriminate.
      - intros H. inversion H. subst. intros -> _. reflexivity.
      - intros H Hc Hb. assert (cls (c_rule o) = false) as -> by (apply (Hb O o); [lia|reflexivity]).
        apply IH; auto. intros j c' Hj Hn. apply (Hb (S j) c'); [lia|exact Hn].
    Qed.

    (* what the rules of the class were matched with, in order: the class's old controllers, in
       order, as far as they last *)
    Fixpoint cls_matches (rules : list rule) (m : list (option ctrl)) : list (option ctrl) :=
      match rules, m with
      | r :: rs, mo :: ms => if cls r then mo :: cls_matches rs ms else cls_matches rs ms
      | _, _ => []
      end.

    Fixpoint expected (n : nat) (avail : list ctrl) : list (option ctrl) :=
      match n with
      | O => []
      | S n' => match avail with
                | [] => None :: expected n' []
                | c :: r => Some c :: expected n' r
                end
      end.

    Lemma match_equal_cls rules : forall olds m rest,
      (forall x, In x rules -> cls x = true -> mismatch res x = false) ->
      cls_compat olds rules ->
      match_equal res rules olds = (m, rest) ->
      cls_matches rules m = expected (length (filter cls rules)) (filter clsC olds)
      /\ Forall2 (fun mo r => forall c, mo = Some c -> cls (c_rule c) = cls r) m rules.
    Proof.
      induction rules as [|r rs IH]; intros olds m rest Hmis Hcc; cbn.
      - intros H. inversion H. subst. split; [reflexivity|constructor].
      - assert (Hmis' : forall x, In x rs -> cls x = true -> mismatch res x = false) by (intros; apply Hmis; [right|]; auto).
        destruct (mismatch res r) eqn:Em.
        + destruct (match_equal res rs olds) as [m' o'] eqn:E. intros H. inversion H. subst.
          destruct (IH _ _ _ Hmis' (cls_compat_tail _ _ _ Hcc) E) as [A B].
          assert (cls r = false) as Hc.
          { destruct (cls r) eqn:X; [|reflexivity]. rewrite (Hmis r (or_introl eq_refl) X) in Em. discriminate. }
          cbn. rewrite Hc. split; [exact A|]. constructor; [intros c X; discriminate|exact B].
        + rewrite calc_reuse_fst. destruct (find_equal r olds) as [i|] eqn:F; cbn.
          * destruct (match_equal res rs (remove_nth i olds)) as [m' o'] eqn:E. intros H. inversion H. subst.
            destruct (find_equal_Some _ _ _ F) as [c [Hn [Heq Hbefore]]]. rewrite Hn.
            destruct (IH _ _ _ Hmis' (cls_compat_remove _ _ i (cls_compat_tail _ _ _ Hcc)) E) as [A B].
            destruct Hcc as [C1 C2].
            assert (Hin : In c olds) by (eapply nth_error_In; eauto).
            assert (Hcr : cls (c_rule c) = cls r) by (apply C1; [exact Hin|left; reflexivity|exact Heq]).
            split; [|constructor; [intros c0 X; inversion X; subst; exact Hcr|exact B]].
            cbn. destruct (cls r) eqn:Ec; cbn.
            -- rewrite (filter_remove_first olds i c Hn Hcr).
               ++ cbn. f_equal. exact A.
               ++ intros j c' Hj Hn'. destruct (cls (c_rule c')) eqn:X; [|reflexivity].
                  assert (Y := Hbefore j c' Hj Hn').
                  rewrite (C2 c' r (nth_error_In _ _ Hn') (or_introl eq_refl) X Ec) in Y. discriminate.
            -- rewrite A. rewrite (filter_remove_out olds i c Hn Hcr). reflexivity.
          * destruct (match_equal res rs olds) as [m' o'] eqn:E. intros H. inversion H. subst.
            destruct (IH _ _ _ Hmis' (cls_compat_tail _ _ _ Hcc) E) as [A B].
            split; [|constructor; [intros c X; discriminate|exact B]].
            cbn. destruct (cls r) eqn:Ec; cbn; [|exact A].
            (* no old controller is equal to r, hence none is in the class *)
            assert (Hnone : filter clsC olds = []).
            { apply find_equal_None in F. destruct Hcc as [_ C2].
              clear - F C2 Ec. induction olds as [|o os IHo]; cbn; [reflexivity|].
              inversion F as [|? ? Ho Hos]. subst.
              destruct (cls (c_rule o)) eqn:X.
              - rewrite (C2 o r (or_introl eq_refl) (or_introl eq_refl) X Ec) in Ho. discriminate.
              - apply IHo; auto. intros c x Hc Hx. apply C2; [right; exact Hc|exact Hx]. }
            rewrite Hnone in *. rewrite A. destruct (length (filter cls rs)); reflexivity.
    Qed.

    (* the controllers serving the rules of the class after the rebuild *)
    Definition served (n : Z) (mo : option ctrl) (c : ctrl) : Prop :=
      match mo with
      | Some old => c = old                       (* the very same controller object *)
      | None => fst (fst (c_id c)) = n            (* a controller created by this load *)
      end.

    Lemma build2_cls n rules : forall m olds pos,
      (forall x, In x rules -> cls x = true -> mismatch res x = false /\ supported x = true) ->
      Forall2 (fun mo r => forall c, mo = Some c -> cls (c_rule c) = cls r) m rules ->
      Forall2 (served n) (cls_matches rules m) (filter clsC (build2 n res rules m olds pos)).
    Proof.
      induction rules as [|r rs IH]; intros m olds pos Hok HF; cbn.
      - destruct m; constructor.
      - inversion HF as [|mo r' ms rs' Hm HF' E1 E2]. subst. cbn.
        assert (Hok' : forall x, In x rs -> cls x = true -> mismatch res x = false /\ supported x = true) by (intros; apply Hok; [right|]; auto).
        destruct (cls r) eqn:Ec.
        + destruct (Hok r (or_introl eq_refl) Ec) as [-> Hs].
          destruct mo as [c|].
          * assert (Hc : cls (c_rule c) = true) by (first [exact (Hm c eq_refl) | rewrite (Hm c eq_refl); exact Ec]).
            cbn. rewrite Hc. constructor; [reflexivity|]. apply IH; auto.
          * rewrite Hs. cbn.
            destruct (snd (calc_reuse r olds 0 None)) as [j|]; [destruct (nth_error olds j)|];
              cbn; rewrite Ec; (constructor; [reflexivity|apply IH; auto]).
        + destruct (mismatch res r); [apply IH; auto|].
          destruct mo as [c|].
          * assert (Hc : cls (c_rule c) = false) by (first [exact (Hm c eq_refl) | rewrite (Hm c eq_refl); exact Ec]).
            cbn. rewrite Hc. apply IH; auto.
          * destruct (supported r); cbn; [|apply IH; auto].
            destruct (snd (calc_reuse r olds 0 None)) as [j|]; [destruct (nth_error olds j)|];
              cbn; rewrite Ec; apply IH; auto.
    Qed.

    (* C14: the k-th rule of the class in the new list is served by the k-th old controller of the
       class (the same object: rule, identity, statistics), as far as the old controllers last;
       the surplus rules get controllers created by this load *)
    Lemma unchanged_keeps_controller n rules olds :
      (forall x, In x rules -> cls x = true -> mismatch res x = false /\ supported x = true) ->
      cls_compat olds rules ->
      Forall2 (served n)
              (expected (length (filter cls rules)) (filter clsC olds))
              (filter clsC (build n res rules olds)).
    Proof.
      intros Hok Hcc. unfold Rules.build. destruct (match_equal res rules olds) as [m rest] eqn:E.
      destruct (match_equal_cls rules olds m rest (fun x Hx Hc => proj1 (Hok x Hx Hc)) Hcc E) as [A B].
      rewrite <- A. apply build2_cls; auto.
    Qed.
    (* the common case spelled out: exactly one old controller and exactly one new rule in the class
       (the unchanged rule, once in either list): after the load exactly one controller serves the
       class, and it is the old object *)
    Lemma unchanged_single n rules olds c0 :
      (forall x, In x rules -> cls x = true -> mismatch res x = false /\ supported x = true) ->
      cls_compat olds rules ->
      filter clsC olds = [c0] -> length (filter cls rules) = 1%nat ->
      filter clsC (build n res rules olds) = [c0].
    Proof.
      intros Hok Hcc Ho Hn. pose proof (unchanged_keeps_controller n rules olds Hok Hcc) as H.
      rewrite Ho, Hn in H. cbn in H.
      inversion H as [|mo c l1 l2 Hs Hr E1 E2]. subst. inversion Hr. subst. cbn in Hs. subst. reflexivity.
    Qed.
  End Class.

  (* C14: statistics reuse.  A rule that matched no old controller is generated over the statistics
     of the first old controller left over by the first loop that is statistic-reusable with it;
     statistics only ever come from a statistic-reusable left-over controller *)
  Fixpoint find_reuse (r : rule) (olds : list ctrl) : option nat :=
    match olds with
    | [] => None
    | o :: rest => if stat_reusable (c_rule o) r then Some O else option_map S (find_reuse r rest)
    end.

  Lemma calc_reuse_snd_noequal r olds : forall idx,
    Forall (fun c => equal (c_rule c) r = false) olds ->
    snd (calc_reuse r olds idx None) = option_map (fun i => (idx + i)%nat) (find_reuse r olds).
  Proof. clear equal_supported.
    induction olds as [|o rest IH]; intros idx H; cbn; [reflexivity|].
    inversion H as [|? ? Ho Hr]. subst. rewrite Ho.
    destruct (stat_reusable (c_rule o) r) eqn:E; cbn.
    - (* first reusable found: later candidates are ignored *)
      clear IH. assert (X : forall l i, Forall (fun c => equal (c_rule c) r = false) l -> snd (calc_reuse r l i (Some idx)) = Some idx).
      { induction l as [|a l IHl]; intros i Hl; cbn; [reflexivity|]. inversion Hl. subst.
        rewrite H2. destruct (negb (stat_reusable (c_rule a) r)); apply IHl; auto. }
      rewrite X by exact Hr. f_equal. lia.
    - rewrite IH by exact Hr. destruct (find_reuse r rest); cbn; [f_equal; lia|reflexivity].
  Qed.

  Lemma build2_stat_first n res r rs ms olds pos :
    mismatch res r = false -> supported r = true ->
    Forall (fun c => equal (c_rule c) r = false) olds ->
    forall j o, find_reuse r olds = Some j -> nth_error olds j = Some o ->
    build2 n res (r :: rs) (None :: ms) olds pos
      = {| c_rule := r; c_id := (n, res, pos); c_stat := c_stat o |} :: build2 n res rs ms (remove_nth j olds) (pos + 1).
  Proof. clear equal_supported.
    intros Hm Hs He j o Hf Hn. cbn. rewrite Hm, Hs. cbn.
    rewrite (calc_reuse_snd_noequal r olds 0 He), Hf. cbn. rewrite Hn. reflexivity.
  Qed.

  Lemma build2_stat_fresh n res r rs ms olds pos :
    mismatch res r = false -> supported r = true ->
    Forall (fun c => equal (c_rule c) r = false) olds ->
    find_reuse r olds = None ->
    build2 n res (r :: rs) (None :: ms) olds pos
      = {| c_rule := r; c_id := (n, res, pos); c_stat := (n, res, pos) |} :: build2 n res rs ms olds (pos + 1).
  Proof. clear equal_supported.
    intros Hm Hs He Hf. cbn. rewrite Hm, Hs. cbn.
    rewrite (calc_reuse_snd_noequal r olds 0 He), Hf. reflexivity.
  Qed.

  (* every controller of the result is an old controller or a new one whose statistics are its own
     or those of a statistic-reusable left-over old controller *)
  Lemma build2_stat_sound n res rules : forall m olds0 olds pos,
    (forall x, In x olds -> In x olds0) ->
    Forall2 (fun mo r => forall c, mo = Some c -> In c olds0 /\ equal (c_rule c) r = true) m rules ->
    Forall (fun c => In c olds0 \/
                     (fst (fst (c_id c)) = n /\
                      (c_stat c = c_id c \/ exists o, In o olds0 /\ stat_reusable (c_rule o) (c_rule c) = true /\ c_stat c = c_stat o)))
           (build2 n res rules m olds pos).
  Proof. clear equal_supported.
    induction rules as [|r rs IH]; intros m olds0 olds pos Hsub HF; cbn.
    - destruct m; constructor.
    - inversion HF as [|mo r' ms rs' Hm HF' E1 E2]. subst. cbn.
      destruct (mismatch res r); [eapply IH; eauto|].
      destruct mo as [c|].
      + constructor; [left; exact (proj1 (Hm c eq_refl))|eapply IH; eauto].
      + destruct (supported r); cbn; [|eapply IH; eauto].
        destruct (snd (calc_reuse r olds 0 None)) as [j|] eqn:Ej.
        * destruct (nth_error olds j) as [o|] eqn:En.
          -- constructor.
             ++ right. cbn. split; [reflexivity|]. right. exists o. split; [apply Hsub; eapply nth_error_In; eauto|].
                split; [|reflexivity].
                (* the index returned by calc_reuse is statistic-reusable *)
                clear - Ej En.
                assert (G : forall l idx re, snd (calc_reuse r l idx re) = Some j ->
                            re = Some j \/ exists k o', (j = idx + k)%nat /\ nth_error l k = Some o' /\ stat_reusable (c_rule o') r = true).
                { induction l as [|a l IHl]; intros idx re; cbn; [auto|].
                  destruct (equal (c_rule a) r); cbn; [auto|].
                  destruct (stat_reusable (c_rule a) r) eqn:Er; cbn.
                  - destruct re as [x|].
                    + intros H. destruct (IHl _ _ H) as [H1|[k [o' [H1 [H2 H3]]]]]; [auto|].
                      right. exists (S k), o'. repeat split; auto; lia.
                    + intros H. destruct (IHl _ _ H) as [H1|[k [o' [H1 [H2 H3]]]]].
                      * inversion H1. subst. right. exists O, a. repeat split; auto; lia.
                      * right. exists (S k), o'. repeat split; auto; lia.
                  - intros H. destruct (IHl _ _ H) as [H1|[k [o' [H1 [H2 H3]]]]]; [auto|].
                    right. exists (S k), o'. repeat split; auto; lia. }
                destruct (G olds O None Ej) as [X|[k [o' [H1 [H2 H3]]]]]; [discriminate|].
                cbn in H1. subst k. rewrite En in H2. inversion H2. subst. exact H3.
             ++ eapply IH; eauto. intros x Hx. apply Hsub. eapply remove_nth_incl; eauto.
          -- constructor; [right; cbn; auto|eapply IH; eauto].
        * constructor; [right; cbn; auto|eapply IH; eauto].
  Qed.

  Lemma build_stat_sound n res rules olds :
    Forall (fun c => In c olds \/
                     (fst (fst (c_id c)) = n /\
                      (c_stat c = c_id c \/ exists o, In o olds /\ stat_reusable (c_rule o) (c_rule c) = true /\ c_stat c = c_stat o)))
           (build n res rules olds).
  Proof. clear equal_supported.
    unfold Rules.build. destruct (match_equal res rules olds) as [m rest] eqn:E.
    destruct (match_equal_spec _ _ _ _ _ E) as [H1 H2]. eapply build2_stat_sound; eauto.
  Qed.
End Generic.

(* ------------------------------------------------------------------------------------------ *)
(* the instances' side conditions *)

Ltac split_andb :=
  repeat match goal with
         | H : _ && _ = true |- _ => apply andb_prop in H; destruct H
         end.

Lemma flow_equal_supported a b : flow_equal a b = true -> flow_supported a = true -> flow_supported b = true.
Proof. unfold flow_equal, flow_supported. intros H1 H2. split_andb. lia. Qed.

Lemma iso_equal_supported a b : iso_never a b = true -> iso_always a = true -> iso_always b = true.
Proof. reflexivity. Qed.

Lemma hot_equal_supported a b : hot_equal a b = true -> hot_supported a = true -> hot_supported b = true.
Proof. unfold hot_equal, hot_supported. intros H1 H2. split_andb. lia. Qed.

Lemma brk_equal_supported a b : brk_equal a b = true -> brk_supported a = true -> brk_supported b = true.
Proof. unfold brk_equal, brk_supported. intros H1 H2. split_andb. lia. Qed.

(* ------------------------------------------------------------------------------------------ *)
(* system *)

Definition sys_list (l : option (list (option srule))) : list (option srule) := match l with Some x => x | None => [] end.

Fixpoint sys_latest_from (acc : list (option srule)) (hist : list (option (list (option srule)) * result)) : list (option srule) :=
  match hist with
  | [] => acc
  | (o, x) :: h => sys_latest_from (if changed x then sys_list o else acc) h
  end.

Lemma sys_load_unchanged s l : changed (snd (sys_load s l)) = false -> fst (sys_load s l) = s.
Proof. unfold sys_load. destruct (opt_eqb _ (sys_raw s) l); cbn; [reflexivity|discriminate]. Qed.

Lemma sys_load_changed s l : changed (snd (sys_load s l)) = true ->
  sys_rules (fst (sys_load s l)) = filter sys_valid (nonnil (sys_list l)).
Proof. unfold sys_load. destruct (opt_eqb _ (sys_raw s) l); cbn; [discriminate|reflexivity]. Qed.

Lemma sys_run_cons s o ops :
  sys_run s (o :: ops) = (fst (sys_run (fst (sys_load s o)) ops), snd (sys_load s o) :: snd (sys_run (fst (sys_load s o)) ops)).
Proof. cbn. destruct (sys_load s o) as [s1 x]. cbn. destruct (sys_run s1 ops). reflexivity. Qed.

Lemma sys_run_inv ops : forall s cur,
  sys_rules s = filter sys_valid (nonnil cur) ->
  sys_rules (fst (sys_run s ops)) = filter sys_valid (nonnil (sys_latest_from cur (combine ops (snd (sys_run s ops))))).
Proof.
  induction ops as [|o r IH]; intros s cur H; [exact H|].
  rewrite sys_run_cons. cbn [fst snd combine sys_latest_from]. apply IH.
  destruct (changed (snd (sys_load s o))) eqn:E.
  - apply sys_load_changed. exact E.
  - rewrite sys_load_unchanged by exact E. exact H.
Qed.

Lemma sys_enforced_eq_valid_latest ops :
  sys_rules (fst (sys_run sys_init ops)) = filter sys_valid (nonnil (sys_latest_from [] (combine ops (snd (sys_run sys_init ops))))).
Proof. apply sys_run_inv. reflexivity. Qed.

Lemma sys_identical_reload s l :
  Forall (fun r => sys_deep_eq r r = true) (nonnil (sys_list l)) ->
  sys_load (fst (sys_load s l)) l = (fst (sys_load s l), r_unchanged).
Proof.
  intros H. destruct (opt_eqb (list_eqb (opt_eqb sys_deep_eq)) (sys_raw s) l) eqn:E.
  - assert (X : sys_load s l = (s, r_unchanged)) by (unfold sys_load; rewrite E; reflexivity). rewrite X. cbn. exact X.
  - assert (X : sys_raw (fst (sys_load s l)) = l) by (unfold sys_load; rewrite E; reflexivity).
    unfold sys_load at 1. rewrite X.
    assert (R : opt_eqb (list_eqb (opt_eqb sys_deep_eq)) l l = true).
    { destruct l as [x|]; cbn; [|reflexivity]. cbn in H. clear - H.
      induction x as [|[y|] r IH]; cbn in *; [reflexivity| |auto]. inversion H. subst. rewrite H2. cbn. auto. }
    rewrite R. reflexivity.
Qed.

Lemma sys_no_panic s l : panicked (snd (sys_load s l)) = false /\ err (snd (sys_load s l)) = false.
Proof. unfold sys_load. destruct (opt_eqb _ (sys_raw s) l); split; reflexivity. Qed.

(* ------------------------------------------------------------------------------------------ *)
(* outlier *)

Definition out_last_for (res : Z) (l : list orule) : option orule :=
  fold_left (fun acc r => if out_resource r =? res then Some r else acc) l None.

Definition out_candidates (l : list (option orule)) : list orule :=
  filter (fun r => match o_cb r with Some _ => true | None => false end) (nonnil l).

Lemma out_group_lookup_gen res l : forall m acc,
  alookup res m = acc ->
  alookup res (fold_left (fun m r => aset (out_resource r) r m) l m)
  = fold_left (fun acc r => if out_resource r =? res then Some r else acc) l acc.
Proof.
  induction l as [|r rs IH]; intros m acc H; cbn; [exact H|].
  apply IH. destruct (out_resource r =? res) eqn:E.
  - assert (out_resource r = res) as -> by lia. apply alookup_aset_same.
  - rewrite alookup_aset_other by lia. exact H.
Qed.

Lemma out_group_lookup res l : alookup res (out_group l) = out_last_for res (out_candidates l).
Proof. unfold out_group, out_last_for, out_candidates. apply out_group_lookup_gen. reflexivity. Qed.

(* the rule in force for `res` after an op, given the one before *)
Definition out_effect (o : out_op) (res : Z) (before : option orule) : option orule :=
  match o with
  | OLoadAll l => match out_last_for res (out_candidates l) with
                  | Some r => if out_valid r then Some r else None
                  | None => None
                  end
  | OLoadRes r x => if r =? res then x else before
  end.

Lemma alookup_mem_keys {A} k (m : list (Z * A)) : memZ k (akeys m) = false -> alookup k m = None.
Proof.
  induction m as [|[k' v] r IH]; cbn; [reflexivity|]. unfold akeys in *. cbn.
  destruct (k =? k'); cbn; [discriminate|exact IH].
Qed.

Lemma out_step_unchanged s o :
  changed (snd (out_step s o)) = false \/ err (snd (out_step s o)) = true -> fst (out_step s o) = s.
Proof.
  destruct o as [l|res r]; cbn; unfold out_load_all, out_load_res;
    repeat (match goal with |- context [match ?x with _ => _ end] => destruct x eqn:? end);
    cbn; auto; intros [H|H]; discriminate.
Qed.

Lemma out_step_effective s o res :
  changed (snd (out_step s o)) = true -> err (snd (out_step s o)) = false ->
  alookup res (out_rules (fst (out_step s o))) = out_effect o res (alookup res (out_rules s)).
Proof.
  destruct o as [l|r x]; cbn.
  - unfold out_load_all. destruct (amap_eqb out_deep_eq (out_raw s) (out_group l)); cbn; [discriminate|]. intros _ _.
    rewrite alookup_amap_of, <- out_group_lookup.
    destruct (memZ res (akeys (out_group l))) eqn:E; [reflexivity|]. rewrite (alookup_mem_keys _ _ E). reflexivity.
  - unfold out_load_res. destruct (r =? 0) eqn:E0; cbn; [discriminate|].
    destruct x as [x|]; cbn.
    + destruct (opt_eqb out_deep_eq (alookup r (out_raw s)) (Some x)); cbn; [discriminate|].
      destruct (out_valid x); cbn; [|discriminate]. intros _ _.
      destruct (r =? res) eqn:E; [assert (r = res) as -> by lia; apply alookup_aset_same|apply alookup_aset_other; lia].
    + destruct (alookup r (out_raw s)); cbn; [|discriminate].
      intros _ _. destruct (r =? res) eqn:E; [assert (r = res) as -> by lia; apply alookup_adel_same|apply alookup_adel_other; lia].
Qed.

Fixpoint out_latest_from (acc : option orule) (hist : list (out_op * result)) (res : Z) : option orule :=
  match hist with
  | [] => acc
  | (o, x) :: h => out_latest_from (if changed x && negb (err x) then out_effect o res acc else acc) h res
  end.

Lemma out_run_cons s o ops :
  out_run s (o :: ops) = (fst (out_run (fst (out_step s o)) ops), snd (out_step s o) :: snd (out_run (fst (out_step s o)) ops)).
Proof. cbn. destruct (out_step s o) as [s1 x]. cbn. destruct (out_run s1 ops). reflexivity. Qed.

Lemma out_run_inv res ops : forall s,
  alookup res (out_rules (fst (out_run s ops)))
  = out_latest_from (alookup res (out_rules s)) (combine ops (snd (out_run s ops))) res.
Proof.
  induction ops as [|o r IH]; intros s; [reflexivity|].
  rewrite out_run_cons. cbn [fst snd combine out_latest_from]. rewrite IH. f_equal.
  destruct (changed (snd (out_step s o))) eqn:E1; cbn.
  - destruct (err (snd (out_step s o))) eqn:E2; cbn.
    + rewrite out_step_unchanged by (right; exact E2). reflexivity.
    + apply out_step_effective; assumption.
  - rewrite out_step_unchanged by (left; exact E1). reflexivity.
Qed.

Lemma out_enforced_eq_valid_latest ops res :
  alookup res (out_rules (fst (out_run out_init ops))) = out_latest_from None (combine ops (snd (out_run out_init ops))) res.
Proof. apply (out_run_inv res ops out_init). Qed.

(* whatever is in force passed both validity checks *)
Lemma out_step_valid s o :
  (forall k r, alookup k (out_rules s) = Some r -> out_valid r = true) ->
  forall k r, alookup k (out_rules (fst (out_step s o))) = Some r -> out_valid r = true.
Proof.
  intros H k r. destruct (changed (snd (out_step s o))) eqn:E1.
  - destruct (err (snd (out_step s o))) eqn:E2.
    + rewrite out_step_unchanged by (right; exact E2). apply H.
    + rewrite (out_step_effective s o k E1 E2). destruct o as [l|r0 x]; cbn.
      * destruct (out_last_for k (out_candidates l)) as [y|]; [|discriminate].
        destruct (out_valid y) eqn:V; [|discriminate]. intros X. inversion X. subst. exact V.
      * destruct (r0 =? k) eqn:E; [|apply H]. intros X. subst x.
        revert E1 E2. cbn. unfold out_load_res. destruct (r0 =? 0); cbn; [discriminate|].
        destruct (opt_eqb out_deep_eq (alookup r0 (out_raw s)) (Some r)); cbn; [discriminate|].
        destruct (out_valid r); cbn; [reflexivity|discriminate].
  - rewrite out_step_unchanged by (left; exact E1). apply H.
Qed.

Lemma out_run_valid ops : forall s,
  (forall k r, alookup k (out_rules s) = Some r -> out_valid r = true) ->
  forall k r, alookup k (out_rules (fst (out_run s ops))) = Some r -> out_valid r = true.
Proof.
  induction ops as [|o rs IH]; intros s H; [exact H|]. rewrite out_run_cons. cbn [fst].
  apply IH. apply out_step_valid. exact H.
Qed.

Lemma out_no_panic s o : panicked (snd (out_step s o)) = false.
Proof.
  destruct o as [l|res r]; cbn; unfold out_load_all, out_load_res;
    repeat (match goal with |- context [match ?x with _ => _ end] => destruct x eqn:? end); reflexivity.
Qed.

Lemma out_identical_reload_res s res x :
  out_deep_eq x x = true -> out_valid x = true -> res <> 0 ->
  out_load_res (fst (out_load_res s res (Some x))) res (Some x) = (fst (out_load_res s res (Some x)), r_unchanged).
Proof.
  intros Hr Hv Hne. assert (E0 : res =? 0 = false) by lia.
  destruct (opt_eqb out_deep_eq (alookup res (out_raw s)) (Some x)) eqn:E.
  - assert (X : out_load_res s res (Some x) = (s, r_unchanged)) by (unfold out_load_res; rewrite E0, E; reflexivity).
    rewrite X. cbn. exact X.
  - assert (X : alookup res (out_raw (fst (out_load_res s res (Some x)))) = Some x).
    { unfold out_load_res. rewrite E0, E, Hv. cbn. apply alookup_aset_same. }
    unfold out_load_res at 1. rewrite E0, X. cbn. rewrite Hr. reflexivity.
Qed.

(* clearing a resource twice: the second clear finds nothing cached and reports 'unchanged' *)
Lemma out_identical_clear_res s res :
  res <> 0 ->
  out_load_res (fst (out_load_res s res None)) res None = (fst (out_load_res s res None), r_unchanged).
Proof.
  intros Hne. assert (E0 : res =? 0 = false) by lia.
  destruct (alookup res (out_raw s)) eqn:E.
  - assert (X : alookup res (out_raw (fst (out_load_res s res None))) = None)
      by (unfold out_load_res; rewrite E0, E; cbn; apply alookup_adel_same).
    unfold out_load_res at 1. rewrite E0, X. reflexivity.
  - assert (X : out_load_res s res None = (s, r_unchanged)) by (unfold out_load_res; rewrite E0, E; reflexivity).
    rewrite X. cbn. exact X.
Qed.

Lemma aset_In {A} k (v : A) m kv : In kv (aset k v m) -> kv = (k, v) \/ In kv m.
Proof.
  induction m as [|[k' v'] r IH]; cbn.
  - intros [H|[]]; auto.
  - destruct (k =? k'); cbn; intros [H|H]; auto. destruct (IH H); auto.
Qed.

Lemma out_group_values l : forall m kv,
  In kv (fold_left (fun m r => aset (out_resource r) r m) l m) -> In kv m \/ In (snd kv) l.
Proof.
  induction l as [|r rs IH]; intros m kv; cbn; [auto|].
  intros H. destruct (IH _ _ H) as [H1|H1]; [|auto].
  destruct (aset_In _ _ _ _ H1) as [->|H2]; cbn; auto.
Qed.

Lemma out_identical_reload_all s l :
  Forall (fun r => out_deep_eq r r = true) (nonnil l) ->
  out_load_all (fst (out_load_all s l)) l = (fst (out_load_all s l), r_unchanged).
Proof.
  intros H. destruct (amap_eqb out_deep_eq (out_raw s) (out_group l)) eqn:E.
  - assert (X : out_load_all s l = (s, r_unchanged)) by (unfold out_load_all; rewrite E; reflexivity). rewrite X. cbn. exact X.
  - assert (X : out_raw (fst (out_load_all s l)) = out_group l) by (unfold out_load_all; rewrite E; reflexivity).
    unfold out_load_all at 1. rewrite X.
    assert (R : amap_eqb out_deep_eq (out_group l) (out_group l) = true).
    { apply amap_eqb_refl. apply Forall_forall. intros kv Hin. unfold out_group in Hin.
      destruct (out_group_values _ _ _ Hin) as [[]|H1]. apply filter_In in H1. destruct H1 as [H1 _].
      rewrite Forall_forall in H. auto. }
    rewrite R. reflexivity.
Qed.

Lemma out_only_valid ops k r :
  alookup k (out_rules (fst (out_run out_init ops))) = Some r -> out_valid r = true.
Proof. apply (out_run_valid ops out_init). intros k0 r0 H. discriminate H. Qed.

(* ------------------------------------------------------------------------------------------ *)
(* a NaN threshold / trigger count (the only float x with x =? x false) fails the validity checks *)
Lemma flow_nan_invalid tm r : (f_thr r =? f_thr r)%float = false -> flow_valid tm r = false.
Proof. intros H. unfold flow_valid. rewrite H. destruct (f_res r =? 0); reflexivity. Qed.

Lemma brk_nan_invalid r : (b_thr r =? b_thr r)%float = false -> brk_valid r = false.
Proof.
  intros H. unfold brk_valid. rewrite H.
  destruct (b_res r =? 0); [reflexivity|]. destruct (b_interval r <=? 0); [reflexivity|].
  destruct (b_retry r <=? 0); reflexivity.
Qed.

Lemma sys_nan_invalid r : (s_trigger r =? s_trigger r)%float = false -> sys_valid r = false.
Proof. intros H. unfold sys_valid. rewrite H. reflexivity. Qed.

(* ------------------------------------------------------------------------------------------ *)
(* C14: behaviour.  A controller's decisions are a function of the controller object (bound rule,
   identity, statistics object) and of the runtime store, which rule loading never touches; a kept
   controller object therefore decides exactly as in the run without the reload. *)
Section Behaviour.
  Variable rule rt input decision : Type.
  Variable cstep : ctrl rule -> rt -> input -> rt * decision.

  Fixpoint ctrace (c : ctrl rule) (st : rt) (ins : list input) : rt * list decision :=
    match ins with
    | [] => (st, [])
    | i :: r => let '(st1, d) := cstep c st i in let '(st2, ds) := ctrace c st1 r in (st2, d :: ds)
    end.

  Lemma behaviour_invisible n (mo : option (ctrl rule)) c old :
    served rule n mo c -> mo = Some old -> forall st ins, ctrace c st ins = ctrace old st ins.
  Proof. intros H -> st ins. cbn in H. subst. reflexivity. Qed.
End Behaviour.
