(* Termination of recorders and readers (C09_termination), variant / progress formulation:
   a measure W bounded by the programs that no step increases, that every step outside the spin loop
   of currentBucketOfTime strictly decreases; a failed TryLock is possible only while another thread is
   inside the critical section, and that thread's steps all decrease W (no blocking step inside). *)
From SG Require Import Base.Prelude Base.GoInt Model.LeapArrayConc Proofs.LeapArrayConcProofs.

Definition sumN (l : list nat) : nat := fold_right Nat.add 0%nat l.

Lemma sumN_map_upd_nth {A} (w : A -> nat) n (f : A -> A) l x :
  nth_error l n = Some x -> (sumN (map w (upd_nth n f l)) + w x = sumN (map w l) + w (f x))%nat.
Proof.
  revert n; induction l as [|y r IH]; intros [|n] H; cbn [map upd_nth nth_error sumN fold_right] in *; try discriminate.
  - inversion H; subst. lia.
  - specialize (IH _ H). unfold sumN in IH. lia.
Qed.

(* ------------------------------------------------------------------------------------ *)
(* the measure *)

Definition in_loop (p : pc) : bool := match p with PGet | PLoad1 | PLoad2 | PLoad3 | PTryLock => true | _ => false end.

(* steps still ahead of a read that is about to enter / inside valuesWithTime and the summation *)
Definition rbase (g : geom) (t : thread) : nat := (5 + length (t_acc t) + 3 * (g_n g - t_i t))%nat.
Definition base (g : geom) (t : thread) : nat :=
  match t_ops t with ORead _ :: _ => rbase g t | _ => 3%nat end.
(* an upper bound of the non-spinning steps of one whole operation *)
Definition full (g : geom) (o : op) : nat :=
  (match o with ORead _ => 5 + 3 * g_n g | ORecord _ _ => 3 end + 12)%nat.

Definition cur (g : geom) (t : thread) : nat :=
  match t_ops t with
  | [] => 0
  | o :: _ =>
    match t_pc t with
    | PDone => 0
    | PBegin => full g o
    | PGet | PLoad1 | PLoad2 | PLoad3 | PTryLock => base g t + 11
    | PZero k => base g t + 5 + (5 - k)
    | PZeroMin => base g t + 4
    | PZeroMax => base g t + 3
    | PStoreStart => base g t + 2
    | PUnlock => base g t + 1
    | PAdd => 3 | PRtLoad => 2 | PRtStore => 1
    | PVGet => rbase g t
    | PVStart => rbase g t - 1
    | PSum => 2 + length (t_acc t)
    | PRet => 1
    end
  end%nat.

Definition rank (g : geom) (t : thread) : nat := (sumN (map (full g) (tl (t_ops t))) + cur g t)%nat.
Definition W (g : geom) (c : config) : nat := sumN (map (rank g) (thr c)).

(* pc and operation kind fit together (holds in every reachable configuration) *)
Definition wf (t : thread) : Prop :=
  match t_ops t with
  | [] => True
  | ORead _ :: _ => match t_pc t with PAdd | PRtLoad | PRtStore | PDone => False | _ => True end
  | ORecord _ _ :: _ => match t_pc t with PVGet | PVStart | PSum | PRet | PDone => False | _ => True end
  end.

Ltac crush_local :=
  unfold after_cb, vloop, next_op, set_pc, start_pc; cbn [t_ops t_pc t_now t_acc t_i t_sum t_rets tl];
  repeat (match goal with
          | |- context [if ?b then _ else _] => destruct b eqn:?
          | |- context [match ?l with [] => _ | _ :: _ => _ end] => destruct l eqn:?
          | |- context [match ?o with ORecord _ _ => _ | ORead _ => _ end] => destruct o eqn:?
          end; cbn [t_ops t_pc t_now t_acc t_i t_sum t_rets tl]).

Lemma tstep_wf g tid s t e t' : tstep g tid s t = (e, t') -> wf t -> wf t'.
Proof.
  intros H. unfold wf. tstep_inv H t; rewrite ?Eops, ?Epc; crush_local; auto; try tauto; try congruence.
  all: try (exfalso; cbn in *; congruence).
Qed.

Lemma wf_init ops : wf (init_thread ops).
Proof. unfold wf, init_thread; cbn. destruct ops as [|[k a|k] r]; cbn; auto. Qed.

Lemma rank_next_op g t o ops : t_ops t = o :: ops -> rank g (next_op t) = sumN (map (full g) ops).
Proof.
  intros E. unfold rank, next_op, cur; cbn [t_ops t_pc tl]. rewrite E; cbn [tl].
  destruct ops as [|o2 r]; cbn [start_pc tl map sumN fold_right]; lia.
Qed.

(* every step of an unfinished thread decreases its rank, or is a step inside the spin loop that leaves it equal *)
Lemma tstep_rank g tid s t e t' :
  g_zero_first g = true -> tstep g tid s t = (e, t') -> wf t -> t_ops t <> [] ->
  (rank g t' < rank g t)%nat \/
  (rank g t' = rank g t /\ in_loop (t_pc t) = true /\ in_loop (t_pc t') = true /\ e = ENone).
Proof.
  intros Hzf H Hwf Hne. unfold wf in Hwf.
  tstep_inv H t; try congruence; rewrite ?Eops, ?Epc, ?Hzf in *; try contradiction.
  all: unfold after_cb, vloop; rewrite ?Eops; cbn [t_ops t_pc t_acc t_i tl].
  all: repeat match goal with |- context [if ?b then _ else _] => destruct b eqn:? | |- context [match ?l with [] => _ | _ :: _ => _ end] => destruct l eqn:? end.
  all: try (erewrite rank_next_op by first [exact Eops | reflexivity]).
  all: unfold rank, cur, base, rbase, full, set_pc; cbn [t_ops t_pc t_acc t_i tl]; rewrite ?Eops, ?Epc; cbn [tl length];
       rewrite ?app_length; cbn [length]; unfold n_events, sumN in *.
  all: rewrite ?Heql, ?Eacc in *; cbn [length] in *.
  all: first [ solve [left; lia] | solve [right; repeat split; auto; lia] | idtac ].
  all: unfold next_op, start_pc; cbn [t_ops t_pc t_acc t_i tl]; rewrite ?Eops; cbn [tl]; destruct ops as [|o2 r]; cbn [map fold_right tl]; left.
  all: try (apply (f_equal (@length _)) in Heql; rewrite app_length in Heql; cbn [length] in Heql).
  all: lia.
Qed.

(* ------------------------------------------------------------------------------------ *)
(* the try-lock word is held exactly while one thread is inside the critical section *)

Definition cs_count (ts : list thread) : nat :=
  sumN (map (fun t => match t_ops t with [] => 0 | _ => if in_cs (t_pc t) then 1 else 0 end)%nat ts).

Definition cs_ok (c : config) : Prop := cs_count (thr c) = if lock (sh c) then 1%nat else 0%nat.

Definition cs_w (t : thread) : nat := match t_ops t with [] => 0 | _ => if in_cs (t_pc t) then 1 else 0 end%nat.

Lemma cs_w_vloop g t : cs_w (vloop g t) = 0%nat.
Proof.
  unfold vloop. destruct (_ <? _)%nat; [|destruct (t_acc t)]; unfold cs_w, set_pc; cbn [t_ops t_pc in_cs]; destruct (t_ops t); reflexivity.
Qed.

(* how one step moves the lock word and the thread's membership of the critical section *)
Lemma tstep_cs g tid s t e t' :
  g_zero_first g = true -> tstep g tid s t = (e, t') -> wf t ->
  match e with
  | ELock true => lock s = false /\ cs_w t = 0%nat /\ cs_w t' = 1%nat
  | ELock false => cs_w t = 1%nat /\ cs_w t' = 0%nat
  | _ => cs_w t' = cs_w t
  end.
Proof.
  intros Hzf H Hwf. unfold wf in Hwf.
  tstep_inv H t; rewrite ?Eops, ?Epc, ?Hzf in *; try contradiction; rewrite ?cs_w_vloop; unfold cs_w; rewrite ?Eops, ?Epc; cbn [in_cs];
    unfold after_cb, vloop, next_op, set_pc, start_pc; cbn [t_ops t_pc t_acc t_i tl in_cs]; rewrite ?Eops; cbn [t_ops t_pc t_acc t_i tl in_cs];
    repeat (match goal with
            | |- context [if ?b then _ else _] => destruct b eqn:?
            | |- context [match ?l with [] => _ | _ :: _ => _ end] => destruct l eqn:?
            end; cbn [t_ops t_pc t_acc t_i tl in_cs]); auto; try congruence; try (repeat split; auto; congruence).
Qed.

Lemma cs_count_upd tid t t' ts :
  nth_error ts tid = Some t -> (cs_count (upd_nth tid (fun _ => t') ts) + cs_w t = cs_count ts + cs_w t')%nat.
Proof. intros H. unfold cs_count. apply (sumN_map_upd_nth cs_w tid (fun _ => t') ts t H). Qed.

Record TInv (c : config) : Prop := { ti_wf : Forall wf (thr c); ti_cs : cs_ok c }.

Lemma apply_eff_lock e s : lock (apply_eff e s) = match e with ELock b => b | _ => lock s end.
Proof. destruct e; reflexivity. Qed.

Lemma step_tinv g c e : g_zero_first g = true -> TInv c -> TInv (step g c e).
Proof.
  intros Hzf [Hwf Hcs]. destruct e as [tid|dt]; cbn [step].
  - destruct (nth_error (thr c) tid) as [t|] eqn:Et; [|constructor; auto].
    destruct (tstep g tid (sh c) t) as [e t'] eqn:Est.
    pose proof (Forall_nth_error _ _ _ _ Hwf Et) as Hwt.
    pose proof (tstep_cs _ _ _ _ _ _ Hzf Est Hwt) as Hc.
    pose proof (cs_count_upd tid t t' (thr c) Et) as Hu.
    constructor; cbn [sh thr].
    + apply Forall_upd_nth; auto. intros x _. eapply tstep_wf; eauto.
    + unfold cs_ok in *. cbn [sh thr]. rewrite apply_eff_lock.
      destruct e as [| [|] | | | | | | |]; try (destruct (lock (sh c)); lia).
  - constructor; auto.
Qed.

Lemma exec_tinv g sched c : g_zero_first g = true -> TInv c -> TInv (exec g sched c).
Proof. intros Hzf. revert c. induction sched as [|e r IH]; intros c Hc; cbn; auto. apply IH. apply step_tinv; auto. Qed.

Lemma init_tinv g t0 progs : TInv (init g t0 progs).
Proof.
  constructor; cbn [init thr sh].
  - rewrite Forall_map. rewrite Forall_forall. intros ops _. apply wf_init.
  - unfold cs_ok, cs_count. cbn [init sh thr init_shared lock]. rewrite map_map.
    induction progs as [|ops r IH]; cbn [map sumN fold_right]; auto.
    unfold sumN in IH. rewrite IH. unfold init_thread; cbn [t_ops t_pc]. destruct ops; cbn; reflexivity.
Qed.

(* ------------------------------------------------------------------------------------ *)
(* the variant *)

Lemma W_upd g tid t t' c :
  nth_error (thr c) tid = Some t ->
  (sumN (map (rank g) (upd_nth tid (fun _ => t') (thr c))) + rank g t = W g c + rank g t')%nat.
Proof. intros H. apply (sumN_map_upd_nth (rank g) tid (fun _ => t') (thr c) t H). Qed.

Definition unfinished (c : config) (tid : nat) : Prop :=
  exists t, nth_error (thr c) tid = Some t /\ t_ops t <> [].
Definition pc_of (c : config) (tid : nat) : pc := match nth_error (thr c) tid with Some t => t_pc t | None => PDone end.

(* a step of an unfinished thread decreases W, or it is a step inside the spin loop of currentBucketOfTime
   that changes nothing but that thread's pc *)
Lemma variant_step g c tid :
  g_zero_first g = true -> TInv c -> unfinished c tid ->
  let c' := step g c (Run tid) in
  (W g c' < W g c)%nat \/
  (W g c' = W g c /\ in_loop (pc_of c tid) = true /\ in_loop (pc_of c' tid) = true /\ sh c' = sh c).
Proof.
  intros Hzf [Hwf _] (t & Et & Hne) c'. subst c'. unfold pc_of. cbn [step]. rewrite Et.
  destruct (tstep g tid (sh c) t) as [e t'] eqn:Est. cbn [thr sh].
  pose proof (Forall_nth_error _ _ _ _ Hwf Et) as Hwt.
  pose proof (W_upd g tid t t' c Et) as Hu.
  rewrite (nth_error_upd_nth_same _ _ _ _ Et).
  destruct (tstep_rank _ _ _ _ _ _ Hzf Est Hwt Hne) as [Hlt|(Heq & Hl1 & Hl2 & ->)].
  - left. unfold W at 1. cbn [thr]. lia.
  - right. repeat split; auto. unfold W at 1. cbn [thr]. lia.
Qed.

Lemma step_W_le g c e : g_zero_first g = true -> TInv c -> (W g (step g c e) <= W g c)%nat.
Proof.
  intros Hzf Hi. destruct e as [tid|dt]; [|cbn [step]; unfold W; cbn [thr]; lia].
  destruct (nth_error (thr c) tid) as [t|] eqn:Et.
  - destruct (t_ops t) as [|o ops] eqn:Eo.
    + cbn [step]. rewrite Et. unfold tstep. rewrite Eo. cbn [apply_eff thr sh].
      pose proof (W_upd g tid t t c Et). unfold W at 1. cbn [thr]. lia.
    + assert (Hu : unfinished c tid) by (exists t; split; auto; congruence).
      destruct (variant_step g c tid Hzf Hi Hu) as [H|(H & _)]; lia.
  - cbn [step]. rewrite Et. lia.
Qed.

(* a failed TryLock: the lock word is set *)
Lemma spin_needs_lock g c tid t :
  g_zero_first g = true -> nth_error (thr c) tid = Some t -> t_ops t <> [] -> t_pc t = PTryLock ->
  pc_of (step g c (Run tid)) tid = PGet -> lock (sh c) = true.
Proof.
  intros Hzf Et Hne Hpc. unfold pc_of. cbn [step]. rewrite Et.
  destruct (tstep g tid (sh c) t) as [e t'] eqn:Est. cbn [thr]. rewrite (nth_error_upd_nth_same _ _ _ _ Et).
  unfold tstep in Est. destruct (t_ops t) as [|o ops]; [congruence|]. rewrite Hpc, Hzf in Est.
  destruct (lock (sh c)); auto. inversion Est; subst. cbn. discriminate.
Qed.

Lemma sumN_pos {A} (w : A -> nat) l : (0 < sumN (map w l))%nat -> exists n x, nth_error l n = Some x /\ (0 < w x)%nat.
Proof.
  induction l as [|y r IH]; cbn [map sumN fold_right]; [lia|]. intros H.
  destruct (Nat.eq_dec (w y) 0) as [E|E].
  - destruct IH as (n & x & Hn & Hx); [unfold sumN; lia|]. exists (S n), x. auto.
  - exists 0%nat, y. split; auto. lia.
Qed.

(* while the lock word is set some thread is inside the critical section, and every step of that thread
   decreases W: the critical section has no blocking and no spinning step *)
Lemma holder_progress g c :
  g_zero_first g = true -> TInv c -> lock (sh c) = true ->
  exists h t, nth_error (thr c) h = Some t /\ t_ops t <> [] /\ in_cs (t_pc t) = true /\ (W g (step g c (Run h)) < W g c)%nat.
Proof.
  intros Hzf Hi Hl. pose proof (ti_cs _ Hi) as Hcs. unfold cs_ok in Hcs. rewrite Hl in Hcs.
  destruct (sumN_pos cs_w (thr c)) as (h & t & Et & Hw); [unfold cs_count in Hcs; fold cs_w in Hcs; lia|].
  exists h, t. unfold cs_w in Hw. destruct (t_ops t) as [|o ops] eqn:Eo; [lia|].
  destruct (in_cs (t_pc t)) eqn:Ecs; [|lia]. repeat split; auto; try congruence.
  assert (Hu : unfinished c h) by (exists t; split; auto; congruence).
  destruct (variant_step g c h Hzf Hi Hu) as [H|(_ & Hloop & _)]; auto.
  unfold pc_of in Hloop. rewrite Et in Hloop. destruct (t_pc t); cbn in *; discriminate.
Qed.

(* in every schedule at most W(c) steps decrease W; all the others are spin steps (or steps of finished threads, or ticks) *)
Fixpoint useful_steps (g : geom) (sched : schedule) (c : config) : nat :=
  match sched with
  | [] => 0
  | e :: r => ((if (W g (step g c e) <? W g c)%nat then 1 else 0) + useful_steps g r (step g c e))%nat
  end.

Lemma bounded_work g sched c :
  g_zero_first g = true -> TInv c -> (useful_steps g sched c + W g (exec g sched c) <= W g c)%nat.
Proof.
  intros Hzf. revert c. induction sched as [|e r IH]; intros c Hi; cbn [useful_steps exec fold_left]; [lia|].
  pose proof (step_W_le g c e Hzf Hi) as Hle. pose proof (IH _ (step_tinv g c e Hzf Hi)) as Hr. unfold exec in Hr.
  destruct (Nat.ltb_spec (W g (step g c e)) (W g c)); lia.
Qed.

Definition prog_cost (g : geom) (progs : list (list op)) : nat := sumN (map (fun ops => sumN (map (full g) ops)) progs).

Lemma W_init g t0 progs : W g (init g t0 progs) = prog_cost g progs.
Proof.
  unfold W, prog_cost. cbn [init thr]. rewrite map_map. f_equal. apply map_ext. intros ops.
  unfold rank, cur, init_thread; cbn [t_ops t_pc]. destruct ops as [|o r]; cbn [tl start_pc map sumN fold_right]; lia.
Qed.

(* the retry edge PLoad3 -> PGet is taken only if the slot's start changed between the thread's three loads
   (102 and the two unlabelled ones): with the same start at the three loads the thread leaves the loop *)
Lemma no_retry_same_start g tid s1 s2 s3 t e1 t1 e2 t2 e3 t3 :
  t_ops t <> [] -> t_pc t = PLoad1 ->
  tstep g tid s1 t = (e1, t1) -> t_pc t1 = PLoad2 ->
  tstep g tid s2 t1 = (e2, t2) -> t_pc t2 = PLoad3 ->
  tstep g tid s3 t2 = (e3, t3) ->
  let S := fun s => s_start (nth (bidx g (t_now t)) (slots s) dslot) in
  S s2 = S s1 -> S s3 = S s1 -> t_pc t3 <> PGet.
Proof.
  intros Hne Hpc H1 Hp1 H2 Hp2 H3 S E2 E3. subst S. cbv beta in *.
  unfold tstep in H1. destruct (t_ops t) as [|o ops] eqn:Eo; [congruence|]. rewrite Hpc in H1.
  destruct (bstart g (t_now t) =? _) eqn:C1 in H1.
  - exfalso. inversion H1; subst. unfold after_cb in Hp1. rewrite Eo in Hp1. destruct o; cbn in Hp1; discriminate.
  - inversion H1; subst e1 t1. clear H1.
    unfold tstep in H2. cbn [set_pc t_ops t_pc t_now] in H2. rewrite Eo in H2.
    destruct (_ <? bstart g (t_now t)) eqn:C2 in H2.
    + exfalso. inversion H2; subst. cbn in Hp2. discriminate.
    + inversion H2; subst e2 t2. clear H2.
      unfold tstep in H3. cbn [set_pc t_ops t_pc t_now] in H3. rewrite Eo in H3.
      destruct (bstart g (t_now t) <? _) eqn:C3 in H3.
      * destruct (Nat.eqb (g_n g) 1); inversion H3; subst; unfold after_cb, next_op, set_pc; cbn [t_ops t_pc]; rewrite ?Eo;
          destruct o; cbn [t_pc tl]; try discriminate; unfold start_pc; destruct ops; discriminate.
      * exfalso. rewrite E2 in C2. rewrite E3 in C3. lia.
Qed.

(* ------------------------------------------------------------------------------------ *)
(* C09_termination, collected for every reachable configuration *)

Lemma termination_variant g t0 progs sched :
  g_zero_first g = true ->
  let c := exec g sched (init g t0 progs) in
  (forall e, (W g (step g c e) <= W g c)%nat) /\
  (forall tid, unfinished c tid ->
     let c' := step g c (Run tid) in
     (W g c' < W g c)%nat \/
     (W g c' = W g c /\ in_loop (pc_of c tid) = true /\ in_loop (pc_of c' tid) = true /\ sh c' = sh c)) /\
  (forall tid t, nth_error (thr c) tid = Some t -> t_ops t <> [] -> t_pc t = PTryLock ->
     pc_of (step g c (Run tid)) tid = PGet -> lock (sh c) = true) /\
  (lock (sh c) = true ->
     exists h t, nth_error (thr c) h = Some t /\ t_ops t <> [] /\ in_cs (t_pc t) = true /\ (W g (step g c (Run h)) < W g c)%nat).
Proof.
  intros Hzf c. assert (Hi : TInv c) by (apply exec_tinv; auto; apply init_tinv).
  split; [|split; [|split]].
  - intros e. apply step_W_le; auto.
  - intros tid Hu. apply variant_step; auto.
  - intros tid t. apply spin_needs_lock; auto.
  - apply holder_progress; auto.
Qed.

Lemma termination_bounded_work g t0 progs sched :
  g_zero_first g = true ->
  (useful_steps g sched (init g t0 progs) + W g (exec g sched (init g t0 progs)) <= prog_cost g progs)%nat.
Proof. intros Hzf. rewrite <- (W_init g t0 progs). apply bounded_work; auto. apply init_tinv. Qed.
