(* Throttling-mode controller of Model/Hotspot.v ([throttle_check]: one LRU cache of scheduled
   pass times, int64 arithmetic, the float64 round trip of the spacing) against the pacing cell of
   one value ([pace_step]), for multi-value histories whose values fit the parameter cache:
   spacing of the scheduled pass times (whole-millisecond floor), bound of the requested waits,
   independence; and the witness that the exact rational spacing is not kept (finding C05-F1). *)
From SG Require Import Base.Prelude Base.GoInt Base.GoFloat Model.LRU Model.Hotspot
  Proofs.LRUProofs Proofs.HotspotBucketProofs Proofs.HotspotCtrlProofs Proofs.HotspotEnvProofs.
#[local] Open Scope Z_scope.

Definition two61 : Z := 2305843009213693952.
Definition two40 : Z := 1099511627776.

(* the decision a pacing outcome stands for: wait in ms -> time.Duration in ns *)
Definition wdec (w : option Z) : dec :=
  match w with
  | None => DBlock None
  | Some w => if 0 <? w then DWait (w * 1000000) else DPass
  end.

Definition wait_of (d : dec) : option Z :=
  match d with DPass => Some 0 | DWait ns => Some (ns / 1000000) | _ => None end.

Lemma wait_of_wdec w : (match w with Some x => 0 <= x | None => True end) -> wait_of (wdec w) = w.
Proof.
  destruct w as [w|]; [|reflexivity]. intros Hw. unfold wdec.
  destruct (0 <? w) eqn:E; cbn [wait_of].
  - f_equal. apply Z.div_mul. lia.
  - f_equal. lia.
Qed.

(* spacing the code computes for a batch, under the guard: floor (b * D_ms / T) *)
Definition spacing (r : rule) (k b : Z) : Z := b * (r_dur r * 1000) / tok_count r k.

(* no overflow, no float rounding: threshold positive, batch*duration_ms below 2^53, clock and
   queueing limit far from the int64 limits *)
Definition tguard (r : rule) (v t0 tmax : Z) : Prop :=
  0 < tok_count r v /\ 0 <= r_dur r /\ batch_max * (r_dur r * 1000) < two53 /\
  r_maxq r < two40 /\ - two61 < t0 /\ t0 <= tmax /\ tmax < two61.

Lemma throttle_interval_guard r v t0 tmax b :
  tguard r v t0 tmax -> 0 <= b < batch_max ->
  throttle_interval r v b = spacing r v b /\ 0 <= spacing r v b < two53.
Proof.
  unfold tguard, batch_max, two53, two61, two40. intros [HT [HD [Hp _]]] Hb.
  unfold throttle_interval, spacing, f64_round_trip, two53.
  assert (H1 : 0 <= b * r_dur r <= 4294967296 * r_dur r) by nia.
  rewrite (i64_small (b * r_dur r)) by lia.
  rewrite (i64_small (b * r_dur r * 1000)) by lia.
  assert (Hpos : 0 <= b * r_dur r * 1000) by lia.
  rewrite (Z.quot_div_nonneg _ _ Hpos HT).
  assert (Hq : 0 <= b * r_dur r * 1000 / tok_count r v <= b * r_dur r * 1000).
  { split; [apply Z.div_pos; lia|]. apply Z.div_le_upper_bound; [lia|]. nia. }
  rewrite (i64_small (b * r_dur r * 1000 / tok_count r v)) by lia.
  replace (b * (r_dur r * 1000)) with (b * r_dur r * 1000) by ring.
  destruct (Z.abs (b * r_dur r * 1000 / tok_count r v) <? 9007199254740992) eqn:E; [|lia].
  split; [reflexivity|lia].
Qed.

Definition tcell (m : metric) (k : Z) : option Z := alookup k (m_time m).

Definition tcell_in (t0 hi : Z) (c : option Z) : Prop :=
  match c with None => True | Some last => t0 <= last <= hi end.

(* one check of value k = one pacing step on k's cell; other cells untouched *)
Lemma throttle_check_spec r (K : list Z) m now k b t0 tmax t :
  NoDup K -> Z.of_nat (length K) <= cache_size r -> In k K -> real_key k ->
  cache_in K m -> tguard r k t0 tmax -> 0 <= b < batch_max ->
  t0 <= t <= now -> now <= tmax -> tcell_in t0 (t + Z.max 0 (r_maxq r)) (tcell m k) ->
  let Q := r_maxq r in let I := spacing r k b in
  let m' := fst (throttle_check r m now k b) in
  snd (throttle_check r m now k b) = wdec (snd (pace_step Q (tcell m k) now I)) /\
  tcell m' k = fst (pace_step Q (tcell m k) now I) /\
  (forall k', k' <> k -> tcell m' k' = tcell m k') /\
  cache_in K m' /\ m_tok m' = m_tok m /\
  tcell_in t0 (now + Z.max 0 (r_maxq r)) (tcell m' k).
Proof.
  intros HK Hfit Hin Hr [Hnd Hincl] Hg Hb Ht Hmax Hc Q I m'. subst m'.
  destruct (throttle_interval_guard r k t0 tmax b Hg Hb) as [Hiv HI]. fold I in Hiv, HI.
  destruct Hg as [HT [HD [Hp [HQ [Ht0 [Ht01 Htm]]]]]].
  unfold two40, two61, two53 in *.
  pose proof (lru_step_no_evict (cache_size r) K (m_time m) (OpAddIfAbsent k now) HK Hfit Hin Hr Hnd Hincl)
    as Hs. cbn [lru_step op_key fst snd] in Hs. cbn zeta in Hs.
  destruct Hs as [Hnd1 [Hincl1 [Hoth1 [Hk1 Hret]]]].
  unfold throttle_check. destruct (tok_count r k <=? 0) eqn:ET; [lia|].
  rewrite Hiv. unfold tcell, cache_in in *.
  destruct (lru_add_if_absent (cache_size r) k now (m_time m)) as [tc1 lastp]. cbn [fst snd] in *.
  subst lastp. unfold pace_step. fold Q.
  destruct (alookup k (m_time m)) as [last|] eqn:El.
  - cbn [tcell_in] in Hc.
    rewrite (i64_small (last + I)) by lia.
    rewrite (i64_small (last + I - now)) by lia.
    destruct ((last + I <=? now) || (last + I - now <? Q)) eqn:EA.
    + destruct (0 <? last + I - now) eqn:EW; cbn [fst snd m_time m_tok wdec]; rewrite ?EW.
      * assert (Hw : last + I - now < Q) by lia.
        rewrite (i64_small ((last + I - now) * 1000000)) by (fold Q in HQ; lia).
        repeat split; auto.
        -- apply alookup_set_same. eapply alookup_some_in; eauto.
        -- intros k' Hne. rewrite alookup_set_other by exact Hne. now apply Hoth1.
        -- now rewrite keys_lru_set.
        -- now rewrite keys_lru_set.
        -- rewrite alookup_set_same by (eapply alookup_some_in; eauto). cbn. fold Q. lia.
      * assert (H0 : (0 <? 0) = false) by reflexivity. rewrite H0.
        repeat split; auto.
        -- apply alookup_set_same. eapply alookup_some_in; eauto.
        -- intros k' Hne. rewrite alookup_set_other by exact Hne. now apply Hoth1.
        -- now rewrite keys_lru_set.
        -- now rewrite keys_lru_set.
        -- rewrite alookup_set_same by (eapply alookup_some_in; eauto). cbn. lia.
    + cbn [fst snd m_time m_tok wdec]. repeat split; auto.
      rewrite Hk1. cbn. lia.
  - cbn [fst snd m_time m_tok wdec]. assert (H0 : (0 <? 0) = false) by reflexivity. rewrite H0.
    repeat split; auto. rewrite Hk1. cbn. lia.
Qed.

(* ---- histories of one throttling controller -------------------------------------------------- *)

Fixpoint thr_run (r : rule) (m : metric) (calls : list (Z * Z * Z)) : metric * list dec :=
  match calls with
  | [] => (m, [])
  | (now, k, b) :: rest =>
      let '(m1, d) := throttle_check r m now k b in
      let '(m2, ds) := thr_run r m1 rest in (m2, d :: ds)
  end.

(* the sub-history of v with the spacing computed for each request *)
Definition pcalls (r : rule) (v : Z) (calls : list (Z * Z * Z)) : list (Z * Z) :=
  map (fun nb => (fst nb, spacing r v (snd nb))) (proj v calls).

Lemma pcalls_cons_same r v now b rest :
  pcalls r v ((now, v, b) :: rest) = (now, spacing r v b) :: pcalls r v rest.
Proof. unfold pcalls. cbn [proj]. rewrite Z.eqb_refl. reflexivity. Qed.

Lemma pcalls_cons_other r v now k b rest : (k =? v) = false ->
  pcalls r v ((now, k, b) :: rest) = pcalls r v rest.
Proof. intros E. unfold pcalls. cbn [proj]. now rewrite E. Qed.

(* every value of the history meets the guard (each has its own threshold) *)
Definition tguard_all (r : rule) (K : list Z) (t0 tmax : Z) : Prop :=
  forall k, In k K -> tguard r k t0 tmax.

Lemma thr_run_pace_gen r K v t0 tmax calls : forall m t,
  tguard_all r K t0 tmax -> fits r K calls -> calls_ok t tmax calls -> t0 <= t ->
  cache_in K m -> (forall k, In k K -> tcell_in t0 (t + Z.max 0 (r_maxq r)) (tcell m k)) ->
  In v K ->
  decs_for v calls (snd (thr_run r m calls)) =
    map wdec (snd (pace_run (r_maxq r) (tcell m v) (pcalls r v calls))) /\
  m_tok (fst (thr_run r m calls)) = m_tok m.
Proof.
  induction calls as [|[[now k] b] rest IH]; intros m t Hg Hf Hok Ht Hci Hcells Hv.
  - split; reflexivity.
  - destruct Hf as [HK [Hfit Hall]]. inversion Hall as [|? ? [Hin Hr] Hrest]; subst.
    cbn [fst snd] in Hin, Hr. cbn [calls_ok] in Hok. destruct Hok as [Hnow [Hb Hokr]].
    pose proof (throttle_check_spec r K m now k b t0 tmax t HK Hfit Hin Hr Hci (Hg k Hin) Hb
                  ltac:(lia) ltac:(lia) (Hcells k Hin)) as Hs. cbn zeta in Hs.
    destruct Hs as [Hd [Hc [Hoth [Hci' [Htok Hcin]]]]].
    cbn [thr_run]. destruct (throttle_check r m now k b) as [m1 d]. cbn [fst snd] in *.
    assert (Hcells' : forall k0, In k0 K -> tcell_in t0 (now + Z.max 0 (r_maxq r)) (tcell m1 k0)).
    { intros k0 Hk0. destruct (Z.eq_dec k0 k) as [->|Hne]; [exact Hcin|].
      rewrite (Hoth k0 Hne). specialize (Hcells k0 Hk0).
      destruct (tcell m k0); cbn in *; [lia|exact I]. }
    specialize (IH m1 now Hg ltac:(repeat split; assumption) Hokr ltac:(lia) Hci' Hcells' Hv).
    destruct (thr_run r m1 rest) as [m2 ds]. cbn [fst snd decs_for] in *.
    destruct IH as [IH1 IH2]. split; [|congruence].
    destruct (k =? v) eqn:E.
    + assert (k = v) by lia. subst k. rewrite pcalls_cons_same. cbn [pace_run].
      destruct (pace_step (r_maxq r) (tcell m v) now (spacing r v b)) as [c1 w]. cbn [fst snd] in *.
      rewrite Hc in IH1. destruct (pace_run (r_maxq r) c1 (pcalls r v rest)) as [c2 l].
      cbn [snd map] in *. now rewrite Hd, IH1.
    + rewrite (pcalls_cons_other _ _ _ _ _ _ E). rewrite (Hoth v ltac:(lia)) in IH1. exact IH1.
Qed.

Theorem thr_run_pace r K v t0 tmax calls :
  tguard_all r K t0 tmax -> fits r K calls -> calls_ok t0 tmax calls -> In v K ->
  decs_for v calls (snd (thr_run r metric0 calls)) =
    map wdec (snd (pace_run (r_maxq r) None (pcalls r v calls))).
Proof.
  intros Hg Hf Hok Hv.
  destruct (thr_run_pace_gen r K v t0 tmax calls metric0 t0 Hg Hf Hok (Z.le_refl _)) as [H _]; auto.
  - split; cbn; [constructor|intros x []].
  - intros k _. exact I.
Qed.

Lemma pace_run_waits_nonneg Q calls : forall c,
  Forall (fun w => match w with Some x => 0 <= x | None => True end) (snd (pace_run Q c calls)).
Proof.
  intros c. pose proof (pace_run_wait Q calls c) as H. eapply Forall_impl; [|exact H].
  intros [w|]; tauto.
Qed.

Lemma map_wait_of_wdec l :
  Forall (fun w => match w with Some x => 0 <= x | None => True end) l ->
  map wait_of (map wdec l) = l.
Proof.
  induction 1 as [|w l Hw Hl IH]; [reflexivity|]. cbn [map]. rewrite IH. f_equal.
  now apply wait_of_wdec.
Qed.

(* waits (ms) requested from v's requests: Some 0 = pass at once, None = rejected *)
Definition waits_of (v : Z) (calls : list (Z * Z * Z)) (ds : list dec) : list (option Z) :=
  map wait_of (decs_for v calls ds).

Lemma waits_of_pace r K v t0 tmax calls :
  tguard_all r K t0 tmax -> fits r K calls -> calls_ok t0 tmax calls -> In v K ->
  waits_of v calls (snd (thr_run r metric0 calls)) =
  snd (pace_run (r_maxq r) None (pcalls r v calls)).
Proof.
  intros Hg Hf Hok Hv. unfold waits_of. rewrite (thr_run_pace r K v t0 tmax calls Hg Hf Hok Hv).
  apply map_wait_of_wdec. apply pace_run_waits_nonneg.
Qed.

(* spacing: consecutive scheduled pass times (arrival + requested wait) of the admitted requests
   for v are at least floor(batch * duration_ms / threshold) apart *)
Theorem thr_spacing r K v t0 tmax calls :
  tguard_all r K t0 tmax -> fits r K calls -> calls_ok t0 tmax calls -> In v K ->
  spaced None (schedule (pcalls r v calls) (waits_of v calls (snd (thr_run r metric0 calls)))).
Proof.
  intros Hg Hf Hok Hv. rewrite (waits_of_pace r K v t0 tmax calls Hg Hf Hok Hv).
  apply pace_run_spaced.
Qed.

(* no admitted request is asked to wait as long as the maximum queueing time *)
Theorem thr_wait r K v t0 tmax calls :
  tguard_all r K t0 tmax -> fits r K calls -> calls_ok t0 tmax calls -> In v K ->
  Forall (fun w => match w with Some w => 0 <= w /\ (0 < w -> w < r_maxq r) | None => True end)
         (waits_of v calls (snd (thr_run r metric0 calls))).
Proof.
  intros Hg Hf Hok Hv. rewrite (waits_of_pace r K v t0 tmax calls Hg Hf Hok Hv).
  apply pace_run_wait.
Qed.

(* independence in throttling mode *)
Lemma tguard_all_single r K v t0 tmax : tguard_all r K t0 tmax -> In v K -> tguard_all r [v] t0 tmax.
Proof. intros H Hv k [<-|[]]. now apply H. Qed.

Lemma pcalls_only r v calls : pcalls r v (only v calls) = pcalls r v calls.
Proof. unfold pcalls. now rewrite proj_only. Qed.

Lemma thr_run_length r calls : forall m, length (snd (thr_run r m calls)) = length calls.
Proof.
  induction calls as [|[[now k] b] rest IH]; intros m; [reflexivity|].
  cbn [thr_run]. destruct (throttle_check r m now k b) as [m1 d]. specialize (IH m1).
  destruct (thr_run r m1 rest) as [m2 ds]. cbn [snd length] in *. now rewrite IH.
Qed.

Theorem thr_run_independence r K v t0 tmax calls :
  tguard_all r K t0 tmax -> fits r K calls -> calls_ok t0 tmax calls -> In v K ->
  decs_for v calls (snd (thr_run r metric0 calls)) = snd (thr_run r metric0 (only v calls)).
Proof.
  intros Hg Hf Hok Hv.
  pose proof (thr_run_pace r K v t0 tmax calls Hg Hf Hok Hv) as H1.
  pose proof (thr_run_pace r [v] v t0 tmax (only v calls) (tguard_all_single _ _ _ _ _ Hg Hv)
                (fits_only _ _ _ _ Hf Hv) (calls_ok_only v calls _ _ Hok) ltac:(left; reflexivity)) as H2.
  rewrite pcalls_only in H2. rewrite H1, <- H2. apply decs_for_only. apply thr_run_length.
Qed.

(* the token cache is never touched in throttling mode *)
Lemma throttle_check_tok r m now k b : m_tok (fst (throttle_check r m now k b)) = m_tok m.
Proof.
  unfold throttle_check. destruct (tok_count r k <=? 0); [reflexivity|].
  destruct (lru_add_if_absent (cache_size r) k now (m_time m)) as [tc1 [last|]]; [|reflexivity].
  destruct (_ || _); [|reflexivity]. destruct (0 <? _); reflexivity.
Qed.

Lemma throttle_check_no_spin r m now k b : snd (throttle_check r m now k b) <> DSpin.
Proof.
  unfold throttle_check. destruct (tok_count r k <=? 0); [discriminate|].
  destruct (lru_add_if_absent (cache_size r) k now (m_time m)) as [tc1 [last|]]; [|discriminate].
  destruct (_ || _); [|discriminate]. destruct (0 <? _); discriminate.
Qed.

(* ---- finding C05-F1: the exact spacing batch*duration/threshold is not kept ------------------ *)

Definition f1_rule : rule :=
  {| r_metric := 1; r_behavior := 1; r_idx := 0; r_key := 0; r_thr := 2000; r_maxq := 0;
     r_burst := 0; r_dur := 1; r_cap := 0; r_spec := [] |}.
Definition f1_calls : list (Z * Z * Z) := [(1700000000000, 5, 1); (1700000000000, 5, 1)].

Lemma f1_witness :
  snd (thr_run f1_rule metric0 f1_calls) = [DPass; DPass] /\
  schedule (pcalls f1_rule 5 f1_calls) (waits_of 5 f1_calls (snd (thr_run f1_rule metric0 f1_calls)))
    = [(1700000000000, 0); (1700000000000, 0)].
Proof. vm_compute. split; reflexivity. Qed.
