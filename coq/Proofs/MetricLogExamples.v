(* C17: concrete histories used as non-vacuity witnesses in Properties/C17.v (proved here so that
   the property file stays cheap to re-check). *)
From SG Require Import Base.Prelude Base.GoInt Model.MLBytes Model.MLDecimal Model.MetricLog Model.MetricLogSpec
  Proofs.MLBytesProofs Proofs.MetricLogLineProofs Proofs.MetricLogBoundProofs Proofs.MetricLogWriterProofs
  Proofs.MetricLogMainProofs.

(* a history with a same-second second batch, size rolls, removals (2 files kept), and five
   queries on the one searcher, interleaved with the writes *)
Definition ex_cfg : cfg := mkCfg 60 2 0.
Definition ex_item (r : Z) : item := mkItem 0 [] [r] 1 2 3 4 5 6 7 8.
Definition ex_ops : list op :=
  [Write 1700000001000 [50] [ex_item 97; ex_item 98]; Write 1700000001500 [50] [ex_item 97];
   Find (QFrom 1700000001000 10);
   Write 1700000002000 [50] [ex_item 97]; Write 1700000003000 [50] [ex_item 98];
   Find (QRange 1700000002000 1700000009000 []); Find (QFrom 1700000003000 1);
   Write 1700000004000 [50] [ex_item 97; ex_item 98]; Write 1700000000500 [50] [ex_item 99];
   Find (QRange 1700000001000 1700000009000 [98]); Find (QFrom 1700000001000 1)].

Lemma search_example :
  good_cfg ex_cfg 1700000000000 /\ Forall good_op ex_ops /\
  map (map (fun it => (i_ts it, i_res it))) (snd (run ex_cfg (sys_init ex_cfg 1700000000000) ex_ops)) =
  [[]; []; [(1700000001000, [97]); (1700000001000, [98]); (1700000001500, [97])]; []; [];
   [(1700000002000, [97]); (1700000003000, [98])]; [(1700000003000, [98])]; []; [];
   [(1700000003000, [98]); (1700000004000, [98])]; [(1700000003000, [98])]] /\
  map (fun f => (f_day f, f_seq f)) (w_fs (y_w (fst (run ex_cfg (sys_init ex_cfg 1700000000000) ex_ops)))) =
  [(19675, 2); (19675, 3)].
Proof.
  split; [unfold good_cfg, two62; cbn; lia|]. split; [|split; vm_compute; reflexivity].
  repeat constructor; try (vm_compute; reflexivity);
    unfold valid_item, lim64, lim32, half32, bar; cbn; intuition lia.
Qed.

(* cuts of a directory's last data file / idx file (4 lines of 34 bytes, 3 idx entries): a cut
   inside the last line drops that line only; an idx cut inside the third entry loses the answer
   for a begin time that needs it, not for one served by the second entry *)
Definition ex_cfg2 : cfg := mkCfg 1000 3 0.
Definition ex_ops2 : list op :=
  [Write 1700000001000 [50] [ex_item 97; ex_item 98]; Write 1700000002000 [50] [ex_item 97];
   Write 1700000003000 [50] [ex_item 98]].

Lemma truncation_example :
  let y := fst (run ex_cfg2 (sys_init ex_cfg2 1700000000000) ex_ops2) in
  let fs := w_fs (y_w y) in
  good_cfg ex_cfg2 1700000000000 /\ Forall good_op ex_ops2 /\
  map (fun f => (lenZ (f_data f), lenZ (f_idx f))) fs = [(136, 48)] /\
  map i_ts (snd (search (cut_last false 135 fs) s_init (QFrom 0 100))) =
    [1700000001000; 1700000001000; 1700000002000] /\
  map i_ts (snd (search fs s_init (QFrom 0 100))) =
    [1700000001000; 1700000001000; 1700000002000; 1700000003000] /\
  map i_ts (snd (search (cut_last true 47 fs) s_init (QFrom 1700000003000 100))) = [] /\
  map i_ts (snd (search (cut_last true 47 fs) s_init (QFrom 1700000002000 100))) =
    [1700000002000; 1700000003000].
Proof.
  cbn zeta. split; [unfold good_cfg, two62; cbn; lia|]. split; [|vm_compute; repeat split; reflexivity].
  repeat constructor; try (vm_compute; reflexivity);
    unfold valid_item, lim64, lim32, half32, bar; cbn; intuition lia.
Qed.


(* the ghost state of the first history: three retained items (two files survive), of which the
   accepted list has seven (one write is ignored as older) *)
Lemma retained_example :
  map i_ts (retained (g_run ex_cfg (g_init 1700000000000) ex_ops)) = [1700000003000; 1700000004000; 1700000004000] /\
  lenZ (accepted 1700000000000 ex_ops) = 7.
Proof. vm_compute. split; reflexivity. Qed.

(* a data file holding one complete line followed by a torn one *)
Lemma file_roundtrip_example :
  Forall valid_item [mkItem 1700000001000 [50] [97] 1 2 3 4 5 6 7 8] /\ ~ In 10 [49; 55; 48] /\
  read_items ([120; 10] ++ enc_lines [mkItem 1700000001000 [50] [97] 1 2 3 4 5 6 7 8] ++ [49; 55; 48]) 2 =
  [mkItem 1700000001000 [50] [97] 1 2 3 4 5 6 7 8].
Proof.
  split; [|split; [cbn; lia|vm_compute; reflexivity]].
  repeat constructor; unfold valid_item, lim64, lim32, half32, bar; cbn; intuition lia.
Qed.
