(* Round trip of the JSON wire format of Model/Json.v: decode (encode l) = Rules l. *)
From Coq Require Import Ascii DecimalString DecimalZ DecimalPos Decimal.
From SG Require Import Base.Prelude Model.Json.

Local Open Scope nat_scope.
Local Open Scope char_scope.

(* ---- byte strings -------------------------------------------------------------------------- *)

Lemma la_eqb_refl a : la_eqb a a = true.
Proof. induction a as [|c a IH]; cbn; auto. rewrite Ascii.eqb_refl. exact IH. Qed.

Lemma la_eqb_eq a b : la_eqb a b = true -> a = b.
Proof.
  revert b. induction a as [|c a IH]; intros [|d b]; cbn; try discriminate; auto.
  intros H. apply andb_true_iff in H. destruct H as [H1 H2].
  apply Ascii.eqb_eq in H1. subst. f_equal. apply IH. exact H2.
Qed.

Lemma la_eqb_neq_sym a b : la_eqb a b = false -> la_eqb b a = false.
Proof.
  intros H. destruct (la_eqb b a) eqn:E; auto. apply la_eqb_eq in E. subst. rewrite la_eqb_refl in H. discriminate.
Qed.

(* what may follow a value: a comma or a closing brace / bracket *)
Definition sep (r : jbytes) : Prop :=
  exists c r', r = c :: r' /\ (c = "," \/ c = "}" \/ c = "]").

Lemma sep_not_num r : sep r -> match r with c :: _ => is_numchar c = false | [] => True end.
Proof. intros [c [r' [E [H|[H|H]]]]]; subst; reflexivity. Qed.

Lemma numchar_not_special c : is_numchar c = true -> Ascii.eqb c q = false /\ Ascii.eqb c "[" = false.
Proof.
  destruct c as [[] [] [] [] [] [] [] []]; vm_compute; intros H; try discriminate; split; reflexivity.
Qed.

Lemma strchar_not_q c : is_strchar c = true -> Ascii.eqb c q = false.
Proof.
  unfold is_strchar. intros H. apply andb_true_iff in H. destruct H as [H _].
  apply andb_true_iff in H. destruct H as [_ H]. destruct (Ascii.eqb c q); [discriminate|reflexivity].
Qed.

(* ---- lexer ----------------------------------------------------------------------------------- *)

Lemma scan_str_ok s rest : str_ok s = true -> scan_str (s ++ q :: rest) = Some (s, rest).
Proof.
  unfold str_ok. induction s as [|c s IH]; cbn [app scan_str forallb]; intros H.
  - rewrite Ascii.eqb_refl. reflexivity.
  - apply andb_true_iff in H. destruct H as [H1 H2].
    rewrite (strchar_not_q c H1), H1, (IH H2). reflexivity.
Qed.

Lemma quote_app s rest : quote s ++ rest = q :: s ++ q :: rest.
Proof. unfold quote. cbn. rewrite <- app_assoc. reflexivity. Qed.

Lemma p_str_ok s rest : str_ok s = true -> p_str (quote s ++ rest) = Some (s, rest).
Proof. intros H. rewrite quote_app. unfold p_str. rewrite Ascii.eqb_refl. apply scan_str_ok. exact H. Qed.

Lemma span_num_ok t rest :
  forallb is_numchar t = true ->
  match rest with c :: _ => is_numchar c = false | [] => True end ->
  span_num (t ++ rest) = (t, rest).
Proof.
  induction t as [|c t IH]; cbn [app forallb]; intros H D.
  - destruct rest as [|c r]; cbn; [reflexivity|]. rewrite D. reflexivity.
  - apply andb_true_iff in H. destruct H as [H1 H2]. cbn. rewrite H1, (IH H2 D). reflexivity.
Qed.

Definition scalar_ok (x : scalar) : Prop :=
  match x with
  | SNum t => t <> [] /\ forallb is_numchar t = true
  | SStr s => str_ok s = true
  end.

Lemma p_scalar_ok x rest : scalar_ok x -> sep rest -> p_scalar (pr_scalar x ++ rest) = Some (x, rest).
Proof.
  intros H S. destruct x as [t|s]; cbn [pr_scalar scalar_ok] in *.
  - destruct H as [Hne Hn]. destruct t as [|c t]; [congruence|].
    assert (Hc : is_numchar c = true) by (cbn in Hn; apply andb_true_iff in Hn; tauto).
    destruct (numchar_not_special c Hc) as [Hq _].
    unfold p_scalar. cbn [app]. rewrite Hq.
    change (c :: t ++ rest) with ((c :: t) ++ rest).
    rewrite (span_num_ok (c :: t) rest Hn (sep_not_num rest S)). reflexivity.
  - rewrite quote_app. unfold p_scalar. rewrite Ascii.eqb_refl, (scan_str_ok s rest H). reflexivity.
Qed.

Lemma pr_scalar_first x : scalar_ok x -> exists c r, pr_scalar x = c :: r /\ Ascii.eqb c "[" = false.
Proof.
  destruct x as [t|s]; cbn.
  - intros [Hne Hn]. destruct t as [|c t]; [congruence|]. exists c, t. split; auto.
    cbn in Hn. apply andb_true_iff in Hn. destruct Hn as [Hc _]. apply numchar_not_special. exact Hc.
  - intros _. exists q, (s ++ [q]). split; reflexivity.
Qed.

(* ---- members and elements (generic in the value / element parser) ---------------------------- *)

Section Generic.
  Variable A : Type.
  Variable pv : parser A.
  Variable pr : A -> jbytes.
  Variable ok : A -> Prop.
  Variable fuel0 : nat.
  Hypothesis pv_ok : forall v rest, ok v -> length (pr v) <= fuel0 -> sep rest -> pv (pr v ++ rest) = Some (v, rest).

  Definition member_ok (kv : jbytes * A) : Prop := str_ok (fst kv) = true /\ ok (snd kv).

  Lemma pr_members_cons k v l :
    l <> [] -> pr_members pr ((k, v) :: l) = quote k ++ ":" :: pr v ++ "," :: pr_members pr l.
  Proof. destruct l; [congruence|reflexivity]. Qed.

  Lemma sep_comma r : sep ("," :: r).
  Proof. exists ",", r. auto. Qed.
  Lemma sep_brace r : sep ("}" :: r).
  Proof. exists "}", r. auto. Qed.
  Lemma sep_bracket r : sep ("]" :: r).
  Proof. exists "]", r. auto. Qed.

  Lemma p_members_ok l : l <> [] -> Forall member_ok l ->
    forall fuel rest, length (pr_members pr l) <= fuel -> length (pr_members pr l) <= fuel0 ->
    p_members pv fuel (pr_members pr l ++ "}" :: rest) = Some (l, rest).
  Proof.
    induction l as [|[k v] l IH]; [congruence|]. intros _ HF fuel rest Hf Hf0.
    inversion HF as [|x y [Hk Hv] HF']; subst. cbn [fst snd] in *.
    destruct l as [|kv2 l].
    - cbn [pr_members] in *. destruct fuel as [|f]; [rewrite app_length in Hf; cbn in Hf; lia|].
      cbn [p_members]. rewrite <- app_assoc. rewrite (p_str_ok k _ Hk). cbn [app].
      rewrite Ascii.eqb_refl.
      assert (Hl : length (pr v) <= fuel0) by (rewrite app_length in Hf0; cbn in Hf0; lia).
      rewrite (pv_ok v ("}" :: rest) Hv Hl (sep_brace rest)). reflexivity.
    - rewrite pr_members_cons in * by discriminate.
      set (tail := pr_members pr (kv2 :: l)) in *.
      assert (Hlen : length (quote k ++ ":" :: pr v ++ "," :: tail) = length (quote k) + 1 + length (pr v) + 1 + length tail).
      { rewrite !app_length. cbn [length]. rewrite !app_length. cbn [length]. lia. }
      destruct fuel as [|f]; [lia|].
      cbn [p_members]. rewrite <- app_assoc. rewrite (p_str_ok k _ Hk). cbn [app].
      rewrite Ascii.eqb_refl. rewrite <- app_assoc. cbn [app].
      assert (Hl : length (pr v) <= fuel0) by lia.
      rewrite (pv_ok v ("," :: tail ++ "}" :: rest) Hv Hl (sep_comma _)).
      rewrite Ascii.eqb_refl.
      rewrite (IH ltac:(discriminate) HF' f rest ltac:(lia) ltac:(lia)). reflexivity.
  Qed.

  Lemma pr_members_first l : l <> [] -> exists r, pr_members pr l = q :: r.
  Proof.
    destruct l as [|[k v] l]; [congruence|]. intros _. destruct l.
    - cbn. eexists. reflexivity.
    - rewrite pr_members_cons by discriminate. cbn. eexists. reflexivity.
  Qed.

  Lemma p_object_ok l fuel rest : Forall member_ok l ->
    length (pr_object pr l) <= fuel -> length (pr_object pr l) <= fuel0 ->
    p_object pv fuel (pr_object pr l ++ rest) = Some (l, rest).
  Proof.
    intros HF Hf Hf0. unfold pr_object in *. destruct l as [|kv l].
    - reflexivity.
    - destruct (pr_members_first (kv :: l) ltac:(discriminate)) as [r Hr].
      cbn [app length] in *. rewrite app_length in Hf, Hf0. cbn [length] in Hf, Hf0.
      unfold p_object. rewrite Ascii.eqb_refl.
      rewrite <- app_assoc. cbn [app].
      assert (E : pr_members pr (kv :: l) ++ "}" :: rest = q :: r ++ "}" :: rest) by (rewrite Hr; reflexivity).
      rewrite E. change (Ascii.eqb q "}") with false. cbn iota. rewrite <- E.
      apply p_members_ok; auto; try discriminate; lia.
  Qed.

  (* elements *)
  Hypothesis pr_first : forall v, ok v -> exists c r, pr v = c :: r /\ Ascii.eqb c "]" = false.

  Lemma pr_elems_cons x l : l <> [] -> pr_elems pr (x :: l) = pr x ++ "," :: pr_elems pr l.
  Proof. destruct l; [congruence|reflexivity]. Qed.

  Lemma p_elems_ok l : l <> [] -> Forall ok l ->
    forall fuel rest, length (pr_elems pr l) <= fuel -> length (pr_elems pr l) <= fuel0 ->
    p_elems pv fuel (pr_elems pr l ++ "]" :: rest) = Some (l, rest).
  Proof.
    induction l as [|x l IH]; [congruence|]. intros _ HF fuel rest Hf Hf0.
    inversion HF as [|x' y Hx HF']; subst.
    destruct (pr_first x Hx) as [c [r [Ec _]]].
    destruct l as [|x2 l].
    - cbn [pr_elems] in *. destruct fuel as [|f]; [rewrite Ec in Hf; cbn in Hf; lia|].
      cbn [p_elems]. rewrite (pv_ok x ("]" :: rest) Hx Hf0 (sep_bracket rest)).
      change (Ascii.eqb "]" ",") with false. cbn iota. rewrite Ascii.eqb_refl. reflexivity.
    - rewrite pr_elems_cons in * by discriminate.
      set (tail := pr_elems pr (x2 :: l)) in *.
      rewrite app_length in Hf, Hf0. cbn [length] in Hf, Hf0.
      assert (Hlx : (1 <= length (pr x))%nat) by (rewrite Ec; cbn [length]; lia).
      destruct fuel as [|f]; [lia|].
      cbn [p_elems]. rewrite <- app_assoc. cbn [app].
      rewrite (pv_ok x ("," :: tail ++ "]" :: rest) Hx ltac:(lia) (sep_comma _)).
      rewrite Ascii.eqb_refl.
      rewrite (IH ltac:(discriminate) HF' f rest ltac:(lia) ltac:(lia)). reflexivity.
  Qed.

  Lemma p_array_ok l fuel rest : Forall ok l ->
    length (pr_array pr l) <= fuel -> length (pr_array pr l) <= fuel0 ->
    p_array pv fuel (pr_array pr l ++ rest) = Some (l, rest).
  Proof.
    intros HF Hf Hf0. unfold pr_array in *. destruct l as [|x l].
    - reflexivity.
    - assert (Hx : ok x) by (inversion HF; auto).
      destruct (pr_first x Hx) as [c [r [Ec Hc]]].
      cbn [app length] in *. rewrite app_length in Hf, Hf0. cbn [length] in Hf, Hf0.
      unfold p_array. rewrite Ascii.eqb_refl. rewrite <- app_assoc. cbn [app].
      assert (E : exists r2, pr_elems pr (x :: l) ++ "]" :: rest = c :: r2).
      { destruct l; [cbn; rewrite Ec; eexists; reflexivity|].
        rewrite pr_elems_cons by discriminate. rewrite Ec. cbn. eexists. reflexivity. }
      destruct E as [r2 E]. rewrite E, Hc. rewrite <- E.
      apply p_elems_ok; auto; try discriminate; lia.
  Qed.
End Generic.

(* ---- values and documents ------------------------------------------------------------------ *)

Definition flat_ok (f : flat) : Prop := Forall (member_ok scalar scalar_ok) f.

Definition value_ok (v : value) : Prop :=
  match v with VS x => scalar_ok x | VA items => Forall flat_ok items end.

Definition obj_ok (o : obj) : Prop := Forall (member_ok value value_ok) o.

Lemma object_first {A} (pr : A -> jbytes) l : exists c r, pr_object pr l = c :: r /\ Ascii.eqb c "]" = false.
Proof. unfold pr_object. exists "{". eexists. split; reflexivity. Qed.

Lemma p_flat_ok fuel f rest :
  flat_ok f -> length (pr_object pr_scalar f) <= fuel -> sep rest ->
  p_object p_scalar fuel (pr_object pr_scalar f ++ rest) = Some (f, rest).
Proof.
  intros H Hf _. apply (p_object_ok scalar p_scalar pr_scalar scalar_ok fuel); auto.
  intros v r Hv _ S. apply p_scalar_ok; auto.
Qed.

Lemma p_value_ok fuel v rest :
  value_ok v -> length (pr_value v) <= fuel -> sep rest ->
  p_value fuel (pr_value v ++ rest) = Some (v, rest).
Proof.
  intros H Hf S. destruct v as [x|items]; cbn [pr_value value_ok] in *.
  - destruct (pr_scalar_first x H) as [c [r [E Hc]]].
    unfold p_value. rewrite E. cbn [app]. rewrite Hc. change (c :: r ++ rest) with ((c :: r) ++ rest). rewrite <- E.
    rewrite (p_scalar_ok x rest H S). reflexivity.
  - unfold p_value. unfold pr_array at 1. cbn [app]. rewrite Ascii.eqb_refl.
    change ("[" :: (pr_elems (pr_object pr_scalar) items ++ ["]"]) ++ rest)
      with (pr_array (pr_object pr_scalar) items ++ rest).
    rewrite (p_array_ok flat (p_object p_scalar fuel) (pr_object pr_scalar) flat_ok fuel); auto.
    + intros f r Hfl Hl Sr. apply p_flat_ok; auto.
    + intros f _. apply object_first.
Qed.

Lemma p_obj_ok fuel o rest :
  obj_ok o -> length (pr_object pr_value o) <= fuel -> sep rest ->
  p_object (p_value fuel) fuel (pr_object pr_value o ++ rest) = Some (o, rest).
Proof.
  intros H Hf _. apply (p_object_ok value (p_value fuel) pr_value value_ok fuel); auto.
  intros v r Hv Hl S. apply p_value_ok; auto.
Qed.

Lemma parse_ok d : Forall obj_ok d -> parse (pr_doc d) = Some d.
Proof.
  intros H. unfold parse, p_doc.
  set (n := length (pr_doc d)).
  assert (Hn : length (pr_array (pr_object pr_value) d) <= n) by (unfold n, pr_doc; lia).
  replace (pr_doc d) with (pr_array (pr_object pr_value) d ++ []) by (rewrite app_nil_r; reflexivity).
  rewrite (p_array_ok obj (p_object (p_value n) n) (pr_object pr_value) obj_ok n); auto.
  - intros o r Ho Hl S. apply p_obj_ok; auto.
  - intros o _. apply object_first.
Qed.

(* ---- integers ----------------------------------------------------------------------------------- *)

Lemma uint_numchars d : forallb is_numchar (B (NilEmpty.string_of_uint d)) = true.
Proof. induction d; cbn; auto. Qed.

Lemma nz_uint_numchars d : forallb is_numchar (B (NilZero.string_of_uint d)) = true /\ B (NilZero.string_of_uint d) <> [].
Proof.
  unfold NilZero.string_of_uint. destruct d; try (split; [apply uint_numchars | cbn; discriminate]).
  split; [reflexivity | cbn; discriminate].
Qed.

Lemma print_int_ok z : print_int z <> [] /\ forallb is_numchar (print_int z) = true.
Proof.
  unfold print_int. destruct z as [|p|p]; cbn [Z.to_int NilZero.string_of_int].
  - split; [cbn; discriminate | reflexivity].
  - destruct (nz_uint_numchars (Pos.to_uint p)); auto.
  - destruct (nz_uint_numchars (Pos.to_uint p)) as [H1 H2]. cbn. split; [discriminate|exact H1].
Qed.

Lemma parse_print_int z : parse_int (print_int z) = Some z.
Proof.
  unfold parse_int. unfold print_int at 1. unfold B. rewrite string_of_list_ascii_of_string.
  rewrite NilZero.isi.
  - rewrite DecimalZ.of_to. rewrite la_eqb_refl. reflexivity.
  - destruct z; cbn; try discriminate. intros H. inversion H. eapply Unsigned.to_uint_nonnil; eauto.
  - destruct z; cbn; try discriminate. intros H. inversion H. eapply Unsigned.to_uint_nonnil; eauto.
Qed.

(* ---- schema layer --------------------------------------------------------------------------------- *)

Lemma dec_enc_item it : dec_item (enc_item it) = Some it.
Proof.
  destruct it as [[k s] t]. unfold dec_item, enc_item.
  change (lookup (B "valKind") _) with (Some (SNum (print_int k))).
  change (lookup (B "valStr") _) with (Some (SStr s)).
  change (lookup (B "threshold") _) with (Some (SNum (print_int t))).
  cbn iota. rewrite !parse_print_int. reflexivity.
Qed.

Lemma dec_enc_items l : dec_items (map enc_item l) = Some l.
Proof. induction l as [|it l IH]; cbn [map dec_items]; [reflexivity|]. rewrite dec_enc_item, IH. reflexivity. Qed.

Lemma dec_enc_val ty v : val_ok ty v = true -> dec_val ty (enc_val v) = Some v.
Proof.
  destruct ty, v; cbn [val_ok enc_val dec_val]; try discriminate; intros H.
  - reflexivity.
  - rewrite parse_print_int. reflexivity.
  - unfold lit_ok in H. apply andb_true_iff in H. destruct H as [_ H]. rewrite H. reflexivity.
  - rewrite dec_enc_items. reflexivity.
Qed.

Fixpoint all_lookup (sch : schema) (r : wrule) (o : obj) : Prop :=
  match sch, r with
  | (k, _) :: s', v :: r' => lookup k o = Some (enc_val v) /\ all_lookup s' r' o
  | _, _ => True
  end.

Lemma dec_rule_ok sch : forall r o, rule_ok sch r = true -> all_lookup sch r o -> dec_rule sch o = Some r.
Proof.
  induction sch as [|[k ty] sch IH]; intros [|v r] o H L; cbn in H; try discriminate; [reflexivity|].
  apply andb_true_iff in H. destruct H as [H1 H2]. destruct L as [L1 L2].
  cbn [dec_rule]. rewrite L1, (dec_enc_val ty v H1), (IH r o H2 L2). reflexivity.
Qed.

Lemma all_lookup_weaken sch : forall r o k x,
  existsb (la_eqb k) (map fst sch) = false -> all_lookup sch r o -> all_lookup sch r ((k, x) :: o).
Proof.
  induction sch as [|[k' ty] sch IH]; intros [|v r] o k x H L; cbn [all_lookup] in *; auto.
  cbn [map fst existsb] in H. apply orb_false_iff in H. destruct H as [H1 H2].
  destruct L as [L1 L2]. split; [|apply IH; auto].
  cbn [lookup]. rewrite (la_eqb_neq_sym _ _ H1). exact L1.
Qed.

Lemma all_lookup_enc sch : forall r,
  keys_distinct (map fst sch) = true -> rule_ok sch r = true -> all_lookup sch r (enc_rule sch r).
Proof.
  induction sch as [|[k ty] sch IH]; intros [|v r] D H; cbn in H; try discriminate; cbn [all_lookup enc_rule]; auto.
  apply andb_true_iff in H. destruct H as [_ H2].
  cbn [map fst keys_distinct] in D. apply andb_true_iff in D. destruct D as [D1 D2].
  split.
  - cbn [lookup]. rewrite la_eqb_refl. reflexivity.
  - apply all_lookup_weaken; [|apply IH; auto]. destruct (existsb (la_eqb k) (map fst sch)); [discriminate|reflexivity].
Qed.

Lemma enc_val_ok ty v : val_ok ty v = true -> value_ok (enc_val v).
Proof.
  destruct ty, v; cbn [val_ok enc_val value_ok scalar_ok]; try discriminate; intros H.
  - exact H.
  - apply print_int_ok.
  - unfold lit_ok in H. apply andb_true_iff in H. destruct H as [H1 H2]. split; [|exact H1].
    intros E. subst. discriminate.
  - apply Forall_forall. intros f Hf. apply in_map_iff in Hf. destruct Hf as [[[k s] t] [E Hin]]. subst f.
    assert (Hs : str_ok s = true).
    { rewrite forallb_forall in H. apply (H (k, s, t) Hin). }
    unfold flat_ok, enc_item. repeat constructor; cbn; auto; apply print_int_ok.
Qed.

Lemma enc_rule_ok sch : forall r,
  forallb (fun kt => str_ok (fst kt)) sch = true -> rule_ok sch r = true -> obj_ok (enc_rule sch r).
Proof.
  induction sch as [|[k ty] sch IH]; intros [|v r] K H; cbn in H; try discriminate; cbn [enc_rule]; try constructor.
  - cbn [forallb fst] in K. apply andb_true_iff in K. apply andb_true_iff in H. split; cbn; [tauto|].
    apply (enc_val_ok ty); tauto.
  - cbn [forallb] in K. apply andb_true_iff in K. apply andb_true_iff in H. apply IH; tauto.
Qed.

Lemma dec_rules_ok sch l :
  schema_ok sch = true -> forallb (rule_ok sch) l = true ->
  dec_rules sch (map (enc_rule sch) l) = Some l.
Proof.
  intros S. unfold schema_ok in S. apply andb_true_iff in S. destruct S as [S D].
  induction l as [|r l IH]; cbn [map dec_rules forallb]; intros H; [reflexivity|].
  apply andb_true_iff in H. destruct H as [H1 H2].
  rewrite (dec_rule_ok sch r _ H1 (all_lookup_enc sch r D H1)), (IH H2). reflexivity.
Qed.

(* the wire round trip, for any schema with distinct printable keys *)
Theorem wire_roundtrip sch l :
  schema_ok sch = true -> forallb (rule_ok sch) l = true ->
  decode sch (encode sch l) = Rules l.
Proof.
  intros S H. unfold decode, encode.
  assert (Hd : Forall obj_ok (map (enc_rule sch) l)).
  { apply Forall_forall. intros o Ho. apply in_map_iff in Ho. destruct Ho as [r [E Hin]]. subst o.
    unfold schema_ok in S. apply andb_true_iff in S. destruct S as [S _]. apply andb_true_iff in S. destruct S as [_ S].
    apply enc_rule_ok; auto. rewrite forallb_forall in H. apply H. exact Hin. }
  rewrite (parse_ok _ Hd). rewrite (dec_rules_ok sch l S H).
  unfold pr_doc, pr_array. reflexivity.
Qed.

Lemma schemas_ok : forall k, schema_ok (schema_of k) = true.
Proof.
  intros k. unfold schema_of.
  destruct (k =? 0)%Z; [vm_compute; reflexivity|].
  destruct (k =? 1)%Z; [vm_compute; reflexivity|].
  destruct (k =? 2)%Z; [vm_compute; reflexivity|].
  destruct (k =? 3)%Z; vm_compute; reflexivity.
Qed.
