(* Round trip of the JSON wire format of Model/Json.v: decode (encode l) = Rules l. *)
From Coq Require Import Ascii String DecimalString DecimalZ DecimalPos DecimalFacts Decimal.
From SG Require Import Base.Prelude Model.Json.

Local Open Scope nat_scope.
Local Open Scope char_scope.

(* ---- byte strings -------------------------------------------------------------------------- *)

Lemma la_eqb_refl a : la_eqb a a = true.
Proof. induction a as [|c a IH]; cbn; auto. rewrite Ascii.eqb_refl. exact IH. Qed.

Lemma la_eqb_eq a b : la_eqb a b = true -> a = b.
Proof.
  revert b. induction a as [|c a IH]; intros [|d b]; cbn; try discriminate; auto.
  intros H. apply andb_true_iff in H. destruct H as [H1 H2].
  apply Ascii.eqb_eq in H1. subst. f_equal. apply IH. exact H2.
Qed.

Lemma la_eqb_sym a b : la_eqb a b = la_eqb b a.
Proof.
  destruct (la_eqb a b) eqn:E.
  - apply la_eqb_eq in E. subst. symmetry. apply la_eqb_refl.
  - destruct (la_eqb b a) eqn:E2; auto. apply la_eqb_eq in E2. subst. rewrite la_eqb_refl in E. discriminate.
Qed.

Lemma key_eqb_refl a : key_eqb a a = true.
Proof. apply la_eqb_refl. Qed.

Lemma key_eqb_sym a b : key_eqb a b = key_eqb b a.
Proof. apply la_eqb_sym. Qed.

(* what may follow a value: a comma or a closing brace / bracket *)
Definition sep (r : jbytes) : Prop :=
  exists c r', r = c :: r' /\ (c = "," \/ c = "}" \/ c = "]").

Lemma sep_not_num r : sep r -> match r with c :: _ => is_numchar c = false | [] => True end.
Proof. intros [c [r' [E [H|[H|H]]]]]; subst; reflexivity. Qed.

Lemma sep_skip_ws r : sep r -> skip_ws r = r.
Proof. intros [c [r' [E [H|[H|H]]]]]; subst; reflexivity. Qed.

Lemma sep_comma r : sep ("," :: r).
Proof. exists ",", r. auto. Qed.
Lemma sep_brace r : sep ("}" :: r).
Proof. exists "}", r. auto. Qed.
Lemma sep_bracket r : sep ("]" :: r).
Proof. exists "]", r. auto. Qed.

(* the properties of a first character that the parser branches on *)
Definition plain (c : ascii) : Prop :=
  is_ws c = false /\ Ascii.eqb c "}" = false /\ Ascii.eqb c "]" = false.

Lemma numchar_first c : is_numchar c = true ->
  plain c /\ Ascii.eqb c "{" = false /\ Ascii.eqb c "[" = false /\ Ascii.eqb c q = false /\
  Ascii.eqb c "n" = false /\ Ascii.eqb c "t" = false /\ Ascii.eqb c "f" = false.
Proof.
  destruct c as [[] [] [] [] [] [] [] []]; vm_compute; intros H; try discriminate; repeat split; reflexivity.
Qed.

Lemma strchar_not_q c : is_strchar c = true -> Ascii.eqb c q = false.
Proof.
  unfold is_strchar. intros H. apply andb_true_iff in H. destruct H as [H _].
  apply andb_true_iff in H. destruct H as [_ H]. destruct (Ascii.eqb c q); [discriminate|reflexivity].
Qed.

(* ---- lexer ----------------------------------------------------------------------------------- *)

Lemma scan_str_ok s rest : str_ok s = true -> scan_str (s ++ q :: rest) = Some (s, rest).
Proof.
  unfold str_ok. induction s as [|c s IH]; cbn [app scan_str forallb]; intros H.
  - rewrite Ascii.eqb_refl. reflexivity.
  - apply andb_true_iff in H. destruct H as [H1 H2].
    rewrite (strchar_not_q c H1), H1, (IH H2). reflexivity.
Qed.

Lemma quote_app s rest : quote s ++ rest = q :: s ++ q :: rest.
Proof. unfold quote. cbn. rewrite <- app_assoc. reflexivity. Qed.

Lemma p_str_ok s rest : str_ok s = true -> p_str (quote s ++ rest) = Some (s, rest).
Proof. intros H. rewrite quote_app. unfold p_str. rewrite Ascii.eqb_refl. apply scan_str_ok. exact H. Qed.

Lemma span_num_ok t rest :
  forallb is_numchar t = true ->
  match rest with c :: _ => is_numchar c = false | [] => True end ->
  span_num (t ++ rest) = (t, rest).
Proof.
  induction t as [|c t IH]; cbn [app forallb]; intros H D.
  - destruct rest as [|c r]; cbn; [reflexivity|]. rewrite D. reflexivity.
  - apply andb_true_iff in H. destruct H as [H1 H2]. cbn. rewrite H1, (IH H2 D). reflexivity.
Qed.

Lemma numlit_nonnil t : numlit_ok t = true -> t <> [].
Proof. intros H E. subst. discriminate. Qed.

(* ---- members and elements (generic in the value / element parser) ---------------------------- *)

Section Generic.
  Variable A : Type.
  Variable pv : parser A.
  Variable pr : A -> jbytes.
  Variable ok : A -> Prop.
  Variable fuel0 : nat.
  Hypothesis pv_ok : forall v rest, ok v -> length (pr v) <= fuel0 -> sep rest -> pv (pr v ++ rest) = Some (v, rest).

  Definition member_ok (kv : jbytes * A) : Prop := str_ok (fst kv) = true /\ ok (snd kv).

  Lemma pr_members_one k v : pr_members pr [(k, v)] = quote k ++ ":" :: pr v.
  Proof. reflexivity. Qed.

  Lemma pr_members_cons k v l :
    l <> [] -> pr_members pr ((k, v) :: l) = quote k ++ ":" :: pr v ++ "," :: pr_members pr l.
  Proof. destruct l; [congruence|reflexivity]. Qed.

  Lemma skip_ws_quote k r : skip_ws (quote k ++ r) = quote k ++ r.
  Proof. rewrite quote_app. reflexivity. Qed.

  Lemma p_members_ok l : l <> [] -> Forall member_ok l ->
    forall fuel rest, length (pr_members pr l) <= fuel -> length (pr_members pr l) <= fuel0 ->
    p_members pv fuel (pr_members pr l ++ "}" :: rest) = Some (l, rest).
  Proof.
    induction l as [|[k v] l IH]; [congruence|]. intros _ HF fuel rest Hf Hf0.
    inversion HF as [|x y [Hk Hv] HF']; subst. cbn [fst snd] in *.
    destruct l as [|kv2 l].
    - rewrite pr_members_one in *. destruct fuel as [|f]; [rewrite app_length in Hf; cbn in Hf; lia|].
      cbn [p_members]. rewrite <- app_assoc. rewrite skip_ws_quote. rewrite (p_str_ok k _ Hk). cbn [app skip_ws is_ws].
      rewrite Ascii.eqb_refl.
      assert (Hl : length (pr v) <= fuel0) by (rewrite app_length in Hf0; cbn in Hf0; lia).
      rewrite (pv_ok v ("}" :: rest) Hv Hl (sep_brace rest)). reflexivity.
    - rewrite pr_members_cons in * by discriminate.
      set (tail := pr_members pr (kv2 :: l)) in *.
      assert (Hlen : length (quote k ++ ":" :: pr v ++ "," :: tail) = length (quote k) + 1 + length (pr v) + 1 + length tail).
      { rewrite !app_length. cbn [length]. rewrite !app_length. cbn [length]. lia. }
      destruct fuel as [|f]; [lia|].
      cbn [p_members]. rewrite <- app_assoc. rewrite skip_ws_quote. rewrite (p_str_ok k _ Hk). cbn [app skip_ws is_ws].
      rewrite Ascii.eqb_refl. rewrite <- app_assoc. cbn [app].
      assert (Hl : length (pr v) <= fuel0) by lia.
      rewrite (pv_ok v ("," :: tail ++ "}" :: rest) Hv Hl (sep_comma _)).
      cbn [skip_ws is_ws]. rewrite Ascii.eqb_refl.
      rewrite (IH ltac:(discriminate) HF' f rest ltac:(lia) ltac:(lia)). reflexivity.
  Qed.

  Lemma pr_members_first l : l <> [] -> exists r, pr_members pr l = q :: r.
  Proof.
    destruct l as [|[k v] l]; [congruence|]. intros _. destruct l.
    - cbn. eexists. reflexivity.
    - rewrite pr_members_cons by discriminate. cbn. eexists. reflexivity.
  Qed.

  (* after the opening brace *)
  Lemma p_object_ok l fuel rest : Forall member_ok l ->
    length (pr_members pr l) <= fuel -> length (pr_members pr l) <= fuel0 ->
    p_object pv fuel (pr_members pr l ++ "}" :: rest) = Some (l, rest).
  Proof.
    intros HF Hf Hf0. destruct l as [|kv l].
    - reflexivity.
    - destruct (pr_members_first (kv :: l) ltac:(discriminate)) as [r Hr].
      unfold p_object.
      assert (E : pr_members pr (kv :: l) ++ "}" :: rest = q :: r ++ "}" :: rest) by (rewrite Hr; reflexivity).
      rewrite E. change (skip_ws (q :: r ++ "}" :: rest)) with (q :: r ++ "}" :: rest).
      change (Ascii.eqb q "}") with false. cbn iota. rewrite <- E.
      apply p_members_ok; auto; discriminate.
  Qed.

  (* elements: a printed element starts with a character that is neither whitespace nor a closer *)
  Hypothesis pr_first : forall v, ok v -> exists c r, pr v = c :: r /\ plain c.

  Lemma pr_elems_cons x l : l <> [] -> pr_elems pr (x :: l) = pr x ++ "," :: pr_elems pr l.
  Proof. destruct l; [congruence|reflexivity]. Qed.

  Lemma p_elems_ok l : l <> [] -> Forall ok l ->
    forall fuel rest, length (pr_elems pr l) <= fuel -> length (pr_elems pr l) <= fuel0 ->
    p_elems pv fuel (pr_elems pr l ++ "]" :: rest) = Some (l, rest).
  Proof.
    induction l as [|x l IH]; [congruence|]. intros _ HF fuel rest Hf Hf0.
    inversion HF as [|x' y Hx HF']; subst.
    destruct (pr_first x Hx) as [c [r [Ec _]]].
    destruct l as [|x2 l].
    - cbn [pr_elems] in *. destruct fuel as [|f]; [rewrite Ec in Hf; cbn in Hf; lia|].
      cbn [p_elems]. rewrite (pv_ok x ("]" :: rest) Hx Hf0 (sep_bracket rest)).
      cbn [skip_ws is_ws]. change (Ascii.eqb "]" ",") with false. cbn iota. rewrite Ascii.eqb_refl. reflexivity.
    - rewrite pr_elems_cons in * by discriminate.
      set (tail := pr_elems pr (x2 :: l)) in *.
      rewrite app_length in Hf, Hf0. cbn [length] in Hf, Hf0.
      assert (Hlx : (1 <= length (pr x))%nat) by (rewrite Ec; cbn [length]; lia).
      destruct fuel as [|f]; [lia|].
      cbn [p_elems]. rewrite <- app_assoc. cbn [app].
      rewrite (pv_ok x ("," :: tail ++ "]" :: rest) Hx ltac:(lia) (sep_comma _)).
      cbn [skip_ws is_ws]. rewrite Ascii.eqb_refl.
      rewrite (IH ltac:(discriminate) HF' f rest ltac:(lia) ltac:(lia)). reflexivity.
  Qed.

  (* after the opening bracket *)
  Lemma p_array_ok l fuel rest : Forall ok l ->
    length (pr_elems pr l) <= fuel -> length (pr_elems pr l) <= fuel0 ->
    p_array pv fuel (pr_elems pr l ++ "]" :: rest) = Some (l, rest).
  Proof.
    intros HF Hf Hf0. destruct l as [|x l].
    - reflexivity.
    - assert (Hx : ok x) by (inversion HF; auto).
      destruct (pr_first x Hx) as [c [r [Ec [Hw [_ Hc]]]]].
      unfold p_array.
      assert (E : exists r2, pr_elems pr (x :: l) ++ "]" :: rest = c :: r2).
      { destruct l; [cbn; rewrite Ec; eexists; reflexivity|].
        rewrite pr_elems_cons by discriminate. rewrite Ec. cbn. eexists. reflexivity. }
      destruct E as [r2 E]. rewrite E. cbn [skip_ws]. rewrite Hw, Hc. rewrite <- E.
      apply p_elems_ok; auto; discriminate.
  Qed.
End Generic.

(* ---- value trees ------------------------------------------------------------------------------ *)

Fixpoint jv_ok (v : jv) : bool :=
  match v with
  | JNull | JBool _ => true
  | JNum t => forallb is_numchar t && numlit_ok t
  | JStr s => str_ok s
  | JArr l => forallb jv_ok l
  | JObj m => forallb (fun kv => let '(k, x) := kv in str_ok k && jv_ok x) m
  end.

Lemma pr_jv_first v : jv_ok v = true -> exists c r, pr_jv v = c :: r /\ plain c.
Proof.
  destruct v as [|[]|t|s|l|m]; cbn [pr_jv jv_ok]; intros H;
    try (eexists; eexists; split; [reflexivity | repeat split; reflexivity]).
  apply andb_true_iff in H. destruct H as [Hn Hl].
  destruct t as [|c t]; [discriminate|]. exists c, t. split; auto.
  cbn in Hn. apply andb_true_iff in Hn. destruct Hn as [Hc _]. apply numchar_first. exact Hc.
Qed.

Lemma p_lit_app w rest : p_lit w (w ++ rest) = Some rest.
Proof. induction w as [|c w IH]; cbn; auto. rewrite Ascii.eqb_refl. exact IH. Qed.

Lemma p_jv_ok : forall fuel v rest,
  jv_ok v = true -> length (pr_jv v) <= fuel -> sep rest ->
  p_jv fuel (pr_jv v ++ rest) = Some (v, rest).
Proof.
  induction fuel as [|f IH]; intros v rest Hok Hlen S.
  - destruct (pr_jv_first v Hok) as [c [r [E _]]]. rewrite E in Hlen. cbn in Hlen. lia.
  - destruct v as [|b|t|s|l|m]; cbn [pr_jv jv_ok] in *.
    + cbn [p_jv]. reflexivity.
    + destruct b; cbn [p_jv]; reflexivity.
    + apply andb_true_iff in Hok. destruct Hok as [Hn Hl].
      destruct t as [|c t]; [discriminate|].
      assert (Hc : is_numchar c = true) by (cbn in Hn; apply andb_true_iff in Hn; tauto).
      destruct (numchar_first c Hc) as [[Hw _] [H1 [H2 [H3 [H4 [H5 H6]]]]]].
      cbn [p_jv app skip_ws]. rewrite Hw, H1, H2, H3, H4, H5, H6.
      change (c :: t ++ rest) with ((c :: t) ++ rest).
      rewrite (span_num_ok (c :: t) rest Hn (sep_not_num rest S)). rewrite Hl. reflexivity.
    + rewrite quote_app. cbn [p_jv].
      change (skip_ws (q :: s ++ q :: rest)) with (q :: s ++ q :: rest).
      change (Ascii.eqb q "{") with false. change (Ascii.eqb q "[") with false. cbn iota.
      rewrite Ascii.eqb_refl. rewrite (scan_str_ok s rest Hok). reflexivity.
    + unfold pr_array in *. cbn [app length] in *. rewrite app_length in Hlen. cbn [length] in Hlen.
      cbn [p_jv skip_ws is_ws]. change (Ascii.eqb "[" "{") with false. cbn iota. rewrite Ascii.eqb_refl.
      rewrite <- app_assoc. cbn [app].
      rewrite (p_array_ok jv (p_jv f) pr_jv (fun x => jv_ok x = true) f).
      * reflexivity.
      * intros x r Hx Hl Sr. apply IH; auto.
      * intros x Hx. apply pr_jv_first. exact Hx.
      * apply Forall_forall. rewrite forallb_forall in Hok. exact Hok.
      * rewrite app_length. cbn [length]. lia.
      * lia.
    + unfold pr_object in *. cbn [app length] in *. rewrite app_length in Hlen. cbn [length] in Hlen.
      cbn [p_jv skip_ws is_ws]. rewrite Ascii.eqb_refl.
      rewrite <- app_assoc. cbn [app].
      rewrite (p_object_ok jv (p_jv f) pr_jv (fun x => jv_ok x = true) f).
      * reflexivity.
      * intros x r Hx Hl Sr. apply IH; auto.
      * apply Forall_forall. intros [k x] Hin. rewrite forallb_forall in Hok. specialize (Hok _ Hin).
        cbn in Hok. apply andb_true_iff in Hok. split; cbn; tauto.
      * rewrite app_length. cbn [length]. lia.
      * lia.
Qed.

(* a printed array, as a whole document *)
Lemma parse_array_ok l : forallb jv_ok l = true -> parse (pr_jv (JArr l)) = Some (JArr l).
Proof.
  intros H. unfold parse.
  set (s := pr_jv (JArr l)).
  assert (E : s = "[" :: pr_elems pr_jv l ++ ["]"]) by reflexivity.
  destruct (length s) as [|f] eqn:Len; [rewrite E in Len; discriminate|].
  rewrite E. cbn [p_jv skip_ws is_ws]. change (Ascii.eqb "[" "{") with false. cbn iota. rewrite Ascii.eqb_refl.
  rewrite E in Len. cbn [length] in Len. rewrite app_length in Len. cbn [length] in Len.
  rewrite (p_array_ok jv (p_jv f) pr_jv (fun x => jv_ok x = true) f).
  - reflexivity.
  - intros x r Hx Hl Sr. apply p_jv_ok; auto.
  - intros x Hx. apply pr_jv_first. exact Hx.
  - apply Forall_forall. rewrite forallb_forall in H. exact H.
  - rewrite app_length. cbn [length]. lia.
  - lia.
Qed.

(* ---- integers ----------------------------------------------------------------------------------- *)

Lemma uint_numchars d : forallb is_numchar (B (NilEmpty.string_of_uint d)) = true.
Proof. induction d; cbn; auto. Qed.

Lemma nz_uint_numchars d : forallb is_numchar (B (NilZero.string_of_uint d)) = true /\ B (NilZero.string_of_uint d) <> [].
Proof.
  unfold NilZero.string_of_uint. destruct d; try (split; [apply uint_numchars | cbn; discriminate]).
  split; [reflexivity | cbn; discriminate].
Qed.

Lemma print_int_ok z : print_int z <> [] /\ forallb is_numchar (print_int z) = true.
Proof.
  unfold print_int. destruct z as [|p|p]; cbn [Z.to_int NilZero.string_of_int].
  - split; [cbn; discriminate | reflexivity].
  - destruct (nz_uint_numchars (Pos.to_uint p)); auto.
  - destruct (nz_uint_numchars (Pos.to_uint p)) as [H1 H2]. cbn. split; [discriminate|exact H1].
Qed.

Lemma parse_print_int z : parse_int (print_int z) = Some z.
Proof.
  unfold parse_int. unfold print_int at 1. unfold B. rewrite string_of_list_ascii_of_string.
  rewrite NilZero.isi.
  - rewrite DecimalZ.of_to. rewrite la_eqb_refl. reflexivity.
  - destruct z; cbn; try discriminate. intros H. inversion H. eapply Unsigned.to_uint_nonnil; eauto.
  - destruct z; cbn; try discriminate. intros H. inversion H. eapply Unsigned.to_uint_nonnil; eauto.
Qed.

Lemma skip_digits_all d : snd (skip_digits (B (NilEmpty.string_of_uint d))) = [].
Proof.
  induction d; cbn [NilEmpty.string_of_uint B list_ascii_of_string skip_digits is_digit]; auto;
    fold (B (NilEmpty.string_of_uint d)); destruct (skip_digits (B (NilEmpty.string_of_uint d))); cbn in *; auto.
Qed.

(* a positive number's decimal digits do not start with 0 *)
Lemma pos_to_uint_not_D0 p u : Pos.to_uint p <> D0 u.
Proof.
  intros E.
  assert (N : unorm (Pos.to_uint p) = Pos.to_uint p).
  { rewrite <- (Unsigned.to_of (Pos.to_uint p)). rewrite Unsigned.of_to. reflexivity. }
  rewrite E in N. rewrite unorm_D0 in N.
  assert (Hu : u = Nil \/ u <> Nil) by (destruct u; [left; reflexivity | right; discriminate ..]).
  destruct Hu as [Hu|Hu].
  - subst u. apply (Unsigned.to_uint_nonzero p). exact E.
  - pose proof (nb_digits_unorm u Hu) as L. rewrite N in L. cbn [nb_digits] in L. lia.
Qed.

Lemma numlit_uint_pos p : numlit_ok (B (NilEmpty.string_of_uint (Pos.to_uint p))) = true.
Proof.
  destruct (Pos.to_uint p) as [|u|u|u|u|u|u|u|u|u|u] eqn:E;
    try (unfold numlit_ok; cbn [NilEmpty.string_of_uint B list_ascii_of_string];
         fold (B (NilEmpty.string_of_uint u)); cbn [Ascii.eqb Bool.eqb is_digit]; cbn;
         rewrite skip_digits_all; reflexivity).
  - exfalso. eapply Unsigned.to_uint_nonnil; eauto.
  - exfalso. eapply pos_to_uint_not_D0; eauto.
Qed.

Lemma nz_string_pos p : NilZero.string_of_uint (Pos.to_uint p) = NilEmpty.string_of_uint (Pos.to_uint p).
Proof.
  unfold NilZero.string_of_uint. destruct (Pos.to_uint p) eqn:E; auto.
  exfalso. eapply Unsigned.to_uint_nonnil; eauto.
Qed.

Lemma numlit_print_int z : numlit_ok (print_int z) = true.
Proof.
  unfold print_int. destruct z as [|p|p]; cbn [Z.to_int NilZero.string_of_int].
  - reflexivity.
  - rewrite nz_string_pos. apply numlit_uint_pos.
  - rewrite nz_string_pos.
    assert (H := numlit_uint_pos p). revert H.
    unfold numlit_ok. cbn [B list_ascii_of_string]. fold (B (NilEmpty.string_of_uint (Pos.to_uint p))).
    rewrite Ascii.eqb_refl.
    destruct (B (NilEmpty.string_of_uint (Pos.to_uint p))) as [|c r] eqn:E; [discriminate|].
    destruct (Ascii.eqb c "-") eqn:Ec; [|auto].
    apply Ascii.eqb_eq in Ec. subst c. intros _.
    assert (D := uint_numchars (Pos.to_uint p)). rewrite E in D.
    exfalso.
    (* the digits of a positive number contain no minus sign *)
    clear - E. revert E. generalize (Pos.to_uint p). intros d. destruct d; cbn; intros X; inversion X.
Qed.

Lemma print_int_neg z : match print_int z with c :: _ => Ascii.eqb c "-" | [] => false end = (z <? 0)%Z.
Proof.
  unfold print_int. destruct z as [|p|p]; cbn [Z.to_int NilZero.string_of_int]; try reflexivity.
  rewrite nz_string_pos. destruct (Pos.to_uint p) eqn:E; cbn; reflexivity.
Qed.

Lemma dec_print_int lo hi z : in_range lo hi z = true -> dec_int lo hi (print_int z) = Some z.
Proof.
  unfold in_range, dec_int. intros H. rewrite parse_print_int. rewrite print_int_neg.
  apply andb_true_iff in H. destruct H as [H1 H2]. rewrite H1, H2. cbn [andb].
  destruct (z <? 0)%Z eqn:N; cbn [negb orb]; [|reflexivity].
  apply Z.ltb_lt in N. apply Z.leb_le in H1.
  destruct (lo <? 0)%Z eqn:L; [reflexivity|]. apply Z.ltb_ge in L. lia.
Qed.

(* ---- schema layer --------------------------------------------------------------------------------- *)

Lemma dec_enc_item it : item_ok it = true -> dec_item (enc_item it) = Some it.
Proof.
  destruct it as [[k s] t]. unfold item_ok. intros H.
  apply andb_true_iff in H. destruct H as [H Ht]. apply andb_true_iff in H. destruct H as [Hk Hs].
  unfold dec_item, enc_item. cbn [dec_members].
  unfold set_item at 1. unfold dflt_item.
  change (key_eqb (B "valKind") (B "valKind")) with true. cbn iota.
  rewrite (dec_print_int _ _ k Hk).
  unfold set_item at 1.
  change (key_eqb (B "valStr") (B "valKind")) with false.
  change (key_eqb (B "valStr") (B "valStr")) with true. cbn iota.
  unfold set_item at 1.
  change (key_eqb (B "threshold") (B "valKind")) with false.
  change (key_eqb (B "threshold") (B "valStr")) with false.
  change (key_eqb (B "threshold") (B "threshold")) with true. cbn iota.
  rewrite (dec_print_int _ _ t Ht). reflexivity.
Qed.

Lemma dec_enc_items l : forallb item_ok l = true -> dec_all dec_item (map enc_item l) = Some l.
Proof.
  induction l as [|it l IH]; cbn [map dec_all forallb]; intros H; [reflexivity|].
  apply andb_true_iff in H. destruct H as [H1 H2]. rewrite (dec_enc_item it H1), (IH H2). reflexivity.
Qed.

Lemma dec_enc_val ty v : val_ok ty v = true -> dec_val ty (enc_val v) = Some v.
Proof.
  destruct ty, v; cbn [val_ok enc_val dec_val]; try discriminate; intros H.
  - reflexivity.
  - rewrite (dec_print_int _ _ _ H). reflexivity.
  - reflexivity.
  - rewrite (dec_enc_items _ H). reflexivity.
Qed.

Lemma enc_val_not_null v : enc_val v <> JNull.
Proof. destruct v; discriminate. Qed.

(* setting the field in the middle of the schema *)
Lemma set_field_at k ty v y : dec_val ty v = Some y -> v <> JNull ->
  forall pre rpre suf x cur',
  length pre = length rpre ->
  (forall k', In k' (map fst pre) -> key_eqb k k' = false) ->
  set_field (pre ++ (k, ty) :: suf) k v (rpre ++ x :: cur') = Some (rpre ++ y :: cur').
Proof.
  intros Hd Hn. induction pre as [|[k' ty'] pre IH]; intros [|x0 rpre] suf x cur' Hl Hk; cbn in Hl; try discriminate.
  - cbn [app set_field]. rewrite key_eqb_refl.
    destruct v; try congruence; rewrite Hd; reflexivity.
  - cbn [app set_field]. rewrite (Hk k' ltac:(cbn; auto)).
    rewrite (IH rpre suf x cur' ltac:(lia)); [reflexivity|].
    intros k2 Hin. apply Hk. cbn. auto.
Qed.

Lemma keys_distinct_mid a : forall k b k',
  keys_distinct (a ++ k :: b) = true -> In k' a -> key_eqb k k' = false.
Proof.
  induction a as [|x a IH]; intros k b k' H Hin; [destruct Hin|].
  cbn [app keys_distinct] in H. apply andb_true_iff in H. destruct H as [H1 H2].
  destruct Hin as [E|Hin].
  - subst x. rewrite key_eqb_sym.
    destruct (key_eqb k' k) eqn:E; auto.
    assert (X : existsb (key_eqb k') (a ++ k :: b) = true).
    { apply existsb_exists. exists k. split; [apply in_or_app; right; left; reflexivity|exact E]. }
    rewrite X in H1. discriminate.
  - eapply IH; eauto.
Qed.

Lemma dec_members_enc : forall suf rsuf pre rpre,
  rule_ok suf rsuf = true -> length pre = length rpre ->
  keys_distinct (map fst (pre ++ suf)) = true ->
  dec_members (set_field (pre ++ suf)) (enc_members suf rsuf) (rpre ++ defaults suf) = Some (rpre ++ rsuf).
Proof.
  induction suf as [|[k ty] suf IH]; intros [|v r] pre rpre H Hl D; cbn in H; try discriminate.
  - reflexivity.
  - apply andb_true_iff in H. destruct H as [H1 H2].
    cbn [enc_members dec_members defaults map snd].
    fold (defaults suf).
    rewrite (set_field_at k ty (enc_val v) v (dec_enc_val ty v H1) (enc_val_not_null v) pre rpre suf (dflt ty) (defaults suf) Hl).
    + replace (pre ++ (k, ty) :: suf) with ((pre ++ [(k, ty)]) ++ suf) by (rewrite <- app_assoc; reflexivity).
      replace (rpre ++ v :: defaults suf) with ((rpre ++ [v]) ++ defaults suf) by (rewrite <- app_assoc; reflexivity).
      replace (rpre ++ v :: r) with ((rpre ++ [v]) ++ r) by (rewrite <- app_assoc; reflexivity).
      apply IH; auto.
      * rewrite !app_length. cbn. lia.
      * rewrite <- app_assoc. exact D.
    + intros k' Hin. rewrite map_app in D. cbn [map fst] in D. eapply keys_distinct_mid; eauto.
Qed.

Lemma dec_rule_enc sch r : schema_ok sch = true -> rule_ok sch r = true ->
  dec_rule sch (enc_rule sch r) = Some (Some r).
Proof.
  intros S H. unfold schema_ok in S. apply andb_true_iff in S. destruct S as [_ D].
  unfold dec_rule, enc_rule.
  pose proof (dec_members_enc sch r [] [] H eq_refl D) as X. cbn [app] in X.
  rewrite X. reflexivity.
Qed.

Lemma dec_rules_ok sch l :
  schema_ok sch = true -> forallb (rule_ok sch) l = true ->
  dec_all (dec_rule sch) (map (enc_rule sch) l) = Some (map Some l).
Proof.
  intros S. induction l as [|r l IH]; cbn [map dec_all forallb]; intros H; [reflexivity|].
  apply andb_true_iff in H. destruct H as [H1 H2].
  rewrite (dec_rule_enc sch r S H1), (IH H2). reflexivity.
Qed.

(* the encoder's trees print into the subset and parse back *)
Lemma enc_item_ok it : item_ok it = true -> jv_ok (enc_item it) = true.
Proof.
  destruct it as [[k s] t]. unfold item_ok. intros H.
  apply andb_true_iff in H. destruct H as [H _]. apply andb_true_iff in H. destruct H as [_ Hs].
  cbn [enc_item jv_ok forallb].
  destruct (print_int_ok k) as [_ Hk]. destruct (print_int_ok t) as [_ Ht].
  rewrite Hk, Ht, !numlit_print_int, Hs. reflexivity.
Qed.

Lemma enc_val_ok ty v : val_ok ty v = true -> jv_ok (enc_val v) = true.
Proof.
  destruct ty, v; cbn [val_ok enc_val jv_ok]; try discriminate; intros H.
  - exact H.
  - destruct (print_int_ok z) as [_ Hz]. rewrite Hz, numlit_print_int. reflexivity.
  - exact H.
  - apply forallb_forall. intros x Hx. apply in_map_iff in Hx. destruct Hx as [it [E Hin]]. subst x.
    apply enc_item_ok. rewrite forallb_forall in H. apply H. exact Hin.
Qed.

Lemma enc_members_ok sch : forall r,
  forallb (fun kt => str_ok (fst kt)) sch = true -> rule_ok sch r = true ->
  forallb (fun kv : jbytes * jv => let '(k, x) := kv in str_ok k && jv_ok x) (enc_members sch r) = true.
Proof.
  induction sch as [|[k ty] sch IH]; intros [|v r] K H; cbn in H; try discriminate; cbn [enc_members forallb]; auto.
  cbn [forallb fst] in K. apply andb_true_iff in K. destruct K as [K1 K2].
  apply andb_true_iff in H. destruct H as [H1 H2].
  rewrite K1, (enc_val_ok ty v H1), (IH r K2 H2). reflexivity.
Qed.

(* the wire round trip, for any schema with printable keys that are distinct up to case *)
Theorem wire_roundtrip sch l :
  schema_ok sch = true -> forallb (rule_ok sch) l = true ->
  decode sch (encode sch l) = Rules false (map Some l).
Proof.
  intros S H. unfold decode, encode.
  assert (Hd : forallb jv_ok (map (enc_rule sch) l) = true).
  { apply forallb_forall. intros o Ho. apply in_map_iff in Ho. destruct Ho as [r [E Hin]]. subst o.
    unfold schema_ok in S. apply andb_true_iff in S. destruct S as [S _].
    cbn [enc_rule jv_ok]. apply enc_members_ok; auto. rewrite forallb_forall in H. apply H. exact Hin. }
  rewrite (parse_array_ok _ Hd). rewrite (dec_rules_ok sch l S H).
  reflexivity.
Qed.

Lemma schemas_ok : forall k, schema_ok (schema_of k) = true.
Proof.
  intros k. unfold schema_of.
  destruct (k =? 0)%Z; [vm_compute; reflexivity|].
  destruct (k =? 1)%Z; [vm_compute; reflexivity|].
  destruct (k =? 2)%Z; [vm_compute; reflexivity|].
  destruct (k =? 3)%Z; vm_compute; reflexivity.
Qed.

(* the encoder's output lies in the byte alphabet of the model, apart from the exponent guard on
   float literals, which is a premise on the literals *)
Lemma conv_items_enc itab l : forallb item_ok l = true ->
  match dec_all dec_item (map enc_item l) with
  | Some l' => conv_items itab l' = conv_items itab l
  | None => False
  end.
Proof. intros H. rewrite (dec_enc_items l H). reflexivity. Qed.
