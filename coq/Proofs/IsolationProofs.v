From SG Require Import Base.Prelude Base.GoInt Model.Isolation.

(* ---------- check_pass characterisation ---------- *)

Lemma check_from_none i g b rules :
  check_from i g b rules = None <-> Forall (fun thr => cur_count g + b <= thr) rules.
Proof.
  revert i; induction rules as [|thr rest IH]; intros i; cbn [check_from].
  - split; auto.
  - unfold rule_exceeds. destruct (thr <? cur_count g + b) eqn:E.
    + split; [discriminate|]. intros H. inversion H; subst. lia.
    + rewrite IH. split; intros H.
      * constructor; [lia|exact H].
      * inversion H; auto.
Qed.

Lemma check_from_some i g b rules j snap :
  check_from i g b rules = Some (j, snap) ->
  snap = cur_count g /\ i <= j /\
  exists pre thr post, rules = pre ++ thr :: post /\ Z.of_nat (length pre) = j - i /\
     Forall (fun t => cur_count g + b <= t) pre /\ thr < cur_count g + b.
Proof.
  revert i; induction rules as [|thr rest IH]; intros i; cbn [check_from]; [discriminate|].
  unfold rule_exceeds. destruct (thr <? cur_count g + b) eqn:E.
  - intros H; inversion H; subst. split; [reflexivity|]. split; [lia|].
    exists [], thr, rest. cbn. repeat split; auto; lia.
  - intros H. destruct (IH _ H) as (Hs & Hle & pre & t & post & -> & Hlen & Hpre & Hlt).
    split; [exact Hs|]. split; [lia|].
    exists (thr :: pre), t, post. cbn [app length]. repeat split; auto; try lia.
    constructor; [lia|exact Hpre].
Qed.

Lemma cur_count_id g : 0 <= g < two31 -> cur_count g = g.
Proof.
  intros H. unfold cur_count. destruct (0 <=? g) eqn:E; [|lia].
  apply u32_id. unfold in_u32. Transparent two31 two32. unfold two31, two32 in *. lia.
Qed.

(* ---------- invariant ---------- *)

Definition keys_ok (s : state) : Prop :=
  NoDup (map fst (live s)) /\ Forall (fun kv => 0 <= fst kv < nops s) (live s).

Definition Inv (s : state) : Prop :=
  keys_ok s /\ 0 <= nops s /\ forall res, gauge_of s res = in_flight s res.

Lemma inv_init : Inv init.
Proof.
  unfold Inv, keys_ok, init, gauge_of, in_flight; cbn. repeat split; auto; try lia; constructor.
Qed.

Lemma gauge_of_aset s res v r2 lv n :
  gauge_of {| gauges := aset res v (gauges s); live := lv; nops := n |} r2 =
  if r2 =? res then v else gauge_of s r2.
Proof.
  unfold gauge_of; cbn [gauges]. destruct (r2 =? res) eqn:E.
  - assert (r2 = res) by lia; subst. rewrite alookup_aset_same. reflexivity.
  - rewrite alookup_aset_other by lia. reflexivity.
Qed.

Lemma alookup_in {A} k (l : list (Z * A)) v : alookup k l = Some v -> In (k, v) l.
Proof.
  induction l as [|[k' v'] r IH]; cbn; [discriminate|].
  destruct (k =? k') eqn:E; intros H.
  - inversion H; subst. left. f_equal. lia.
  - right; auto.
Qed.

Lemma alookup_none_notin {A} k (l : list (Z * A)) : alookup k l = None -> ~ In k (map fst l).
Proof.
  induction l as [|[k' v'] r IH]; cbn; [tauto|].
  destruct (k =? k') eqn:E; [discriminate|]. intros H [H1|H1]; [lia|]. apply IH; auto.
Qed.

Lemma filter_len_aremove k res (l : list (Z * Z)) r2 :
  NoDup (map fst l) -> alookup k l = Some res ->
  Z.of_nat (length (filter (fun kv => snd kv =? r2) (aremove k l))) =
  Z.of_nat (length (filter (fun kv => snd kv =? r2) l)) - (if r2 =? res then 1 else 0).
Proof.
  induction l as [|[k' v'] r IH]; cbn [alookup aremove]; [discriminate|].
  intros Hnd Hl. inversion Hnd as [|? ? Hnotin Hnd']; subst.
  destruct (k =? k') eqn:E.
  - inversion Hl; subst. cbn [filter snd]. destruct (res =? r2) eqn:E2.
    + replace (r2 =? res) with true by lia. cbn [length]. lia.
    + replace (r2 =? res) with false by lia. lia.
  - cbn [filter snd]. specialize (IH Hnd' Hl). destruct (v' =? r2); cbn [length]; lia.
Qed.

Lemma aremove_subset {A} k (l : list (Z * A)) x : In x (aremove k l) -> In x l.
Proof.
  induction l as [|[k' v'] r IH]; cbn; [tauto|].
  destruct (k =? k'); cbn; tauto.
Qed.

Lemma aremove_nodup {A} k (l : list (Z * A)) : NoDup (map fst l) -> NoDup (map fst (aremove k l)).
Proof.
  induction l as [|[k' v'] r IH]; cbn; [auto|]. intros H; inversion H; subst.
  destruct (k =? k'); cbn; [assumption|]. constructor; [|auto].
  intros Hin. apply in_map_iff in Hin. destruct Hin as ([a b] & Hf & Hin). cbn in Hf; subst.
  apply aremove_subset in Hin. apply H2. apply in_map_iff. exists (k', b). auto.
Qed.

Lemma step_inv rules s o : Inv s -> Inv (fst (step rules s o)).
Proof.
  intros ((Hnd & Hk) & Hn & Hg). destruct o as [res b | k]; cbn [step].
  - destruct (check_pass (gauge_of s res) b (rules res)) as [[i snap]|] eqn:E; cbn [fst].
    + unfold Inv, keys_ok, in_flight, gauge_of in *; cbn [gauges live nops]. repeat split; auto; try lia.
      eapply Forall_impl; [|exact Hk]. cbn. intros; lia.
    + unfold Inv, keys_ok. cbn [live nops]. repeat split; try lia.
      * cbn [map fst]. constructor; [|exact Hnd].
        intros Hin. apply in_map_iff in Hin. destruct Hin as ([a c] & Hf & Hin). cbn in Hf; subst.
        rewrite Forall_forall in Hk. specialize (Hk _ Hin). cbn in Hk. lia.
      * constructor; [cbn; lia|]. eapply Forall_impl; [|exact Hk]. cbn; intros; lia.
      * intros r2. rewrite gauge_of_aset. unfold in_flight; cbn [live filter snd].
        destruct (r2 =? res) eqn:E2.
        -- assert (r2 = res) by lia; subst. rewrite Z.eqb_refl. cbn [length]. rewrite Hg. unfold in_flight. lia.
        -- replace (res =? r2) with false by lia. apply Hg.
  - destruct (alookup k (live s)) as [res|] eqn:E; cbn [fst].
    + unfold Inv, keys_ok. cbn [live nops]. repeat split; try lia.
      * apply aremove_nodup; auto.
      * rewrite Forall_forall in *. intros x Hx. apply aremove_subset in Hx. specialize (Hk _ Hx). lia.
      * intros r2. rewrite gauge_of_aset. unfold in_flight; cbn [live].
        rewrite (filter_len_aremove k res) by auto.
        destruct (r2 =? res) eqn:E2.
        -- assert (r2 = res) by lia; subst. rewrite Hg. unfold in_flight. lia.
        -- rewrite Hg. unfold in_flight. lia.
    + unfold Inv, keys_ok, in_flight, gauge_of in *; cbn [gauges live nops]. repeat split; auto; try lia.
      eapply Forall_impl; [|exact Hk]. cbn. intros; lia.
Qed.

Lemma run_inv rules ops : forall s, Inv s -> Inv (fst (run rules s ops)).
Proof.
  induction ops as [|o rest IH]; intros s H; cbn [run]; [exact H|].
  destruct (step rules s o) as [s1 ob] eqn:E1.
  destruct (run rules s1 rest) as [s2 obs] eqn:E2. cbn [fst].
  specialize (IH s1). rewrite E2 in IH. apply IH.
  pose proof (step_inv rules s o H) as H1. rewrite E1 in H1. exact H1.
Qed.

Lemma in_flight_nonneg s res : 0 <= in_flight s res.
Proof. unfold in_flight. lia. Qed.

(* ---------- the decision ---------- *)

Lemma decision_inv rules s res b :
  Inv s -> in_flight s res < two31 ->
  (snd (step rules s (Enter res b)) = OPass <->
   Forall (fun thr => in_flight s res + b <= thr) (rules res)).
Proof.
  intros (_ & _ & Hg) Hlt. cbn [step]. unfold check_pass.
  rewrite Hg. pose proof (check_from_none 0 (in_flight s res) b (rules res)) as HC.
  rewrite cur_count_id in HC by (pose proof (in_flight_nonneg s res); lia).
  rewrite <- HC.
  destruct (check_from 0 (in_flight s res) b (rules res)) as [[i snap]|]; cbn [snd]; split; intros H; try reflexivity; discriminate.
Qed.

Lemma blocked_inv rules s res b i snap :
  Inv s -> in_flight s res < two31 ->
  snd (step rules s (Enter res b)) = OBlock i snap ->
  snap = in_flight s res /\
  exists pre thr post, rules res = pre ++ thr :: post /\ Z.of_nat (length pre) = i /\
     Forall (fun t => in_flight s res + b <= t) pre /\ thr < in_flight s res + b.
Proof.
  intros (_ & _ & Hg) Hlt. cbn [step]. unfold check_pass. rewrite Hg.
  destruct (check_from 0 (in_flight s res) b (rules res)) as [[j sn]|] eqn:E; cbn [snd]; [|discriminate].
  intros H; inversion H; subst.
  apply check_from_some in E. rewrite cur_count_id in E by (pose proof (in_flight_nonneg s res); lia).
  destruct E as (-> & _ & pre & thr & post & Hr & Hl & Hp & Ht).
  split; [reflexivity|]. exists pre, thr, post. repeat split; auto. lia.
Qed.

(* a rejected request occupies nothing *)
Lemma rejected_free rules s res b i snap :
  snd (step rules s (Enter res b)) = OBlock i snap ->
  forall r2, in_flight (fst (step rules s (Enter res b))) r2 = in_flight s r2 /\
             gauge_of (fst (step rules s (Enter res b))) r2 = gauge_of s r2.
Proof.
  cbn [step]. destruct (check_pass (gauge_of s res) b (rules res)) as [[j sn]|]; cbn [snd fst]; [|discriminate].
  intros _ r2. unfold in_flight, gauge_of; cbn. auto.
Qed.

Lemma admitted_occupies_one rules s res b :
  snd (step rules s (Enter res b)) = OPass ->
  forall r2, in_flight (fst (step rules s (Enter res b))) r2 = in_flight s r2 + (if r2 =? res then 1 else 0).
Proof.
  cbn [step]. destruct (check_pass (gauge_of s res) b (rules res)) as [[j sn]|]; cbn [snd fst]; [discriminate|].
  intros _ r2. unfold in_flight; cbn [live filter snd].
  destruct (res =? r2) eqn:E.
  - replace (r2 =? res) with true by lia. cbn [length]. lia.
  - replace (r2 =? res) with false by lia. lia.
Qed.

(* capacity freed by Exit is immediately reusable *)
Lemma exit_frees rules s k res :
  Inv s -> alookup k (live s) = Some res ->
  forall r2, in_flight (fst (step rules s (Exit k))) r2 = in_flight s r2 - (if r2 =? res then 1 else 0).
Proof.
  intros ((Hnd & _) & _) Hl r2. cbn [step]. rewrite Hl. cbn [fst]. unfold in_flight; cbn [live].
  apply filter_len_aremove; auto.
Qed.

Lemma alookup_aremove_same {A} k (l : list (Z * A)) : NoDup (map fst l) -> alookup k (aremove k l) = None.
Proof.
  induction l as [|[k' v'] r IH]; cbn; [auto|]. intros H; inversion H; subst.
  destruct (k =? k') eqn:E.
  - assert (k = k') by lia; subst. destruct (alookup k' r) eqn:E2; [|reflexivity].
    apply alookup_in in E2. exfalso. apply H2. apply in_map_iff. exists (k', a). auto.
  - cbn. rewrite E. auto.
Qed.

(* Exit is idempotent: a second Exit of the same entry changes nothing but the op counter *)
Lemma exit_idempotent rules s k :
  Inv s ->
  let s1 := fst (step rules s (Exit k)) in
  let s2 := fst (step rules s1 (Exit k)) in
  gauges s2 = gauges s1 /\ live s2 = live s1.
Proof.
  intros ((Hnd & _) & _). cbn [step].
  destruct (alookup k (live s)) as [res|] eqn:E; cbn [fst live gauges].
  - rewrite alookup_aremove_same by auto. cbn. auto.
  - rewrite E. cbn. auto.
Qed.

(* ---------- the cap ---------- *)

Definition batches_pos (ops : list op) : Prop :=
  Forall (fun o => match o with Enter _ b => 1 <= b | Exit _ => True end) ops.

Definition Cap (rules : Z -> list Z) (s : state) : Prop :=
  forall res, Forall (fun thr => in_flight s res <= thr) (rules res).

Lemma step_cap rules s o :
  Inv s -> (forall res, in_flight s res < two31) ->
  (match o with Enter _ b => 1 <= b | Exit _ => True end) ->
  Cap rules s -> Cap rules (fst (step rules s o)).
Proof.
  intros HI Hlt Hb HC. destruct o as [res b|k].
  - destruct (snd (step rules s (Enter res b))) eqn:E.
    + intros r2. rewrite (admitted_occupies_one rules s res b E).
      destruct (r2 =? res) eqn:E2.
      * assert (r2 = res) by lia; subst.
        apply decision_inv in E; auto. eapply Forall_impl; [|exact E]. cbn; intros; lia.
      * rewrite Z.add_0_r. apply HC.
    + intros r2. destruct (rejected_free rules s res b _ _ E r2) as [-> _]. apply HC.
    + cbn [step] in E. destruct (check_pass _ _ _) as [[? ?]|]; discriminate.
  - cbn [step]. destruct (alookup k (live s)) as [res|] eqn:E.
    + intros r2. pose proof (exit_frees rules s k res HI E r2) as H. cbn [step] in H. rewrite E in H.
      rewrite H. eapply Forall_impl; [|apply HC]. cbn. intros. destruct (r2 =? res); lia.
    + cbn [fst]. intros r2. unfold in_flight; cbn [live]. apply HC.
Qed.
