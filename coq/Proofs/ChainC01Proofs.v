(* Lemmas about Model/Chain.v, part 4: accounting (property C01).  The entry table of the model
   carries ghost fields (named g_...) written from the operations' own arguments; `ledger` recomputes
   every node's counters from that table alone, and the invariant `Inv01` says that the counters
   maintained by the statistic slot equal the ledger in every reachable state. *)
From Coq Require Import Sorting.Sorted Sorting.Permutation.
From SG Require Import Base.Prelude Model.Chain Proofs.ChainProofs Proofs.ChainOpProofs Proofs.ChainC16Proofs.

(* ---------------------------------------------------------------------------------- *)
(* the domain of C01                                                                    *)

Definition nreal (ss : list sslot) : nat := length (filter s_real ss).

(* the resource node is prepared before any prepare slot that may panic *)
Definition node_first (ch : chain) (flag : Z) : Prop :=
  exists pre pn post, preps ch = pre ++ pn :: post /\ Forall (fun p => ~ p_panics flag p) pre /\ pbeh_of pn flag = PNode.

(* an accounting chain: exactly one stat.DefaultSlot, no panicking statistic slot (outside the
   domain of C01), the resource node prepared first; prepare and rule-check slots are arbitrary
   (they may block, return nil, panic) *)
Definition acct_chain (ch : chain) : Prop :=
  nreal (stats ch) = 1%nat /\ forall flag, no_stat_panic ch flag /\ node_first ch flag.

(* resources are named by non-negative ids; exit handlers do not panic (outside the domain) *)
Definition ok_op (o : op) : Prop :=
  match o with
  | OEntry res _ _ _ _ _ _ => 0 <= res
  | OWhenExit _ _ hb => hb <> HPanic
  | _ => True
  end.

(* ---------------------------------------------------------------------------------- *)
(* effect of the loops on the node counters                                             *)

Fixpoint iterl {A} (n : nat) (f : A -> A) (a : A) : A :=
  match n with O => a | S n' => iterl n' f (f a) end.

Definition stat_eff (x : ctx) (be : option berr) (nd : nodes_t) : nodes_t :=
  match be with
  | None => on_nodes nd x (fun c => node_pass c (x_batch x))
  | Some _ => on_nodes nd x (fun c => node_block c (x_batch x))
  end.

Definition done_eff (x : ctx) (t : Z) (nd : nodes_t) : nodes_t :=
  on_nodes nd x (fun c => node_done c (x_batch x) (t - x_start x) (x_err x)).

Lemma on_nodes_ext nd x y f :
  x_node x = x_node y -> x_res x = x_res y -> x_inb x = x_inb y -> on_nodes nd x f = on_nodes nd y f.
Proof. unfold on_nodes. intros -> -> ->. reflexivity. Qed.

Lemma nreal_cons s r : nreal (s :: r) = if s_real s then S (nreal r) else nreal r.
Proof. unfold nreal. cbn. destruct (s_real s); reflexivity. Qed.

Lemma run_stats_nodes ss x be nd lg :
  Forall (fun s => ~ s_panics (x_flag x) s) ss ->
  fst (fst (run_stats ss x be nd lg)) = iterl (nreal ss) (stat_eff x be) nd.
Proof.
  revert nd lg. induction ss as [|s r IH]; intros nd lg H; [reflexivity|].
  inversion H as [|? ? Hs Hr]; subst. cbn [run_stats]. rewrite nreal_cons.
  destruct (s_real s) eqn:Er.
  - cbn [iterl]. rewrite IH by auto. unfold stat_eff. destruct be; reflexivity.
  - unfold s_panics in Hs. destruct (sbeh_of s (x_flag x)) eqn:E; [|congruence]. apply IH; auto.
Qed.

Definition same_acct (x' x : ctx) : Prop :=
  x_node x' = x_node x /\ x_res x' = x_res x /\ x_inb x' = x_inb x /\ x_batch x' = x_batch x /\
  x_start x' = x_start x /\ x_err x' = x_err x /\ x_flag x' = x_flag x.

Lemma run_done_nodes ss x x' t nd lg :
  same_acct x' x -> Forall (fun s => ~ s_panics (x_flag x) s) ss ->
  fst (fst (run_done ss x' t nd lg)) = iterl (nreal ss) (done_eff x t) nd.
Proof.
  revert x' nd lg. induction ss as [|s r IH]; intros x' nd lg Hsa H; [reflexivity|].
  inversion H as [|? ? Hs Hr]; subst. cbn [run_done]. rewrite nreal_cons.
  destruct Hsa as (Hn & Hre & Hi & Hb & Hst & He & Hf).
  destruct (s_real s) eqn:Er.
  - cbn [iterl]. rewrite (IH (set_rt x' (t - x_start x'))); auto.
    + unfold done_eff. rewrite Hb, Hst, He. f_equal. apply on_nodes_ext; auto.
    + unfold same_acct. cbn. auto 10.
  - unfold s_panics in Hs. rewrite Hf. destruct (sbeh_of s (x_flag x)) eqn:E; [|congruence].
    apply IH; auto. unfold same_acct. auto 10.
Qed.

Lemma run_preps_node_mono ps x lg : x_node x = true -> x_node (fst (fst (run_preps ps x lg))) = true.
Proof.
  revert x lg. induction ps as [|p r IH]; intros x lg H; cbn [run_preps]; [exact H|].
  destruct (pbeh_of p (x_flag x)); [apply IH; exact H|apply IH; reflexivity|exact H].
Qed.

Lemma run_preps_node pre pn post x lg :
  Forall (fun p => ~ p_panics (x_flag x) p) pre -> pbeh_of pn (x_flag x) = PNode ->
  x_node (fst (fst (run_preps (pre ++ pn :: post) x lg))) = true.
Proof.
  revert x lg. induction pre as [|q r IH]; intros x lg H Hn.
  - cbn [app run_preps]. rewrite Hn. apply run_preps_node_mono. reflexivity.
  - inversion H as [|? ? Hq Hr]; subst. unfold p_panics in Hq. cbn [app run_preps].
    destruct (pbeh_of q (x_flag x)) eqn:E; [apply IH; auto|apply run_preps_node_mono; reflexivity|congruence].
Qed.

(* SlotChain.Entry (+ EntryPassedOnPanic) on an accounting chain: the resource node is set, and
   the statistic slot recorded the request exactly once - as blocked iff the caller is handed a
   block error, as passed otherwise (in particular when a prepare / rule-check slot panicked) *)
Lemma acct_entry_effect ch x nd er :
  acct_chain ch -> x_rep x = false ->
  let r0 := chain_entry ch x nd er in
  let r := if r_nil r0 then passed_on_panic ch r0 else r0 in
  x_node (r_ctx r) = true /\
  match (if r_nil r then None else x_blk (r_ctx r)) with
  | Some _ => r_nodes r = on_nodes nd (r_ctx r) (fun c => node_block c (x_batch x))
  | None => x_blk (r_ctx r) = None /\ r_nodes r = on_nodes nd (r_ctx r) (fun c => node_pass c (x_batch x))
  end.
Proof.
  intros (Hreal & Hfl) Hrep. destruct (Hfl (x_flag x)) as (Hns & pre & pn & post & Hps & Hpre & Hpn).
  cbv zeta. unfold chain_entry.
  pose proof (run_preps_ctx (preps ch) x []) as Hx.
  pose proof (run_preps_node pre pn post x [] Hpre Hpn) as Hnode. rewrite <- Hps in Hnode.
  destruct (run_preps (preps ch) x []) as [[x1 lg1] pan1]. cbn in Hx, Hnode.
  destruct Hx as (Hcore & _ & Hblk1 & Hrep1 & _). injection Hcore as _ _ _ _ Hb Hf _ _.
  assert (Hpanic : forall lg (y : ctx), x_node y = true -> x_rep y = false -> x_flag y = x_flag x -> x_batch y = x_batch x ->
     let r0 := {| r_ctx := y; r_nodes := nd; r_log := lg; r_errs := er; r_nil := true |} in
     let r := passed_on_panic ch r0 in
     x_node (r_ctx r) = true /\
     match (if r_nil r then None else x_blk (r_ctx r)) with
     | Some _ => r_nodes r = on_nodes nd (r_ctx r) (fun c => node_block c (x_batch x))
     | None => x_blk (r_ctx r) = None /\ r_nodes r = on_nodes nd (r_ctx r) (fun c => node_pass c (x_batch x))
     end).
  { intros lg y Hyn Hyr Hyf Hyb. cbv zeta. unfold passed_on_panic. cbn [r_ctx r_nodes r_log r_errs]. rewrite Hyr.
    assert (Hs2 : Forall (fun s => ~ s_panics (x_flag (set_blk_rep y None)) s) (stats ch)) by (cbn; rewrite Hyf; exact Hns).
    pose proof (run_stats_nodes (stats ch) (set_blk_rep y None) None nd lg Hs2) as Hnd.
    destruct (run_stats (stats ch) (set_blk_rep y None) None nd lg) as [[nd' lg'] pan']. cbn in Hnd. cbn.
    split; [exact Hyn|]. split; [reflexivity|]. rewrite Hnd, Hreal. cbn [iterl]. unfold stat_eff. cbn. rewrite Hyb. reflexivity. }
  destruct pan1.
  { apply (Hpanic lg1 (set_err x1 PANIC)); cbn; auto; congruence. }
  destruct (run_checks (checks ch) (x_flag x1) lg1) as [[blk lg2] pan2].
  destruct pan2.
  { apply (Hpanic lg2 (set_err x1 PANIC)); cbn; auto; congruence. }
  destruct blk as [e|].
  - set (x2 := set_blk_rep x1 (Some (Z.of_nat (length er)))).
    assert (Hs2 : Forall (fun s => ~ s_panics (x_flag x2) s) (stats ch)) by (unfold x2; cbn; rewrite Hf; exact Hns).
    pose proof (run_stats_nodes (stats ch) x2 (Some e) nd lg2 Hs2) as Hnd.
    destruct (run_stats_ok (stats ch) x2 (Some e) nd lg2 Hs2) as [_ Hp].
    destruct (run_stats (stats ch) x2 (Some e) nd lg2) as [[nd3 lg3] pan3]. cbn in Hnd, Hp. subst pan3. cbn.
    split; [exact Hnode|]. rewrite Hnd, Hreal. cbn [iterl]. unfold stat_eff. unfold x2. cbn. rewrite Hb. reflexivity.
  - set (x2 := set_blk_rep x1 None).
    assert (Hs2 : Forall (fun s => ~ s_panics (x_flag x2) s) (stats ch)) by (unfold x2; cbn; rewrite Hf; exact Hns).
    pose proof (run_stats_nodes (stats ch) x2 None nd lg2 Hs2) as Hnd.
    destruct (run_stats_ok (stats ch) x2 None nd lg2 Hs2) as [_ Hp].
    destruct (run_stats (stats ch) x2 None nd lg2) as [[nd3 lg3] pan3]. cbn in Hnd, Hp. subst pan3. cbn.
    split; [exact Hnode|]. split; [reflexivity|]. rewrite Hnd, Hreal. cbn [iterl]. unfold stat_eff. unfold x2. cbn. rewrite Hb. reflexivity.
Qed.

(* pointwise reading of on_nodes *)
Definition hit (res : Z) (inb : bool) (k : Z) : bool := (k =? res) || ((k =? INB) && inb).

Lemma on_nodes_at nd x f k :
  x_node x = true -> 0 <= x_res x ->
  on_nodes nd x f k = if hit (x_res x) (x_inb x) k then f (nd k) else nd k.
Proof.
  intros Hn Hr. unfold on_nodes, hit, upd, INB. rewrite Hn.
  destruct (k =? x_res x) eqn:E2.
  - assert (k = x_res x) by lia. subst k. destruct (x_inb x).
    + destruct (x_res x =? -1) eqn:E; [lia|]. rewrite Z.eqb_refl. reflexivity.
    + rewrite Z.eqb_refl. reflexivity.
  - destruct (x_inb x).
    + destruct (k =? -1) eqn:E1.
      * assert (k = -1) by lia. subst k. destruct (-1 =? x_res x) eqn:E; [lia|]. reflexivity.
      * rewrite E2. reflexivity.
    + rewrite E2, andb_false_r. reflexivity.
Qed.

(* ---------------------------------------------------------------------------------- *)
(* the ledger: every counter recomputed from the table of Entry calls                   *)

Definition wsum (f : ent -> Z) (es : list ent) : Z := fold_right (fun en a => f en + a) 0 es.

Lemma wsum_app f a b : wsum f (a ++ b) = wsum f a + wsum f b.
Proof. induction a as [|x r IH]; cbn; [reflexivity|]. unfold wsum in *. lia. Qed.

Lemma wsum_upd_nth f n g l a :
  nth_error l n = Some a -> wsum f (upd_nth n g l) = wsum f l - f a + f (g a).
Proof.
  revert n. induction l as [|x r IH]; intros [|n] H; cbn [nth_error upd_nth] in *; try discriminate.
  - injection H as ->. unfold wsum. cbn. lia.
  - specialize (IH n H). unfold wsum in *. cbn. lia.
Qed.

Lemma wsum_nonneg f es : (forall en, 0 <= f en) -> 0 <= wsum f es.
Proof. intros H. induction es as [|x r IH]; cbn; [lia|]. specialize (H x). unfold wsum in *. lia. Qed.

Lemma wsum_zero f es : (forall en, In en es -> f en = 0) -> wsum f es = 0.
Proof.
  induction es as [|x r IH]; intros H; cbn; [reflexivity|].
  rewrite (H x (or_introl eq_refl)). unfold wsum in *. rewrite IH; [lia|]. intros en Hin. apply H. right. exact Hin.
Qed.

(* the Entry call `en` concerns node k: its own resource, or the inbound node for inbound traffic *)
Definition member (k : Z) (en : ent) : bool := hit (g_res en) (g_inb en) k.

Definition w_req (k : Z) (en : ent) : Z := if member k en then g_batch en else 0.
Definition w_pass (k : Z) (en : ent) : Z := if member k en && g_passed en then g_batch en else 0.
Definition w_block (k : Z) (en : ent) : Z := if member k en && negb (g_passed en) then g_batch en else 0.
Definition w_done (k : Z) (en : ent) : Z := if member k en && g_passed en && e_exited en then g_batch en else 0.
Definition w_err (k : Z) (en : ent) : Z :=
  if member k en && g_passed en && e_exited en && negb (g_err en =? 0) then g_batch en else 0.
Definition w_rt (k : Z) (en : ent) : Z := if member k en && g_passed en && e_exited en then g_end en - g_start en else 0.
Definition w_gauge (k : Z) (en : ent) : Z := if member k en && g_passed en && negb (e_exited en) then 1 else 0.

Definition ledger (k : Z) (es : list ent) : cnt :=
  {| n_pass := wsum (w_pass k) es; n_block := wsum (w_block k) es; n_done := wsum (w_done k) es;
     n_err := wsum (w_err k) es; n_rt := wsum (w_rt k) es; n_gauge := wsum (w_gauge k) es |}.

Lemma w_pass_block k en : w_pass k en + w_block k en = w_req k en.
Proof. unfold w_pass, w_block, w_req. destruct (member k en), (g_passed en); cbn; lia. Qed.

Lemma wsum_pass_block k es : wsum (w_pass k) es + wsum (w_block k) es = wsum (w_req k) es.
Proof.
  induction es as [|x r IH]; cbn; [reflexivity|]. pose proof (w_pass_block k x). unfold wsum in *. lia.
Qed.

(* ---------------------------------------------------------------------------------- *)
(* the accounting invariant                                                             *)

Record Inv01 (s : state) : Prop := {
  i1_live : forall i en, nth_error (ents s) i = Some en -> e_exited en = false ->
      x_node (ctxs s (e_ctx en)) = true /\ g_passed en = true /\
      Forall (fun h => ~ h_panics h) (e_handlers en) /\ 0 <= g_res en;
  i1_ledger : forall k, nodes s k = ledger k (ents s)
}.

Lemma inv01_init : Inv01 init.
Proof. constructor; [intros [|i] en H; discriminate|intros k; reflexivity]. Qed.

Lemma cnt_eq a b :
  n_pass a = n_pass b -> n_block a = n_block b -> n_done a = n_done b -> n_err a = n_err b ->
  n_rt a = n_rt b -> n_gauge a = n_gauge b -> a = b.
Proof. destruct a, b. cbn. intros. subst. reflexivity. Qed.

(* the context handed out by the pool is not owned by a live entry *)
Lemma entry_ctx_fresh s pk :
  Inv s -> let c := if memZ pk (pool s) then pk else nctx s in
  forall i en, nth_error (ents s) i = Some en -> e_exited en = false -> e_ctx en <> c.
Proof.
  intros HI c i en Hi Hl Heq. unfold c in Heq. destruct (memZ pk (pool s)) eqn:Er.
  - apply memZ_in in Er. destruct (inv_live s HI i en Hi Hl) as (_ & Hnp & _). rewrite Heq in Hnp. auto.
  - destruct (inv_live s HI i en Hi Hl) as (Hr & _). lia.
Qed.

Lemma do_entry_inv01 chains s res inb batch flag args chid pk :
  acct_chain (chains chid) -> 0 <= res -> Inv s -> Inv01 s ->
  Inv01 (fst (do_entry chains s res inb batch flag args chid pk)).
Proof.
  intros Hac Hres HI H1.
  pose proof (entry_ctx_fresh s pk HI) as Hfresh. cbv zeta in Hfresh.
  entry_sets chains s res inb batch flag args chid pk.
  assert (Hx0 : x0 = new_ctx).
  { unfold x0. destruct reuse eqn:Er; [|reflexivity]. apply memZ_in in Er. unfold c. apply (inv_pool s HI pk Er). }
  assert (Hrep : x_rep x = false) by (unfold x; cbn; rewrite Hx0; reflexivity).
  pose proof (acct_entry_effect ch x (nodes s) (errs s) Hac Hrep) as He. cbv zeta in He. fold r0 in He.
  set (r := if r_nil r0 then passed_on_panic ch r0 else r0) in *.
  assert (Hcore : x_res (r_ctx r) = res /\ x_inb (r_ctx r) = inb).
  { pose proof (chain_entry_ctx ch x (nodes s) (errs s)) as H0. fold r0 in H0. cbn in H0. destruct H0 as (H0 & _).
    unfold r. destruct (r_nil r0).
    - pose proof (passed_on_panic_ctx ch r0) as Hpp. cbn in Hpp. destruct Hpp as (Hc & _). rewrite H0 in Hc.
      injection Hc as _ _ Hr Hi _ _ _ _. auto.
    - injection H0 as _ _ Hr Hi _ _ _ _. auto. }
  destruct Hcore as (Hcr & Hci). destruct He as (Hnode & Heff).
  assert (Hat : forall f k, on_nodes (nodes s) (r_ctx r) f k = if hit res inb k then f (nodes s k) else nodes s k).
  { intros f k. rewrite on_nodes_at by (auto; lia). rewrite Hcr, Hci. reflexivity. }
  assert (Hold : forall ctxs' i en, (forall c', c' <> c -> ctxs' c' = ctxs s c') ->
            nth_error (ents s) i = Some en -> e_exited en = false ->
            x_node (ctxs' (e_ctx en)) = true /\ g_passed en = true /\ Forall (fun h => ~ h_panics h) (e_handlers en) /\ 0 <= g_res en).
  { intros ctxs' i en Hfr Hi Hl. rewrite Hfr by (apply (Hfresh i en Hi Hl)). apply (i1_live s H1 i en Hi Hl). }
  destruct (if r_nil r then None else x_blk (r_ctx r)) as [b|] eqn:Eblk; cbn [fst].
  - (* blocked *)
    constructor; cbn [ents ctxs nodes].
    + intros i en Hi Hl. apply nth_error_snoc in Hi. destruct Hi as [[Hi _]|[_ ->]]; [|discriminate].
      apply (Hold _ i en (fun c' Hne => upd_other _ _ _ _ Hne) Hi Hl).
    + intros k. rewrite Heff, Hat. pose proof (i1_ledger s H1 k) as Hk.
      apply cnt_eq; unfold ledger; cbn [n_pass n_block n_done n_err n_rt n_gauge]; rewrite wsum_app; cbn [wsum fold_right];
        unfold w_pass, w_block, w_done, w_err, w_rt, w_gauge, member; cbn [g_res g_inb g_passed e_exited g_batch g_err g_start g_end];
        destruct (hit res inb k); cbn; rewrite Hk; cbn; lia.
  - (* admitted *)
    destruct Heff as (Hb0 & Heff).
    constructor; cbn [ents ctxs nodes].
    + intros i en Hi Hl. apply nth_error_snoc in Hi. destruct Hi as [[Hi _]|[_ ->]].
      * apply (Hold _ i en (fun c' Hne => upd_other _ _ _ _ Hne) Hi Hl).
      * cbn. rewrite upd_same, Hb0. repeat split; auto.
    + intros k. rewrite Heff, Hat. pose proof (i1_ledger s H1 k) as Hk.
      apply cnt_eq; unfold ledger; cbn [n_pass n_block n_done n_err n_rt n_gauge]; rewrite wsum_app; cbn [wsum fold_right];
        unfold w_pass, w_block, w_done, w_err, w_rt, w_gauge, member; cbn [g_res g_inb g_passed e_exited g_batch g_err g_start g_end];
        rewrite Hb0; destruct (hit res inb k); cbn; rewrite Hk; cbn; lia.
Qed.
