(* Lemmas about Model/Chain.v, part 4: accounting (property C01).  The entry table of the model
   carries ghost fields (named g_...) written from the operations' own arguments; `ledger` recomputes
   every node's counters from that table alone, and the invariant `Inv01` says that the counters
   maintained by the statistic slot equal the ledger in every reachable state. *)
From Coq Require Import Sorting.Sorted Sorting.Permutation.
From SG Require Import Base.Prelude Model.Chain Proofs.ChainProofs Proofs.ChainOpProofs Proofs.ChainC16Proofs.

(* ---------------------------------------------------------------------------------- *)
(* the domain of C01                                                                    *)

Definition nreal (ss : list sslot) : nat := length (filter s_real ss).

(* the resource node is prepared before any prepare slot that may panic *)
Definition node_first (ch : chain) (flag : Z) : Prop :=
  exists pre pn post, preps ch = pre ++ pn :: post /\ Forall (fun p => ~ p_panics flag p) pre /\ pbeh_of pn flag = PNode.

(* an accounting chain: exactly one stat.DefaultSlot, no panicking statistic slot (outside the
   domain of C01), the resource node prepared first; prepare and rule-check slots are arbitrary
   (they may block, return nil, panic) *)
Definition acct_chain (ch : chain) : Prop :=
  nreal (stats ch) = 1%nat /\ forall flag, no_stat_panic ch flag /\ node_first ch flag.

(* resources are named by non-negative ids; exit handlers do not panic (outside the domain) *)
Definition ok_op (o : op) : Prop :=
  match o with
  | OEntry res _ _ _ _ _ _ => 0 <= res
  | OWhenExit _ _ hb => hb <> HPanic
  | _ => True
  end.

(* ---------------------------------------------------------------------------------- *)
(* effect of the loops on the node counters                                             *)

Fixpoint iterl {A} (n : nat) (f : A -> A) (a : A) : A :=
  match n with O => a | S n' => iterl n' f (f a) end.

Definition stat_eff (x : ctx) (be : option berr) (nd : nodes_t) : nodes_t :=
  match be with
  | None => on_nodes nd x (fun c => node_pass c (x_batch x))
  | Some _ => on_nodes nd x (fun c => node_block c (x_batch x))
  end.

Definition done_eff (x : ctx) (t : Z) (nd : nodes_t) : nodes_t :=
  on_nodes nd x (fun c => node_done c (x_batch x) (t - x_start x) (x_err x)).

Lemma on_nodes_ext nd x y f :
  x_node x = x_node y -> x_res x = x_res y -> x_inb x = x_inb y -> on_nodes nd x f = on_nodes nd y f.
Proof. unfold on_nodes. intros -> -> ->. reflexivity. Qed.

Lemma nreal_cons s r : nreal (s :: r) = if s_real s then S (nreal r) else nreal r.
Proof. unfold nreal. cbn. destruct (s_real s); reflexivity. Qed.

Lemma run_stats_nodes ss x be nd lg :
  Forall (fun s => ~ s_panics (x_flag x) s) ss ->
  fst (fst (run_stats ss x be nd lg)) = iterl (nreal ss) (stat_eff x be) nd.
Proof.
  revert nd lg. induction ss as [|s r IH]; intros nd lg H; [reflexivity|].
  inversion H as [|? ? Hs Hr]; subst. cbn [run_stats]. rewrite nreal_cons.
  destruct (s_real s) eqn:Er.
  - cbn [iterl]. rewrite IH by auto. unfold stat_eff. destruct be; reflexivity.
  - unfold s_panics in Hs. destruct (sbeh_of s (x_flag x)) eqn:E; [|congruence]. apply IH; auto.
Qed.

Definition same_acct (x' x : ctx) : Prop :=
  x_node x' = x_node x /\ x_res x' = x_res x /\ x_inb x' = x_inb x /\ x_batch x' = x_batch x /\
  x_start x' = x_start x /\ x_err x' = x_err x /\ x_flag x' = x_flag x.

Lemma run_done_nodes ss x x' t nd lg :
  same_acct x' x -> Forall (fun s => ~ s_panics (x_flag x) s) ss ->
  fst (fst (run_done ss x' t nd lg)) = iterl (nreal ss) (done_eff x t) nd.
Proof.
  revert x' nd lg. induction ss as [|s r IH]; intros x' nd lg Hsa H; [reflexivity|].
  inversion H as [|? ? Hs Hr]; subst. cbn [run_done]. rewrite nreal_cons.
  destruct Hsa as (Hn & Hre & Hi & Hb & Hst & He & Hf).
  destruct (s_real s) eqn:Er.
  - cbn [iterl]. rewrite (IH (set_rt x' (t - x_start x'))); auto.
    + unfold done_eff. rewrite Hb, Hst, He. f_equal. apply on_nodes_ext; auto.
    + unfold same_acct. cbn. auto 10.
  - unfold s_panics in Hs. rewrite Hf. destruct (sbeh_of s (x_flag x)) eqn:E; [|congruence].
    apply IH; auto. unfold same_acct. auto 10.
Qed.

Lemma run_preps_node_mono ps x lg : x_node x = true -> x_node (fst (fst (run_preps ps x lg))) = true.
Proof.
  revert x lg. induction ps as [|p r IH]; intros x lg H; cbn [run_preps]; [exact H|].
  destruct (pbeh_of p (x_flag x)); [apply IH; exact H|apply IH; reflexivity|exact H].
Qed.

Lemma run_preps_node pre pn post x lg :
  Forall (fun p => ~ p_panics (x_flag x) p) pre -> pbeh_of pn (x_flag x) = PNode ->
  x_node (fst (fst (run_preps (pre ++ pn :: post) x lg))) = true.
Proof.
  revert x lg. induction pre as [|q r IH]; intros x lg H Hn.
  - cbn [app run_preps]. rewrite Hn. apply run_preps_node_mono. reflexivity.
  - inversion H as [|? ? Hq Hr]; subst. unfold p_panics in Hq. cbn [app run_preps].
    destruct (pbeh_of q (x_flag x)) eqn:E; [apply IH; auto|apply run_preps_node_mono; reflexivity|congruence].
Qed.

(* SlotChain.Entry (+ EntryPassedOnPanic) on an accounting chain: the resource node is set, and
   the statistic slot recorded the request exactly once - as blocked iff the caller is handed a
   block error, as passed otherwise (in particular when a prepare / rule-check slot panicked) *)
Lemma acct_entry_effect ch x nd er :
  acct_chain ch -> x_rep x = false ->
  let r0 := chain_entry ch x nd er in
  let r := if r_nil r0 then passed_on_panic ch r0 else r0 in
  x_node (r_ctx r) = true /\
  match (if r_nil r then None else x_blk (r_ctx r)) with
  | Some _ => r_nodes r = on_nodes nd (r_ctx r) (fun c => node_block c (x_batch x))
  | None => x_blk (r_ctx r) = None /\ r_nodes r = on_nodes nd (r_ctx r) (fun c => node_pass c (x_batch x))
  end.
Proof.
  intros (Hreal & Hfl) Hrep. destruct (Hfl (x_flag x)) as (Hns & pre & pn & post & Hps & Hpre & Hpn).
  cbv zeta. unfold chain_entry.
  pose proof (run_preps_ctx (preps ch) x []) as Hx.
  pose proof (run_preps_node pre pn post x [] Hpre Hpn) as Hnode. rewrite <- Hps in Hnode.
  destruct (run_preps (preps ch) x []) as [[x1 lg1] pan1]. cbn in Hx, Hnode.
  destruct Hx as (Hcore & _ & Hblk1 & Hrep1 & _). injection Hcore as _ _ _ _ Hb Hf _ _.
  assert (Hpanic : forall lg (y : ctx), x_node y = true -> x_rep y = false -> x_flag y = x_flag x -> x_batch y = x_batch x ->
     let r0 := {| r_ctx := y; r_nodes := nd; r_log := lg; r_errs := er; r_nil := true |} in
     let r := passed_on_panic ch r0 in
     x_node (r_ctx r) = true /\
     match (if r_nil r then None else x_blk (r_ctx r)) with
     | Some _ => r_nodes r = on_nodes nd (r_ctx r) (fun c => node_block c (x_batch x))
     | None => x_blk (r_ctx r) = None /\ r_nodes r = on_nodes nd (r_ctx r) (fun c => node_pass c (x_batch x))
     end).
  { intros lg y Hyn Hyr Hyf Hyb. cbv zeta. unfold passed_on_panic. cbn [r_ctx r_nodes r_log r_errs]. rewrite Hyr.
    assert (Hs2 : Forall (fun s => ~ s_panics (x_flag (set_blk_rep y None)) s) (stats ch)) by (cbn; rewrite Hyf; exact Hns).
    pose proof (run_stats_nodes (stats ch) (set_blk_rep y None) None nd lg Hs2) as Hnd.
    destruct (run_stats (stats ch) (set_blk_rep y None) None nd lg) as [[nd' lg'] pan']. cbn in Hnd. cbn.
    split; [exact Hyn|]. split; [reflexivity|]. rewrite Hnd, Hreal. cbn [iterl]. unfold stat_eff. cbn. rewrite Hyb. reflexivity. }
  destruct pan1.
  { apply (Hpanic lg1 (set_err x1 PANIC)); cbn; auto; congruence. }
  destruct (run_checks (checks ch) (x_flag x1) lg1) as [[blk lg2] pan2].
  destruct pan2.
  { apply (Hpanic lg2 (set_err x1 PANIC)); cbn; auto; congruence. }
  destruct blk as [e|].
  - set (x2 := set_blk_rep x1 (Some (Z.of_nat (length er)))).
    assert (Hs2 : Forall (fun s => ~ s_panics (x_flag x2) s) (stats ch)) by (unfold x2; cbn; rewrite Hf; exact Hns).
    pose proof (run_stats_nodes (stats ch) x2 (Some e) nd lg2 Hs2) as Hnd.
    destruct (run_stats_ok (stats ch) x2 (Some e) nd lg2 Hs2) as [_ Hp].
    destruct (run_stats (stats ch) x2 (Some e) nd lg2) as [[nd3 lg3] pan3]. cbn in Hnd, Hp. subst pan3. cbn.
    split; [exact Hnode|]. rewrite Hnd, Hreal. cbn [iterl]. unfold stat_eff. unfold x2. cbn. rewrite Hb. reflexivity.
  - set (x2 := set_blk_rep x1 None).
    assert (Hs2 : Forall (fun s => ~ s_panics (x_flag x2) s) (stats ch)) by (unfold x2; cbn; rewrite Hf; exact Hns).
    pose proof (run_stats_nodes (stats ch) x2 None nd lg2 Hs2) as Hnd.
    destruct (run_stats_ok (stats ch) x2 None nd lg2 Hs2) as [_ Hp].
    destruct (run_stats (stats ch) x2 None nd lg2) as [[nd3 lg3] pan3]. cbn in Hnd, Hp. subst pan3. cbn.
    split; [exact Hnode|]. split; [reflexivity|]. rewrite Hnd, Hreal. cbn [iterl]. unfold stat_eff. unfold x2. cbn. rewrite Hb. reflexivity.
Qed.

(* pointwise reading of on_nodes *)
Definition hit (res : Z) (inb : bool) (k : Z) : bool := (k =? res) || ((k =? INB) && inb).

Lemma on_nodes_at nd x f k :
  x_node x = true -> 0 <= x_res x ->
  on_nodes nd x f k = if hit (x_res x) (x_inb x) k then f (nd k) else nd k.
Proof.
  intros Hn Hr. unfold on_nodes, hit, upd, INB. rewrite Hn.
  destruct (k =? x_res x) eqn:E2.
  - assert (k = x_res x) by lia. subst k. destruct (x_inb x).
    + destruct (x_res x =? -1) eqn:E; [lia|]. rewrite Z.eqb_refl. reflexivity.
    + rewrite Z.eqb_refl. reflexivity.
  - destruct (x_inb x).
    + destruct (k =? -1) eqn:E1.
      * assert (k = -1) by lia. subst k. destruct (-1 =? x_res x) eqn:E; [lia|]. reflexivity.
      * rewrite E2. reflexivity.
    + rewrite E2, andb_false_r. reflexivity.
Qed.

(* ---------------------------------------------------------------------------------- *)
(* the ledger: every counter recomputed from the table of Entry calls                   *)

Definition wsum (f : ent -> Z) (es : list ent) : Z := fold_right (fun en a => f en + a) 0 es.

Lemma wsum_app f a b : wsum f (a ++ b) = wsum f a + wsum f b.
Proof. induction a as [|x r IH]; cbn; [reflexivity|]. unfold wsum in *. lia. Qed.

Lemma wsum_upd_nth f n g l a :
  nth_error l n = Some a -> wsum f (upd_nth n g l) = wsum f l - f a + f (g a).
Proof.
  revert n. induction l as [|x r IH]; intros [|n] H; cbn [nth_error upd_nth] in *; try discriminate.
  - injection H as ->. unfold wsum. cbn. lia.
  - specialize (IH n H). unfold wsum in *. cbn. lia.
Qed.

Lemma wsum_nonneg f es : (forall en, 0 <= f en) -> 0 <= wsum f es.
Proof. intros H. induction es as [|x r IH]; cbn; [lia|]. specialize (H x). unfold wsum in *. lia. Qed.

Lemma wsum_zero f es : (forall en, In en es -> f en = 0) -> wsum f es = 0.
Proof.
  induction es as [|x r IH]; intros H; cbn; [reflexivity|].
  rewrite (H x (or_introl eq_refl)). unfold wsum in *. rewrite IH; [lia|]. intros en Hin. apply H. right. exact Hin.
Qed.

(* the Entry call `en` concerns node k: its own resource, or the inbound node for inbound traffic *)
Definition member (k : Z) (en : ent) : bool := hit (g_res en) (g_inb en) k.

Definition w_req (k : Z) (en : ent) : Z := if member k en then g_batch en else 0.
Definition w_pass (k : Z) (en : ent) : Z := if member k en && g_passed en then g_batch en else 0.
Definition w_block (k : Z) (en : ent) : Z := if member k en && negb (g_passed en) then g_batch en else 0.
Definition w_done (k : Z) (en : ent) : Z := if member k en && g_passed en && e_exited en then g_batch en else 0.
Definition w_err (k : Z) (en : ent) : Z :=
  if member k en && g_passed en && e_exited en && negb (g_err en =? 0) then g_batch en else 0.
Definition w_rt (k : Z) (en : ent) : Z := if member k en && g_passed en && e_exited en then g_end en - g_start en else 0.
Definition w_gauge (k : Z) (en : ent) : Z := if member k en && g_passed en && negb (e_exited en) then 1 else 0.

Definition ledger (k : Z) (es : list ent) : cnt :=
  {| n_pass := wsum (w_pass k) es; n_block := wsum (w_block k) es; n_done := wsum (w_done k) es;
     n_err := wsum (w_err k) es; n_rt := wsum (w_rt k) es; n_gauge := wsum (w_gauge k) es |}.

Lemma w_pass_block k en : w_pass k en + w_block k en = w_req k en.
Proof. unfold w_pass, w_block, w_req. destruct (member k en), (g_passed en); cbn; lia. Qed.

Lemma wsum_pass_block k es : wsum (w_pass k) es + wsum (w_block k) es = wsum (w_req k) es.
Proof.
  induction es as [|x r IH]; cbn; [reflexivity|]. pose proof (w_pass_block k x). unfold wsum in *. lia.
Qed.

(* ---------------------------------------------------------------------------------- *)
(* the accounting invariant                                                             *)

Record Inv01 (s : state) : Prop := {
  i1_live : forall i en, nth_error (ents s) i = Some en -> e_exited en = false ->
      x_node (ctxs s (e_ctx en)) = true /\ g_passed en = true /\
      Forall (fun h => ~ h_panics h) (e_handlers en) /\ 0 <= g_res en;
  i1_ledger : forall k, nodes s k = ledger k (ents s)
}.

Lemma inv01_init : Inv01 init.
Proof. constructor; [intros [|i] en H; discriminate|intros k; reflexivity]. Qed.

Lemma cnt_eq a b :
  n_pass a = n_pass b -> n_block a = n_block b -> n_done a = n_done b -> n_err a = n_err b ->
  n_rt a = n_rt b -> n_gauge a = n_gauge b -> a = b.
Proof. destruct a, b. cbn. intros. subst. reflexivity. Qed.

(* the context handed out by the pool is not owned by a live entry *)
Lemma entry_ctx_fresh s pk :
  Inv s -> let c := if memZ pk (pool s) then pk else nctx s in
  forall i en, nth_error (ents s) i = Some en -> e_exited en = false -> e_ctx en <> c.
Proof.
  intros HI c i en Hi Hl Heq. unfold c in Heq. destruct (memZ pk (pool s)) eqn:Er.
  - apply memZ_in in Er. destruct (inv_live s HI i en Hi Hl) as (_ & Hnp & _). rewrite Heq in Hnp. auto.
  - destruct (inv_live s HI i en Hi Hl) as (Hr & _). lia.
Qed.

Lemma do_entry_inv01 chains s res inb batch flag args chid pk :
  acct_chain (chains chid) -> 0 <= res -> Inv s -> Inv01 s ->
  Inv01 (fst (do_entry chains s res inb batch flag args chid pk)).
Proof.
  intros Hac Hres HI H1.
  pose proof (entry_ctx_fresh s pk HI) as Hfresh. cbv zeta in Hfresh.
  entry_sets chains s res inb batch flag args chid pk.
  assert (Hx0 : x0 = new_ctx).
  { unfold x0. destruct reuse eqn:Er; [|reflexivity]. apply memZ_in in Er. unfold c. apply (inv_pool s HI pk Er). }
  assert (Hrep : x_rep x = false) by (unfold x; cbn; rewrite Hx0; reflexivity).
  pose proof (acct_entry_effect ch x (nodes s) (errs s) Hac Hrep) as He. cbv zeta in He. fold r0 in He.
  set (r := if r_nil r0 then passed_on_panic ch r0 else r0) in *.
  assert (Hcore : x_res (r_ctx r) = res /\ x_inb (r_ctx r) = inb).
  { pose proof (chain_entry_ctx ch x (nodes s) (errs s)) as H0. fold r0 in H0. cbn in H0. destruct H0 as (H0 & _).
    unfold r. destruct (r_nil r0).
    - pose proof (passed_on_panic_ctx ch r0) as Hpp. cbn in Hpp. destruct Hpp as (Hc & _). rewrite H0 in Hc.
      injection Hc as _ _ Hr Hi _ _ _ _. auto.
    - injection H0 as _ _ Hr Hi _ _ _ _. auto. }
  destruct Hcore as (Hcr & Hci). destruct He as (Hnode & Heff).
  assert (Hat : forall f k, on_nodes (nodes s) (r_ctx r) f k = if hit res inb k then f (nodes s k) else nodes s k).
  { intros f k. rewrite on_nodes_at by (auto; lia). rewrite Hcr, Hci. reflexivity. }
  assert (Hold : forall ctxs' i en, (forall c', c' <> c -> ctxs' c' = ctxs s c') ->
            nth_error (ents s) i = Some en -> e_exited en = false ->
            x_node (ctxs' (e_ctx en)) = true /\ g_passed en = true /\ Forall (fun h => ~ h_panics h) (e_handlers en) /\ 0 <= g_res en).
  { intros ctxs' i en Hfr Hi Hl. rewrite Hfr by (apply (Hfresh i en Hi Hl)). apply (i1_live s H1 i en Hi Hl). }
  destruct (if r_nil r then None else x_blk (r_ctx r)) as [b|] eqn:Eblk; cbn [fst].
  - (* blocked *)
    constructor; cbn [ents ctxs nodes].
    + intros i en Hi Hl. apply nth_error_snoc in Hi. destruct Hi as [[Hi _]|[_ ->]]; [|discriminate].
      apply (Hold _ i en (fun c' Hne => upd_other _ _ _ _ Hne) Hi Hl).
    + intros k. rewrite Heff, Hat. pose proof (i1_ledger s H1 k) as Hk.
      apply cnt_eq; unfold ledger; cbn [n_pass n_block n_done n_err n_rt n_gauge]; rewrite wsum_app; cbn [wsum fold_right];
        destruct (hit res inb k) eqn:Eh; cbn [n_pass n_block n_done n_err n_rt n_gauge node_block node_pass]; rewrite Hk;
        unfold ledger; cbn [n_pass n_block n_done n_err n_rt n_gauge];
        match goal with |- context [wsum ?f (ents s)] => generalize (wsum f (ents s)); intro end;
        unfold w_pass, w_block, w_done, w_err, w_rt, w_gauge, member; cbn [g_res g_inb g_passed e_exited g_batch g_err g_start g_end];
        rewrite ?Eh; cbn; lia.
  - (* admitted *)
    destruct Heff as (Hb0 & Heff).
    constructor; cbn [ents ctxs nodes].
    + intros i en Hi Hl. apply nth_error_snoc in Hi. destruct Hi as [[Hi _]|[_ ->]].
      * apply (Hold _ i en (fun c' Hne => upd_other _ _ _ _ Hne) Hi Hl).
      * cbn. rewrite upd_same, Hb0. repeat split; auto.
    + intros k. rewrite Heff, Hat. pose proof (i1_ledger s H1 k) as Hk.
      apply cnt_eq; unfold ledger; cbn [n_pass n_block n_done n_err n_rt n_gauge]; rewrite wsum_app; cbn [wsum fold_right];
        destruct (hit res inb k) eqn:Eh; cbn [n_pass n_block n_done n_err n_rt n_gauge node_block node_pass]; rewrite Hk;
        unfold ledger; cbn [n_pass n_block n_done n_err n_rt n_gauge];
        match goal with |- context [wsum ?f (ents s)] => generalize (wsum f (ents s)); intro end;
        unfold w_pass, w_block, w_done, w_err, w_rt, w_gauge, member; cbn [g_res g_inb g_passed e_exited g_batch g_err g_start g_end];
        rewrite ?Eh, ?Hb0; cbn; lia.
Qed.

Definition weights (k : Z) (en : ent) : Z * Z * Z * Z * Z * Z :=
  (w_pass k en, w_block k en, w_done k en, w_err k en, w_rt k en, w_gauge k en).

Lemma ledger_upd_nth_same k n g es en :
  nth_error es n = Some en -> weights k (g en) = weights k en -> ledger k (upd_nth n g es) = ledger k es.
Proof.
  intros Hn Hw. unfold weights in Hw. injection Hw as H1 H2 H3 H4 H5 H6.
  apply cnt_eq; unfold ledger; cbn [n_pass n_block n_done n_err n_rt n_gauge]; rewrite (wsum_upd_nth _ _ _ _ _ Hn); lia.
Qed.

(* an operation that rewrites one entry record (and possibly that entry's own context) *)
Lemma upd_ent_inv01 s e en cx g :
  Inv s -> Inv01 s -> nth_error (ents s) (Z.to_nat e) = Some en ->
  (forall k, weights k (g en) = weights k en) ->
  (e_exited (g en) = false -> e_exited en = false /\
     x_node (cx (e_ctx (g en))) = true /\ g_passed (g en) = true /\
     Forall (fun h => ~ h_panics h) (e_handlers (g en)) /\ 0 <= g_res (g en)) ->
  (forall i en', i <> Z.to_nat e -> nth_error (ents s) i = Some en' -> e_exited en' = false -> cx (e_ctx en') = ctxs s (e_ctx en')) ->
  Inv01 (with_ctx_ents s cx (set_ent s e g)).
Proof.
  intros HI H1 Hn Hw Hlive Hother. constructor; cbn [with_ctx_ents ents ctxs nodes].
  - intros i en' Hi Hl. unfold set_ent in Hi. destruct (Nat.eq_dec (Z.to_nat e) i) as [Heq|Hne].
    + subst i. rewrite (nth_error_upd_nth_same _ _ _ _ Hn) in Hi. injection Hi as <-. apply Hlive in Hl. tauto.
    + rewrite nth_error_upd_nth_other in Hi by auto. rewrite (Hother i en' (not_eq_sym Hne) Hi Hl).
      apply (i1_live s H1 i en' Hi Hl).
  - intros k. rewrite (i1_ledger s H1 k). unfold set_ent. symmetry. apply (ledger_upd_nth_same k _ g _ en Hn (Hw k)).
Qed.

Lemma do_trace_inv01 s e err : Inv s -> Inv01 s -> Inv01 (do_trace s e err).
Proof.
  intros HI H1. unfold do_trace. destruct (get_ent s e) as [en|] eqn:Eg; [|exact H1].
  destruct ((err =? 0) || e_exited en) eqn:Ec; [exact H1|].
  apply orb_false_iff in Ec. destruct Ec as [Ez Ex].
  apply get_ent_some in Eg. destruct Eg as [He Hn].
  destruct (i1_live s H1 _ en Hn Ex) as (Hnode & Hpass & Hh & Hres).
  apply (upd_ent_inv01 s e en _ (set_g_err err) HI H1 Hn).
  - intros k. unfold weights, w_pass, w_block, w_done, w_err, w_rt, w_gauge, member. cbn. rewrite Ex, !andb_false_r. reflexivity.
  - intros _. cbn. rewrite upd_same. cbn. auto.
  - intros i en' Hne Hi Hl. rewrite upd_other; [reflexivity|].
    apply (live_ctx_distinct s i (Z.to_nat e) en' en HI Hi Hn Hl Ex Hne).
Qed.

Lemma do_callee_inv01 s e a : Inv s -> Inv01 s -> Inv01 (do_callee s e a).
Proof.
  intros HI H1. unfold do_callee. destruct (get_ent s e) as [en|] eqn:Eg; [|exact H1].
  destruct ((a =? 0) || e_exited en) eqn:Ec; [exact H1|].
  apply orb_false_iff in Ec. destruct Ec as [Ez Ex].
  apply get_ent_some in Eg. destruct Eg as [He Hn].
  destruct (i1_live s H1 _ en Hn Ex) as (Hnode & Hpass & Hh & Hres).
  apply (upd_ent_inv01 s e en _ (set_g_addr a) HI H1 Hn).
  - intros k. reflexivity.
  - intros _. cbn. rewrite upd_same. cbn. auto.
  - intros i en' Hne Hi Hl. rewrite upd_other; [reflexivity|].
    apply (live_ctx_distinct s i (Z.to_nat e) en' en HI Hi Hn Hl Ex Hne).
Qed.

Lemma do_when_exit_inv01 s e hid hb : hb <> HPanic -> Inv s -> Inv01 s -> Inv01 (do_when_exit s e hid hb).
Proof.
  intros Hb HI H1. unfold do_when_exit. destruct (get_ent s e) as [en|] eqn:Eg; [|exact H1].
  apply get_ent_some in Eg. destruct Eg as [He Hn].
  apply (upd_ent_inv01 s e en _ (add_handler (hid, hb)) HI H1 Hn).
  - intros k. reflexivity.
  - cbn. intros Ex. destruct (i1_live s H1 _ en Hn Ex) as (Hnode & Hpass & Hh & Hres).
    repeat split; auto. apply Forall_app. split; [exact Hh|]. constructor; [|constructor]. unfold h_panics. cbn. exact Hb.
  - reflexivity.
Qed.

Lemma do_exit_inv01 chains s e err :
  (forall k, acct_chain (chains k)) -> Inv s -> Inv01 s -> Inv01 (fst (do_exit chains s e err)).
Proof.
  intros Hac HI H1. unfold do_exit. destruct (get_ent s e) as [en|] eqn:Eg; [|exact H1].
  destruct (e_exited en) eqn:Ex; [exact H1|].
  apply get_ent_some in Eg. destruct Eg as [He Hn].
  destruct (i1_live s H1 _ en Hn Ex) as (Hnode & Hpass & Hh & Hres).
  destruct (inv_live s HI _ en Hn Ex) as (Hc1 & Hc2 & Hc3 & Herr & _ & _ & Hr & Hi & Hb & Hst & Hrt & Hps).
  rewrite (run_handlers_ok _ [] Hh).
  destruct (Hac (e_chain en)) as (Hreal & Hfl).
  set (c := e_ctx en) in *. set (x := ctxs s c) in *.
  set (x1 := if err =? 0 then x else set_err x err).
  assert (Hx1 : x_blk x1 = None /\ x_node x1 = true /\ x_res x1 = g_res en /\ x_inb x1 = g_inb en /\ x_batch x1 = g_batch en /\
                x_start x1 = g_start en /\ x_err x1 = (if err =? 0 then g_err en else err)).
  { assert (Hbk : x_blk x = None) by (rewrite Hpass in Hps; destruct (x_blk x); [discriminate|reflexivity]).
    unfold x1. destruct (err =? 0); cbn; auto 10. }
  destruct Hx1 as (Hk & Hn1 & Hr1 & Hi1 & Hb1 & Hst1 & He1).
  cbv iota. rewrite Hk.
  assert (Hs1 : Forall (fun s0 => ~ s_panics (x_flag x1) s0) (stats (chains (e_chain en)))) by (apply (Hfl (x_flag x1))).
  pose proof (run_done_nodes (stats (chains (e_chain en))) x1 x1 (now s) (nodes s) (rev (map hcall (e_handlers en)) ++ [])
                (conj eq_refl (conj eq_refl (conj eq_refl (conj eq_refl (conj eq_refl (conj eq_refl eq_refl)))))) Hs1) as Hnd.
  destruct (run_done (stats (chains (e_chain en))) x1 (now s) (nodes s) (rev (map hcall (e_handlers en)) ++ [])) as [[nd lg] pan].
  cbn in Hnd. cbn [fst]. rewrite Hreal in Hnd. cbn [iterl] in Hnd. subst nd.
  constructor; cbn [ents ctxs nodes].
  - intros i en' Hi' Hl. unfold set_ent in Hi'. destruct (Nat.eq_dec (Z.to_nat e) i) as [Heq|Hne].
    + subst i. rewrite (nth_error_upd_nth_same _ _ _ _ Hn) in Hi'. injection Hi' as <-. discriminate.
    + rewrite nth_error_upd_nth_other in Hi' by auto.
      pose proof (live_ctx_distinct s i (Z.to_nat e) en' en HI Hi' Hn Hl Ex (not_eq_sym Hne)) as Hd. fold c in Hd.
      rewrite upd_other by auto. apply (i1_live s H1 i en' Hi' Hl).
  - intros k. unfold done_eff. rewrite on_nodes_at by (auto; lia). rewrite Hr1, Hi1, Hb1, Hst1, He1.
    pose proof (i1_ledger s H1 k) as Hk0. unfold set_ent.
    apply cnt_eq; unfold ledger; cbn [n_pass n_block n_done n_err n_rt n_gauge]; rewrite (wsum_upd_nth _ _ _ _ _ Hn);
      destruct (hit (g_res en) (g_inb en) k) eqn:Eh; cbn [n_pass n_block n_done n_err n_rt n_gauge node_done]; rewrite Hk0;
      unfold ledger; cbn [n_pass n_block n_done n_err n_rt n_gauge];
      match goal with |- context [wsum ?f (ents s)] => generalize (wsum f (ents s)); intro end;
      unfold w_pass, w_block, w_done, w_err, w_rt, w_gauge, member, mark_exited;
      cbn [g_res g_inb g_passed e_exited g_batch g_err g_start g_end];
      rewrite ?Eh, ?Hpass, ?Ex; destruct ((if err =? 0 then g_err en else err) =? 0); cbn; lia.
Qed.

Lemma step_inv01 chains s o :
  (forall k, acct_chain (chains k)) -> ok_op o -> Inv s -> Inv01 s -> Inv01 (fst (step chains s o)).
Proof.
  intros Hac Hok HI H1. destruct o; cbn [step fst]; cbn in Hok.
  - apply do_entry_inv01; auto.
  - apply do_exit_inv01; auto.
  - apply do_trace_inv01; auto.
  - apply do_callee_inv01; auto.
  - apply do_when_exit_inv01; auto.
  - destruct H1. constructor; auto.
  - exact H1.
Qed.

Lemma exec_inv01 chains ops s :
  (forall k, acct_chain (chains k)) -> Forall ok_op ops -> Inv s -> Inv01 s -> Inv01 (exec chains s ops).
Proof.
  intros Hac. revert s. induction ops as [|o r IH]; intros s Hok HI H1; [exact H1|].
  inversion Hok; subst. rewrite exec_cons. apply IH; auto; [apply step_inv|apply step_inv01]; auto.
Qed.

Lemma reachable_inv01 chains ops :
  (forall k, acct_chain (chains k)) -> Forall ok_op ops -> Inv01 (exec chains init ops).
Proof. intros Hac Hok. apply exec_inv01; auto; [apply inv_init|apply inv01_init]. Qed.

(* ---------------------------------------------------------------------------------- *)
(* the entry table is the list of Entry calls                                           *)

Definition request := (Z * bool * Z)%type.          (* resource, inbound?, batch count *)
Definition req_of (en : ent) : request := (g_res en, g_inb en, g_batch en).
Definition requests (ops : list op) : list request :=
  flat_map (fun o => match o with OEntry res inb batch _ _ _ _ => [(res, inb, batch)] | _ => [] end) ops.

(* tokens requested from node k by a list of Entry calls *)
Definition req_tokens (k : Z) (rs : list request) : Z :=
  fold_right (fun r a => (let '(res, inb, batch) := r in if hit res inb k then batch else 0) + a) 0 rs.

Lemma map_upd_nth_same {A B} (f : A -> B) n g (l : list A) :
  (forall a, f (g a) = f a) -> map f (upd_nth n g l) = map f l.
Proof. intros H. revert n. induction l as [|x r IH]; intros [|n]; cbn; auto; [rewrite H|rewrite IH]; reflexivity. Qed.

Lemma do_entry_ents chains s res inb batch flag args chid pk :
  exists en, ents (fst (do_entry chains s res inb batch flag args chid pk)) = ents s ++ [en] /\ req_of en = (res, inb, batch) /\
             g_args en = args.
Proof.
  entry_sets chains s res inb batch flag args chid pk.
  set (r := if r_nil r0 then passed_on_panic ch r0 else r0).
  destruct (if r_nil r then None else x_blk (r_ctx r)); cbn [fst ents]; eexists; (split; [reflexivity|split; reflexivity]).
Qed.

Lemma step_requests chains s o :
  map req_of (ents (fst (step chains s o))) = map req_of (ents s) ++ requests [o].
Proof.
  assert (Hid : map req_of (ents s) = map req_of (ents s) ++ []) by (rewrite app_nil_r; reflexivity).
  destruct o; cbn [step fst requests flat_map app]; auto.
  - destruct (do_entry_ents chains s res inb batch flag args chain pk) as (en & -> & Hr & _). rewrite map_app. cbn. rewrite Hr. reflexivity.
  - unfold do_exit. destruct (get_ent s e) as [en|]; [|exact Hid]. destruct (e_exited en); [exact Hid|].
    destruct (run_handlers (e_handlers en) []) as [lg1 pan1].
    match goal with |- context [let '(nd2, lg2) := ?t in _] => destruct t as [nd2 lg2] end.
    cbn [fst ents]. unfold set_ent. rewrite map_upd_nth_same by reflexivity. exact Hid.
  - unfold do_trace. destruct (get_ent s e) as [en|]; [|exact Hid]. destruct ((err =? 0) || e_exited en); [exact Hid|].
    cbn [with_ctx_ents ents]. unfold set_ent. rewrite map_upd_nth_same by reflexivity. exact Hid.
  - unfold do_callee. destruct (get_ent s e) as [en|]; [|exact Hid]. destruct ((addr =? 0) || e_exited en); [exact Hid|].
    cbn [with_ctx_ents ents]. unfold set_ent. rewrite map_upd_nth_same by reflexivity. exact Hid.
  - unfold do_when_exit. destruct (get_ent s e) as [en|]; [|exact Hid].
    cbn [with_ctx_ents ents]. unfold set_ent. rewrite map_upd_nth_same by reflexivity. exact Hid.
Qed.

Lemma requests_app a b : requests (a ++ b) = requests a ++ requests b.
Proof. unfold requests. apply flat_map_app. Qed.

Lemma exec_requests chains ops s :
  map req_of (ents (exec chains s ops)) = map req_of (ents s) ++ requests ops.
Proof.
  revert s. induction ops as [|o r IH]; intros s; [cbn; rewrite app_nil_r; reflexivity|].
  rewrite exec_cons, IH, step_requests, <- app_assoc. f_equal. change (o :: r) with ([o] ++ r). rewrite requests_app. reflexivity.
Qed.

Lemma wsum_req k es : wsum (w_req k) es = req_tokens k (map req_of es).
Proof.
  induction es as [|x r IH]; [reflexivity|]. cbn [map wsum fold_right req_tokens]. unfold wsum, req_tokens in IH. rewrite IH.
  unfold w_req, member, req_of. reflexivity.
Qed.

(* ---------------------------------------------------------------------------------- *)
(* statements of C01                                                                    *)

Definition domain (chains : Z -> chain) (ops : list op) : Prop :=
  (forall k, acct_chain (chains k)) /\ Forall ok_op ops.

(* token conservation per node: pass + block = tokens requested by the Entry calls of the history *)
Lemma token_conservation chains ops k :
  domain chains ops ->
  let s := exec chains init ops in
  n_pass (nodes s k) = wsum (w_pass k) (ents s) /\
  n_block (nodes s k) = wsum (w_block k) (ents s) /\
  n_pass (nodes s k) + n_block (nodes s k) = req_tokens k (requests ops).
Proof.
  intros (Hac & Hok) s. pose proof (reachable_inv01 chains ops Hac Hok) as H1. fold s in H1.
  rewrite (i1_ledger s H1 k). cbn [ledger n_pass n_block]. repeat split.
  rewrite wsum_pass_block, wsum_req. unfold s. rewrite exec_requests. reflexivity.
Qed.

Lemma completion_exact chains ops k :
  domain chains ops ->
  let s := exec chains init ops in
  n_done (nodes s k) = wsum (w_done k) (ents s) /\
  n_err (nodes s k) = wsum (w_err k) (ents s) /\
  n_rt (nodes s k) = wsum (w_rt k) (ents s).
Proof.
  intros (Hac & Hok) s. pose proof (reachable_inv01 chains ops Hac Hok) as H1. fold s in H1.
  rewrite (i1_ledger s H1 k). cbn. auto.
Qed.

Definition quiescent (s : state) : Prop := forall en, In en (ents s) -> e_exited en = true.

Lemma gauge_exact chains ops k :
  domain chains ops ->
  let s := exec chains init ops in
  n_gauge (nodes s k) = wsum (w_gauge k) (ents s) /\ 0 <= n_gauge (nodes s k) /\
  (quiescent s -> n_gauge (nodes s k) = 0).
Proof.
  intros (Hac & Hok) s. pose proof (reachable_inv01 chains ops Hac Hok) as H1. fold s in H1.
  rewrite (i1_ledger s H1 k). cbn [ledger n_gauge]. split; [reflexivity|]. split.
  - apply wsum_nonneg. intros en. unfold w_gauge. destruct (member k en && g_passed en && negb (e_exited en)); lia.
  - intros Hq. apply wsum_zero. intros en Hin. unfold w_gauge. rewrite (Hq en Hin), andb_false_r. reflexivity.
Qed.

(* outcome: each Entry appends exactly one record, classified by what the caller was handed *)
Lemma outcome_unique chains ops res inb batch flag args chid pk :
  domain chains ops -> 
  let s := exec chains init ops in
  exists en, ents (fst (do_entry chains s res inb batch flag args chid pk)) = ents s ++ [en] /\
    req_of en = (res, inb, batch) /\
    ((exists c lg, snd (do_entry chains s res inb batch flag args chid pk) = REntered (Z.of_nat (length (ents s))) c lg /\
                   g_passed en = true /\ e_exited en = false) \/
     (exists c be lg, snd (do_entry chains s res inb batch flag args chid pk) = RBlocked c be lg /\
                   g_passed en = false /\ e_exited en = true)).
Proof.
  intros (Hac & Hok) s.
  pose proof (reachable_inv chains ops) as HI. fold s in HI.
  destruct (do_entry_ents chains s res inb batch flag args chid pk) as (en & Hents & Hreq & _).
  destruct (do_entry_new_ent chains s res inb batch flag args chid pk HI) as (en' & Hn & _ & _ & _ & _ & _ & _ & _ & _ & Hm).
  rewrite Hents, nth_error_app2, Nat.sub_diag in Hn by lia. cbn in Hn. injection Hn as <-.
  exists en. split; [exact Hents|]. split; [exact Hreq|].
  destruct (do_entry_total chains s res inb batch flag args chid pk) as [(c & lg & Hob)|(c & be & lg & Hob & _)]; rewrite Hob in Hm.
  - left. exists c, lg. destruct Hm as (_ & _ & Hx & _ & Hp). repeat split; auto. apply Hp. apply (Hac chid).
  - right. exists c, be, lg. destruct Hm as (Hx & Hp). auto.
Qed.

(* Exit twice = Exit once *)
Lemma exit_twice chains s e err err' en :
  get_ent s e = Some en ->
  do_exit chains (fst (do_exit chains s e err)) e err' = (fst (do_exit chains s e err), RCalls []).
Proof.
  intros Hg. destruct (do_exit_exits chains s e err en Hg) as (en' & Hg' & Hx'). eapply do_exit_late; eauto.
Qed.

(* frame: an operation that is not a call on entry i leaves i's record untouched *)
Definition target (o : op) : option Z :=
  match o with
  | OExit e _ | OTrace e _ | OCallee e _ | OWhenExit e _ _ => Some e
  | _ => None
  end.

Lemma nth_error_set_ent_other s e g i :
  (0 <= e -> Z.to_nat e <> i) -> nth_error (set_ent s e g) i = nth_error (ents s) i \/ e < 0.
Proof.
  intros H. destruct (Z_lt_dec e 0); [right; auto|left]. unfold set_ent. apply nth_error_upd_nth_other. apply H. lia.
Qed.

Lemma get_ent_neg s e : e < 0 -> get_ent s e = None.
Proof. intros H. unfold get_ent. destruct (e <? 0) eqn:E; [reflexivity|lia]. Qed.

Lemma step_other_ent chains s o i en :
  nth_error (ents s) i = Some en -> target o <> Some (Z.of_nat i) ->
  nth_error (ents (fst (step chains s o))) i = Some en.
Proof.
  intros Hi Ht.
  assert (Hne : forall e, target o = Some e -> 0 <= e -> Z.to_nat e <> i).
  { intros e He H0 Heq. apply Ht. rewrite He. f_equal. lia. }
  destruct o; cbn [step fst]; cbn [target] in Hne; auto.
  - destruct (do_entry_ents chains s res inb batch flag args chain pk) as (en' & -> & _).
    rewrite nth_error_app1; [exact Hi|]. apply nth_error_Some. congruence.
  - unfold do_exit. destruct (get_ent s e) as [en0|] eqn:Eg; [|exact Hi]. destruct (e_exited en0); [exact Hi|].
    destruct (run_handlers (e_handlers en0) []) as [lg1 pan1].
    match goal with |- context [let '(nd2, lg2) := ?t in _] => destruct t as [nd2 lg2] end.
    cbn [fst ents]. apply get_ent_some in Eg. destruct Eg as [He _].
    unfold set_ent. rewrite nth_error_upd_nth_other; [exact Hi|]. apply (Hne e eq_refl He).
  - unfold do_trace. destruct (get_ent s e) as [en0|] eqn:Eg; [|exact Hi]. destruct ((err =? 0) || e_exited en0); [exact Hi|].
    cbn [with_ctx_ents ents]. apply get_ent_some in Eg. destruct Eg as [He _].
    unfold set_ent. rewrite nth_error_upd_nth_other; [exact Hi|]. apply (Hne e eq_refl He).
  - unfold do_callee. destruct (get_ent s e) as [en0|] eqn:Eg; [|exact Hi]. destruct ((addr =? 0) || e_exited en0); [exact Hi|].
    cbn [with_ctx_ents ents]. apply get_ent_some in Eg. destruct Eg as [He _].
    unfold set_ent. rewrite nth_error_upd_nth_other; [exact Hi|]. apply (Hne e eq_refl He).
  - unfold do_when_exit. destruct (get_ent s e) as [en0|] eqn:Eg; [|exact Hi].
    cbn [with_ctx_ents ents]. apply get_ent_some in Eg. destruct Eg as [He _].
    unfold set_ent. rewrite nth_error_upd_nth_other; [exact Hi|]. apply (Hne e eq_refl He).
Qed.

(* what a caller holding entry i sees through e.Context() *)
Definition view (x : ctx) : Z * list Z * Z := (x_err x, x_args x, x_addr x).

Lemma live_view_own s i en :
  Inv s -> nth_error (ents s) i = Some en -> e_exited en = false ->
  view (ctxs s (e_ctx en)) = (g_err en, g_args en, g_addr en) /\ x_entry (ctxs s (e_ctx en)) = Z.of_nat i.
Proof.
  intros HI Hi Hl. destruct (inv_live s HI i en Hi Hl) as (_ & _ & Hx & He & Ha & Hd & _). unfold view. rewrite He, Ha, Hd. auto.
Qed.

Lemma live_view_stable chains s o i en :
  Inv s -> nth_error (ents s) i = Some en -> e_exited en = false -> target o <> Some (Z.of_nat i) ->
  let s' := fst (step chains s o) in
  nth_error (ents s') i = Some en /\ view (ctxs s' (e_ctx en)) = view (ctxs s (e_ctx en)).
Proof.
  intros HI Hi Hl Ht s'. pose proof (step_other_ent chains s o i en Hi Ht) as Hi'. fold s' in Hi'. split; [exact Hi'|].
  assert (HI' : Inv s') by (apply step_inv; exact HI).
  destruct (live_view_own s i en HI Hi Hl) as [-> _]. destruct (live_view_own s' i en HI' Hi' Hl) as [-> _]. reflexivity.
Qed.

(* ---------------------------------------------------------------------------------- *)
(* many goroutines, at call granularity: every interleaving of per-goroutine call sequences is
   a history                                                                            *)

Inductive interleaves : list (list op) -> list op -> Prop :=
| il_done ths : Forall (fun t => t = []) ths -> interleaves ths []
| il_step ths1 o t ths2 h :
    interleaves (ths1 ++ t :: ths2) h -> interleaves (ths1 ++ (o :: t) :: ths2) (o :: h).

Lemma interleaves_ok ths h :
  interleaves ths h -> Forall (Forall ok_op) ths -> Forall ok_op h.
Proof.
  induction 1 as [ths Hn|ths1 o t ths2 h Hi IH]; intros Hok; [constructor|].
  apply Forall_app in Hok. destruct Hok as [H1 H2]. inversion H2 as [|? ? Hot H3]; subst. inversion Hot; subst.
  constructor; [assumption|]. apply IH. apply Forall_app. split; [exact H1|]. constructor; assumption.
Qed.

(* ---------------------------------------------------------------------------------- *)
(* packaged statements                                                                  *)

Lemma exit_idempotent chains s e en :
  get_ent s e = Some en ->
  (e_exited en = true ->
     forall err a, do_exit chains s e err = (s, RCalls []) /\ do_trace s e err = s /\ do_callee s e a = s) /\
  (forall err err', do_exit chains (fst (do_exit chains s e err)) e err' = (fst (do_exit chains s e err), RCalls [])).
Proof.
  intros Hg. split.
  - intros Hx err a. repeat split; [eapply do_exit_late|eapply do_trace_late|eapply do_callee_late]; eauto.
  - intros err err'. eapply exit_twice; eauto.
Qed.

Lemma live_context_stable chains ops i en :
  let s := exec chains init ops in
  nth_error (ents s) i = Some en -> e_exited en = false ->
  (view (ctxs s (e_ctx en)) = (g_err en, g_args en, g_addr en) /\ x_entry (ctxs s (e_ctx en)) = Z.of_nat i) /\
  (forall j en', nth_error (ents s) j = Some en' -> e_exited en' = false -> i <> j -> e_ctx en <> e_ctx en') /\
  forall o, target o <> Some (Z.of_nat i) ->
    let s' := fst (step chains s o) in
    nth_error (ents s') i = Some en /\ view (ctxs s' (e_ctx en)) = view (ctxs s (e_ctx en)).
Proof.
  intros s Hi Hl. pose proof (reachable_inv chains ops) as HI. fold s in HI. split; [|split].
  - apply live_view_own; auto.
  - intros j en' Hj Hl' Hne. apply (live_ctx_distinct s i j en en' HI Hi Hj Hl Hl' Hne).
  - intros o Ht. apply live_view_stable; auto.
Qed.

Lemma interleaving_ledger chains ths h k :
  (forall k, acct_chain (chains k)) -> Forall (Forall ok_op) ths -> interleaves ths h ->
  let s := exec chains init h in
  nodes s k = ledger k (ents s) /\
  n_pass (nodes s k) + n_block (nodes s k) = req_tokens k (requests h) /\
  0 <= n_gauge (nodes s k) /\ (quiescent s -> n_gauge (nodes s k) = 0).
Proof.
  intros Hac Hok Hil s. pose proof (interleaves_ok ths h Hil Hok) as Hh.
  assert (Hd : domain chains h) by (split; auto).
  destruct (token_conservation chains h k Hd) as (_ & _ & Ht).
  destruct (gauge_exact chains h k Hd) as (_ & Hg0 & Hgq).
  split; [apply (i1_ledger _ (reachable_inv01 chains h Hac Hh))|]. auto.
Qed.

(* finding C01-F1: a prepare slot that panics before the resource node is prepared *)
Definition f1_chain : chain :=
  build [ SP {| p_id := 1; p_ord := 0; p_behs := [PPanic] |};
          SP {| p_id := 2; p_ord := 1000; p_behs := [PNode] |};
          SS {| s_id := 3; s_ord := 1000; s_real := true; s_behs := [] |} ].
Definition f1_ops : list op := [OEntry 0 false 1 0 [] 0 (-1); OSnap [0]].

Lemma token_conservation_refuted :
  exists chains ops,
    (forall k, nreal (stats (chains k)) = 1%nat /\ forall flag, no_stat_panic (chains k) flag) /\ Forall ok_op ops /\
    let s := exec chains init ops in
    (exists e c lg, snd (do_entry chains init 0 false 1 0 [] 0 (-1)) = REntered e c lg) /\
    n_pass (nodes s 0) + n_block (nodes s 0) = 0 /\ req_tokens 0 (requests ops) = 1.
Proof.
  exists (fun _ => f1_chain), f1_ops. split; [|split].
  - intros _. split; [reflexivity|]. intros flag. unfold no_stat_panic. vm_compute stats. repeat constructor.
    unfold s_panics, sbeh_of. cbn. discriminate.
  - repeat constructor; cbn; lia.
  - cbv zeta. split; [vm_compute; eauto|]. split; vm_compute; reflexivity.
Qed.

Lemma pick_single {A} (d a : A) flag : pick d [a] flag = a.
Proof. unfold pick. cbn [length]. change (Z.of_nat 1) with 1. rewrite Z.mod_1_r. reflexivity. Qed.
