(* Memory-adaptive calculator, float model: for thresholds and water marks up to 2^53 the value
   computed in doubles stays inside [highT, lowT], is finite, and is non-increasing in the memory
   reading (every step of the computation is a monotone rounding).  Above 2^53 both statements
   fail (witness at the end). *)
From Coq Require Import ZArith Reals Floats Lia Lra Psatz.
From Flocq Require Import Core IEEE754.BinarySingleNaN IEEE754.PrimFloat.
From SG Require Import Base.Prelude Base.GoInt Base.GoFloat Model.Adaptive Proofs.AdaptiveProofs Proofs.C11Float.
#[local] Open Scope Z_scope.

#[local] Transparent two63.

(* thresholds below 2^53 requests, marks below 2^53 bytes (8 PiB) *)
Definition msmall (m : mcfg) : Prop := lowT m <= 2 ^ 53 /\ highW m <= 2 ^ 53.

Lemma uu_53 : (uu * IZR (2 ^ 53) = 1)%R.
Proof. unfold uu. rewrite <- bpow53, <- bpow_plus. reflexivity. Qed.

Lemma uu_pos : (0 < uu)%R.
Proof. apply bpow_gt_0. Qed.

Lemma two53_le_big : (IZR (2 ^ 53) <= big)%R.
Proof. rewrite <- bpow53. apply bpow_le. lia. Qed.

Lemma two54_le_big : (IZR (2 ^ 54) <= big)%R.
Proof.
  assert (E : bpow radix2 54 = IZR (2 ^ 54)) by (rewrite <- (IZR_Zpower radix2 54) by lia; reflexivity).
  rewrite <- E. apply bpow_le. lia.
Qed.

Lemma Rabs_le_big v B : (- B <= v <= B)%R -> (B <= big)%R -> (Rabs v <= big)%R.
Proof. intros H1 H2. apply Rabs_le. lra. Qed.

Lemma div_ge1_bounds a b : (a <= 0)%R -> (1 <= b)%R -> (a <= a / b <= 0)%R.
Proof.
  intros Ha Hb.
  assert (Hi : (0 < / b <= 1)%R).
  { split; [apply Rinv_0_lt_compat; lra|]. rewrite <- Rinv_1. apply Rinv_le_contravar; lra. }
  unfold Rdiv. nra.
Qed.

Lemma small_bpow_le_IZR z : 1 <= z -> (bpow radix2 (-1022) <= IZR z)%R.
Proof.
  intros Hz. apply Rle_trans with 1%R; [|apply IZR_le; lia].
  change 1%R with (bpow radix2 0). apply bpow_le. lia.
Qed.

(* the interpolation branch, step by step *)
Lemma interp_spec m mem : mok m -> msmall m -> lowW m < mem < highW m ->
  let a := IZR (highT m - lowT m) in let b := IZR (highW m - lowW m) in let c := IZR (mem - lowW m) in
  FR (mem_interp m mem) = Rnd (Rnd (Rnd (a / b) * c) + IZR (lowT m)) /\ fin (mem_interp m mem) /\
  (Rnd (a / b) <= 0)%R /\ (a <= Rnd (a / b) * c <= 0)%R.
Proof.
  intros (H1 & H2 & H3 & H4) (S1 & S2) Hm a b c.
  assert (P53 : 2 ^ 53 < two63) by (unfold two63; lia).
  assert (Ia : i64 (highT m - lowT m) = highT m - lowT m) by (apply i64_id; unfold in_i64; lia).
  assert (Ib : i64 (highW m - lowW m) = highW m - lowW m) by (apply i64_id; unfold in_i64; lia).
  assert (Ic : i64 (mem - lowW m) = mem - lowW m) by (apply i64_id; unfold in_i64; lia).
  unfold mem_interp. rewrite Ia, Ib, Ic.
  destruct (of_i64_ok (highT m - lowT m) ltac:(lia)) as [Va Fa].
  destruct (of_i64_ok (highW m - lowW m) ltac:(lia)) as [Vb Fb].
  destruct (of_i64_ok (mem - lowW m) ltac:(lia)) as [Vc Fc].
  destruct (of_i64_ok (lowT m) ltac:(lia)) as [Vl Fl].
  fold a in Va. fold b in Vb. fold c in Vc.
  (* ranges of the exact integers *)
  assert (Ra : (- IZR (2 ^ 53) <= a <= -1)%R).
  { unfold a. split; [rewrite <- opp_IZR|]; apply IZR_le; lia. }
  assert (Rb : (2 <= b <= IZR (2 ^ 53))%R).
  { unfold b. split; apply IZR_le; lia. }
  assert (Rc : (1 <= c <= b - 1)%R).
  { unfold c, b. rewrite <- minus_IZR. split; apply IZR_le; lia. }
  assert (Rl : (IZR (lowT m) <= IZR (2 ^ 53))%R) by (apply IZR_le; lia).
  pose proof two53_le_big as B53. pose proof two54_le_big as B54.
  assert (P54 : (IZR (2 ^ 54) = 2 * IZR (2 ^ 53))%R).
  { rewrite <- mult_IZR. f_equal. }
  pose proof uu_53 as U53. pose proof uu_pos as Upos.
  (* k = fl(a / b) *)
  pose proof (div_ge1_bounds a b ltac:(lra) ltac:(lra)) as Dx.
  destruct (fdiv_ok _ _ Fa Fb) as [Vk Fk].
  { rewrite Vb. lra. }
  { rewrite Va, Vb. apply Rabs_le_big with (IZR (2 ^ 53)); lra. }
  rewrite Va, Vb in Vk.
  set (x := (a / b)%R) in *.
  assert (Hxb : (x * b = a)%R) by (unfold x; field; lra).
  assert (Hx0 : (x < 0)%R) by nra.
  assert (Hk0 : (Rnd x <= 0)%R) by (rewrite <- Rnd_0; apply Rnd_le; lra).
  assert (Hrel : (x * (1 + uu) <= Rnd x)%R).
  { assert (Hn : (bpow radix2 (-1022) <= Rabs x)%R).
    { rewrite Rabs_left by lra.
      apply Rle_trans with uu; [unfold uu; apply bpow_le; lia|].
      (* -x = -a/b >= 1/2^53 *)
      assert ((- x) * b >= 1)%R by nra.
      assert (uu * b <= 1)%R by nra. nra. }
    pose proof (Rnd_rel x Hn) as R. rewrite (Rabs_left x) in R by lra.
    apply Rabs_le_inv in R. lra. }
  assert (Hc1 : ((1 + uu) * c <= b)%R) by nra.
  assert (Hkc : (a <= Rnd x * c <= 0)%R).
  { split; [|nra].
    assert (x * ((1 + uu) * c) >= x * b)%R by nra.
    assert (Rnd x * c >= x * (1 + uu) * c)%R by nra. nra. }
  (* p = k * fl(c) *)
  destruct (fmul_ok _ _ Fk Fc) as [Vp Fp].
  { rewrite Vk, Vc. apply Rabs_le_big with (IZR (2 ^ 53)); lra. }
  rewrite Vk, Vc in Vp.
  assert (Hp : (a <= Rnd (Rnd x * c) <= 0)%R).
  { split.
    - unfold a. rewrite <- (Rnd_int (highT m - lowT m)) by lia. apply Rnd_le. exact (proj1 Hkc).
    - rewrite <- Rnd_0. apply Rnd_le. exact (proj2 Hkc). }
  (* r = p + fl(lowT) *)
  destruct (fadd_ok _ _ Fp Fl) as [Vr Fr].
  { rewrite Vp, Vl. apply Rabs_le_big with (IZR (2 ^ 54)); [|lra].
    assert (0 <= IZR (lowT m))%R by (apply IZR_le; lia). lra. }
  rewrite Vp, Vl in Vr.
  repeat split; try assumption; lra.
Qed.

Lemma interp_bounds m mem : mok m -> msmall m -> lowW m < mem < highW m ->
  fin (mem_interp m mem) /\ (IZR (highT m) <= FR (mem_interp m mem) <= IZR (lowT m))%R.
Proof.
  intros Hok Hs Hm. destruct (interp_spec m mem Hok Hs Hm) as (V & F & _ & Hkc).
  destruct Hok as (H1 & H2 & H3 & H4). destruct Hs as (S1 & S2).
  split; [exact F|]. rewrite V.
  set (p := Rnd (Rnd (IZR (highT m - lowT m) / IZR (highW m - lowW m)) * IZR (mem - lowW m))) in *.
  assert (Hp : (IZR (highT m - lowT m) <= p <= 0)%R).
  { unfold p. split.
    - rewrite <- (Rnd_int (highT m - lowT m)) at 1 by lia. apply Rnd_le. exact (proj1 Hkc).
    - rewrite <- Rnd_0. apply Rnd_le. exact (proj2 Hkc). }
  rewrite minus_IZR in Hp.
  split.
  - rewrite <- (Rnd_int (highT m)) at 1 by lia. apply Rnd_le. lra.
  - rewrite <- (Rnd_int (lowT m)) at 2 by lia. apply Rnd_le. lra.
Qed.

Lemma interp_mono m mem1 mem2 : mok m -> msmall m -> lowW m < mem1 -> mem1 <= mem2 -> mem2 < highW m ->
  (FR (mem_interp m mem2) <= FR (mem_interp m mem1))%R.
Proof.
  intros Hok Hs H1 H12 H2.
  destruct (interp_spec m mem1 Hok Hs ltac:(lia)) as (V1 & _ & K1 & _).
  destruct (interp_spec m mem2 Hok Hs ltac:(lia)) as (V2 & _ & _ & _).
  rewrite V1, V2. apply Rnd_le. apply Rplus_le_compat_r. apply Rnd_le.
  assert (IZR (mem1 - lowW m) <= IZR (mem2 - lowW m))%R by (apply IZR_le; lia).
  nra.
Qed.

Lemma mem_inside m mem : 0 < lowW m -> lowW m < mem < highW m -> mem_allowed m mem = mem_interp m mem.
Proof.
  intros H0 H. unfold mem_allowed, not_retrieved.
  destruct (mem =? -1) eqn:E0; [lia|].
  destruct (mem <=? lowW m) eqn:E1; [lia|].
  destruct (mem >=? highW m) eqn:E2; [lia|reflexivity].
Qed.

(* finite, inside the envelope — every reading, including "not retrieved" (-1) *)
Lemma mem_allowed_bounds m mem : mok m -> msmall m -> -1 <= mem ->
  fin (mem_allowed m mem) /\ (0 < IZR (highT m))%R /\ (IZR (highT m) <= FR (mem_allowed m mem) <= IZR (lowT m))%R.
Proof.
  intros Hok Hs Hm. pose proof Hok as (H1 & H2 & H3 & H4). pose proof Hs as (S1 & S2).
  assert (Hpos : (0 < IZR (highT m))%R) by (apply IZR_lt; lia).
  assert (Hle : (IZR (highT m) <= IZR (lowT m))%R) by (apply IZR_le; lia).
  destruct (Z_le_gt_dec mem (lowW m)) as [A|A].
  - rewrite mem_low by exact A. destruct (of_i64_ok (lowT m) ltac:(lia)) as [V F]. rewrite V. split; [exact F|split; lra].
  - destruct (Z_le_gt_dec (highW m) mem) as [B|B].
    + rewrite mem_high by lia. destruct (of_i64_ok (highT m) ltac:(lia)) as [V F]. rewrite V. split; [exact F|split; lra].
    + rewrite mem_inside by lia. destruct (interp_bounds m mem Hok Hs ltac:(lia)) as [F B']. split; [exact F|split; lra].
Qed.

(* non-increasing in the memory reading *)
Lemma mem_allowed_mono m mem1 mem2 : mok m -> msmall m -> 0 <= mem1 <= mem2 ->
  (FR (mem_allowed m mem2) <= FR (mem_allowed m mem1))%R.
Proof.
  intros Hok Hs Hm. pose proof Hok as (H1 & H2 & H3 & H4). pose proof Hs as (S1 & S2).
  destruct (mem_allowed_bounds m mem1 Hok Hs ltac:(lia)) as (_ & _ & B1).
  destruct (mem_allowed_bounds m mem2 Hok Hs ltac:(lia)) as (_ & _ & B2).
  destruct (of_i64_ok (lowT m) ltac:(lia)) as [Vl _]. destruct (of_i64_ok (highT m) ltac:(lia)) as [Vh _].
  destruct (Z_le_gt_dec mem1 (lowW m)) as [A|A].
  - rewrite (mem_low m mem1) by exact A. rewrite Vl. lra.
  - destruct (Z_le_gt_dec (highW m) mem2) as [B|B].
    + rewrite (mem_high m mem2) by lia. rewrite Vh. lra.
    + rewrite !mem_inside by lia. apply interp_mono; try assumption; lia.
Qed.

Lemma mem_allowed_mono_leb m mem1 mem2 : mok m -> msmall m -> 0 <= mem1 <= mem2 ->
  (mem_allowed m mem2 <=? mem_allowed m mem1)%float = true.
Proof.
  intros Hok Hs Hm.
  destruct (mem_allowed_bounds m mem1 Hok Hs ltac:(lia)) as (F1 & _).
  destruct (mem_allowed_bounds m mem2 Hok Hs ltac:(lia)) as (F2 & _).
  apply leb_true; [exact F2|exact F1|]. apply mem_allowed_mono; assumption.
Qed.

(* ---- thresholds above 2^53: the double computation leaves the envelope and is not monotone ---- *)
Definition big_m : mcfg := {| lowT := 9668711669259933; highT := 9668711669259931; lowW := 1; highW := 7 |}.

Lemma big_m_outside :
  mvalid 1024 big_m = true /\
  (mem_allowed big_m 5 <? f_of_i64 (highT big_m))%float = true /\      (* below the high-memory threshold *)
  (mem_allowed big_m 5 <? mem_allowed big_m 7)%float = true.            (* and increasing from 5 to 7 *)
Proof. vm_compute. repeat split; reflexivity. Qed.
