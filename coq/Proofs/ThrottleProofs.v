(* Lemmas about the sequential throttling model (Model/Throttle.v).  Everything is proved for
   an arbitrary early-rejection predicate, interval function and queueing limit; the float
   instance computed by the code is a special case. *)
From SG Require Import Base.Prelude Base.GoInt Model.Throttle.

Section Generic.
  Variable blk : Z -> bool.
  Variable iv : Z -> Z.
  Variable maxq : Z.

  Notation do_check := (do_check blk iv maxq).
  Notation run := (run blk iv maxq).
  Notation grants := (grants blk iv maxq).

  (* complete case analysis of one DoCheck *)
  Definition step_post (last now b l' : Z) (o : out) : Prop :=
    match o with
    | OZero => b <= 0 /\ l' = last
    | OPass w => 1 <= b /\ blk b = false /\ l' = now + w /\ now + w - last >= iv b /\ 0 <= w /\
                 w <= maxq /\ (last + iv b <= now -> w = 0) /\
                 (now < last + iv b -> w = last + iv b - now)
    | OBlock => 1 <= b /\ l' = last /\
                (blk b = true \/ (Z.max (last + iv b) now - now > maxq /\ (0 <= maxq -> last + iv b - now > maxq)))
    end.

  Lemma step_spec last now b : step_post last now b (fst (do_check last now b)) (snd (do_check last now b)).
  Proof.
    unfold Throttle.do_check.
    destruct (b <=? 0) eqn:Eb; cbn [fst snd step_post]; [lia|].
    destruct (blk b) eqn:Ek; cbn [fst snd step_post]; [split; [lia|split; [reflexivity|left; exact Ek]]|].
    destruct (Z.max (last + iv b) now - now >? maxq) eqn:Eq; cbn [fst snd step_post].
    - repeat split; try lia.
    - repeat split; try lia; try exact Ek.
  Qed.

  Lemma zero_inert last now b : b <= 0 -> do_check last now b = (last, OZero).
  Proof. intro H. unfold Throttle.do_check. destruct (b <=? 0) eqn:E; [reflexivity|lia]. Qed.

  Lemma idle_pass last now b : 0 <= maxq -> 1 <= b -> blk b = false -> last + iv b <= now ->
    do_check last now b = (now, OPass 0).
  Proof.
    intros Hq Hb Hk Hi. unfold Throttle.do_check.
    destruct (b <=? 0) eqn:E; [lia|]. rewrite Hk.
    replace (Z.max (last + iv b) now) with now by lia. replace (now - now) with 0 by lia.
    destruct (0 >? maxq) eqn:E2; [lia|reflexivity].
  Qed.

  Lemma block_iff last now b : 0 <= maxq ->
    (snd (do_check last now b) = OBlock <->
     1 <= b /\ (blk b = true \/ last + iv b - now > maxq)).
  Proof.
    intro Hq. split.
    - intro H. pose proof (step_spec last now b) as S. rewrite H in S. cbn in S. tauto.
    - intros [Hb Hc]. unfold Throttle.do_check.
      destruct (b <=? 0) eqn:E; [lia|].
      destruct (blk b) eqn:Ek; [reflexivity|].
      destruct Hc as [Hc|Hc]; [discriminate|].
      destruct (Z.max (last + iv b) now - now >? maxq) eqn:E3; [reflexivity|lia].
  Qed.

  (* the stored time is the last assigned pass time, and pass times are spaced *)
  Lemma spacing last ops :
    spaced iv last (grants last ops) /\
    fst (run last ops) = last_pass last (grants last ops).
  Proof.
    revert last. induction ops as [|[now b] r IH]; intro last; cbn [Throttle.grants Throttle.run].
    - cbn. auto.
    - pose proof (step_spec last now b) as S.
      destruct (do_check last now b) as [l1 o] eqn:E. cbn [fst snd] in S.
      destruct (IH l1) as [IH1 IH2].
      destruct (run l1 r) as [l2 os] eqn:Er. cbn [fst] in *.
      destruct o; cbn [step_post] in S.
      + destruct S as [_ ->]. auto.
      + destruct S as (Hb & Hk & Hl & Hsp & Hw & _).
        cbn [spaced g_pass g_b last_pass fold_left]. subst l1. split; [split; [lia|exact IH1]|exact IH2].
      + destruct S as (_ & -> & _). auto.
  Qed.

  Lemma wait_bound last ops : 0 <= maxq ->
    Forall (fun o => match o with OPass w => 0 <= w <= maxq | _ => True end) (snd (run last ops)).
  Proof.
    intro Hq. revert last. induction ops as [|[now b] r IH]; intro last; cbn [Throttle.run].
    - constructor.
    - pose proof (step_spec last now b) as S.
      destruct (do_check last now b) as [l1 o] eqn:E. cbn [fst snd] in S.
      specialize (IH l1). destruct (run l1 r) as [l2 os]. cbn [snd] in *.
      constructor; [|exact IH].
      destruct o; cbn [step_post] in S; auto. lia.
  Qed.

  (* pass time >= arrival, for every admitted request *)
  Lemma pass_ge_arrival last ops : Forall (fun g => g_now g <= g_pass g) (grants last ops).
  Proof.
    revert last. induction ops as [|[now b] r IH]; intro last; cbn [Throttle.grants].
    - constructor.
    - pose proof (step_spec last now b) as S.
      destruct (do_check last now b) as [l1 o] eqn:E. cbn [fst snd] in S.
      destruct o; cbn [step_post] in S; auto.
      constructor; [cbn; lia|auto].
  Qed.

  (* a request admitted after g passes no earlier than g's ARRIVAL plus its own interval:
     idle time before g cannot be spent later *)
  Fixpoint no_bank (gs : list grant) : Prop :=
    match gs with
    | [] => True
    | g :: r => match r with
                | [] => True
                | h :: _ => g_pass h >= g_now g + iv (g_b h)
                end /\ no_bank r
    end.

  Lemma spaced_no_bank prev gs : spaced iv prev gs -> Forall (fun g => g_now g <= g_pass g) gs -> no_bank gs.
  Proof.
    revert prev. induction gs as [|g r IH]; intros prev Hs Hf; cbn [no_bank]; auto.
    cbn [spaced] in Hs. destruct Hs as [_ Hs]. inversion Hf as [|? ? Hg Hr]; subst.
    split; [|eapply IH; eauto].
    destruct r as [|h r']; auto. cbn [spaced] in Hs. destruct Hs as [Hh _]. lia.
  Qed.

  Lemma no_banking last ops : no_bank (grants last ops).
  Proof. eapply spaced_no_bank; [apply spacing|apply pass_ge_arrival]. Qed.

  (* k admitted requests take at least the sum of their intervals *)
  Fixpoint sum_iv (gs : list grant) : Z :=
    match gs with [] => 0 | g :: r => iv (g_b g) + sum_iv r end.

  Lemma spaced_total prev gs : spaced iv prev gs -> last_pass prev gs - prev >= sum_iv gs.
  Proof.
    revert prev. induction gs as [|g r IH]; intros prev Hs; cbn [last_pass fold_left sum_iv]; [lia|].
    cbn [spaced] in Hs. destruct Hs as [H1 H2]. specialize (IH _ H2). unfold last_pass in IH. lia.
  Qed.

  (* ---- any window of the history, not only the whole of it ---- *)
  Lemma spaced_app prev a b : spaced iv prev (a ++ b) <-> spaced iv prev a /\ spaced iv (last_pass prev a) b.
  Proof.
    revert prev. induction a as [|g r IH]; intros prev; cbn [app spaced last_pass fold_left].
    - tauto.
    - rewrite IH. unfold last_pass. tauto.
  Qed.

  (* every contiguous run `mid` of admitted requests following an admitted request g takes at
     least the sum of its intervals, measured from g's pass time *)
  Lemma spaced_window prev pre g mid post :
    spaced iv prev (pre ++ g :: mid ++ post) ->
    last_pass (g_pass g) mid - g_pass g >= sum_iv mid.
  Proof.
    intros Hs. apply spaced_app in Hs. destruct Hs as [_ Hs]. cbn [spaced] in Hs. destruct Hs as [_ Hs].
    apply spaced_app in Hs. destruct Hs as [Hs _]. apply spaced_total. exact Hs.
  Qed.

  Lemma sum_iv_ge_count d gs : Forall (fun g => d <= iv (g_b g)) gs -> d * Z.of_nat (length gs) <= sum_iv gs.
  Proof.
    induction 1 as [|g r Hg _ IH]; cbn [length sum_iv]; [lia|]. rewrite Nat2Z.inj_succ. lia.
  Qed.

  (* rate bound over any window: if every request of the run needs at least d ns, then at most
     span/d of them pass within a span *)
  Lemma window_count d last ops pre g mid post :
    grants last ops = pre ++ g :: mid ++ post ->
    Forall (fun h => d <= iv (g_b h)) mid ->
    d * Z.of_nat (length mid) <= last_pass (g_pass g) mid - g_pass g.
  Proof.
    intros He Hf. pose proof (proj1 (spacing last ops)) as Hs. rewrite He in Hs.
    apply spaced_window in Hs. pose proof (sum_iv_ge_count d mid Hf). lia.
  Qed.
End Generic.
