(* Invariants of the concurrent throttling machine (Model/ThrottleConc.v), for every schedule
   and any number of callers; generic in the early-rejection predicate, interval function and
   queueing limit. *)
From SG Require Import Base.Prelude Base.GoInt Model.Throttle Model.ThrottleConc.

Lemma Forall_upd_nth {A} (P : A -> Prop) n x l : Forall P l -> P x -> Forall P (upd_nth n (fun _ => x) l).
Proof.
  intros Hl Hx. revert n. induction Hl as [|y r Hy Hr IH]; intros [|n]; cbn; auto.
Qed.

Lemma nth_error_Forall {A} (P : A -> Prop) l n x : Forall P l -> nth_error l n = Some x -> P x.
Proof.
  intros Hl. revert n. induction Hl as [|y r Hy Hr IH]; intros [|n] H; cbn in H; try discriminate.
  - injection H as <-. exact Hy.
  - eapply IH; eauto.
Qed.

Section Generic.
  Variable blk : Z -> bool.
  Variable iv : Z -> Z.
  Variable maxq : Z.

  Notation tstep := (tstep blk iv maxq).
  Notation cstep := (cstep blk iv maxq).
  Notation cexec := (cexec blk iv maxq).

  (* ---------- per-thread and per-event facts that hold on every schedule ---------- *)

  Definition wait_ok (w : Z) : Prop := 0 <= w /\ (0 <= maxq -> w <= maxq).

  Definition thr_inv (th : thread) : Prop :=
    (t_pc th = P202 -> t_loaded th + iv (t_b th) <= t_now th) /\
    (forall w, t_out th = Some (OPass w) -> wait_ok w).

  Definition gev_inv (e : gev) : Prop :=
    match e with
    | EGrant _ now b w la => wait_ok w /\ la <= now + w /\ 1 <= b /\ blk b = false
    | EBlock _ now b seen => seen + iv b - now > maxq
    | _ => True
    end.

  Definition all_inv (s : cst) : Prop := Forall thr_inv (c_threads s) /\ Forall gev_inv (c_log s).

  Lemma tstep_inv tid last clock th :
    thr_inv th ->
    (t_pc th = PStart \/ (1 <= t_b th /\ blk (t_b th) = false)) ->
    thr_inv (snd (fst (tstep tid last clock th))) /\ Forall gev_inv (snd (tstep tid last clock th)) /\
    (let th' := snd (fst (tstep tid last clock th)) in t_pc th' = PStart \/ t_pc th' = PDone \/ (1 <= t_b th' /\ blk (t_b th') = false)).
  Proof.
    intros [H202 Hout] Hb. unfold ThrottleConc.tstep.
    destruct (t_pc th) eqn:Epc.
    - destruct (t_b th <=? 0) eqn:E0; cbn [fst snd].
      + split; [|split; [constructor|cbn; auto]]. split; cbn; [discriminate|]. intros w H; discriminate.
      + destruct (blk (t_b th)) eqn:Ek; cbn [fst snd].
        * split; [|split; [constructor|cbn; auto]]. split; cbn; [discriminate|]. intros w H; discriminate.
        * split; [|split; [constructor|cbn; right; right; split; [lia|exact Ek]]]. split; cbn; [discriminate|]. intros w H; discriminate.
    - destruct Hb as [Hb|Hb]; [discriminate|]. cbn [fst snd]. split; [|split; [constructor|cbn; auto]].
      split; cbn [t_pc t_loaded t_b t_now t_out].
      + destruct (last + iv (t_b th) <=? t_now th) eqn:E; [lia|discriminate].
      + intros w H; discriminate.
    - destruct Hb as [Hb|Hb]; [discriminate|].
      destruct (last =? t_loaded th) eqn:E; cbn [fst snd].
      + split; [|split].
        * split; cbn; [discriminate|]. intros w H. injection H as <-. unfold wait_ok. lia.
        * constructor; [|constructor]. cbn. unfold wait_ok. repeat split; try lia. apply Hb.
        * cbn; auto.
      + split; [|split; [constructor|cbn; auto]]. split; cbn; [discriminate|exact Hout].
    - destruct Hb as [Hb|Hb]; [discriminate|].
      destruct (last + iv (t_b th) - t_now th >? maxq) eqn:E; cbn [fst snd].
      + split; [|split].
        * split; cbn; [discriminate|]. intros w H; discriminate.
        * constructor; [|constructor]. cbn. lia.
        * cbn; auto.
      + split; [|split; [constructor|cbn; auto]]. split; cbn; [discriminate|exact Hout].
    - destruct Hb as [Hb|Hb]; [discriminate|].
      destruct (last + iv (t_b th) - t_now th >? maxq) eqn:E; cbn [fst snd].
      + split; [|split; [repeat constructor|cbn; auto]]. split; cbn; [discriminate|exact Hout].
      + assert (Hw : wait_ok (if last + iv (t_b th) - t_now th >? 0 then last + iv (t_b th) - t_now th else 0)).
        { unfold wait_ok. destruct (last + iv (t_b th) - t_now th >? 0) eqn:E2; lia. }
        split; [|split].
        * split; cbn; [discriminate|]. intros w H. injection H as <-. exact Hw.
        * constructor; [|constructor]. cbn. split; [exact Hw|]. split; [|exact Hb].
          destruct (last + iv (t_b th) - t_now th >? 0) eqn:E2; lia.
        * cbn; auto.
    - cbn [fst snd]. split; [|split; [repeat constructor|cbn; auto]]. split; cbn; [discriminate|]. intros w H; discriminate.
    - cbn [fst snd]. split; [split; [intro HH; congruence|exact Hout]|split; [constructor|auto]].
  Qed.

  (* threads past Start carry an admissible batch *)
  Definition thr_adm (th : thread) : Prop :=
    t_pc th = PStart \/ t_pc th = PDone \/ (1 <= t_b th /\ blk (t_b th) = false).

  Definition all_inv2 (s : cst) : Prop := all_inv s /\ Forall thr_adm (c_threads s).

  Lemma cstep_inv s e : all_inv2 s -> all_inv2 (cstep s e).
  Proof.
    intros [[Ht Hl] Ha]. destruct e as [tid|t]; cbn [ThrottleConc.cstep]; [|repeat split; assumption].
    destruct (nth_error (c_threads s) tid) as [th|] eqn:En; [|repeat split; assumption].
    pose proof (nth_error_Forall _ _ _ _ Ht En) as Hth.
    pose proof (nth_error_Forall _ _ _ _ Ha En) as Hath.
    destruct (t_pc th) eqn:Epc.
    all: try (assert (Hb : t_pc th = PStart \/ (1 <= t_b th /\ blk (t_b th) = false))
      by (destruct Hath as [H|[H|H]]; [left; exact H|congruence|right; exact H]);
      pose proof (tstep_inv tid (c_last s) (c_clock s) th Hth Hb) as (H1 & H2 & H3);
      destruct (tstep tid (c_last s) (c_clock s) th) as [[l th'] g]; cbn [fst snd] in *;
      split; [split; cbn [c_threads c_log]; [apply Forall_upd_nth; assumption|apply Forall_app; split; assumption]
             |cbn [c_threads]; apply Forall_upd_nth; [assumption|exact H3]]).
    (* PDone *)
    unfold ThrottleConc.tstep. rewrite Epc. cbn [c_threads c_log].
    split; [split|]; [apply Forall_upd_nth; assumption|rewrite app_nil_r; assumption|apply Forall_upd_nth; assumption].
  Qed.

  Lemma cexec_inv sched s : all_inv2 s -> all_inv2 (cexec sched s).
  Proof. revert s. induction sched as [|e r IH]; intros s H; cbn; [exact H|]. apply IH. apply cstep_inv. exact H. Qed.

  Lemma cinit_inv bs : all_inv2 (cinit bs).
  Proof.
    unfold all_inv2, all_inv, cinit; cbn. repeat split; try constructor.
    - induction bs; cbn; constructor; auto. split; cbn; [discriminate|intros w H; discriminate].
    - induction bs; cbn; constructor; auto. left. reflexivity.
  Qed.

  (* every admitted caller, on every schedule: 0 <= wait <= maxq *)
  Lemma conc_wait_bound bs sched : 0 <= maxq ->
    Forall (fun o => match o with Some (OPass w) => 0 <= w <= maxq | _ => True end)
           (outcomes (cexec sched (cinit bs))).
  Proof.
    intro Hq. destruct (cexec_inv sched _ (cinit_inv bs)) as [[Ht _] _].
    unfold outcomes. induction Ht as [|th r Hth Hr IH]; cbn; constructor; auto.
    destruct (t_out th) as [[| w |]|] eqn:E; auto.
    destruct Hth as [_ Ho]. destruct (Ho w E) as [H1 H2]. lia.
  Qed.

  (* every grant, on every schedule: pass time >= arrival, wait bounded, stored time never
     ahead of the pass time *)
  Lemma conc_grants_ok bs sched :
    Forall (fun e => match e with
                     | EGrant _ now b w la => 0 <= w /\ now <= now + w /\ la <= now + w /\ (0 <= maxq -> w <= maxq)
                     | _ => True end) (c_log (cexec sched (cinit bs))).
  Proof.
    destruct (cexec_inv sched _ (cinit_inv bs)) as [[_ Hl] _].
    induction Hl as [|e r He Hr IH]; constructor; auto.
    destruct e; auto. cbn in He. destruct He as ([H1 H2] & H3 & _). repeat split; try lia; try exact H2.
  Qed.

  Lemma conc_pass_ge_arrival bs sched :
    Forall (fun g => g_now g <= g_pass g) (grants_of (c_log (cexec sched (cinit bs)))).
  Proof.
    pose proof (conc_grants_ok bs sched) as H.
    induction H as [|e r He Hr IH]; cbn [grants_of]; [constructor|].
    destruct e; auto. constructor; [cbn; lia|exact IH].
  Qed.

  (* a rejection at 203 is justified by the value the caller loaded *)
  Lemma conc_block_seen bs sched :
    Forall (fun e => match e with EBlock _ now b seen => seen + iv b - now > maxq | _ => True end)
           (c_log (cexec sched (cinit bs))).
  Proof.
    destruct (cexec_inv sched _ (cinit_inv bs)) as [[_ Hl] _].
    induction Hl as [|e r He Hr IH]; constructor; auto. destruct e; auto.
  Qed.

  (* ---------- spacing, on schedules without rollback and without stale add ---------- *)

  Lemma grants_of_app l1 l2 : grants_of (l1 ++ l2) = grants_of l1 ++ grants_of l2.
  Proof. induction l1 as [|e r IH]; cbn; auto. destruct e; cbn; rewrite ?IH; auto. Qed.

  Lemma last_pass_app prev l1 l2 : last_pass prev (l1 ++ l2) = last_pass (last_pass prev l1) l2.
  Proof. unfold last_pass. apply fold_left_app. Qed.

  Lemma spaced_app prev l1 l2 : spaced iv prev (l1 ++ l2) <-> spaced iv prev l1 /\ spaced iv (last_pass prev l1) l2.
  Proof.
    revert prev. induction l1 as [|g r IH]; intro prev; cbn [app spaced last_pass fold_left].
    - tauto.
    - rewrite IH. unfold last_pass. tauto.
  Qed.

  Definition sp_inv (s : cst) : Prop :=
    rollback_free (c_log s) -> stale_free (c_log s) ->
    spaced iv last0 (grants_of (c_log s)) /\ c_last s = last_pass last0 (grants_of (c_log s)).

  Definition good (s : cst) : Prop := all_inv2 s /\ sp_inv s.

  Lemma cstep_good s e : good s -> good (cstep s e).
  Proof.
    intros [Hi Hs]. split; [apply cstep_inv; exact Hi|].
    destruct e as [tid|t]; cbn [ThrottleConc.cstep]; [|exact Hs].
    destruct (nth_error (c_threads s) tid) as [th|] eqn:En; [|exact Hs].
    destruct Hi as [[Ht _] _].
    pose proof (nth_error_Forall _ _ _ _ Ht En) as [H202 _].
    unfold sp_inv in *. unfold ThrottleConc.tstep.
    destruct (t_pc th) eqn:Epc.
    - destruct (t_b th <=? 0); [|destruct (blk (t_b th))]; cbn [c_log c_last]; rewrite app_nil_r; exact Hs.
    - cbn [c_log c_last]; rewrite app_nil_r; exact Hs.
    - destruct (c_last s =? t_loaded th) eqn:E; cbn [c_log c_last]; [|rewrite app_nil_r; exact Hs].
      intros Hrf Hsf. apply Forall_app in Hrf as [Hrf _]. apply Forall_app in Hsf as [Hsf _].
      destruct (Hs Hrf Hsf) as [Hsp Hl].
      rewrite grants_of_app. cbn [grants_of]. rewrite last_pass_app, spaced_app.
      cbn [spaced last_pass fold_left g_pass g_b]. rewrite <- Hl.
      specialize (H202 eq_refl). repeat split; try assumption; lia.
    - destruct (c_last s + iv (t_b th) - t_now th >? maxq); cbn [c_log c_last].
      + intros Hrf Hsf. apply Forall_app in Hrf as [Hrf _]. apply Forall_app in Hsf as [Hsf _].
        rewrite grants_of_app. cbn [grants_of]. rewrite app_nil_r. exact (Hs Hrf Hsf).
      + rewrite app_nil_r; exact Hs.
    - destruct (c_last s + iv (t_b th) - t_now th >? maxq); cbn [c_log c_last].
      + intros Hrf _. apply Forall_app in Hrf as [_ Hrf]. inversion Hrf as [|? ? Hx _]; subst. destruct Hx.
      + intros Hrf Hsf. apply Forall_app in Hrf as [Hrf _]. apply Forall_app in Hsf as [Hsf Hnew].
        inversion Hnew as [|? ? Hx _]; subst. cbn in Hx.
        destruct (Hs Hrf Hsf) as [Hsp Hl].
        rewrite grants_of_app. cbn [grants_of]. rewrite last_pass_app, spaced_app.
        cbn [spaced last_pass fold_left g_pass g_b]. rewrite <- Hl.
        repeat split; try assumption; lia.
    - cbn [c_log c_last]. intros Hrf _. apply Forall_app in Hrf as [_ Hrf]. inversion Hrf as [|? ? Hx _]; subst. destruct Hx.
    - cbn [c_log c_last]; rewrite app_nil_r; exact Hs.
  Qed.

  Lemma cexec_good sched s : good s -> good (cexec sched s).
  Proof. revert s. induction sched as [|e r IH]; intros s H; cbn; [exact H|]. apply IH. apply cstep_good. exact H. Qed.

  Lemma cinit_good bs : good (cinit bs).
  Proof. split; [apply cinit_inv|]. intros _ _. cbn. auto. Qed.

  (* boolean mirrors, used to evaluate the statements on concrete witnesses *)
  Fixpoint spacedb (prev : Z) (gs : list grant) : bool :=
    match gs with
    | [] => true
    | g :: r => (iv (g_b g) <=? g_pass g - prev) && spacedb (g_pass g) r
    end.

  Lemma spacedb_spec prev gs : spacedb prev gs = true <-> spaced iv prev gs.
  Proof.
    revert prev. induction gs as [|g r IH]; intro prev; cbn [spacedb spaced]; [tauto|].
    rewrite andb_true_iff, IH, Z.leb_le. split; intros [H1 H2]; split; auto; lia.
  Qed.

  Definition rollback_freeb (l : list gev) : bool :=
    forallb (fun e => match e with EAddOver _ _ | ERollback _ _ => false | _ => true end) l.
  Definition stale_freeb (l : list gev) : bool :=
    forallb (fun e => match e with EGrant _ now _ w la => la =? now + w | _ => true end) l.

  Lemma rollback_freeb_spec l : rollback_freeb l = true <-> rollback_free l.
  Proof.
    unfold rollback_freeb, rollback_free. rewrite forallb_forall, Forall_forall.
    split; intros H e He; specialize (H e He); destruct e; auto; try discriminate; destruct H.
  Qed.

  Lemma stale_freeb_spec l : stale_freeb l = true <-> stale_free l.
  Proof.
    unfold stale_freeb, stale_free. rewrite forallb_forall, Forall_forall.
    split; intros H e He; specialize (H e He); destruct e; auto; lia.
  Qed.

  Lemma conc_spacing_partial bs sched :
    let s := cexec sched (cinit bs) in
    rollback_free (c_log s) -> stale_free (c_log s) ->
    spaced iv last0 (grants_of (c_log s)) /\ c_last s = last_pass last0 (grants_of (c_log s)).
  Proof. intro s. exact (proj2 (cexec_good sched _ (cinit_good bs))). Qed.
End Generic.
