(* Invariants of the concurrent throttling machine (Model/ThrottleConc.v: the CAS loop of
   ThrottlingChecker.DoCheck), for every schedule and any number of callers; generic in the
   early-rejection predicate, interval function and queueing limit. *)
From Coq Require Import Permutation.
From SG Require Import Base.Prelude Base.GoInt Model.Throttle Model.ThrottleConc.

(* ---------- lists ---------- *)

Lemma nth_error_upd_same {A} n (x y : A) l : nth_error l n = Some y -> nth_error (upd_nth n (fun _ => x) l) n = Some x.
Proof. revert n. induction l as [|a r IH]; intros [|n] H; cbn in *; try discriminate; auto. Qed.

Lemma nth_error_upd_other {A} n m (f : A -> A) l : n <> m -> nth_error (upd_nth n f l) m = nth_error l m.
Proof. revert n m. induction l as [|a r IH]; intros [|n] [|m] H; cbn in *; try lia; auto. Qed.

Lemma upd_nth_id {A} n (x : A) l : nth_error l n = Some x -> upd_nth n (fun _ => x) l = l.
Proof. revert n. induction l as [|a r IH]; intros [|n] H; cbn in *; try discriminate; auto.
  - injection H as ->. reflexivity.
  - rewrite IH; auto.
Qed.

(* ---------- the ghost log under append ---------- *)

Lemma grants_of_app l1 l2 : grants_of (l1 ++ l2) = grants_of l1 ++ grants_of l2.
Proof. induction l1 as [|e r IH]; cbn; auto. destruct e; cbn; rewrite ?IH; auto. Qed.

Lemma gtids_app l1 l2 : gtids (l1 ++ l2) = gtids l1 ++ gtids l2.
Proof. induction l1 as [|e r IH]; cbn; auto. destruct e; cbn; rewrite ?IH; auto. Qed.

Lemma fails_app tid l1 l2 : fails tid (l1 ++ l2) = (fails tid l1 + fails tid l2)%nat.
Proof. unfold fails. rewrite filter_app, app_length. reflexivity. Qed.

Lemma others_app tid l1 l2 : others tid (l1 ++ l2) = (others tid l1 + others tid l2)%nat.
Proof. unfold others. rewrite gtids_app, filter_app, app_length. reflexivity. Qed.

Lemma since_snoc tid l e :
  since tid (l ++ [e]) = if Nat.eqb (ev_tid e) tid then [] else since tid l ++ [e].
Proof. unfold since. rewrite fold_left_app. reflexivity. Qed.

Lemma since_app_other tid l g : Forall (fun e => ev_tid e <> tid) g -> since tid (l ++ g) = since tid l ++ g.
Proof.
  intro H. revert l. induction H as [|e r He Hr IH]; intro l; [rewrite !app_nil_r; reflexivity|].
  replace (l ++ e :: r) with ((l ++ [e]) ++ r) by (rewrite <- app_assoc; reflexivity).
  rewrite IH, since_snoc. destruct (Nat.eqb (ev_tid e) tid) eqn:E; [apply Nat.eqb_eq in E; contradiction|].
  rewrite <- app_assoc. reflexivity.
Qed.

Lemma since_app_self tid l g e : ev_tid e = tid -> since tid (l ++ g ++ [e]) = [].
Proof. intro H. rewrite app_assoc, since_snoc. rewrite H, Nat.eqb_refl. reflexivity. Qed.

Lemma gtids_in_ev t g : In t (gtids g) -> exists e, In e g /\ ev_tid e = t.
Proof.
  induction g as [|e r IH]; cbn; [tauto|]. destruct e; cbn; intro H;
    try (destruct (IH H) as (e & He & Ht); exists e; split; [right; exact He|exact Ht]).
  destruct H as [<-|H]; [eexists; split; [left; reflexivity|reflexivity]|].
  destruct (IH H) as (e & He & Ht); exists e; split; [right; exact He|exact Ht].
Qed.

Lemma fails_none tid g : Forall (fun e => ev_tid e <> tid) g -> fails tid g = 0%nat.
Proof.
  unfold fails. induction 1 as [|e r He Hr IH]; cbn; auto.
  destruct e; cbn in *; auto. destruct (Nat.eqb tid0 tid) eqn:E; [apply Nat.eqb_eq in E; contradiction|exact IH].
Qed.

Lemma others_all tid g : Forall (fun e => ev_tid e <> tid) g -> others tid g = length (gtids g).
Proof.
  unfold others. induction 1 as [|e r He Hr IH]; cbn; auto.
  destruct e; cbn in *; auto. destruct (Nat.eqb tid0 tid) eqn:E; [apply Nat.eqb_eq in E; contradiction|cbn; rewrite IH; reflexivity].
Qed.

Lemma others_self tid g : Forall (fun e => ev_tid e = tid) g -> others tid g = 0%nat.
Proof.
  unfold others. induction 1 as [|e r He Hr IH]; cbn; auto.
  destruct e; cbn in *; auto. subst. rewrite Nat.eqb_refl. cbn. exact IH.
Qed.

Lemma exists_grant_len tid l : Exists (granted_to_other tid) l -> (1 <= length (gtids l))%nat.
Proof.
  induction 1 as [e r He|e r Hr IH].
  - destruct e; cbn in *; try contradiction. lia.
  - destruct e; cbn; lia.
Qed.

Lemma fails_justified_app pre l1 l2 :
  fails_justified pre (l1 ++ l2) <-> fails_justified pre l1 /\ fails_justified (pre ++ l1) l2.
Proof.
  revert pre. induction l1 as [|e r IH]; intro pre; cbn [app fails_justified].
  - rewrite app_nil_r. tauto.
  - rewrite IH. rewrite <- app_assoc. cbn [app]. tauto.
Qed.

Lemma last_pass_app prev l1 l2 : last_pass prev (l1 ++ l2) = last_pass (last_pass prev l1) l2.
Proof. unfold last_pass. apply fold_left_app. Qed.

Section Generic.
  Variable blk : Z -> bool.
  Variable iv : Z -> Z.
  Variable maxq : Z.

  Notation tstep := (tstep blk iv maxq).
  Notation cstep := (cstep blk iv maxq).
  Notation cexec := (cexec blk iv maxq).
  Notation pass_of := (pass_of iv).

  Lemma spaced_app prev l1 l2 : spaced iv prev (l1 ++ l2) <-> spaced iv prev l1 /\ spaced iv (last_pass prev l1) l2.
  Proof.
    revert prev. induction l1 as [|g r IH]; intro prev; cbn [app spaced last_pass fold_left].
    - tauto.
    - rewrite IH. unfold last_pass. tauto.
  Qed.

  (* ---------- the invariant ---------- *)

  Definition adm (th : thread) : Prop := 1 <= t_b th /\ blk (t_b th) = false.

  (* caller `tid` in state `th`, shared value `last`, log `log` *)
  Definition thr_inv (last : Z) (log : list gev) (tid : nat) (th : thread) : Prop :=
    (t_pc th = P201 \/ t_pc th = P202 -> adm th /\ t_out th = None) /\
    (t_pc th = P202 ->
       pass_of (t_loaded th) (t_now th) (t_b th) - t_now th <= maxq /\
       (exists l0, log = l0 ++ ELoad tid (t_loaded th) :: since tid log) /\
       (last = t_loaded th \/ Exists (granted_to_other tid) (since tid log)) /\
       (fails tid log + length (gtids (since tid log)) <= others tid log)%nat) /\
    (t_pc th <> PDone -> ~ In tid (gtids log)) /\
    (fails tid log <= others tid log)%nat /\
    (forall w, t_out th = Some (OPass w) ->
       t_pc th = PDone /\ exists seen, In (EGrant tid (t_now th) (t_b th) w seen) log) /\
    (t_out th = Some OBlock ->
       t_pc th = PDone /\ 1 <= t_b th /\
       (blk (t_b th) = true \/ exists seen, In (EBlock tid (t_now th) (t_b th) seen) log)).

  Definition gev_inv (ths : list thread) (e : gev) : Prop :=
    match e with
    | EGrant tid now b w seen =>
        now + w = pass_of seen now b /\ w <= maxq /\ 1 <= b /\ blk b = false /\
        exists th, nth_error ths tid = Some th /\ t_pc th = PDone /\
                   t_out th = Some (OPass w) /\ t_now th = now /\ t_b th = b
    | EBlock tid now b seen =>
        pass_of seen now b - now > maxq /\ 1 <= b /\ blk b = false /\
        exists th, nth_error ths tid = Some th /\ t_pc th = PDone /\
                   t_out th = Some OBlock /\ t_now th = now /\ t_b th = b
    | _ => True
    end.

  Definition inv (s : cst) : Prop :=
    (forall tid th, nth_error (c_threads s) tid = Some th -> thr_inv (c_last s) (c_log s) tid th) /\
    Forall (gev_inv (c_threads s)) (c_log s) /\
    (spaced iv last0 (grants_of (c_log s)) /\ c_last s = last_pass last0 (grants_of (c_log s))) /\
    fails_justified [] (c_log s) /\
    NoDup (gtids (c_log s)) /\
    (forall t, In t (gtids (c_log s)) -> (t < length (c_threads s))%nat).

  (* a step of caller `tid` as seen by another caller `tid0` *)
  Lemma thr_inv_other last last' log g tid tid0 th0 :
    tid0 <> tid ->
    Forall (fun e => ev_tid e = tid) g ->
    (last' = last \/ Exists (granted_to_other tid0) g) ->
    thr_inv last log tid0 th0 -> thr_inv last' (log ++ g) tid0 th0.
  Proof.
    intros Hne Hg Hl (H1 & H2 & H3 & H4 & H5 & H6).
    assert (Hg' : Forall (fun e => ev_tid e <> tid0) g).
    { eapply Forall_impl; [|exact Hg]. cbn. intros e He. congruence. }
    split; [exact H1|]. split; [|split; [|split; [|split]]].
    - intro Hpc. destruct (H2 Hpc) as (Ha & (l0 & Hb) & Hc & Hd).
      rewrite since_app_other by exact Hg'.
      split; [exact Ha|]. split; [|split].
      + exists l0. rewrite Hb at 1. rewrite <- app_assoc. reflexivity.
      + destruct Hl as [->|Hl].
        * destruct Hc as [Hc|Hc]; [left; exact Hc|right; apply Exists_app; left; exact Hc].
        * right. apply Exists_app. right. exact Hl.
      + rewrite fails_app, others_app, gtids_app, app_length, (fails_none _ _ Hg'), (others_all _ _ Hg'). lia.
    - intros Hpc Hin. rewrite gtids_app in Hin. apply in_app_or in Hin as [Hin|Hin]; [exact (H3 Hpc Hin)|].
      apply gtids_in_ev in Hin as (e & He & Ht).
      rewrite Forall_forall in Hg. specialize (Hg e He). congruence.
    - rewrite fails_app, others_app, (fails_none _ _ Hg'). lia.
    - intros w Hw. destruct (H5 w Hw) as (Ha & seen & Hb). split; [exact Ha|]. exists seen. apply in_or_app. left; exact Hb.
    - intro Hb. destruct (H6 Hb) as (Ha & Hc & Hd). split; [exact Ha|]. split; [exact Hc|].
      destruct Hd as [Hd|[seen Hd]]; [left; exact Hd|right; exists seen; apply in_or_app; left; exact Hd].
  Qed.

  Lemma gev_inv_upd ths tid th th' e :
    nth_error ths tid = Some th -> (t_pc th = PDone -> th' = th) ->
    gev_inv ths e -> gev_inv (upd_nth tid (fun _ => th') ths) e.
  Proof.
    intros Hn Hd. destruct e as [t seen|t now b w seen|t|t now b seen]; cbn; auto.
    - intros (H1 & H2 & H3 & H4 & th0 & Hn0 & Hpc & Hr). repeat split; auto.
      exists th0. split; [|split; [exact Hpc|exact Hr]].
      destruct (Nat.eq_dec tid t) as [->|Hne].
      + rewrite Hn in Hn0. injection Hn0 as <-. rewrite (Hd Hpc). rewrite upd_nth_id; auto.
      + rewrite nth_error_upd_other; auto.
    - intros (H1 & H3 & H4 & th0 & Hn0 & Hpc & Hr). repeat split; auto.
      exists th0. split; [|split; [exact Hpc|exact Hr]].
      destruct (Nat.eq_dec tid t) as [->|Hne].
      + rewrite Hn in Hn0. injection Hn0 as <-. rewrite (Hd Hpc). rewrite upd_nth_id; auto.
      + rewrite nth_error_upd_other; auto.
  Qed.

  (* assembling the invariant after a step of caller `tid` *)
  Lemma inv_assemble s tid th th' last' g :
    inv s -> nth_error (c_threads s) tid = Some th ->
    Forall (fun e => ev_tid e = tid) g ->
    (t_pc th = PDone -> th' = th) ->
    thr_inv last' (c_log s ++ g) tid th' ->
    Forall (gev_inv (upd_nth tid (fun _ => th') (c_threads s))) g ->
    ((last' = c_last s /\ grants_of g = [] /\ gtids g = []) \/
     (exists now b w, g = [EGrant tid now b w (c_last s)] /\ last' = now + w /\
                      now + w - c_last s >= iv b /\ t_pc th <> PDone)) ->
    fails_justified (c_log s) g ->
    inv {| c_last := last'; c_clock := c_clock s;
           c_threads := upd_nth tid (fun _ => th') (c_threads s);
           c_log := c_log s ++ g |}.
  Proof.
    intros (It & Ie & (Is1 & Is2) & If & In1 & In2) Hn Hg Hd Hself Hnew Hlast Hfj.
    unfold inv; cbn [c_last c_threads c_log].
    split; [|split; [|split; [|split; [|split]]]].
    - intros tid0 th0 Hn0. destruct (Nat.eq_dec tid tid0) as [<-|Hne].
      + rewrite (nth_error_upd_same _ _ _ _ Hn) in Hn0. injection Hn0 as <-. exact Hself.
      + rewrite nth_error_upd_other in Hn0 by exact Hne.
        apply (thr_inv_other (c_last s) last' (c_log s) g tid tid0 th0); [congruence|exact Hg| |exact (It _ _ Hn0)].
        destruct Hlast as [(-> & _)|(now & b & w & -> & _)]; [left; reflexivity|].
        right. constructor. cbn. congruence.
    - apply Forall_app. split; [|exact Hnew].
      eapply Forall_impl; [|exact Ie]. intros e He. eapply gev_inv_upd; eauto.
    - rewrite grants_of_app, last_pass_app, spaced_app.
      destruct Hlast as [(-> & -> & _)|(now & b & w & -> & -> & Hsp & _)].
      + cbn. auto.
      + cbn [grants_of spaced last_pass fold_left g_pass g_b]. rewrite <- Is2. auto.
    - apply fails_justified_app. split; [exact If|exact Hfj].
    - rewrite gtids_app. destruct Hlast as [(_ & _ & ->)|(now & b & w & -> & _ & _ & Hpc)].
      + rewrite app_nil_r. exact In1.
      + cbn [gtids]. eapply Permutation_NoDup; [apply Permutation_cons_append|].
        constructor; [|exact In1]. destruct (It _ _ Hn) as (_ & _ & H3 & _). exact (H3 Hpc).
    - intros t Ht. rewrite upd_nth_length. rewrite gtids_app in Ht. apply in_app_or in Ht as [Ht|Ht]; [exact (In2 _ Ht)|].
      apply gtids_in_ev in Ht as (e & He & Het). rewrite Forall_forall in Hg. rewrite (Hg e He) in Het. subst t.
      apply nth_error_Some. congruence.
  Qed.

  Lemma cstep_inv s e : inv s -> inv (cstep s e).
  Proof.
    intro Hi. destruct e as [tid|t]; cbn [ThrottleConc.cstep]; [|exact Hi].
    destruct (nth_error (c_threads s) tid) as [th|] eqn:En; [|exact Hi].
    pose proof Hi as (It & _). pose proof (It _ _ En) as (H1 & H2 & H3 & H4 & H5 & H6).
    unfold ThrottleConc.tstep. destruct (t_pc th) eqn:Epc.
    - (* Start *)
      destruct (t_b th <=? 0) eqn:E0; [|destruct (blk (t_b th)) eqn:Ek].
      all: apply inv_assemble with (th := th);
        [exact Hi|exact En|constructor|intro; congruence| |constructor|left; auto|exact I].
      all: rewrite app_nil_r; unfold thr_inv, adm; cbn [t_pc t_b t_now t_loaded t_out done].
      + split; [intros [?|?]; congruence|]. split; [intro; congruence|]. split; [intro; congruence|].
        split; [exact H4|]. split; [intros w Hw; congruence|intro; congruence].
      + split; [intros [?|?]; congruence|]. split; [intro; congruence|]. split; [intro; congruence|].
        split; [exact H4|]. split; [intros w Hw; congruence|]. intros _. split; [reflexivity|]. split; [clear - E0; lia|left; exact Ek].
      + split; [intros _; split; [split; [clear - E0; lia|exact Ek]|reflexivity]|]. split; [intro; congruence|].
        split; [intros _; apply H3; congruence|].
        split; [exact H4|]. split; [intros w Hw; congruence|intro; congruence].
    - (* 201: load *)
      destruct (H1 (or_introl eq_refl)) as ([Hb Hk] & Ho).
      assert (Hf : fails tid (c_log s ++ [ELoad tid (c_last s)]) = fails tid (c_log s))
        by (rewrite fails_app; cbn; lia).
      assert (Hot : others tid (c_log s ++ [ELoad tid (c_last s)]) = others tid (c_log s))
        by (rewrite others_app; cbn; lia).
      destruct (pass_of (c_last s) (t_now th) (t_b th) - t_now th >? maxq) eqn:Eq.
      + (* blocked *)
        apply inv_assemble with (th := th); [exact Hi|exact En|repeat constructor|intro; congruence| | |left; auto|cbn; auto].
        * unfold thr_inv, adm; cbn [t_pc t_b t_now t_loaded t_out done].
          split; [intros [?|?]; congruence|]. split; [intro; congruence|]. split; [intro; congruence|].
          split; [rewrite fails_app, others_app; cbn; lia|]. split; [intros w Hw; congruence|].
          intros _. split; [reflexivity|]. split; [exact Hb|].
          right. exists (c_last s). apply in_or_app. right. right. left. reflexivity.
        * constructor; [exact I|]. constructor; [|constructor]. cbn.
          split; [lia|]. split; [exact Hb|]. split; [exact Hk|].
          eexists. split; [eapply nth_error_upd_same; exact En|]. cbn. auto.
      + (* on to the CAS *)
        apply inv_assemble with (th := th); [exact Hi|exact En|repeat constructor|intro; congruence| | |left; auto|cbn; auto].
        * unfold thr_inv, adm; cbn [t_pc t_b t_now t_loaded t_out].
          assert (Hs : since tid (c_log s ++ [ELoad tid (c_last s)]) = [])
            by (rewrite since_snoc; cbn; rewrite Nat.eqb_refl; reflexivity).
          split; [intros _; split; [split; assumption|reflexivity]|].
          split; [intros _; rewrite Hs; split; [lia|split; [exists (c_log s); reflexivity|split; [left; reflexivity|cbn; lia]]]|].
          split; [intros _; rewrite gtids_app; cbn; rewrite app_nil_r; apply H3; congruence|].
          split; [lia|]. split; [intros w Hw; congruence|intro; congruence].
        * constructor; [exact I|constructor].
    - (* 202: CAS *)
      destruct (H1 (or_intror eq_refl)) as ([Hb Hk] & Ho).
      destruct (H2 eq_refl) as (Hq & (l0 & Hl0) & Hdis & Hcnt).
      destruct (c_last s =? t_loaded th) eqn:Ec.
      + (* success *)
        assert (Hc : c_last s = t_loaded th) by lia.
        apply inv_assemble with (th := th); [exact Hi|exact En|repeat constructor|intro; congruence| | | |cbn; auto].
        * unfold thr_inv, adm; cbn [t_pc t_b t_now t_loaded t_out done].
          split; [intros [?|?]; congruence|]. split; [intro; congruence|]. split; [intro; congruence|].
          split; [rewrite fails_app, others_app; cbn; rewrite Nat.eqb_refl; cbn; lia|].
          split; [|intro; congruence].
          intros w Hw. injection Hw as <-. split; [reflexivity|]. eexists. apply in_or_app. right. left. reflexivity.
        * constructor; [|constructor]. cbn.
          split; [lia|]. split; [lia|]. split; [exact Hb|]. split; [exact Hk|].
          eexists. split; [eapply nth_error_upd_same; exact En|]. cbn. auto.
        * right. exists (t_now th), (t_b th), (pass_of (t_loaded th) (t_now th) (t_b th) - t_now th).
          rewrite Hc. split; [reflexivity|]. split; [lia|]. split; [unfold ThrottleConc.pass_of; lia|congruence].
      + (* failure: retry *)
        assert (Hc : c_last s <> t_loaded th) by lia.
        destruct Hdis as [Hdis|Hdis]; [contradiction|].
        pose proof (exists_grant_len _ _ Hdis) as Hlen.
        apply inv_assemble with (th := th); [exact Hi|exact En|repeat constructor|intro; congruence| | |left; auto| ].
        * unfold thr_inv, adm; cbn [t_pc t_b t_now t_loaded t_out goto].
          split; [intros _; split; [split; assumption|exact Ho]|].
          split; [intro; congruence|].
          split; [intros _; rewrite gtids_app; cbn; rewrite app_nil_r; apply H3; congruence|].
          split; [rewrite fails_app, others_app; cbn; rewrite Nat.eqb_refl; cbn; lia|].
          rewrite Ho. split; [intros w Hw; congruence|intro; congruence].
        * constructor; [exact I|constructor].
        * cbn. split; [|exact I]. split; [|exact Hdis]. exists (t_loaded th), l0. exact Hl0.
    - (* Done *)
      replace (upd_nth tid (fun _ => th) (c_threads s)) with (c_threads s) by (symmetry; apply upd_nth_id; exact En).
      rewrite app_nil_r. destruct s; exact Hi.
  Qed.

  Lemma cexec_inv sched s : inv s -> inv (cexec sched s).
  Proof. revert s. induction sched as [|e r IH]; intros s H; cbn; [exact H|]. apply IH. apply cstep_inv. exact H. Qed.

  Lemma cinit_inv bs : inv (cinit bs).
  Proof.
    unfold inv, cinit; cbn [c_last c_threads c_log]. split; [|cbn; repeat split; auto; try constructor; intros t [] ].
    intros tid th Hn. apply nth_error_In in Hn. apply in_map_iff in Hn as (b & <- & _).
    unfold thr_inv, mk_thread; cbn. repeat split; try congruence; try (destruct H; congruence); try (intros [?|?]; congruence); auto.
  Qed.

  Lemma reach_inv bs sched : inv (cexec sched (cinit bs)).
  Proof. apply cexec_inv, cinit_inv. Qed.

  (* ---------- the statements ---------- *)

  (* spacing, in the order of the successful CASes; the stored time is the last pass time *)
  Lemma conc_spacing bs sched :
    let s := cexec sched (cinit bs) in
    spaced iv last0 (grants_of (c_log s)) /\ c_last s = last_pass last0 (grants_of (c_log s)).
  Proof. intro s. exact (proj1 (proj2 (proj2 (reach_inv bs sched)))). Qed.

  (* every admitted caller: 0 <= wait <= maxq *)
  Lemma conc_wait_bound bs sched :
    Forall (fun o => match o with Some (OPass w) => 0 <= w <= maxq | _ => True end)
           (outcomes (cexec sched (cinit bs))).
  Proof.
    destruct (reach_inv bs sched) as (It & Ie & _).
    unfold outcomes. apply Forall_forall. intros o Ho. apply in_map_iff in Ho as (th & <- & Hin).
    apply In_nth_error in Hin as (tid & Hn).
    destruct (t_out th) as [[| w |]|] eqn:E; auto.
    destruct (It _ _ Hn) as (_ & _ & _ & _ & H5 & _). destruct (H5 w E) as (_ & seen & Hin).
    rewrite Forall_forall in Ie. specialize (Ie _ Hin). cbn in Ie. unfold ThrottleConc.pass_of in Ie. lia.
  Qed.

  (* every grant: pass time = max(seen + interval, own clock reading), wait within the limit,
     batch admissible, and it is the outcome of that caller *)
  Lemma conc_grants_ok bs sched :
    let s := cexec sched (cinit bs) in
    Forall (fun e => match e with
                     | EGrant tid now b w seen =>
                         now + w = Z.max (seen + iv b) now /\ 0 <= w <= maxq /\ 1 <= b /\ blk b = false /\
                         exists th, nth_error (c_threads s) tid = Some th /\
                                    t_out th = Some (OPass w) /\ t_now th = now /\ t_b th = b
                     | _ => True end) (c_log s).
  Proof.
    intro s. destruct (reach_inv bs sched) as (_ & Ie & _).
    eapply Forall_impl; [|exact Ie]. intros e He. destruct e; auto. cbn in He.
    destruct He as (H1 & H2 & H3 & H4 & th & Hn & _ & Hr). unfold ThrottleConc.pass_of in H1.
    repeat split; try lia; auto. exists th. auto.
  Qed.

  Lemma conc_pass_ge_arrival bs sched :
    Forall (fun g => g_now g <= g_pass g) (grants_of (c_log (cexec sched (cinit bs)))).
  Proof.
    pose proof (conc_grants_ok bs sched) as H. cbv zeta in H.
    induction H as [|e r He Hr IH]; cbn [grants_of]; [constructor|].
    destruct e; auto. constructor; [cbn; lia|exact IH].
  Qed.

  (* a rejection at the queueing test is justified by the value the caller loaded *)
  Lemma conc_block_seen bs sched : 0 <= maxq ->
    Forall (fun e => match e with EBlock _ now b seen => seen + iv b - now > maxq | _ => True end)
           (c_log (cexec sched (cinit bs))).
  Proof.
    intro Hq. destruct (reach_inv bs sched) as (_ & Ie & _).
    eapply Forall_impl; [|exact Ie]. intros e He. destruct e; auto. cbn in He. unfold ThrottleConc.pass_of in He. lia.
  Qed.

  (* every rejected caller: batch over the threshold, or a logged rejection on a loaded value *)
  Lemma conc_block_only_if bs sched tid th : 0 <= maxq ->
    let s := cexec sched (cinit bs) in
    nth_error (c_threads s) tid = Some th -> t_out th = Some OBlock ->
    1 <= t_b th /\
    (blk (t_b th) = true \/
     exists seen, In (EBlock tid (t_now th) (t_b th) seen) (c_log s) /\ seen + iv (t_b th) - t_now th > maxq).
  Proof.
    intros Hq s Hn Ho. pose proof (reach_inv bs sched) as (It & _).
    destruct (It _ _ Hn) as (_ & _ & _ & _ & _ & H6). destruct (H6 Ho) as (_ & Hb & Hd).
    split; [exact Hb|]. destruct Hd as [Hd|[seen Hd]]; [left; exact Hd|right].
    exists seen. split; [exact Hd|].
    pose proof (conc_block_seen bs sched Hq) as Hf. rewrite Forall_forall in Hf. exact (Hf _ Hd).
  Qed.

  (* lock-freedom *)
  Lemma conc_fails_justified bs sched : fails_justified [] (c_log (cexec sched (cinit bs))).
  Proof. exact (proj1 (proj2 (proj2 (proj2 (reach_inv bs sched))))). Qed.

  Lemma cexec_length sched s : length (c_threads (cexec sched s)) = length (c_threads s).
  Proof.
    unfold ThrottleConc.cexec. revert s. induction sched as [|e r IH]; intro s; cbn [fold_left]; [reflexivity|]. rewrite IH.
    destruct e as [t|t]; cbn; auto. destruct (nth_error (c_threads s) t) as [th|]; auto.
    destruct (tstep t (c_last s) (c_clock s) th) as [[l th'] g]. cbn. apply upd_nth_length.
  Qed.

  Lemma conc_fails_bound bs sched tid : (tid < length bs)%nat ->
    let s := cexec sched (cinit bs) in
    (fails tid (c_log s) <= others tid (c_log s))%nat /\ (others tid (c_log s) <= length bs - 1)%nat.
  Proof.
    intros Ht s. pose proof (reach_inv bs sched) as (It & _ & _ & _ & Hnd & Hlt). fold s in It, Hnd, Hlt.
    assert (Hlen : length (c_threads s) = length bs) by (subst s; rewrite cexec_length; apply map_length).
    split.
    - destruct (nth_error (c_threads s) tid) as [th|] eqn:En; [|apply nth_error_None in En; lia].
      destruct (It _ _ En) as (_ & _ & _ & H4 & _). exact H4.
    - unfold others. set (f := fun t => negb (Nat.eqb t tid)).
      assert (Hnd' : NoDup (tid :: filter f (gtids (c_log s)))).
      { constructor; [|apply NoDup_filter; exact Hnd]. intro Hin. apply filter_In in Hin as [_ Hin].
        unfold f in Hin. rewrite Nat.eqb_refl in Hin. discriminate. }
      assert (Hincl : incl (tid :: filter f (gtids (c_log s))) (seq 0 (length bs))).
      { intros t [<-|Hin]; apply in_seq; [lia|]. apply filter_In in Hin as [Hin _]. specialize (Hlt _ Hin). lia. }
      pose proof (NoDup_incl_length Hnd' Hincl) as Hle. rewrite seq_length in Hle. cbn [length] in Hle. lia.
  Qed.
End Generic.
