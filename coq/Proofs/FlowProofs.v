(* Proofs for C02: every array a flow rule reads (the global array of a resource node, or the
   rule's independent array) is, in every reachable state of the check/record machine of
   Model/Flow.v, the run of C08's leap array over a monotone event history whose pass events are
   exactly the admitted requests of the rule's target resource.  With C08's read theorem the
   window sum a rule compares with its threshold is the admitted tokens in the aligned window. *)
From Coq Require Import Floats.
From SG Require Import Base.Prelude Base.GoInt Base.GoFloat Model.LeapArray Model.StatNode Model.Flow
  Proofs.LeapArrayProofs Proofs.StatProofs Proofs.FlowFloat.
#[local] Open Scope Z_scope.

(* ---------- histories ---------- *)

Lemma smono_app t0 h l : smono t0 (h ++ l) <-> smono t0 h /\ smono (slast t0 h) l.
Proof.
  revert t0; induction h as [|x r IH]; intros t0; cbn [app smono slast].
  - tauto.
  - rewrite IH. tauto.
Qed.

Lemma slast_app t0 h l : slast t0 (h ++ l) = slast (slast t0 h) l.
Proof. revert t0; induction h as [|x r IH]; intros t0; cbn [app slast]; auto. Qed.

Lemma win_sum_app ev h l lo hi : win_sum ev (h ++ l) lo hi = win_sum ev h lo hi + win_sum ev l lo hi.
Proof. unfold win_sum. rewrite map_app, sumZ_app. reflexivity. Qed.

Lemma bla_run_app a h l : bla_run a (h ++ l) = bla_run (bla_run a h) l.
Proof. unfold bla_run. apply fold_left_app. Qed.

Lemma smono_le t0 t1 h : t0 <= t1 -> smono t1 h -> smono t0 h.
Proof. destruct h as [|x r]; cbn; [trivial|]. intros H [H1 H2]. split; [lia|assumption]. Qed.

(* ---------- the invariant of one array ---------- *)

Definition arr_inv (n itv : Z) (adm : list (Z * Z * Z)) (res now : Z) (a : bla) : Prop :=
  exists t0 h, 0 < t0 /\ smono t0 h /\ slast t0 h <= now /\
    a = bla_run (bla_new n itv t0) h /\
    forall lo hi, win_sum EvPass h lo hi = adm_sum adm res lo hi.

Lemma arr_inv_time n itv adm res now now' a :
  now <= now' -> arr_inv n itv adm res now a -> arr_inv n itv adm res now' a.
Proof. intros Hle (t0 & h & H1 & H2 & H3 & H4 & H5). exists t0, h. repeat split; auto; lia. Qed.

Lemma arr_inv_new n itv adm res t :
  0 < t -> (forall lo hi, adm_sum adm res lo hi = 0) -> arr_inv n itv adm res t (bla_new n itv t).
Proof.
  intros Ht H0. exists t, []. cbn [smono slast bla_run fold_left].
  split; [assumption|]. split; [trivial|]. split; [lia|]. split; [reflexivity|].
  intros lo hi. rewrite H0. reflexivity.
Qed.

(* events recorded at one instant t *)
Definition at_time (t : Z) (l : list sev) : Prop := Forall (fun x => sev_time x = t) l.

Lemma at_time_smono t l : at_time t l -> smono t l /\ slast t l = t.
Proof.
  induction 1 as [|x r Hx Hr IH]; cbn [smono slast]; [split; [trivial|reflexivity]|].
  rewrite Hx. destruct IH as [I1 I2]. split; [split; [lia|assumption]|assumption].
Qed.

Lemma slast_at_time s t l : at_time t l -> s <= t -> slast s l <= t.
Proof.
  intros H. revert s. induction H as [|x r Hx Hr IH]; intros s Hs; cbn [slast]; [assumption|].
  apply IH. lia.
Qed.

Lemma arr_inv_step n itv adm adm' res now t a l :
  arr_inv n itv adm res now a -> now <= t -> at_time t l ->
  (forall lo hi, adm_sum adm res lo hi + win_sum EvPass l lo hi = adm_sum adm' res lo hi) ->
  arr_inv n itv adm' res t (bla_run a l).
Proof.
  intros (t0 & h & H1 & H2 & H3 & H4 & H5) Hle Hat Hsum.
  destruct (at_time_smono t l Hat) as [Hm Hl].
  exists t0, (h ++ l). repeat split.
  - assumption.
  - apply smono_app. split; [assumption|]. apply (smono_le _ t); [lia|assumption].
  - rewrite slast_app. apply slast_at_time; [assumption|lia].
  - rewrite H4. symmetry. apply bla_run_app.
  - intros lo hi. rewrite win_sum_app, H5. apply Hsum.
Qed.

(* the window sums of the events the statistic slots record *)
Lemma in_win_eq lo hi t : in_win lo hi t = (lo <=? t) && (t <? hi).
Proof. reflexivity. Qed.

Lemma win_pass_add t b lo hi :
  win_sum EvPass [SAdd t EvPass b] lo hi = if (lo <=? t) && (t <? hi) then b else 0.
Proof. unfold win_sum, in_win; cbn. destruct ((lo <=? t) && (t <? hi)); lia. Qed.

Lemma win_pass_conc_add t cc b lo hi :
  win_sum EvPass [SConc t cc; SAdd t EvPass b] lo hi = if (lo <=? t) && (t <? hi) then b else 0.
Proof. unfold win_sum, in_win; cbn. destruct ((lo <=? t) && (t <? hi)); lia. Qed.

Lemma win_pass_other t ev b lo hi : ev <> EvPass -> win_sum EvPass [SAdd t ev b] lo hi = 0.
Proof. intros H. unfold win_sum; cbn. destruct (Z.eqb_spec ev EvPass); [contradiction|]. cbn. lia. Qed.

Lemma win_pass_other2 t e1 b1 e2 b2 lo hi : e1 <> EvPass -> e2 <> EvPass ->
  win_sum EvPass [SAdd t e1 b1; SAdd t e2 b2] lo hi = 0.
Proof.
  intros H1 H2. unfold win_sum; cbn.
  destruct (Z.eqb_spec e1 EvPass); [contradiction|]. destruct (Z.eqb_spec e2 EvPass); [contradiction|]. cbn. lia.
Qed.

Lemma adm_sum_cons_same adm t res b lo hi :
  adm_sum ((t, res, b) :: adm) res lo hi = (if (lo <=? t) && (t <? hi) then b else 0) + adm_sum adm res lo hi.
Proof. cbn [adm_sum]. rewrite Z.eqb_refl. cbn [andb]. reflexivity. Qed.

Lemma adm_sum_cons_other adm t res res' b lo hi : res <> res' ->
  adm_sum ((t, res, b) :: adm) res' lo hi = adm_sum adm res' lo hi.
Proof. intros H. cbn [adm_sum]. destruct (Z.eqb_spec res res'); [contradiction|]. cbn [andb]. lia. Qed.

(* ---------- reading an array through a view ---------- *)

Definition geom_ok (n itv : Z) : Prop := 0 < n /\ itv mod n = 0 /\ 0 < itv < two32.

Lemma smono_slast_ge t0 h : smono t0 h -> t0 <= slast t0 h.
Proof.
  revert t0; induction h as [|x r IH]; intros t0; cbn [smono slast]; [lia|].
  intros [H1 H2]. specialize (IH _ H2). lia.
Qed.

Lemma arr_inv_view_sum n itv adm res now a vn vitv t :
  geom_ok n itv -> arr_inv n itv adm res now a ->
  0 <= vn -> 0 <= vitv -> check_reuse vn vitv n itv = true ->
  now <= t < two62' ->
  view_sum a {| v_n := vn; v_itv := vitv |} t EvPass
  = adm_sum adm res (bstart (itv / n) t + itv / n - vitv) (bstart (itv / n) t + itv / n)
  /\ la_bl a = itv / n.
Proof.
  intros (Hn & Hd & Hi) (t0 & h & H1 & H2 & H3 & H4 & H5) Hvn Hvitv Hck Ht. subst a. split.
  - unfold view_sum.
    pose proof (smono_slast_ge t0 h H2) as Hge.
    assert (Hrec : slast t0 h < bstart (itv / n) t + itv / n - vitv + itv).
    { destruct (check_reuse_tiles vn vitv n itv Hvn Hvitv ltac:(lia) ltac:(lia) Hck)
        as (_ & Hv0 & _ & _ & _ & _ & _ & _ & _ & Hvle & _).
      apply (read_now_ok n itv Hn Hd Hi); lia. }
    rewrite (view_eq_ref n itv Hn Hd Hi t0 h t vn vitv H1 H2 Hvn Hvitv Hck ltac:(lia) ltac:(lia) Hrec).
    rewrite ref_win_sum by (unfold ev_ok, EvPass; lia). apply H5.
  - destruct (bla_run_slots (bla_new n itv t0) h) as (_ & _ & ->). reflexivity.
Qed.

Lemma check_reuse_self n itv : geom_ok n itv -> check_reuse n itv n itv = true.
Proof.
  intros (Hn & Hd & Hi). unfold check_reuse.
  assert (Hb : 0 < itv / n).
  { apply Z.mod_divide in Hd; [|lia]. destruct Hd as [q ->]. rewrite Z.div_mul by lia. nia. }
  rewrite Hd, Z.mod_same by lia. rewrite Z.mod_same by lia.
  destruct (Z.eqb_spec itv 0); [lia|]. destruct (Z.eqb_spec n 0); [lia|]. reflexivity.
Qed.

(* check_validity = VOk is the boolean check of Model/LeapArray.v *)
Lemma check_validity_ok vn vitv pn pitv :
  check_validity vn vitv pn pitv = VOk <-> check_reuse vn vitv pn pitv = true.
Proof.
  unfold check_validity, check_reuse.
  destruct ((vitv =? 0) || (vn =? 0) || negb (vitv mod vn =? 0)); cbn [negb andb]; [split; discriminate|].
  destruct ((pitv =? 0) || (pn =? 0) || negb (pitv mod pn =? 0)); cbn [negb andb]; [split; discriminate|].
  destruct (pitv mod vitv =? 0); cbn [negb andb]; [|split; discriminate].
  destruct ((vitv / vn) mod (pitv / pn) =? 0); cbn [negb]; split; auto; discriminate.
Qed.

Lemma check_validity_nonreusable vn vitv pn pitv :
  check_validity vn vitv pn pitv = VNonReusable -> vitv <> 0 /\ vn <> 0 /\ vitv mod vn = 0.
Proof.
  unfold check_validity.
  destruct (Z.eqb_spec vitv 0); cbn [orb]; [discriminate|].
  destruct (Z.eqb_spec vn 0); cbn [orb]; [discriminate|].
  destruct (Z.eqb_spec (vitv mod vn) 0); cbn [negb]; [|discriminate]. auto.
Qed.

Lemma arr_inv_keep n itv adm adm' res now t a :
  arr_inv n itv adm res now a -> now <= t ->
  (forall lo hi, adm_sum adm res lo hi = adm_sum adm' res lo hi) ->
  arr_inv n itv adm' res t a.
Proof.
  intros (t0 & h & H1 & H2 & H3 & H4 & H5) Hle Hs. exists t0, h.
  split; [assumption|]. split; [assumption|]. split; [lia|]. split; [assumption|].
  intros lo hi. rewrite H5. apply Hs.
Qed.

(* ---------- association-list facts ---------- *)

Lemma alookup_upd_node r ns res f :
  alookup r (upd_node ns res f)
  = match alookup r ns with Some nd => Some (if r =? res then f nd else nd) | None => None end.
Proof.
  unfold upd_node. induction ns as [|[k v] rest IH]; cbn [map alookup fst snd]; [reflexivity|].
  destruct (Z.eqb_spec k res) as [E|E]; cbn [alookup fst snd].
  - destruct (Z.eqb_spec r k) as [E2|E2].
    + subst. rewrite Z.eqb_refl. reflexivity.
    + exact IH.
  - destruct (Z.eqb_spec r k) as [E2|E2].
    + subst. destruct (Z.eqb_spec k res); [contradiction|reflexivity].
    + exact IH.
Qed.

Lemma alookup_upd_node_some r ns res f : alookup r (upd_node ns res f) <> None <-> alookup r ns <> None.
Proof. rewrite alookup_upd_node. destruct (alookup r ns); split; intros H; try congruence; discriminate. Qed.

Lemma alookup_app_none {A} r (l1 l2 : list (Z * A)) :
  alookup r (l1 ++ l2) = match alookup r l1 with Some x => Some x | None => alookup r l2 end.
Proof.
  induction l1 as [|[k v] rest IH]; cbn [app alookup]; [reflexivity|].
  destruct (r =? k); [reflexivity|exact IH].
Qed.

Lemma ensure_node_keeps c ns res t r : alookup r ns <> None -> alookup r (ensure_node c ns res t) <> None.
Proof.
  unfold ensure_node. destruct (alookup res ns); [auto|]. rewrite alookup_app_none.
  destruct (alookup r ns); [discriminate|congruence].
Qed.

Lemma ensure_node_has c ns res t : alookup res (ensure_node c ns res t) <> None.
Proof.
  unfold ensure_node. destruct (alookup res ns) eqn:E; [congruence|]. rewrite alookup_app_none, E.
  cbn [alookup]. rewrite Z.eqb_refl. discriminate.
Qed.

Lemma ensure_node_none c ns res t r : alookup r (ensure_node c ns res t) = None -> alookup r ns = None.
Proof.
  unfold ensure_node. destruct (alookup res ns); [auto|]. rewrite alookup_app_none.
  destruct (alookup r ns); [discriminate|auto].
Qed.

(* ---------- the invariant of the world ---------- *)

Definition cfg_ok (c : cfg) : Prop :=
  geom_ok (g_n c) (g_itv c) /\ 0 <= m_n c /\ 0 <= m_itv c /\
  check_reuse (m_n c) (m_itv c) (g_n c) (g_itv c) = true.

Definition ctrl_inv (c : cfg) (ns : list (Z * node)) (adm : list (Z * Z * Z)) (now own : Z) (x : ctrl) : Prop :=
  match c_stat x with
  | RView res v =>
      res = c_target own x /\ 0 <= v_n v /\ 0 <= v_itv v /\
      check_reuse (v_n v) (v_itv v) (g_n c) (g_itv c) = true /\ alookup res ns <> None
  | RAlone a v =>
      geom_ok (v_n v) (v_itv v) /\ arr_inv (v_n v) (v_itv v) adm (c_target own x) now a
  end.

Definition node_ok (c : cfg) (adm : list (Z * Z * Z)) (now : Z) (p : Z * node) : Prop :=
  arr_inv (g_n c) (g_itv c) adm (fst p) now (nd_arr (snd p)).

Definition Inv (w : world) (now : Z) : Prop :=
  cfg_ok (w_cfg w) /\ 0 < now /\
  Forall (node_ok (w_cfg w) (w_adm w) now) (w_nodes w) /\
  (forall res, alookup res (w_nodes w) = None -> forall lo hi, adm_sum (w_adm w) res lo hi = 0) /\
  Forall (fun p => Forall (ctrl_inv (w_cfg w) (w_nodes w) (w_adm w) now (fst p)) (snd p)) (w_ctrls w) /\
  Forall (fun q => alookup (p_res (snd q)) (w_nodes w) <> None) (w_pend w).

Lemma ctrl_inv_mono c ns ns' adm adm' now t own x :
  ctrl_inv c ns adm now own x -> now <= t ->
  (forall r, alookup r ns <> None -> alookup r ns' <> None) ->
  (forall lo hi, adm_sum adm (c_target own x) lo hi = adm_sum adm' (c_target own x) lo hi) ->
  ctrl_inv c ns' adm' t own x.
Proof.
  unfold ctrl_inv. destruct (c_stat x) as [res v|a v].
  - intros (H1 & H2 & H3 & H4 & H5) _ Hns _. repeat split; auto.
  - intros (H1 & H2) Hle _ Hs. split; [assumption|]. eapply arr_inv_keep; eassumption.
Qed.

Lemma Inv_time w now t : Inv w now -> now <= t -> Inv w t.
Proof.
  intros (Hc & Hn & Hnodes & Hnone & Hctrls & Hpend) Hle.
  split; [assumption|]. split; [lia|]. split; [|split; [assumption|split; [|assumption]]].
  - eapply Forall_impl; [|exact Hnodes]. intros p Hp. eapply arr_inv_time; eassumption.
  - eapply Forall_impl; [|exact Hctrls]. intros p Hp. eapply Forall_impl; [|exact Hp].
    intros x Hx. eapply ctrl_inv_mono; eauto.
Qed.

(* the prepare slot + rule check *)
Lemma Inv_chk w now tid t res b : Inv w now -> now <= t -> Inv (fst (chk w tid t res b)) t.
Proof.
  intros HI Hle. apply (Inv_time _ _ t) in HI; [|assumption].
  destruct HI as (Hc & Hn & Hnodes & Hnone & Hctrls & Hpend).
  unfold chk. cbn [fst w_cfg w_nodes w_ctrls w_pend w_adm].
  split; [assumption|]. split; [assumption|]. split; [|split; [|split]].
  - unfold ensure_node. destruct (alookup res (w_nodes w)) eqn:E; [assumption|].
    apply Forall_app. split; [assumption|]. constructor; [|constructor].
    unfold node_ok, new_node, node_new. cbn [fst snd nd_arr].
    apply arr_inv_new; [assumption|]. apply Hnone. assumption.
  - intros r Hr. apply Hnone. eapply ensure_node_none. eassumption.
  - eapply Forall_impl; [|exact Hctrls]. intros p Hp. eapply Forall_impl; [|exact Hp].
    intros x Hx. eapply ctrl_inv_mono; eauto; [lia|]. intros r. apply ensure_node_keeps.
  - constructor.
    + cbn [snd p_res]. apply ensure_node_has.
    + eapply Forall_impl; [|exact Hpend]. intros q Hq. apply ensure_node_keeps. assumption.
Qed.

Lemma premove_Forall (P : Z * pend -> Prop) tid l : Forall P l -> Forall P (premove tid l).
Proof.
  induction 1 as [|[k v] r Hx Hr IH]; cbn [premove]; [constructor|].
  destruct (tid =? k); [assumption|constructor; assumption].
Qed.

Lemma alookup_In {A} k (l : list (Z * A)) v : alookup k l = Some v -> In (k, v) l.
Proof.
  induction l as [|[k' v'] r IH]; cbn [alookup]; [discriminate|].
  destruct (Z.eqb_spec k k'); intros H.
  - inversion H; subst. left. reflexivity.
  - right. auto.
Qed.

(* node histories grow by the events the statistic slot records *)
Lemma node_pass_arr nd t b :
  nd_arr (node_add (node_inc nd t) t EvPass b)
  = bla_run (nd_arr nd) [SConc t (i32 (nd_conc nd + 1)); SAdd t EvPass b].
Proof. reflexivity. Qed.
Lemma node_block_arr nd t b : nd_arr (node_add nd t EvBlock b) = bla_run (nd_arr nd) [SAdd t EvBlock b].
Proof. reflexivity. Qed.
Lemma node_exit_arr nd t rt b :
  nd_arr (node_dec (node_add (node_add nd t EvRt rt) t EvComplete b))
  = bla_run (nd_arr nd) [SAdd t EvRt rt; SAdd t EvComplete b].
Proof. reflexivity. Qed.

Lemma at2 t x y : sev_time x = t -> sev_time y = t -> at_time t [x; y].
Proof. intros; repeat constructor; assumption. Qed.
Lemma at1 t x : sev_time x = t -> at_time t [x].
Proof. intros; repeat constructor; assumption. Qed.

(* statistic slots of an admitted request *)
Lemma Inv_rec_pass w now t res b pd :
  Inv w now -> now <= t -> alookup res (w_nodes w) <> None ->
  Forall (fun q => alookup (p_res (snd q)) (w_nodes w) <> None) pd ->
  Inv (rec_pass w t res b pd) t.
Proof.
  intros (Hc & Hn & Hnodes & Hnone & Hctrls & Hpend) Hle Hhas Hpd.
  unfold rec_pass. split; [assumption|]. split; [lia|]. cbn [w_cfg w_nodes w_ctrls w_pend w_adm].
  split; [|split; [|split]].
  - unfold upd_node. apply Forall_map. eapply Forall_impl; [|exact Hnodes].
    intros [k nd] Hp. unfold node_ok in *. cbn [fst snd] in *.
    destruct (Z.eqb_spec k res) as [E|E]; cbn [fst snd].
    + subst k. rewrite node_pass_arr. eapply arr_inv_step; [exact Hp|assumption|apply at2; reflexivity|].
      intros lo hi. rewrite adm_sum_cons_same, win_pass_conc_add. lia.
    + eapply arr_inv_keep; [exact Hp|assumption|]. intros lo hi. rewrite adm_sum_cons_other by congruence. reflexivity.
  - intros r Hr lo hi. rewrite alookup_upd_node in Hr.
    destruct (alookup r (w_nodes w)) eqn:E; [discriminate|].
    assert (r <> res) by (intros ->; congruence).
    rewrite adm_sum_cons_other by congruence. apply Hnone. assumption.
  - unfold feed_alone. apply Forall_map. eapply Forall_impl; [|exact Hctrls].
    intros [own l] Hl. cbn [fst snd] in *. apply Forall_map. eapply Forall_impl; [|exact Hl].
    intros x Hx. unfold feed_ctrl, ctrl_inv in *. destruct (c_stat x) as [rs v|a v] eqn:Es.
    + rewrite Es. destruct Hx as (H1 & H2 & H3 & H4 & H5). repeat split; auto.
      apply alookup_upd_node_some. assumption.
    + destruct Hx as (Hg & Ha). destruct (Z.eqb_spec (c_target own x) res) as [E|E].
      * cbn [c_stat]. split; [assumption|]. unfold c_target in *. cbn [c_rule]. rewrite E in *.
        change (bla_add a t EvPass b) with (bla_run a [SAdd t EvPass b]).
        eapply arr_inv_step; [exact Ha|assumption|apply at1; reflexivity|].
        intros lo hi. rewrite adm_sum_cons_same, win_pass_add. lia.
      * rewrite Es. split; [assumption|]. eapply arr_inv_keep; [exact Ha|assumption|].
        intros lo hi. rewrite adm_sum_cons_other by congruence. reflexivity.
  - eapply Forall_impl; [|exact Hpd]. intros q Hq. apply alookup_upd_node_some. assumption.
Qed.

Lemma Inv_rec_block w now t res b pd :
  Inv w now -> now <= t ->
  Forall (fun q => alookup (p_res (snd q)) (w_nodes w) <> None) pd ->
  Inv (rec_block w t res b pd) t.
Proof.
  intros (Hc & Hn & Hnodes & Hnone & Hctrls & Hpend) Hle Hpd.
  unfold rec_block. split; [assumption|]. split; [lia|]. cbn [w_cfg w_nodes w_ctrls w_pend w_adm].
  split; [|split; [|split]].
  - unfold upd_node. apply Forall_map. eapply Forall_impl; [|exact Hnodes].
    intros [k nd] Hp. unfold node_ok in *. cbn [fst snd] in *.
    destruct (Z.eqb_spec k res) as [E|E]; cbn [fst snd].
    + rewrite node_block_arr. eapply arr_inv_step; [exact Hp|assumption|apply at1; reflexivity|].
      intros lo hi. rewrite win_pass_other by (unfold EvBlock, EvPass; lia). lia.
    + eapply arr_inv_keep; [exact Hp|assumption|]. reflexivity.
  - intros r Hr. rewrite alookup_upd_node in Hr.
    destruct (alookup r (w_nodes w)) eqn:E; [discriminate|]. apply Hnone. assumption.
  - eapply Forall_impl; [|exact Hctrls]. intros p Hp. eapply Forall_impl; [|exact Hp].
    intros x Hx. eapply ctrl_inv_mono; eauto. intros r. apply alookup_upd_node_some.
  - eapply Forall_impl; [|exact Hpd]. intros q Hq. apply alookup_upd_node_some. assumption.
Qed.

Lemma Inv_exit w now t res b t_in :
  Inv w now -> now <= t -> Inv (fst (estep w (EExit t res b t_in))) t.
Proof.
  intros (Hc & Hn & Hnodes & Hnone & Hctrls & Hpend) Hle.
  cbn [estep fst]. unfold with_nodes. split; [assumption|]. split; [lia|].
  cbn [w_cfg w_nodes w_ctrls w_pend w_adm].
  split; [|split; [|split]].
  - unfold upd_node. apply Forall_map. eapply Forall_impl; [|exact Hnodes].
    intros [k nd] Hp. unfold node_ok in *. cbn [fst snd] in *.
    destruct (Z.eqb_spec k res) as [E|E]; cbn [fst snd].
    + rewrite node_exit_arr. eapply arr_inv_step; [exact Hp|assumption|apply at2; reflexivity|].
      intros lo hi. rewrite win_pass_other2 by (unfold EvRt, EvComplete, EvPass; lia). lia.
    + eapply arr_inv_keep; [exact Hp|assumption|]. reflexivity.
  - intros r Hr. rewrite alookup_upd_node in Hr.
    destruct (alookup r (w_nodes w)) eqn:E; [discriminate|]. apply Hnone. assumption.
  - eapply Forall_impl; [|exact Hctrls]. intros p Hp. eapply Forall_impl; [|exact Hp].
    intros x Hx. eapply ctrl_inv_mono; eauto. intros r. apply alookup_upd_node_some.
  - eapply Forall_impl; [|exact Hpend]. intros q Hq. apply alookup_upd_node_some. assumption.
Qed.

(* ---------- schedules ---------- *)

Definition ev_time (e : ev) : Z :=
  match e with EChk _ t _ _ => t | ERec _ t => t | EExit t _ _ _ => t end.

Fixpoint emono (now : Z) (es : list ev) : Prop :=
  match es with [] => True | e :: r => now <= ev_time e /\ emono (ev_time e) r end.
Fixpoint elast (now : Z) (es : list ev) : Z :=
  match es with [] => now | e :: r => elast (ev_time e) r end.

Lemma Inv_estep w now e : Inv w now -> now <= ev_time e -> Inv (fst (estep w e)) (ev_time e).
Proof.
  intros HI Hle. destruct e as [tid t res b|tid t|t res b t_in]; cbn [ev_time] in *.
  - cbn [estep]. apply Inv_chk with now; assumption.
  - cbn [estep]. destruct (alookup tid (w_pend w)) as [p|] eqn:E; cbn [fst].
    + assert (Hpd : Forall (fun q => alookup (p_res (snd q)) (w_nodes w) <> None) (premove tid (w_pend w))).
      { apply premove_Forall. apply HI. }
      assert (Hhas : alookup (p_res p) (w_nodes w) <> None).
      { destruct HI as (_ & _ & _ & _ & _ & Hpend). rewrite Forall_forall in Hpend.
        apply (Hpend (tid, p)). apply alookup_In. assumption. }
      destruct (p_out p); first [eapply Inv_rec_pass; eassumption | eapply Inv_rec_block; eassumption].
    + eapply Inv_time; eassumption.
  - apply Inv_exit with now; assumption.
Qed.

Lemma Inv_erun es : forall w now, Inv w now -> emono now es -> Inv (fst (erun w es)) (elast now es).
Proof.
  induction es as [|e r IH]; intros w now HI Hm; cbn [erun elast fst].
  - assumption.
  - destruct Hm as [H1 H2]. destruct (estep w e) as [w1 o] eqn:E1.
    destruct (erun w1 r) as [w2 os] eqn:E2. cbn [fst].
    pose proof (Inv_estep w now e HI H1) as HI1. rewrite E1 in HI1. cbn [fst] in HI1.
    specialize (IH w1 (ev_time e) HI1 H2). rewrite E2 in IH. exact IH.
Qed.

(* ---------- LoadRules establishes the invariant ---------- *)

Definition rules_ok (rules : list (Z * list rule)) : Prop :=
  Forall (fun p => Forall (fun r => 0 <= r_itv r < two32) (snd p)) rules.

Lemma geom_bl_pos n itv : geom_ok n itv -> 0 < itv / n.
Proof.
  intros (Hn & Hd & Hi). apply Z.mod_divide in Hd; [|lia]. destruct Hd as [q ->].
  rewrite Z.div_mul by lia. nia.
Qed.

Lemma sample_count_nonneg c itv : 0 < g_bl c -> 0 <= itv -> 0 <= sample_count c itv.
Proof.
  intros Hb Hi. unfold sample_count.
  destruct (g_itv c <? itv); [lia|]. destruct (itv <? g_bl c); [lia|].
  destruct (itv mod g_bl c =? 0); [|lia]. apply Z.div_pos; lia.
Qed.

Lemma adm_nil res lo hi : adm_sum [] res lo hi = 0.
Proof. reflexivity. Qed.

Lemma generate_stat_inv c ns own r now s :
  cfg_ok c -> 0 < now -> 0 <= r_itv r < two32 ->
  alookup (rule_target own r) ns <> None ->
  generate_stat c own r now = Some s ->
  forall i, ctrl_inv c ns [] now own {| c_idx := i; c_rule := r; c_stat := s |}.
Proof.
  intros (Hg & Hmn & Hmi & Hm) Hnow Hitv Hhas Hgen i.
  pose proof (geom_bl_pos _ _ Hg) as Hbl. fold (g_bl c) in Hbl.
  unfold generate_stat, stat_kind_of in Hgen. unfold ctrl_inv, c_target. cbn [c_stat c_rule].
  destruct ((r_itv r =? 0) || (r_itv r =? m_itv c)).
  - inversion Hgen; subst s. cbn [v_n v_itv]. repeat split; auto.
  - pose proof (sample_count_nonneg c (r_itv r) Hbl ltac:(lia)) as Hsc.
    destruct (check_validity (sample_count c (r_itv r)) (r_itv r) (g_n c) (g_itv c)) eqn:E;
      try discriminate; inversion Hgen; subst s; cbn [v_n v_itv].
    + apply check_validity_ok in E. repeat split; auto; lia.
    + destruct (check_validity_nonreusable _ _ _ _ E) as (H1 & H2 & H3).
      split; [unfold geom_ok; repeat split; lia|].
      apply arr_inv_new; [assumption|]. intros; apply adm_nil.
Qed.

Lemma build_ctrls_inv c ns own now rs : forall i,
  cfg_ok c -> 0 < now -> Forall (fun r => 0 <= r_itv r < two32) rs ->
  Forall (fun r => rule_valid r = true -> alookup (rule_target own r) ns <> None) rs ->
  Forall (ctrl_inv c ns [] now own) (build_ctrls c own now i rs).
Proof.
  induction rs as [|r rest IH]; intros i Hc Hnow Hi Hhas; cbn [build_ctrls]; [constructor|].
  inversion Hi; subst. inversion Hhas; subst.
  destruct (rule_valid r) eqn:Ev; [|apply IH; assumption].
  destruct (generate_stat c own r now) as [s|] eqn:Eg; [|apply IH; assumption].
  constructor; [|apply IH; assumption].
  eapply generate_stat_inv; eauto.
Qed.

Lemma node_ok_ensure c now ns res :
  0 < now -> Forall (node_ok c [] now) ns -> Forall (node_ok c [] now) (ensure_node c ns res now).
Proof.
  intros Hnow H. unfold ensure_node. destruct (alookup res ns); [assumption|].
  apply Forall_app. split; [assumption|]. constructor; [|constructor].
  unfold node_ok, new_node, node_new. cbn [fst snd nd_arr]. apply arr_inv_new; [assumption|]. intros; apply adm_nil.
Qed.

Lemma load_nodes_spec c own now rs : forall ns,
  0 < now -> Forall (node_ok c [] now) ns ->
  Forall (node_ok c [] now) (load_nodes c ns own now rs) /\
  (forall r, alookup r ns <> None -> alookup r (load_nodes c ns own now rs) <> None) /\
  Forall (fun r => rule_valid r = true -> alookup (rule_target own r) (load_nodes c ns own now rs) <> None) rs.
Proof.
  induction rs as [|r rest IH]; intros ns Hnow Hns; cbn [load_nodes].
  - repeat split; auto.
  - set (ns1 := if rule_valid r then ensure_node c ns (rule_target own r) now else ns).
    assert (H1 : Forall (node_ok c [] now) ns1).
    { unfold ns1. destruct (rule_valid r); [apply node_ok_ensure; assumption|assumption]. }
    assert (H2 : forall k, alookup k ns <> None -> alookup k ns1 <> None).
    { unfold ns1. destruct (rule_valid r); [intros k; apply ensure_node_keeps|auto]. }
    destruct (IH ns1 Hnow H1) as (I1 & I2 & I3).
    split; [assumption|]. split; [intros k Hk; apply I2, H2, Hk|].
    constructor; [|assumption].
    intros Hv. apply I2. unfold ns1. rewrite Hv. apply ensure_node_has.
Qed.

Lemma load_all_spec c now rules : cfg_ok c -> 0 < now -> rules_ok rules -> forall ns,
  Forall (node_ok c [] now) ns ->
  Forall (node_ok c [] now) (fst (load_all c now rules ns)) /\
  (forall r, alookup r ns <> None -> alookup r (fst (load_all c now rules ns)) <> None) /\
  Forall (fun p => Forall (ctrl_inv c (fst (load_all c now rules ns)) [] now (fst p)) (snd p))
         (snd (load_all c now rules ns)).
Proof.
  intros Hc Hnow. induction rules as [|[own rs] rest IH]; intros Hr ns Hns; cbn [load_all].
  - cbn [fst snd]. repeat split; auto.
  - inversion Hr as [|? ? Hrs Hrest]; subst. cbn [snd] in Hrs.
    destruct (load_nodes_spec c own now rs ns Hnow Hns) as (L1 & L2 & L3).
    specialize (IH Hrest (load_nodes c ns own now rs) L1).
    destruct (load_all c now rest (load_nodes c ns own now rs)) as [ns2 cs] eqn:E.
    cbn [fst snd] in *. destruct IH as (I1 & I2 & I3).
    split; [assumption|]. split; [intros k Hk; apply I2, L2, Hk|].
    assert (Hb : Forall (ctrl_inv c ns2 [] now own) (build_ctrls c own now 0 rs)).
    { apply build_ctrls_inv; auto. eapply Forall_impl; [|exact L3]. intros r Hx Hv. apply I2, Hx, Hv. }
    destruct (build_ctrls c own now 0 rs) as [|x l]; [assumption|].
    constructor; [exact Hb|assumption].
Qed.

Lemma Inv_load c t0 rules : cfg_ok c -> 0 < t0 -> rules_ok rules -> Inv (load c t0 rules) t0.
Proof.
  intros Hc Ht Hr. unfold load.
  pose proof (load_all_spec c t0 rules Hc Ht Hr [] (Forall_nil _)) as H.
  destruct (load_all c t0 rules []) as [ns cs]. cbn [fst snd] in H. destruct H as (H1 & _ & H3).
  split; [assumption|]. split; [assumption|]. cbn [w_cfg w_nodes w_ctrls w_pend w_adm].
  split; [assumption|]. split; [intros; apply adm_nil|]. split; [assumption|constructor].
Qed.

Lemma load_cfg c t0 rules : w_cfg (load c t0 rules) = c.
Proof. unfold load. destruct (load_all c t0 rules []). reflexivity. Qed.

Lemma estep_cfg w e : w_cfg (fst (estep w e)) = w_cfg w.
Proof.
  destruct e as [tid t res b|tid t|t res b t_in]; cbn [estep chk fst w_cfg]; try reflexivity.
  destruct (alookup tid (w_pend w)) as [p|]; cbn [fst]; [|reflexivity]. destruct (p_out p); reflexivity.
Qed.

Lemma erun_cfg es : forall w, w_cfg (fst (erun w es)) = w_cfg w.
Proof.
  induction es as [|e r IH]; intros w; cbn [erun fst]; [reflexivity|].
  destruct (estep w e) as [w1 o] eqn:E1. destruct (erun w1 r) as [w2 os] eqn:E2. cbn [fst].
  pose proof (IH w1) as H. rewrite E2 in H. cbn [fst] in H. rewrite H.
  pose proof (estep_cfg w e) as H'. rewrite E1 in H'. exact H'.
Qed.

(* every state the machine reaches from a rule load, under any schedule with non-decreasing time *)
Theorem reachable_inv c t0 rules es :
  cfg_ok c -> 0 < t0 -> rules_ok rules -> emono t0 es ->
  Inv (fst (erun (load c t0 rules) es)) (elast t0 es).
Proof. intros Hc Ht Hr Hm. apply Inv_erun; [apply Inv_load; assumption|assumption]. Qed.

(* ---------- what a rule reads ---------- *)

Lemma ctrls_of_inv w now own x :
  Inv w now -> In x (ctrls_of w own) -> ctrl_inv (w_cfg w) (w_nodes w) (w_adm w) now own x.
Proof.
  intros (_ & _ & _ & _ & Hctrls & _) Hin. unfold ctrls_of in Hin.
  destruct (alookup own (w_ctrls w)) as [l|] eqn:E; [|contradiction].
  apply alookup_In in E. rewrite Forall_forall in Hctrls. specialize (Hctrls _ E). cbn [fst snd] in Hctrls.
  rewrite Forall_forall in Hctrls. apply Hctrls. assumption.
Qed.

(* the sum a rule compares with its threshold is the admitted tokens of its target resource in
   its bucket-aligned window *)
Theorem ctrl_sum_eq w now own x t :
  Inv w now -> now <= t < two62' -> In x (ctrls_of w own) ->
  ctrl_sum w x t
  = Some (adm_sum (w_adm w) (c_target own x) (win_lo (w_cfg w) x t) (win_hi (w_cfg w) x t)).
Proof.
  intros HI Ht Hin. pose proof (ctrls_of_inv w now own x HI Hin) as Hx.
  destruct HI as ((Hg & Hmn & Hmi & Hm) & Hn & Hnodes & _).
  unfold ctrl_inv in Hx. unfold ctrl_sum, win_lo, win_hi, ctrl_bl, ctrl_itv.
  destruct (c_stat x) as [res v|a v].
  - destruct Hx as (Hres & Hvn & Hvi & Hck & Hhas).
    destruct (alookup res (w_nodes w)) as [nd|] eqn:E; [|congruence].
    apply alookup_In in E. rewrite Forall_forall in Hnodes. specialize (Hnodes _ E).
    unfold node_ok in Hnodes. cbn [fst snd] in Hnodes.
    destruct (arr_inv_view_sum _ _ _ _ _ _ (v_n v) (v_itv v) t Hg Hnodes Hvn Hvi Hck Ht) as (Hs & _).
    destruct v as [vn vitv]. cbn [v_n v_itv] in *. rewrite Hs, Hres. unfold g_bl. reflexivity.
  - destruct Hx as (Hgv & Ha).
    destruct (arr_inv_view_sum _ _ _ _ _ _ (v_n v) (v_itv v) t Hgv Ha ltac:(destruct Hgv; lia) ltac:(destruct Hgv as (_ & _ & ?); lia)
               (check_reuse_self _ _ Hgv) Ht) as (Hs & Hbl).
    destruct v as [vn vitv]. cbn [v_n v_itv] in *. rewrite Hs, Hbl. reflexivity.
Qed.

Lemma ctrl_sum_nodes w w' x t : w_nodes w = w_nodes w' -> ctrl_sum w x t = ctrl_sum w' x t.
Proof. intros H. unfold ctrl_sum. rewrite H. reflexivity. Qed.

Lemma flow_check_nodes w w' cs t b : w_nodes w = w_nodes w' -> flow_check w cs t b = flow_check w' cs t b.
Proof.
  intros H. induction cs as [|x r IH]; cbn [flow_check]; [reflexivity|].
  rewrite (ctrl_sum_nodes w w' x t H), IH. reflexivity.
Qed.

(* Slot.Check: pass iff every rule passes; a block names the first rule that does not *)
Definition ctrl_passes (w : world) (x : ctrl) (t b : Z) : bool :=
  match ctrl_sum w x t with Some s => negb (rule_blocks (r_thr (c_rule x)) s b) | None => true end.

Lemma flow_check_pass w cs t b :
  flow_check w cs t b = OPass <-> Forall (fun x => ctrl_passes w x t b = true) cs.
Proof.
  induction cs as [|x r IH]; cbn [flow_check].
  - split; [constructor|reflexivity].
  - rewrite Forall_cons_iff, <- IH. unfold ctrl_passes. destruct (ctrl_sum w x t) as [s|].
    + destruct (rule_blocks (r_thr (c_rule x)) s b); cbn [negb].
      * split; [discriminate|]. intros [H _]. discriminate.
      * tauto.
    + tauto.
Qed.

Lemma flow_check_block w cs t b i s :
  flow_check w cs t b = OBlock i s ->
  exists pre x post, cs = pre ++ x :: post /\ Forall (fun y => ctrl_passes w y t b = true) pre /\
    c_idx x = i /\ ctrl_sum w x t = Some s /\ rule_blocks (r_thr (c_rule x)) s b = true.
Proof.
  induction cs as [|x r IH]; cbn [flow_check]; [discriminate|].
  destruct (ctrl_sum w x t) as [s'|] eqn:Es.
  - destruct (rule_blocks (r_thr (c_rule x)) s' b) eqn:Eb.
    + intros H. inversion H; subst. exists [], x, r. repeat split; auto.
    + intros H. destruct (IH H) as (pre & y & post & -> & Hp & Hi & Hs & Hb).
      exists (x :: pre), y, post. repeat split; auto. constructor; [|assumption].
      unfold ctrl_passes. rewrite Es, Eb. reflexivity.
  - intros H. destruct (IH H) as (pre & y & post & -> & Hp & Hi & Hs & Hb).
    exists (x :: pre), y, post. repeat split; auto. constructor; [|assumption].
    unfold ctrl_passes. rewrite Es. reflexivity.
Qed.

(* ---------- batches are non-negative ---------- *)

Definition ev_nonneg (e : ev) : Prop := match e with EChk _ _ _ b => 0 <= b | _ => True end.

Definition NonNeg (w : world) : Prop :=
  Forall (fun a => 0 <= snd a) (w_adm w) /\ Forall (fun q => 0 <= p_batch (snd q)) (w_pend w).

Lemma NonNeg_estep w e : NonNeg w -> ev_nonneg e -> NonNeg (fst (estep w e)).
Proof.
  intros (Ha & Hp) He. destruct e as [tid t res b|tid t|t res b t_in]; cbn [estep chk fst].
  - split; cbn [w_adm w_pend]; [assumption|]. constructor; [exact He|assumption].
  - destruct (alookup tid (w_pend w)) as [p|] eqn:E; cbn [fst]; [|split; assumption].
    assert (Hb : 0 <= p_batch p).
    { rewrite Forall_forall in Hp. apply (Hp (tid, p)). apply alookup_In. assumption. }
    pose proof (premove_Forall _ tid _ Hp) as Hp'.
    destruct (p_out p); split; cbn [rec_pass rec_block w_adm w_pend]; auto; constructor; auto.
  - split; assumption.
Qed.

Lemma NonNeg_erun es : forall w, NonNeg w -> Forall ev_nonneg es -> NonNeg (fst (erun w es)).
Proof.
  induction es as [|e r IH]; intros w Hw He; cbn [erun fst]; [assumption|].
  inversion He; subst. destruct (estep w e) as [w1 o] eqn:E1. destruct (erun w1 r) as [w2 os] eqn:E2. cbn [fst].
  pose proof (NonNeg_estep w e Hw ltac:(assumption)) as Hn1. rewrite E1 in Hn1.
  pose proof (IH w1 Hn1 ltac:(assumption)) as Hn2. rewrite E2 in Hn2. exact Hn2.
Qed.

Lemma NonNeg_load c t0 rules : NonNeg (load c t0 rules).
Proof. unfold load. destruct (load_all c t0 rules []). split; constructor. Qed.

Lemma adm_sum_nonneg adm res lo hi : Forall (fun a => 0 <= snd a) adm -> 0 <= adm_sum adm res lo hi.
Proof.
  induction 1 as [|[[t r] b] rest Hx Hr IH]; cbn [adm_sum]; [lia|]. cbn [snd] in Hx.
  destruct ((r =? res) && (lo <=? t) && (t <? hi)); lia.
Qed.

(* ---------- the decision of one rule and of the whole check ---------- *)

Definition win_adm (w : world) (own : Z) (x : ctrl) (t : Z) : Z :=
  adm_sum (w_adm w) (c_target own x) (win_lo (w_cfg w) x t) (win_hi (w_cfg w) x t).

Lemma ctrl_passes_iff w now own x t b :
  Inv w now -> NonNeg w -> now <= t < two62' -> In x (ctrls_of w own) ->
  thr_ok (r_thr (c_rule x)) = true -> 0 <= b -> win_adm w own x t + b < 2 ^ 53 ->
  (ctrl_passes w x t b = true <-> win_adm w own x t + b <= thr_limit (r_thr (c_rule x))).
Proof.
  intros HI (Hnn & _) Ht Hin Hok Hb Hbig. unfold ctrl_passes.
  rewrite (ctrl_sum_eq w now own x t HI Ht Hin). fold (win_adm w own x t).
  rewrite rule_blocks_exact; auto; [|apply adm_sum_nonneg; assumption].
  rewrite negb_true_iff, Z.ltb_ge. reflexivity.
Qed.

(* the world the rule check runs in: the prepare slot may have created the node *)
Definition prepared (w : world) (res t : Z) : world := with_nodes w (ensure_node (w_cfg w) (w_nodes w) res t).

Lemma chk_out w tid t res b : snd (chk w tid t res b) = flow_check (prepared w res t) (ctrls_of w res) t b.
Proof. reflexivity. Qed.

Lemma Inv_prepared w now res t : Inv w now -> now <= t -> Inv (prepared w res t) t.
Proof.
  intros HI Hle. pose proof (Inv_chk w now 0 t res 0 HI Hle) as H.
  destruct H as (Hc & Hn & Hnodes & Hnone & Hctrls & Hpend).
  unfold chk in *. cbn [fst w_cfg w_nodes w_ctrls w_pend w_adm] in *.
  unfold prepared, with_nodes. split; [assumption|]. split; [assumption|].
  cbn [w_cfg w_nodes w_ctrls w_pend w_adm].
  split; [assumption|]. split; [assumption|]. split; [assumption|]. inversion Hpend; assumption.
Qed.

Theorem check_decision w now tid t res b :
  Inv w now -> NonNeg w -> now <= t < two62' -> 0 <= b ->
  Forall (fun x => thr_ok (r_thr (c_rule x)) = true) (ctrls_of w res) ->
  Forall (fun x => win_adm w res x t + b < 2 ^ 53) (ctrls_of w res) ->
  (snd (chk w tid t res b) = OPass <->
   Forall (fun x => win_adm w res x t + b <= thr_limit (r_thr (c_rule x))) (ctrls_of w res)).
Proof.
  intros HI HN Ht Hb Hok Hbig. rewrite chk_out, flow_check_pass.
  pose proof (Inv_prepared w now res t HI ltac:(lia)) as HI'.
  assert (HN' : NonNeg (prepared w res t)) by exact HN.
  rewrite !Forall_forall in *. split; intros H x Hin.
  - apply (ctrl_passes_iff (prepared w res t) t res x t b HI' HN' ltac:(lia) Hin (Hok x Hin) Hb (Hbig x Hin)).
    apply H. assumption.
  - apply (ctrl_passes_iff (prepared w res t) t res x t b HI' HN' ltac:(lia) Hin (Hok x Hin) Hb (Hbig x Hin)).
    apply H. assumption.
Qed.

(* a rejection names the first exhausted rule and reports the admitted tokens in its window *)
Theorem check_block w now tid t res b i s :
  Inv w now -> NonNeg w -> now <= t < two62' -> 0 <= b ->
  Forall (fun x => thr_ok (r_thr (c_rule x)) = true) (ctrls_of w res) ->
  Forall (fun x => win_adm w res x t + b < 2 ^ 53) (ctrls_of w res) ->
  snd (chk w tid t res b) = OBlock i s ->
  exists pre x post, ctrls_of w res = pre ++ x :: post /\ c_idx x = i /\ s = win_adm w res x t /\
    Forall (fun y => win_adm w res y t + b <= thr_limit (r_thr (c_rule y))) pre /\
    thr_limit (r_thr (c_rule x)) < win_adm w res x t + b.
Proof.
  intros HI HN Ht Hb Hok Hbig Hout. rewrite chk_out in Hout.
  destruct (flow_check_block _ _ _ _ _ _ Hout) as (pre & x & post & Hcs & Hpre & Hi & Hs & Hblk).
  pose proof (Inv_prepared w now res t HI ltac:(lia)) as HI'.
  assert (HN' : NonNeg (prepared w res t)) by exact HN.
  exists pre, x, post. split; [assumption|]. split; [assumption|].
  assert (Hinx : In x (ctrls_of w res)) by (rewrite Hcs; apply in_or_app; right; left; reflexivity).
  rewrite Forall_forall in Hok, Hbig.
  assert (Es : s = win_adm w res x t).
  { pose proof (ctrl_sum_eq (prepared w res t) t res x t HI' ltac:(lia) Hinx) as E. rewrite Hs in E.
    inversion E. reflexivity. }
  split; [assumption|]. split.
  - rewrite Forall_forall in *. intros y Hy.
    assert (Hiny : In y (ctrls_of w res)) by (rewrite Hcs; apply in_or_app; left; assumption).
    apply (ctrl_passes_iff (prepared w res t) t res y t b HI' HN' ltac:(lia) Hiny (Hok y Hiny) Hb (Hbig y Hiny)).
    apply Hpre. assumption.
  - destruct HN as (Hnn & _).
    rewrite rule_blocks_exact in Hblk; auto.
    + apply Z.ltb_lt in Hblk. rewrite <- Es. exact Hblk.
    + rewrite Es. apply adm_sum_nonneg. assumption.
    + rewrite Es. apply Hbig. assumption.
Qed.

(* rejected requests consume nothing: the statistic phase of a blocked request leaves the admitted
   list, hence every later read of every rule, unchanged *)
Theorem blocked_consumes_nothing w now t res b pd t' own x :
  Inv w now -> now <= t -> t <= t' < two62' ->
  Forall (fun q => alookup (p_res (snd q)) (w_nodes w) <> None) pd ->
  let w' := rec_block w t res b pd in
  w_adm w' = w_adm w /\
  (In x (ctrls_of w' own) ->
   ctrl_sum w' x t' = Some (adm_sum (w_adm w) (c_target own x) (win_lo (w_cfg w) x t') (win_hi (w_cfg w) x t'))).
Proof.
  intros HI Hle Ht' Hpd w'. split; [reflexivity|]. intros Hin.
  pose proof (Inv_rec_block w now t res b pd HI Hle Hpd) as HI'.
  apply (ctrl_sum_eq w' t own x t' HI' ltac:(lia) Hin).
Qed.

(* ---------- no excess in any aligned window (sequential histories) ---------- *)

Definition seq_events (ops : list op) : list ev := flat_map (op_events 0) ops.

Lemma run_erun ops : forall w, fst (run w ops) = fst (erun w (seq_events ops)).
Proof.
  induction ops as [|o r IH]; intros w; cbn [run seq_events flat_map]; [reflexivity|].
  fold (seq_events r). destruct o as [t res b|t res b t_in]; cbn [step op_events app erun].
  - change (estep w (EChk 0 t res b)) with (chk w 0 t res b).
    destruct (chk w 0 t res b) as [w1 out] eqn:E1.
    destruct (estep w1 (ERec 0 t)) as [w2 o2] eqn:E2. cbn [fst].
    destruct (run w2 r) as [w3 xs] eqn:E3. destruct (erun w2 (seq_events r)) as [w4 os] eqn:E4. cbn [fst].
    pose proof (IH w2) as H. rewrite E3, E4 in H. exact H.
  - destruct (estep w (EExit t res b t_in)) as [w1 o1] eqn:E1.
    destruct (run w1 r) as [w3 xs] eqn:E3. destruct (erun w1 (seq_events r)) as [w4 os] eqn:E4. cbn [fst].
    pose proof (IH w1) as H. rewrite E3, E4 in H. exact H.
Qed.

Lemma aligned_above bl t a : 0 < bl -> a mod bl = 0 -> t < a -> bstart bl t + bl <= a.
Proof.
  intros Hbl Ha Ht. unfold bstart. apply Z.mod_divide in Ha; [|lia]. destruct Ha as [q ->].
  pose proof (Z.mod_pos_bound t bl Hbl). pose proof (Z.div_mod t bl ltac:(lia)).
  assert (t / bl < q) by nia. nia.
Qed.

Definition adm_bounded (now : Z) (adm : list (Z * Z * Z)) : Prop :=
  Forall (fun a => fst (fst a) <= now /\ 0 <= snd a) adm.

Lemma adm_sum_widen adm res t lo hi lo' hi' :
  adm_bounded t adm -> lo' <= lo -> t < hi' -> adm_sum adm res lo hi <= adm_sum adm res lo' hi'.
Proof.
  intros H Hlo Hhi. induction H as [|[[t1 r1] b1] rest Hx Hr IH]; cbn [adm_sum]; [lia|].
  cbn [fst snd] in Hx. destruct (r1 =? res); cbn [andb]; [|lia].
  destruct (Z.leb_spec lo t1), (Z.ltb_spec t1 hi), (Z.leb_spec lo' t1), (Z.ltb_spec t1 hi'); cbn [andb]; lia.
Qed.

Lemma window_step adm res t b bl I L :
  0 < bl -> I mod bl = 0 ->
  adm_bounded t adm ->
  (forall s, s mod bl = 0 -> adm_sum adm res s (s + I) <= L) ->
  adm_sum adm res (bstart bl t + bl - I) (bstart bl t + bl) + b <= L ->
  forall s, s mod bl = 0 -> adm_sum ((t, res, b) :: adm) res s (s + I) <= L.
Proof.
  intros Hbl Hdiv Hb Hall Hnew s Hs. rewrite adm_sum_cons_same.
  destruct ((s <=? t) && (t <? s + I)) eqn:E; [|specialize (Hall s Hs); lia].
  apply andb_prop in E. destruct E as [E1 E2]. apply Z.leb_le in E1. apply Z.ltb_lt in E2.
  assert (Ha : (s + I) mod bl = 0).
  { rewrite Z.add_mod by lia. rewrite Hs, Hdiv. reflexivity. }
  pose proof (aligned_above bl t (s + I) Hbl Ha E2) as Hab.
  pose proof (adm_sum_widen adm res t s (s + I) (bstart bl t + bl - I) (bstart bl t + bl) Hb ltac:(lia)) as Hw.
  assert (t < bstart bl t + bl). { unfold bstart. pose proof (Z.mod_pos_bound t bl Hbl). lia. }
  specialize (Hw ltac:(lia)). lia.
Qed.

Definition adm_total (adm : list (Z * Z * Z)) : Z := sumZ (map snd adm).
Fixpoint ops_total (ops : list op) : Z :=
  match ops with [] => 0 | Enter _ _ b :: r => b + ops_total r | Exit _ _ _ _ :: r => ops_total r end.

Lemma adm_sum_le_total adm res lo hi : Forall (fun a => 0 <= snd a) adm -> adm_sum adm res lo hi <= adm_total adm.
Proof.
  unfold adm_total. induction 1 as [|[[t r] b] rest Hx Hr IH]; cbn [adm_sum map snd sumZ fold_right]; [lia|].
  cbn [snd] in Hx. fold (sumZ (map snd rest)). destruct ((r =? res) && (lo <=? t) && (t <? hi)); lia.
Qed.

Definition op_time (o : op) : Z := match o with Enter t _ _ => t | Exit t _ _ _ => t end.
Fixpoint omono (now : Z) (ops : list op) : Prop :=
  match ops with [] => True | o :: r => now <= op_time o /\ omono (op_time o) r end.
Fixpoint olast (now : Z) (ops : list op) : Z :=
  match ops with [] => now | o :: r => olast (op_time o) r end.
Definition op_nonneg (o : op) : Prop := match o with Enter _ _ b => 0 <= b | Exit _ _ _ _ => True end.

Lemma alookup_map_keys {A} (f : Z -> A -> A) k (l : list (Z * A)) :
  alookup k (map (fun p => (fst p, f (fst p) (snd p))) l)
  = match alookup k l with Some v => Some (f k v) | None => None end.
Proof.
  induction l as [|[k' v] r IH]; cbn [map alookup fst snd]; [reflexivity|].
  destruct (Z.eqb_spec k k'); [subst; reflexivity|exact IH].
Qed.

Section NoExcess.
Variables (res bl I : Z) (r : rule).
Hypothesis Hbl : 0 < bl.
Hypothesis Hdiv : I mod bl = 0.
Hypothesis Hown : r_assoc r = false.
Hypothesis Hthr : thr_ok (r_thr r) = true.

(* the rule r is in force on res and reads windows of length I aligned to buckets of length bl *)
Definition has_rule (w : world) : Prop :=
  exists x, In x (ctrls_of w res) /\ c_rule x = r /\ ctrl_bl (w_cfg w) x = bl /\ ctrl_itv x = I.

Definition windows_ok (w : world) : Prop :=
  forall s, s mod bl = 0 -> adm_sum (w_adm w) res s (s + I) <= thr_limit (r_thr r).

Definition SeqInv (w : world) (now : Z) : Prop :=
  Inv w now /\ NonNeg w /\ w_pend w = [] /\ adm_bounded now (w_adm w) /\ has_rule w /\ windows_ok w.

Lemma feed_ctrl_attrs c own rs t b x :
  c_rule (feed_ctrl own rs t b x) = c_rule x /\ ctrl_bl c (feed_ctrl own rs t b x) = ctrl_bl c x /\
  ctrl_itv (feed_ctrl own rs t b x) = ctrl_itv x.
Proof.
  unfold feed_ctrl, ctrl_bl, ctrl_itv. destruct (c_stat x) as [rv v|a v] eqn:E; [rewrite E; auto|].
  destruct (c_target own x =? rs); cbn [c_rule c_stat]; [|rewrite E]; auto.
Qed.

Lemma has_rule_feed w w' rs t b :
  w_cfg w' = w_cfg w -> w_ctrls w' = feed_alone (w_ctrls w) rs t b -> has_rule w -> has_rule w'.
Proof.
  intros Hc Hf (x & Hin & H1 & H2 & H3). unfold has_rule, ctrls_of in *. rewrite Hf, Hc.
  unfold feed_alone. rewrite (alookup_map_keys (fun k l => map (feed_ctrl k rs t b) l)).
  destruct (alookup res (w_ctrls w)) as [l|]; [|contradiction].
  exists (feed_ctrl res rs t b x). split; [apply in_map; assumption|].
  destruct (feed_ctrl_attrs (w_cfg w) res rs t b x) as (A1 & A2 & A3). rewrite A1, A2, A3. auto.
Qed.

Lemma has_rule_same w w' : w_cfg w' = w_cfg w -> w_ctrls w' = w_ctrls w -> has_rule w -> has_rule w'.
Proof. intros Hc Hf. unfold has_rule, ctrls_of. rewrite Hf, Hc. auto. Qed.

Lemma adm_bounded_time now t adm : now <= t -> adm_bounded now adm -> adm_bounded t adm.
Proof. intros Hle H. eapply Forall_impl; [|exact H]. cbn. intros a [H1 H2]. split; lia. Qed.

Lemma SeqInv_step w now o :
  SeqInv w now -> now <= op_time o < two62' -> op_nonneg o ->
  adm_total (w_adm w) + ops_total [o] < 2 ^ 53 ->
  SeqInv (fst (step w o)) (op_time o) /\
  adm_total (w_adm (fst (step w o))) <= adm_total (w_adm w) + ops_total [o].
Proof.
  intros (HI & HN & Hp & Hb & Hr & Hw) Ht Hnn Hsmall.
  destruct o as [t rs b|t rs b t_in]; cbn [op_time op_nonneg ops_total] in *.
  - (* Enter *)
    cbn [step]. destruct (chk w 0 t rs b) as [w1 out] eqn:E1.
    assert (Hout : out = snd (chk w 0 t rs b)) by (rewrite E1; reflexivity).
    assert (Hw1 : w1 = fst (chk w 0 t rs b)) by (rewrite E1; reflexivity).
    pose proof (Inv_chk w now 0 t rs b HI ltac:(lia)) as HI1. rewrite <- Hw1 in HI1.
    assert (Hpend1 : w_pend w1 = [(0, {| p_res := rs; p_batch := b; p_out := out |})]).
    { rewrite Hw1, Hout. unfold chk. cbn [fst snd w_pend]. rewrite Hp. reflexivity. }
    assert (Hadm1 : w_adm w1 = w_adm w) by (rewrite Hw1; reflexivity).
    assert (Hcfg1 : w_cfg w1 = w_cfg w) by (rewrite Hw1; reflexivity).
    assert (Hctrls1 : w_ctrls w1 = w_ctrls w) by (rewrite Hw1; reflexivity).
    assert (Hnodes1 : alookup rs (w_nodes w1) <> None).
    { destruct HI1 as (_ & _ & _ & _ & _ & Hpd). rewrite Hpend1 in Hpd. inversion Hpd; assumption. }
    cbn [estep]. rewrite Hpend1. cbn [alookup]. rewrite Z.eqb_refl. cbn [premove p_out p_res p_batch fst].
    rewrite Z.eqb_refl.
    assert (Hblock : forall w2, w2 = rec_block w1 t rs b [] ->
              SeqInv w2 t /\ adm_total (w_adm w2) <= adm_total (w_adm w) + (b + 0)).
    { intros w2 ->. split; [|cbn [rec_block w_adm]; rewrite Hadm1; lia].
      split; [eapply Inv_rec_block; [exact HI1|lia|constructor]|].
      split; [split; cbn [rec_block w_adm w_pend]; [rewrite Hadm1; apply HN|constructor]|].
      split; [reflexivity|]. cbn [rec_block w_adm].
      split; [rewrite Hadm1; eapply adm_bounded_time; [|exact Hb]; lia|].
      split; [apply (has_rule_same w); auto; cbn [rec_block w_cfg w_ctrls]; congruence|].
      unfold windows_ok. cbn [rec_block w_adm]. rewrite Hadm1. exact Hw. }
    destruct out as [|i s|] eqn:Eo; [|apply Hblock; reflexivity|].
    + (* admitted *)
      assert (Hpass : flow_check (prepared w rs t) (ctrls_of w rs) t b = OPass).
      { rewrite <- (chk_out w 0). rewrite <- Hout. reflexivity. }
      split.
      * split; [eapply Inv_rec_pass; [exact HI1|lia|assumption|constructor]|].
        split; [split; cbn [rec_pass w_adm w_pend]; [constructor; [cbn; lia|rewrite Hadm1; apply HN]|constructor]|].
        split; [reflexivity|]. cbn [rec_pass w_adm]. rewrite Hadm1.
        split; [constructor; [cbn; lia|eapply adm_bounded_time; [|exact Hb]; lia]|].
        split; [apply (has_rule_feed w _ rs t b); auto; cbn [rec_pass w_cfg w_ctrls]; congruence|].
        unfold windows_ok. cbn [rec_pass w_adm]. rewrite Hadm1.
        destruct (Z.eqb_spec rs res) as [Ers|Ers].
        -- subst rs. destruct Hr as (x & Hin & Hx1 & Hx2 & Hx3).
           apply flow_check_pass in Hpass. rewrite Forall_forall in Hpass. specialize (Hpass x Hin).
           pose proof (Inv_prepared w now res t HI ltac:(lia)) as HI'.
           assert (HN' : NonNeg (prepared w res t)) by exact HN.
           assert (Htgt : c_target res x = res) by (unfold c_target, rule_target; rewrite Hx1, Hown; reflexivity).
           assert (Hwin : win_adm (prepared w res t) res x t
                          = adm_sum (w_adm w) res (bstart bl t + bl - I) (bstart bl t + bl)).
           { unfold win_adm, win_lo, win_hi, prepared, with_nodes. cbn [w_adm w_cfg]. rewrite Htgt, Hx2, Hx3. reflexivity. }
           assert (Hsm : win_adm (prepared w res t) res x t + b < 2 ^ 53).
           { rewrite Hwin. pose proof (adm_sum_le_total (w_adm w) res (bstart bl t + bl - I) (bstart bl t + bl) ltac:(apply HN)). lia. }
           apply (ctrl_passes_iff (prepared w res t) t res x t b HI' HN' ltac:(lia) Hin ltac:(rewrite Hx1; exact Hthr) Hnn Hsm) in Hpass.
           rewrite Hwin, Hx1 in Hpass.
           apply window_step; auto. eapply adm_bounded_time; [|exact Hb]; lia.
        -- intros s Hs. rewrite adm_sum_cons_other by congruence. apply Hw. assumption.
      * cbn [rec_pass w_adm]. rewrite Hadm1. unfold adm_total. cbn [map snd sumZ fold_right].
        fold (sumZ (map snd (w_adm w))). lia.
    + (* flow_check never returns ONone *)
      exfalso. assert (Hf : flow_check (prepared w rs t) (ctrls_of w rs) t b = ONone).
      { rewrite <- (chk_out w 0). rewrite <- Hout. reflexivity. }
      clear - Hf. induction (ctrls_of w rs) as [|x l IH]; cbn [flow_check] in Hf; [discriminate|].
      destruct (ctrl_sum (prepared w rs t) x t); [destruct (rule_blocks _ _ _); [discriminate|auto]|auto].
  - (* Exit *)
    split; [|cbn [step estep fst with_nodes w_adm]; lia].
    split; [apply (Inv_exit w now t rs b t_in HI); lia|].
    cbn [step estep fst]. unfold with_nodes. cbn [w_adm w_pend].
    split; [exact HN|]. split; [assumption|].
    split; [eapply adm_bounded_time; [|exact Hb]; lia|].
    split; [apply (has_rule_same w); auto|exact Hw].
Qed.

Lemma SeqInv_run ops : forall w now,
  SeqInv w now -> omono now ops -> olast now ops < two62' -> Forall op_nonneg ops ->
  adm_total (w_adm w) + ops_total ops < 2 ^ 53 ->
  SeqInv (fst (run w ops)) (olast now ops).
Proof.
  induction ops as [|o rest IH]; intros w now HS Hm Hl Hnn Hsm; cbn [run olast fst]; [assumption|].
  destruct Hm as [Hm1 Hm2]. inversion Hnn as [|? ? Ho Hrest]; subst.
  assert (Hge : op_time o <= olast (op_time o) rest).
  { clear - Hm2. revert Hm2. generalize (op_time o). induction rest as [|o2 r2 IH2]; intros t0 Hm; cbn [olast omono] in *; [lia|].
    destruct Hm as [H1 H2]. specialize (IH2 _ H2). lia. }
  assert (Hrest_nn : 0 <= ops_total rest).
  { clear - Hrest. induction Hrest as [|o2 r2 H2 Hr2 IH2]; cbn [ops_total]; [lia|]. destruct o2; cbn in H2; lia. }
  assert (Ho1 : ops_total (o :: rest) = ops_total [o] + ops_total rest).
  { destruct o; cbn [ops_total]; lia. }
  destruct (SeqInv_step w now o HS ltac:(cbn [olast] in Hl; lia) Ho ltac:(lia)) as (HS1 & Htot).
  destruct (step w o) as [w1 x] eqn:E1. cbn [fst] in *.
  destruct (run w1 rest) as [w2 xs] eqn:E2. cbn [fst].
  pose proof (IH w1 (op_time o) HS1 Hm2 ltac:(cbn [olast] in Hl; exact Hl) Hrest ltac:(lia)) as H.
  rewrite E2 in H. exact H.
Qed.

End NoExcess.

(* ---------- the ghost list is the list of admitted requests of the trace ---------- *)

Fixpoint trace_adm (ops : list op) (outs : list obs) (acc : list (Z * Z * Z)) : list (Z * Z * Z) :=
  match ops, outs with
  | Enter t res b :: r, o :: os =>
      trace_adm r os (match o with OBlock _ _ => acc | _ => (t, res, b) :: acc end)
  | Exit _ _ _ _ :: r, _ :: os => trace_adm r os acc
  | _, _ => acc
  end.

Lemma step_adm w o : w_pend w = [] ->
  w_pend (fst (step w o)) = [] /\
  w_adm (fst (step w o)) = trace_adm [o] [snd (step w o)] (w_adm w).
Proof.
  intros Hp. destruct o as [t res b|t res b t_in]; cbn [step trace_adm].
  - destruct (chk w 0 t res b) as [w1 out] eqn:E1. cbn [fst snd].
    assert (Hw1 : w1 = fst (chk w 0 t res b)) by (rewrite E1; reflexivity).
    assert (Ho : out = snd (chk w 0 t res b)) by (rewrite E1; reflexivity).
    assert (Hpend1 : w_pend w1 = [(0, {| p_res := res; p_batch := b; p_out := out |})]).
    { rewrite Hw1, Ho. unfold chk. cbn [fst snd w_pend]. rewrite Hp. reflexivity. }
    assert (Hadm1 : w_adm w1 = w_adm w) by (rewrite Hw1; reflexivity).
    cbn [estep]. rewrite Hpend1. cbn [alookup]. rewrite Z.eqb_refl. cbn [premove p_out p_res p_batch fst].
    rewrite Z.eqb_refl. destruct out; cbn [rec_pass rec_block w_pend w_adm]; rewrite Hadm1; auto.
  - cbn [estep fst snd with_nodes w_pend w_adm]. auto.
Qed.

Lemma run_adm ops : forall w, w_pend w = [] ->
  w_adm (fst (run w ops)) = trace_adm ops (snd (run w ops)) (w_adm w).
Proof.
  induction ops as [|o r IH]; intros w Hp; cbn [run]; [reflexivity|].
  destruct (step_adm w o Hp) as (Hp1 & Ha1).
  destruct (step w o) as [w1 x] eqn:E1. cbn [fst snd] in *.
  specialize (IH w1 Hp1). destruct (run w1 r) as [w2 xs] eqn:E2. cbn [fst snd] in *.
  rewrite IH, Ha1. destruct o; reflexivity.
Qed.

Lemma load_pend c t0 rules : w_pend (load c t0 rules) = [].
Proof. unfold load. destruct (load_all c t0 rules []). reflexivity. Qed.
Lemma load_adm c t0 rules : w_adm (load c t0 rules) = [].
Proof. unfold load. destruct (load_all c t0 rules []). reflexivity. Qed.

(* ---------- no excess, from a rule load ---------- *)

Theorem no_excess c t0 rules ops res r bl I :
  cfg_ok c -> 0 < t0 -> rules_ok rules ->
  omono t0 ops -> olast t0 ops < two62' -> Forall op_nonneg ops -> ops_total ops < 2 ^ 53 ->
  0 < bl -> I mod bl = 0 -> r_assoc r = false -> thr_ok (r_thr r) = true ->
  has_rule res bl I r (load c t0 rules) ->
  forall s, s mod bl = 0 ->
  adm_sum (w_adm (fst (run (load c t0 rules) ops))) res s (s + I) <= thr_limit (r_thr r).
Proof.
  intros Hc Ht0 Hr Hm Hl Hnn Hsm Hbl Hdiv Hown Hthr Hhas.
  assert (HS : SeqInv res bl I r (load c t0 rules) t0).
  { split; [apply Inv_load; assumption|]. split; [apply NonNeg_load|]. split; [apply load_pend|].
    split; [rewrite load_adm; constructor|]. split; [assumption|].
    unfold windows_ok. rewrite load_adm. intros s _. cbn [adm_sum]. apply thr_limit_nonneg. assumption. }
  pose proof (SeqInv_run res bl I r Hbl Hdiv Hown Hthr ops (load c t0 rules) t0 HS Hm Hl Hnn
                ltac:(rewrite load_adm; cbn; lia)) as H.
  destruct H as (_ & _ & _ & _ & _ & Hw). exact Hw.
Qed.
